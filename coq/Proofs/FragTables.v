(* Proofs/FragTables.v -- property C14 (fragment markers) for render trees WITH tables.
   Extends Proofs/FragStream.v (table-free trees) with the cell-skipping notion of
   Proofs/RenderConserve.v (`tree_stream`).  Every main theorem is followed by Print Assumptions
   (Closed under the global context).
   (A)  raw mode, any tree, document order: c14_render_node_raw, c14_render_tree_raw,
        c14_lines_from_read_raw, c14_markers_raw;
   (B1) any layout, multiset: c14_render_node_tables, c14_render_tree_tables,
        c14_lines_from_read_tables, c14_markers_tables; the recorded finding
        row_marker_in_empty_first_cell characterised (section 11);
   (B2) order inside one cell: c14_cells_in_order, row_line_items, row_line_m,
        c14_columns_per_cell;
   (C)  markers and the layout (partial): est_erase, tbl_col_sizes_erase, sub_empty_frag.
   SUMMARY (vocabulary, exact statements, hypotheses, what is not proved) at the end. *)
From H2T Require Import Base Tagged Wrap Sub Css Dom Render Api.
From H2T Require Import Proofs.Conserve Proofs.WrapInv Proofs.RenderWidth Proofs.Small.
From H2T Require Import Proofs.Footnotes Proofs.RenderConserve Proofs.FragStream.
From H2T Require Proofs.TableProof.
From Coq Require Import Lia ZifyN ZifyBool ZifyNat Permutation.

Local Arguments N.add : simpl never.
Local Arguments N.sub : simpl never.
Local Arguments N.mul : simpl never.
Local Arguments N.div : simpl never.
Local Arguments N.modulo : simpl never.
Local Arguments N.leb : simpl never.
Local Arguments N.ltb : simpl never.
Local Arguments N.eqb : simpl never.
Local Arguments N.min : simpl never.
Local Arguments N.max : simpl never.
Local Arguments N.to_nat : simpl never.
Local Arguments N.of_nat : simpl never.
Local Open Scope N_scope.

(* ================================================================== *)
(* 1. Streams: exact order or up to a permutation                       *)
(* ================================================================== *)

Definition relm (ord : bool) (a b : list sitem) : Prop :=
  if ord then a = b else Permutation a b.

Lemma relm_refl ord a : relm ord a a.
Proof. destruct ord; cbn [relm]; [reflexivity|apply Permutation_refl]. Qed.
Lemma relm_of_eq ord a b : a = b -> relm ord a b.
Proof. intros ->. apply relm_refl. Qed.
Lemma relm_trans ord a b c : relm ord a b -> relm ord b c -> relm ord a c.
Proof. destruct ord; cbn [relm]; [congruence|apply Permutation_trans]. Qed.
Lemma relm_app ord a a' b b' : relm ord a a' -> relm ord b b' -> relm ord (a ++ b) (a' ++ b').
Proof. destruct ord; cbn [relm]; [congruence|apply Permutation_app]. Qed.
Lemma relm_perm ord a b : relm ord a b -> Permutation a b.
Proof. destruct ord; cbn [relm]; [intros ->; apply Permutation_refl|auto]. Qed.
Lemma relm_nil_l ord b : relm ord [] b -> b = [].
Proof. intros H. apply relm_perm in H. apply Permutation_nil in H. exact H. Qed.
Lemma relm_nil_r ord a : relm ord a [] -> a = [].
Proof. intros H. apply relm_perm, Permutation_sym, Permutation_nil in H. exact H. Qed.

Lemma perm_projr a b : Permutation a b -> Permutation (projr a) (projr b).
Proof.
  induction 1 as [|x a b _ IH|x y a|a b c _ IH1 _ IH2].
  - constructor.
  - destruct x; [exact IH|]. change (Permutation (c :: projr a) (c :: projr b)). constructor. exact IH.
  - destruct x as [m|c], y as [m'|c']; try apply Permutation_refl.
    change (Permutation (c' :: c :: projr a) (c :: c' :: projr a)). constructor.
  - eapply Permutation_trans; eassumption.
Qed.
Lemma perm_projl a b : Permutation a b -> Permutation (projl a) (projl b).
Proof.
  induction 1 as [|x a b _ IH|x y a|a b c _ IH1 _ IH2].
  - constructor.
  - destruct x; [|exact IH]. change (Permutation (t :: projl a) (t :: projl b)). constructor. exact IH.
  - destruct x as [m|c], y as [m'|c']; try apply Permutation_refl.
    change (Permutation (m' :: m :: projl a) (m :: m' :: projl a)). constructor.
  - eapply Permutation_trans; eassumption.
Qed.

(* the part of the stream of a sub-renderer that is not yet on a line: the markers waiting in
   pending_frags and the open wrapping block *)
Definition Wst (s : subr) : list sitem := mpend (pending_frags s) ++ mwrap (wrapping s).

Lemma mstream_split s : mstream_out s = mlines (slines s) ++ Wst s.
Proof. unfold mstream_out, mlp, Wst. rewrite app_assoc. reflexivity. Qed.

(* one step of a sub-renderer: of the old waiting part followed by the new items t, a front
   part m has gone onto lines (in order, or - inside side-by-side table rows - interleaved
   with the lines of the other cells), the rest is waiting, IN ORDER *)
Section StepDef.
  Variable ord : bool.
  Definition Step (s s' : subr) (t : list sitem) : Prop :=
    exists m, relm ord (mlines (slines s')) (mlines (slines s) ++ m) /\ m ++ Wst s' = Wst s ++ t.

  Lemma Step_refl s : Step s s [].
  Proof. exists []. rewrite !app_nil_r. split; [apply relm_refl|reflexivity]. Qed.

  Lemma Step_trans a b c t1 t2 : Step a b t1 -> Step b c t2 -> Step a c (t1 ++ t2).
  Proof.
    intros (m1 & R1 & E1) (m2 & R2 & E2). exists (m1 ++ m2). split.
    - eapply relm_trans; [exact R2|]. rewrite app_assoc. apply relm_app; [exact R1|apply relm_refl].
    - rewrite <- app_assoc, E2, app_assoc, E1, <- app_assoc. reflexivity.
  Qed.

  (* an exact step *)
  Lemma Step_exact s s' t :
    mstream_out s' = mstream_out s ++ t ->
    (exists m, mlines (slines s') = mlines (slines s) ++ m) -> Step s s' t.
  Proof.
    intros E (m & Em). exists m. split; [apply relm_of_eq, Em|].
    rewrite !mstream_split, Em, <- !app_assoc in E. apply app_inv_head in E. exact E.
  Qed.

  (* an exact step that appends k, where k is known up to `relm` only: allowed when all of k
     has gone onto lines (or k is empty) *)
  Lemma Step_subst s s' k t' :
    mstream_out s' = mstream_out s ++ k ->
    (exists m, mlines (slines s') = mlines (slines s) ++ m) ->
    relm ord k t' -> k = [] \/ Wst s' = [] -> Step s s' t'.
  Proof.
    intros E (m & Em) R [->|Hw].
    - apply relm_nil_l in R. subst t'. apply Step_exact; [exact E|exists m; exact Em].
    - rewrite !mstream_split, Em, <- !app_assoc in E. apply app_inv_head in E.
      rewrite Hw, app_nil_r in E. subst m. exists (Wst s ++ t'). rewrite Hw, app_nil_r.
      split; [|reflexivity]. rewrite Em. apply relm_app; [apply relm_refl|].
      apply relm_app; [apply relm_refl|exact R].
  Qed.
End StepDef.

(* ---- the lines of a sub-renderer only grow ---- *)
Definition opX (f : subr -> res subr) : Prop :=
  forall s s', f s = Ok s' -> exists m, mlines (slines s') = mlines (slines s) ++ m.

Lemma add_line_X s l : exists m, mlines (slines (add_line s l)) = mlines (slines s) ++ m.
Proof.
  unfold add_line. destruct (pending_frags s); destruct l; sprj; rewrite mlines_app; eauto.
Qed.

Lemma extend_lines_X ls : forall s,
  exists m, mlines (slines (extend_lines s ls)) = mlines (slines s) ++ m.
Proof.
  unfold extend_lines. induction ls as [|l ls IH]; intros s; cbn [fold_left].
  - exists []. rewrite app_nil_r. reflexivity.
  - destruct (add_line_X s l) as (m1 & E1). destruct (IH (add_line s l)) as (m2 & E2).
    exists (m1 ++ m2). rewrite E2, E1, app_assoc. reflexivity.
Qed.

Lemma opX_comp f g : opX f -> opX g -> opX (fun s => do s1 <- f s; g s1).
Proof.
  intros Hf Hg s s' H. bind_inv H s1 H1. destruct (Hf _ _ H1) as (m1 & E1).
  destruct (Hg _ _ H) as (m2 & E2). exists (m1 ++ m2). rewrite E2, E1, app_assoc. reflexivity.
Qed.
Lemma opX_pure (g : subr -> subr) : (forall s, slines (g s) = slines s) -> opX (fun s => Ok (g s)).
Proof. intros Hg s s' H. ok_inv H. exists []. rewrite Hg, app_nil_r. reflexivity. Qed.
Lemma opX_id : opX (fun s => Ok s).
Proof. apply (opX_pure (fun s => s)). reflexivity. Qed.

Lemma flush_wrapping_X : opX flush_wrapping.
Proof.
  intros s s' H. unfold flush_wrapping in H. destruct (wrapping s) as [w|].
  - destruct (take_trailing_fragments w) as [w1 frags]. bind_inv H lm Hlm. ok_inv H. sprj.
    exact (extend_lines_X (map RText (fst lm)) (set_wrapping s None)).
  - ok_inv H. exists []. rewrite app_nil_r. reflexivity.
Qed.

Lemma add_empty_line_X : opX add_empty_line.
Proof.
  intros s s' H. unfold add_empty_line in H. bind_inv H s1 H1. ok_inv H. sprj.
  destruct (flush_wrapping_X _ _ H1) as (m1 & E1). destruct (add_line_X s1 (RText tl_new)) as (m2 & E2).
  exists (m1 ++ m2). rewrite E2, E1, app_assoc. reflexivity.
Qed.

Lemma start_block_X : opX start_block.
Proof.
  intros s s' H. unfold start_block in H. bind_inv H s1 H1. bind_inv H s2 H2. ok_inv H. sprj.
  destruct (flush_wrapping_X _ _ H1) as (m1 & E1).
  assert (A : exists m, mlines (slines s2) = mlines (slines s1) ++ m).
  { destruct (existsb rline_has_content (slines s1)).
    - eapply add_empty_line_X, H2.
    - ok_inv H2. exists []. rewrite app_nil_r. reflexivity. }
  destruct A as (m2 & E2). exists (m1 ++ m2). rewrite E2, E1, app_assoc. reflexivity.
Qed.

Lemma new_line_hard_X : opX new_line_hard.
Proof.
  intros s s' H. unfold new_line_hard in H. destruct (wrapping s) as [w|].
  - destruct ((wordlen w =? 0) && (tlen_ (wline w) =? 0)).
    + eapply add_empty_line_X, H.
    + eapply flush_wrapping_X, H.
  - eapply add_empty_line_X, H.
Qed.

Lemma add_horizontal_line_X b t : opX (fun s => add_horizontal_line s b t).
Proof.
  intros s s' H. unfold add_horizontal_line in H. bind_inv H s1 H1. ok_inv H.
  destruct (flush_wrapping_X _ _ H1) as (m1 & E1). destruct (add_line_X s1 (RLine b t)) as (m2 & E2).
  exists (m1 ++ m2). rewrite E2, E1, app_assoc. reflexivity.
Qed.
Lemma add_horizontal_border_width_X w : opX (fun s => add_horizontal_border_width s w).
Proof.
  intros s s' H. unfold add_horizontal_border_width in H. bind_inv H s1 H1. ok_inv H.
  destruct (flush_wrapping_X _ _ H1) as (m1 & E1).
  destruct (add_line_X s1 (RLine (border_new w) (ann_stack s1))) as (m2 & E2).
  exists (m1 ++ m2). rewrite E2, E1, app_assoc. reflexivity.
Qed.

Lemma add_inline_text_X d t : opX (fun s => add_inline_text d s t).
Proof.
  intros s s' H. unfold add_inline_text in H.
  destruct (negb (preserve_ws (ws_mode s)) && at_block_end s && all_ws t).
  { ok_inv H. exists []. rewrite app_nil_r. reflexivity. }
  bind_inv H s1 H1. bind_inv H w1 Hw1. ok_inv H. sprj.
  destruct (at_block_end s).
  - eapply start_block_X, H1.
  - ok_inv H1. exists []. rewrite app_nil_r. reflexivity.
Qed.

Lemma push_ann_X a : opX (fun s => Ok (push_ann s a)).
Proof. apply opX_pure. reflexivity. Qed.
Lemma pop_ann_X : opX (fun s => Ok (pop_ann s)).
Proof. apply opX_pure. reflexivity. Qed.

Lemma start_deco_X d p : opX (fun s => start_deco d s p).
Proof. unfold start_deco. exact (opX_comp _ _ (push_ann_X (snd p)) (add_inline_text_X d (fst p))). Qed.
Lemma end_deco_X d e : opX (fun s => end_deco d s e).
Proof. unfold end_deco. exact (opX_comp _ _ (add_inline_text_X d e) pop_ann_X). Qed.

Lemma start_strikeout_X d : opX (start_strikeout d).
Proof.
  unfold start_strikeout. apply opX_comp; [apply (start_deco_X d)|].
  intros s s' H. ok_inv H. exists []. rewrite app_nil_r. destruct (o_strike (sopts s)); reflexivity.
Qed.
Lemma end_strikeout_X d : opX (end_strikeout d).
Proof.
  unfold end_strikeout. apply opX_comp; [|apply (end_deco_X d)].
  intros s s' H. exists []. rewrite app_nil_r. destruct (o_strike (sopts s)).
  - destruct (filter_depth s); [discriminate|]. ok_inv H. reflexivity.
  - ok_inv H. reflexivity.
Qed.
Lemma add_image_X d src title : opX (fun s => add_image d s src title).
Proof.
  unfold add_image.
  exact (opX_comp _ _ (opX_comp _ _ (push_ann_X _) (add_inline_text_X d _)) pop_ann_X).
Qed.
Lemma record_frag_start_X name : opX (fun s => Ok (record_frag_start s name)).
Proof. apply opX_pure. reflexivity. Qed.
Lemma end_block_X : opX (fun s => Ok (end_block s)).
Proof. apply opX_pure. reflexivity. Qed.
Lemma push_colour_X d r g b : opX (fun s => Ok (push_colour d s r g b)).
Proof. apply opX_pure. intros s. unfold push_colour. destruct (d_colours d); reflexivity. Qed.
Lemma push_bgcolour_X d r g b : opX (fun s => Ok (push_bgcolour d s r g b)).
Proof. apply opX_pure. intros s. unfold push_bgcolour. destruct (d_colours d); reflexivity. Qed.
Lemma pop_colour_X d : opX (fun s => Ok (pop_colour d s)).
Proof. apply opX_pure. intros s. unfold pop_colour. destruct (d_colours d); reflexivity. Qed.
Lemma push_ws_mode_X m : opX (fun s => Ok (push_ws_mode s m)).
Proof. apply opX_pure. reflexivity. Qed.
Lemma pop_ws_mode_X : opX (fun s => Ok (pop_ws_mode s)).
Proof. apply opX_pure. reflexivity. Qed.
Lemma push_preformat_X : opX (fun s => Ok (push_preformat s)).
Proof. apply opX_pure. reflexivity. Qed.
Lemma pop_preformat_X : opX pop_preformat.
Proof.
  intros s s' H. unfold pop_preformat in H. destruct (0 <? pre_depth s); [|discriminate].
  ok_inv H. exists []. rewrite app_nil_r. reflexivity.
Qed.

(* ================================================================== *)
(* 2. Operations of the sub-renderer                                    *)
(* ================================================================== *)

(* an operation that appends the items t, in order, keeps width, options and the invariant
   RenderConserve.Iv (= pfc and wl) *)
Definition opE (f : subr -> res subr) (t : list sitem) : Prop :=
  sames f /\ opM false f t /\ opL f /\ opX f.

Lemma opE_of f t u : opC f u -> opM false f t -> opX f -> opE f t.
Proof. intros (A & _ & C) B D. split; [exact A|split; [exact B|split; [exact C|exact D]]]. Qed.

Lemma opE_Iv f t s s' : opE f t -> f s = Ok s' -> Iv s -> Iv s'.
Proof.
  intros (_ & Hm & Hl & _) H [Hp Hw]. split; [|eapply Hl; eassumption].
  apply pfc_Jx. exact (proj1 (Hm _ _ H (proj1 (pfc_Jx s) Hp))).
Qed.

Lemma opE_Step ord f t s s' : opE f t -> f s = Ok s' -> pfc s -> Step ord s s' t.
Proof.
  intros (_ & Hm & _ & Hx) H Hp. apply Step_exact; [|eapply Hx, H].
  exact (proj2 (Hm _ _ H (proj1 (pfc_Jx s) Hp))).
Qed.

Lemma add_horizontal_line_opM b t : opM false (fun s => add_horizontal_line s b t) [].
Proof.
  intros s s' H Hj. unfold add_horizontal_line in H. bind_inv H s1 H1. ok_inv H.
  destruct (flush_wrapping_m false _ _ H1 Hj) as (A & B & C).
  destruct (add_line_none_m false s1 (RLine b t) A C) as (A' & B' & _).
  split; [exact A'|]. rewrite B', B. reflexivity.
Qed.
Lemma add_horizontal_border_width_opM w : opM false (fun s => add_horizontal_border_width s w) [].
Proof.
  intros s s' H Hj. unfold add_horizontal_border_width in H. bind_inv H s1 H1. ok_inv H.
  destruct (flush_wrapping_m false _ _ H1 Hj) as (A & B & C).
  destruct (add_line_none_m false s1 (RLine (border_new w) (ann_stack s1)) A C) as (A' & B' & _).
  split; [exact A'|]. rewrite B', B. reflexivity.
Qed.

Lemma flush_wrapping_opE : opE flush_wrapping [].
Proof. exact (opE_of _ _ _ flush_wrapping_opC (flush_wrapping_opM false) flush_wrapping_X). Qed.
Lemma start_block_opE : opE start_block [].
Proof. exact (opE_of _ _ _ start_block_opC (start_block_opM false) start_block_X). Qed.
Lemma new_line_hard_opE : opE new_line_hard [].
Proof. exact (opE_of _ _ _ new_line_hard_opC (new_line_hard_opM false) new_line_hard_X). Qed.
Lemma add_horizontal_border_width_opE w : opE (fun s => add_horizontal_border_width s w) [].
Proof.
  exact (opE_of _ _ _ (add_horizontal_border_width_opC w) (add_horizontal_border_width_opM w)
           (add_horizontal_border_width_X w)).
Qed.
Lemma add_inline_text_opE d t : opE (fun s => add_inline_text d s t) (mchars t).
Proof. exact (opE_of _ _ _ (add_inline_text_opC d t) (add_inline_text_opM false d t) (add_inline_text_X d t)). Qed.
Lemma start_deco_opE d p : opE (fun s => start_deco d s p) (mchars (fst p)).
Proof. exact (opE_of _ _ _ (start_deco_opC d p) (start_deco_opM false d p) (start_deco_X d p)). Qed.
Lemma end_deco_opE d e : opE (fun s => end_deco d s e) (mchars e).
Proof. exact (opE_of _ _ _ (end_deco_opC d e) (end_deco_opM false d e) (end_deco_X d e)). Qed.
Lemma start_strikeout_opE d : opE (start_strikeout d) (mchars (fst (d_strike_start d))).
Proof. exact (opE_of _ _ _ (start_strikeout_opC d) (start_strikeout_opM false d) (start_strikeout_X d)). Qed.
Lemma end_strikeout_opE d : opE (end_strikeout d) (mchars (d_strike_end d)).
Proof. exact (opE_of _ _ _ (end_strikeout_opC d) (end_strikeout_opM false d) (end_strikeout_X d)). Qed.
Lemma add_image_opE d src title :
  opE (fun s => add_image d s src title) (mchars (fst (d_image d src title))).
Proof.
  exact (opE_of _ _ _ (add_image_opC d src title) (add_image_opM false d src title) (add_image_X d src title)).
Qed.
Lemma record_frag_start_opE name : opE (fun s => Ok (record_frag_start s name)) [inl name].
Proof.
  exact (opE_of _ _ _ (record_frag_start_opC name) (record_frag_start_opM false name)
           (record_frag_start_X name)).
Qed.
Lemma end_block_opE : opE (fun s => Ok (end_block s)) [].
Proof. exact (opE_of _ _ _ end_block_opC (end_block_opM false) end_block_X). Qed.
Lemma push_colour_opE d r g b : opE (fun s => Ok (push_colour d s r g b)) [].
Proof. exact (opE_of _ _ _ (push_colour_opC d r g b) (push_colour_opM false d r g b) (push_colour_X d r g b)). Qed.
Lemma push_bgcolour_opE d r g b : opE (fun s => Ok (push_bgcolour d s r g b)) [].
Proof.
  exact (opE_of _ _ _ (push_bgcolour_opC d r g b) (push_bgcolour_opM false d r g b) (push_bgcolour_X d r g b)).
Qed.
Lemma pop_colour_opE d : opE (fun s => Ok (pop_colour d s)) [].
Proof. exact (opE_of _ _ _ (pop_colour_opC d) (pop_colour_opM false d) (pop_colour_X d)). Qed.
Lemma push_ws_mode_opE m : opE (fun s => Ok (push_ws_mode s m)) [].
Proof. exact (opE_of _ _ _ (push_ws_mode_opC m) (push_ws_mode_opM false m) (push_ws_mode_X m)). Qed.
Lemma pop_ws_mode_opE : opE (fun s => Ok (pop_ws_mode s)) [].
Proof. exact (opE_of _ _ _ pop_ws_mode_opC (pop_ws_mode_opM false) pop_ws_mode_X). Qed.
Lemma push_preformat_opE : opE (fun s => Ok (push_preformat s)) [].
Proof. exact (opE_of _ _ _ push_preformat_opC (push_preformat_opM false) push_preformat_X). Qed.
Lemma pop_preformat_opE : opE pop_preformat [].
Proof. exact (opE_of _ _ _ pop_preformat_opC (pop_preformat_opM false) pop_preformat_X). Qed.

(* ---- closing a nested sub-renderer ---- *)

(* what a nested sub-renderer c (started empty) holds: a stream between l and h, whose part on
   lines is known up to relm *)
Definition Sub0 (ord : bool) (c : subr) (l h : list sitem) : Prop :=
  exists t, btw l t h /\ exists m, relm ord (mlines (slines c)) m /\ m ++ Wst c = t.

Lemma add_line_pf_RText s tl : pending_frags (add_line s (RText tl)) = [].
Proof. unfold add_line. destruct (pending_frags s); sprj; reflexivity. Qed.
Lemma add_line_pf_nil s l : pending_frags s = [] -> pending_frags (add_line s l) = [].
Proof. intros E. unfold add_line. rewrite E. destruct l; sprj; reflexivity. Qed.
Lemma extend_lines_pf_nil ls : forall s,
  pending_frags s = [] -> pending_frags (extend_lines s ls) = [].
Proof.
  unfold extend_lines. induction ls as [|l ls IH]; intros s E; cbn [fold_left]; [exact E|].
  apply IH, add_line_pf_nil, E.
Qed.
Lemma attach_prefixes_pf t p1 p2 l ls s :
  pending_frags (extend_lines s (attach_prefixes t p1 p2 (l :: ls))) = [].
Proof.
  cbn [attach_prefixes]. unfold extend_lines. cbn [fold_left]. apply extend_lines_pf_nil.
  destruct l as [tl|b bt]; cbn [attach_prefix]; [destruct p1|]; apply add_line_pf_RText.
Qed.

Lemma pfc_Wst_none s : pfc s -> wrapping s = None -> projr (Wst s) = [].
Proof.
  intros Hp Hn. unfold Wst. rewrite Hn. cbn [mwrap]. rewrite app_nil_r, projr_mpend.
  unfold pfc, pf_text in Hp. rewrite Hp. reflexivity.
Qed.

(* flushing a sub-renderer: some of what was waiting goes onto lines, markers stay behind *)
Lemma flush_split s s1 :
  flush_wrapping s = Ok s1 -> pfc s ->
  pfc s1 /\ wrapping s1 = None /\ mstream_out s1 = mstream_out s /\
  exists m, mlines (slines s1) = mlines (slines s) ++ m /\ Wst s = m ++ Wst s1 /\
            projr (Wst s1) = [].
Proof.
  intros H Hp. destruct (flush_wrapping_m false _ _ H (proj1 (pfc_Jx s) Hp)) as (J1 & B1 & C1).
  apply pfc_Jx in J1. destruct (flush_wrapping_X _ _ H) as (m & E).
  split; [exact J1|]. split; [exact C1|]. split; [exact B1|]. exists m. split; [exact E|].
  split; [|apply pfc_Wst_none; assumption].
  rewrite !mstream_split, E, <- app_assoc in B1. apply app_inv_head in B1. symmetry. exact B1.
Qed.

Lemma append_subrender_St ord s sub p1 p2 s' l h :
  append_subrender s sub p1 p2 = Ok s' -> pfc s -> pfc sub -> nodoc p1 -> nodoc p2 ->
  Sub0 ord sub l h -> exists t', btw (strip l) t' h /\ Step ord s s' t'.
Proof.
  intros H Hp Hsub N1 N2 (t & Bt & m & Rm & Em). subst t.
  unfold append_subrender in H. bind_inv H s1 H1. bind_inv H ols Hols. ok_inv H.
  unfold sub_into_lines in Hols. bind_inv Hols sub1 Hs1. ok_inv Hols.
  destruct (flush_split _ _ H1 Hp) as (P1 & C1 & B1 & m1 & E1 & _).
  destruct (flush_split _ _ Hs1 Hsub) as (Ps & Cs & Bs & m2 & E2 & Ew & Hr).
  set (ls := attach_prefixes (ann_stack s1) p1 p2 (slines sub1)).
  destruct (extend_lines_m ls s1) as (A' & B' & _ & _).
  destruct (extend_lines_X ls s1) as (m3 & E3).
  exists (m ++ m2). split.
  - apply (btw_cut l (m ++ Wst sub) h (m ++ m2) (Wst sub1) Bt); [|exact Hr].
    rewrite Ew, app_assoc. reflexivity.
  - apply (Step_subst ord s (extend_lines s1 ls) (mlines (slines sub1))).
    + unfold mstream_out at 1. rewrite B', C1, A'. cbn [mwrap]. rewrite app_nil_r.
      unfold ls. rewrite (attach_prefixes_m _ _ _ _ N1 N2), <- B1.
      unfold mstream_out at 1. rewrite C1. cbn [mwrap]. rewrite app_nil_r. reflexivity.
    + exists (m1 ++ m3). rewrite E3, E1, app_assoc. reflexivity.
    + rewrite E2. apply relm_app; [exact Rm|apply relm_refl].
    + destruct (slines sub1) as [|l0 ols] eqn:Eo; [left; reflexivity|right].
      unfold Wst. rewrite B', C1. unfold ls. rewrite attach_prefixes_pf. reflexivity.
Qed.

(* ---- table rows in raw mode / stacked layout: the cells one below the other ---- *)
Definition SubI (ord : bool) (c : subr) (lh : list sitem * list sitem) : Prop :=
  Sub0 ord c (fst lh) (snd lh).
Definition lo_of (lhs : list (list sitem * list sitem)) : list sitem :=
  flat_map (fun lh => strip (fst lh)) lhs.
Definition hi_of (lhs : list (list sitem * list sitem)) : list sitem := flat_map snd lhs.

Lemma vert_cols_St ord : forall cols lhs s first s',
  Forall2 (SubI ord) cols lhs -> Forall pfc cols -> vert_cols s cols first = Ok s' -> pfc s ->
  exists t', btw (lo_of lhs) t' (hi_of lhs) /\ Step ord s s' t'.
Proof.
  induction cols as [|c cols IH]; intros lhs s first s' HF Hpc H Hp; cbn [vert_cols] in H.
  - ok_inv H. inversion HF; subst. exists []. split; [apply btw_refl|apply Step_refl].
  - inversion HF as [|? lh ? lhs' Hc HF']; subst. inversion Hpc as [|? ? Hcp Hpc']; subst.
    bind_inv H s1 H1. bind_inv H s2 H2.
    assert (A : pfc s1 /\ Step ord s s1 []).
    { destruct (negb first && o_borders (sopts s)).
      - split; [exact (proj1 (add_horizontal_line_opS _ _ _ _ H1 Hp))|].
        apply Step_exact; [|eapply add_horizontal_line_X, H1].
        exact (proj2 (add_horizontal_line_opM _ _ _ _ H1 (proj1 (pfc_Jx s) Hp))).
      - ok_inv H1. split; [exact Hp|apply Step_refl]. }
    destruct A as [A1 A2].
    destruct (append_subrender_St ord _ _ _ _ _ _ _ H2 A1 Hcp nodoc_nil nodoc_nil Hc)
      as (t1 & Bt1 & S1).
    pose proof (proj1 (append_subrender_opS c [] [] Hcp nodoc_nil nodoc_nil _ _ H2 A1)) as P2.
    destruct (IH _ _ _ _ HF' Hpc' H P2) as (t2 & Bt2 & S2).
    exists (t1 ++ t2). split; [apply btw_app; assumption|].
    exact (Step_trans ord _ _ _ _ _ (Step_trans ord _ _ _ _ _ A2 S1) S2).
Qed.

Lemma append_vert_row_St ord cols lhs s s' :
  Forall2 (SubI ord) cols lhs -> Forall pfc cols -> append_vert_row s cols = Ok s' -> pfc s ->
  exists t', btw (lo_of lhs) t' (hi_of lhs) /\ Step ord s s' t'.
Proof.
  intros HF Hpc H Hp. unfold append_vert_row in H. bind_inv H s1 H1. bind_inv H s2 H2.
  pose proof (opE_Step ord _ _ _ _ flush_wrapping_opE H1 Hp) as S1.
  destruct (flush_wrapping_opS _ _ H1 Hp) as [P1 _].
  destruct (vert_cols_St ord _ _ _ _ _ HF Hpc H2 P1) as (t' & Bt & S2).
  destruct (vert_cols_out _ _ _ _ Hpc H2 P1) as [P2 _].
  assert (S3 : Step ord s2 s' []).
  { destruct (o_borders (sopts s2)).
    - unfold add_horizontal_border in H.
      exact (opE_Step ord _ _ _ _ (add_horizontal_border_width_opE _) H P2).
    - ok_inv H. apply Step_refl. }
  exists t'. split; [exact Bt|].
  pose proof (Step_trans ord _ _ _ _ _ (Step_trans ord _ _ _ _ _ S1 S2) S3) as X.
  cbn [app] in X. rewrite app_nil_r in X. exact X.
Qed.

(* ================================================================== *)
(* 3. The marker stream of a render tree with tables                    *)
(* ================================================================== *)

Definition on_okM {A} (r : res A) (k : A -> list sitem) (dflt : list sitem) : list sitem :=
  match r with Ok a => k a | _ => dflt end.

(* the cells of one row that get a width, at that width; sc closes the cell's sub-renderer *)
Fixpoint cells_ms (sc : list sitem -> list sitem) (f : rnode -> N -> list sitem)
         (cells : list rcell) (wsl : list (option N)) : list sitem :=
  match cells, wsl with
  | RCell _ content _ :: cells', Some cw_ :: wsl' =>
    sc (flat_map (fun c => f c cw_) content) ++ cells_ms sc f cells' wsl'
  | _ :: cells', None :: wsl' => cells_ms sc f cells' wsl'
  | _, _ => []
  end.

Section MStream.
  (* what closing a nested sub-renderer (heading, quote, list item, <dd>, TABLE CELL) does to
     its stream: `strip` for the lower bound, nothing for the upper bound *)
  Variable sc : list sitem -> list sitem.
  Variable d : deco.
  Variable mw : N.
  Variable o : ropts.

  (* mts n w: the markers and visible document characters that render_node hands to the
     sub-renderer when it renders n into a sub-renderer of width w with options o, in document
     order.  It is RenderConserve.tree_stream (same widths, same skipped cells, same default
     values) with the markers added: FragStream.mtree with tables. *)
  Fixpoint mts (n : rnode) (w : N) {struct n} : list sitem :=
    let kids (cs : list rnode) (w' : N) : list sitem := flat_map (fun c => mts c w') cs in
    let sub (cs : list rnode) (r : res N) : list sitem :=
        on_okM r (fun w' => sc (kids cs w')) (sc (kids cs w)) in
    let items (cs : list rnode) (r : res N) : list sitem :=
        on_okM r (fun w' => flat_map (fun c => sc (mts c w')) cs)
               (flat_map (fun c => sc (mts c w)) cs) in
    let wrapped (a : text) (cs : list rnode) (b : text) : list sitem :=
        mchars a ++ kids cs w ++ mchars b in
    match rn_info n with
    | IText t => mchars t
    | IImg src title => mchars (fst (d_image d src title))
    | IBreak => []
    | IFragStart name => [inl name]
    | ILink href cs => wrapped (fst (d_link_start d href)) cs (d_link_end d)
    | IEm cs | IDt cs => wrapped (fst (d_em_start d)) cs (d_em_end d)
    | IStrong cs => wrapped (fst (d_strong_start d)) cs (d_strong_end d)
    | IStrikeout cs => wrapped (fst (d_strike_start d)) cs (d_strike_end d)
    | ICode cs => wrapped (fst (d_code_start d)) cs (d_code_end d)
    | ISup cs =>
      match sup_digits cs with
      | Some ds => mchars ds
      | None => wrapped (fst (d_sup_start d)) cs (d_sup_end d)
      end
    | IContainer cs | IBlock cs | IListItem cs | IDiv cs | IDl cs => kids cs w
    | IHeader _ cs =>
      on_okM (est_of d mw n)
             (fun sz => sub cs (width_minus (sub_new w o) (e_prefix sz) (e_min sz - e_prefix sz)))
             (sc (kids cs w))
    | IBlockQuote cs =>
      let plen := swidth (d_quote_prefix d) in
      on_okM (est_of d mw n)
             (fun sz => sub cs (do iw <- usub 21 (e_min sz) plen; width_minus (sub_new w o) plen iw))
             (sc (kids cs w))
    | IUl cs =>
      let plen := swidth (d_ul_prefix d) in
      on_okM (est_of d mw n)
             (fun sz => items cs (do iw <- usub 22 (e_min sz) plen; width_minus (sub_new w o) plen iw))
             (flat_map (fun c => sc (mts c w)) cs)
    | IOl start cs =>
      let sn := isat64 (start + Z.of_nat (length cs)) in
      let max_number := isat64 (sn - 1) in
      let pw := N.max (swidth (d_ol_prefix d start)) (swidth (d_ol_prefix d max_number)) in
      on_okM (est_of d mw n)
             (fun sz => items cs (do im <- usub 23 (e_min sz) (e_prefix sz);
                                  width_minus (sub_new w o) pw im))
             (flat_map (fun c => sc (mts c w)) cs)
    | IDd cs =>
      on_okM (est_of d mw n)
             (fun sz => sub cs (do im <- usub 24 (e_min sz) 2; width_minus (sub_new w o) 2 im))
             (sc (kids cs w))
    | ITable rows ncols =>
      let all_cells (cells : list rcell) : list sitem :=
          flat_map (fun c => match c with RCell _ content _ => sc (kids content w) end) cells in
      let all_rows : list sitem :=
          flat_map (fun r => match r with RRow rcells _ => all_cells rcells end) rows in
      on_okM (tbl_col_sizes d mw rows ncols) (fun col_sizes =>
      on_okM (tbl_col_widths o w col_sizes) (fun col_widths =>
        flat_map (fun r =>
                    match r with
                    | RRow rcells _ =>
                      on_okM (cell_widths (tbl_vert o w col_sizes) col_widths rcells 0)
                            ((fix cells_loop (cells : list rcell) (wsl : list (option N))
                                {struct cells} : list sitem :=
                                match cells, wsl with
                                | RCell _ content _ :: cells', Some cw_ :: wsl' =>
                                  sc (flat_map (fun c => mts c cw_) content)
                                     ++ cells_loop cells' wsl'
                                | _ :: cells', None :: wsl' => cells_loop cells' wsl'
                                | _, _ => []
                                end) rcells)
                            (all_cells rcells)
                    end) rows) all_rows) all_rows
    | ITableRow _ | ITableBody _ | ITableCell _ => []
    end.

  Definition kids_ms (cs : list rnode) (w : N) : list sitem := flat_map (fun c => mts c w) cs.

  (* the rows of a table in terms of cells_ms *)
  Definition row_ms (vr : bool) (col_widths : list N) (w : N) (r : rrow) : list sitem :=
    match r with
    | RRow rcells _ =>
      on_okM (cell_widths vr col_widths rcells 0) (cells_ms sc mts rcells)
             (flat_map (fun c => sc (kids_ms (cell_content c) w)) rcells)
    end.

  Lemma ms_table rows ncols sty w col_sizes col_widths :
    tbl_col_sizes d mw rows ncols = Ok col_sizes ->
    tbl_col_widths o w col_sizes = Ok col_widths ->
    mts (RN (ITable rows ncols) sty) w =
    flat_map (row_ms (tbl_vert o w col_sizes) col_widths w) rows.
  Proof.
    intros E1 E2. cbn [mts rn_info]. rewrite E1. cbn [on_okM]. rewrite E2. cbn [on_okM].
    apply flat_map_ext. intros [rcells rsty]. unfold row_ms.
    destruct (cell_widths (tbl_vert o w col_sizes) col_widths rcells 0) as [cws| | |];
      cbn [on_okM]; try (apply flat_map_ext; intros [n content csty]; reflexivity).
    revert cws. induction rcells as [|[n content csty] rcells IH]; intros [|[cw_|] wsl];
      cbn [cells_ms]; try reflexivity.
    - rewrite IH. reflexivity.
    - apply IH.
  Qed.
End MStream.

(* lower and upper bound *)
Definition mts_min (d : deco) (mw : N) (o : ropts) (n : rnode) (w : N) : list sitem :=
  mts strip d mw o n w.
Definition mts_all (d : deco) (mw : N) (o : ropts) (n : rnode) (w : N) : list sitem :=
  mts (fun x => x) d mw o n w.

(* ================================================================== *)
(* 4. Side-by-side table rows: the lines of the cells are interleaved   *)
(* ================================================================== *)

(* the markers and visible document characters of line i of a cell (nothing below its last
   line) *)
Definition mlineat (i : nat) (ls : list rline) : list sitem :=
  match nth_opt ls i with Some r => mrline r | None => [] end.

(* ROW LINE i = cell_1 line i, bar, cell_2 line i, bar, ...: every cell line is placed
   unchanged (markers included, at their position among the characters of that line) between
   the bars of its cell; bars, padding and collapsed rules carry neither markers nor visible
   document characters *)
Lemma row_line_m t draw i : forall sets pads acc, pads_nodoc pads ->
  mline (row_line t draw i sets pads acc) =
  mline acc ++ flat_map (fun p => mlineat i (snd p)) sets.
Proof.
  induction sets as [|[w ls] sets IH]; intros pads acc Hp; cbn [row_line flat_map].
  - rewrite app_nil_r. reflexivity.
  - rewrite (IH (tl pads) _ (pads_nodoc_tl _ Hp)). rewrite app_assoc. f_equal.
    match goal with
    | |- mline (match sets with [] => ?a1 | _ :: _ => _ end) = _ =>
      assert (E1 : mline a1 = mline acc ++ mlineat i (snd (w, ls)))
    end.
    { unfold mlineat. cbn [snd]. destruct (nth_opt ls i) as [[tl|b bt]|].
      - unfold tl_consume. rewrite pline_fold. reflexivity.
      - rewrite pline_push. cbn [pel mrline]. fold (pchars docp (border_string b)).
        rewrite (nodoc_pchars _ (nodoc_border b)). reflexivity.
      - rewrite pline_push. cbn [pel]. f_equal.
        pose proof (pads_nodoc_hd _ Hp) as H.
        destruct (match pads with p :: _ => p | [] => None end) as [pt|].
        + fold (pchars docp pt). apply nodoc_pchars, H.
        + fold (pchars docp (spacesl L_pad w)). apply nodoc_pchars, nodoc_spacesl. }
    destruct sets as [|s0 sets0]; [exact E1|].
    rewrite pline_push_char, E1. destruct draw; cbn [app]; rewrite app_nil_r; reflexivity.
Qed.

Fixpoint rows_ms (n i : nat) (sets : list (N * list rline)) : list sitem :=
  match n with
  | O => []
  | S n' => flat_map (fun p => mlineat i (snd p)) sets ++ rows_ms n' (S i) sets
  end.
Fixpoint col_ms (n i : nat) (ls : list rline) : list sitem :=
  match n with
  | O => []
  | S n' => mlineat i ls ++ col_ms n' (S i) ls
  end.
Definition sets_ms (sets : list (N * list rline)) : list sitem :=
  flat_map (fun p => mlines (snd p)) sets.

Lemma row_lines_m t draw sets pads : pads_nodoc pads -> forall n i s,
  pfc s -> wrapping s = None ->
  let s' := row_lines t draw n i sets pads s in
  pfc s' /\ wrapping s' = None /\ mstream_out s' = mstream_out s ++ rows_ms n i sets /\
  (exists m, mlines (slines s') = mlines (slines s) ++ m) /\
  (n = O \/ pending_frags s' = []).
Proof.
  intros Hpads. induction n as [|n IH]; intros i s Hp Hw; cbn [row_lines rows_ms]; cbv zeta.
  - rewrite app_nil_r. split; [exact Hp|]. split; [exact Hw|]. split; [reflexivity|].
    split; [exists []; rewrite app_nil_r; reflexivity|left; reflexivity].
  - set (l := RText (row_line t draw i sets pads tl_new)).
    destruct (add_line_none_m false s l (proj1 (pfc_Jx s) Hp) Hw) as (A & B & C).
    apply pfc_Jx in A. destruct (add_line_X s l) as (m1 & E1).
    destruct (IH (S i) (add_line s l) A C) as (A' & C' & B' & (m2 & E2) & D').
    split; [exact A'|]. split; [exact C'|]. split; [|split].
    + rewrite B', B. unfold l. cbn [mrline]. rewrite (row_line_m _ _ _ _ _ _ Hpads).
      rewrite pline_new. cbn [app]. rewrite app_assoc. reflexivity.
    + exists (m1 ++ m2). rewrite E2, E1, app_assoc. reflexivity.
    + right. destruct D' as [->|D']; [|exact D']. cbn [row_lines]. apply add_line_pf_RText.
Qed.

Lemma perm_flat_map_app' {A B} (f g : A -> list B) l :
  Permutation (flat_map f l ++ flat_map g l) (flat_map (fun x => f x ++ g x) l).
Proof.
  induction l as [|a l IH]; cbn [flat_map app]; [apply Permutation_refl|].
  rewrite <- !app_assoc. apply Permutation_app_head.
  eapply Permutation_trans; [apply Permutation_app_swap_app|].
  apply Permutation_app_head. exact IH.
Qed.

Lemma rows_cols_perm_m sets : forall n i,
  Permutation (rows_ms n i sets) (flat_map (fun p => col_ms n i (snd p)) sets).
Proof.
  induction n as [|n IH]; intros i; cbn [rows_ms col_ms].
  - induction sets as [|a l IHl]; cbn [flat_map app]; [constructor|exact IHl].
  - eapply Permutation_trans; [apply Permutation_app_head, IH|].
    apply (perm_flat_map_app' (fun p => mlineat i (snd p)) (fun p => col_ms n (S i) (snd p))).
Qed.

Lemma mlineat_skipn : forall ls i, mlineat i ls ++ mlines (skipn (S i) ls) = mlines (skipn i ls).
Proof.
  induction ls as [|r ls IH]; intros i.
  - unfold mlineat. destruct i; reflexivity.
  - destruct i as [|i].
    + unfold mlineat. cbn [nth_opt skipn]. reflexivity.
    + unfold mlineat in *. cbn [nth_opt]. change (skipn (S (S i)) (r :: ls)) with (skipn (S i) ls).
      change (skipn (S i) (r :: ls)) with (skipn i ls). apply IH.
Qed.

Lemma col_ms_skipn ls : forall n i,
  (length ls <= i + n)%nat -> col_ms n i ls = mlines (skipn i ls).
Proof.
  induction n as [|n IH]; intros i Hl; cbn [col_ms].
  - rewrite skipn_all2 by lia. reflexivity.
  - rewrite IH by lia. apply mlineat_skipn.
Qed.

Lemma rows_ms_perm sets :
  Permutation (rows_ms (fold_left Nat.max (map (fun p => length (snd p)) sets) O) O sets)
              (sets_ms sets).
Proof.
  eapply Permutation_trans; [apply rows_cols_perm_m|]. unfold sets_ms.
  erewrite flat_map_ext_In; [apply Permutation_refl|].
  intros p Hp. cbn beta. rewrite col_ms_skipn; [reflexivity|].
  destruct (fold_max_ge (map (fun p => length (snd p)) sets) O) as [_ B].
  specialize (B (length (snd p))). cbn [Nat.add]. apply B.
  apply in_map_iff. exists p. auto.
Qed.

(* padding, collapsing the borders: neither markers nor visible document characters *)
Lemma pad_cell_lines_m w t : forall ls pls,
  pad_cell_lines w t ls = Ok pls -> mlines pls = mlines ls.
Proof.
  induction ls as [|l ls IH]; intros pls H; cbn [pad_cell_lines] in H.
  - ok_inv H. reflexivity.
  - destruct l as [tl|b bt].
    + bind_inv H tl' Htl. bind_inv H r Hr. ok_inv H. cbn [mlines flat_map mrline].
      fold (mlines r). fold (mlines ls). rewrite (IH _ Hr).
      rewrite (pline_pad_to docp docp_spacel _ _ _ _ Htl). reflexivity.
    + bind_inv H r Hr. ok_inv H. cbn [mlines flat_map mrline app].
      fold (mlines r). fold (mlines ls). exact (IH _ Hr).
Qed.

Lemma col_line_sets_St ord t : forall cols lhs sets,
  Forall2 (SubI ord) cols lhs -> Forall pfc cols -> col_line_sets t cols = Ok sets ->
  exists t', btw (lo_of lhs) t' (hi_of lhs) /\ Permutation (sets_ms sets) t'.
Proof.
  induction cols as [|c cols IH]; intros lhs sets HF Hpc H; cbn [col_line_sets] in H.
  - ok_inv H. inversion HF; subst. exists []. split; [apply btw_refl|constructor].
  - inversion HF as [|? lh ? lhs' Hc HF']; subst. inversion Hpc as [|? ? Hcp Hpc']; subst.
    bind_inv H ls Hls. bind_inv H pls Hpls. bind_inv H r Hr. ok_inv H.
    destruct (IH _ _ HF' Hpc' Hr) as (t2 & Bt2 & Pm2).
    destruct Hc as (tc & Btc & m & Rm & Em). subst tc.
    unfold sub_into_lines in Hls. bind_inv Hls c1 Hc1. ok_inv Hls.
    destruct (flush_split _ _ Hc1 Hcp) as (_ & _ & _ & m2 & E2 & Ew & Hr2).
    exists ((m ++ m2) ++ t2). split.
    + unfold lo_of, hi_of. cbn [flat_map]. apply btw_app; [|exact Bt2].
      apply (btw_cut (fst lh) (m ++ Wst c) (snd lh) (m ++ m2) (Wst c1) Btc); [|exact Hr2].
      rewrite Ew, app_assoc. reflexivity.
    + unfold sets_ms. cbn [flat_map snd]. apply Permutation_app; [|exact Pm2].
      rewrite (pad_cell_lines_m _ _ _ _ Hpls), E2.
      apply Permutation_app; [exact (relm_perm _ _ _ Rm)|apply Permutation_refl].
Qed.

Lemma collapse_top_m : forall sets prev pos r,
  collapse_top sets prev pos = Ok r -> sets_ms (snd r) = sets_ms sets.
Proof.
  induction sets as [|[w sub] sets IH]; intros prev pos r H; cbn [collapse_top] in H.
  - ok_inv H. reflexivity.
  - destruct sub as [|[tl|line lt] sub'].
    + bind_inv H r' Hr'. ok_inv H. unfold sets_ms in *. cbn [snd flat_map].
      rewrite (IH _ _ _ Hr'). reflexivity.
    + bind_inv H r' Hr'. ok_inv H. unfold sets_ms in *. cbn [snd flat_map].
      rewrite (IH _ _ _ Hr'). reflexivity.
    + destruct prev as [pb|]; [|discriminate]. bind_inv H r' Hr'. ok_inv H.
      unfold sets_ms in *. cbn [snd flat_map]. rewrite (IH _ _ _ Hr'). reflexivity.
Qed.

Lemma collapse_bottom_m : forall sets next pos n' s' p',
  collapse_bottom sets next pos = (n', s', p') -> sets_ms s' = sets_ms sets.
Proof.
  induction sets as [|[w sub] sets IH]; intros next pos n' s' p' H; cbn [collapse_bottom] in H.
  - injection H as <- <- <-. reflexivity.
  - destruct (olast sub) as [[tl|line lt]|] eqn:El.
    + destruct (collapse_bottom sets next (pos + w + 1)) as [[n2 s2] p2] eqn:E.
      injection H as <- <- <-. unfold sets_ms in *. cbn [flat_map snd].
      rewrite (IH _ _ _ _ _ E). reflexivity.
    + destruct (collapse_bottom sets (merge_from_above next line pos) (pos + w + 1))
        as [[n2 s2] p2] eqn:E.
      injection H as <- <- <-. unfold sets_ms in *. cbn [flat_map snd].
      rewrite (IH _ _ _ _ _ E). f_equal.
      rewrite (olast_split _ _ El) at 2. rewrite mlines_app. cbn [mlines flat_map mrline].
      rewrite !app_nil_r. reflexivity.
    + destruct (collapse_bottom sets next (pos + w + 1)) as [[n2 s2] p2] eqn:E.
      injection H as <- <- <-. unfold sets_ms in *. cbn [flat_map snd].
      rewrite (IH _ _ _ _ _ E). reflexivity.
Qed.

(* a side-by-side row: the parent receives the lines of the cells, interleaved line by line;
   the markers still waiting in a cell are dropped (sub_into_lines) *)
Lemma append_columns_St ord cols lhs collapse s s' :
  Forall2 (SubI ord) cols lhs -> Forall pfc cols ->
  append_columns_with_borders s cols collapse = Ok s' -> pfc s ->
  exists t', btw (lo_of lhs) t' (hi_of lhs) /\ Step false s s' t'.
Proof.
  intros HF Hpc H Hp. unfold append_columns_with_borders in H.
  bind_inv H s1 H1. bind_inv H sets Hsets. bind_inv H chk Hchk. clear Hchk.
  destruct (flush_split _ _ H1 Hp) as (A1 & A3 & A2 & m1 & E1 & _).
  destruct (col_line_sets_St ord _ _ _ _ HF Hpc Hsets) as (t' & Bt & Pm).
  match type of H with
  | (let '(p, n) := ?e in _) = _ => destruct e as [prev1 next1]
  end.
  bind_inv H r Hr. destruct r as [[[prev3 next3] sets4] pads].
  assert (K : sets_ms sets4 = sets_ms sets /\ pads_nodoc pads).
  { destruct collapse.
    - bind_inv Hr ct Hct. destruct ct as [prev2 sets2].
      destruct (collapse_bottom sets2 next1 0) as [[next2 sets3] pads3] eqn:Ecb.
      ok_inv Hr. pose proof (collapse_bottom_m _ _ _ _ _ _ Ecb) as B1.
      destruct (collapse_bottom_stream _ _ _ _ _ _ Ecb) as [_ B2].
      pose proof (collapse_top_m _ _ _ _ Hct) as B3. cbn [snd] in B3.
      split; [congruence|exact B2].
    - ok_inv Hr. split; [reflexivity|apply pads_nodoc_none]. }
  destruct K as [K1 K2].
  ok_inv H.
  match goal with
  | |- context [set_lines s1 ?l (pending_frags s1)] => set (lines1 := l)
  end.
  assert (El : mlines lines1 = mlines (slines s1)).
  { unfold lines1. destruct (olast (slines s1)) as [[tl|pb0 pt]|] eqn:Eo; try reflexivity.
    destruct prev3 as [pb|]; [|reflexivity].
    unfold replace_last. rewrite (olast_split _ _ Eo) at 2.
    rewrite !mlines_app. reflexivity. }
  set (s2 := set_lines s1 lines1 (pending_frags s1)).
  assert (Hp2 : pfc s2) by exact A1.
  assert (Hw2 : wrapping s2 = None) by exact A3.
  assert (E2 : mstream_out s2 = mstream_out s).
  { rewrite <- A2. unfold mstream_out, mlp, s2. sprj. rewrite El. reflexivity. }
  set (hgt := fold_left Nat.max (map (fun p => length (snd p)) sets4) O).
  destruct (row_lines_m (ann_stack s1) (o_borders (sopts s2)) sets4 pads K2 hgt O s2 Hp2 Hw2)
    as (C1 & C3 & C2 & (m3 & E3) & C4).
  set (s3 := row_lines (ann_stack s1) (o_borders (sopts s2)) hgt O sets4 pads s2) in *.
  assert (Pk : Permutation (rows_ms hgt O sets4) t').
  { eapply Permutation_trans; [apply rows_ms_perm|]. rewrite K1. exact Pm. }
  assert (Hk : rows_ms hgt O sets4 = [] \/ (pending_frags s3 = [] /\ wrapping s3 = None)).
  { destruct C4 as [->|C4]; [left; reflexivity|right; split; assumption]. }
  assert (Em3 : mlines (slines s3) = mlines (slines s) ++ (m1 ++ m3)).
  { rewrite E3. unfold s2. sprj. rewrite El, E1, app_assoc. reflexivity. }
  exists t'. split; [exact Bt|].
  change (sopts s2) with (sopts s1) in *.
  destruct (o_borders (sopts s1)).
  - set (l := RLine next3 (ann_stack s1)).
    destruct (add_line_none_m false s3 l (proj1 (pfc_Jx s3) C1) C3) as (D1 & D2 & D3).
    destruct (add_line_X s3 l) as (m4 & E4).
    apply (Step_subst false s (add_line s3 l) (rows_ms hgt O sets4)).
    + rewrite D2, C2, E2. unfold l. cbn [mrline]. rewrite app_nil_r. reflexivity.
    + exists ((m1 ++ m3) ++ m4). rewrite E4, Em3, <- !app_assoc. reflexivity.
    + exact Pk.
    + destruct Hk as [Hk|[Hk1 Hk2]]; [left; exact Hk|right].
      unfold Wst. rewrite (add_line_pf_nil _ _ Hk1), D3. reflexivity.
  - apply (Step_subst false s s3 (rows_ms hgt O sets4)).
    + rewrite C2, E2. reflexivity.
    + exists (m1 ++ m3). exact Em3.
    + exact Pk.
    + destruct Hk as [Hk|[Hk1 Hk2]]; [left; exact Hk|right].
      unfold Wst. rewrite Hk1, Hk2. reflexivity.
Qed.

(* the stream of a sub-renderer and RenderConserve.out_stream *)
Lemma projr_mlines ls : projr (mlines ls) = lstream ls.
Proof.
  unfold lstream. induction ls as [|r ls IH]; [reflexivity|].
  cbn [mlines flat_map]. fold (mlines ls). rewrite projr_app, filter_app, IH. f_equal.
  destruct r as [l|b t]; cbn [mrline rline_string].
  - apply projr_pline.
  - symmetry. apply nodoc_border.
Qed.

Lemma projr_mstream_out s : pfc s -> projr (mstream_out s) = out_stream s.
Proof.
  intros Hp. unfold mstream_out, mlp, out_stream. rewrite !projr_app, projr_mlines, projr_mpend.
  unfold pfc, pf_text in Hp. rewrite Hp. cbn [filter app].
  destruct (wrapping s) as [w|]; cbn [mwrap wstream]; rewrite app_nil_r; [|reflexivity].
  rewrite bstream_pstream. reflexivity.
Qed.

(* ================================================================== *)
(* 5. The render layer                                                  *)
(* ================================================================== *)

Lemma msub_nil_markers h : projr h = [] -> msub [] h.
Proof.
  intros H. destruct (no_chars_markers _ H) as [ms ->]. exact (msub_markers_r [] ms).
Qed.

Section Thread.
  Variable d : deco.
  Variable mw : N.
  Variable o : ropts.
  Variable ord : bool.                      (* exact order / permutation inside lines *)
  Variable P : text -> Prop.                (* side condition on the characters of the tree *)
  Hypothesis P_app : forall a b, P (a ++ b) -> P a /\ P b.
  Hypothesis Pd : prefix_made d.
  Variable adm0 : rnode -> bool.            (* side condition on the tree *)
  Hypothesis adm0_kids :
    forall i sty, adm0 (RN i sty) = true -> forallb adm0 (direct_kids i) = true.
  (* tables: raw mode (all rows stacked: order kept), or the order inside lines does not
     matter and all visible document characters have a positive width *)
  Hypothesis tab_cond : forall rows nc sty, adm0 (RN (ITable rows nc) sty) = true ->
    o_raw o = true \/ (ord = false /\ forall t, P t -> Forall posw t).

  Notation lo := (mts strip d mw o).
  Notation hi := (mts (fun x => x) d mw o).
  Notation klo := (kids_ms strip d mw o).
  Notation khi := (kids_ms (fun x => x) d mw o).

  (* st' differs from st in the top sub-renderer only, which keeps its width and options and
     (if its invariant holds) has received a stream t between l and h *)
  Definition Ct (st st' : rstate) (l h : list sitem) : Prop :=
    exists s s' rest, stack st = s :: rest /\ stack st' = s' :: rest /\ same s s' /\
      (Iv s -> Iv s' /\ (P (projr h) -> exists t, btw l t h /\ Step ord s s' t)).

  Lemma Ct_refl st w : geo st = Some (w, o) -> Ct st st [] [].
  Proof.
    intros Hg. destruct (geo_stack _ _ _ Hg) as (s & rest & E & _ & _).
    exists s, s, rest. split; [exact E|]. split; [exact E|]. split; [apply same_refl|].
    intros Hi. split; [exact Hi|]. intros _. exists []. split; [apply btw_refl|apply Step_refl].
  Qed.

  Lemma Ct_stack_eq st st' w : geo st = Some (w, o) -> stack st' = stack st -> Ct st st' [] [].
  Proof.
    intros Hg E. destruct (geo_stack _ _ _ Hg) as (s & rest & E1 & _ & _).
    exists s, s, rest. split; [exact E1|]. split; [congruence|]. split; [apply same_refl|].
    intros Hi. split; [exact Hi|]. intros _. exists []. split; [apply btw_refl|apply Step_refl].
  Qed.

  Lemma Ct_trans a b c l1 h1 l2 h2 :
    Ct a b l1 h1 -> Ct b c l2 h2 -> Ct a c (l1 ++ l2) (h1 ++ h2).
  Proof.
    intros (s & s' & rest & E1 & E2 & S1 & K1) (s2 & s2' & rest2 & E3 & E4 & S2 & K2).
    rewrite E2 in E3. injection E3 as <- <-.
    exists s, s2', rest. split; [exact E1|]. split; [exact E4|].
    split; [eapply same_trans; eassumption|].
    intros Hi. destruct (K1 Hi) as [Hi' R1]. destruct (K2 Hi') as [Hi'' R2].
    split; [exact Hi''|]. intros Hp. rewrite projr_app in Hp. destruct (P_app _ _ Hp) as [Hp1 Hp2].
    destruct (R1 Hp1) as (t1 & B1 & T1). destruct (R2 Hp2) as (t2 & B2 & T2).
    exists (t1 ++ t2). split; [apply btw_app; assumption|eapply Step_trans; eassumption].
  Qed.
  Lemma Ct0_l a b c l h : Ct a b [] [] -> Ct b c l h -> Ct a c l h.
  Proof. intros A B. exact (Ct_trans _ _ _ _ _ _ _ A B). Qed.
  Lemma Ct0_r a b c l h : Ct a b l h -> Ct b c [] [] -> Ct a c l h.
  Proof.
    intros A B. pose proof (Ct_trans _ _ _ _ _ _ _ A B) as C. rewrite !app_nil_r in C. exact C.
  Qed.

  Lemma Ct_geo a b l h : Ct a b l h -> geo b = geo a.
  Proof.
    intros (s & s' & rest & E1 & E2 & [S1 S2] & _). unfold geo, shape. rewrite E1, E2.
    cbn [map hd_error]. congruence.
  Qed.

  Lemma with_top_Ct f t st st' : opE f t -> with_top st f = Ok st' -> Ct st st' t t.
  Proof.
    intros Hf H. destruct (with_top_inv _ _ _ H) as (s & rest & s' & Es & Ef & ->).
    exists s, s', rest. split; [exact Es|]. split; [reflexivity|]. split; [apply (proj1 Hf), Ef|].
    intros Hi. split; [eapply opE_Iv; eassumption|]. intros _. exists t. split; [apply btw_refl|].
    eapply opE_Step; [exact Hf|exact Ef|exact (proj1 Hi)].
  Qed.
  Lemma with_top'_Ct g t st st' :
    opE (fun s => Ok (g s)) t -> with_top' st g = Ok st' -> Ct st st' t t.
  Proof. unfold with_top'. apply with_top_Ct. Qed.

  Lemma inline_text_Ct t st st' : inline_text d st t = Ok st' -> Ct st st' (mchars t) (mchars t).
  Proof. unfold inline_text. apply with_top_Ct, add_inline_text_opE. Qed.

  Lemma apply_style_Ct st cs st' p w :
    geo st = Some (w, o) -> apply_style d st cs = Ok (st', p) -> Ct st st' [] [].
  Proof.
    intros Hg H. unfold apply_style in H.
    bind_inv H st1 H1. bind_inv H st2 H2. bind_inv H st3 H3. bind_inv H st4 H4.
    injection H as <- _.
    assert (R1 : Ct st st1 [] []).
    { destruct (ws_val (c_colour (cs_core cs))) as [[[r g] b]|].
      - eapply with_top'_Ct; [apply push_colour_opE|exact H1].
      - ok_inv H1. eapply Ct_refl, Hg. }
    assert (Hg1 : geo st1 = Some (w, o)) by (rewrite (Ct_geo _ _ _ _ R1); exact Hg).
    assert (R2 : Ct st1 st2 [] []).
    { destruct (ws_val (c_bg (cs_core cs))) as [[[r g] b]|].
      - eapply with_top'_Ct; [apply push_bgcolour_opE|exact H2].
      - ok_inv H2. eapply Ct_refl, Hg1. }
    assert (Hg2 : geo st2 = Some (w, o)) by (rewrite (Ct_geo _ _ _ _ R2); exact Hg1).
    assert (R3 : Ct st2 st3 [] []).
    { destruct (match ws_val (c_white_space (cs_core cs)) with
                | Some WsPre => Some WsPre
                | Some WsPreWrap => Some WsPreWrap
                | _ => None
                end) as [m|].
      - eapply with_top'_Ct; [apply push_ws_mode_opE|exact H3].
      - ok_inv H3. eapply Ct_refl, Hg2. }
    assert (Hg3 : geo st3 = Some (w, o)) by (rewrite (Ct_geo _ _ _ _ R3); exact Hg2).
    assert (R4 : Ct st3 st4 [] []).
    { destruct (cs_internal_pre cs).
      - eapply with_top'_Ct; [apply push_preformat_opE|exact H4].
      - ok_inv H4. eapply Ct_refl, Hg3. }
    eapply Ct0_l; [exact R1|]. eapply Ct0_l; [exact R2|]. eapply Ct0_l; eassumption.
  Qed.

  Lemma unwind_Ct p st st' w : geo st = Some (w, o) -> unwind d p st = Ok st' -> Ct st st' [] [].
  Proof.
    intros Hg H. unfold unwind in H.
    bind_inv H st1 H1. bind_inv H st2 H2. bind_inv H st3 H3.
    assert (R1 : Ct st st1 [] []).
    { destruct (p_bg p).
      - eapply with_top'_Ct; [apply pop_colour_opE|exact H1].
      - ok_inv H1. eapply Ct_refl, Hg. }
    assert (Hg1 : geo st1 = Some (w, o)) by (rewrite (Ct_geo _ _ _ _ R1); exact Hg).
    assert (R2 : Ct st1 st2 [] []).
    { destruct (p_colour p).
      - eapply with_top'_Ct; [apply pop_colour_opE|exact H2].
      - ok_inv H2. eapply Ct_refl, Hg1. }
    assert (Hg2 : geo st2 = Some (w, o)) by (rewrite (Ct_geo _ _ _ _ R2); exact Hg1).
    assert (R3 : Ct st2 st3 [] []).
    { destruct (p_ws p).
      - eapply with_top'_Ct; [apply pop_ws_mode_opE|exact H3].
      - ok_inv H3. eapply Ct_refl, Hg2. }
    assert (Hg3 : geo st3 = Some (w, o)) by (rewrite (Ct_geo _ _ _ _ R3); exact Hg2).
    assert (R4 : Ct st3 st' [] []).
    { destruct (p_pre p).
      - eapply with_top_Ct; [apply pop_preformat_opE|exact H].
      - ok_inv H. eapply Ct_refl, Hg3. }
    eapply Ct0_l; [exact R1|]. eapply Ct0_l; [exact R2|]. eapply Ct0_l; eassumption.
  Qed.

  Lemma fold_Ct {B} (f : B -> rstate -> res rstate) (gl gh : B -> list sitem) (w : N) (l : list B) :
    (forall b, In b l -> forall a a', geo a = Some (w, o) -> f b a = Ok a' -> Ct a a' (gl b) (gh b)) ->
    forall a a', geo a = Some (w, o) ->
      fold_left (fun acc b => do s <- acc; f b s) l (Ok a) = Ok a' ->
      Ct a a' (flat_map gl l) (flat_map gh l).
  Proof.
    induction l as [|b l IH]; intros Hstep a a' Ha H.
    - cbn [fold_left] in H. ok_inv H. eapply Ct_refl, Ha.
    - apply fold_bind_cons in H. destruct H as (a1 & H1 & H).
      pose proof (Hstep b (or_introl eq_refl) a a1 Ha H1) as T1.
      cbn [flat_map]. eapply Ct_trans; [exact T1|].
      apply IH; [intros b' Hb'; apply Hstep; right; exact Hb'| |exact H].
      rewrite (Ct_geo _ _ _ _ T1). exact Ha.
  Qed.

  Definition node_ct (n : rnode) : Prop :=
    forall st st' w, adm0 n = true -> geo st = Some (w, o) ->
                     render_node d mw n st = Ok st' -> Ct st st' (lo n w) (hi n w).

  Lemma render_kids_Ct cs st st' w :
    Forall node_ct cs -> forallb adm0 cs = true -> geo st = Some (w, o) ->
    fold_left (fun acc c => do s <- acc; render_node d mw c s) cs (Ok st) = Ok st' ->
    Ct st st' (klo cs w) (khi cs w).
  Proof.
    intros HF Ha Hg H. unfold kids_ms.
    apply (fold_Ct (render_node d mw) (fun c => lo c w) (fun c => hi c w) w cs); [|exact Hg|exact H].
    intros c Hc a a' Hga Hr. rewrite Forall_forall in HF. rewrite forallb_forall in Ha.
    apply (HF c Hc a a' w (Ha c Hc) Hga Hr).
  Qed.

  Lemma wrap_case_Ct (f1 f2 : subr -> res subr) t1 t2 cs ps st1 st' w :
    opE f1 t1 -> opE f2 t2 -> Forall node_ct cs -> forallb adm0 cs = true ->
    geo st1 = Some (w, o) ->
    (do a <- with_top st1 f1;
     do b <- fold_left (fun acc c => do s <- acc; render_node d mw c s) cs (Ok a);
     do c <- with_top b f2; unwind d ps c) = Ok st' ->
    Ct st1 st' (t1 ++ klo cs w ++ t2) (t1 ++ khi cs w ++ t2).
  Proof.
    intros K1 K2 HF Ha Hg H.
    bind_inv H a H1. bind_inv H b H2. bind_inv H c H3.
    pose proof (with_top_Ct _ _ _ _ K1 H1) as Ra.
    assert (Hga : geo a = Some (w, o)) by (rewrite (Ct_geo _ _ _ _ Ra); exact Hg).
    pose proof (render_kids_Ct _ _ _ _ HF Ha Hga H2) as Rb.
    assert (Hgb : geo b = Some (w, o)) by (rewrite (Ct_geo _ _ _ _ Rb); exact Hga).
    pose proof (with_top_Ct _ _ _ _ K2 H3) as Rc.
    assert (Hgc : geo c = Some (w, o)) by (rewrite (Ct_geo _ _ _ _ Rc); exact Hgb).
    pose proof (unwind_Ct _ _ _ _ Hgc H) as Rd.
    eapply Ct_trans; [exact Ra|]. eapply Ct_trans; [exact Rb|]. eapply Ct0_r; eassumption.
  Qed.

  (* a nested sub-renderer: what is popped holds what was rendered into it *)
  Lemma sub_scope_Ct st tp w' st2 sub st3 l h :
    Ct (push_sub st (new_sub_renderer tp w')) st2 l h -> pop_sub st2 = Ok (sub, st3) ->
    stack st3 = stack st /\ Iv sub /\ (P (projr h) -> Sub0 ord sub l h).
  Proof.
    intros (s & s' & rest & E1 & E2 & _ & K) Hp. unfold pop_sub in Hp. rewrite E2 in Hp.
    injection Hp as -> <-. cbn [push_sub stack] in E1. injection E1 as <- <-.
    destruct (K (Iv_new tp w')) as [Hi R]. cbn [stack]. split; [reflexivity|]. split; [exact Hi|].
    intros HP. destruct (R HP) as (t & Bt & m & Rm & Em). exists t. split; [exact Bt|].
    exists m. split; [exact Rm|exact Em].
  Qed.

  Lemma append_Ct st3 sub p1 p2 st4 l h :
    Iv sub -> (P (projr h) -> Sub0 ord sub l h) -> nodoc p1 -> nodoc p2 ->
    with_top st3 (fun s => append_subrender s sub p1 p2) = Ok st4 -> Ct st3 st4 (strip l) h.
  Proof.
    intros [Hsub _] Hr Hp1 Hp2 H.
    destruct (append_subrender_opC sub p1 p2 Hsub Hp1 Hp2) as (Hs & Ho & Hl).
    destruct (with_top_inv _ _ _ H) as (s & rest & s' & Es & Ef & ->).
    exists s, s', rest. split; [exact Es|]. split; [reflexivity|]. split; [apply Hs, Ef|].
    intros [Hp Hw]. destruct (Ho _ _ Ef Hp) as [Hp' E].
    split; [split; [exact Hp'|eapply Hl; eassumption]|].
    intros HP. exact (append_subrender_St ord _ _ _ _ _ _ _ Ef Hp Hsub Hp1 Hp2 (Hr HP)).
  Qed.

  Lemma prefixed_Ct st tp a b w w' st2 sub st3 l h :
    geo st = Some (w, o) -> top st = Ok tp -> width_minus tp a b = Ok w' ->
    (geo (push_sub st (new_sub_renderer tp w')) = Some (w', o) ->
     Ct (push_sub st (new_sub_renderer tp w')) st2 l h) ->
    pop_sub st2 = Ok (sub, st3) ->
    width_minus (sub_new w o) a b = Ok w' /\ stack st3 = stack st /\ Iv sub /\
    (P (projr h) -> Sub0 ord sub l h).
  Proof.
    intros Hg Ht Hw Hbody Hp. rewrite (top_geo _ _ Ht) in Hg. injection Hg as E1 E2.
    split; [rewrite <- E1, <- E2, <- width_minus_geo; exact Hw|].
    eapply sub_scope_Ct; [|exact Hp]. apply Hbody. rewrite push_geo, E2. reflexivity.
  Qed.

  Lemma flat_map_on_okM {A B} (r : res A) (h : B -> A -> list sitem) (l : list B) (w0 : A) :
    flat_map (fun b => on_okM r (h b) (h b w0)) l =
    on_okM r (fun x => flat_map (fun b => h b x) l) (flat_map (fun b => h b w0) l).
  Proof. destruct r; reflexivity. Qed.

  (* ---- ordered lists ---- *)
  Lemma ol_items_Ct sz pw w : forall items s i r,
    Forall node_ct items -> forallb adm0 items = true -> geo s = Some (w, o) ->
    fold_left (fun acc item => do si <- acc; ol_step d mw sz pw item si) items (Ok (s, i)) = Ok r ->
    Ct s (fst r)
       (flat_map (fun item =>
                    on_okM (do im <- usub 23 (e_min sz) (e_prefix sz);
                            width_minus (sub_new w o) pw im)
                           (fun w' => strip (lo item w')) (strip (lo item w))) items)
       (flat_map (fun item =>
                    on_okM (do im <- usub 23 (e_min sz) (e_prefix sz);
                            width_minus (sub_new w o) pw im)
                           (fun w' => hi item w') (hi item w)) items).
  Proof.
    induction items as [|item items IH]; intros s i r HF Ha Hg H.
    - cbn [fold_left] in H. ok_inv H. eapply Ct_refl, Hg.
    - apply fold_bind_cons in H. destruct H as ([s4 i'] & Hstep & H).
      pose proof (Forall_inv HF) as HF1. pose proof (Forall_inv_tail HF) as HF2.
      cbn [forallb] in Ha. apply andb_true_iff in Ha. destruct Ha as [Ha1 Ha2].
      unfold ol_step in Hstep.
      bind_inv Hstep iw Hiw. bind_inv Hstep tp Htp. bind_inv Hstep w' Hw.
      bind_inv Hstep s2 Hs2. bind_inv Hstep pp Hpp. destruct pp as [sub s3].
      bind_inv Hstep s4' H4. injection Hstep as -> <-.
      destruct (prefixed_Ct s tp _ _ w w' s2 sub s3 (lo item w') (hi item w') Hg Htp Hw)
        as (Ew & Es3 & Hi & Hr); [|exact Hpp|].
      { intros Hgp. apply (HF1 _ _ _ Ha1 Hgp Hs2). }
      assert (Hg3 : geo s3 = Some (w, o)) by (rewrite (geo_stack_eq _ _ Es3); exact Hg).
      pose proof (Ct_stack_eq _ _ _ Hg Es3) as R3.
      pose proof (append_Ct _ _ _ _ _ _ _ Hi Hr (nodoc_pad_width _ pw (pm_ol d Pd i))
                            (nodoc_pad_chars pw) H4) as R4.
      pose proof (Ct0_l _ _ _ _ _ R3 R4) as R04.
      cbn [flat_map]. rewrite Hiw. cbn [bind]. rewrite Ew. cbn [on_okM].
      eapply Ct_trans; [exact R04|].
      specialize (IH s4 (isat64 (i + 1)) r HF2 Ha2).
      rewrite Hiw in IH. cbn [bind] in IH. rewrite Ew in IH. apply IH; [|exact H].
      rewrite (Ct_geo _ _ _ _ R04). exact Hg.
  Qed.

  (* ---- tables ---- *)
  (* the cells of a row that are rendered (cell_widths gave them a width), with that width *)
  Fixpoint rendered (cells : list rcell) (wsl : list (option N)) : list (list rnode * N) :=
    match cells, wsl with
    | RCell _ content _ :: cells', Some cw_ :: wsl' => (content, cw_) :: rendered cells' wsl'
    | _ :: cells', None :: wsl' => rendered cells' wsl'
    | _, _ => []
    end.
  Definition lhs_of (cells : list rcell) (wsl : list (option N)) : list (list sitem * list sitem) :=
    map (fun cw => (klo (fst cw) (snd cw), khi (fst cw) (snd cw))) (rendered cells wsl).

  Lemma lo_of_lhs_of : forall cells wsl, lo_of (lhs_of cells wsl) = cells_ms strip lo cells wsl.
  Proof.
    induction cells as [|[n content csty] cells IH]; intros [|[cw_|] wsl]; try reflexivity.
    - unfold lhs_of, lo_of in *. cbn [rendered map flat_map fst snd cells_ms]. rewrite IH. reflexivity.
    - apply IH.
  Qed.
  Lemma hi_of_lhs_of : forall cells wsl,
    hi_of (lhs_of cells wsl) = cells_ms (fun x => x) hi cells wsl.
  Proof.
    induction cells as [|[n content csty] cells IH]; intros [|[cw_|] wsl]; try reflexivity.
    - unfold lhs_of, hi_of in *. cbn [rendered map flat_map fst snd cells_ms]. rewrite IH. reflexivity.
    - apply IH.
  Qed.

  Lemma cells_loop_Ct w : forall cells wsl s2 subs r,
    Forall (fun c => Forall node_ct (cell_content c)) cells -> cells_adm adm0 cells = true ->
    geo s2 = Some (w, o) -> Forall Iv subs ->
    cells_loop d mw cells wsl s2 subs = Ok r ->
    stack (fst r) = stack s2 /\ Forall Iv (snd r) /\
    (P (projr (cells_ms (fun x => x) hi cells wsl)) ->
     forall lhs0, Forall2 (SubI ord) subs lhs0 ->
                  Forall2 (SubI ord) (snd r) (lhs0 ++ lhs_of cells wsl)).
  Proof.
    induction cells as [|[n content csty] cells IH]; intros wsl s2 subs r HF Ha Hg Hs H;
      cbn [cells_loop] in H.
    - ok_inv H. cbn [fst snd]. split; [reflexivity|]. split; [exact Hs|].
      intros _ lhs0 H0. unfold lhs_of. destruct wsl; cbn [rendered map]; rewrite app_nil_r; exact H0.
    - inversion HF as [|? ? HF1 HF2]; subst. cbn [cell_content] in HF1.
      unfold cells_adm in Ha. cbn [forallb cell_content] in Ha. apply andb_true_iff in Ha.
      destruct Ha as [Ha1 Ha2].
      destruct wsl as [|[cw_|] wsl].
      + ok_inv H. cbn [fst snd cells_ms]. split; [reflexivity|]. split; [exact Hs|].
        intros _ lhs0 H0. unfold lhs_of. cbn [rendered map]. rewrite app_nil_r. exact H0.
      + bind_inv H tp2 Htp. bind_inv H apc Hap. destruct apc as [s4 pcell].
        bind_inv H s5 H5. bind_inv H s6 H6. bind_inv H pp Hpp. destruct pp as [sub s7].
        pose proof Hg as Hg'. rewrite (top_geo _ _ Htp) in Hg'. injection Hg' as E1 E2.
        assert (Hg3 : geo (push_sub s2 (new_sub_renderer tp2 cw_)) = Some (cw_, o)).
        { rewrite push_geo, E2. reflexivity. }
        pose proof (apply_style_Ct _ _ _ _ _ Hg3 Hap) as Ra.
        assert (Hg4 : geo s4 = Some (cw_, o)) by (rewrite (Ct_geo _ _ _ _ Ra); exact Hg3).
        pose proof (render_kids_Ct _ _ _ _ HF1 Ha1 Hg4 H5) as Rb.
        assert (Hg5 : geo s5 = Some (cw_, o)) by (rewrite (Ct_geo _ _ _ _ Rb); exact Hg4).
        pose proof (unwind_Ct _ _ _ _ Hg5 H6) as Rc.
        destruct (sub_scope_Ct s2 tp2 cw_ s6 sub s7 (klo content cw_) (khi content cw_))
          as (Es7 & Hi & Hr); [|exact Hpp|].
        { eapply Ct0_l; [exact Ra|]. eapply Ct0_r; eassumption. }
        assert (Hg7 : geo s7 = Some (w, o)) by (rewrite (geo_stack_eq _ _ Es7); exact Hg).
        destruct (IH wsl s7 (subs ++ [sub]) r HF2 Ha2 Hg7) as (A & B & C); [|exact H|].
        { apply Forall_app. split; [exact Hs|]. constructor; [exact Hi|constructor]. }
        split; [congruence|]. split; [exact B|].
        cbn [cells_ms]. intros HP lhs0 H0. rewrite projr_app in HP.
        destruct (P_app _ _ HP) as [HP1 HP2].
        pose proof (C HP2 (lhs0 ++ [(klo content cw_, khi content cw_)])) as F.
        unfold lhs_of in *. cbn [rendered map fst snd]. rewrite <- app_assoc in F. apply F.
        apply Forall2_app; [exact H0|]. constructor; [exact (Hr HP1)|constructor].
      + cbn [cells_ms]. apply (IH wsl s2 subs r HF2 Ha2 Hg Hs H).
  Qed.

  Lemma SubI_pfc_P subs lhs :
    Forall2 (SubI ord) subs lhs -> P (projr (hi_of lhs)) ->
    Forall2 (fun c lh => SubI ord c lh /\ P (projr (snd lh))) subs lhs.
  Proof.
    induction 1 as [|c lh subs lhs Hc _ IH]; intros HP; [constructor|].
    unfold hi_of in HP. cbn [flat_map] in HP. rewrite projr_app in HP.
    destruct (P_app _ _ HP) as [HP1 HP2]. constructor; [split; assumption|apply IH, HP2].
  Qed.

  (* a row all of whose cells are `sub_empty` is not rendered at all: under the width
     condition its cells hold no visible document character, so all their markers belong to
     elements without visible content there *)
  Lemma all_empty_btw subs lhs :
    (forall t, P t -> Forall posw t) ->
    existsb (fun c => negb (sub_empty c)) subs = false -> Forall Iv subs ->
    Forall2 (fun c lh => SubI ord c lh /\ P (projr (snd lh))) subs lhs ->
    btw (lo_of lhs) [] (hi_of lhs).
  Proof.
    intros Hpos. revert lhs. induction subs as [|c subs IH]; intros lhs He HI HF.
    - inversion HF; subst. apply btw_refl.
    - inversion HF as [|? lh ? lhs' [Hc HPc] HF']; subst.
      cbn [existsb] in He. apply orb_false_iff in He. destruct He as [He1 He2].
      inversion HI as [|? ? [Hcp Hw] HI']; subst.
      specialize (IH lhs' He2 HI' HF'). unfold lo_of, hi_of in *. cbn [flat_map].
      destruct Hc as (t & [B1 B2] & m & Rm & Em).
      assert (Pt : Permutation (mstream_out c) t).
      { rewrite mstream_split, <- Em. apply Permutation_app; [|apply Permutation_refl].
        exact (relm_perm _ _ _ Rm). }
      assert (Eo : out_stream c = []).
      { apply sub_empty_stream; [destruct (sub_empty c); [reflexivity|discriminate]|exact Hw|].
        rewrite <- (projr_mstream_out _ Hcp).
        eapply Permutation_Forall; [apply Permutation_sym, perm_projr, Pt|].
        rewrite (msub_projr _ _ B2). apply Hpos, HPc. }
      assert (Et : projr t = []).
      { apply Permutation_nil. rewrite <- Eo, <- (projr_mstream_out _ Hcp).
        apply perm_projr, Pt. }
      assert (El : strip (fst lh) = []) by (apply strip_no_chars; rewrite (msub_projr _ _ B1); exact Et).
      assert (Eh : msub [] (snd lh)) by (apply msub_nil_markers; rewrite <- (msub_projr _ _ B2); exact Et).
      rewrite El. cbn [app]. destruct IH as [I1 I2]. split; [exact I1|].
      exact (msub_app _ _ _ _ Eh I2).
  Qed.

  Lemma row_body_Ct vr col_widths w r s s' :
    (vr = false -> ord = false /\ forall t, P t -> Forall posw t) ->
    Forall (fun c => Forall node_ct (cell_content c)) (row_cells r) ->
    cells_adm adm0 (row_cells r) = true -> geo s = Some (w, o) ->
    row_body d mw vr col_widths r s = Ok s' ->
    Ct s s' (row_ms strip d mw o vr col_widths w r) (row_ms (fun x => x) d mw o vr col_widths w r).
  Proof.
    intros Hv HF Ha Hg H. destruct r as [rcells rstyle]. cbn [row_cells] in *. unfold row_body in H.
    bind_inv H apr Hap. destruct apr as [s1 prow]. bind_inv H cws Hcws. bind_inv H rr Hrr.
    destruct rr as [s8 subs]. bind_inv H s9 H9.
    pose proof (apply_style_Ct _ _ _ _ _ Hg Hap) as R1.
    assert (Hg1 : geo s1 = Some (w, o)) by (rewrite (Ct_geo _ _ _ _ R1); exact Hg).
    destruct (cells_loop_Ct w rcells cws s1 [] (s8, subs) HF Ha Hg1 (Forall_nil _) Hrr)
      as (E8 & HI & Hrel). cbn [fst snd] in *.
    assert (Hg8 : geo s8 = Some (w, o)) by (rewrite (geo_stack_eq _ _ E8); exact Hg1).
    pose proof (Ct_stack_eq _ _ _ Hg1 E8) as R8.
    unfold row_ms. rewrite Hcws. cbn [on_okM].
    assert (R9 : Ct s8 s9 (cells_ms strip lo rcells cws) (cells_ms (fun x => x) hi rcells cws)).
    { destruct vr.
      - destruct (append_vert_row_opC subs (Forall_pfc _ HI)) as (Hs & Ho & Hl).
        destruct (with_top_inv _ _ _ H9) as (t & rest & t' & Es & Ef & ->).
        exists t, t', rest. split; [exact Es|]. split; [reflexivity|]. split; [apply Hs, Ef|].
        intros [Hp Hw]. destruct (Ho _ _ Ef Hp) as [Hp' E].
        split; [split; [exact Hp'|eapply Hl; eassumption]|].
        intros HP. pose proof (Hrel HP [] (Forall2_nil _)) as F. cbn [app] in F.
        rewrite <- lo_of_lhs_of, <- hi_of_lhs_of.
        exact (append_vert_row_St ord _ _ _ _ F (Forall_pfc _ HI) Ef Hp).
      - destruct (Hv eq_refl) as [Hord Hpos].
        destruct (existsb (fun c => negb (sub_empty c)) subs) eqn:Ee.
        + destruct (with_top_inv _ _ _ H9) as (t & rest & t' & Es & Ef & ->).
          exists t, t', rest. split; [exact Es|]. split; [reflexivity|].
          split; [eapply append_columns_sames, Ef|].
          intros [Hp Hw]. destruct (append_columns_out _ _ _ _ (Forall_pfc _ HI) Ef Hp) as (A & B & C).
          split; [split; [exact A|apply wl_none, C]|].
          intros HP. pose proof (Hrel HP [] (Forall2_nil _)) as F. cbn [app] in F.
          rewrite <- lo_of_lhs_of, <- hi_of_lhs_of. rewrite Hord.
          exact (append_columns_St ord _ _ _ _ _ F (Forall_pfc _ HI) Ef Hp).
        + ok_inv H9. destruct (geo_stack _ _ _ Hg8) as (t & rest & Es & _ & _).
          exists t, t, rest. split; [exact Es|]. split; [exact Es|]. split; [apply same_refl|].
          intros Hi. split; [exact Hi|].
          intros HP. pose proof (Hrel HP [] (Forall2_nil _)) as F. cbn [app] in F.
          rewrite <- lo_of_lhs_of, <- hi_of_lhs_of. exists []. split; [|apply Step_refl].
          rewrite <- hi_of_lhs_of in HP.
          exact (all_empty_btw _ _ Hpos Ee HI (SubI_pfc_P _ _ F HP)). }
    assert (Hg9 : geo s9 = Some (w, o)) by (rewrite (Ct_geo _ _ _ _ R9); exact Hg8).
    pose proof (unwind_Ct _ _ _ _ Hg9 H) as R10.
    eapply Ct0_l; [exact R1|]. eapply Ct0_l; [exact R8|]. eapply Ct0_r; eassumption.
  Qed.


  Ltac start H Hg w sz ap st1 ps R1 Hg1 :=
    let Hsz := fresh "Hsz" in let Hap := fresh "Hap" in
    bind_inv H sz Hsz; bind_inv H ap Hap; destruct ap as [st1 ps];
    pose proof (apply_style_Ct _ _ _ _ _ Hg Hap) as R1;
    assert (Hg1 : geo st1 = Some (w, o)) by (rewrite (Ct_geo _ _ _ _ R1); exact Hg).

  (* THE per-node theorem *)
  Lemma node_ct_all : forall n, node_ct n.
  Proof.
    apply rnode_ind'. intros i sty IH st st' w Ha Hg H.
    pose proof (adm0_kids _ _ Ha) as Hk.
    destruct i; cbn [direct_kids] in IH, Hk; cbn [render_node rn_info rn_style] in H.
    - (* IText *)
      start H Hg w sz ap st1 ps R1 Hg1. bind_inv H st2 H2.
      pose proof (inline_text_Ct _ _ _ H2) as R2.
      assert (Hg2 : geo st2 = Some (w, o)) by (rewrite (Ct_geo _ _ _ _ R2); exact Hg1).
      pose proof (unwind_Ct _ _ _ _ Hg2 H) as R3.
      cbn [mts rn_info]. eapply Ct0_l; [exact R1|]. eapply Ct0_r; eassumption.
    - (* IContainer *)
      start H Hg w sz ap st1 ps R1 Hg1. bind_inv H st2 H2.
      pose proof (render_kids_Ct _ _ _ _ IH Hk Hg1 H2) as R2.
      assert (Hg2 : geo st2 = Some (w, o)) by (rewrite (Ct_geo _ _ _ _ R2); exact Hg1).
      pose proof (unwind_Ct _ _ _ _ Hg2 H) as R3.
      eapply Ct0_l; [exact R1|]. eapply Ct0_r; eassumption.
    - (* ILink *)
      start H Hg w sz ap st1 ps R1 Hg1.
      set (st1' := mkrst (stack st1) (links st1 ++ [href])) in H.
      assert (R1' : Ct st1 st1' [] []) by (apply (Ct_stack_eq _ _ _ Hg1); reflexivity).
      assert (Hg1' : geo st1' = Some (w, o)) by exact Hg1.
      bind_inv H st2 H2. bind_inv H st3 H3. bind_inv H st4 H4. bind_inv H tp H5. bind_inv H st5 H6.
      pose proof (with_top_Ct _ _ _ _ (start_deco_opE d (d_link_start d href)) H2) as R2.
      assert (Hg2 : geo st2 = Some (w, o)) by (rewrite (Ct_geo _ _ _ _ R2); exact Hg1').
      pose proof (render_kids_Ct _ _ _ _ IH Hk Hg2 H3) as R3.
      assert (Hg3 : geo st3 = Some (w, o)) by (rewrite (Ct_geo _ _ _ _ R3); exact Hg2).
      pose proof (with_top_Ct _ _ _ _ (end_deco_opE d (d_link_end d)) H4) as R4.
      assert (Hg4 : geo st4 = Some (w, o)) by (rewrite (Ct_geo _ _ _ _ R4); exact Hg3).
      assert (R5 : Ct st4 st5 [] []).
      { destruct (o_footnotes (sopts tp)).
        - pose proof (inline_text_Ct _ _ _ H6) as X. rewrite mchars_ftext in X. exact X.
        - ok_inv H6. eapply Ct_refl, Hg4. }
      assert (Hg5 : geo st5 = Some (w, o)) by (rewrite (Ct_geo _ _ _ _ R5); exact Hg4).
      pose proof (unwind_Ct _ _ _ _ Hg5 H) as R6.
      eapply Ct0_l; [exact R1|]. eapply Ct0_l; [exact R1'|].
      change (lo (RN (ILink href cs) sty) w)
        with (mchars (fst (d_link_start d href)) ++ klo cs w ++ mchars (d_link_end d)).
      change (hi (RN (ILink href cs) sty) w)
        with (mchars (fst (d_link_start d href)) ++ khi cs w ++ mchars (d_link_end d)).
      eapply Ct_trans; [exact R2|]. eapply Ct_trans; [exact R3|].
      eapply Ct0_r; [|exact R6]. eapply Ct0_r; eassumption.
    - (* IEm *)
      start H Hg w sz ap st1 ps R1 Hg1. eapply Ct0_l; [exact R1|].
      exact (wrap_case_Ct (start_emphasis d) (end_emphasis d) _ _ cs ps st1 st' w
               (start_deco_opE d (d_em_start d)) (end_deco_opE d (d_em_end d)) IH Hk Hg1 H).
    - (* IStrong *)
      start H Hg w sz ap st1 ps R1 Hg1. eapply Ct0_l; [exact R1|].
      exact (wrap_case_Ct (start_strong d) (end_strong d) _ _ cs ps st1 st' w
               (start_deco_opE d (d_strong_start d)) (end_deco_opE d (d_strong_end d)) IH Hk Hg1 H).
    - (* IStrikeout *)
      start H Hg w sz ap st1 ps R1 Hg1. eapply Ct0_l; [exact R1|].
      exact (wrap_case_Ct (start_strikeout d) (end_strikeout d) _ _ cs ps st1 st' w
               (start_strikeout_opE d) (end_strikeout_opE d) IH Hk Hg1 H).
    - (* ICode *)
      start H Hg w sz ap st1 ps R1 Hg1. eapply Ct0_l; [exact R1|].
      exact (wrap_case_Ct (start_code d) (end_code d) _ _ cs ps st1 st' w
               (start_deco_opE d (d_code_start d)) (end_deco_opE d (d_code_end d)) IH Hk Hg1 H).
    - (* IImg *)
      start H Hg w sz ap st1 ps R1 Hg1. bind_inv H st2 H2.
      pose proof (with_top_Ct _ _ _ _ (add_image_opE d src title) H2) as R2.
      assert (Hg2 : geo st2 = Some (w, o)) by (rewrite (Ct_geo _ _ _ _ R2); exact Hg1).
      pose proof (unwind_Ct _ _ _ _ Hg2 H) as R3.
      cbn [mts rn_info]. eapply Ct0_l; [exact R1|]. eapply Ct0_r; eassumption.
    - (* IBlock *)
      start H Hg w sz ap st1 ps R1 Hg1. eapply Ct0_l; [exact R1|].
      pose proof (wrap_case_Ct start_block (fun s => Ok (end_block s)) _ _ cs ps st1 st' w
                    start_block_opE end_block_opE IH Hk Hg1 H) as X.
      cbn [app] in X. rewrite !app_nil_r in X. exact X.
    - (* IHeader *)
      start H Hg w sz ap st1 ps R1 Hg1.
      destruct (swidth (d_header_prefix d level) =? e_prefix sz); cbn [negb] in H; [|discriminate].
      bind_inv H tp Htp. bind_inv H w' Hw. bind_inv H st2 H2. bind_inv H pp Hpp.
      destruct pp as [sub st3]. bind_inv H st4 H4. bind_inv H st5 H5. bind_inv H st6 H6.
      destruct (prefixed_Ct st1 tp _ _ w w' st2 sub st3 (klo cs w') (khi cs w') Hg1 Htp Hw)
        as (Ew & Es3 & Hi & Hr); [|exact Hpp|].
      { intros Hgp. eapply render_kids_Ct; eassumption. }
      assert (Hg3 : geo st3 = Some (w, o)) by (rewrite (geo_stack_eq _ _ Es3); exact Hg1).
      pose proof (Ct_stack_eq _ _ _ Hg1 Es3) as R3.
      pose proof (with_top_Ct _ _ _ _ start_block_opE H4) as R4.
      assert (Hg4 : geo st4 = Some (w, o)) by (rewrite (Ct_geo _ _ _ _ R4); exact Hg3).
      pose proof (append_Ct _ _ _ _ _ _ _ Hi Hr (pm_header d Pd level) (pm_header d Pd level) H5) as R5.
      assert (Hg5 : geo st5 = Some (w, o)) by (rewrite (Ct_geo _ _ _ _ R5); exact Hg4).
      pose proof (with_top'_Ct _ _ _ _ end_block_opE H6) as R6.
      assert (Hg6 : geo st6 = Some (w, o)) by (rewrite (Ct_geo _ _ _ _ R6); exact Hg5).
      pose proof (unwind_Ct _ _ _ _ Hg6 H) as R7.
      cbn [mts rn_info]. rewrite Hsz. cbn [on_okM]. rewrite Ew. cbn [on_okM].
      eapply Ct0_l; [exact R1|]. eapply Ct0_l; [exact R3|]. eapply Ct0_l; [exact R4|].
      eapply Ct0_r; [|exact R7]. eapply Ct0_r; eassumption.
    - (* IDiv *)
      start H Hg w sz ap st1 ps R1 Hg1. eapply Ct0_l; [exact R1|].
      pose proof (wrap_case_Ct new_line new_line _ _ cs ps st1 st' w
                    flush_wrapping_opE flush_wrapping_opE IH Hk Hg1 H) as X.
      cbn [app] in X. rewrite !app_nil_r in X. exact X.
    - (* IBlockQuote *)
      start H Hg w sz ap st1 ps R1 Hg1.
      destruct (e_prefix sz =? swidth (d_quote_prefix d)); cbn [negb] in H; [|discriminate].
      bind_inv H iw Hiw.
      bind_inv H tp Htp. bind_inv H w' Hw. bind_inv H st2 H2. bind_inv H pp Hpp.
      destruct pp as [sub st3]. bind_inv H st4 H4. bind_inv H st5 H5. bind_inv H st6 H6.
      destruct (prefixed_Ct st1 tp _ _ w w' st2 sub st3 (klo cs w') (khi cs w') Hg1 Htp Hw)
        as (Ew & Es3 & Hi & Hr); [|exact Hpp|].
      { intros Hgp. eapply render_kids_Ct; eassumption. }
      assert (Hg3 : geo st3 = Some (w, o)) by (rewrite (geo_stack_eq _ _ Es3); exact Hg1).
      pose proof (Ct_stack_eq _ _ _ Hg1 Es3) as R3.
      pose proof (with_top_Ct _ _ _ _ start_block_opE H4) as R4.
      assert (Hg4 : geo st4 = Some (w, o)) by (rewrite (Ct_geo _ _ _ _ R4); exact Hg3).
      pose proof (append_Ct _ _ _ _ _ _ _ Hi Hr (pm_quote d Pd) (pm_quote d Pd) H5) as R5.
      assert (Hg5 : geo st5 = Some (w, o)) by (rewrite (Ct_geo _ _ _ _ R5); exact Hg4).
      pose proof (with_top'_Ct _ _ _ _ end_block_opE H6) as R6.
      assert (Hg6 : geo st6 = Some (w, o)) by (rewrite (Ct_geo _ _ _ _ R6); exact Hg5).
      pose proof (unwind_Ct _ _ _ _ Hg6 H) as R7.
      cbn [mts rn_info]. rewrite Hsz. cbn [on_okM]. rewrite Hiw. cbn [bind].
      rewrite Ew. cbn [on_okM].
      eapply Ct0_l; [exact R1|]. eapply Ct0_l; [exact R3|]. eapply Ct0_l; [exact R4|].
      eapply Ct0_r; [|exact R7]. eapply Ct0_r; eassumption.
    - (* IUl *)
      start H Hg w sz ap st1 ps R1 Hg1. bind_inv H st2 H2.
      cbn [mts rn_info]. rewrite Hsz. cbn [on_okM].
      eapply Ct0_l; [exact R1|].
      rewrite <- (flat_map_on_okM _ (fun c w' => strip (lo c w')) cs w).
      rewrite <- (flat_map_on_okM _ (fun c w' => hi c w') cs w).
      assert (R2 : Ct st1 st2
                     (flat_map (fun b => on_okM (do iw <- usub 22 (e_min sz) (swidth (d_ul_prefix d));
                                                  width_minus (sub_new w o) (swidth (d_ul_prefix d)) iw)
                                                 (fun w' => strip (lo b w')) (strip (lo b w))) cs)
                     (flat_map (fun b => on_okM (do iw <- usub 22 (e_min sz) (swidth (d_ul_prefix d));
                                                  width_minus (sub_new w o) (swidth (d_ul_prefix d)) iw)
                                                 (fun w' => hi b w') (hi b w)) cs)).
      { revert H2.
        apply (fold_Ct
               (fun item s =>
                  do inner_width <- usub 22 (e_min sz) (swidth (d_ul_prefix d));
                  do tp <- top s;
                  do w <- width_minus tp (swidth (d_ul_prefix d)) inner_width;
                  do s2 <- render_node d mw item (push_sub s (new_sub_renderer tp w));
                  do pp <- pop_sub s2;
                  let '(sub, s3) := pp in
                  with_top s3 (fun t => append_subrender t sub (d_ul_prefix d)
                     (repeat_chr (spacel L_prefix) (N.to_nat (swidth (d_ul_prefix d))))))
               _ _ w cs); [|exact Hg1].
        intros item Hitem a a' Hga Hstep.
        bind_inv Hstep iw Hiw. bind_inv Hstep tp Htp. bind_inv Hstep w' Hw.
        bind_inv Hstep s2 Hs2. bind_inv Hstep pp Hpp. destruct pp as [sub s3].
        rewrite Forall_forall in IH. rewrite forallb_forall in Hk.
        destruct (prefixed_Ct a tp _ _ w w' s2 sub s3 (lo item w') (hi item w') Hga Htp Hw)
          as (Ew & Es3 & Hi & Hr); [|exact Hpp|].
        { intros Hgp. apply (IH item Hitem _ _ _ (Hk item Hitem) Hgp Hs2). }
        pose proof (Ct_stack_eq _ _ _ Hga Es3) as R3.
        assert (Hn : nodoc (repeat_chr (spacel L_prefix) (N.to_nat (swidth (d_ul_prefix d)))))
          by (apply nodoc_repeat; reflexivity).
        pose proof (append_Ct _ _ _ _ _ _ _ Hi Hr (pm_ul d Pd) Hn Hstep) as R4.
        rewrite Hiw. cbn [bind]. rewrite Ew. cbn [on_okM]. eapply Ct0_l; eassumption. }
      assert (Hg2 : geo st2 = Some (w, o)) by (rewrite (Ct_geo _ _ _ _ R2); exact Hg1).
      pose proof (unwind_Ct _ _ _ _ Hg2 H) as R3.
      eapply Ct0_r; eassumption.
    - (* IOl *)
      start H Hg w sz ap st1 ps R1 Hg1. bind_inv H r Hr.
      cbn [mts rn_info]. rewrite Hsz. cbn [on_okM].
      eapply Ct0_l; [exact R1|].
      rewrite <- (flat_map_on_okM _ (fun c w' => strip (lo c w')) cs w).
      rewrite <- (flat_map_on_okM _ (fun c w' => hi c w') cs w).
      pose proof (ol_items_Ct sz _ w cs st1 start r IH Hk Hg1 Hr) as R2.
      assert (Hg2 : geo (fst r) = Some (w, o)) by (rewrite (Ct_geo _ _ _ _ R2); exact Hg1).
      pose proof (unwind_Ct _ _ _ _ Hg2 H) as R3.
      eapply Ct0_r; eassumption.
    - (* IDl *)
      start H Hg w sz ap st1 ps R1 Hg1. bind_inv H st2 H2. bind_inv H st3 H3.
      pose proof (with_top_Ct _ _ _ _ start_block_opE H2) as R2.
      assert (Hg2 : geo st2 = Some (w, o)) by (rewrite (Ct_geo _ _ _ _ R2); exact Hg1).
      pose proof (render_kids_Ct _ _ _ _ IH Hk Hg2 H3) as R3.
      assert (Hg3 : geo st3 = Some (w, o)) by (rewrite (Ct_geo _ _ _ _ R3); exact Hg2).
      pose proof (unwind_Ct _ _ _ _ Hg3 H) as R4.
      eapply Ct0_l; [exact R1|]. eapply Ct0_l; [exact R2|]. eapply Ct0_r; eassumption.
    - (* IDt *)
      start H Hg w sz ap st1 ps R1 Hg1. bind_inv H st2 H2.
      pose proof (with_top_Ct _ _ _ _ flush_wrapping_opE H2) as R2.
      assert (Hg2 : geo st2 = Some (w, o)) by (rewrite (Ct_geo _ _ _ _ R2); exact Hg1).
      eapply Ct0_l; [exact R1|]. eapply Ct0_l; [exact R2|].
      exact (wrap_case_Ct (start_emphasis d) (end_emphasis d) _ _ cs ps st2 st' w
               (start_deco_opE d (d_em_start d)) (end_deco_opE d (d_em_end d)) IH Hk Hg2 H).
    - (* IDd *)
      start H Hg w sz ap st1 ps R1 Hg1. bind_inv H iw Hiw.
      bind_inv H tp Htp. bind_inv H w' Hw. bind_inv H st2 H2. bind_inv H pp Hpp.
      destruct pp as [sub st3]. bind_inv H st4 H4.
      destruct (prefixed_Ct st1 tp _ _ w w' st2 sub st3 (klo cs w') (khi cs w') Hg1 Htp Hw)
        as (Ew & Es3 & Hi & Hr); [|exact Hpp|].
      { intros Hgp. eapply render_kids_Ct; eassumption. }
      pose proof (Ct_stack_eq _ _ _ Hg1 Es3) as R3.
      assert (Hn : nodoc (ptext [32; 32])) by (apply nodoc_of_asciil; reflexivity).
      pose proof (append_Ct _ _ _ _ _ _ _ Hi Hr Hn Hn H4) as R4.
      assert (Hg4 : geo st4 = Some (w, o)).
      { rewrite (Ct_geo _ _ _ _ R4), (geo_stack_eq _ _ Es3). exact Hg1. }
      pose proof (unwind_Ct _ _ _ _ Hg4 H) as R5.
      cbn [mts rn_info]. rewrite Hsz. cbn [on_okM]. rewrite Hiw. cbn [bind].
      rewrite Ew. cbn [on_okM].
      eapply Ct0_l; [exact R1|]. eapply Ct0_l; [exact R3|]. eapply Ct0_r; eassumption.
    - (* IBreak *)
      start H Hg w sz ap st1 ps R1 Hg1. bind_inv H st2 H2.
      pose proof (with_top_Ct _ _ _ _ new_line_hard_opE H2) as R2.
      assert (Hg2 : geo st2 = Some (w, o)) by (rewrite (Ct_geo _ _ _ _ R2); exact Hg1).
      pose proof (unwind_Ct _ _ _ _ Hg2 H) as R3.
      cbn [mts rn_info]. eapply Ct0_l; [exact R1|]. eapply Ct0_l; eassumption.
    - (* ITable *)
      start H Hg w sz ap st1 ps R1 Hg1.
      bind_inv H col_sizes Hcs. bind_inv H tp Htp.
      pose proof Hg1 as Hg'. rewrite (top_geo _ _ Htp) in Hg'. injection Hg' as E1 E2.
      set (vr := o_raw (sopts tp)
                 || ((swidth_ tp <? sumN (map e_min col_sizes) + (N.of_nat (length col_sizes) - 1))
                     || (swidth_ tp =? 0))) in *.
      bind_inv H col_widths Hcw. bind_inv H st2 H2. bind_inv H st3 H3. bind_inv H st_rows Hrows.
      assert (Hcs' : tbl_col_sizes d mw rows ncols = Ok col_sizes) by exact Hcs.
      assert (Evr : tbl_vert o w col_sizes = vr) by (rewrite <- E1, <- E2; reflexivity).
      assert (Hcw' : tbl_col_widths o w col_sizes = Ok col_widths).
      { rewrite <- E1, <- E2. exact Hcw. }
      assert (Hv : vr = false -> ord = false /\ forall t, P t -> Forall posw t).
      { intros Ev. destruct (tab_cond _ _ _ Ha) as [Hraw|Hc]; [|exact Hc].
        unfold vr in Ev. rewrite E2, Hraw in Ev. discriminate. }
      pose proof (with_top_Ct _ _ _ _ start_block_opE H2) as R2.
      assert (Hg2 : geo st2 = Some (w, o)) by (rewrite (Ct_geo _ _ _ _ R2); exact Hg1).
      assert (R3 : Ct st2 st3 [] []).
      { match type of H3 with (if ?c then _ else _) = _ => destruct c end.
        - eapply with_top_Ct; [apply add_horizontal_border_width_opE|exact H3].
        - ok_inv H3. eapply Ct_refl, Hg2. }
      assert (Hg3 : geo st3 = Some (w, o)) by (rewrite (Ct_geo _ _ _ _ R3); exact Hg2).
      assert (Hrows' : fold_left (fun acc r => do s <- acc; row_body d mw vr col_widths r s) rows
                                 (Ok st3) = Ok st_rows) by exact Hrows.
      rewrite !(ms_table _ _ _ _ _ _ _ _ _ _ Hcs' Hcw'), Evr.
      assert (R4 : Ct st3 st_rows (flat_map (row_ms strip d mw o vr col_widths w) rows)
                      (flat_map (row_ms (fun x => x) d mw o vr col_widths w) rows)).
      { revert Hrows'. apply (fold_Ct (row_body d mw vr col_widths) _ _ w rows); [|exact Hg3].
        intros r Hr a a' Hga Hstep.
        apply Forall_flat_map in IH. rewrite Forall_forall in IH. specialize (IH r Hr).
        unfold row_kids in IH. apply Forall_flat_map in IH.
        rewrite forallb_flat_map in Hk. rewrite forallb_forall in Hk. specialize (Hk r Hr).
        unfold row_kids in Hk. rewrite forallb_flat_map in Hk.
        exact (row_body_Ct vr col_widths w r a a' Hv IH Hk Hga Hstep). }
      assert (Hg4 : geo st_rows = Some (w, o)) by (rewrite (Ct_geo _ _ _ _ R4); exact Hg3).
      pose proof (unwind_Ct _ _ _ _ Hg4 H) as R5.
      eapply Ct0_l; [exact R1|]. eapply Ct0_l; [exact R2|]. eapply Ct0_l; [exact R3|].
      eapply Ct0_r; eassumption.
    - (* ITableBody *) bind_inv H sz Hsz. bind_inv H ap Hap. destruct ap. discriminate.
    - (* ITableRow *) bind_inv H sz Hsz. bind_inv H ap Hap. destruct ap. discriminate.
    - (* ITableCell *) bind_inv H sz Hsz. bind_inv H ap Hap. destruct ap. discriminate.
    - (* IFragStart *)
      start H Hg w sz ap st1 ps R1 Hg1. bind_inv H st2 H2.
      pose proof (with_top'_Ct _ _ _ _ (record_frag_start_opE name) H2) as R2.
      assert (Hg2 : geo st2 = Some (w, o)) by (rewrite (Ct_geo _ _ _ _ R2); exact Hg1).
      pose proof (unwind_Ct _ _ _ _ Hg2 H) as R3.
      cbn [mts rn_info]. eapply Ct0_l; [exact R1|]. eapply Ct0_r; eassumption.
    - (* IListItem *)
      start H Hg w sz ap st1 ps R1 Hg1. eapply Ct0_l; [exact R1|].
      pose proof (wrap_case_Ct start_block (fun s => Ok (end_block s)) _ _ cs ps st1 st' w
                    start_block_opE end_block_opE IH Hk Hg1 H) as X.
      cbn [app] in X. rewrite !app_nil_r in X. exact X.
    - (* ISup *)
      start H Hg w sz ap st1 ps R1 Hg1. eapply Ct0_l; [exact R1|].
      cbn [mts rn_info].
      destruct (sup_digits cs) as [digitstr|] eqn:Esd.
      + bind_inv H st2 H2.
        pose proof (inline_text_Ct _ _ _ H2) as R2.
        assert (Hg2 : geo st2 = Some (w, o)) by (rewrite (Ct_geo _ _ _ _ R2); exact Hg1).
        pose proof (unwind_Ct _ _ _ _ Hg2 H) as R3.
        eapply Ct0_r; eassumption.
      + exact (wrap_case_Ct (start_superscript d) (end_superscript d) _ _ cs ps st1 st' w
                 (start_deco_opE d (d_sup_start d)) (end_deco_opE d (d_sup_end d)) IH Hk Hg1 H).
  Qed.
End Thread.

(* ================================================================== *)
(* 6. mts versus the streams of FragStream / RenderConserve             *)
(* ================================================================== *)

Section Pure.
  Variable d : deco.
  Variable mw : N.
  Variable o : ropts.

  (* the characters of the upper bound are RenderConserve.tree_stream: the same cells are
     skipped *)
  Lemma projr_id_flat {A} (f : A -> list sitem) (g : A -> text) (l : list A) :
    Forall (fun a => projr (f a) = g a) l -> projr (flat_map f l) = flat_map g l.
  Proof. apply projr_flat_map. Qed.

  Notation PT := (fun n => forall w, projr (mts (fun x => x) d mw o n w) = tree_stream d mw o n w).

  Lemma kids_projr cs : Forall PT cs ->
    forall w, projr (flat_map (fun c => mts (fun x => x) d mw o c w) cs) =
              flat_map (fun c => tree_stream d mw o c w) cs.
  Proof.
    intros HF w. apply projr_flat_map. eapply Forall_impl; [|exact HF]. intros n H. apply H.
  Qed.

  Lemma cells_projr : forall cells wsl,
    Forall (fun c => Forall PT (cell_content c)) cells ->
    projr (cells_ms (fun x => x) (mts (fun x => x) d mw o) cells wsl) =
    cells_ts (tree_stream d mw o) cells wsl.
  Proof.
    induction cells as [|[n content csty] cells IH]; intros wsl HF.
    - destruct wsl; reflexivity.
    - inversion HF as [|? ? HF1 HF2]; subst. cbn [cell_content] in HF1.
      destruct wsl as [|[cw_|] wsl]; cbn [cells_ms cells_ts]; [reflexivity| |apply IH, HF2].
      rewrite projr_app, (kids_projr _ HF1), (IH _ HF2). reflexivity.
  Qed.

  Theorem projr_mts_all : forall n w, projr (mts_all d mw o n w) = tree_stream d mw o n w.
  Proof.
    unfold mts_all. apply (rnode_ind' PT). intros i sty IH w.
    destruct i; cbn [direct_kids] in IH;
      try (cbn [mts tree_stream rn_info];
           repeat match goal with
                  | |- context [on_okM ?r _ _] => destruct r; cbn [on_okM on_okT]
                  end;
           try match goal with |- context [sup_digits ?cs] => destruct (sup_digits cs) end;
           rewrite ?projr_app, ?projr_mchars;
           first [ reflexivity
                 | exact (kids_projr _ IH _)
                 | rewrite (kids_projr _ IH); reflexivity ]).
    (* ITable *)
    apply Forall_flat_map in IH.
    assert (Hall : forall w0,
              projr (flat_map (fun r => match r with
                                  | RRow rcells _ =>
                                    flat_map (fun c => match c with
                                                       | RCell _ content _ =>
                                                         flat_map (fun c0 => mts (fun x => x) d mw o c0 w0) content
                                                       end) rcells
                                  end) rows) =
              flat_map (fun r => match r with
                                  | RRow rcells _ =>
                                    flat_map (fun c => match c with
                                                       | RCell _ content _ =>
                                                         flat_map (fun c0 => tree_stream d mw o c0 w0) content
                                                       end) rcells
                                  end) rows).
    { intros w0. apply projr_flat_map. eapply Forall_impl; [|exact IH].
      intros [cells rsty] Hr. unfold row_kids in Hr. apply Forall_flat_map in Hr.
      cbn [row_cells] in Hr. apply projr_flat_map. eapply Forall_impl; [|exact Hr].
      intros [n content csty] Hc. cbn [cell_content] in Hc. apply (kids_projr _ Hc). }
    destruct (tbl_col_sizes d mw rows ncols) as [col_sizes| | |] eqn:E1;
      [destruct (tbl_col_widths o w col_sizes) as [col_widths| | |] eqn:E2|..];
      try (cbn [mts tree_stream rn_info]; rewrite E1; cbn [on_okM on_okT]; try rewrite E2;
           cbn [on_okM on_okT]; exact (Hall w)).
    rewrite (ms_table _ d mw o rows ncols sty w _ _ E1 E2).
    rewrite (ts_table d mw o rows ncols sty w _ _ E1 E2).
    apply projr_flat_map. eapply Forall_impl; [|exact IH].
    intros [cells rsty] Hr. unfold row_kids in Hr. apply Forall_flat_map in Hr.
    cbn [row_cells] in Hr. unfold row_ms, row_ts.
    destruct (cell_widths (tbl_vert o w col_sizes) col_widths cells 0) as [cws| | |];
      cbn [on_okM on_okT]; try apply (cells_projr _ _ Hr);
      (apply projr_flat_map; eapply Forall_impl; [|exact Hr];
       intros [n content csty] Hc; apply (kids_projr _ Hc)).
  Qed.

  (* without tables nothing is skipped and mts is FragStream.mtree *)
  Lemma kids_mtree sc cs :
    Forall (fun n => no_table n = true -> forall w, mts sc d mw o n w = mtree sc d n) cs ->
    forallb no_table cs = true ->
    forall w, flat_map (fun c => mts sc d mw o c w) cs = flat_map (mtree sc d) cs.
  Proof.
    intros HF Hn w. induction HF as [|c cs Hc _ IH]; [reflexivity|].
    cbn [forallb] in Hn. apply andb_true_iff in Hn. destruct Hn as [H1 H2].
    cbn [flat_map]. rewrite (Hc H1 w), (IH H2). reflexivity.
  Qed.
  Lemma items_mtree sc cs :
    Forall (fun n => no_table n = true -> forall w, mts sc d mw o n w = mtree sc d n) cs ->
    forallb no_table cs = true ->
    forall w, flat_map (fun c => sc (mts sc d mw o c w)) cs = flat_map (fun c => sc (mtree sc d c)) cs.
  Proof.
    intros HF Hn w. induction HF as [|c cs Hc _ IH]; [reflexivity|].
    cbn [forallb] in Hn. apply andb_true_iff in Hn. destruct Hn as [H1 H2].
    cbn [flat_map]. rewrite (Hc H1 w), (IH H2). reflexivity.
  Qed.

  Theorem mts_no_table sc :
    forall n, no_table n = true -> forall w, mts sc d mw o n w = mtree sc d n.
  Proof.
    apply (rnode_ind' (fun n => no_table n = true -> forall w, mts sc d mw o n w = mtree sc d n)).
    intros i sty IH Hn w.
    destruct i; cbn [direct_kids] in IH; cbn [no_table rn_info] in Hn; try discriminate;
      cbn [mts mtree rn_info]; try reflexivity;
      repeat match goal with
             | |- context [on_okM ?r _ _] => destruct r; cbn [on_okM]
             end;
      try match goal with |- context [sup_digits ?cs] => destruct (sup_digits cs) end;
      try reflexivity;
      try (rewrite (kids_mtree sc _ IH Hn); reflexivity);
      try (rewrite (items_mtree sc _ IH Hn); reflexivity).
  Qed.
End Pure.
Print Assumptions projr_mts_all.
Print Assumptions mts_no_table.

(* ================================================================== *)
(* 7. MAIN THEOREMS                                                     *)
(* ================================================================== *)

Lemma Ct_unfold ord P st st' l h s rest :
  Ct ord P st st' l h -> stack st = s :: rest -> Iv s -> P (projr h) ->
  exists s', stack st' = s' :: rest /\ swidth_ s' = swidth_ s /\ sopts s' = sopts s /\ Iv s' /\
             exists t, btw l t h /\ Step ord s s' t.
Proof.
  intros (s0 & s' & rest0 & E1 & E2 & [S1 S2] & K) Es Hi HP. rewrite Es in E1. injection E1 as <- <-.
  destruct (K Hi) as [Hi' R]. exists s'. repeat (split; [assumption|]). exact (R HP).
Qed.

Lemma Step_true s s' t : Step true s s' t -> mstream_out s' = mstream_out s ++ t.
Proof.
  intros (m & Rm & Em). cbn [relm] in Rm. rewrite !mstream_split, Rm, <- app_assoc, Em, app_assoc.
  reflexivity.
Qed.
Lemma Step_perm ord s s' t : Step ord s s' t -> Permutation (mstream_out s') (mstream_out s ++ t).
Proof.
  intros (m & Rm & Em). apply relm_perm in Rm. rewrite !mstream_split, <- app_assoc, <- Em.
  rewrite app_assoc. apply Permutation_app; [exact Rm|apply Permutation_refl].
Qed.

(* what sub_into_lines returns of a nested / the final sub-renderer *)
Lemma Sub0_lines ord c l h ls :
  Sub0 ord c l h -> pfc c -> sub_into_lines c = Ok ls ->
  exists t', relm ord (mlines ls) t' /\ btw (strip l) t' h.
Proof.
  intros (t & Bt & m & Rm & Em) Hp H. subst t.
  unfold sub_into_lines in H. bind_inv H c1 Hc1. ok_inv H.
  destruct (flush_split _ _ Hc1 Hp) as (_ & _ & _ & m2 & E2 & Ew & Hr).
  exists (m ++ m2). split.
  - rewrite E2. apply relm_app; [exact Rm|apply relm_refl].
  - apply (btw_cut l (m ++ Wst c) h (m ++ m2) (Wst c1) Bt); [|exact Hr].
    rewrite Ew, app_assoc. reflexivity.
Qed.

Lemma Step_Sub0 ord w o s t l h : Step ord (sub_new w o) s t -> btw l t h -> Sub0 ord s l h.
Proof. intros (m & Rm & Em) Bt. exists t. split; [exact Bt|]. exists m. split; [exact Rm|exact Em]. Qed.

(* ---- (A) RAW MODE: every table row stacked, document order preserved ---- *)

(* render_node, any tree, raw mode: the top sub-renderer receives, in order, a stream t with
        mts_min  <=  t  <=  mts_all        (<= : msub, markers deleted)
   at its width and options: the statement of c14_render_node_no_table(_any_overflow) with
   FragStream.mstream_min / mstream_tree replaced by their table-aware versions.  The cells the
   layout skips (raw mode: all cells of a table rendered into a sub-renderer of width 0) are in
   neither bound - RenderConserve.tree_stream's notion: projr_mts_all. *)
Theorem c14_render_node_raw : forall d mw n st st' s rest,
  prefix_made d -> o_raw (sopts s) = true -> stack st = s :: rest -> Iv s ->
  render_node d mw n st = Ok st' ->
  exists s' t, stack st' = s' :: rest /\ swidth_ s' = swidth_ s /\ sopts s' = sopts s /\ Iv s' /\
               mstream_out s' = mstream_out s ++ t /\
               msub (mts_min d mw (sopts s) n (swidth_ s)) t /\
               msub t (mts_all d mw (sopts s) n (swidth_ s)).
Proof.
  intros d mw n st st' s rest Hd Hraw Es Hi H.
  pose proof (node_ct_all d mw (sopts s) true (fun _ => True) (fun _ _ _ => conj I I) Hd
                (fun _ => true)) as K.
  assert (Hk : forall (i : rinfo) (sty : cstyle), true = true ->
                 forallb (fun _ : rnode => true) (direct_kids i) = true).
  { intros i sty _. apply forallb_forall. reflexivity. }
  specialize (K Hk (fun _ _ _ _ => or_introl Hraw) n st st' (swidth_ s) eq_refl
                (stack_geo _ _ _ Es) H).
  destruct (Ct_unfold _ _ _ _ _ _ _ _ K Es Hi I) as (s' & A & B & C & D & t & [B1 B2] & E).
  exists s', t. repeat (split; [assumption|]). split; [apply Step_true, E|]. split; assumption.
Qed.
Print Assumptions c14_render_node_raw.

(* render_tree = render_node into a fresh sub-renderer, then (maybe) the footnote list, which
   adds neither markers nor visible document characters, and only lines *)
Lemma render_tree_body_St ord d mw o width tree s :
  render_tree d mw o width tree = Ok s ->
  exists st body,
    render_node d mw tree (mkrst [sub_new width o] []) = Ok st /\ stack st = [body] /\
    (pfc body -> pfc s /\ Step ord body s []).
Proof.
  intros H. destruct (render_tree_body_m false _ _ _ _ _ _ H) as (st & body & A & B & C).
  exists st, body. split; [exact A|]. split; [exact B|]. intros Hp.
  destruct (C (proj1 (pfc_Jx body) Hp)) as [Js Es]. split; [apply pfc_Jx, Js|].
  apply Step_exact; [rewrite app_nil_r; exact Es|].
  destruct (render_tree_footnotes d mw o width tree s H) as (st' & body' & A' & B' & _ & _ & _ & F).
  rewrite A in A'. injection A' as <-. rewrite B in B'. injection B' as <-.
  destruct (if o_footnotes o then link_targets d mw o tree width else []) as [|u L'].
  - subst s. exists []. rewrite app_nil_r. reflexivity.
  - destruct F as (b1 & Hb1 & ->). destruct (start_block_X _ _ Hb1) as (m1 & E1).
    destruct (fmt_links_spec (finalise_from 1 (link_targets d mw o tree width)) b1)
      as (new & G1 & _).
    exists (m1 ++ mlines new). rewrite G1, mlines_app, E1, app_assoc. reflexivity.
Qed.

Theorem c14_render_tree_raw : forall d mw o width tree s,
  prefix_made d -> o_raw o = true ->
  render_tree d mw o width tree = Ok s ->
  btw (mts_min d mw o tree width) (mstream_out s) (mts_all d mw o tree width) /\
  forall ls, sub_into_lines s = Ok ls ->
             btw (strip (mts_min d mw o tree width)) (mlines ls) (mts_all d mw o tree width).
Proof.
  intros d mw o width tree s Hd Hraw H.
  destruct (render_tree_body_St true _ _ _ _ _ _ H) as (st & body & A & B & C).
  pose proof (node_ct_all d mw o true (fun _ => True) (fun _ _ _ => conj I I) Hd (fun _ => true)) as K.
  assert (Hk : forall (i : rinfo) (sty : cstyle), true = true ->
                 forallb (fun _ : rnode => true) (direct_kids i) = true).
  { intros i sty _. apply forallb_forall. reflexivity. }
  specialize (K Hk (fun _ _ _ _ => or_introl Hraw) tree (mkrst [sub_new width o] []) st width eq_refl
                eq_refl A).
  destruct (Ct_unfold _ _ _ _ _ _ (sub_new width o) [] K eq_refl (Iv_sub_new width o) I)
    as (s' & E1 & _ & _ & Hi & t & Bt & St).
  rewrite B in E1. injection E1 as <-. destruct (C (proj1 Hi)) as [Hp S2].
  pose proof (Step_trans true _ _ _ _ _ St S2) as S3. rewrite app_nil_r in S3.
  pose proof (Step_Sub0 true _ _ _ _ _ _ S3 Bt) as S0.
  split.
  - pose proof (Step_true _ _ _ S3) as E. change (mstream_out s = t) in E. rewrite E. exact Bt.
  - intros ls Hls. destruct (Sub0_lines true _ _ _ _ S0 Hp Hls) as (t' & Rt & Bt').
    cbn [relm] in Rt. rewrite Rt. exact Bt'.
Qed.
Print Assumptions c14_render_tree_raw.

(* the public route in raw mode *)
Theorem c14_lines_from_read_raw : forall ist dr (c : config) doc width tree tls,
  prefix_made (c_deco c) -> c_raw c = true ->
  to_render_tree ist dr c doc = Ok tree ->
  lines_from_read ist dr c doc width = Ok tls ->
  btw (strip (mts_min (c_deco c) (c_min_wrap c) (render_options c) tree width))
      (flat_map mline tls)
      (mts_all (c_deco c) (c_min_wrap c) (render_options c) tree width).
Proof.
  intros ist dr c doc width tree tls Hd Hraw Ht H. unfold lines_from_read in H. rewrite Ht in H.
  cbn [bind] in H. bind_inv H s Hs. unfold render_with_context in Hs.
  destruct (width =? 0); [discriminate|]. bind_inv H ls Hls. ok_inv H.
  rewrite flat_map_concat_map, map_map, <- flat_map_concat_map.
  rewrite (flat_map_ext _ _ mline_into_tagged).
  exact (proj2 (c14_render_tree_raw (c_deco c) (c_min_wrap c) (render_options c) width tree s
                  Hd Hraw Hs) ls Hls).
Qed.
Print Assumptions c14_lines_from_read_raw.

(* ---- (B) ANY LAYOUT (side by side, stacked fallback, raw): the multiset version ---- *)

(* render_node, any tree, any options: the lines of the cells of a side-by-side row are
   interleaved, so the stream the top sub-renderer receives is a PERMUTATION of a stream t with
   mts_min <= t <= mts_all.  Hypothesis (RenderConserve's): the visible document characters of
   the cells that are rendered have a positive width - a row whose cells hold only zero-width
   characters is dropped (finding zero_width_row_dropped). *)
Theorem c14_render_node_tables : forall d mw n st st' s rest,
  prefix_made d ->
  Forall posw (tree_stream d mw (sopts s) n (swidth_ s)) ->
  stack st = s :: rest -> Iv s ->
  render_node d mw n st = Ok st' ->
  exists s' t, stack st' = s' :: rest /\ swidth_ s' = swidth_ s /\ sopts s' = sopts s /\ Iv s' /\
               Permutation (mstream_out s') (mstream_out s ++ t) /\
               msub (mts_min d mw (sopts s) n (swidth_ s)) t /\
               msub t (mts_all d mw (sopts s) n (swidth_ s)).
Proof.
  intros d mw n st st' s rest Hd Hpos Es Hi H.
  assert (Papp : forall a b : text, Forall posw (a ++ b) -> Forall posw a /\ Forall posw b).
  { intros a b Hab. apply Forall_app. exact Hab. }
  pose proof (node_ct_all d mw (sopts s) false (Forall posw) Papp Hd (fun _ => true)) as K.
  assert (Hk : forall (i : rinfo) (sty : cstyle), true = true ->
                 forallb (fun _ : rnode => true) (direct_kids i) = true).
  { intros i sty _. apply forallb_forall. reflexivity. }
  specialize (K Hk (fun _ _ _ _ => or_intror (conj eq_refl (fun t Ht => Ht))) n st st' (swidth_ s)
                eq_refl (stack_geo _ _ _ Es) H).
  rewrite <- projr_mts_all in Hpos.
  destruct (Ct_unfold _ _ _ _ _ _ _ _ K Es Hi Hpos) as (s' & A & B & C & D & t & [B1 B2] & E).
  exists s', t. repeat (split; [assumption|]). split; [apply (Step_perm false), E|]. split; assumption.
Qed.
Print Assumptions c14_render_node_tables.

Theorem c14_render_tree_tables : forall d mw o width tree s,
  prefix_made d -> Forall posw (tree_stream d mw o tree width) ->
  render_tree d mw o width tree = Ok s ->
  (exists t, Permutation (mstream_out s) t /\
             btw (mts_min d mw o tree width) t (mts_all d mw o tree width)) /\
  forall ls, sub_into_lines s = Ok ls ->
    exists t, Permutation (mlines ls) t /\
              btw (strip (mts_min d mw o tree width)) t (mts_all d mw o tree width).
Proof.
  intros d mw o width tree s Hd Hpos H.
  destruct (render_tree_body_St false _ _ _ _ _ _ H) as (st & body & A & B & C).
  assert (Papp : forall a b : text, Forall posw (a ++ b) -> Forall posw a /\ Forall posw b).
  { intros a b Hab. apply Forall_app. exact Hab. }
  pose proof (node_ct_all d mw o false (Forall posw) Papp Hd (fun _ => true)) as K.
  assert (Hk : forall (i : rinfo) (sty : cstyle), true = true ->
                 forallb (fun _ : rnode => true) (direct_kids i) = true).
  { intros i sty _. apply forallb_forall. reflexivity. }
  specialize (K Hk (fun _ _ _ _ => or_intror (conj eq_refl (fun t Ht => Ht))) tree
                (mkrst [sub_new width o] []) st width eq_refl eq_refl A).
  rewrite <- projr_mts_all in Hpos.
  destruct (Ct_unfold _ _ _ _ _ _ (sub_new width o) [] K eq_refl (Iv_sub_new width o) Hpos)
    as (s' & E1 & _ & _ & Hi & t & Bt & St).
  rewrite B in E1. injection E1 as <-. destruct (C (proj1 Hi)) as [Hp S2].
  pose proof (Step_trans false _ _ _ _ _ St S2) as S3. rewrite app_nil_r in S3.
  pose proof (Step_Sub0 false _ _ _ _ _ _ S3 Bt) as S0.
  split.
  - exists t. split; [|exact Bt]. exact (Step_perm false _ _ _ S3).
  - intros ls Hls. destruct (Sub0_lines false _ _ _ _ S0 Hp Hls) as (t' & Rt & Bt').
    exists t'. split; [exact Rt|exact Bt'].
Qed.
Print Assumptions c14_render_tree_tables.

Theorem c14_lines_from_read_tables : forall ist dr (c : config) doc width tree tls,
  prefix_made (c_deco c) ->
  to_render_tree ist dr c doc = Ok tree ->
  Forall posw (tree_stream (c_deco c) (c_min_wrap c) (render_options c) tree width) ->
  lines_from_read ist dr c doc width = Ok tls ->
  exists t, Permutation (flat_map mline tls) t /\
            btw (strip (mts_min (c_deco c) (c_min_wrap c) (render_options c) tree width)) t
                (mts_all (c_deco c) (c_min_wrap c) (render_options c) tree width).
Proof.
  intros ist dr c doc width tree tls Hd Ht Hpos H. unfold lines_from_read in H. rewrite Ht in H.
  cbn [bind] in H. bind_inv H s Hs. unfold render_with_context in Hs.
  destruct (width =? 0); [discriminate|]. bind_inv H ls Hls. ok_inv H.
  rewrite flat_map_concat_map, map_map, <- flat_map_concat_map.
  rewrite (flat_map_ext _ _ mline_into_tagged).
  exact (proj2 (c14_render_tree_tables (c_deco c) (c_min_wrap c) (render_options c) width tree s
                  Hd Hpos Hs) ls Hls).
Qed.
Print Assumptions c14_lines_from_read_tables.

(* ================================================================== *)
(* 8. The property in its own words                                     *)
(* ================================================================== *)

(* RAW MODE, public route.  O = the stream of the annotated output lines, T = mts_all (every
   marker and visible document character of the tree outside skipped cells, document order),
   M = strip mts_min (T without the markers behind which no visible document character follows
   inside the same nested sub-renderer - heading, quote, list item, <dd>, TABLE CELL - or in
   the whole document).  Exactly the four clauses of FragStream.c14_markers. *)
Corollary c14_markers_raw : forall ist dr (c : config) doc width tree tls,
  prefix_made (c_deco c) -> c_raw c = true ->
  to_render_tree ist dr c doc = Ok tree ->
  lines_from_read ist dr c doc width = Ok tls ->
  let O := flat_map mline tls in
  let T := mts_all (c_deco c) (c_min_wrap c) (render_options c) tree width in
  let M := strip (mts_min (c_deco c) (c_min_wrap c) (render_options c) tree width) in
  projr O = projr T /\
  (forall a name b, O = a ++ inl name :: b ->
     exists a' b', T = a' ++ inl name :: b' /\ projr a' = projr a /\ projr b' = projr b) /\
  (forall a name b, M = a ++ inl name :: b ->
     exists a' b', O = a' ++ inl name :: b' /\ projr a' = projr a /\ projr b' = projr b) /\
  (NoDup (projl T) -> NoDup (projl O)).
Proof.
  intros ist dr c doc width tree tls Hd Hraw Ht H O T M.
  exact (markers_of_btw M O T (c14_lines_from_read_raw _ _ _ _ _ _ _ Hd Hraw Ht H)).
Qed.
Print Assumptions c14_markers_raw.

(* multiset inclusion of the markers, without a decidable equality: b = a + extra *)
Lemma msub_projl_perm a b : msub a b -> exists extra, Permutation (projl b) (projl a ++ extra).
Proof.
  induction 1 as [|x a b _ (extra & IH)|m a b _ (extra & IH)].
  - exists []. constructor.
  - exists extra. destruct x as [m|c].
    + rewrite !projl_cons_inl. cbn [app]. constructor. exact IH.
    + rewrite !projl_cons_inr. exact IH.
  - exists (m :: extra). rewrite projl_cons_inl.
    eapply Permutation_trans; [|apply Permutation_middle]. constructor. exact IH.
Qed.

(* ANY LAYOUT, public route: the multiset version.
   (1) the visible document characters of the output are those of T (as a multiset);
   (2) the markers of the output are markers of T, with multiplicity: T = O + dropped;
   (3) every marker of M is in the output, with multiplicity: O = M + extra;
   (4) distinct ids in T give distinct markers in the output.
   A marker sitting in a skipped cell is not in T (hence not in the output, unless the same
   name occurs elsewhere); a marker put into the first cell of the first row for an id on
   <table>/<thead>/<tbody>/<tr> is in T iff that cell gets a width, and in M iff moreover a
   visible document character follows it inside that cell. *)
Corollary c14_markers_tables : forall ist dr (c : config) doc width tree tls,
  prefix_made (c_deco c) ->
  to_render_tree ist dr c doc = Ok tree ->
  Forall posw (tree_stream (c_deco c) (c_min_wrap c) (render_options c) tree width) ->
  lines_from_read ist dr c doc width = Ok tls ->
  let O := flat_map mline tls in
  let T := mts_all (c_deco c) (c_min_wrap c) (render_options c) tree width in
  let M := strip (mts_min (c_deco c) (c_min_wrap c) (render_options c) tree width) in
  Permutation (projr O) (projr T) /\
  (exists dropped, Permutation (projl T) (projl O ++ dropped)) /\
  (exists extra, Permutation (projl O) (projl M ++ extra)) /\
  (NoDup (projl T) -> NoDup (projl O)).
Proof.
  intros ist dr c doc width tree tls Hd Ht Hpos H O T M.
  destruct (c14_lines_from_read_tables _ _ _ _ _ _ _ Hd Ht Hpos H) as (t & Pt & B1 & B2).
  fold O in Pt. fold M in B1. fold T in B2.
  split; [|split; [|split]].
  - rewrite <- (msub_projr _ _ B2). apply perm_projr, Pt.
  - destruct (msub_projl_perm _ _ B2) as (extra & E). exists extra.
    eapply Permutation_trans; [exact E|]. apply Permutation_app; [|apply Permutation_refl].
    apply Permutation_sym, perm_projl, Pt.
  - destruct (msub_projl_perm _ _ B1) as (extra & E). exists extra.
    eapply Permutation_trans; [apply perm_projl, Pt|exact E].
  - intros Hnd. eapply Permutation_NoDup; [apply Permutation_sym, perm_projl, Pt|].
    exact (msub_projl_nodup _ _ B2 Hnd).
Qed.
Print Assumptions c14_markers_tables.

(* ================================================================== *)
(* 9. (C) Markers and the layout: the size estimates ignore them        *)
(* ================================================================== *)

(* "markers never change the text" as a statement about TWO renders (with and without the
   IFragStart nodes) is not proved here (it needs a lock-step simulation down to the wrapping
   block, where a marker splits the pending word into two pieces).  What is proved: everything
   the TABLE LAYOUT depends on is independent of the markers - the size estimates of every node
   (hence column sizes, stacked-or-not, column widths, which cells are skipped) and the
   emptiness test of a cell - so a marker can neither keep a row alive nor move a column. *)

Definition is_frag (n : rnode) : bool :=
  match rn_info n with IFragStart _ => true | _ => false end.

(* the children that are not markers, each mapped by f *)
Definition els (f : rnode -> rnode) : list rnode -> list rnode :=
  fix el (cs : list rnode) : list rnode :=
    match cs with
    | [] => []
    | c :: cs' => if is_frag c then el cs' else f c :: el cs'
    end.

(* the render tree without its IFragStart nodes *)
Fixpoint erase (n : rnode) {struct n} : rnode :=
  let ecell (c : rcell) : rcell := match c with RCell n k s => RCell n (els erase k) s end in
  let erow (r : rrow) : rrow := match r with RRow cells s => RRow (map ecell cells) s end in
  match n with
  | RN i sty =>
    RN (match i with
        | IText _ | IImg _ _ | IBreak | IFragStart _ => i
        | IContainer cs => IContainer (els erase cs)
        | ILink h cs => ILink h (els erase cs)
        | IEm cs => IEm (els erase cs)
        | IStrong cs => IStrong (els erase cs)
        | IStrikeout cs => IStrikeout (els erase cs)
        | ICode cs => ICode (els erase cs)
        | IBlock cs => IBlock (els erase cs)
        | IHeader l cs => IHeader l (els erase cs)
        | IDiv cs => IDiv (els erase cs)
        | IBlockQuote cs => IBlockQuote (els erase cs)
        | IUl cs => IUl (els erase cs)
        | IOl st cs => IOl st (els erase cs)
        | IDl cs => IDl (els erase cs)
        | IDt cs => IDt (els erase cs)
        | IDd cs => IDd (els erase cs)
        | IListItem cs => IListItem (els erase cs)
        | ISup cs => ISup (els erase cs)
        | ITable rows nc => ITable (map erow rows) nc
        | ITableBody rows => ITableBody (map erow rows)
        | ITableRow r => ITableRow (erow r)
        | ITableCell c => ITableCell (ecell c)
        end) sty
  end.
Definition ecell (c : rcell) : rcell := match c with RCell n k s => RCell n (els erase k) s end.
Definition erow (r : rrow) : rrow := match r with RRow cells s => RRow (map ecell cells) s end.

(* side condition: no marker is a DIRECT child of an ordered list (it would be counted as an
   item: the number of children fixes the width of the item prefix).  Dom.insert_child never
   produces that: the marker of <ol id=..> goes in front of the list (a fresh container), the
   marker of <li id=..> inside the item, and build_element keeps only list items under <ol>. *)
Fixpoint ol_clean (n : rnode) {struct n} : bool :=
  let cells_ok (cells : list rcell) : bool :=
      forallb (fun c => match c with RCell _ k _ => forallb ol_clean k end) cells in
  match rn_info n with
  | IText _ | IImg _ _ | IBreak | IFragStart _ => true
  | IOl _ cs => forallb (fun c => negb (is_frag c)) cs && forallb ol_clean cs
  | IContainer cs | ILink _ cs | IEm cs | IStrong cs | IStrikeout cs | ICode cs | IBlock cs
  | IHeader _ cs | IDiv cs | IBlockQuote cs | IUl cs | IDl cs | IDt cs | IDd cs
  | IListItem cs | ISup cs => forallb ol_clean cs
  | ITable rows _ | ITableBody rows =>
    forallb (fun r => match r with RRow cells _ => cells_ok cells end) rows
  | ITableRow (RRow cells _) => cells_ok cells
  | ITableCell (RCell _ k _) => forallb ol_clean k
  end.

Lemma ol_clean_kids i sty :
  ol_clean (RN i sty) = true -> forallb ol_clean (direct_kids i) = true.
Proof.
  destruct i; cbn [ol_clean rn_info direct_kids]; intros H; try exact H; try reflexivity.
  - apply andb_true_iff in H. apply H.
  - rewrite forallb_flat_map. apply forallb_forall. intros [cells s] Hr.
    rewrite forallb_forall in H. specialize (H _ Hr). unfold row_kids. cbn [row_cells].
    rewrite forallb_flat_map. apply forallb_forall. intros [n k cs] Hc.
    rewrite forallb_forall in H. exact (H _ Hc).
  - rewrite forallb_flat_map. apply forallb_forall. intros [cells s] Hr.
    rewrite forallb_forall in H. specialize (H _ Hr). unfold row_kids. cbn [row_cells].
    rewrite forallb_flat_map. apply forallb_forall. intros [n k cs] Hc.
    rewrite forallb_forall in H. exact (H _ Hc).
  - destruct r as [cells s]. unfold row_kids. cbn [row_cells].
    rewrite forallb_flat_map. apply forallb_forall. intros [n k cs] Hc.
    rewrite forallb_forall in H. exact (H _ Hc).
  - destruct c as [n k cs]. exact H.
Qed.

Lemma bind_ext' {A B} (e : res A) (k1 k2 : A -> res B) :
  (forall a, k1 a = k2 a) -> bind e k1 = bind e k2.
Proof. intros H. destruct e; cbn [bind]; auto. Qed.

Lemma fold_left_map_ext {A B C} (f : A -> B -> A) (g : A -> C -> A) (h : C -> B) l :
  (forall a x, In x l -> f a (h x) = g a x) ->
  forall a, fold_left f (map h l) a = fold_left g l a.
Proof.
  induction l as [|x l IH]; intros H a; cbn [map fold_left]; [reflexivity|].
  rewrite (H a x (or_introl eq_refl)). apply IH. intros a' x' Hx'. apply H. right. exact Hx'.
Qed.

Section EstErase.
  Variable d : deco.
  Variable mw : N.

  Definition pz (r : res est) : Prop := match r with Ok a => e_prefix a = 0 | _ => True end.
  Notation kstep := (fun (acc : res est) (c : rnode) =>
                       do a <- acc; do e <- est_node d mw c; Ok (est_add a e)).

  Lemma pz_step acc c : pz (kstep acc c).
  Proof.
    destruct acc as [a| | |]; cbn [bind pz]; auto.
    destruct (est_node d mw c) as [e| | |]; cbn [bind pz]; auto.
  Qed.

  Lemma kstep_frag acc c : is_frag c = true -> pz acc -> kstep acc c = acc.
  Proof.
    intros Hf Hz. destruct c as [i sty]. unfold is_frag in Hf. cbn [rn_info] in Hf.
    destruct i; try discriminate Hf. cbn [est_node rn_info].
    destruct acc as [a| | |]; cbn [bind]; try reflexivity.
    cbn [pz] in Hz. destruct a as [sz mn pf]. cbn [e_prefix] in Hz. subst pf.
    unfold est_add, est0. cbn [e_size e_min]. rewrite N.add_0_r, N.max_0_r. reflexivity.
  Qed.

  Notation EQ := (fun c => ol_clean c = true -> est_node d mw (erase c) = est_node d mw c).

  Lemma fold_kids_els cs :
    Forall EQ cs -> forallb ol_clean cs = true ->
    forall acc, pz acc -> fold_left kstep (els erase cs) acc = fold_left kstep cs acc.
  Proof.
    induction 1 as [|c cs Hc _ IH]; intros Hk acc Hz; [reflexivity|].
    cbn [forallb] in Hk. apply andb_true_iff in Hk. destruct Hk as [Hk1 Hk2].
    cbn [els fold_left]. destruct (is_frag c) eqn:Ef.
    - rewrite (kstep_frag acc c Ef Hz). apply IH; assumption.
    - cbn [fold_left]. rewrite (Hc Hk1). apply IH; [exact Hk2|apply pz_step].
  Qed.

  Lemma est_kids_els cs :
    Forall EQ cs -> forallb ol_clean cs = true ->
    est_kids d mw (els erase cs) = est_kids d mw cs.
  Proof. intros HF Hk. unfold est_kids. apply fold_kids_els; [exact HF|exact Hk|reflexivity]. Qed.

  Lemma els_length cs :
    forallb (fun c => negb (is_frag c)) cs = true -> length (els erase cs) = length cs.
  Proof.
    induction cs as [|c cs IH]; intros H; [reflexivity|]. cbn [forallb] in H.
    apply andb_true_iff in H. destruct H as [H1 H2]. cbn [els].
    destruct (is_frag c); [discriminate H1|]. cbn [length]. rewrite (IH H2). reflexivity.
  Qed.

  (* THE estimate theorem: erasing the markers changes no size estimate *)
  Theorem est_erase : forall n, ol_clean n = true -> est_node d mw (erase n) = est_node d mw n.
  Proof.
    apply (rnode_ind' EQ). intros i sty IH Hc.
    pose proof (ol_clean_kids _ _ Hc) as Hk.
    destruct i; cbn [direct_kids] in IH, Hk; cbn [erase];
      try reflexivity;
      try (cbn [est_node rn_info];
           pose proof (fold_kids_els _ IH Hk (Ok est0) eq_refl) as E; rewrite E; reflexivity).
    - (* IOl *)
      cbn [ol_clean rn_info] in Hc. apply andb_true_iff in Hc. destruct Hc as [Hc1 _].
      cbn [est_node rn_info]. rewrite (els_length _ Hc1).
      pose proof (fold_kids_els _ IH Hk (Ok est0) eq_refl) as E. rewrite E. reflexivity.
    - (* ITable *)
      cbn [est_node rn_info].
      assert (Hcell : forall r c, In r rows -> In c (row_cells r) ->
                fold_left kstep (cell_content (ecell c)) (Ok est0) =
                fold_left kstep (cell_content c) (Ok est0)).
      { intros r c Hr Hcin. destruct c as [n k cs]. cbn [ecell cell_content].
        apply Forall_flat_map in IH. rewrite Forall_forall in IH. specialize (IH r Hr).
        unfold row_kids in IH. apply Forall_flat_map in IH. rewrite Forall_forall in IH.
        specialize (IH _ Hcin). cbn [cell_content] in IH.
        rewrite forallb_flat_map in Hk. rewrite forallb_forall in Hk. specialize (Hk r Hr).
        unfold row_kids in Hk. rewrite forallb_flat_map in Hk. rewrite forallb_forall in Hk.
        specialize (Hk _ Hcin). cbn [cell_content] in Hk.
        apply fold_kids_els; [exact IH|exact Hk|reflexivity]. }
      destruct (ncols =? 0).
      + match goal with |- bind ?a _ = bind ?b _ => assert (E : a = b); [|rewrite E; reflexivity] end.
        apply fold_left_map_ext. intros a [cells s] Hr. cbn [erow row_cells].
        apply bind_ext'. intros _. apply fold_left_map_ext. intros a' c Hcin.
        apply bind_ext'. intros _. specialize (Hcell _ c Hr Hcin).
        destruct c as [n k cs]. cbn [ecell cell_content] in *. rewrite Hcell. reflexivity.
      + match goal with |- bind ?a _ = bind ?b _ => assert (E : a = b); [|rewrite E; reflexivity] end.
        apply fold_left_map_ext. intros a [cells s] Hr. cbn [erow row_cells].
        apply bind_ext'. intros sz0.
        match goal with |- bind ?a _ = bind ?b _ => assert (E : a = b); [|rewrite E; reflexivity] end.
        apply fold_left_map_ext. intros a' c Hcin.
        apply bind_ext'. intros [sz1 colno]. specialize (Hcell _ c Hr Hcin).
        destruct c as [n k cs]. cbn [ecell cell_content cell_colspan] in *. rewrite Hcell. reflexivity.
  Qed.

  (* ... hence the table layout: column estimates, stacked or side by side, column widths,
     and which cells are skipped *)
  Lemma est_kids_erase cs : forallb ol_clean cs = true ->
    est_kids d mw (els erase cs) = est_kids d mw cs.
  Proof.
    intros Hk. apply est_kids_els; [|exact Hk]. apply Forall_forall. intros c _. apply est_erase.
  Qed.

  Definition rows_clean (rows : list rrow) : bool :=
    forallb (fun r => forallb (fun c => forallb ol_clean (cell_content c)) (row_cells r)) rows.

  Theorem tbl_col_sizes_erase rows ncols : rows_clean rows = true ->
    tbl_col_sizes d mw (map erow rows) ncols = tbl_col_sizes d mw rows ncols.
  Proof.
    intros Hc. unfold tbl_col_sizes. apply fold_left_map_ext. intros a r Hr.
    apply bind_ext'. intros sz0. unfold tbl_row_step. destruct r as [cells s].
    cbn [erow row_cells].
    match goal with |- bind ?a _ = bind ?b _ => assert (E : a = b); [|rewrite E; reflexivity] end.
    apply fold_left_map_ext. intros a' c Hcin. apply bind_ext'. intros [sz1 colno].
    unfold rows_clean in Hc. rewrite forallb_forall in Hc. specialize (Hc _ Hr).
    cbn [row_cells] in Hc. rewrite forallb_forall in Hc. specialize (Hc _ Hcin).
    destruct c as [n k cs]. cbn [ecell cell_content cell_colspan] in *.
    rewrite (est_kids_erase _ Hc). reflexivity.
  Qed.

  Lemma cell_widths_erase vr col_widths : forall cells colno,
    cell_widths vr col_widths (map ecell cells) colno = cell_widths vr col_widths cells colno.
  Proof.
    induction cells as [|[n k cs] cells IH]; intros colno; cbn [map cell_widths ecell cell_colspan];
      [reflexivity|]. rewrite IH. reflexivity.
  Qed.
End EstErase.
Print Assumptions est_erase.
Print Assumptions tbl_col_sizes_erase.

(* the emptiness test of a cell does not see a marker *)
Lemma sub_empty_frag s name : sub_empty (record_frag_start s name) = sub_empty s.
Proof.
  unfold sub_empty, record_frag_start. sprj. destruct (slines s); [|reflexivity].
  unfold get_wrapping. destruct (wrapping s) as [w|]; reflexivity.
Qed.

(* ================================================================== *)
(* 10. (B2) Side-by-side rows, cell by cell: order inside a cell        *)
(* ================================================================== *)

(* ---- (a) WHERE a cell line (with its markers) goes in the row line ---- *)
Definition allc (c : chr) : bool := true.
Lemma filter_allc (s : text) : filter allc s = s.
Proof. induction s as [|c s IH]; cbn [filter allc]; [reflexivity|]. rewrite IH. reflexivity. Qed.

(* ALL items of a line: every character (made or not) and every marker, in order *)
Definition rline_items (r : rline) : list sitem :=
  match r with RText l => pline allc l | RLine b _ => map inr (border_string b) end.
Definition cell_items (i : nat) (w : N) (pad : option text) (ls : list rline) : list sitem :=
  match nth_opt ls i with
  | Some r => rline_items r
  | None => map inr (match pad with Some p => p | None => spacesl L_pad w end)
  end.
(* TableProof.row_text with the markers: cell, bar, cell, bar, ..., cell *)
Fixpoint row_items (draw : bool) (i : nat) (sets : list (N * list rline))
         (pads : list (option text)) : list sitem :=
  match sets with
  | [] => []
  | (w, ls) :: sets' =>
    cell_items i w (match pads with p :: _ => p | [] => None end) ls ++
    match sets' with
    | [] => []
    | _ => inr (TableProof.bar draw) :: row_items draw i sets' (tl pads)
    end
  end.

(* line i of the row band, item by item: for each cell its own line i UNCHANGED - the markers
   at their place among its characters: a marker at the start of a cell line comes directly
   after the bar that opens the cell - or, below the last line of a shorter cell, padding only
   (no marker); then the bar *)
Theorem row_line_items : forall t draw i sets pads acc,
  pline allc (row_line t draw i sets pads acc) = pline allc acc ++ row_items draw i sets pads.
Proof.
  intros t draw i. induction sets as [|[w ls] sets' IH]; intros pads acc.
  - cbn [row_line row_items]. rewrite app_nil_r. reflexivity.
  - cbn [row_line row_items]. rewrite IH.
    set (pad := match pads with p :: _ => p | [] => None end).
    assert (H1 : pline allc
              match nth_opt ls i with
              | Some (RText tl) => tl_consume acc tl
              | Some (RLine b _) => tl_push acc (Str (border_string b) t)
              | None => tl_push acc (Str match pad with Some p => p | None => spacesl L_pad w end t)
              end = pline allc acc ++ cell_items i w pad ls).
    { unfold cell_items. destruct (nth_opt ls i) as [[tl|b bt]|].
      - unfold tl_consume. rewrite pline_fold. reflexivity.
      - rewrite pline_push. cbn [pel rline_items]. rewrite filter_allc. reflexivity.
      - rewrite pline_push. cbn [pel]. rewrite filter_allc. reflexivity. }
    destruct sets' as [|s' sets''].
    + rewrite H1. cbn [row_items]. rewrite !app_nil_r. reflexivity.
    + fold (TableProof.bar draw). rewrite pline_push_char, H1. unfold pchars. cbn [filter allc map].
      rewrite <- !app_assoc. reflexivity.
Qed.

Print Assumptions row_line_items.
Print Assumptions row_line_m.

(* its characters are TableProof.row_text (the vocabulary of Proofs/TableRender.v) *)
Lemma projr_rline_items r : projr (rline_items r) = rline_string r.
Proof.
  destruct r as [l|b t]; cbn [rline_items rline_string].
  - rewrite (projr_pline allc). apply filter_allc.
  - apply projr_map_inr.
Qed.
Lemma projr_row_items draw i : forall sets pads,
  projr (row_items draw i sets pads) = TableProof.row_text draw i sets pads.
Proof.
  induction sets as [|[w ls] sets IH]; intros pads; cbn [row_items TableProof.row_text]; [reflexivity|].
  rewrite projr_app. f_equal.
  - unfold cell_items, TableProof.cell_text. destruct (nth_opt ls i) as [r|].
    + apply projr_rline_items.
    + apply projr_map_inr.
  - destruct sets as [|s0 sets0]; [reflexivity|]. rewrite projr_cons_inr, IH. reflexivity.
Qed.

(* ---- (b) every rendered cell satisfies the table-free theorem, in order ---- *)
Lemma Forall2_map_r {A B C} (R : A -> C -> Prop) (f : B -> C) : forall la lb,
  Forall2 R la (map f lb) -> Forall2 (fun a b => R a (f b)) la lb.
Proof.
  induction la as [|a la IH]; intros [|b lb] H; inversion H; subst; constructor; auto.
Qed.
Lemma Forall2_and_l {A B} (R : A -> B -> Prop) (Q : A -> Prop) : forall la lb,
  Forall2 R la lb -> Forall Q la -> Forall2 (fun a b => Q a /\ R a b) la lb.
Proof.
  induction 1 as [|a b la lb Hab _ IH]; intros HQ; [constructor|].
  inversion HQ; subst. constructor; [split; assumption|apply IH; assumption].
Qed.
Lemma Forall2_and_r {A B} (R : A -> B -> Prop) (Q : B -> Prop) : forall la lb,
  Forall2 R la lb -> Forall Q lb -> Forall2 (fun a b => R a b /\ Q b) la lb.
Proof.
  induction 1 as [|a b la lb Hab _ IH]; intros HQ; [constructor|].
  inversion HQ; subst. constructor; [split; assumption|apply IH; assumption].
Qed.
Lemma Forall2_comp {A B C} (R : A -> B -> Prop) (Q : B -> C -> Prop) (S : A -> C -> Prop) :
  (forall a b c, R a b -> Q b c -> S a c) ->
  forall la lb lc, Forall2 R la lb -> Forall2 Q lb lc -> Forall2 S la lc.
Proof.
  intros H la lb lc H1. revert lc. induction H1 as [|a b la lb Hab _ IH]; intros lc H2;
    inversion H2; subst; constructor; eauto.
Qed.
Lemma Forall2_impl_In_r {A B} (R S : A -> B -> Prop) : forall la lb,
  Forall2 R la lb -> (forall a b, In b lb -> R a b -> S a b) -> Forall2 S la lb.
Proof.
  induction 1 as [|a b la lb Hab _ IH]; intros H; [constructor|]. constructor.
  - apply H; [left; reflexivity|exact Hab].
  - apply IH. intros a' b' Hin. apply H. right. exact Hin.
Qed.

Lemma rendered_In : forall cells wsl cw,
  In cw (rendered cells wsl) -> exists c, In c cells /\ cell_content c = fst cw.
Proof.
  induction cells as [|[n content csty] cells IH]; intros [|[cw_|] wsl] cw H;
    cbn [rendered] in H; try contradiction.
  - destruct H as [<-|H].
    + exists (RCell n content csty). split; [left; reflexivity|reflexivity].
    + destruct (IH _ _ H) as (c & Hc & E). exists c. split; [right; exact Hc|exact E].
  - destruct (IH _ _ H) as (c & Hc & E). exists c. split; [right; exact Hc|exact E].
Qed.

(* cells_loop (RenderWidth's name for the inner loop of render_node on a table row): every
   cell that gets a width is rendered into its own sub-renderer, and for a cell without nested
   tables that sub-renderer satisfies c14_render_tree_no_table_any_overflow: the stream of its
   lines, IN ORDER, lies between the stripped minimal stream and the full stream of the cell's
   content (FragStream.mstream_min / mstream_tree) *)
Theorem c14_cells_in_order : forall d mw w o cells wsl s2 r,
  prefix_made d ->
  forallb (fun c => forallb no_table (cell_content c)) cells = true ->
  geo s2 = Some (w, o) ->
  cells_loop d mw cells wsl s2 [] = Ok r ->
  Forall2 (fun sub cw =>
             pfc sub /\
             forall ls, sub_into_lines sub = Ok ls ->
               btw (strip (flat_map (mstream_min d) (fst cw))) (mlines ls)
                   (flat_map (mstream_tree d) (fst cw)))
          (snd r) (rendered cells wsl).
Proof.
  intros d mw w o cells wsl s2 r Hd Hn Hg H.
  assert (Htab : forall rows nc sty, no_table (RN (ITable rows nc) sty) = true ->
            o_raw o = true \/ (true = false /\ forall t : text, True -> Forall posw t))
    by (intros; discriminate).
  pose proof (node_ct_all d mw o true (fun _ => True) (fun _ _ _ => conj I I) Hd
                no_table no_table_kids Htab) as K.
  destruct (cells_loop_Ct d mw o true (fun _ => True) (fun _ _ _ => conj I I) no_table
              w cells wsl s2 [] r) as (_ & HI & Hrel); try assumption.
  { apply Forall_forall. intros c _. apply Forall_forall. intros n _. apply K. }
  { constructor. }
  pose proof (Hrel I [] (Forall2_nil _)) as F. cbn [app] in F. unfold lhs_of in F.
  apply Forall2_map_r in F. pose proof (Forall2_and_l _ _ _ _ F HI) as F2.
  eapply Forall2_impl_In_r; [exact F2|]. intros sub cw Hin [[Hp _] Hs]. split; [exact Hp|].
  intros ls Hls. unfold SubI in Hs. cbn [fst snd] in Hs.
  destruct (Sub0_lines true _ _ _ _ Hs Hp Hls) as (t' & Rt & Bt). cbn [relm] in Rt. subst t'.
  destruct (rendered_In _ _ _ Hin) as (c & Hc & Ec).
  rewrite forallb_forall in Hn. specialize (Hn c Hc). rewrite Ec in Hn.
  unfold kids_ms in Bt.
  assert (E : forall sc, flat_map (fun c0 => mts sc d mw o c0 (snd cw)) (fst cw) =
                         flat_map (mtree sc d) (fst cw)).
  { intros sc. apply kids_mtree; [|exact Hn]. apply Forall_forall. intros n _. apply mts_no_table. }
  rewrite !E in Bt. exact Bt.
Qed.
Print Assumptions c14_cells_in_order.

(* ---- (c) the row band, column by column ---- *)
Lemma col_line_sets_F2 t : forall cols sets,
  col_line_sets t cols = Ok sets ->
  Forall2 (fun c p => exists ls, sub_into_lines c = Ok ls /\ mlines (snd p) = mlines ls) cols sets.
Proof.
  induction cols as [|c cols IH]; intros sets H; cbn [col_line_sets] in H.
  - ok_inv H. constructor.
  - bind_inv H ls Hls. bind_inv H pls Hpls. bind_inv H r Hr. ok_inv H.
    constructor; [|apply IH, Hr]. exists ls. split; [exact Hls|].
    cbn [snd]. exact (pad_cell_lines_m _ _ _ _ Hpls).
Qed.

Notation same_ms := (fun p q : N * list rline => mlines (snd p) = mlines (snd q)).

Lemma collapse_top_F2 : forall sets prev pos r,
  collapse_top sets prev pos = Ok r -> Forall2 same_ms sets (snd r).
Proof.
  induction sets as [|[w sub] sets IH]; intros prev pos r H; cbn [collapse_top] in H.
  - ok_inv H. constructor.
  - destruct sub as [|[tl|line lt] sub'].
    + bind_inv H r' Hr'. ok_inv H. cbn [snd]. constructor; [reflexivity|exact (IH _ _ _ Hr')].
    + bind_inv H r' Hr'. ok_inv H. cbn [snd]. constructor; [reflexivity|exact (IH _ _ _ Hr')].
    + destruct prev as [pb|]; [|discriminate]. bind_inv H r' Hr'. ok_inv H. cbn [snd].
      constructor; [reflexivity|exact (IH _ _ _ Hr')].
Qed.

Lemma collapse_bottom_F2 : forall sets next pos n' s' p',
  collapse_bottom sets next pos = (n', s', p') -> Forall2 same_ms sets s'.
Proof.
  induction sets as [|[w sub] sets IH]; intros next pos n' s' p' H; cbn [collapse_bottom] in H.
  - injection H as <- <- <-. constructor.
  - destruct (olast sub) as [[tl|line lt]|] eqn:El.
    + destruct (collapse_bottom sets next (pos + w + 1)) as [[n2 s2] p2] eqn:E.
      injection H as <- <- <-. constructor; [reflexivity|exact (IH _ _ _ _ _ E)].
    + destruct (collapse_bottom sets (merge_from_above next line pos) (pos + w + 1))
        as [[n2 s2] p2] eqn:E.
      injection H as <- <- <-. constructor; [|exact (IH _ _ _ _ _ E)]. cbn [snd].
      rewrite (olast_split _ _ El) at 1. rewrite mlines_app. cbn [mlines flat_map mrline].
      rewrite !app_nil_r. reflexivity.
    + destruct (collapse_bottom sets next (pos + w + 1)) as [[n2 s2] p2] eqn:E.
      injection H as <- <- <-. constructor; [reflexivity|exact (IH _ _ _ _ _ E)].
Qed.

(* append_columns_with_borders, seen column by column.  The stream appended to the parent is
   `rows_ms hgt 0 sets`: hgt row lines, line i = (line i of cell 1) ++ (line i of cell 2) ++ ...
   (row_line_m; item by item: row_line_items); and for every cell, its column read from top to
   bottom (col_ms) is exactly the stream of the cell's own lines (sub_into_lines), in order:
   inside one cell the order of markers and characters is preserved, whatever the other
   cells do.  With c14_cells_in_order: that stream satisfies the table-free theorem. *)
Theorem c14_columns_per_cell : forall cols collapse s s',
  Forall pfc cols -> pfc s -> append_columns_with_borders s cols collapse = Ok s' ->
  exists sets hgt,
    mstream_out s' = mstream_out s ++ rows_ms hgt O sets /\
    Forall2 (fun c p => exists ls, sub_into_lines c = Ok ls /\
                                   col_ms hgt O (snd p) = mlines ls) cols sets.
Proof.
  intros cols collapse s s' Hpc Hp H. unfold append_columns_with_borders in H.
  bind_inv H s1 H1. bind_inv H sets Hsets. bind_inv H chk Hchk. clear Hchk.
  destruct (flush_split _ _ H1 Hp) as (A1 & A3 & A2 & _).
  pose proof (col_line_sets_F2 _ _ _ Hsets) as F0.
  match type of H with
  | (let '(p, n) := ?e in _) = _ => destruct e as [prev1 next1]
  end.
  bind_inv H r Hr. destruct r as [[[prev3 next3] sets4] pads].
  assert (K : Forall2 same_ms sets sets4 /\ pads_nodoc pads).
  { destruct collapse.
    - bind_inv Hr ct Hct. destruct ct as [prev2 sets2].
      destruct (collapse_bottom sets2 next1 0) as [[next2 sets3] pads3] eqn:Ecb.
      ok_inv Hr. pose proof (collapse_bottom_F2 _ _ _ _ _ _ Ecb) as B1.
      destruct (collapse_bottom_stream _ _ _ _ _ _ Ecb) as [_ B2].
      pose proof (collapse_top_F2 _ _ _ _ Hct) as B3. cbn [snd] in B3.
      split; [|exact B2]. eapply Forall2_comp; [|exact B3|exact B1].
      intros a b c E1 E2. cbn beta in *. congruence.
    - ok_inv Hr. split; [|apply pads_nodoc_none].
      clear. induction sets4; constructor; [reflexivity|assumption]. }
  destruct K as [K1 K2].
  ok_inv H.
  match goal with
  | |- context [set_lines s1 ?l (pending_frags s1)] => set (lines1 := l)
  end.
  assert (El : mlines lines1 = mlines (slines s1)).
  { unfold lines1. destruct (olast (slines s1)) as [[tl|pb0 pt]|] eqn:Eo; try reflexivity.
    destruct prev3 as [pb|]; [|reflexivity].
    unfold replace_last. rewrite (olast_split _ _ Eo) at 2.
    rewrite !mlines_app. reflexivity. }
  set (s2 := set_lines s1 lines1 (pending_frags s1)).
  assert (Hp2 : pfc s2) by exact A1.
  assert (Hw2 : wrapping s2 = None) by exact A3.
  assert (E2 : mstream_out s2 = mstream_out s).
  { rewrite <- A2. unfold mstream_out, mlp, s2. sprj. rewrite El. reflexivity. }
  set (hgt := fold_left Nat.max (map (fun p => length (snd p)) sets4) O).
  destruct (row_lines_m (ann_stack s1) (o_borders (sopts s2)) sets4 pads K2 hgt O s2 Hp2 Hw2)
    as (C1 & C3 & C2 & _ & _).
  set (s3 := row_lines (ann_stack s1) (o_borders (sopts s2)) hgt O sets4 pads s2) in *.
  exists sets4, hgt. split.
  - change (sopts s2) with (sopts s1) in *. destruct (o_borders (sopts s1)).
    + destruct (add_line_none_m false s3 (RLine next3 (ann_stack s1)) (proj1 (pfc_Jx s3) C1) C3)
        as (_ & D2 & _).
      change (mstream_out (add_line s3 (RLine next3 (ann_stack s1))) =
              mstream_out s ++ rows_ms hgt 0 sets4).
      rewrite D2, C2, E2. cbn [mrline]. rewrite app_nil_r. reflexivity.
    + change (mstream_out s3 = mstream_out s ++ rows_ms hgt 0 sets4).
      rewrite C2, E2. reflexivity.
  - assert (Hcol : Forall (fun p => col_ms hgt O (snd p) = mlines (snd p)) sets4).
    { apply Forall_forall. intros p Hin. apply col_ms_skipn.
      destruct (fold_max_ge (map (fun p => length (snd p)) sets4) O) as [_ B].
      specialize (B (length (snd p))). cbn [Nat.add]. apply B.
      apply in_map_iff. exists p. auto. }
    pose proof (Forall2_comp _ _ (fun c p => exists ls, sub_into_lines c = Ok ls /\
                                             mlines (snd p) = mlines ls)
                  (fun a b c (X : exists ls, sub_into_lines a = Ok ls /\ mlines (snd b) = mlines ls)
                       (Y : same_ms b c) =>
                     match X with
                     | ex_intro _ ls (conj X1 X2) =>
                       ex_intro _ ls (conj X1 (eq_trans (eq_sym Y) X2))
                     end) _ _ _ F0 K1) as F1.
    pose proof (Forall2_and_r _ _ _ _ F1 Hcol) as F2.
    eapply Forall2_impl_In_r; [exact F2|]. intros c p _ [(ls & L1 & L2) L3].
    exists ls. split; [exact L1|]. congruence.
Qed.
Print Assumptions c14_columns_per_cell.

(* ---- the lower bound is below the upper bound (same cells, some markers deleted) ---- *)
Section LoHi.
  Variable d : deco.
  Variable mw : N.
  Variable o : ropts.
  Notation lo := (mts strip d mw o).
  Notation hi := (mts (fun x => x) d mw o).
  Notation SS := (fun n => forall w, msub (lo n w) (hi n w)).

  Lemma kids_msub cs : Forall SS cs ->
    forall w, msub (flat_map (fun c => lo c w) cs) (flat_map (fun c => hi c w) cs).
  Proof. intros HF w. apply msub_flat_map. eapply Forall_impl; [|exact HF]. intros n H. apply H. Qed.
  Lemma scope_msub cs : Forall SS cs ->
    forall w, msub (strip (flat_map (fun c => lo c w) cs)) (flat_map (fun c => hi c w) cs).
  Proof. intros HF w. eapply msub_trans; [apply strip_msub|apply kids_msub, HF]. Qed.
  Lemma items_msub cs : Forall SS cs ->
    forall w, msub (flat_map (fun c => strip (lo c w)) cs) (flat_map (fun c => hi c w) cs).
  Proof.
    intros HF w. apply msub_flat_map. eapply Forall_impl; [|exact HF]. intros n H.
    eapply msub_trans; [apply strip_msub|apply H].
  Qed.
  Lemma cells_msub : forall cells wsl,
    Forall (fun c => Forall SS (cell_content c)) cells ->
    msub (cells_ms strip lo cells wsl) (cells_ms (fun x => x) hi cells wsl).
  Proof.
    induction cells as [|[n content csty] cells IH]; intros wsl HF.
    - destruct wsl; constructor.
    - inversion HF as [|? ? HF1 HF2]; subst. cbn [cell_content] in HF1.
      destruct wsl as [|[cw_|] wsl]; cbn [cells_ms]; [constructor| |apply IH, HF2].
      apply msub_app; [apply (scope_msub _ HF1)|apply IH, HF2].
  Qed.

  Theorem mts_min_le_all : forall n w, msub (mts_min d mw o n w) (mts_all d mw o n w).
  Proof.
    unfold mts_min, mts_all. apply (rnode_ind' SS). intros i sty IH w.
    destruct i; cbn [direct_kids] in IH;
      try (cbn [mts rn_info];
           repeat match goal with
                  | |- context [on_okM ?r _ _] => destruct r; cbn [on_okM]
                  end;
           try match goal with |- context [sup_digits ?cs] => destruct (sup_digits cs) end;
           first [ apply msub_refl
                 | exact (kids_msub _ IH _)
                 | exact (scope_msub _ IH _)
                 | exact (items_msub _ IH _)
                 | apply msub_app; [apply msub_refl|
                     apply msub_app; [exact (kids_msub _ IH _)|apply msub_refl]] ]).
    (* ITable *)
    apply Forall_flat_map in IH.
    assert (Hall : forall w0,
      msub (flat_map (fun r => match r with
                               | RRow rcells _ =>
                                 flat_map (fun c => match c with
                                                    | RCell _ content _ =>
                                                      strip (flat_map (fun c0 => lo c0 w0) content)
                                                    end) rcells
                               end) rows)
           (flat_map (fun r => match r with
                               | RRow rcells _ =>
                                 flat_map (fun c => match c with
                                                    | RCell _ content _ =>
                                                      flat_map (fun c0 => hi c0 w0) content
                                                    end) rcells
                               end) rows)).
    { intros w0. apply msub_flat_map. eapply Forall_impl; [|exact IH].
      intros [cells rsty] Hr. unfold row_kids in Hr. apply Forall_flat_map in Hr.
      cbn [row_cells] in Hr. apply msub_flat_map. eapply Forall_impl; [|exact Hr].
      intros [n content csty] Hc. cbn [cell_content] in Hc. apply (scope_msub _ Hc). }
    destruct (tbl_col_sizes d mw rows ncols) as [col_sizes| | |] eqn:E1;
      [destruct (tbl_col_widths o w col_sizes) as [col_widths| | |] eqn:E2|..];
      try (cbn [mts rn_info]; rewrite E1; cbn [on_okM]; try rewrite E2; cbn [on_okM];
           exact (Hall w)).
    rewrite !(ms_table _ d mw o rows ncols sty w _ _ E1 E2).
    apply msub_flat_map. eapply Forall_impl; [|exact IH].
    intros [cells rsty] Hr. unfold row_kids in Hr. apply Forall_flat_map in Hr.
    cbn [row_cells] in Hr. unfold row_ms.
    destruct (cell_widths (tbl_vert o w col_sizes) col_widths cells 0) as [cws| | |];
      cbn [on_okM]; try apply (cells_msub _ _ Hr);
      (apply msub_flat_map; eapply Forall_impl; [|exact Hr];
       intros [n content csty] Hc; apply (scope_msub _ Hc)).
  Qed.
End LoHi.
Print Assumptions mts_min_le_all.

(* ================================================================== *)
(* 11. Non-vacuity examples and findings                                *)
(* ================================================================== *)

(* every marker name in the tree, skipped cells included *)
Fixpoint all_frags (n : rnode) {struct n} : list text :=
  let cells_f (cells : list rcell) : list text :=
      flat_map (fun c => match c with RCell _ k _ => flat_map all_frags k end) cells in
  match rn_info n with
  | IFragStart nm => [nm]
  | IText _ | IImg _ _ | IBreak => []
  | IContainer cs | ILink _ cs | IEm cs | IStrong cs | IStrikeout cs | ICode cs | IBlock cs
  | IHeader _ cs | IDiv cs | IBlockQuote cs | IUl cs | IOl _ cs | IDl cs | IDt cs | IDd cs
  | IListItem cs | ISup cs => flat_map all_frags cs
  | ITable rows _ | ITableBody rows =>
    flat_map (fun r => match r with RRow cells _ => cells_f cells end) rows
  | ITableRow (RRow cells _) => cells_f cells
  | ITableCell (RCell _ k _) => flat_map all_frags k
  end.

Definition ft_tbl := [116;97;98;108;101].
Definition ft_tbody := [116;98;111;100;121].
Definition ft_tr := [116;114].
Definition ft_td := [116;100].
Definition ft_an (nm : list N) : node :=
  NElem true (of_ascii [97]) [(of_ascii s_name, of_ascii nm)] [].
Definition ft_table (id : list N) (rows : list node) : node :=
  fx_el ft_tbl id [fx_el ft_tbody [] rows].

(* <p>x</p>
   <table id=t><tbody><tr id=r><td id=c>aa bb</td><td>cc <a name=k></a>dd</td></tr>
                      <tr><td><a name=e></a></td><td>f</td></tr></tbody></table>
   (ids = false: the same document without any id / name attribute, the <a> elements left out) *)
Definition ft_dom1 (ids : bool) : list node :=
  let i (l : list N) := if ids then l else [] in
  [ fx_el [112] [] [NText (Al 16 [120])];
    ft_table (i [116]) [
      fx_el ft_tr (i [114])
        [ fx_el ft_td (i [99]) [NText (Al 20 [97;97;32;98;98])];
          fx_el ft_td [] ([NText (Al 30 [99;99;32])] ++ (if ids then [ft_an [107]] else [])
                          ++ [NText (Al 34 [100;100])]) ];
      fx_el ft_tr [] [ fx_el ft_td [] (if ids then [ft_an [101]] else []);
                       fx_el ft_td [] [NText (Al 50 [102])] ] ] ].

Definition ft_show (c : config) (dom : list node) (w : N) :=
  do ls <- lines_from_read cx_ist cx_dr c dom w; Ok (map show_line ls).
Definition ft_strings (c : config) (dom : list node) (w : N) :=
  do ls <- lines_from_read cx_ist cx_dr c dom w; Ok (map (fun l => cps (tl_string l)) ls).
(* (all marker names of the tree, T = mts_all, M = strip mts_min) *)
Definition ft_streams (c : config) (dom : list node) (w : N) :=
  do t <- to_render_tree cx_ist cx_dr c dom;
  Ok (map cps (all_frags t),
      fx_sh (mts_all (c_deco c) (c_min_wrap c) (render_options c) t w),
      fx_sh (strip (mts_min (c_deco c) (c_min_wrap c) (render_options c) t w))).
Definition ft_raw : config := set_raw cfg_plain true.

(* ---- (A) raw mode ---- *)
Example ft_dom1_raw_output :
  ft_show ft_raw (ft_dom1 true) 7 =
  Ok [[inr [120]]; [];
      [inl [116]; inl [114]; inl [99]; inr [97; 97; 32; 98; 98]];     (* <t><r><c>aa bb *)
      [inr [99; 99; 32]; inl [107]; inr [100; 100]];                   (* cc <k>dd *)
      [inr [102]]] /\                                                  (* f       (e dropped) *)
  ft_streams ft_raw (ft_dom1 true) 7 =
  Ok ([[116]; [114]; [99]; [107]; [101]],
      [inr 120; inl [116]; inl [114]; inl [99]; inr 97; inr 97; inr 98; inr 98; inr 99; inr 99;
       inl [107]; inr 100; inr 100; inl [101]; inr 102],
      [inr 120; inl [116]; inl [114]; inl [99]; inr 97; inr 97; inr 98; inr 98; inr 99; inr 99;
       inl [107]; inr 100; inr 100; inr 102]).
Proof. split; vm_compute; reflexivity. Qed.

(* the theorem applies: document order, every marker of M exactly at its place; the marker e
   (an <a name=e></a> alone in its cell: no visible text follows it there) is in T, not in M,
   and is dropped when its cell's sub-renderer is closed *)
Example ft_dom1_raw_theorem : forall tree tls,
  to_render_tree cx_ist cx_dr ft_raw (ft_dom1 true) = Ok tree ->
  lines_from_read cx_ist cx_dr ft_raw (ft_dom1 true) 7 = Ok tls ->
  let O := flat_map mline tls in
  let T := mts_all plain_deco 3 (render_options ft_raw) tree 7 in
  let M := strip (mts_min plain_deco 3 (render_options ft_raw) tree 7) in
  projr O = projr T /\
  (forall a name b, M = a ++ inl name :: b ->
     exists a' b', O = a' ++ inl name :: b' /\ projr a' = projr a /\ projr b' = projr b) /\
  NoDup (projl O).
Proof.
  intros tree tls Ht H.
  destruct (c14_markers_raw cx_ist cx_dr ft_raw (ft_dom1 true) 7 tree tls prefix_made_plain
              eq_refl Ht H) as (A & _ & C & D).
  split; [exact A|]. split; [exact C|]. apply D.
  vm_compute in Ht. injection Ht as <-.
  assert (Hd : NoDup (map cps (projl (mts_all plain_deco 3 (render_options ft_raw)
     (RN (IContainer
       [RN (IBlock [RN (IText (Al 16 [120])) cstyle0]) cstyle0;
        RN (ITable
          [RRow [RCell 1 [RN (IFragStart (of_ascii [116])) cstyle0;
                          RN (IFragStart (of_ascii [114])) cstyle0;
                          RN (IFragStart (of_ascii [99])) cstyle0;
                          RN (IText (Al 20 [97;97;32;98;98])) cstyle0] cstyle0;
                 RCell 1 [RN (IText (Al 30 [99;99;32])) cstyle0;
                          RN (IContainer [RN (IFragStart (of_ascii [107])) cstyle0]) cstyle0;
                          RN (IText (Al 34 [100;100])) cstyle0] cstyle0] cstyle0;
           RRow [RCell 1 [RN (IContainer [RN (IFragStart (of_ascii [101])) cstyle0]) cstyle0] cstyle0;
                 RCell 1 [RN (IText (Al 50 [102])) cstyle0] cstyle0] cstyle0] 2) cstyle0]) cstyle0) 7)))).
  { vm_compute. repeat (constructor; [cbn [In]; intuition discriminate|]). constructor. }
  exact (NoDup_map_inv _ _ Hd).
Qed.

(* ---- (B) side by side ---- *)
Example ft_dom1_output :
  ft_show cfg_plain (ft_dom1 true) 7 =
  Ok [[inr [120]]; []; [inr [9472; 9472; 9472; 9516; 9472; 9472; 9472]];
      [inl [116]; inl [114]; inl [99]; inr [97; 97; 32; 9474; 99; 99; 32]];   (* <t><r><c>aa |cc  *)
      [inr [98; 98; 32; 9474]; inl [107]; inr [100; 100; 32]];                (* bb |<k>dd       *)
      [inr [9472; 9472; 9472; 9532; 9472; 9472; 9472]];
      [inr [32; 32; 32; 9474; 102; 32; 32]];                                  (*    |f   (e dropped) *)
      [inr [9472; 9472; 9472; 9524; 9472; 9472; 9472]]] /\
  ft_streams cfg_plain (ft_dom1 true) 7 =
  Ok ([[116]; [114]; [99]; [107]; [101]],
      [inr 120; inl [116]; inl [114]; inl [99]; inr 97; inr 97; inr 98; inr 98; inr 99; inr 99;
       inl [107]; inr 100; inr 100; inl [101]; inr 102],
      [inr 120; inl [116]; inl [114]; inl [99]; inr 97; inr 97; inr 98; inr 98; inr 99; inr 99;
       inl [107]; inr 100; inr 100; inr 102]) /\
  (* the output stream is NOT in document order (aa cc bb <k> dd): only the multiset holds *)
  (do ls <- lines_from_read cx_ist cx_dr cfg_plain (ft_dom1 true) 7;
   Ok (fx_sh (flat_map mline ls))) =
  Ok [inr 120; inl [116]; inl [114]; inl [99]; inr 97; inr 97; inr 99; inr 99; inr 98; inr 98;
      inl [107]; inr 100; inr 100; inr 102].
Proof. repeat split; vm_compute; reflexivity. Qed.

Example ft_dom1_tables_theorem : forall tree tls,
  to_render_tree cx_ist cx_dr cfg_plain (ft_dom1 true) = Ok tree ->
  lines_from_read cx_ist cx_dr cfg_plain (ft_dom1 true) 7 = Ok tls ->
  let O := flat_map mline tls in
  let T := mts_all plain_deco 3 (render_options cfg_plain) tree 7 in
  let M := strip (mts_min plain_deco 3 (render_options cfg_plain) tree 7) in
  Permutation (projr O) (projr T) /\
  (exists dropped, Permutation (projl T) (projl O ++ dropped)) /\
  (exists extra, Permutation (projl O) (projl M ++ extra)).
Proof.
  intros tree tls Ht H.
  assert (Hpos : Forall posw (tree_stream plain_deco 3 (render_options cfg_plain) tree 7)).
  { vm_compute in Ht. injection Ht as <-. apply posw_forallb. vm_compute. reflexivity. }
  destruct (c14_markers_tables cx_ist cx_dr cfg_plain (ft_dom1 true) 7 tree tls prefix_made_plain
              Ht Hpos H) as (A & B & C & _).
  split; [exact A|]. split; [exact B|exact C].
Qed.

(* ---- the recorded finding row_marker_in_empty_first_cell, characterised ----
   Dom.insert_child puts the marker of an id on <table>/<thead>/<tbody>/<tr> into the FIRST
   CELL of the first row (ins_first_row / ins_first_cell; into nothing at all when that row
   has no cell).  By the theorems the marker is in the output iff it is in M, can only be in
   the output if it is in T, and
     - it is in T iff that cell gets a width (a cell holding nothing but the marker has
       estimate 0: if no other row gives its column a size, the column has width 0 and the
       cell is skipped: ft_dom2);
     - it is in M iff moreover a visible document character follows it inside that cell
       (ft_dom3: the cell has a width - its column is sized by the second row - but holds only
       the marker, which is still waiting when the cell's sub-renderer is closed: dropped;
       ft_dom4: the cell has text: the marker is at the start of the first line of the row). *)
(* <table id=t><tbody><tr><td></td><td>x</td></tr></tbody></table> *)
Definition ft_dom2 : list node :=
  [ ft_table [116] [ fx_el ft_tr [] [ fx_el ft_td [] []; fx_el ft_td [] [NText (Al 20 [120])] ] ] ].
(* ... with a second row <tr><td>y</td><td>z</td></tr> *)
Definition ft_dom3 : list node :=
  [ ft_table [116] [ fx_el ft_tr [] [ fx_el ft_td [] []; fx_el ft_td [] [NText (Al 20 [120])] ];
                     fx_el ft_tr [] [ fx_el ft_td [] [NText (Al 30 [121])];
                                      fx_el ft_td [] [NText (Al 40 [122])] ] ] ].
(* <table id=t><tbody><tr><td>w</td><td>x</td></tr></tbody></table> *)
Definition ft_dom4 : list node :=
  [ ft_table [116] [ fx_el ft_tr [] [ fx_el ft_td [] [NText (Al 60 [119])];
                                      fx_el ft_td [] [NText (Al 20 [120])] ] ] ].

Example row_marker_in_empty_first_cell :
  (* skipped cell: the marker is in the tree, not in T, not in the output *)
  ft_streams cfg_plain ft_dom2 20 = Ok ([[116]], [inr 120], [inr 120]) /\
  ft_show cfg_plain ft_dom2 20 = Ok [[inr [9472]]; [inr [120]]; [inr [9472]]] /\
  (* rendered but empty cell: in T, not in M, not in the output *)
  ft_streams cfg_plain ft_dom3 20 =
    Ok ([[116]], [inl [116]; inr 120; inr 121; inr 122], [inr 120; inr 121; inr 122]) /\
  ft_show cfg_plain ft_dom3 20 =
    Ok [[inr [9472; 9516; 9472]]; [inr [32; 9474; 120]]; [inr [9472; 9532; 9472]];
        [inr [121; 9474; 122]]; [inr [9472; 9524; 9472]]] /\
  (* the same in raw mode *)
  ft_show ft_raw ft_dom3 20 = Ok [[inr [120]]; [inr [121]]; [inr [122]]] /\
  (* first cell with text: in M, in the output, at the start of the row's first line *)
  ft_streams cfg_plain ft_dom4 20 =
    Ok ([[116]], [inl [116]; inr 119; inr 120], [inl [116]; inr 119; inr 120]) /\
  ft_show cfg_plain ft_dom4 20 =
    Ok [[inr [9472; 9516; 9472]]; [inl [116]; inr [119; 9474; 120]]; [inr [9472; 9524; 9472]]].
Proof. repeat split; vm_compute; reflexivity. Qed.

(* ---- (C) markers and the text ---- *)
(* the same document with and without its ids / anchors: the same strings, side by side and
   stacked (computed, not a theorem: see section 9) *)
Example ft_dom1_same_text :
  ft_strings cfg_plain (ft_dom1 true) 7 = ft_strings cfg_plain (ft_dom1 false) 7 /\
  ft_strings ft_raw (ft_dom1 true) 7 = ft_strings ft_raw (ft_dom1 false) 7 /\
  ft_strings cfg_plain (ft_dom1 true) 7 =
    Ok [[120]; []; [9472; 9472; 9472; 9516; 9472; 9472; 9472];
        [97; 97; 32; 9474; 99; 99; 32]; [98; 98; 32; 9474; 100; 100; 32];
        [9472; 9472; 9472; 9532; 9472; 9472; 9472]; [32; 32; 32; 9474; 102; 32; 32];
        [9472; 9472; 9472; 9524; 9472; 9472; 9472]].
Proof. repeat split; vm_compute; reflexivity. Qed.

(* a row all of whose cells hold only a marker is dropped - exactly like the row of empty cells
   it is without the markers: the marker cannot keep the row alive
   <table><tbody><tr><td>a</td></tr><tr><td><a name=e></a></td></tr></tbody></table> *)
Definition ft_dom5 (ids : bool) : list node :=
  [ ft_table [] [ fx_el ft_tr [] [ fx_el ft_td [] [NText (Al 20 [97])] ];
                  fx_el ft_tr [] [ fx_el ft_td [] (if ids then [ft_an [101]] else []) ] ] ].
Example marker_only_row_dropped :
  ft_strings cfg_plain (ft_dom5 true) 20 = Ok [[9472]; [97]; [9472]] /\
  ft_strings cfg_plain (ft_dom5 false) 20 = Ok [[9472]; [97]; [9472]] /\
  ft_show cfg_plain (ft_dom5 true) 20 = Ok [[inr [9472]]; [inr [97]]; [inr [9472]]].
Proof. repeat split; vm_compute; reflexivity. Qed.

(* the estimate theorem applies to the tree of ft_dom1 *)
Example ft_dom1_est : forall tree,
  to_render_tree cx_ist cx_dr cfg_plain (ft_dom1 true) = Ok tree ->
  ol_clean tree = true /\ all_frags (erase tree) = [] /\ all_frags tree <> [] /\
  est_node plain_deco 3 (erase tree) = est_node plain_deco 3 tree.
Proof.
  intros tree Ht. vm_compute in Ht. injection Ht as <-.
  split; [vm_compute; reflexivity|]. split; [vm_compute; reflexivity|].
  split; [vm_compute; discriminate|]. apply est_erase. vm_compute. reflexivity.
Qed.

(* ---- (B2) one row, cell by cell ---- *)
Definition ft_cells : list rcell :=
  [ RCell 1 [fx_fr [99]; cx_t 20 [97;97;32;98;98]] cstyle0;
    RCell 1 [cx_t 30 [99;99;32]; fx_fr [107]; cx_t 34 [100;100]] cstyle0 ].
Definition ft_st0 : rstate := mkrst [sub_new 7 fx_o] [].
Definition ft_sub_lines (s : subr) : res (list (list (list N + list N))) :=
  do ls <- sub_into_lines s; Ok (map fx_rline ls).

Example ft_cells_run :
  (do r <- cells_loop plain_deco 3 ft_cells [Some 3; Some 3] ft_st0 [];
   Ok (map ft_sub_lines (snd r))) =
  Ok [Ok [[inl [99]; inr [97; 97]]; [inr [98; 98]]];             (* <c>aa / bb *)
      Ok [[inr [99; 99]]; [inl [107]; inr [100; 100]]]] /\       (* cc / <k>dd *)
  (do r <- cells_loop plain_deco 3 ft_cells [Some 3; Some 3] ft_st0 [];
   do s' <- append_columns_with_borders (sub_new 7 fx_o) (snd r) true;
   ft_sub_lines s') =
  Ok [[inl [99]; inr [97; 97; 32; 9474; 99; 99; 32]];            (* <c>aa |cc  *)
      [inr [98; 98; 32; 9474]; inl [107]; inr [100; 100; 32]];   (* bb |<k>dd : k right after the bar *)
      []].
Proof. split; vm_compute; reflexivity. Qed.

Example ft_cells_theorem : forall r,
  cells_loop plain_deco 3 ft_cells [Some 3; Some 3] ft_st0 [] = Ok r ->
  Forall2 (fun sub cw =>
             pfc sub /\
             forall ls, sub_into_lines sub = Ok ls ->
               btw (strip (flat_map (mstream_min plain_deco) (fst cw))) (mlines ls)
                   (flat_map (mstream_tree plain_deco) (fst cw)))
          (snd r) (rendered ft_cells [Some 3; Some 3]) /\
  forall s', append_columns_with_borders (sub_new 7 fx_o) (snd r) true = Ok s' ->
    exists sets hgt,
      mstream_out s' = mstream_out (sub_new 7 fx_o) ++ rows_ms hgt O sets /\
      Forall2 (fun c p => exists ls, sub_into_lines c = Ok ls /\ col_ms hgt O (snd p) = mlines ls)
              (snd r) sets.
Proof.
  intros r H.
  pose proof (c14_cells_in_order plain_deco 3 7 fx_o ft_cells [Some 3; Some 3] ft_st0 r
                prefix_made_plain eq_refl eq_refl H) as F.
  split; [exact F|]. intros s' Hs'.
  apply (c14_columns_per_cell (snd r) true (sub_new 7 fx_o) s'); [|reflexivity|exact Hs'].
  clear Hs'. revert F. generalize (rendered ft_cells [Some 3; Some 3]).
  induction (snd r) as [|c cs IH]; intros l F; [constructor|].
  inversion F as [|? ? ? ? [Hp _] F']; subst. constructor; [exact Hp|exact (IH _ F')].
Qed.

Print Assumptions ft_dom1_raw_theorem.
Print Assumptions ft_dom1_tables_theorem.
Print Assumptions row_marker_in_empty_first_cell.
Print Assumptions ft_dom1_est.
Print Assumptions ft_cells_theorem.

(* for table-free trees the two bounds are FragStream's (so the theorems above contain
   c14_render_tree_no_table_any_overflow) *)
Lemma mts_min_no_table d mw o n w : no_table n = true -> mts_min d mw o n w = mstream_min d n.
Proof. intros H. apply mts_no_table, H. Qed.
Lemma mts_all_no_table d mw o n w : no_table n = true -> mts_all d mw o n w = mstream_tree d n.
Proof. intros H. apply mts_no_table, H. Qed.

(* WHERE Dom.insert_child puts the marker of an id on <table> / <tbody> / <tr>: in front of the
   content of the first cell of the first row - and NOWHERE when that row has no cell (the
   marker does not even reach the render tree) *)
Lemma insert_child_table_first_cell frag n k s cells rs rows nc st :
  insert_child frag (RN (ITable (RRow (RCell n k s :: cells) rs :: rows) nc) st) true =
  RN (ITable (RRow (RCell n (frag :: k) s :: cells) rs :: rows) nc) st.
Proof. reflexivity. Qed.
Lemma insert_child_table_no_cell frag rs rows nc st :
  insert_child frag (RN (ITable (RRow [] rs :: rows) nc) st) true =
  RN (ITable (RRow [] rs :: rows) nc) st.
Proof. reflexivity. Qed.
Lemma insert_child_row_first_cell frag n k s cells rs st :
  insert_child frag (RN (ITableRow (RRow (RCell n k s :: cells) rs)) st) true =
  RN (ITableRow (RRow (RCell n (frag :: k) s :: cells) rs)) st.
Proof. reflexivity. Qed.

(* <table id=t><tbody><tr></tr><tr><td>x</td></tr></tbody></table>: the first row has no cell:
   the marker is not in the render tree *)
Definition ft_dom6 : list node :=
  [ ft_table [116] [ fx_el ft_tr [] []; fx_el ft_tr [] [ fx_el ft_td [] [NText (Al 20 [120])] ] ] ].
Example table_marker_without_first_cell :
  ft_streams cfg_plain ft_dom6 20 = Ok ([], [inr 120], [inr 120]) /\
  ft_show cfg_plain ft_dom6 20 = Ok [[inr [9472]]; [inr [120]]; [inr [9472]]].
Proof. split; vm_compute; reflexivity. Qed.

(* ================================================================== *)
(* SUMMARY                                                              *)
(* ==================================================================

   VOCABULARY (on top of Proofs/FragStream.v: sitem, mstream_out, mlines, msub, btw, strip)
     mts sc d mw o n w  the stream of markers (inl name) and visible document characters (inr c)
                        that render_node hands to a sub-renderer of width w and options o when
                        it renders n, in document order.  It is RenderConserve.tree_stream (the
                        same width computations, the same skipped cells) with the markers, i.e.
                        FragStream.mtree with tables; sc is applied to the stream of every
                        nested sub-renderer: heading, quote, list item, <dd> and TABLE CELL.
     mts_all := mts id     every marker and character outside skipped cells  (upper bound T)
     mts_min := mts strip  the same without the markers behind which no visible document
                           character follows inside the same nested sub-renderer (lower bound)
       projr_mts_all : projr (mts_all d mw o n w) = tree_stream d mw o n w   (same skipped cells)
       mts_no_table  : no_table n -> mts sc d mw o n w = mtree sc d n        (FragStream's streams)
       mts_min_le_all: msub (mts_min ...) (mts_all ...)
     Wst s              what is not yet on a line of s: pending_frags, then the wrapping block
     Step ord s s' t    one step: of (Wst s ++ t) a front part m has gone onto lines, the rest is
                        Wst s'; the lines are the old lines ++ m exactly (ord = true) or up to a
                        permutation (ord = false: side-by-side rows interleave the cells' lines).
                        The WAITING part is always exact: this is what lets `strip` (markers
                        dropped when a nested sub-renderer is closed) survive the permutation.

   WHAT THE MODEL DOES WITH MARKERS IN TABLES (lemmas of sections 2, 4, 10)
     - every cell is a nested sub-renderer; when the row is assembled its lines are taken with
       sub_into_lines: the markers still waiting in the cell (recorded after its last text
       line: no visible text follows them in the cell) are DROPPED, in all three layouts
       (append_subrender_St, col_line_sets_St);
     - stacked rows (raw mode, or the fallback when the table is too wide): the cells' lines are
       appended one cell below the other: order kept (vert_cols_St);
     - side-by-side rows: row line i = cell_1 line i, bar, cell_2 line i, bar, ... Every cell
       line is copied UNCHANGED, markers included (append_columns_with_borders -> row_line ->
       tl_consume keeps Frag elements): row_line_items gives the row line item by item (a
       marker at the start of a cell line comes directly after the bar that opens the cell;
       below the last line of a shorter cell there is padding only), row_line_m the same for
       markers + visible document characters.  Markers waiting in the PARENT go to the front
       of the first row line.  Reading one column top to bottom gives the cell's own lines in
       order (c14_columns_per_cell);
     - a row all of whose cells are sub_empty is not rendered: its markers are lost; under the
       width hypothesis its cells have no visible document character, so those markers are not
       in the lower bound (all_empty_btw); sub_empty does not see markers (sub_empty_frag);
     - a cell that gets no width is skipped with its markers: it is in neither bound.

   MAIN THEOREMS (partial correctness, Ok outcome; every decorator with prefix_made, every
   width, every overflow setting, every white-space mode; all "Closed under the global context")

   (A) RAW MODE, any tree
     c14_render_node_raw :
       prefix_made d -> o_raw (sopts s) = true -> stack st = s :: rest -> Iv s ->
       render_node d mw n st = Ok st' ->
       exists s' t, stack st' = s' :: rest /\ swidth_ s' = swidth_ s /\ sopts s' = sopts s /\
                    Iv s' /\ mstream_out s' = mstream_out s ++ t /\
                    msub (mts_min d mw (sopts s) n (swidth_ s)) t /\
                    msub t (mts_all d mw (sopts s) n (swidth_ s))
     c14_render_tree_raw :
       prefix_made d -> o_raw o = true -> render_tree d mw o width tree = Ok s ->
       btw (mts_min d mw o tree width) (mstream_out s) (mts_all d mw o tree width) /\
       forall ls, sub_into_lines s = Ok ls ->
                  btw (strip (mts_min d mw o tree width)) (mlines ls) (mts_all d mw o tree width)
     c14_lines_from_read_raw, c14_markers_raw : the public route, and the four clauses of
       FragStream.c14_markers (characters conserved; every output marker is a marker of T with
       the same characters before and behind it; every marker of M = strip mts_min is in the
       output with the same characters before and behind it; no duplicates unless T has them).
     (Iv = RenderConserve's invariant pfc /\ wl; holds for sub_new / new_sub_renderer.)

   (B1) ANY LAYOUT: the multiset version
     c14_render_node_tables, c14_render_tree_tables :
       prefix_made d -> Forall posw (tree_stream d mw o tree width) ->
       render_tree d mw o width tree = Ok s ->
       (exists t, Permutation (mstream_out s) t /\ btw (mts_min ...) t (mts_all ...)) /\
       forall ls, sub_into_lines s = Ok ls ->
         exists t, Permutation (mlines ls) t /\ btw (strip (mts_min ...)) t (mts_all ...)
     c14_lines_from_read_tables, c14_markers_tables (O, T, M as above):
       Permutation (projr O) (projr T);  T = O + dropped and O = M + extra as multisets of
       marker names;  NoDup (projl T) -> NoDup (projl O).
     HYPOTHESIS Forall posw (tree_stream ...): RenderConserve's (c03_render_tree_perm): the
       visible document characters of the rendered cells have a positive width; needed because
       a row whose cells hold only zero-width characters is dropped (recorded finding
       zero_width_row_dropped) - with its characters AND its markers.  Decidable
       (posw_forallb).  Not needed in raw mode.
     THE RECORDED FINDING row_marker_in_empty_first_cell, exactly (examples
       row_marker_in_empty_first_cell, table_marker_without_first_cell; insert_child_table_first_cell etc.):
       the marker of an id on <table>/<thead>/<tbody>/<tr> is put in front of the content of
       the first cell of the first row.  It is in T iff that cell gets a width; it is in M -
       hence guaranteed in the output - iff moreover a visible document character follows it
       inside that cell.  So it is lost (i) when the cell is skipped (a cell holding nothing
       but the marker has estimate 0: unless another row sizes its column, width 0): ft_dom2;
       (ii) when the cell is rendered but has no visible text: the marker is still waiting when
       the cell's sub-renderer is closed: ft_dom3 (also in raw mode); (iii) VARIANT (not in
       the recorded text): when the first row has NO cell (<tr></tr>) ins_first_cell [] = []:
       the marker does not even reach the render tree: ft_dom6.  In all three cases the table
       may well have visible content (in other cells).

   (B2) ORDER INSIDE ONE CELL
     c14_cells_in_order : every cell that gets a width is rendered (cells_loop) into its own
       sub-renderer, and - for a cell without nested tables - the stream of that sub-renderer's
       lines, IN ORDER, lies between strip (mstream_min) and mstream_tree of the cell's
       content (the table-free theorem, cell by cell).
     row_line_items / row_line_m / c14_columns_per_cell : where these lines go (see above).

   (C) MARKERS AND THE TEXT: PARTIAL
     est_erase : ol_clean n = true -> est_node d mw (erase n) = est_node d mw n
       (erase = the tree without its IFragStart nodes; ol_clean = no marker is a direct child of
       an ordered list, which Dom never produces), tbl_col_sizes_erase, cell_widths_erase:
       column estimates, stacked-or-not, column widths and the set of skipped cells do not
       depend on the markers; sub_empty_frag: nor does the emptiness test of a cell.  So a marker
       can neither move a column nor keep a row alive (marker_only_row_dropped: a cell holding
       only <a name=x></a> counts as empty, consistently).  No example of a marker changing the
       layout was found (ft_dom1_same_text: equal strings with and without ids, side by side
       and stacked).
     NOT PROVED: `map rline_string` of the render of n = that of erase n.  It needs a lock-step
       simulation of the two runs down to Wrap.v (a marker in the pending word splits it into
       two Str pieces, which hw_elems wraps piece by piece; by inspection the split points agree,
       and flush_line / word_is_empty / wb_is_empty / rline_has_content ignore Frag elements).

   NOT PROVED
     - (C) as a two-run theorem (above);
     - the DOM -> render tree step for tables (DomRel.v covers table-free documents): the
       theorems start from the render tree; the insert_child_... lemmas state where the table markers go;
     - (B1) without the positive-width hypothesis. *)
