(* Proofs/GreedyProof.v -- C04: in Normal mode the WrappedBlock model is exactly greedy
   word filling (Spec/Greedy.v), for every splitting of the text into tagged calls. *)
From Coq Require Import Lia ZifyN ZifyBool ZifyNat.
From H2T Require Import Base Tagged Wrap Spec.Greedy.
Arguments N.add : simpl never.
Arguments N.sub : simpl never.
Arguments N.mul : simpl never.
Arguments N.div : simpl never.
Arguments N.modulo : simpl never.
Arguments N.leb : simpl never.
Arguments N.ltb : simpl never.
Arguments N.eqb : simpl never.
Arguments N.min : simpl never.
Arguments N.max : simpl never.

Definition run_calls (W : N) (calls : list (text * tag)) : res wblock :=
  fold_left (fun rb c => do b <- rb; wb_add_text b (fst c) WsNormal (snd c) (snd c)) calls (Ok (wb_new W false false)).
Definition impl_lines (W : N) (calls : list (text * tag)) : res (list text) :=
  do b <- run_calls W calls; do ls <- wb_into_lines b; Ok (map tl_string ls).
Definition all_words_pos (t : text) : Prop := forall w, In w (words_of t) -> 1 <= swidth w.

(* ------------------------------------------------------------------ *)
(* Part 1: texts, widths, tagged lines *)

Lemma swidth_app : forall a b, swidth (a ++ b) = swidth a + swidth b.
Proof.
  induction a as [|c a IH]; intros b; cbn [app swidth].
  - lia.
  - rewrite IH. lia.
Qed.

Lemma fm_app : forall (v1 v2 : list elem),
  flat_map elem_text (v1 ++ v2) = flat_map elem_text v1 ++ flat_map elem_text v2.
Proof.
  induction v1 as [|e v1 IH]; intros v2; cbn [app flat_map].
  - reflexivity.
  - rewrite IH, app_assoc. reflexivity.
Qed.

Definition elem_wf (e : elem) : Prop :=
  match e with Str s _ => s <> [] | Frag _ => False end.

Lemma vpm_cons2 : forall e e' v s t,
  v_push_merge (e :: e' :: v) s t = e :: v_push_merge (e' :: v) s t.
Proof. reflexivity. Qed.

Lemma vpm_text : forall v s t,
  flat_map elem_text (v_push_merge v s t) = flat_map elem_text v ++ s.
Proof.
  induction v as [|e v IH]; intros s t.
  - cbn. rewrite app_nil_r. reflexivity.
  - destruct v as [|e' v].
    + destruct e as [s0 t0|n]; cbn [v_push_merge].
      * destruct (tag_eqb t0 t); cbn [flat_map elem_text]; rewrite ?app_nil_r; reflexivity.
      * cbn [flat_map elem_text app]. rewrite app_nil_r. reflexivity.
    + rewrite vpm_cons2. cbn [flat_map]. rewrite IH. cbn [flat_map].
      rewrite !app_assoc. reflexivity.
Qed.

Lemma vpm_wf : forall v s t, Forall elem_wf v -> s <> [] ->
  Forall elem_wf (v_push_merge v s t).
Proof.
  induction v as [|e v IH]; intros s t Hv Hs.
  - cbn. constructor; [exact Hs|constructor].
  - destruct v as [|e' v].
    + destruct e as [s0 t0|n]; cbn [v_push_merge].
      * destruct (tag_eqb t0 t).
        -- constructor; [|constructor]. cbn. inversion Hv as [|? ? H1 H2]; subst. cbn in H1.
           intro Hc. apply app_eq_nil in Hc. tauto.
        -- constructor; [inversion Hv; assumption|]. constructor; [exact Hs|constructor].
      * inversion Hv as [|? ? H1 H2]; subst. cbn in H1. contradiction.
    + rewrite vpm_cons2. inversion Hv as [|? ? H1 H2]; subst.
      constructor; [exact H1|]. apply IH; assumption.
Qed.

Lemma width_raw_string : forall l, tl_width_raw l = swidth (tl_string l).
Proof.
  intros [v n]. unfold tl_width_raw, tl_string. cbn [tv].
  induction v as [|e v IH]; cbn [map sumN flat_map swidth].
  - reflexivity.
  - rewrite swidth_app, IH. reflexivity.
Qed.

(* abstraction of a line *)
Definition LineIs (l : tline) (cur : text) : Prop :=
  tl_string l = cur /\ tlen_ l = swidth cur /\ Forall elem_wf (tv l).

Lemma LineIs_new : LineIs tl_new [].
Proof. repeat split. constructor. Qed.

Lemma LineIs_push_str : forall l cur s t, LineIs l cur -> LineIs (tl_push l (Str s t)) (cur ++ s).
Proof.
  intros l cur s t (H1 & H2 & H3). cbn [tl_push]. unfold tl_push_str.
  destruct s as [|c s].
  - rewrite app_nil_r. repeat split; assumption.
  - unfold LineIs, tl_string. cbn [tv tlen_]. rewrite vpm_text.
    unfold tl_string in H1. rewrite H1, H2, swidth_app.
    repeat split. apply vpm_wf; [assumption|discriminate].
Qed.

Lemma LineIs_width : forall l cur, LineIs l cur -> tl_width l = Ok (swidth cur).
Proof.
  intros l cur (H1 & H2 & H3). unfold tl_width. rewrite width_raw_string, H1, H2.
  rewrite N.eqb_refl. reflexivity.
Qed.

Lemma LineIs_is_empty : forall l cur, LineIs l cur ->
  tl_is_empty l = match cur with [] => true | _ => false end.
Proof.
  intros [v n] cur (H1 & H2 & H3). unfold tl_is_empty, tl_string in *. cbn [tv] in *.
  destruct v as [|e v].
  - cbn in H1. subst cur. reflexivity.
  - inversion H3 as [|? ? Hw Hr]; subst. destruct e as [s t|nm]; [|contradiction].
    cbn in Hw. cbn [existsb elem_has_content orb negb flat_map elem_text].
    destruct s as [|c s]; [congruence|]. reflexivity.
Qed.

Lemma LineIs_nil : forall l, LineIs l [] -> l = tl_new.
Proof.
  intros [v n] (H1 & H2 & H3). unfold tl_string in H1. cbn [tv tlen_] in *.
  destruct v as [|e v].
  - cbn in H2. subst. reflexivity.
  - inversion H3 as [|? ? Hw Hr]; subst. destruct e as [s t|nm]; [|contradiction].
    cbn in Hw. cbn in H1. destruct s; [congruence|discriminate].
Qed.

Lemma LineIs_fold_push : forall v l cur, Forall elem_wf v -> LineIs l cur ->
  LineIs (fold_left tl_push v l) (cur ++ flat_map elem_text v).
Proof.
  induction v as [|e v IH]; intros l cur Hv Hl; cbn [fold_left flat_map].
  - rewrite app_nil_r. exact Hl.
  - inversion Hv as [|? ? Hw Hr]; subst. destruct e as [s t|nm]; [|contradiction].
    rewrite app_assoc. apply IH; [assumption|]. apply LineIs_push_str. exact Hl.
Qed.

(* ------------------------------------------------------------------ *)
(* Part 2: the reference hard_chars *)

Lemma ok3_eq : forall {A B C} (a a' : A) (b b' : B) (c c' : C),
  a = a' -> b = b' -> c = c' -> @Ok (A * B * C) (a, b, c) = Ok (a', b', c').
Proof. intros; subst; reflexivity. Qed.

Lemma hc_fits : forall W w ls cur curw, curw + swidth w <= W ->
  hard_chars W ls cur curw w = Ok (ls, cur ++ w, curw + swidth w).
Proof.
  induction w as [|c w IH]; intros ls cur curw H; cbn [hard_chars swidth] in *.
  - apply ok3_eq; [reflexivity|rewrite app_nil_r; reflexivity|lia].
  - destruct (N.leb_spec (curw + cw0 c) W) as [Hle|Hgt]; [|lia].
    rewrite IH by lia. apply ok3_eq; [reflexivity| |lia].
    rewrite <- app_assoc. reflexivity.
Qed.

Lemma hc_prefix : forall W a w ls cur curw, curw + swidth a <= W ->
  hard_chars W ls cur curw (a ++ w) = hard_chars W ls (cur ++ a) (curw + swidth a) w.
Proof.
  induction a as [|c a IH]; intros w ls cur curw H; cbn [app hard_chars swidth] in *.
  - rewrite app_nil_r. replace (curw + 0) with curw by lia. reflexivity.
  - destruct (N.leb_spec (curw + cw0 c) W) as [Hle|Hgt]; [|lia].
    rewrite IH by lia. rewrite <- app_assoc. cbn [app].
    replace (curw + cw0 c + swidth a) with (curw + (cw0 c + swidth a)) by lia. reflexivity.
Qed.

Lemma hc_break : forall W c w ls cur curw, cur <> [] -> W < curw + cw0 c ->
  hard_chars W ls cur curw (c :: w) = hard_chars W (ls ++ [cur]) [] 0 (c :: w).
Proof.
  intros W c w ls cur curw Hne Hgt. cbn [hard_chars].
  destruct (N.leb_spec (curw + cw0 c) W) as [H1|H1]; [lia|].
  destruct (N.ltb_spec W (cw0 c)) as [H2|H2].
  - destruct (N.leb_spec (0 + cw0 c) W) as [H3|H3]; [lia|]. reflexivity.
  - destruct (N.leb_spec (0 + cw0 c) W) as [H3|H3]; [|lia].
    destruct cur as [|x cur]; [congruence|]. cbn [app].
    replace (0 + cw0 c) with (cw0 c) by lia. reflexivity.
Qed.

Lemma hc_app : forall W a w ls cur curw,
  hard_chars W ls cur curw (a ++ w) =
  (do st <- hard_chars W ls cur curw a;
   let '(ls', cur', curw') := st in hard_chars W ls' cur' curw' w).
Proof.
  induction a as [|c a IH]; intros w ls cur curw; cbn [app hard_chars].
  - reflexivity.
  - destruct (curw + cw0 c <=? W); [apply IH|].
    destruct (W <? cw0 c); [reflexivity|].
    destruct cur; [reflexivity|apply IH].
Qed.

Lemma hc_inv : forall W w ls cur curw ls' cur' curw',
  curw = swidth cur -> curw <= W ->
  hard_chars W ls cur curw w = Ok (ls', cur', curw') ->
  curw' = swidth cur' /\ curw' <= W /\ (1 <= curw + swidth w -> 1 <= curw').
Proof.
  induction w as [|c w IH]; intros ls cur curw ls' cur' curw' E Hle H; cbn [hard_chars swidth] in *.
  - inversion H; subst. repeat split; [assumption|lia].
  - destruct (N.leb_spec (curw + cw0 c) W) as [H1|H1].
    + apply IH in H; [|rewrite swidth_app; cbn [swidth]; lia|assumption].
      destruct H as (A & B & C). repeat split; [assumption|assumption|]. intros; apply C; lia.
    + destruct (N.ltb_spec W (cw0 c)) as [H2|H2]; [discriminate|].
      destruct cur as [|x cur]; [discriminate|].
      apply IH in H; [|cbn [swidth]; lia|assumption].
      destruct H as (A & B & C). repeat split; [assumption|assumption|]. intros; apply C; lia.
Qed.

Lemma hc_res : forall W w ls cur curw,
  match hard_chars W ls cur curw w with Panic _ | OutOfFuel => False | _ => True end.
Proof.
  induction w as [|c w IH]; intros ls cur curw; cbn [hard_chars].
  - exact I.
  - destruct (curw + cw0 c <=? W); [apply IH|].
    destruct (W <? cw0 c); [exact I|].
    destruct cur; [exact I|apply IH].
Qed.

(* ------------------------------------------------------------------ *)
(* Part 3: hw_scan takes the maximal fitting prefix *)

Definition cwS (c : chr) : Prop := cw c <> None.

Fixpoint fitpre (ll : N) (s : text) : text :=
  match s with
  | [] => []
  | c :: s' => if cw0 c <=? ll then c :: fitpre (ll - cw0 c) s' else []
  end.

Lemma fitpre_spec : forall s ll, ll < swidth s ->
  exists c r, s = fitpre ll s ++ c :: r /\ swidth (fitpre ll s) <= ll /\
              ll < swidth (fitpre ll s) + cw0 c.
Proof.
  induction s as [|c s IH]; intros ll H; cbn [swidth fitpre] in *.
  - lia.
  - destruct (N.leb_spec (cw0 c) ll) as [H1|H1].
    + destruct (IH (ll - cw0 c)) as (c' & r & E & A & B); [lia|].
      exists c', r. cbn [app swidth]. split; [f_equal; exact E|]. lia.
    + exists c, s. cbn [app swidth]. split; [reflexivity|lia].
Qed.

Lemma skipn_len_app : forall {A} (a b : list A), skipn (length a) (a ++ b) = b.
Proof. induction a as [|x a IH]; intros b; cbn; [reflexivity|apply IH]. Qed.

Lemma cw0_some : forall c n, cw c = Some n -> cw0 c = n.
Proof. intros c n H. unfold cw0. rewrite H. reflexivity. Qed.

Lemma scan_nf : forall s tr ll wpos l0, Forall cwS s -> ll < swidth s ->
  hw_scan false l0 false s tr ll wpos =
  Ok (rev tr ++ fitpre ll s, ll - swidth (fitpre ll s), wpos + swidth (fitpre ll s)).
Proof.
  induction s as [|c s IH]; intros tr ll wpos l0 HF H; cbn [swidth] in H.
  - lia.
  - inversion HF as [|? ? Hc HF']; subst. cbn [hw_scan fitpre].
    destruct (cw c) as [n|] eqn:E; [|elim Hc; exact E].
    rewrite (cw0_some c n E) in *.
    destruct (N.leb_spec n ll) as [H1|H1].
    + rewrite IH; [|assumption|lia]. cbn [rev swidth]. rewrite (cw0_some c n E).
      apply ok3_eq; [rewrite <- app_assoc; reflexivity|lia|lia].
    + cbn [swidth]. apply ok3_eq; [rewrite app_nil_r; reflexivity|lia|lia].
Qed.

Lemma scan_first : forall c s ll wpos l0, Forall cwS (c :: s) -> ll < swidth (c :: s) ->
  hw_scan false l0 true (c :: s) [] ll wpos =
  if cw0 c <=? ll
  then Ok (fitpre ll (c :: s), ll - swidth (fitpre ll (c :: s)), wpos + swidth (fitpre ll (c :: s)))
  else (do lw <- tl_width l0; if lw =? 0 then TooNarrow else Ok ([], ll, wpos)).
Proof.
  intros c s ll wpos l0 HF H. inversion HF as [|? ? Hc HF']; subst.
  cbn [swidth] in H. cbn [hw_scan fitpre].
  destruct (cw c) as [n|] eqn:E; [|elim Hc; exact E].
  rewrite (cw0_some c n E) in *.
  destruct (N.leb_spec n ll) as [H1|H1]; [|reflexivity].
  rewrite scan_nf; [|assumption|lia]. cbn [rev swidth app]. rewrite (cw0_some c n E).
  apply ok3_eq; [reflexivity|lia|lia].
Qed.

(* ------------------------------------------------------------------ *)
(* Part 4: hw_piece / hw_elems = hard_chars *)

Definition same_rest (b b' : wblock) : Prop :=
  wword b' = wword b /\ wordlen b' = wordlen b /\ wslen b' = wslen b /\ spacetag b' = spacetag b.

Lemma same_rest_refl : forall b, same_rest b b.
Proof. intros b; repeat split. Qed.

Lemma same_rest_trans : forall a b c, same_rest a b -> same_rest b c -> same_rest a c.
Proof.
  intros a b c (A1 & A2 & A3 & A4) (B1 & B2 & B3 & B4).
  repeat split; congruence.
Qed.

Record HW (W : N) (b : wblock) (ls : list text) (cur : text) : Prop := mkHW {
  hw_w : wwidth b = W;
  hw_pad : pad_blocks b = false;
  hw_ovf : allow_overflow b = false;
  hw_text : map tl_string (wtext b) = ls;
  hw_line : LineIs (wline b) cur;
  hw_le : swidth cur <= W
}.

Lemma usub_ok : forall site a b, b <= a -> usub site a b = Ok (a - b).
Proof. intros site a b H. unfold usub. destruct (N.leb_spec b a); [reflexivity|lia]. Qed.

Lemma force_flush_nopad : forall b, pad_blocks b = false ->
  force_flush_line b = Ok (set_text_line b (wtext b ++ [wline b]) tl_new).
Proof. intros b H. unfold force_flush_line. rewrite H. reflexivity. Qed.

Lemma HW_push : forall W b ls cur s t, HW W b ls cur -> swidth cur + swidth s <= W ->
  HW W (set_line b (tl_push (wline b) (Str s t))) ls (cur ++ s)
  /\ same_rest b (set_line b (tl_push (wline b) (Str s t))).
Proof.
  intros W b ls cur s t [A1 A2 A3 A4 A5 A6] H. split.
  - constructor; cbn [set_line wwidth pad_blocks allow_overflow wtext wline]; try assumption.
    + apply LineIs_push_str. assumption.
    + rewrite swidth_app. assumption.
  - repeat split.
Qed.

Lemma HW_push_flush : forall W b ls cur s t, HW W b ls cur -> swidth cur + swidth s <= W ->
  HW W (set_text_line (set_line b (tl_push (wline b) (Str s t)))
                      (wtext b ++ [tl_push (wline b) (Str s t)]) tl_new)
       (ls ++ [cur ++ s]) []
  /\ same_rest b (set_text_line (set_line b (tl_push (wline b) (Str s t)))
                      (wtext b ++ [tl_push (wline b) (Str s t)]) tl_new).
Proof.
  intros W b ls cur s t [A1 A2 A3 A4 A5 A6] H. split.
  - constructor; cbn [set_text_line set_line wwidth pad_blocks allow_overflow wtext wline];
      try assumption.
    + rewrite map_app, A4. cbn [map]. f_equal. f_equal.
      apply (LineIs_push_str _ _ s t) in A5. destruct A5 as (E & _). exact E.
    + apply LineIs_new.
    + cbn [swidth]. lia.
  - repeat split.
Qed.

Lemma hw_piece_spec : forall W fuel b t w rest consumed wpos ls cur,
  HW W b ls cur -> Forall cwS rest -> w = wpos + swidth rest ->
  (consumed = false -> wpos = 0) ->
  (2 * length rest + (if (swidth cur =? 0)%N then 1 else 2) <= fuel)%nat ->
  match hard_chars W ls cur (swidth cur) rest with
  | Ok (ls', cur', curw') =>
      exists b', hw_piece fuel b t w rest consumed (W - swidth cur) wpos = Ok (b', W - curw')
                 /\ HW W b' ls' cur' /\ same_rest b b'
  | TooNarrow => hw_piece fuel b t w rest consumed (W - swidth cur) wpos = TooNarrow
  | _ => False
  end.
Proof.
  intros W. induction fuel as [|f IH]; intros b t w rest consumed wpos ls cur HB HF Hw Hc Hfuel.
  - destruct (swidth cur =? 0); lia.
  - cbn [hw_piece]. rewrite (usub_ok 8 w wpos) by lia. cbn [bind].
    pose proof (hw_le _ _ _ _ HB) as Hle.
    destruct (N.ltb_spec (W - swidth cur) (w - wpos)) as [Hlt|Hge].
    + (* rest does not fit *)
      destruct rest as [|c s]; [cbn [swidth] in Hw; lia|].
      rewrite (hw_ovf _ _ _ _ HB).
      rewrite scan_first; [|assumption|lia].
      destruct (N.leb_spec (cw0 c) (W - swidth cur)) as [Hfit|Hnofit].
      * destruct (fitpre_spec (c :: s) (W - swidth cur)) as (c' & r & E & HA & HBd); [lia|].
        assert (HFne : fitpre (W - swidth cur) (c :: s) <> []).
        { cbn [fitpre]. destruct (N.leb_spec (cw0 c) (W - swidth cur)); [discriminate|lia]. }
        remember (fitpre (W - swidth cur) (c :: s)) as F eqn:EF.
        cbn [bind].
        rewrite force_flush_nopad by (cbn [set_line pad_blocks]; apply (hw_pad _ _ _ _ HB)).
        cbn [bind set_line wtext wline].
        rewrite E. rewrite E in HF, Hfuel, Hw.
        rewrite skipn_len_app.
        rewrite hc_prefix by lia.
        rewrite hc_break; [|intro X; apply app_eq_nil in X; tauto|lia].
        destruct (HW_push_flush W b ls cur F t HB) as [HB2 HS2]; [lia|].
        apply Forall_app in HF. destruct HF as [_ HF].
        rewrite swidth_app in Hw. rewrite app_length in Hfuel.
        specialize (IH _ t w (c' :: r)
                       (consumed || negb match F with [] => true | _ => false end)
                       (wpos + swidth F) _ _ HB2 HF).
        change (swidth []) with 0 in IH. rewrite N.sub_0_r, N.eqb_refl in IH.
        cbn [set_text_line wwidth set_line]. rewrite (hw_w _ _ _ _ HB).
        assert (HlenF : (1 <= length F)%nat) by (destruct F; [congruence|cbn; lia]).
        assert (IH' := IH ltac:(lia)
                 ltac:(destruct F; [congruence|destruct consumed; discriminate])
                 ltac:(cbn [length] in *; lia)).
        clear IH. revert IH'.
        destruct (hard_chars W (ls ++ [cur ++ F]) [] 0 (c' :: r)) as [[[ls' cur'] curw']| | |];
          intros IH'.
        -- destruct IH' as (b' & E1 & H1 & H2). exists b'. split; [exact E1|].
           split; [exact H1|]. exact (same_rest_trans _ _ _ HS2 H2).
        -- exact IH'.
        -- exact IH'.
        -- exact IH'.
      * rewrite (LineIs_width _ _ (hw_line _ _ _ _ HB)). cbn [bind].
        destruct (N.eqb_spec (swidth cur) 0) as [Hz|Hnz].
        -- cbn [hard_chars].
           destruct (N.leb_spec (swidth cur + cw0 c) W) as [H1|H1]; [lia|].
           destruct (N.ltb_spec W (cw0 c)) as [H2|H2]; [|lia]. reflexivity.
        -- cbn [bind].
           rewrite force_flush_nopad by (cbn [set_line pad_blocks]; apply (hw_pad _ _ _ _ HB)).
           cbn [bind set_line wtext wline length skipn].
           assert (Hcur : cur <> []) by (intro X; subst cur; cbn [swidth] in Hnz; lia).
           rewrite hc_break; [|assumption|lia].
           destruct (HW_push_flush W b ls cur [] t HB) as [HB2 HS2]; [cbn [swidth]; lia|].
           rewrite app_nil_r in HB2.
           specialize (IH _ t w (c :: s) (consumed || negb true) wpos _ _ HB2 HF Hw).
           change (swidth []) with 0 in IH. rewrite N.sub_0_r, N.eqb_refl in IH.
           cbn [set_text_line wwidth set_line]. rewrite (hw_w _ _ _ _ HB).
           assert (IH' := IH
                 ltac:(destruct consumed; [discriminate|intros _; apply Hc; reflexivity])
                 ltac:(cbn [length] in *; lia)).
           clear IH. revert IH'.
           match goal with |- context [hard_chars ?a1 ?a2 ?a3 ?a4 ?a5] =>
             destruct (hard_chars a1 a2 a3 a4 a5) as [[[ls' cur'] curw']| | |] end;
             intros IH'.
           ++ destruct IH' as (b' & E1 & H1 & H2). exists b'. split; [exact E1|].
              split; [exact H1|]. exact (same_rest_trans _ _ _ HS2 H2).
           ++ exact IH'.
           ++ exact IH'.
           ++ exact IH'.
    + (* rest fits *)
      rewrite hc_fits by lia.
      destruct consumed.
      * cbn [negb]. destruct rest as [|c s].
        -- exists b. cbn [swidth]. replace (swidth cur + 0) with (swidth cur) by lia.
           split; [reflexivity|]. rewrite app_nil_r. split; [assumption|apply same_rest_refl].
        -- rewrite usub_ok by lia. cbn [bind].
           destruct (HW_push W b ls cur (c :: s) t HB) as [H1 H2]; [lia|].
           eexists. split; [|split; [exact H1|exact H2]].
           f_equal. f_equal. lia.
      * cbn [negb]. rewrite Hc in Hw by reflexivity. rewrite usub_ok by lia. cbn [bind].
        destruct (HW_push W b ls cur rest t HB) as [H1 H2]; [lia|].
        eexists. split; [|split; [exact H1|exact H2]].
        f_equal. f_equal. lia.
Qed.

Lemma hw_elems_spec : forall W els b ls cur,
  HW W b ls cur -> Forall elem_wf els -> Forall cwS (flat_map elem_text els) ->
  match hard_chars W ls cur (swidth cur) (flat_map elem_text els) with
  | Ok (ls', cur', curw') =>
      exists b', hw_elems b els (W - swidth cur) = Ok b' /\ HW W b' ls' cur' /\ same_rest b b'
  | TooNarrow => hw_elems b els (W - swidth cur) = TooNarrow
  | _ => False
  end.
Proof.
  intros W. induction els as [|e els IH]; intros b ls cur HB Hwf Hcw.
  - cbn [flat_map hard_chars hw_elems]. exists b.
    split; [reflexivity|]. split; [assumption|apply same_rest_refl].
  - inversion Hwf as [|? ? He Hwf']; subst. destruct e as [s t|nm]; [|contradiction].
    cbn [flat_map elem_text] in *. apply Forall_app in Hcw. destruct Hcw as [Hcs Hcr].
    cbn [hw_elems]. rewrite hc_app.
    pose proof (hw_piece_spec W (2 * length s + 2) b t (swidth s) s false 0 ls cur HB Hcs) as HP.
    assert (HP' := HP ltac:(lia) ltac:(reflexivity)
                      ltac:(destruct (swidth cur =? 0); lia)).
    clear HP. revert HP'.
    pose proof (hc_inv W s ls cur (swidth cur)) as HI.
    pose proof (hw_le _ _ _ _ HB) as Hle.
    destruct (hard_chars W ls cur (swidth cur) s) as [[[ls1 cur1] curw1]| | |]; intros HP.
    + destruct HP as (b1 & E1 & HB1 & HS1). rewrite E1. cbn [bind].
      destruct (HI ls1 cur1 curw1 eq_refl Hle eq_refl) as (Ecw & _ & _). subst curw1.
      specialize (IH b1 ls1 cur1 HB1 Hwf' Hcr). revert IH.
      destruct (hard_chars W ls1 cur1 (swidth cur1) (flat_map elem_text els))
        as [[[ls2 cur2] curw2]| | |]; intros IH.
      * destruct IH as (b2 & E2 & HB2 & HS2). exists b2. split; [exact E2|].
        split; [exact HB2|]. exact (same_rest_trans _ _ _ HS1 HS2).
      * exact IH.
      * exact IH.
      * exact IH.
    + rewrite HP. reflexivity.
    + contradiction.
    + contradiction.
Qed.

Lemma HW_set_word : forall W b ls cur w n, HW W b ls cur -> HW W (set_word b w n) ls cur.
Proof. intros W b ls cur w n [A1 A2 A3 A4 A5 A6]. constructor; assumption. Qed.
Lemma HW_set_space : forall W b ls cur st n, HW W b ls cur -> HW W (set_space b st n) ls cur.
Proof. intros W b ls cur st n [A1 A2 A3 A4 A5 A6]. constructor; assumption. Qed.
Lemma HW_set_prew : forall W b ls cur p, HW W b ls cur -> HW W (set_prew b p) ls cur.
Proof. intros W b ls cur p [A1 A2 A3 A4 A5 A6]. constructor; assumption. Qed.

Lemma fwhw_spec : forall W b ls cur,
  HW W b ls cur -> Forall elem_wf (wword b) -> Forall cwS (flat_map elem_text (wword b)) ->
  match hard_chars W ls cur (swidth cur) (flat_map elem_text (wword b)) with
  | Ok (ls', cur', curw') =>
      exists b', flush_word_hard_wrap b = Ok b' /\ HW W b' ls' cur' /\ wword b' = [] /\
                 wordlen b' = wordlen b /\ wslen b' = wslen b /\ spacetag b' = spacetag b
  | TooNarrow => flush_word_hard_wrap b = TooNarrow
  | _ => False
  end.
Proof.
  intros W b ls cur HB Hwf Hcw. unfold flush_word_hard_wrap.
  pose proof (hw_le _ _ _ _ HB) as Hle.
  destruct (hw_line _ _ _ _ HB) as (_ & Hlen & _).
  rewrite (hw_w _ _ _ _ HB), Hlen. rewrite usub_ok by assumption. cbn [bind].
  pose proof (hw_elems_spec W (wword b) (set_word b [] (wordlen b)) ls cur
                (HW_set_word _ _ _ _ _ _ HB) Hwf Hcw) as HE.
  revert HE.
  destruct (hard_chars W ls cur (swidth cur) (flat_map elem_text (wword b)))
    as [[[ls' cur'] curw']| | |]; intros HE; exact HE.
Qed.

(* ------------------------------------------------------------------ *)
(* Part 5: flush_word = place_word *)

Record Inv (W : N) (b : wblock) (ls : list text) (cur p : text) : Prop := mkInv {
  inv_hw : HW W b ls cur;
  inv_word : flat_map elem_text (wword b) = p;
  inv_wwf : Forall elem_wf (wword b);
  inv_cws : Forall cwS p;
  inv_wlen : wordlen b = swidth p
}.

Definition SpaceOK (b : wblock) (cur : text) : Prop :=
  match cur with
  | [] => wslen b = 0
  | _ => wslen b = 1 /\ (exists st, spacetag b = Some st) /\ 1 <= swidth cur
  end.

Lemma ws_loop_zero : forall n b, wslen b = 0 -> ws_loop n b = Ok b.
Proof. intros n b H. destruct n; cbn [ws_loop]; rewrite H; reflexivity. Qed.

Lemma word_nonempty : forall v, Forall elem_wf v -> flat_map elem_text v <> [] ->
  word_is_empty v = false.
Proof.
  intros v Hwf Hne. destruct v as [|e v]; [cbn in Hne; congruence|].
  inversion Hwf as [|? ? He _]; subst. destruct e; [|contradiction]. reflexivity.
Qed.

Lemma HW_set_line : forall W b ls cur l cur', HW W b ls cur -> LineIs l cur' ->
  swidth cur' <= W -> HW W (set_line b l) ls cur'.
Proof. intros W b ls cur l cur' [A1 A2 A3 A4 A5 A6] HL Hle. constructor; assumption. Qed.

Lemma HW_flush : forall W b ls cur, HW W b ls cur ->
  HW W (set_text_line b (wtext b ++ [wline b]) tl_new) (ls ++ [cur]) [].
Proof.
  intros W b ls cur [A1 A2 A3 A4 A5 A6].
  constructor; cbn [set_text_line wwidth pad_blocks allow_overflow wtext wline]; try assumption.
  - rewrite map_app, A4. cbn [map]. destruct A5 as (E & _). rewrite E. reflexivity.
  - apply LineIs_new.
  - cbn [swidth]. lia.
Qed.

Definition hard_tail_prog (n : nat) (b : wblock) : res wblock :=
  do b4 <- ws_loop n b;
  do b6 <- flush_word_hard_wrap (set_space b4 None (wslen b4));
  Ok (set_word b6 (wword b6) 0).

Lemma hard_tail : forall W b ls p n,
  HW W b ls [] -> wslen b = 0 -> flat_map elem_text (wword b) = p ->
  Forall elem_wf (wword b) -> Forall cwS p -> 1 <= swidth p ->
  match hard_chars W ls [] 0 p with
  | Ok (ls', cur', curw') =>
      exists b', hard_tail_prog n b = Ok b' /\ Inv W b' ls' cur' [] /\ wslen b' = 0 /\
                 curw' = swidth cur' /\ 1 <= swidth cur'
  | TooNarrow => hard_tail_prog n b = TooNarrow
  | _ => False
  end.
Proof.
  intros W b ls p n HB Hws Hword Hwf Hcw Hpos. unfold hard_tail_prog.
  rewrite ws_loop_zero by assumption. cbn [bind].
  pose proof (fwhw_spec W (set_space b None (wslen b)) ls []
                (HW_set_space _ _ _ _ _ _ HB)) as HF.
  cbn [set_space wword wordlen wslen spacetag] in HF. rewrite Hword in HF.
  specialize (HF Hwf Hcw). change (swidth []) with 0 in HF.
  pose proof (hc_inv W p ls [] 0) as HI.
  revert HF. destruct (hard_chars W ls [] 0 p) as [[[ls' cur'] curw']| | |]; intros HF.
  - destruct HF as (b' & E & HB' & S1 & S2 & S3 & S4). rewrite E. cbn [bind].
    eexists. split; [reflexivity|].
    destruct (HI ls' cur' curw' eq_refl ltac:(lia) eq_refl) as (A & B & C).
    split; [|split; [|split]].
    + constructor; cbn [set_word wword wordlen].
      * apply HW_set_word. exact HB'.
      * rewrite S1. reflexivity.
      * rewrite S1. constructor.
      * constructor.
      * reflexivity.
    + cbn [set_word wslen]. rewrite S3. assumption.
    + assumption.
    + rewrite <- A. apply C. lia.
  - rewrite HF. reflexivity.
  - contradiction.
  - contradiction.
Qed.

Lemma flush_word_spec : forall W b ls cur p,
  Inv W b ls cur p -> SpaceOK b cur -> 1 <= swidth p ->
  match place_word W (ls, cur, swidth cur) p with
  | Ok (ls', cur', curw') =>
      exists b', flush_word b WsNormal = Ok b' /\ Inv W b' ls' cur' [] /\ wslen b' = 0 /\
                 curw' = swidth cur' /\ 1 <= swidth cur'
  | TooNarrow => flush_word b WsNormal = TooNarrow
  | _ => False
  end.
Proof.
  intros W b ls cur p [HB Hword Hwf Hcw Hwl] HS Hpos.
  assert (Hpne : p <> []) by (intro X; rewrite X in Hpos; cbn [swidth] in Hpos; lia).
  pose proof (hw_le _ _ _ _ HB) as Hle.
  pose proof (hw_line _ _ _ _ HB) as HL.
  destruct HL as (Hstr & Hlen & Hlwf).
  unfold flush_word. rewrite word_nonempty; [|assumption|rewrite Hword; assumption].
  cbn [set_prew wwidth wline wslen wordlen spacetag wword].
  rewrite (hw_w _ _ _ _ HB), Hlen, usub_ok by assumption. cbn [bind].
  rewrite Hwl. unfold place_word.
  fold (hard_tail_prog).
  destruct cur as [|x cur0].
  - (* empty current line *)
    unfold SpaceOK in HS. rewrite HS. change (swidth []) with 0.
    destruct (N.leb_spec (swidth p) W) as [Hfit|Hnofit].
    + destruct (N.leb_spec (0 + swidth p) (W - 0)) as [_|X]; [|lia].
      change (0 <? 0) with false. cbn [bind].
      eexists. split; [reflexivity|].
      split; [|split; [|split]].
      * constructor; cbn [set_word wword wordlen].
        -- apply HW_set_word. cbn [set_prew wword wline].
           eapply HW_set_line; [exact HB| |].
           ++ rewrite <- Hword.
              apply (LineIs_fold_push (wword b) (wline b) [] Hwf (hw_line _ _ _ _ HB)).
           ++ assumption.
        -- reflexivity.
        -- constructor.
        -- constructor.
        -- reflexivity.
      * cbn. assumption.
      * reflexivity.
      * assumption.
    + destruct (N.leb_spec (0 + swidth p) (W - 0)) as [X|_]; [lia|].
      cbn [do_wrap negb bind]. unfold flush_line.
      cbn [set_space wline set_prew].
      rewrite (LineIs_is_empty _ _ (hw_line _ _ _ _ HB)). cbn [bind is_pre].
      apply hard_tail; try assumption.
      * apply HW_set_space. exact HB.
      * reflexivity.
  - (* non-empty current line *)
    unfold SpaceOK in HS. destruct HS as (Hws & (st & Hst) & Hcpos).
    rewrite Hws, Hst.
    destruct (N.leb_spec (swidth (x :: cur0) + 1 + swidth p) W) as [Hfit|Hnofit].
    + destruct (N.leb_spec (1 + swidth p) (W - swidth (x :: cur0))) as [_|X]; [|lia].
      change (0 <? 1) with true. cbn [bind].
      eexists. split; [reflexivity|].
      assert (HLs : LineIs (tl_push (wline b) (Str (spacesl L_space 1) st))
                           ((x :: cur0) ++ [spacel L_space])).
      { apply LineIs_push_str. exact (hw_line _ _ _ _ HB). }
      pose proof (LineIs_fold_push (wword b) _ _ Hwf HLs) as HL2.
      rewrite Hword in HL2.
      assert (Esw : swidth (((x :: cur0) ++ [spacel L_space]) ++ p)
                    = swidth (x :: cur0) + 1 + swidth p).
      { rewrite !swidth_app. reflexivity. }
      split; [|split; [|split]].
      * constructor; cbn [set_word wword wordlen].
        -- apply HW_set_word.
           cbn [set_space set_line set_prew wword wline wwidth wtext spacetag wordlen wslen
                pre_wrapped pad_blocks allow_overflow].
           destruct HB as [A1 A2 A3 A4 A5 A6].
           constructor; cbn [wwidth pad_blocks allow_overflow wtext wline]; try assumption.
           ++ rewrite <- app_assoc in HL2. exact HL2.
           ++ rewrite app_assoc, Esw. assumption.
        -- reflexivity.
        -- constructor.
        -- constructor.
        -- reflexivity.
      * reflexivity.
      * rewrite app_assoc, Esw. reflexivity.
      * rewrite app_assoc, Esw. lia.
    + destruct (N.leb_spec (1 + swidth p) (W - swidth (x :: cur0))) as [X|_]; [lia|].
      cbn [do_wrap negb bind]. unfold flush_line.
      cbn [set_space wline set_prew].
      rewrite (LineIs_is_empty _ _ (hw_line _ _ _ _ HB)).
      rewrite force_flush_nopad by (cbn; apply (hw_pad _ _ _ _ HB)).
      cbn [bind is_pre].
      apply hard_tail; try assumption.
      * apply (HW_flush W (set_space b None 0) ls (x :: cur0)).
        apply HW_set_space. exact HB.
      * reflexivity.
Qed.

(* ------------------------------------------------------------------ *)
(* Part 6: one character at a time; calls flattened to tagged characters *)

Definition step1 (t : tag) (b : wblock) (c : chr) : res wblock :=
  do b <- (if ws c && (0 <? wordlen b) then flush_word b WsNormal else Ok b);
  if ws c then
    if (0 <? tlen_ (wline b)) && (wslen b =? 0) then Ok (set_space b (Some t) 1) else Ok b
  else match cw c with
       | None => Ok b
       | Some cwidth => Ok (set_word b (v_push_merge (wword b) [c] t) (wordlen b + cwidth))
       end.

Lemma add_char_normal : forall t b u c,
  add_char WsNormal t t (b, u) c = (do b' <- step1 t b c; Ok (b', u)).
Proof.
  intros t b u c. unfold add_char, step1. cbn [preserve_ws is_pre andb].
  destruct (ws c && (0 <? wordlen b));
    [destruct (flush_word b WsNormal) as [b0| | |]|]; cbn [bind]; try reflexivity.
  all: destruct (ws c);
    [ match goal with |- context [if ?x && ?y then _ else _] => destruct (x && y) end;
      destruct u; reflexivity
    | destruct (cw c); destruct u; reflexivity ].
Qed.

Fixpoint steps (b : wblock) (tcs : list (chr * tag)) : res wblock :=
  match tcs with
  | [] => Ok b
  | ct :: r => do b' <- step1 (snd ct) b (fst ct); steps b' r
  end.

Definition tag_all (t : tag) (s : text) : list (chr * tag) := map (fun c => (c, t)) s.
Definition flat (calls : list (text * tag)) : list (chr * tag) :=
  flat_map (fun c => tag_all (snd c) (fst c)) calls.

Lemma bind_assoc : forall {A B C} (r : res A) (f : A -> res B) (g : B -> res C),
  (do y <- (do x <- r; f x); g y) = (do x <- r; do y <- f x; g y).
Proof. intros A B C [a| | |] f g; reflexivity. Qed.

Lemma bind_ret : forall {A} (r : res A), (do x <- r; Ok x) = r.
Proof. intros A [a| | |]; reflexivity. Qed.

Lemma bind_ext : forall {A B} (r : res A) (f g : A -> res B),
  (forall a, f a = g a) -> bind r f = bind r g.
Proof. intros A B [a| | |] f g H; cbn; [apply H|reflexivity..]. Qed.

Lemma add_chars_normal : forall t s b u,
  add_chars WsNormal t t (b, u) s = (do b' <- steps b (tag_all t s); Ok (b', u)).
Proof.
  induction s as [|c s IH]; intros b u; cbn [add_chars tag_all map steps fst snd].
  - reflexivity.
  - rewrite add_char_normal. rewrite !bind_assoc. apply bind_ext. intros b1.
    cbn [bind]. apply IH.
Qed.

Lemma wb_add_text_normal : forall b s t,
  wb_add_text b s WsNormal t t = steps b (tag_all t s).
Proof.
  intros b s t. unfold wb_add_text. rewrite add_chars_normal, bind_assoc.
  cbn [bind fst]. apply bind_ret.
Qed.

Lemma steps_app : forall x y b, steps b (x ++ y) = (do b' <- steps b x; steps b' y).
Proof.
  induction x as [|ct x IH]; intros y b; cbn [app steps].
  - reflexivity.
  - rewrite bind_assoc. apply bind_ext. intros b1. apply IH.
Qed.

Definition call_step (rb : res wblock) (c : text * tag) : res wblock :=
  do b <- rb; wb_add_text b (fst c) WsNormal (snd c) (snd c).

Lemma run_from : forall calls rb,
  fold_left call_step calls rb = (do b <- rb; steps b (flat calls)).
Proof.
  induction calls as [|c calls IH]; intros rb; cbn [fold_left flat flat_map steps].
  - symmetry. apply bind_ret.
  - rewrite IH. unfold call_step. rewrite bind_assoc. apply bind_ext. intros b.
    rewrite wb_add_text_normal. fold (flat calls). rewrite steps_app. reflexivity.
Qed.

Lemma run_calls_steps : forall W calls,
  run_calls W calls = steps (wb_new W false false) (flat calls).
Proof.
  intros W calls. unfold run_calls. fold call_step. rewrite run_from. reflexivity.
Qed.

Lemma map_fst_flat : forall calls, map fst (flat calls) = concat (map fst calls).
Proof.
  induction calls as [|c calls IH]; cbn [flat flat_map map concat].
  - reflexivity.
  - rewrite map_app. fold (flat calls). rewrite IH. f_equal.
    unfold tag_all. rewrite map_map. cbn [fst]. apply map_id.
Qed.

(* ------------------------------------------------------------------ *)
(* Part 7: the simulation *)

Lemma rev_cons_nonnil : forall {A} (x : A) l, rev (x :: l) <> [].
Proof.
  intros A x l E. apply (f_equal (@length A)) in E. rewrite rev_length in E. discriminate.
Qed.

Lemma words_aux_nil : forall p, words_aux [] (rev p) = match p with [] => [] | _ => [p] end.
Proof.
  intros [|x p]; [reflexivity|]. cbn [words_aux].
  destruct (rev (x :: p)) eqn:E; [apply rev_cons_nonnil in E; contradiction|].
  rewrite <- E, rev_involutive. reflexivity.
Qed.

Lemma words_aux_ws : forall c t p, ws c = true ->
  words_aux (c :: t) (rev p) =
  match p with [] => words_aux t [] | _ => p :: words_aux t [] end.
Proof.
  intros c t [|x p] H; cbn [words_aux]; rewrite H; [reflexivity|].
  destruct (rev (x :: p)) eqn:E; [apply rev_cons_nonnil in E; contradiction|].
  rewrite <- E, rev_involutive. reflexivity.
Qed.

Lemma words_aux_ctrl : forall c t acc, ws c = false -> cw c = None ->
  words_aux (c :: t) acc = words_aux t acc.
Proof.
  intros c t acc H1 H2. cbn [words_aux]. unfold is_wordchar. rewrite H1, H2. reflexivity.
Qed.

Lemma words_aux_char : forall c t p n, ws c = false -> cw c = Some n ->
  words_aux (c :: t) (rev p) = words_aux t (rev (p ++ [c])).
Proof.
  intros c t p n H1 H2. cbn [words_aux]. unfold is_wordchar. rewrite H1, H2.
  cbn [negb andb]. rewrite rev_app_distr. reflexivity.
Qed.

Lemma wf_text_nil : forall v, Forall elem_wf v -> flat_map elem_text v = [] -> v = [].
Proof.
  intros [|e v] Hwf H; [reflexivity|]. inversion Hwf as [|? ? He _]; subst.
  destruct e as [s t|nm]; [|contradiction]. cbn in He, H.
  destruct s; [congruence|discriminate].
Qed.

Definition finish (b : wblock) : res (list text) :=
  do ls <- wb_into_lines b; Ok (map tl_string ls).
Definition epi (st : gstate) : res (list text) :=
  let '(ls, cur, _) := st in Ok (match cur with [] => ls | _ => ls ++ [cur] end).

Lemma finish_unfold : forall b,
  finish b = (do b1 <- flush_word b WsNormal; do b2 <- flush_line b1;
              Ok (map tl_string (wtext b2))).
Proof.
  intros b. unfold finish, wb_into_lines, wb_flush.
  destruct (flush_word b WsNormal) as [b1| | |]; cbn [bind]; try reflexivity.
  destruct (flush_line b1); reflexivity.
Qed.

Lemma flush_line_fin : forall W b ls cur, HW W b ls cur ->
  (do b2 <- flush_line b; Ok (map tl_string (wtext b2))) =
  Ok (match cur with [] => ls | _ => ls ++ [cur] end).
Proof.
  intros W b ls cur HB. unfold flush_line.
  rewrite (LineIs_is_empty _ _ (hw_line _ _ _ _ HB)).
  destruct cur as [|x cur]; cbn [bind].
  - rewrite (hw_text _ _ _ _ HB). reflexivity.
  - rewrite force_flush_nopad by apply (hw_pad _ _ _ _ HB).
    cbn [bind set_text_line wtext]. rewrite map_app, (hw_text _ _ _ _ HB). cbn [map].
    destruct (hw_line _ _ _ _ HB) as (E & _). rewrite E. reflexivity.
Qed.

Lemma Inv_set_space : forall W b ls cur p st n,
  Inv W b ls cur p -> Inv W (set_space b st n) ls cur p.
Proof.
  intros W b ls cur p st n [A1 A2 A3 A4 A5]. constructor; try assumption.
  apply HW_set_space. assumption.
Qed.

Lemma sim : forall W tcs b ls cur p,
  Inv W b ls cur p -> SpaceOK b cur ->
  Forall (fun w => 1 <= swidth w) (words_aux (map fst tcs) (rev p)) ->
  (do b' <- steps b tcs; finish b') =
  (do st <- place_words W (ls, cur, swidth cur) (words_aux (map fst tcs) (rev p)); epi st).
Proof.
  intros W. induction tcs as [|[c t] tcs IH]; intros b ls cur p HI HS HWd.
  - cbn [steps bind map] in *. rewrite words_aux_nil in *. rewrite finish_unfold.
    destruct p as [|x p'].
    + destruct HI as [HB Hword Hwf Hcw Hwl].
      assert (Hnil : wword b = []) by (apply wf_text_nil; assumption).
      unfold flush_word. rewrite Hnil.
      cbn [word_is_empty existsb negb bind place_words epi].
      apply (flush_line_fin W). apply HW_set_word. exact HB.
    + inversion HWd as [|? ? Hpos _]; subst.
      cbn [place_words].
      pose proof (flush_word_spec W b ls cur (x :: p') HI HS Hpos) as HF. revert HF.
      destruct (place_word W (ls, cur, swidth cur) (x :: p')) as [[[ls' cur'] curw']| | |];
        intros HF.
      * destruct HF as (b' & E & HI' & Hws & Ecw & Hcpos). rewrite E. cbn [bind epi].
        rewrite (flush_line_fin W b' ls' cur' (inv_hw _ _ _ _ _ HI')).
        reflexivity.
      * rewrite HF. reflexivity.
      * contradiction.
      * contradiction.
  - cbn [steps map fst snd] in *.
    destruct (ws c) eqn:Hwsc.
    + rewrite words_aux_ws in * by assumption.
      destruct p as [|x p'].
      * assert (Hno : (0 <? tlen_ (wline b)) && (wslen b =? 0) = false).
        { destruct (hw_line _ _ _ _ (inv_hw _ _ _ _ _ HI)) as (_ & Hlen & _).
          destruct cur as [|y cur0].
          - rewrite Hlen. reflexivity.
          - destruct HS as (Hws & _). rewrite Hws. apply andb_false_r. }
        unfold step1. rewrite Hwsc, (inv_wlen _ _ _ _ _ HI). cbn [swidth].
        change (0 <? 0) with false. cbn [andb bind]. rewrite Hno. cbn [bind].
        apply (IH b ls cur []); assumption.
      * inversion HWd as [|? ? Hpos HWd']; subst.
        cbn [place_words].
        pose proof (flush_word_spec W b ls cur (x :: p') HI HS Hpos) as HF. revert HF.
        unfold step1. rewrite Hwsc, (inv_wlen _ _ _ _ _ HI).
        destruct (N.ltb_spec 0 (swidth (x :: p'))) as [_|X]; [|lia]. cbn [andb].
        destruct (place_word W (ls, cur, swidth cur) (x :: p')) as [[[ls' cur'] curw']| | |];
          intros HF.
        -- destruct HF as (b' & E & HI' & Hws & Ecw & Hcpos). rewrite E. cbn [bind].
           destruct (hw_line _ _ _ _ (inv_hw _ _ _ _ _ HI')) as (_ & Hlen & _).
           rewrite Hlen, Hws.
           destruct (N.ltb_spec 0 (swidth cur')) as [_|X]; [|lia].
           change (0 =? 0) with true. cbn [andb bind]. subst curw'.
           apply (IH _ ls' cur' []).
           ++ apply Inv_set_space. exact HI'.
           ++ destruct cur' as [|y cur0]; [cbn [swidth] in Hcpos; lia|].
              cbn [SpaceOK set_space wslen spacetag]. split; [reflexivity|].
              split; [eexists; reflexivity|assumption].
           ++ exact HWd'.
        -- rewrite HF. reflexivity.
        -- contradiction.
        -- contradiction.
    + destruct HI as [HB Hword Hwf Hcw Hwl].
      destruct (cw c) as [n|] eqn:Hcwc.
      * rewrite (words_aux_char c _ p n Hwsc Hcwc) in *.
        unfold step1. rewrite Hwsc, Hcwc. cbn [andb bind].
        apply IH; [|exact HS|exact HWd].
        constructor; cbn [set_word wword wordlen].
        -- apply HW_set_word. exact HB.
        -- rewrite vpm_text, Hword. reflexivity.
        -- apply vpm_wf; [assumption|discriminate].
        -- apply Forall_app. split; [assumption|]. constructor; [|constructor].
           unfold cwS. rewrite Hcwc. discriminate.
        -- rewrite swidth_app, Hwl. cbn [swidth]. rewrite (cw0_some c n Hcwc). lia.
      * rewrite (words_aux_ctrl c _ _ Hwsc Hcwc) in *.
        unfold step1. rewrite Hwsc, Hcwc. cbn [andb bind].
        apply IH; [|exact HS|exact HWd]. constructor; assumption.
Qed.

(* ------------------------------------------------------------------ *)
(* Part 8: the theorem and its corollaries *)

Lemma Inv_new : forall W, Inv W (wb_new W false false) [] [] [].
Proof.
  intros W. constructor; cbn; try reflexivity; try constructor; try reflexivity.
  - apply LineIs_new.
  - cbn [swidth]. lia.
Qed.

Theorem c04_greedy : forall (W : N) (calls : list (text * tag)),
  1 <= W -> all_words_pos (concat (map fst calls)) ->
  impl_lines W calls = greedy W (words_of (concat (map fst calls))).
Proof.
  intros W calls HW1 Hpos.
  pose proof (sim W (flat calls) (wb_new W false false) [] [] [] (Inv_new W)) as H.
  rewrite map_fst_flat in H.
  unfold impl_lines. rewrite run_calls_steps.
  apply H.
  - reflexivity.
  - apply Forall_forall. intros w Hin. apply Hpos. exact Hin.
Qed.

Theorem c04_split_independent : forall W calls1 calls2,
  1 <= W -> concat (map fst calls1) = concat (map fst calls2) ->
  all_words_pos (concat (map fst calls1)) ->
  impl_lines W calls1 = impl_lines W calls2.
Proof.
  intros W calls1 calls2 HW1 E Hpos.
  rewrite (c04_greedy W calls1 HW1 Hpos).
  rewrite (c04_greedy W calls2 HW1).
  - exact (f_equal (fun t : text => greedy W (words_of t)) E).
  - exact (eq_ind _ (fun t : text => all_words_pos t) Hpos _ E).
Qed.

(* the reference never panics or runs out of fuel, hence neither does the model *)
Lemma place_word_res : forall W st w,
  match place_word W st w with Panic _ | OutOfFuel => False | _ => True end.
Proof.
  intros W [[ls cur] curw] w. unfold place_word.
  destruct cur; match goal with |- context [if ?c then _ else _] => destruct c end;
    try exact I; apply hc_res.
Qed.

Lemma place_words_res : forall W ws_ st,
  match place_words W st ws_ with Panic _ | OutOfFuel => False | _ => True end.
Proof.
  intros W. induction ws_ as [|w ws_ IH]; intros st; cbn [place_words].
  - exact I.
  - pose proof (place_word_res W st w) as H. revert H.
    destruct (place_word W st w) as [st'| | |]; intros H; cbn [bind]; try exact H.
    apply IH.
Qed.

Theorem c04_no_panic : forall W calls,
  1 <= W -> all_words_pos (concat (map fst calls)) ->
  match impl_lines W calls with Panic _ | OutOfFuel => False | _ => True end.
Proof.
  intros W calls HW1 Hpos. rewrite (c04_greedy W calls HW1 Hpos). unfold greedy.
  match goal with |- context [place_words ?a ?b ?c] =>
    pose proof (place_words_res a c b) as H; revert H;
    destruct (place_words a b c) as [[[ls cur] curw]| | |] end;
    intros H; cbn [bind]; exact H.
Qed.

(* ------------------------------------------------------------------ *)
(* Non-vacuity: wide and zero-width characters, two calls with different tags,
   a word that must be hard-wrapped, three output lines. *)
Definition ex_a := mkchr 97 (Some 1) false 16.
Definition ex_b := mkchr 98 (Some 1) false 17.
Definition ex_sp := mkchr 32 (Some 1) true 18.
Definition ex_wide := mkchr 19990 (Some 2) false 19.
Definition ex_zw := mkchr 769 (Some 0) false 20.
Definition ex_c := mkchr 99 (Some 1) false 21.
Definition ex_d := mkchr 100 (Some 1) false 22.
Definition ex_e := mkchr 101 (Some 1) false 23.
Definition ex_f := mkchr 102 (Some 1) false 24.
Definition ex_g := mkchr 103 (Some 1) false 25.
Definition ex_h := mkchr 104 (Some 1) false 26.
Definition ex_ctl := mkchr 7 None false 27.
Definition ex_i := mkchr 105 (Some 1) false 28.
Definition ex_calls : list (text * tag) :=
  [ ([ex_sp; ex_a; ex_b; ex_sp; ex_wide; ex_zw; ex_c], [AEm]);
    ([ex_d; ex_ctl; ex_e; ex_f; ex_g; ex_h; ex_sp; ex_sp; ex_i; ex_sp], [ADefault]) ].

Example c04_nonvacuous :
  1 <= 5 /\ all_words_pos (concat (map fst ex_calls)) /\
  impl_lines 5 ex_calls =
    Ok [ [ex_a; ex_b];
         [ex_wide; ex_zw; ex_c; ex_d; ex_e];
         [ex_f; ex_g; ex_h; spacel L_space; ex_i] ].
Proof.
  split; [lia|]. split.
  - intros w Hin. vm_compute in Hin.
    destruct Hin as [<-|[<-|[<-|[]]]]; vm_compute; discriminate.
  - vm_compute. reflexivity.
Qed.

Print Assumptions c04_greedy.
Print Assumptions c04_split_independent.
Print Assumptions c04_no_panic.
