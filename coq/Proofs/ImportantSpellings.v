(* Proofs/ImportantSpellings.v -- properties C17 / C19: every legal spelling of the priority
   flag `!important` of a declaration is the flag.

   The flag is detected by CssParse.parse_value on the TOKEN list of the value (last two tokens
   `TDelim '!'`, `TIdent important`), so everything the tokeniser drops between and after the two
   tokens (white space, comments) and the letter case of the keyword (parse_ident lowercases) are
   insignificant.  A seeded change recognised the flag only when the source text of the value
   ended with the exact characters `!important`; `! important`, `!/**/important`, `!important `
   and `!IMPORTANT` were lost.

   What Proofs/CssVariants.v already covers:
     * the general machinery ([ditem] = name, `:`, a list of (filler, atom); parse_declaration_item,
       parse_vrule, variant_sheet_rt, variants_agree) allows ANY filler in front of EVERY atom, hence
       also between `!` and the keyword, and any filler after the value ([e_pre], [vend]); but the
       meaning [item_decl] of such an item is only COMPUTED (strip_important of the tokens), nothing
       is stated about the flag;
     * the explicit statement about the flag, [real_item] / [spelling] / [real_item_decl], has a
       filler before `!` ([sp_w3]) and any letter case of the keyword ([sp_imp]), but the keyword
       atom is `([], AIdent (sp_imp s))`: NO filler between `!` and the keyword.
   This file adds the missing spelling component.

   Main theorems
     flag_parse_value        parse_value (v ++ w0 ++ "!" ++ w1 ++ IMPORTANT ++ K) = POk (tokens of v, true) K
                             for every value v made of atoms, all fillers w0 w1, every letter case
                             of the keyword, and K = filler then `;` or `}` (so a filler after the
                             keyword is part of K)
     flag_spellings_agree    ... hence two spellings give the same result as ` !important`
     item_decl_flag / ditem_ok_flag / parse_declaration_flag
                             the same through parse_declaration, for EVERY property name and value
     real_item2_decl / real_item2_ok / parse_declaration_real2
                             CssVariants.real_item extended with the filler between `!` and the
                             keyword: colour / background-color / display declarations in any spelling
     parse_rule_spelled      through parse_ruleset: a rule set whose declarations are spelled with
                             arbitrary fillers and letter cases parses to the declarations meant
     spelled_sheets_agree    through parse_css_rules: two sheets of such rule sets with the same
                             declarations give the same rules
   No axioms. *)
From H2T Require Import Base Tagged Wrap Css Dom CssParse Proofs.CssTotal Proofs.CssRoundTrip
  Proofs.CssVariants.
From Coq Require Import Lia ZifyN ZifyBool ZifyNat.
Local Arguments N.add : simpl never.
Local Arguments N.sub : simpl never.
Local Arguments N.mul : simpl never.
Local Arguments N.div : simpl never.
Local Arguments N.modulo : simpl never.
Local Arguments N.leb : simpl never.
Local Arguments N.ltb : simpl never.
Local Arguments N.eqb : simpl never.
Local Arguments N.max : simpl never.
Local Arguments N.min : simpl never.
Local Open Scope N_scope.

(* ------------------------------------------------------------------ *)
(* 1. the flag as two atoms: filler w0, `!`, filler w1, the keyword in any letter case *)
Definition flag_atoms (w0 w1 : text) (imp : list N) : atoms := [(w0, APunct 33); (w1, AIdent imp)].
(* the keyword as written is `important` in some letter case *)
Definition imp_ok (imp : list N) : Prop := map lowerN imp = s_important.

Lemma imp_word : forall imp, imp_ok imp -> word_okb imp = true.
Proof. intros imp H. rewrite <- word_okb_lower, H. reflexivity. Qed.

Lemma print_flag : forall w0 w1 imp,
  print_atoms (flag_atoms w0 w1 imp) = w0 ++ of_ascii [33] ++ w1 ++ of_ascii imp.
Proof.
  intros. unfold flag_atoms. rewrite !print_atoms_cons. cbn [print_atoms flat_map print_atom].
  rewrite app_nil_r. reflexivity.
Qed.

Lemma toks_of_flag : forall w0 w1 imp, imp_ok imp ->
  toks_of (flag_atoms w0 w1 imp) = imp_toks true.
Proof.
  intros w0 w1 imp H. unfold flag_atoms; cbn [toks_of map snd atom_tok]. rewrite H. reflexivity.
Qed.

Lemma toks_of_app : forall l1 l2, toks_of (l1 ++ l2) = toks_of l1 ++ toks_of l2.
Proof. intros; unfold toks_of; apply map_app. Qed.

Lemma flag_atoms_ok : forall w0 w1 imp, wsm w0 -> wsm w1 -> imp_ok imp ->
  atoms_ok (flag_atoms w0 w1 imp).
Proof.
  intros w0 w1 imp H0 H1 Hi. unfold atoms_ok, flag_atoms.
  apply Forall_cons; [cbn [fst snd]; split; [exact H0|reflexivity]|].
  apply Forall_cons; [cbn [fst snd atom_okb]; split; [exact H1|apply imp_word, Hi]|apply Forall_nil].
Qed.

(* anything may be followed by `!` *)
Lemma followsb_bang : forall a sp, followsb a sp 33 = true.
Proof. intros a sp; destruct a, sp; reflexivity. Qed.

Lemma vdepth_app : forall l l' d, vdepth l d = true -> vdepth l' 0 = true ->
  vdepth (l ++ l') d = true.
Proof.
  induction l as [|[w a] l IH]; intros l' d H H'.
  - cbn [vdepth] in H. apply Nat.eqb_eq in H. subst d. exact H'.
  - cbn [app vdepth] in *. apply andb_prop in H. destruct H as [H1 H2]. rewrite H1. cbn [andb].
    apply IH; assumption.
Qed.

Lemma achain_app_bang : forall l w0 l', achain l = true -> achain ((w0, APunct 33) :: l') = true ->
  achain (l ++ (w0, APunct 33) :: l') = true.
Proof.
  induction l as [|[w a] l IH]; intros w0 l' H H'; [exact H'|].
  destruct l as [|[w2 a2] l2].
  - change (achain ((w, a) :: (w0, APunct 33) :: l') = true).
    change (followsb a (negb (isnil w0)) 33 && achain ((w0, APunct 33) :: l') = true).
    rewrite followsb_bang, H'. reflexivity.
  - change (followsb a (negb (isnil w2)) (afc a2) && achain ((w2, a2) :: l2) = true) in H.
    apply andb_prop in H. destruct H as [H1 H2].
    change (followsb a (negb (isnil w2)) (afc a2) && achain (((w2, a2) :: l2) ++ (w0, APunct 33) :: l') = true).
    rewrite H1. cbn [andb]. apply IH; assumption.
Qed.

Lemma achain_flag : forall w0 w1 imp, achain (flag_atoms w0 w1 imp) = true.
Proof. intros. unfold flag_atoms. destruct w1; reflexivity. Qed.

(* a value followed by the flag is a value *)
Lemma value_flag_ok : forall l w0 w1 imp,
  atoms_ok l -> forallb (fun wa => vatom (snd wa)) l = true -> vdepth l 0 = true -> achain l = true ->
  wsm w0 -> wsm w1 -> imp_ok imp ->
  atoms_ok (l ++ flag_atoms w0 w1 imp) /\
  forallb (fun wa => vatom (snd wa)) (l ++ flag_atoms w0 w1 imp) = true /\
  vdepth (l ++ flag_atoms w0 w1 imp) 0 = true /\ achain (l ++ flag_atoms w0 w1 imp) = true.
Proof.
  intros l w0 w1 imp Hok Hv Hd Hc H0 H1 Hi. split; [|split; [|split]].
  - apply atoms_ok_app; [exact Hok|apply flag_atoms_ok; assumption].
  - rewrite forallb_app, Hv. reflexivity.
  - apply vdepth_app; [exact Hd|reflexivity].
  - unfold flag_atoms. apply achain_app_bang; [exact Hc|apply achain_flag].
Qed.

Lemma ends_important_flag : forall toks,
  ends_important (toks ++ imp_toks true) = true /\
  removelast (removelast (toks ++ imp_toks true)) = toks.
Proof.
  intros toks. split.
  - unfold ends_important, imp_toks. rewrite rev_app_distr. reflexivity.
  - unfold imp_toks. rewrite removelast_app by discriminate. cbn [removelast].
    rewrite removelast_app by discriminate. cbn [removelast]. apply app_nil_r.
Qed.

Lemma strip_important_flag : forall toks, strip_important (toks ++ imp_toks true) = (toks, true).
Proof.
  intros toks. unfold strip_important. destruct (ends_important_flag toks) as [E1 E2].
  rewrite E1, E2. reflexivity.
Qed.

(* MAIN (value level): whatever the value [l] (it may be empty, and it may itself end in another
   `!important`: only one flag is removed), whatever the fillers before `!` and between `!` and the
   keyword, whatever the letter case of the keyword, and whatever filler follows (K = filler, then
   `;` or `}`), the value parses to the tokens of [l] with the flag set. *)
Theorem flag_parse_value : forall l w0 w1 imp K,
  atoms_ok l -> forallb (fun wa => vatom (snd wa)) l = true -> vdepth l 0 = true -> achain l = true ->
  wsm w0 -> wsm w1 -> imp_ok imp -> vend K ->
  parse_value (print_atoms l ++ w0 ++ of_ascii [33] ++ w1 ++ of_ascii imp ++ K)
  = POk (toks_of l, true) K.
Proof.
  intros l w0 w1 imp K Hok Hv Hd Hc H0 H1 Hi HK.
  destruct (value_flag_ok l w0 w1 imp Hok Hv Hd Hc H0 H1 Hi) as (Aok & Av & Ad & Ac).
  pose proof (atoms_many _ 0%nat K Aok Av Ad Ac HK) as HM.
  rewrite print_atoms_app, print_flag, <- !app_assoc in HM.
  unfold parse_value. rewrite (value_toks_R _ _ _ HM). cbn [pbind].
  rewrite toks_of_app, (toks_of_flag w0 w1 imp Hi).
  destruct (ends_important_flag (toks_of l)) as [E1 E2]. rewrite E1, E2. reflexivity.
Qed.
Print Assumptions flag_parse_value.

(* the trailing filler made explicit: w2 after the keyword, then `;` or `}` *)
Corollary flag_parse_value_trailing : forall l w0 w1 imp w2 x k,
  atoms_ok l -> forallb (fun wa => vatom (snd wa)) l = true -> vdepth l 0 = true -> achain l = true ->
  wsm w0 -> wsm w1 -> imp_ok imp -> wsm w2 -> x = 59 \/ x = 125 ->
  parse_value (print_atoms l ++ w0 ++ of_ascii [33] ++ w1 ++ of_ascii imp ++ w2 ++ of_ascii [x] ++ k)
  = POk (toks_of l, true) (w2 ++ of_ascii [x] ++ k).
Proof.
  intros l w0 w1 imp w2 x k Hok Hv Hd Hc H0 H1 Hi H2 Hx.
  apply flag_parse_value; auto. exists w2, x, k. auto.
Qed.

(* the value of a parser result, without the remaining input *)
Definition pval {A} (r : pr A) : option A := match r with POk a _ => Some a | _ => None end.

(* ... the same result as the canonical spelling ` !important` directly before the `;` / `}` *)
Corollary flag_spellings_agree : forall l w0 w1 imp w2 x k,
  atoms_ok l -> forallb (fun wa => vatom (snd wa)) l = true -> vdepth l 0 = true -> achain l = true ->
  wsm w0 -> wsm w1 -> imp_ok imp -> wsm w2 -> x = 59 \/ x = 125 ->
  pval (parse_value (print_atoms l ++ w0 ++ of_ascii [33] ++ w1 ++ of_ascii imp ++ w2 ++ of_ascii [x] ++ k))
  = pval (parse_value (print_atoms l ++ sp1 ++ of_ascii [33] ++ [] ++ of_ascii s_important ++ [] ++ of_ascii [x] ++ k)).
Proof.
  intros l w0 w1 imp w2 x k Hok Hv Hd Hc H0 H1 Hi H2 Hx.
  rewrite (flag_parse_value_trailing l w0 w1 imp w2 x k) by assumption.
  rewrite (flag_parse_value_trailing l sp1 [] s_important [] x k); auto.
  - unfold sp1. apply wsm_ws; [reflexivity|apply wsm_nil].
  - apply wsm_nil.
  - reflexivity.
  - apply wsm_nil.
Qed.
Print Assumptions flag_spellings_agree.

(* ------------------------------------------------------------------ *)
(* 2. through parse_declaration, for EVERY property name and value: the declaration
   `name w : value w0 ! w1 IMPORTANT` means the property with the tokens of the value, important *)
Definition flag_item (n : list N) (w : text) (l : atoms) (w0 w1 : text) (imp : list N) : ditem :=
  mkditem n w (l ++ flag_atoms w0 w1 imp).

Theorem item_decl_flag : forall n w l w0 w1 imp, imp_ok imp ->
  item_decl (flag_item n w l w0 w1 imp)
  = mkdecl (decl_of (of_ascii (map lowerN n)) (toks_of l)) true.
Proof.
  intros n w l w0 w1 imp Hi. unfold item_decl, flag_item; cbn [di_name di_val].
  rewrite toks_of_app, (toks_of_flag w0 w1 imp Hi), strip_important_flag. reflexivity.
Qed.

(* the item without the flag is well formed (or has an empty value) -> the item with it is *)
Theorem ditem_ok_flag : forall n w l w0 w1 imp,
  name_okb n = true -> wsm w -> atoms_ok l -> forallb (fun wa => vatom (snd wa)) l = true ->
  vdepth l 0 = true -> achain l = true ->
  wsm w0 -> wsm w1 -> imp_ok imp -> ditem_ok (flag_item n w l w0 w1 imp).
Proof.
  intros n w l w0 w1 imp Hn Hw Hok Hv Hd Hc H0 H1 Hi.
  destruct (value_flag_ok l w0 w1 imp Hok Hv Hd Hc H0 H1 Hi) as (Aok & Av & Ad & Ac).
  unfold ditem_ok, flag_item; cbn [di_name di_w1 di_val].
  repeat split; try assumption. destruct l; discriminate.
Qed.

Theorem parse_declaration_flag : forall n w l w0 w1 imp K,
  name_okb n = true -> wsm w -> atoms_ok l -> forallb (fun wa => vatom (snd wa)) l = true ->
  vdepth l 0 = true -> achain l = true ->
  wsm w0 -> wsm w1 -> imp_ok imp -> vend K ->
  parse_declaration (of_ascii n ++ w ++ of_ascii [58] ++ print_atoms l ++
                     w0 ++ of_ascii [33] ++ w1 ++ of_ascii imp ++ K)
  = POk (mkdecl (decl_of (of_ascii (map lowerN n)) (toks_of l)) true) K.
Proof.
  intros n w l w0 w1 imp K Hn Hw Hok Hv Hd Hc H0 H1 Hi HK.
  rewrite <- (item_decl_flag n w l w0 w1 imp Hi).
  rewrite <- (parse_declaration_item (flag_item n w l w0 w1 imp) K
                (ditem_ok_flag n w l w0 w1 imp Hn Hw Hok Hv Hd Hc H0 H1 Hi) HK).
  unfold print_ditem, flag_item; cbn [di_name di_w1 di_val].
  rewrite print_atoms_app, print_flag, <- !app_assoc. reflexivity.
Qed.
Print Assumptions parse_declaration_flag.

(* ------------------------------------------------------------------ *)
(* 3. CssVariants.real_item with the missing spelling component: a filler between `!` and the
   keyword.  [s] is a CssVariants.spelling (name, fillers around `:`, value, filler before `!`,
   keyword as written), [w4] the new filler. *)
Definition real_item2 (d : declaration) (s : spelling) (w4 : text) : ditem :=
  mkditem (sp_name s) (sp_w1 s)
    ((sp_w2 s, val_atom (d_data d) (sp_val s)) ::
     (if d_important d then flag_atoms (sp_w3 s) w4 (sp_imp s) else [])).

Lemma real_item2_nil : forall d s, real_item2 d s [] = real_item d s.
Proof. reflexivity. Qed.

Lemma val_atom_ok : forall data i s, decl_ok (mkdecl data i) = true ->
  map lowerN (sp_val s) = val_cps data ->
  atom_okb (val_atom data (sp_val s)) = true /\
  toks_of [(sp_w2 s, val_atom data (sp_val s))] = val_toks data.
Proof.
  intros data i s Hd Hv. unfold decl_ok in Hd; cbn [d_data] in Hd.
  split.
  - destruct data as [r g b|r g b| | | | |[|]| | |]; try discriminate; cbn [val_atom atom_okb val_cps] in *.
    + assert (Hf : forallb mnm (sp_val s) = true) by (rewrite <- forallb_mnm_lower, Hv; apply hex_mnm; lia).
      destruct (sp_val s); [unfold hex2 in Hv; cbn [map app] in Hv; discriminate Hv|exact Hf].
    + assert (Hf : forallb mnm (sp_val s) = true) by (rewrite <- forallb_mnm_lower, Hv; apply hex_mnm; lia).
      destruct (sp_val s); [unfold hex2 in Hv; cbn [map app] in Hv; discriminate Hv|exact Hf].
    + rewrite <- word_okb_lower, Hv. reflexivity.
    + rewrite <- word_okb_lower, Hv. reflexivity.
  - destruct data as [r g b|r g b| | | | |[|]| | |]; try discriminate;
      cbn [toks_of map snd val_atom atom_tok val_toks]; rewrite Hv; reflexivity.
Qed.

Theorem real_item2_decl : forall d s w4, decl_ok d = true -> spelling_ok d s ->
  item_decl (real_item2 d s w4) = d.
Proof.
  intros [data i] s w4 Hd (Hn & Hv & Hi & _). cbn [d_data d_important] in *.
  destruct (val_atom_ok data i s Hd Hv) as (_ & Et).
  unfold item_decl, real_item2; cbn [di_name di_val d_data d_important]. rewrite Hn.
  change ((sp_w2 s, val_atom data (sp_val s)) :: (if i then flag_atoms (sp_w3 s) w4 (sp_imp s) else []))
    with ([(sp_w2 s, val_atom data (sp_val s))] ++ (if i then flag_atoms (sp_w3 s) w4 (sp_imp s) else [])).
  rewrite toks_of_app, Et.
  destruct i.
  - rewrite (toks_of_flag _ _ _ (Hi eq_refl)), strip_important_flag. cbn [fst snd].
    rewrite (decl_of_ok data true Hd). reflexivity.
  - cbn [toks_of map]. rewrite app_nil_r.
    assert (Es : strip_important (val_toks data) = (val_toks data, false)).
    { unfold decl_ok in Hd; cbn [d_data] in Hd.
      destruct data as [r g b|r g b| | | | |[|]| | |]; try discriminate; reflexivity. }
    rewrite Es. cbn [fst snd]. rewrite (decl_of_ok data false Hd). reflexivity.
Qed.

Theorem real_item2_ok : forall d s w4, decl_ok d = true -> spelling_ok d s -> wsm w4 ->
  ditem_ok (real_item2 d s w4).
Proof.
  intros [data i] s w4 Hd (Hn & Hv & Hi & Hw1 & Hw2 & Hw3) Hw4. cbn [d_data d_important] in *.
  destruct (val_atom_ok data i s Hd Hv) as (Hval & _).
  assert (Hname : name_okb (sp_name s) = true).
  { rewrite <- name_okb_lower, Hn. unfold decl_ok in Hd; cbn [d_data] in Hd.
    destruct data; try discriminate; reflexivity. }
  assert (Hone : atoms_ok [(sp_w2 s, val_atom data (sp_val s))])
    by (apply Forall_cons; [cbn [fst snd]; split; assumption|apply Forall_nil]).
  assert (Hva : forallb (fun wa => vatom (snd wa)) [(sp_w2 s, val_atom data (sp_val s))] = true).
  { cbn [forallb snd]. destruct data; reflexivity. }
  assert (Hdp : vdepth [(sp_w2 s, val_atom data (sp_val s))] 0 = true).
  { unfold decl_ok in Hd; cbn [d_data] in Hd. destruct data; try discriminate; reflexivity. }
  destruct i.
  - apply (ditem_ok_flag (sp_name s) (sp_w1 s) [(sp_w2 s, val_atom data (sp_val s))]
             (sp_w3 s) w4 (sp_imp s)); auto. apply (Hi eq_refl).
  - unfold ditem_ok, real_item2; cbn [di_name di_w1 di_val d_important d_data].
    repeat split; try assumption. discriminate.
Qed.

(* MAIN (declaration level): a colour / background-color / display declaration [d] (decl_ok)
   written in any spelling - letter case of the name, of the hex digits or keyword and of
   `important`; fillers around `:`, before `!`, BETWEEN `!` AND THE KEYWORD and (in K) after the
   keyword - parses to [d]. *)
Theorem parse_declaration_real2 : forall d s w4 K,
  decl_ok d = true -> spelling_ok d s -> wsm w4 -> vend K ->
  parse_declaration (print_ditem (real_item2 d s w4) ++ K) = POk d K.
Proof.
  intros d s w4 K Hd Hs Hw4 HK.
  rewrite (parse_declaration_item _ K (real_item2_ok d s w4 Hd Hs Hw4) HK).
  rewrite (real_item2_decl d s w4 Hd Hs). reflexivity.
Qed.
Print Assumptions real_item2_decl.
Print Assumptions real_item2_ok.
Print Assumptions parse_declaration_real2.

(* the text of an important declaration, spelled out *)
Lemma print_real_item2_important : forall data s w4,
  print_ditem (real_item2 (mkdecl data true) s w4)
  = of_ascii (sp_name s) ++ sp_w1 s ++ of_ascii [58] ++ sp_w2 s ++
    print_atom (val_atom data (sp_val s)) ++
    sp_w3 s ++ of_ascii [33] ++ w4 ++ of_ascii (sp_imp s).
Proof.
  intros. unfold print_ditem, real_item2; cbn [di_name di_w1 di_val d_important d_data].
  rewrite print_atoms_cons, print_flag. reflexivity.
Qed.

(* ------------------------------------------------------------------ *)
(* 4. through parse_ruleset and parse_css_rules: rule sets whose declarations are spelled freely *)
Record sdecl := mksdecl {
  sd_d : declaration;      (* the declaration meant *)
  sd_sp : spelling;        (* its spelling (CssVariants) *)
  sd_w4 : text;            (* filler between `!` and the keyword *)
  sd_pre : text;           (* filler after the declaration (after the keyword, if flagged) *)
  sd_semis : list text     (* the `;`s after it, each followed by this filler *)
}.
Definition sd_entry (r : sdecl) : entry :=
  mkentry (real_item2 (sd_d r) (sd_sp r) (sd_w4 r)) (sd_pre r) (sd_semis r).
Definition sdecl_ok (r : sdecl) : Prop :=
  decl_ok (sd_d r) = true /\ spelling_ok (sd_d r) (sd_sp r) /\ wsm (sd_w4 r) /\ wsm (sd_pre r) /\
  Forall wsm (sd_semis r).
Record srule := mksrule {
  sr_ws : wsp2; sr_sels : list selector; sr_open : text; sr_lead : list text; sr_decls : list sdecl }.
Definition srule_v (r : srule) : vrule :=
  mkvrule (sr_ws r) (sr_sels r) (mkvblock (sr_open r) (sr_lead r) (map sd_entry (sr_decls r))).
Definition srule_means (r : srule) : cssruleset := mkcrs (sr_sels r) (map sd_d (sr_decls r)).
Definition srule_ok (r : srule) : Prop :=
  wsp2_ok (sr_ws r) /\ sr_sels r <> [] /\ forallb wf_selector (sr_sels r) = true /\
  wsm (sr_open r) /\ Forall wsm (sr_lead r) /\ Forall sdecl_ok (sr_decls r) /\
  seps_ok (map sd_entry (sr_decls r)).

Lemma srule_vok : forall r, srule_ok r -> vrule_ok (srule_v r).
Proof.
  intros r (Hp & Hne & Hss & Hop & Hlead & Hds & Hsep).
  unfold vrule_ok, srule_v; cbn [v_ws v_sels v_block].
  split; [exact Hp|split; [exact Hne|split; [exact Hss|]]].
  unfold block_ok; cbn [b_open b_lead b_entries].
  split; [exact Hop|split; [exact Hlead|split; [|exact Hsep]]].
  apply Forall_forall. intros e He. apply in_map_iff in He. destruct He as (d & <- & Hin).
  rewrite Forall_forall in Hds. destruct (Hds d Hin) as (H1 & H2 & H3 & H4 & H5).
  unfold entry_ok, sd_entry; cbn [e_item e_pre e_semis].
  split; [apply real_item2_ok; assumption|split; assumption].
Qed.
Lemma srule_raw : forall r, srule_ok r -> vrule_raw (srule_v r) = srule_means r.
Proof.
  intros r (_ & _ & _ & _ & _ & Hds & _).
  unfold vrule_raw, srule_v, srule_means, block_decls; cbn [v_sels v_block b_entries]. f_equal.
  rewrite map_map. apply map_ext_in. intros d Hin. rewrite Forall_forall in Hds.
  destruct (Hds d Hin) as (H1 & H2 & _). unfold sd_entry; cbn [e_item].
  apply real_item2_decl; assumption.
Qed.

Theorem parse_rule_spelled : forall r rest, srule_ok r ->
  parse_ruleset (print_vrule (srule_v r) ++ rest)
  = POk (srule_means r) (skip_ws (w_end (w_base (sr_ws r)) ++ rest)).
Proof.
  intros r rest Hr. rewrite (parse_vrule _ rest (srule_vok r Hr)), (srule_raw r Hr). reflexivity.
Qed.

Definition ssheet (rs : list srule) : list vstmt := map (fun r => VRule (srule_v r)) rs.
Theorem spelled_sheet_rules : forall lead rs, wsm lead -> Forall srule_ok rs ->
  parse_css_rules (lead ++ print_vsheet (ssheet rs)) = CssOk (rules_of (map srule_means rs)).
Proof.
  intros lead rs Hlead Hrs.
  assert (Hok : vsheet_ok (ssheet rs)).
  { unfold vsheet_ok, ssheet. apply Forall_forall. intros x Hx. apply in_map_iff in Hx.
    destruct Hx as (r & <- & Hin). rewrite Forall_forall in Hrs. apply srule_vok, Hrs, Hin. }
  rewrite (variant_rules lead _ Hlead Hok). unfold vsheet_meaning. rewrite rules_of_clean.
  f_equal. f_equal. clear Hok. induction Hrs as [|r rs Hr Hrs IH]; [reflexivity|].
  unfold ssheet, vsheet_raw in *. cbn [map flat_map app]. rewrite IH, (srule_raw r Hr). reflexivity.
Qed.
(* two sheets that differ only in the spelling of their declarations (flags included) give the
   same rules *)
Theorem spelled_sheets_agree : forall lead1 rs1 lead2 rs2,
  wsm lead1 -> Forall srule_ok rs1 -> wsm lead2 -> Forall srule_ok rs2 ->
  map srule_means rs1 = map srule_means rs2 ->
  parse_css_rules (lead1 ++ print_vsheet (ssheet rs1)) = parse_css_rules (lead2 ++ print_vsheet (ssheet rs2)).
Proof.
  intros lead1 rs1 lead2 rs2 H1 Hr1 H2 Hr2 E.
  rewrite (spelled_sheet_rules lead1 rs1 H1 Hr1), (spelled_sheet_rules lead2 rs2 H2 Hr2), E. reflexivity.
Qed.
Print Assumptions parse_rule_spelled.
Print Assumptions spelled_sheet_rules.
Print Assumptions spelled_sheets_agree.

(* ------------------------------------------------------------------ *)
(* 5. non-vacuity *)
From Coq Require String Ascii.
Import String.StringSyntax.

Definition cmt0 : text := of_ascii [47; 42; 42; 47].                         (* /**/ *)
Lemma cmt0_wsm : wsm cmt0.
Proof. apply (wsm_comment [] []); [reflexivity|apply wsm_nil]. Qed.
Lemma sp1_wsm : wsm sp1.
Proof. unfold sp1. apply wsm_ws; [reflexivity|apply wsm_nil]. Qed.

Definition ex_red : declaration := mkdecl (DColor 255 0 0) true.
Definition wsp0 : wsp2 := lift_wsp (mkwsp [] [] [] [] [] [] [] [] [] []).
(* p{color:#ff0000 ! important} *)
Definition ex_r1 : srule :=
  mksrule wsp0 [sel_of "p"] [] []
    [mksdecl ex_red (mkspelling (s2l "color") [] [] (s2l "ff0000") sp1 (s2l "important")) sp1 [] []].
(* p{color:#ff0000!/**/IMPORTANT ;} *)
Definition ex_r2 : srule :=
  mksrule wsp0 [sel_of "p"] [] []
    [mksdecl ex_red (mkspelling (s2l "color") [] [] (s2l "ff0000") [] (s2l "IMPORTANT")) cmt0 sp1 [[]]].
(* p{color:#ff0000 !important}   the canonical flag *)
Definition ex_r0 : srule :=
  mksrule wsp0 [sel_of "p"] [] []
    [mksdecl ex_red (mkspelling (s2l "color") [] [] (s2l "ff0000") sp1 (s2l "important")) [] [] []].
(* p{ Color : #FF0000 /**/ ! /**/ Important /**/ ; ; display:none!<newline>important} *)
Definition ex_r3 : srule :=
  mksrule wsp0 [sel_of "p"] sp1 []
    [mksdecl ex_red (mkspelling (s2l "Color") sp1 sp1 (s2l "FF0000") (sp1 ++ cmt0 ++ sp1) (s2l "Important"))
             (sp1 ++ cmt0 ++ sp1) (sp1 ++ cmt0 ++ sp1) [sp1; sp1];
     mksdecl (mkdecl (DDisplay true) true)
             (mkspelling (s2l "display") [] [] (s2l "none") [] (s2l "important")) (of_ascii [10]) [] []].

Example ex_texts :
  print_vrule (srule_v ex_r1) = css "p{color:#ff0000 ! important}" /\
  print_vrule (srule_v ex_r2) = css "p{color:#ff0000!/**/IMPORTANT ;}" /\
  print_vrule (srule_v ex_r0) = css "p{color:#ff0000 !important}" /\
  print_vrule (srule_v ex_r3) =
    css "p{ Color : #FF0000 /**/ ! /**/ Important /**/ ; ; display:none!" ++ of_ascii [10] ++ css "important}".
Proof. repeat split; vm_compute; reflexivity. Qed.

Ltac wsm_tac2 :=
  repeat first [apply wsm_nil | exact sp1_wsm | exact cmt0_wsm | apply wsm_app
               | apply wsm_ws; [reflexivity|]].
Ltac sdecl_tac :=
  unfold sdecl_ok; cbn [sd_d sd_sp sd_w4 sd_pre sd_semis];
  split; [reflexivity|split; [repeat split; try (vm_compute; reflexivity); wsm_tac2
                             |split; [wsm_tac2|split; [wsm_tac2|
                                repeat (apply Forall_cons; [wsm_tac2|]); apply Forall_nil]]]].
Ltac srule_tac :=
  unfold srule_ok; cbn [sr_ws sr_sels sr_open sr_lead sr_decls];
  split; [apply wsp0_ok|split; [discriminate|split; [reflexivity|split; [wsm_tac2|split; [apply Forall_nil|
    split; [repeat (apply Forall_cons; [sdecl_tac|]); apply Forall_nil
           |cbn [map seps_ok sd_entry e_semis]; repeat split; discriminate]]]]]].

Example ex_rules_ok : srule_ok ex_r0 /\ srule_ok ex_r1 /\ srule_ok ex_r2 /\ srule_ok ex_r3.
Proof. split; [|split; [|split]]; srule_tac. Qed.

(* by the theorem: the three spellings (and the fourth, with another declaration removed from the
   comparison) parse to the same rule set ... *)
Example ex_same_ruleset :
  pval (parse_ruleset (css "p{color:#ff0000 ! important}")) = Some (mkcrs [sel_of "p"] [ex_red]) /\
  pval (parse_ruleset (css "p{color:#ff0000!/**/IMPORTANT ;}")) = Some (mkcrs [sel_of "p"] [ex_red]) /\
  pval (parse_ruleset (css "p{color:#ff0000 !important}")) = Some (mkcrs [sel_of "p"] [ex_red]).
Proof.
  destruct ex_rules_ok as (H0 & H1 & H2 & _). destruct ex_texts as (T1 & T2 & T0 & _).
  rewrite <- T1, <- T2, <- T0.
  rewrite <- (app_nil_r (print_vrule (srule_v ex_r1))), <- (app_nil_r (print_vrule (srule_v ex_r2))),
    <- (app_nil_r (print_vrule (srule_v ex_r0))).
  rewrite (parse_rule_spelled ex_r1 [] H1), (parse_rule_spelled ex_r2 [] H2), (parse_rule_spelled ex_r0 [] H0).
  repeat split.
Qed.
Example ex_same_rules :
  parse_css_rules (css "p{color:#ff0000 ! important}") = parse_css_rules (css "p{color:#ff0000 !important}") /\
  parse_css_rules (css "p{color:#ff0000!/**/IMPORTANT ;}") = parse_css_rules (css "p{color:#ff0000 !important}").
Proof.
  destruct ex_rules_ok as (H0 & H1 & H2 & _). destruct ex_texts as (T1 & T2 & T0 & _).
  rewrite <- T1, <- T2, <- T0. split.
  - apply (spelled_sheets_agree [] [ex_r1] [] [ex_r0] wsm_nil); auto using wsm_nil.
  - apply (spelled_sheets_agree [] [ex_r2] [] [ex_r0] wsm_nil); auto using wsm_nil.
Qed.
(* ... and by computation (a check of the statements themselves), with the flag really set *)
Example ex_computed :
  parse_css_rules (css "p{color:#ff0000 ! important}") = parse_css_rules (css "p{color:#ff0000 !important}") /\
  parse_css_rules (css "p{color:#ff0000!/**/IMPORTANT ;}") = parse_css_rules (css "p{color:#ff0000 !important}") /\
  parse_css_rules (css "p{color:#ff0000 !important}") <> parse_css_rules (css "p{color:#ff0000}") /\
  pval (parse_ruleset (print_vrule (srule_v ex_r3))) =
    Some (mkcrs [sel_of "p"] [ex_red; mkdecl (DDisplay true) true]) /\
  pval (parse_declaration (css "color:#ff0000 !important}")) = Some ex_red.
Proof.
  split; [vm_compute; reflexivity|split; [vm_compute; reflexivity|split; [|split; vm_compute; reflexivity]]].
  vm_compute. discriminate.
Qed.

(* value level: flag_parse_value on a value of several atoms  `1px solid RED /**/ ! /**/ ImPortant /**/ ;x` *)
Definition ex_val : atoms := [([], ADim (s2l "1") (s2l "px")); (sp1, AIdent (s2l "solid")); (sp1, AIdent (s2l "RED"))].
Example ex_value :
  parse_value (css "1px solid RED/**/!/**/ImPortant/**/;x")
  = POk ([TDimension (css "1") (css "px"); TIdent (css "solid"); TIdent (css "red")], true) (css "/**/;x").
Proof.
  assert (Ht : css "1px solid RED/**/!/**/ImPortant/**/;x"
               = print_atoms ex_val ++ cmt0 ++ of_ascii [33] ++ cmt0 ++ of_ascii (s2l "ImPortant") ++
                 cmt0 ++ of_ascii [59] ++ css "x") by (vm_compute; reflexivity).
  rewrite Ht.
  rewrite (flag_parse_value_trailing ex_val cmt0 cmt0 (s2l "ImPortant") cmt0 59 (css "x"));
    try exact cmt0_wsm; try (vm_compute; reflexivity); [|auto].
  unfold ex_val. repeat (apply Forall_cons; [cbn [fst snd]; split; [wsm_tac2|vm_compute; reflexivity]|]).
  apply Forall_nil.
Qed.

(* NOT the flag: `!importantx`, `! important x`, `!important` not at the end, `! im portant`,
   `important` without `!`; and a flag in the middle stays a token of the value *)
Example ex_not_flag :
  pval (parse_value (css "#ff0000 !importantx}")) =
    Some ([THash (css "ff0000"); TDelim 33; TIdent (css "importantx")], false) /\
  pval (parse_value (css "#ff0000 ! important x}")) =
    Some ([THash (css "ff0000"); TDelim 33; TIdent (css "important"); TIdent (css "x")], false) /\
  pval (parse_value (css "#ff0000 !important 1}")) =
    Some ([THash (css "ff0000"); TDelim 33; TIdent (css "important"); TNumber (css "1")], false) /\
  pval (parse_value (css "#ff0000 !im portant}")) =
    Some ([THash (css "ff0000"); TDelim 33; TIdent (css "im"); TIdent (css "portant")], false) /\
  pval (parse_value (css "#ff0000 important}")) =
    Some ([THash (css "ff0000"); TIdent (css "important")], false) /\
  (* so those declarations are not important (and not even colours) *)
  pval (parse_declaration (css "color:#ff0000 !importantx}")) = Some (mkdecl DUnknown false) /\
  pval (parse_declaration (css "color:#ff0000 ! important x}")) = Some (mkdecl DUnknown false) /\
  (* only ONE flag is removed *)
  pval (parse_value (css "red !important ! IMPORTANT ;")) =
    Some ([TIdent (css "red"); TDelim 33; TIdent (css "important")], true).
Proof. repeat split; vm_compute; reflexivity. Qed.

(* Observations (not covered by the theorems: identifiers with escapes are outside CssVariants'
   atoms).  The keyword written with a hex escape `!\69mportant` is the flag in the model (as in
   CSS); but when the escape is ended by the optional single white space CSS allows,
   `!\69 mportant`, the model's ident_escape does not consume that white space and the keyword
   falls apart into `i` and `mportant`: not the flag. *)
Example observation_escaped_keyword :
  pval (parse_value (css "red !\69mportant}")) = Some ([TIdent (css "red")], true) /\
  pval (parse_value (css "red !\69 mportant}")) =
    Some ([TIdent (css "red"); TDelim 33; TIdent (css "i"); TIdent (css "mportant")], false).
Proof. split; vm_compute; reflexivity. Qed.
