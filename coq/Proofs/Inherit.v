(* Proofs/Inherit.v -- properties C19 (last clause: "the colour of a piece of text is that of
   the nearest enclosing element with a winning colour declaration") and C09 ("every piece of
   text carries the annotations of the elements that enclose it") at the level of the
   render-tree model (Render.v).  Partial correctness (Ok outcome), for ALL render trees,
   decorators, options and states.  Builds on Proofs/AnnBalance.v (tag invariants sub_Q of every
   sub-renderer operation, apply_style/unwind) and redoes the induction on the tree with a set
   of tags that depends on the position in the tree.

   DEFINITIONS (section 1)
     pe = rinfo * cstyle           a path element; rows and cells of a table are path elements
                                   (ITableRow r, row style), (ITableCell c, cell style)
     rkids i                       the children render_node renders (rows of a table, cells of a
                                   row, content of a cell; none for <sup>digits</sup>)
     path_from e p                 p is a path e = p0, p1 in rkids p0, ... in the tree e
     own_ann d i                   the annotation pushed for the content of em / strong / s /
                                   code / link / dt (emphasis) / sup / image
     enclosing_anns d p            for every node of p, outermost first: style_anns d sty
                                   (foreground, background; [] if the decorator has no colours)
                                   then own_ann
     path_tag d B pre0 p t         t is a tag made for the LAST node of p when the path starts
                                   with stack B (pre0: inside <pre>).  With X = B ++
                                   enclosing_anns d p and inpre = pre0 or some node of p is <pre>:
         inline text (text of a leaf, decorator affixes):  X, or X ++ [Preformat] iff inpre
         block structure (heading/quote/list/dd prefix, table borders; row: separators, cell
           padding, border below the row):                  X
         footnote marker [n] of a link:  X without the link's own annotation (+ Preformat)
     tree_tag d B pre0 e t         exists p, path_from e p /\ path_tag d B pre0 p t

   MAIN THEOREMS (section 4), no hypotheses on the input
     render_node_inherit (predicate transformer):
        Q [] -> (forall t, tree_tag d (ann_stack s) (0 <? pre_depth s) (pe_of n) t -> Q t) ->
        render_node d mw n st = Ok st' -> stack st = s :: rest -> sub_Q Q s ->
        exists s', stack st' = s' :: rest /\ meta_of s' = meta_of s /\ sub_Q Q s'
        (render_node_inherit_new: every stored tag is old, [] (block padding), or a tree_tag).
     tree_tag_inv / tree_tag_child / tree_tag_at_path: tree_tag of a node = path_tag of the
        node itself + tree_tag of its rendered children under B ++ pe_anns d node; the subtree
        at the end of a path p ++ [c] only makes tags of paths extending p.
     text_leaf_at_path, text_leaf_render: a text leaf (text, image, <sup>digits</sup>) at the end
        of p ++ [leaf] adds EXACTLY B ++ enclosing_anns d (p ++ [leaf]) (+ Preformat iff inpre).
     render_tree_inherit: every tag in the result of render_tree is [] (padding), [ADefault]
        (footnote list) or path_tag d [] false p t for a path p from the root.
     path_tag_colour, render_tree_colour_inherit, text_leaf_colour, no_colour_iff
        (hypothesis deco_plain d: the decorator's own annotations are not colour annotations;
        proved for rich/plain/trivial): the LAST AColour / ABg of such a tag is the colour of
        the nearest node of the path (the node itself first, then its ancestors) whose style
        has a colour; there is none iff no node of the path has one.
     What "stems from" means here: tags carry no provenance, so the statement is the
     compositional one the tag invariants of AnnBalance allow -- rendering the subtree at the
     end of a path only ADDS tags of paths through it, a leaf exactly its own -- not "this
     character of the output came from that leaf" (that needs the character labels; see
     RenderConserve for the characters).
     Not done: cstyle's colour field is not connected to computed_style (every element node
     gets `computed`, but insert_child / wrap_pseudo / the table constructors make that a
     DOM-level structural proof, not a cheap one); the cascade itself is CascadeProof.

   OBSERVATIONS (section 6): O1 thead/tbody style dropped (known C20 finding, reproduced);
   O2 block structure carries the annotations of the node that makes it (bullet: the list's,
   not the item's colour; cell padding / separators / lower border: the row's, not the cell's
   background; upper table border: the table's); O3 <sup>digits</sup> ignores the style of its
   text child (model only: text nodes always get cstyle0 from the DOM). *)
From H2T Require Import Base Tagged Wrap Sub Css Dom Render Api.
From H2T Require Import Proofs.RenderWidth Proofs.AnnBalance.
From Coq Require Import Lia ZifyN ZifyBool ZifyNat.

Local Arguments N.add : simpl never.
Local Arguments N.sub : simpl never.
Local Arguments N.mul : simpl never.
Local Arguments N.div : simpl never.
Local Arguments N.modulo : simpl never.
Local Arguments N.leb : simpl never.
Local Arguments N.ltb : simpl never.
Local Arguments N.eqb : simpl never.
Local Arguments N.min : simpl never.
Local Arguments N.max : simpl never.
Local Arguments N.to_nat : simpl never.
Local Arguments N.of_nat : simpl never.
Local Open Scope N_scope.

(* ================================================================== *)
(* 1. Paths in a render tree and the annotations that enclose a path    *)
(* ================================================================== *)

(* A path element: a node without regard to its position, (info, style).  Table rows and
   cells are path elements too: a row is (ITableRow r, row style), a cell is
   (ITableCell c, cell style) -- render_node applies their styles like those of a node. *)
Definition pe : Type := (rinfo * cstyle)%type.
Definition pe_of (n : rnode) : pe := (rn_info n, rn_style n).
Definition pe_row (r : rrow) : pe := (ITableRow r, row_style r).
Definition pe_cell (c : rcell) : pe := (ITableCell c, cell_style c).

(* The children render_node renders for a node.  <sup> with only ASCII digits renders the
   superscript digits itself, not its text child. *)
Definition rkids (i : rinfo) : list pe :=
  match i with
  | IText _ | IImg _ _ | IBreak | IFragStart _ => []
  | IContainer cs | ILink _ cs | IEm cs | IStrong cs | IStrikeout cs | ICode cs | IBlock cs
  | IHeader _ cs | IDiv cs | IBlockQuote cs | IUl cs | IOl _ cs | IDl cs | IDt cs | IDd cs
  | IListItem cs => map pe_of cs
  | ISup cs => match sup_digits cs with Some _ => [] | None => map pe_of cs end
  | ITable rows _ => map pe_row rows
  | ITableBody _ => []
  | ITableRow r => map pe_cell (row_cells r)
  | ITableCell c => map pe_of (cell_content c)
  end.

(* The annotation an inline element pushes for its content (render_node: start_emphasis,
   start_strong, start_strikeout, start_code, sub_start_link, start_superscript; <dt> is
   rendered emphasised; an image's alternative text carries the image annotation). *)
Definition own_ann (d : deco) (i : rinfo) : tag :=
  match i with
  | ILink href _ => [snd (d_link_start d href)]
  | IEm _ | IDt _ => [snd (d_em_start d)]
  | IStrong _ => [snd (d_strong_start d)]
  | IStrikeout _ => [snd (d_strike_start d)]
  | ICode _ => [snd (d_code_start d)]
  | IImg src title => [snd (d_image d src title)]
  | ISup cs => match sup_digits cs with Some _ => [] | None => [snd (d_sup_start d)] end
  | _ => []
  end.

(* what one node contributes: the colour annotations of its style (foreground, then
   background; nothing for a decorator without colours), then its own annotation *)
Definition pe_anns (d : deco) (e : pe) : tag := style_anns d (snd e) ++ own_ann d (fst e).

(* THE FUNCTION OF THE TASK: the annotations enclosing the end of a path (outermost first) *)
Definition enclosing_anns (d : deco) (p : list pe) : tag := flat_map (pe_anns d) p.

Lemma enclosing_anns_app d p q : enclosing_anns d (p ++ q) = enclosing_anns d p ++ enclosing_anns d q.
Proof. unfold enclosing_anns. apply flat_map_app. Qed.

Lemma enclosing_anns_cons d e p : enclosing_anns d (e :: p) = pe_anns d e ++ enclosing_anns d p.
Proof. reflexivity. Qed.

(* a path that starts at node e and follows rendered children *)
Inductive path_from : pe -> list pe -> Prop :=
| pf_one e : path_from e [e]
| pf_cons e c p : In c (rkids (fst e)) -> path_from c p -> path_from e (e :: p).

Lemma path_from_nonempty e p : path_from e p -> p <> [].
Proof. intros H. destruct H; discriminate. Qed.

Lemma path_from_app e p c q :
  path_from e (p ++ [c]) -> path_from c q -> path_from e (p ++ q).
Proof.
  revert e. induction p as [|x p IH]; intros e H Hq.
  - cbn [app] in *. inversion H as [e0|e0 c0 p0 Hin Hp]; subst.
    + exact Hq.
    + apply path_from_nonempty in Hp. congruence.
  - cbn [app] in *. inversion H as [e0 E|e0 c0 p0 Hin Hp]; subst.
    + destruct p; discriminate.
    + apply pf_cons with (c := c0); [exact Hin|]. apply IH; assumption.
Qed.

(* is some node of the path a <pre> (cs_internal_pre)? *)
Definition path_pre (p : list pe) : bool := existsb (fun e => cs_internal_pre (snd e)) p.

(* the last node of a path *)
Definition last_pe (p : list pe) : pe := last p (IBreak, cstyle0).

(* kinds of nodes *)
(* leaves that add document text: text, image (alternative text), <sup>digits</sup> *)
Definition text_leaf (i : rinfo) : bool :=
  match i with
  | IText _ | IImg _ _ => true
  | ISup cs => match sup_digits cs with Some _ => true | None => false end
  | _ => false
  end.
(* nodes that add block structure of their own: a prefix on the lines of their content
   (heading, quote, list items of ul/ol, dd), table borders (table), column separators,
   cell padding and row borders (row) *)
Definition block_struct (i : rinfo) : bool :=
  match i with
  | IHeader _ _ | IBlockQuote _ | IUl _ | IOl _ _ | IDd _ | ITable _ _ | ITableRow _ => true
  | _ => false
  end.
Definition is_link (i : rinfo) : bool := match i with ILink _ _ => true | _ => false end.

(* inline text added under stack X: exactly X, or X + Preformat(first/continuation) in <pre> *)
Definition with_pre (d : deco) (b : bool) (X t : tag) : Prop :=
  if b then t = X ++ [d_pre_first d] \/ t = X ++ [d_pre_cont d] else t = X.

(* The tags made for the node at the end of path p (B = annotation stack at the start of the
   path, pre0 = inside <pre> at the start of the path):
   - inline text (the text of a leaf; the decorator's opening/closing text of an inline
     element): B ++ enclosing_anns d p, with Preformat inside <pre>;
   - block structure (prefixes, borders, separators, cell padding): B ++ enclosing_anns d p;
   - the footnote marker [n] of a link: the link's own annotation is already popped. *)
Definition path_tag (d : deco) (B : tag) (pre0 : bool) (p : list pe) (t : tag) : Prop :=
  let b := pre0 || path_pre p in
  with_pre d b (B ++ enclosing_anns d p) t
  \/ (block_struct (fst (last_pe p)) = true /\ t = B ++ enclosing_anns d p)
  \/ (is_link (fst (last_pe p)) = true /\
      with_pre d b (B ++ enclosing_anns d (removelast p) ++ style_anns d (snd (last_pe p))) t).

(* the tags of a subtree: those of all paths in it *)
Definition tree_tag (d : deco) (B : tag) (pre0 : bool) (e : pe) (t : tag) : Prop :=
  exists p, path_from e p /\ path_tag d B pre0 p t.

Lemma last_pe_cons e p : p <> [] -> last_pe (e :: p) = last_pe p.
Proof. intros H. unfold last_pe. destruct p; [congruence|reflexivity]. Qed.

Lemma removelast_cons {A} (e : A) p : p <> [] -> removelast (e :: p) = e :: removelast p.
Proof. intros H. destruct p; [congruence|reflexivity]. Qed.

Lemma path_tag_cons_iff d B pre0 e p t :
  p <> [] ->
  (path_tag d B pre0 (e :: p) t <->
   path_tag d (B ++ pe_anns d e) (pre0 || cs_internal_pre (snd e)) p t).
Proof.
  intros Hp. unfold path_tag. rewrite (last_pe_cons e p Hp), (removelast_cons e p Hp).
  rewrite !enclosing_anns_cons. cbn [path_pre existsb]. fold (path_pre p).
  rewrite <- ?app_assoc. rewrite <- orb_assoc. reflexivity.
Qed.

Lemma path_tag_cons d B pre0 e p t :
  p <> [] ->
  path_tag d (B ++ pe_anns d e) (pre0 || cs_internal_pre (snd e)) p t ->
  path_tag d B pre0 (e :: p) t.
Proof. intros Hp H. apply path_tag_cons_iff; assumption. Qed.

(* the tags of a child's subtree are tags of the parent's subtree *)
Lemma tree_tag_child d B pre0 e c t :
  In c (rkids (fst e)) ->
  tree_tag d (B ++ pe_anns d e) (pre0 || cs_internal_pre (snd e)) c t ->
  tree_tag d B pre0 e t.
Proof.
  intros Hin (p & Hp & Ht). exists (e :: p). split; [apply pf_cons with (c := c); assumption|].
  apply path_tag_cons; [eapply path_from_nonempty, Hp|exact Ht].
Qed.

Lemma tree_tag_self d B pre0 e t : path_tag d B pre0 [e] t -> tree_tag d B pre0 e t.
Proof. intros H. exists [e]. split; [apply pf_one|exact H]. Qed.

(* conversely: a tag of the subtree is a tag of the node itself or of a child's subtree *)
Lemma tree_tag_inv d B pre0 e t :
  tree_tag d B pre0 e t ->
  path_tag d B pre0 [e] t \/
  exists c, In c (rkids (fst e)) /\
            tree_tag d (B ++ pe_anns d e) (pre0 || cs_internal_pre (snd e)) c t.
Proof.
  intros (p & Hp & Ht). inversion Hp as [e0|e0 c p0 Hin Hp0]; subst; [left; exact Ht|].
  right. exists c. split; [exact Hin|]. exists p0. split; [exact Hp0|].
  apply path_tag_cons_iff; [eapply path_from_nonempty, Hp0|exact Ht].
Qed.

(* the subtree at the end of a path p ++ [c], rendered under the annotations enclosing p,
   only makes tags of paths that extend p *)
Lemma path_tag_app d B pre0 p q t :
  q <> [] ->
  path_tag d (B ++ enclosing_anns d p) (pre0 || path_pre p) q t -> path_tag d B pre0 (p ++ q) t.
Proof.
  intros Hq. revert B pre0. induction p as [|e p IH]; intros B pre0 H.
  - cbn [app enclosing_anns flat_map path_pre existsb] in *.
    rewrite app_nil_r, orb_false_r in H. exact H.
  - cbn [app]. apply path_tag_cons; [destruct p; [exact Hq|discriminate]|]. apply IH.
    rewrite enclosing_anns_cons in H. cbn [path_pre existsb] in H. fold (path_pre p) in H.
    rewrite <- app_assoc. rewrite <- orb_assoc. exact H.
Qed.

Lemma tree_tag_at_path d B pre0 e p c t :
  path_from e (p ++ [c]) ->
  tree_tag d (B ++ enclosing_anns d p) (pre0 || path_pre p) c t -> tree_tag d B pre0 e t.
Proof.
  intros Hp (q & Hq & Ht). exists (p ++ q). split; [eapply path_from_app; eassumption|].
  apply path_tag_app; [eapply path_from_nonempty, Hq|exact Ht].
Qed.

(* a text leaf (no rendered children, neither block structure nor a link): its subtree has
   exactly the tag B ++ colours of its style (++ the image annotation) (+ Preformat) *)
Lemma tree_tag_leaf d B pre0 i sty t :
  text_leaf i = true ->
  (tree_tag d B pre0 (i, sty) t <->
   with_pre d (pre0 || cs_internal_pre sty) (B ++ style_anns d sty ++ own_ann d i) t).
Proof.
  intros Hl.
  assert (Hk : rkids i = []).
  { destruct i; try discriminate; try reflexivity. cbn [text_leaf] in Hl. cbn [rkids].
    destruct (sup_digits cs); [reflexivity|discriminate]. }
  assert (Hb : block_struct i = false) by (destruct i; try discriminate; reflexivity).
  assert (Hn : is_link i = false) by (destruct i; try discriminate; reflexivity).
  assert (E : forall x, path_tag d B pre0 [(i, sty)] x <->
              with_pre d (pre0 || cs_internal_pre sty) (B ++ style_anns d sty ++ own_ann d i) x).
  { intros x. unfold path_tag, last_pe. cbn [last fst snd path_pre existsb enclosing_anns flat_map].
    rewrite orb_false_r, app_nil_r. unfold pe_anns. cbn [fst snd]. rewrite Hb, Hn.
    split; [intros [H|[[H _]|[H _]]]; [exact H|discriminate|discriminate]|intros H; left; exact H]. }
  split.
  - intros H. apply tree_tag_inv in H. destruct H as [H|(c & Hin & _)]; [apply E, H|].
    cbn [fst] in Hin. rewrite Hk in Hin. destruct Hin.
  - intros H. apply tree_tag_self, E, H.
Qed.

(* ================================================================== *)
(* 2. Steps of the renderer, indexed by the meta part of the top        *)
(*    sub-renderer before and after                                     *)
(* ================================================================== *)

Definition main_tag_m (d : deco) (m : meta) : tag :=
  if 0 <? m_pre m then m_ann m ++ [d_pre_first d] else m_ann m.
Definition cont_tag_m (d : deco) (m : meta) : tag :=
  if 0 <? m_pre m then m_ann m ++ [d_pre_cont d] else m_ann m.

Section Frame.
  Variable Q : tag -> Prop.
  Hypothesis Qnil : Q [].
  Variable d : deco.
  Variable mw : N.

  (* the tags of inline text added when the meta part is m *)
  Definition Qm (m : meta) : Prop := Q (main_tag_m d m) /\ Q (cont_tag_m d m).

  (* st -> st': only the top sub-renderer changes, its meta part goes from m to m', and "all
     stored tags satisfy Q" is kept *)
  Definition stX (m m' : meta) (st st' : rstate) : Prop :=
    forall s rest, stack st = s :: rest -> meta_of s = m ->
      exists s', stack st' = s' :: rest /\ meta_of s' = m' /\ (sub_Q Q s -> sub_Q Q s').

  Lemma stX_refl m st : stX m m st st.
  Proof. intros s rest E M. exists s. auto. Qed.

  Lemma stX_trans m1 m2 m3 a b c : stX m1 m2 a b -> stX m2 m3 b c -> stX m1 m3 a c.
  Proof.
    intros H1 H2 s rest E M. destruct (H1 s rest E M) as (s1 & E1 & M1 & Q1).
    destruct (H2 s1 rest E1 M1) as (s2 & E2 & M2 & Q2). exists s2. auto.
  Qed.

  Lemma stX_eq m1 m2 m2' a b : m2 = m2' -> stX m1 m2 a b -> stX m1 m2' a b.
  Proof. intros <-. auto. Qed.

  Lemma stX_same_stack m st st' : stack st' = stack st -> stX m m st st'.
  Proof. intros E s rest Es M. exists s. rewrite E. auto. Qed.

  Lemma stB_X g m st st' : stB Q g st st' -> stX m (g m) st st'.
  Proof.
    intros H s rest E M. destruct (H s rest E) as (s1 & E1 & M1 & Q1). exists s1.
    rewrite <- M. auto.
  Qed.

  (* an operation f on the top sub-renderer: effect g on the meta part; keeps the tag
     invariant under the premise P *)
  Lemma with_top_X (P : Prop) g f m st st' :
    (forall s s', f s = Ok s' -> meta_of s' = g (meta_of s)) ->
    (forall s s', f s = Ok s' -> meta_of s = m -> P -> sub_Q Q s -> sub_Q Q s') ->
    P -> with_top st f = Ok st' -> stX m (g m) st st'.
  Proof.
    intros Hg Hq p H s rest Es M. destruct (with_top_inv _ _ _ H) as (s0 & rest0 & s' & Es0 & Ef & ->).
    rewrite Es in Es0. injection Es0 as <- <-. exists s'. cbn [stack]. split; [reflexivity|].
    split; [rewrite (Hg _ _ Ef), M; reflexivity|]. intros Hs. eapply Hq; eassumption.
  Qed.

  Lemma Qm_main s m : meta_of s = m -> Qm m -> Q (main_tag_of d s) /\ Q (cont_tag_of d s).
  Proof. intros <- H. exact H. Qed.

  (* ---- the operations of render_node ---- *)
  Lemma X_inline_text m t st st' : Qm m -> inline_text d st t = Ok st' -> stX m m st st'.
  Proof.
    intros Hm H. unfold inline_text in H.
    apply (with_top_X (Qm m) idm (fun s => add_inline_text d s t)); [| |exact Hm|exact H].
    - intros s s' Hf. eapply meta_add_inline_text, Hf.
    - intros s s' Hf M P Hs. destruct (Qm_main s m M P) as [A B].
      eapply (add_inline_text_Q Q Qnil); eassumption.
  Qed.

  Lemma start_deco_X p m s s' :
    start_deco d s p = Ok s' -> meta_of s = m -> Qm (m_push (snd p) m) -> sub_Q Q s -> sub_Q Q s'.
  Proof.
    intros Hf M P Hs. unfold start_deco in Hf.
    assert (M1 : meta_of (push_ann s (snd p)) = m_push (snd p) m) by (rewrite <- M; reflexivity).
    destruct (Qm_main _ _ M1 P) as [A B].
    eapply (add_inline_text_Q Q Qnil); [|exact A|exact B|exact Hf].
    apply (sub_Q_body Q s); [reflexivity..|exact Hs].
  Qed.

  Lemma end_deco_X e m s s' :
    end_deco d s e = Ok s' -> meta_of s = m -> Qm m -> sub_Q Q s -> sub_Q Q s'.
  Proof.
    intros Hf M P Hs. destruct (Qm_main s m M P) as [A B].
    unfold end_deco in Hf. bind_inv Hf s1 H1. ok_inv Hf.
    apply (sub_Q_body Q s1); [reflexivity..|]. eapply (add_inline_text_Q Q Qnil); eassumption.
  Qed.

  Lemma X_start_deco p m st st' :
    Qm (m_push (snd p) m) -> with_top st (fun s => start_deco d s p) = Ok st' ->
    stX m (m_push (snd p) m) st st'.
  Proof.
    intros Hm H.
    apply (with_top_X (Qm (m_push (snd p) m)) (m_push (snd p)) (fun s => start_deco d s p));
      [| |exact Hm|exact H].
    - intros s s' Hf. eapply meta_start_deco, Hf.
    - intros s s' Hf M P Hs. eapply start_deco_X; eassumption.
  Qed.

  Lemma X_end_deco e m st st' :
    Qm m -> with_top st (fun s => end_deco d s e) = Ok st' -> stX m (m_pop m) st st'.
  Proof.
    intros Hm H.
    apply (with_top_X (Qm m) m_pop (fun s => end_deco d s e)); [| |exact Hm|exact H].
    - intros s s' Hf. eapply meta_end_deco, Hf.
    - intros s s' Hf M P Hs. eapply end_deco_X; eassumption.
  Qed.

  Lemma X_start_strikeout m st st' :
    Qm (m_push (snd (d_strike_start d)) m) -> with_top st (start_strikeout d) = Ok st' ->
    stX m (m_filt_inc (m_push (snd (d_strike_start d)) m)) st st'.
  Proof.
    intros Hm H.
    apply (with_top_X (Qm (m_push (snd (d_strike_start d)) m))
             (fun m => m_filt_inc (m_push (snd (d_strike_start d)) m)) (start_strikeout d));
      [| |exact Hm|exact H].
    - intros s s' Hf. eapply meta_start_strikeout, Hf.
    - intros s s' Hf M P Hs. unfold start_strikeout in Hf. bind_inv Hf s1 H1.
      pose proof (start_deco_X _ _ _ _ H1 M P Hs) as Q1. ok_inv Hf.
      destruct (o_strike (sopts s1)); [|exact Q1]. apply (sub_Q_body Q s1); [reflexivity..|exact Q1].
  Qed.

  Lemma Qm_filt_dec m : Qm m -> Qm (m_filt_dec m).
  Proof. unfold m_filt_dec. destruct (o_strike (m_o m)); auto. Qed.
  Lemma Qm_filt_inc m : Qm m -> Qm (m_filt_inc m).
  Proof. unfold m_filt_inc. destruct (o_strike (m_o m)); auto. Qed.

  Lemma X_end_strikeout m st st' :
    Qm m -> with_top st (end_strikeout d) = Ok st' -> stX m (m_pop (m_filt_dec m)) st st'.
  Proof.
    intros Hm H.
    apply (with_top_X (Qm m) (fun m => m_pop (m_filt_dec m)) (end_strikeout d));
      [| |exact Hm|exact H].
    - intros s s' Hf. eapply meta_end_strikeout, Hf.
    - intros s s' Hf M P Hs. unfold end_strikeout in Hf. bind_inv Hf s1 H1.
      assert (E1 : meta_of s1 = m_filt_dec m /\ sub_Q Q s1).
      { rewrite <- M. unfold m_filt_dec. cbn [m_o meta_of].
        destruct (o_strike (sopts s)); [|ok_inv H1; auto].
        destruct (filter_depth s) as [|n] eqn:E; [discriminate|]. ok_inv H1.
        split; [unfold meta_of; cbn; rewrite E; reflexivity|].
        apply (sub_Q_body Q s); [reflexivity..|exact Hs]. }
      destruct E1 as [M1 Q1]. eapply end_deco_X; [exact Hf|exact M1|apply Qm_filt_dec, P|exact Q1].
  Qed.

  Lemma X_add_image src title m st st' :
    Qm (m_push (snd (d_image d src title)) m) ->
    with_top st (fun s => add_image d s src title) = Ok st' -> stX m m st st'.
  Proof.
    intros Hm H.
    apply (with_top_X (Qm (m_push (snd (d_image d src title)) m)) idm
             (fun s => add_image d s src title)); [| |exact Hm|exact H].
    - intros s s' Hf. eapply meta_add_image, Hf.
    - intros s s' Hf M P Hs. unfold add_image in Hf. bind_inv Hf s1 H1.
      pose proof (start_deco_X (d_image d src title) m s s1 H1 M P Hs) as Q1. ok_inv Hf.
      apply (sub_Q_body Q s1); [reflexivity..|exact Q1].
  Qed.

  Lemma X_start_block m st st' : with_top st start_block = Ok st' -> stX m m st st'.
  Proof.
    intros H. apply (with_top_X True idm start_block); [| |exact I|exact H].
    - intros s s' Hf. eapply meta_start_block, Hf.
    - intros s s' Hf _ _ Hs. eapply (start_block_Q Q Qnil); eassumption.
  Qed.

  Lemma X_new_line m st st' : with_top st new_line = Ok st' -> stX m m st st'.
  Proof.
    intros H. apply (with_top_X True idm new_line); [| |exact I|exact H].
    - intros s s' Hf. eapply meta_flush_wrapping, Hf.
    - intros s s' Hf _ _ Hs. eapply (flush_wrapping_Q Q Qnil); eassumption.
  Qed.

  Lemma X_new_line_hard m st st' : with_top st new_line_hard = Ok st' -> stX m m st st'.
  Proof.
    intros H. apply (with_top_X True idm new_line_hard); [| |exact I|exact H].
    - intros s s' Hf. eapply meta_new_line_hard, Hf.
    - intros s s' Hf _ _ Hs. eapply (new_line_hard_Q Q Qnil); eassumption.
  Qed.

  Lemma X_end_block m st st' : with_top' st end_block = Ok st' -> stX m m st st'.
  Proof.
    intros H. unfold with_top' in H.
    apply (with_top_X True idm (fun s => Ok (end_block s))); [| |exact I|exact H].
    - intros s s' Hf. ok_inv Hf. reflexivity.
    - intros s s' Hf _ _ Hs. ok_inv Hf. apply (sub_Q_body Q s); [reflexivity..|exact Hs].
  Qed.

  Lemma X_record_frag_start name m st st' :
    with_top' st (fun s => record_frag_start s name) = Ok st' -> stX m m st st'.
  Proof.
    intros H. unfold with_top' in H.
    apply (with_top_X True idm (fun s => Ok (record_frag_start s name))); [| |exact I|exact H].
    - intros s s' Hf. ok_inv Hf. reflexivity.
    - intros s s' Hf _ _ Hs. ok_inv Hf. apply record_frag_start_Q, Hs.
  Qed.

  Lemma meta_ann_m s m : meta_of s = m -> ann_stack s = m_ann m.
  Proof. intros <-. reflexivity. Qed.

  (* block structure carries the annotation stack of the sub-renderer it is added to *)
  Lemma X_border w m st st' :
    Q (m_ann m) -> with_top st (fun s => add_horizontal_border_width s w) = Ok st' -> stX m m st st'.
  Proof.
    intros Hm H.
    apply (with_top_X (Q (m_ann m)) idm (fun s => add_horizontal_border_width s w));
      [| |exact Hm|exact H].
    - intros s s' Hf. eapply meta_add_horizontal_border_width, Hf.
    - intros s s' Hf M P Hs. eapply (add_horizontal_border_width_Q Q Qnil); [exact Hs| |exact Hf].
      rewrite (meta_ann_m _ _ M). exact P.
  Qed.

  Lemma X_append_subrender sub first rest_ m st st' :
    Q (m_ann m) -> sub_Q Q sub ->
    with_top st (fun s => append_subrender s sub first rest_) = Ok st' -> stX m m st st'.
  Proof.
    intros Hm Hsub H.
    apply (with_top_X (Q (m_ann m)) idm (fun s => append_subrender s sub first rest_));
      [| |exact Hm|exact H].
    - intros s s' Hf. eapply meta_append_subrender, Hf.
    - intros s s' Hf M P Hs. eapply (append_subrender_Q Q Qnil); [exact Hs|exact Hsub| |exact Hf].
      rewrite (meta_ann_m _ _ M). exact P.
  Qed.

  Lemma X_append_columns subs c m st st' :
    Q (m_ann m) -> Forall (sub_Q Q) subs ->
    with_top st (fun s => append_columns_with_borders s subs c) = Ok st' -> stX m m st st'.
  Proof.
    intros Hm Hsub H.
    apply (with_top_X (Q (m_ann m)) idm (fun s => append_columns_with_borders s subs c));
      [| |exact Hm|exact H].
    - intros s s' Hf. eapply meta_append_columns, Hf.
    - intros s s' Hf M P Hs. eapply (append_columns_Q Q Qnil); [exact Hs|exact Hsub| |exact Hf].
      rewrite (meta_ann_m _ _ M). exact P.
  Qed.

  Lemma X_append_vert_row subs m st st' :
    Q (m_ann m) -> Forall (sub_Q Q) subs ->
    with_top st (fun s => append_vert_row s subs) = Ok st' -> stX m m st st'.
  Proof.
    intros Hm Hsub H.
    apply (with_top_X (Q (m_ann m)) idm (fun s => append_vert_row s subs));
      [| |exact Hm|exact H].
    - intros s s' Hf. eapply meta_append_vert_row, Hf.
    - intros s s' Hf M P Hs. eapply (append_vert_row_Q Q Qnil); [exact Hs|exact Hsub| |exact Hf].
      rewrite (meta_ann_m _ _ M). exact P.
  Qed.

  (* ---- styles ---- *)
  Lemma X_styled m st0 sty st p stb st' :
    apply_style d st0 sty = Ok (st, p) ->
    stX (g_style d sty m) (g_style d sty m) st stb ->
    unwind d p stb = Ok st' -> stX m m st0 st'.
  Proof.
    intros Ha Hb Hu. destruct (apply_style_B Q _ _ _ _ _ Ha) as [-> Ba].
    pose proof (unwind_B Q _ _ _ _ Hu) as Bu.
    eapply stX_trans; [apply stB_X, Ba|]. eapply stX_trans; [exact Hb|].
    eapply stX_eq; [|apply stB_X, Bu]. apply h_g_style.
  Qed.

  (* ---- a nested sub-renderer ---- *)
  Lemma X_scope st tp w st2 sub st3 :
    top st = Ok tp ->
    stX (meta_of (new_sub_renderer tp w)) (meta_of (new_sub_renderer tp w))
        (push_sub st (new_sub_renderer tp w)) st2 ->
    pop_sub st2 = Ok (sub, st3) ->
    stack st3 = stack st /\ sub_Q Q sub.
  Proof.
    intros Ht H Hp.
    destruct (H (new_sub_renderer tp w) (stack st) eq_refl eq_refl) as (s' & E & M & Qp).
    unfold pop_sub in Hp. rewrite E in Hp. injection Hp as <- <-. cbn [stack].
    split; [reflexivity|]. apply Qp, new_sub_renderer_Q.
  Qed.

  Lemma top_meta st tp s rest m : top st = Ok tp -> stack st = s :: rest -> meta_of s = m -> meta_of tp = m.
  Proof. intros Ht E M. unfold top in Ht. rewrite E in Ht. injection Ht as <-. exact M. Qed.

  (* body rendered in a new sub-renderer, then something done with the popped sub-renderer *)
  Lemma X_prefixed m st tp w st2 sub st3 stz :
    top st = Ok tp ->
    (meta_of tp = m ->
     stX (meta_of (new_sub_renderer tp w)) (meta_of (new_sub_renderer tp w))
         (push_sub st (new_sub_renderer tp w)) st2) ->
    pop_sub st2 = Ok (sub, st3) ->
    (sub_Q Q sub -> stX m m st3 stz) ->
    stX m m st stz.
  Proof.
    intros Ht H2 Hp Hrest s rest E M.
    pose proof (top_meta _ _ _ _ _ Ht E M) as Mt.
    destruct (X_scope _ _ _ _ _ _ Ht (H2 Mt) Hp) as (Es & Hq).
    apply (Hrest Hq s rest); [rewrite Es; exact E|exact M].
  Qed.
End Frame.

(* ================================================================== *)
(* 3. The invariant, by induction on the render tree                    *)
(* ================================================================== *)

(* Q contains the tags of the subtree e rendered from meta part m *)
Definition HQ (Q : tag -> Prop) (d : deco) (e : pe) (m : meta) : Prop :=
  forall t, tree_tag d (m_ann m) (0 <? m_pre m) e t -> Q t.

(* mc is a meta part at which the children of e are rendered when e is entered with m: the
   annotation stack grew by what e contributes, and "inside <pre>" is updated *)
Definition child_meta (d : deco) (e : pe) (m mc : meta) : Prop :=
  m_ann mc = m_ann m ++ pe_anns d e /\
  (0 <? m_pre mc) = (0 <? m_pre m) || cs_internal_pre (snd e).

Lemma HQ_same Q d e m m' : m_ann m = m_ann m' -> m_pre m = m_pre m' -> HQ Q d e m -> HQ Q d e m'.
Proof. unfold HQ. intros <- <- H. exact H. Qed.

Lemma HQ_child Q d e m mc c :
  HQ Q d e m -> child_meta d e m mc -> In c (rkids (fst e)) -> HQ Q d c mc.
Proof.
  intros H [A B] Hin t Ht. apply H. apply tree_tag_child with (c := c); [exact Hin|].
  rewrite <- A, <- B. exact Ht.
Qed.

Lemma pre_flag (a : N) (b : bool) : (0 <? a + (if b then 1 else 0)) = (0 <? a) || b.
Proof. destruct b; lia. Qed.

Lemma cm_plain d i sty m : own_ann d i = [] -> child_meta d (i, sty) m (g_style d sty m).
Proof.
  intros E. split.
  - rewrite g_style_ann. unfold pe_anns. cbn [fst snd]. rewrite E, app_nil_r. reflexivity.
  - rewrite g_style_pre. apply pre_flag.
Qed.

Lemma cm_own d i sty m a :
  own_ann d i = [a] -> child_meta d (i, sty) m (m_push a (g_style d sty m)).
Proof.
  intros E. split.
  - cbn [m_push m_ann]. rewrite g_style_ann. unfold pe_anns. cbn [fst snd]. rewrite E.
    rewrite app_assoc. reflexivity.
  - cbn [m_push m_pre]. rewrite g_style_pre. apply pre_flag.
Qed.

Lemma cm_filt d e m mc : child_meta d e m mc -> child_meta d e m (m_filt_inc mc).
Proof. unfold m_filt_inc. destruct (o_strike (m_o mc)); auto. Qed.

Lemma cm_sub d e m tp w :
  child_meta d e m (meta_of tp) -> child_meta d e m (meta_of (new_sub_renderer tp w)).
Proof. intros H. exact H. Qed.

Lemma enclosing_one d e : enclosing_anns d [e] = pe_anns d e.
Proof. unfold enclosing_anns. cbn [flat_map]. apply app_nil_r. Qed.

Lemma path_pre_one e : path_pre [e] = cs_internal_pre (snd e).
Proof. unfold path_pre. cbn [existsb]. apply orb_false_r. Qed.

(* inline text added at a children's meta part: the node's own decorator text, a leaf's text *)
Lemma Qm_of Q d e m mc : HQ Q d e m -> child_meta d e m mc -> Qm Q d mc.
Proof.
  intros H [A B].
  assert (K : forall t, with_pre d (0 <? m_pre mc) (m_ann mc) t -> Q t).
  { intros t Ht. apply H, tree_tag_self. left. rewrite enclosing_one, path_pre_one, <- A, <- B.
    exact Ht. }
  unfold Qm, main_tag_m, cont_tag_m. split; apply K; unfold with_pre;
    destruct (0 <? m_pre mc); auto.
Qed.

(* block structure added by the node *)
Lemma Qstruct_of Q d e m mc :
  HQ Q d e m -> child_meta d e m mc -> block_struct (fst e) = true -> Q (m_ann mc).
Proof.
  intros H [A B] Hb. apply H, tree_tag_self. right. left. unfold last_pe. cbn [last].
  split; [exact Hb|]. rewrite enclosing_one, <- A. reflexivity.
Qed.

(* the footnote marker of a link *)
Lemma Qmarker Q d href cs sty m : HQ Q d (ILink href cs, sty) m -> Qm Q d (g_style d sty m).
Proof.
  intros H.
  assert (K : forall t, with_pre d (0 <? m_pre (g_style d sty m)) (m_ann (g_style d sty m)) t -> Q t).
  { intros t Ht. apply H, tree_tag_self. right. right. unfold last_pe.
    cbn [last removelast fst snd is_link enclosing_anns flat_map]. split; [reflexivity|].
    rewrite path_pre_one. cbn [snd]. rewrite g_style_ann, g_style_pre, pre_flag in Ht.
    cbn [app]. exact Ht. }
  unfold Qm, main_tag_m, cont_tag_m. split; apply K; unfold with_pre;
    destruct (0 <? m_pre (g_style d sty m)); auto.
Qed.

Definition node_X (d : deco) (mw : N) (n : rnode) : Prop :=
  forall (Q : tag -> Prop) m st st', Q [] -> HQ Q d (pe_of n) m -> render_node d mw n st = Ok st' ->
                     stX Q m m st st'.

Section Tree.
  Variable d : deco.
  Variable mw : N.

  Lemma X_kids (Q : tag -> Prop) m cs st st' :
    Forall (node_X d mw) cs -> Q [] -> (forall c, In c cs -> HQ Q d (pe_of c) m) ->
    fold_left (fun acc c => do s <- acc; render_node d mw c s) cs (Ok st) = Ok st' ->
    stX Q m m st st'.
  Proof.
    intros HF Qnil HQs H.
    apply (fold_bind_inv (fun a => stX Q m m st a) (render_node d mw) cs) with (a := st);
      [|apply stX_refl|exact H].
    intros c Hc a a' Ra Hr. eapply stX_trans; [exact Ra|].
    rewrite Forall_forall in HF. apply (HF c Hc Q m a a' Qnil (HQs c Hc) Hr).
  Qed.

  (* start ... children ... end of an inline element with decorator texts *)
  Lemma X_deco (Q : tag -> Prop) (Qnil : Q []) p e_ cs m1 st1 a b c :
    Forall (node_X d mw) cs -> Qm Q d (m_push (snd p) m1) ->
    (forall k, In k cs -> HQ Q d (pe_of k) (m_push (snd p) m1)) ->
    with_top st1 (fun s => start_deco d s p) = Ok a ->
    fold_left (fun acc c => do s <- acc; render_node d mw c s) cs (Ok a) = Ok b ->
    with_top b (fun s => end_deco d s e_) = Ok c ->
    stX Q m1 m1 st1 c.
  Proof.
    intros HF Hm HQs H1 H2 H3.
    eapply stX_trans; [eapply X_start_deco; [exact Qnil|exact Hm|exact H1]|].
    eapply stX_trans; [eapply X_kids; [exact HF|exact Qnil|exact HQs|exact H2]|].
    eapply stX_eq; [|eapply X_end_deco; [exact Qnil|exact Hm|exact H3]]. apply m_pop_push.
  Qed.

  Lemma X_cells_loop (Q : tag -> Prop) (Qnil : Q []) mr : forall cells wsl s2 subs r tp rest,
    Forall (fun c => Forall (node_X d mw) (cell_content c)) cells ->
    (forall c, In c cells -> HQ Q d (pe_cell c) mr) ->
    stack s2 = tp :: rest -> meta_of tp = mr ->
    cells_loop d mw cells wsl s2 subs = Ok r ->
    stack (fst r) = stack s2 /\ (Forall (sub_Q Q) subs -> Forall (sub_Q Q) (snd r)).
  Proof.
    induction cells as [|[n content csty] cells IH]; intros wsl s2 subs r tp rest HF HQs E M H;
      cbn [cells_loop] in H.
    - ok_inv H. cbn [fst snd]. auto.
    - inversion HF as [|? ? HF1 HF2]; subst. cbn [cell_content] in HF1.
      destruct wsl as [|[w|] wsl].
      + ok_inv H. cbn [fst snd]. auto.
      + bind_inv H tp2 Htp. bind_inv H apc Hap. destruct apc as [s4 pcell].
        bind_inv H s5 H5. bind_inv H s6 H6. bind_inv H pp Hpp. destruct pp as [sub s7].
        assert (Etp : tp2 = tp).
        { unfold top in Htp. rewrite E in Htp. injection Htp as <-. reflexivity. }
        subst tp2.
        pose proof (HQs _ (or_introl eq_refl)) as HQc. unfold pe_cell in HQc. cbn [cell_style] in HQc.
        set (mm := meta_of (new_sub_renderer tp w)) in *.
        assert (HQc' : HQ Q d (ITableCell (RCell n content csty), csty) mm)
          by (revert HQc; apply HQ_same; reflexivity).
        assert (T : stX Q mm mm (push_sub s2 (new_sub_renderer tp w)) s6).
        { eapply X_styled; [exact Hap| |exact H6].
          eapply X_kids; [exact HF1|exact Qnil| |exact H5].
          intros k Hk. eapply HQ_child; [exact HQc'|apply cm_plain; reflexivity|].
          cbn [fst rkids cell_content]. apply in_map, Hk. }
        destruct (X_scope Q _ _ _ _ _ _ Htp T Hpp) as (Es & Hq).
        destruct (IH wsl s7 (subs ++ [sub]) r tp rest HF2) as [A B];
          [intros c Hc; apply HQs; right; exact Hc|rewrite Es; exact E|reflexivity|exact H|].
        split; [rewrite A; exact Es|]. intros Hs. apply B.
        apply Forall_app. split; [exact Hs|]. constructor; [exact Hq|constructor].
      + apply (IH wsl s2 subs r tp rest HF2); [intros c Hc; apply HQs; right; exact Hc|exact E|reflexivity|exact H].
  Qed.

  Lemma X_row_body (Q : tag -> Prop) (Qnil : Q []) m vr cw r s s' :
    Forall (fun c => Forall (node_X d mw) (cell_content c)) (row_cells r) ->
    HQ Q d (pe_row r) m ->
    row_body d mw vr cw r s = Ok s' -> stX Q m m s s'.
  Proof.
    intros HF HQr H. destruct r as [rcells rstyle]. cbn [row_cells] in HF. unfold row_body in H.
    unfold pe_row in HQr. cbn [row_style] in HQr.
    bind_inv H apr Hap. destruct apr as [s1 prow]. bind_inv H cws Hcws. bind_inv H rr Hrr.
    destruct rr as [s8 subs]. bind_inv H s9 H9.
    eapply X_styled; [exact Hap| |exact H].
    set (mr := g_style d rstyle m).
    assert (CM : child_meta d (ITableRow (RRow rcells rstyle), rstyle) m mr)
      by (apply cm_plain; reflexivity).
    intros tp1 rest1 E1 M1.
    assert (HQs : forall c, In c rcells -> HQ Q d (pe_cell c) mr).
    { intros c Hc. eapply HQ_child; [exact HQr|exact CM|]. cbn [fst rkids row_cells].
      apply in_map, Hc. }
    destruct (X_cells_loop Q Qnil mr rcells cws s1 [] (s8, subs) tp1 rest1 HF HQs E1 M1 Hrr)
      as [Est Hq].
    cbn [fst snd] in Est, Hq. specialize (Hq (Forall_nil _)).
    pose proof (Qstruct_of Q d _ m mr HQr CM eq_refl) as Hst.
    assert (T : stX Q mr mr s8 s9).
    { destruct vr.
      - eapply X_append_vert_row; [exact Qnil|exact Hst|exact Hq|exact H9].
      - destruct (existsb (fun c => negb (sub_empty c)) subs).
        + eapply X_append_columns; [exact Qnil|exact Hst|exact Hq|exact H9].
        + ok_inv H9. apply stX_refl. }
    apply (T tp1 rest1); [rewrite Est; exact E1|exact M1].
  Qed.

  Ltac start H sz ap st1 ps Hap :=
    let Hsz := fresh "Hsz" in
    bind_inv H sz Hsz; bind_inv H ap Hap; destruct ap as [st1 ps].

  Ltac kid_plain HQ_ Hk :=
    eapply HQ_child; [exact HQ_|apply cm_plain; reflexivity|cbn [fst rkids]; apply in_map, Hk].
  Ltac kid_own HQ_ Hk :=
    eapply HQ_child; [exact HQ_|apply cm_own; reflexivity|cbn [fst rkids]; apply in_map, Hk].

  Lemma node_X_all : forall n, node_X d mw n.
  Proof.
    apply rnode_ind'. intros i sty IH Q m st st' Qnil HQ_ H. unfold pe_of in HQ_.
    cbn [rn_info rn_style] in HQ_.
    destruct i; cbn [direct_kids] in IH; cbn [render_node rn_info rn_style] in H.
    - (* IText *)
      start H sz ap st1 ps Hap. bind_inv H st2 H2.
      eapply X_styled; [exact Hap| |exact H].
      eapply X_inline_text; [exact Qnil| |exact H2].
      eapply Qm_of; [exact HQ_|apply cm_plain; reflexivity].
    - (* IContainer *)
      start H sz ap st1 ps Hap. bind_inv H st2 H2.
      eapply X_styled; [exact Hap| |exact H].
      eapply X_kids; [exact IH|exact Qnil| |exact H2]. intros k Hk. kid_plain HQ_ Hk.
    - (* ILink *)
      start H sz ap st1 ps Hap.
      bind_inv H st2 H2. bind_inv H st3 H3. bind_inv H st4 H4. bind_inv H tp H5. bind_inv H st5 H6.
      eapply X_styled; [exact Hap| |exact H].
      eapply stX_trans;
        [apply (stX_same_stack Q _ st1 (mkrst (stack st1) (links st1 ++ [href]))); reflexivity|].
      eapply stX_trans.
      + eapply (X_deco Q Qnil (d_link_start d href) (d_link_end d));
          [exact IH| | |exact H2|exact H3|exact H4].
        * eapply Qm_of; [exact HQ_|apply cm_own; reflexivity].
        * intros k Hk. kid_own HQ_ Hk.
      + destruct (o_footnotes (sopts tp)).
        * eapply X_inline_text; [exact Qnil|eapply Qmarker, HQ_|exact H6].
        * ok_inv H6. apply stX_refl.
    - (* IEm *)
      start H sz ap st1 ps Hap. bind_inv H a H1. bind_inv H b H2. bind_inv H c H3.
      eapply X_styled; [exact Hap| |exact H].
      eapply (X_deco Q Qnil (d_em_start d) (d_em_end d)); [exact IH| | |exact H1|exact H2|exact H3].
      + eapply Qm_of; [exact HQ_|apply cm_own; reflexivity].
      + intros k Hk. kid_own HQ_ Hk.
    - (* IStrong *)
      start H sz ap st1 ps Hap. bind_inv H a H1. bind_inv H b H2. bind_inv H c H3.
      eapply X_styled; [exact Hap| |exact H].
      eapply (X_deco Q Qnil (d_strong_start d) (d_strong_end d));
        [exact IH| | |exact H1|exact H2|exact H3].
      + eapply Qm_of; [exact HQ_|apply cm_own; reflexivity].
      + intros k Hk. kid_own HQ_ Hk.
    - (* IStrikeout *)
      start H sz ap st1 ps Hap. bind_inv H a H1. bind_inv H b H2. bind_inv H c H3.
      eapply X_styled; [exact Hap| |exact H].
      assert (CM : child_meta d (IStrikeout cs, sty) m
                     (m_push (snd (d_strike_start d)) (g_style d sty m)))
        by (apply cm_own; reflexivity).
      pose proof (Qm_of Q d _ _ _ HQ_ CM) as Hm.
      eapply stX_trans; [eapply X_start_strikeout; [exact Qnil|exact Hm|exact H1]|].
      eapply stX_trans.
      + eapply X_kids; [exact IH|exact Qnil| |exact H2]. intros k Hk.
        eapply HQ_child; [exact HQ_|apply cm_filt, CM|cbn [fst rkids]; apply in_map, Hk].
      + eapply stX_eq; [|eapply X_end_strikeout; [exact Qnil|apply Qm_filt_inc, Hm|exact H3]].
        apply strike_inv.
    - (* ICode *)
      start H sz ap st1 ps Hap. bind_inv H a H1. bind_inv H b H2. bind_inv H c H3.
      eapply X_styled; [exact Hap| |exact H].
      eapply (X_deco Q Qnil (d_code_start d) (d_code_end d));
        [exact IH| | |exact H1|exact H2|exact H3].
      + eapply Qm_of; [exact HQ_|apply cm_own; reflexivity].
      + intros k Hk. kid_own HQ_ Hk.
    - (* IImg *)
      start H sz ap st1 ps Hap. bind_inv H st2 H2.
      eapply X_styled; [exact Hap| |exact H].
      eapply X_add_image; [exact Qnil| |exact H2].
      eapply Qm_of; [exact HQ_|apply cm_own; reflexivity].
    - (* IBlock *)
      start H sz ap st1 ps Hap. bind_inv H a H1. bind_inv H b H2. bind_inv H c H3.
      eapply X_styled; [exact Hap| |exact H].
      eapply stX_trans; [eapply X_start_block; [exact Qnil|exact H1]|].
      eapply stX_trans; [|eapply X_end_block, H3].
      eapply X_kids; [exact IH|exact Qnil| |exact H2]. intros k Hk. kid_plain HQ_ Hk.
    - (* IHeader *)
      start H sz ap st1 ps Hap.
      destruct (negb (swidth (d_header_prefix d level) =? e_prefix sz)); [discriminate|].
      bind_inv H tp Htp. bind_inv H w Hw. bind_inv H st2 H2. bind_inv H pp Hpp.
      destruct pp as [sub st3]. bind_inv H st4 H4. bind_inv H st5 H5. bind_inv H st6 H6.
      eapply X_styled; [exact Hap| |exact H].
      assert (CM : child_meta d (IHeader level cs, sty) m (g_style d sty m))
        by (apply cm_plain; reflexivity).
      eapply X_prefixed; [exact Htp| |exact Hpp|].
      + intros Mt. eapply X_kids; [exact IH|exact Qnil| |exact H2]. intros k Hk.
        eapply HQ_child; [exact HQ_|apply cm_sub; rewrite Mt; exact CM|
                          cbn [fst rkids]; apply in_map, Hk].
      + intros Hq.
        eapply stX_trans; [eapply X_start_block; [exact Qnil|exact H4]|].
        eapply stX_trans; [|eapply X_end_block, H6].
        eapply X_append_subrender; [exact Qnil| |exact Hq|exact H5].
        eapply Qstruct_of; [exact HQ_|exact CM|reflexivity].
    - (* IDiv *)
      start H sz ap st1 ps Hap. bind_inv H a H1. bind_inv H b H2. bind_inv H c H3.
      eapply X_styled; [exact Hap| |exact H].
      eapply stX_trans; [eapply X_new_line; [exact Qnil|exact H1]|].
      eapply stX_trans; [|eapply X_new_line; [exact Qnil|exact H3]].
      eapply X_kids; [exact IH|exact Qnil| |exact H2]. intros k Hk. kid_plain HQ_ Hk.
    - (* IBlockQuote *)
      start H sz ap st1 ps Hap.
      destruct (negb (e_prefix sz =? swidth (d_quote_prefix d))); [discriminate|].
      bind_inv H iw Hiw.
      bind_inv H tp Htp. bind_inv H w Hw. bind_inv H st2 H2. bind_inv H pp Hpp.
      destruct pp as [sub st3]. bind_inv H st4 H4. bind_inv H st5 H5. bind_inv H st6 H6.
      eapply X_styled; [exact Hap| |exact H].
      assert (CM : child_meta d (IBlockQuote cs, sty) m (g_style d sty m))
        by (apply cm_plain; reflexivity).
      eapply X_prefixed; [exact Htp| |exact Hpp|].
      + intros Mt. eapply X_kids; [exact IH|exact Qnil| |exact H2]. intros k Hk.
        eapply HQ_child; [exact HQ_|apply cm_sub; rewrite Mt; exact CM|
                          cbn [fst rkids]; apply in_map, Hk].
      + intros Hq.
        eapply stX_trans; [eapply X_start_block; [exact Qnil|exact H4]|].
        eapply stX_trans; [|eapply X_end_block, H6].
        eapply X_append_subrender; [exact Qnil| |exact Hq|exact H5].
        eapply Qstruct_of; [exact HQ_|exact CM|reflexivity].
    - (* IUl *)
      start H sz ap st1 ps Hap. bind_inv H st2 H2.
      eapply X_styled; [exact Hap| |exact H].
      assert (CM : child_meta d (IUl cs, sty) m (g_style d sty m))
        by (apply cm_plain; reflexivity).
      revert H2.
      apply (fold_bind_inv (fun a => stX Q (g_style d sty m) (g_style d sty m) st1 a)
               (fun item s =>
                  do inner_width <- usub 22 (e_min sz) (swidth (d_ul_prefix d));
                  do tp <- top s;
                  do w <- width_minus tp (swidth (d_ul_prefix d)) inner_width;
                  do s2 <- render_node d mw item (push_sub s (new_sub_renderer tp w));
                  do pp <- pop_sub s2;
                  let '(sub, s3) := pp in
                  with_top s3 (fun t => append_subrender t sub (d_ul_prefix d)
                     (repeat_chr (spacel L_prefix) (N.to_nat (swidth (d_ul_prefix d))))))
               cs); [|apply stX_refl].
      intros item Hitem a a' Ra Hstep. eapply stX_trans; [exact Ra|].
      bind_inv Hstep iw Hiw. bind_inv Hstep tp Htp. bind_inv Hstep w Hw.
      bind_inv Hstep s2 Hs2. bind_inv Hstep pp Hpp. destruct pp as [sub s3].
      rewrite Forall_forall in IH.
      eapply X_prefixed; [exact Htp| |exact Hpp|].
      + intros Mt. apply (IH item Hitem Q _ _ _ Qnil); [|exact Hs2].
        eapply HQ_child; [exact HQ_|apply cm_sub; rewrite Mt; exact CM|
                          cbn [fst rkids]; apply in_map, Hitem].
      + intros Hq. eapply X_append_subrender; [exact Qnil| |exact Hq|exact Hstep].
        eapply Qstruct_of; [exact HQ_|exact CM|reflexivity].
    - (* IOl *)
      start H sz ap st1 ps Hap. bind_inv H r Hr.
      eapply X_styled; [exact Hap| |exact H].
      assert (CM : child_meta d (IOl start cs, sty) m (g_style d sty m))
        by (apply cm_plain; reflexivity).
      set (pw := N.max (swidth (d_ol_prefix d start))
                       (swidth (d_ol_prefix d (isat64 (isat64 (start + Z.of_nat (length cs)) - 1))))) in *.
      assert (Hr' : fold_left (fun acc item => do si <- acc; ol_step d mw sz pw item si) cs
                              (Ok (st1, start)) = Ok r) by exact Hr.
      revert Hr'.
      apply (fold_bind_inv (fun a => stX Q (g_style d sty m) (g_style d sty m) st1 (fst a))
               (ol_step d mw sz pw) cs); [|apply stX_refl].
      intros item Hitem [s i0] a' Ra Hstep. cbn [fst] in Ra. eapply stX_trans; [exact Ra|].
      unfold ol_step in Hstep.
      bind_inv Hstep iw Hiw. bind_inv Hstep tp Htp. bind_inv Hstep w Hw.
      bind_inv Hstep s2 Hs2. bind_inv Hstep pp Hpp. destruct pp as [sub s3].
      bind_inv Hstep s4 H4. ok_inv Hstep. cbn [fst].
      rewrite Forall_forall in IH.
      eapply X_prefixed; [exact Htp| |exact Hpp|].
      + intros Mt. apply (IH item Hitem Q _ _ _ Qnil); [|exact Hs2].
        eapply HQ_child; [exact HQ_|apply cm_sub; rewrite Mt; exact CM|
                          cbn [fst rkids]; apply in_map, Hitem].
      + intros Hq. eapply X_append_subrender; [exact Qnil| |exact Hq|exact H4].
        eapply Qstruct_of; [exact HQ_|exact CM|reflexivity].
    - (* IDl *)
      start H sz ap st1 ps Hap. bind_inv H st2 H2. bind_inv H st3 H3.
      eapply X_styled; [exact Hap| |exact H].
      eapply stX_trans; [eapply X_start_block; [exact Qnil|exact H2]|].
      eapply X_kids; [exact IH|exact Qnil| |exact H3]. intros k Hk. kid_plain HQ_ Hk.
    - (* IDt *)
      start H sz ap st1 ps Hap. bind_inv H st2 H2.
      bind_inv H a H1. bind_inv H b H3. bind_inv H c H4.
      eapply X_styled; [exact Hap| |exact H].
      eapply stX_trans; [eapply X_new_line; [exact Qnil|exact H2]|].
      eapply (X_deco Q Qnil (d_em_start d) (d_em_end d)); [exact IH| | |exact H1|exact H3|exact H4].
      + eapply Qm_of; [exact HQ_|apply cm_own; reflexivity].
      + intros k Hk. kid_own HQ_ Hk.
    - (* IDd *)
      start H sz ap st1 ps Hap. bind_inv H iw Hiw.
      bind_inv H tp Htp. bind_inv H w Hw. bind_inv H st2 H2. bind_inv H pp Hpp.
      destruct pp as [sub st3]. bind_inv H st4 H4.
      eapply X_styled; [exact Hap| |exact H].
      assert (CM : child_meta d (IDd cs, sty) m (g_style d sty m))
        by (apply cm_plain; reflexivity).
      eapply X_prefixed; [exact Htp| |exact Hpp|].
      + intros Mt. eapply X_kids; [exact IH|exact Qnil| |exact H2]. intros k Hk.
        eapply HQ_child; [exact HQ_|apply cm_sub; rewrite Mt; exact CM|
                          cbn [fst rkids]; apply in_map, Hk].
      + intros Hq. eapply X_append_subrender; [exact Qnil| |exact Hq|exact H4].
        eapply Qstruct_of; [exact HQ_|exact CM|reflexivity].
    - (* IBreak *)
      start H sz ap st1 ps Hap. bind_inv H st2 H2.
      eapply X_styled; [exact Hap| |exact H].
      eapply X_new_line_hard; [exact Qnil|exact H2].
    - (* ITable *)
      start H sz ap st1 ps Hap.
      bind_inv H col_sizes Hcs. bind_inv H tp Htp.
      set (vr := o_raw (sopts tp)
                 || ((swidth_ tp <? sumN (map e_min col_sizes) + (N.of_nat (length col_sizes) - 1))
                     || (swidth_ tp =? 0))) in *.
      bind_inv H col_widths Hcw. bind_inv H st2 H2. bind_inv H st3 H3. bind_inv H st_rows Hrows.
      eapply X_styled; [exact Hap| |exact H].
      assert (CM : child_meta d (ITable rows ncols, sty) m (g_style d sty m))
        by (apply cm_plain; reflexivity).
      eapply stX_trans; [eapply X_start_block; [exact Qnil|exact H2]|].
      eapply stX_trans.
      { match type of H3 with (if ?c then _ else _) = _ => destruct c end.
        - eapply X_border; [exact Qnil| |exact H3].
          eapply Qstruct_of; [exact HQ_|exact CM|reflexivity].
        - ok_inv H3. apply stX_refl. }
      assert (Hrows' : fold_left (fun acc r => do s <- acc; row_body d mw vr col_widths r s) rows
                                 (Ok st3) = Ok st_rows) by exact Hrows.
      revert Hrows'.
      apply (fold_bind_inv (fun a => stX Q (g_style d sty m) (g_style d sty m) st3 a)
               (row_body d mw vr col_widths) rows); [|apply stX_refl].
      intros r Hr a a' Ra Hstep. eapply stX_trans; [exact Ra|].
      apply Forall_flat_map in IH. rewrite Forall_forall in IH. specialize (IH r Hr).
      unfold row_kids in IH. apply Forall_flat_map in IH.
      eapply X_row_body; [exact Qnil|exact IH| |exact Hstep].
      eapply HQ_child; [exact HQ_|exact CM|cbn [fst rkids]; apply in_map, Hr].
    - (* ITableBody *) bind_inv H sz Hsz. bind_inv H ap Hap. destruct ap. discriminate.
    - (* ITableRow *) bind_inv H sz Hsz. bind_inv H ap Hap. destruct ap. discriminate.
    - (* ITableCell *) bind_inv H sz Hsz. bind_inv H ap Hap. destruct ap. discriminate.
    - (* IFragStart *)
      start H sz ap st1 ps Hap. bind_inv H st2 H2.
      eapply X_styled; [exact Hap| |exact H].
      eapply X_record_frag_start, H2.
    - (* IListItem *)
      start H sz ap st1 ps Hap. bind_inv H a H1. bind_inv H b H2. bind_inv H c H3.
      eapply X_styled; [exact Hap| |exact H].
      eapply stX_trans; [eapply X_start_block; [exact Qnil|exact H1]|].
      eapply stX_trans; [|eapply X_end_block, H3].
      eapply X_kids; [exact IH|exact Qnil| |exact H2]. intros k Hk. kid_plain HQ_ Hk.
    - (* ISup *)
      start H sz ap st1 ps Hap.
      destruct (sup_digits cs) as [digitstr|] eqn:Ed.
      + bind_inv H st2 H2. eapply X_styled; [exact Hap| |exact H].
        eapply X_inline_text; [exact Qnil| |exact H2].
        eapply Qm_of; [exact HQ_|apply cm_plain; cbn [own_ann]; rewrite Ed; reflexivity].
      + bind_inv H a H1. bind_inv H b H2. bind_inv H c H3.
        eapply X_styled; [exact Hap| |exact H].
        assert (CM : child_meta d (ISup cs, sty) m (m_push (snd (d_sup_start d)) (g_style d sty m)))
          by (apply cm_own; cbn [own_ann]; rewrite Ed; reflexivity).
        eapply (X_deco Q Qnil (d_sup_start d) (d_sup_end d));
          [exact IH| | |exact H1|exact H2|exact H3].
        * eapply Qm_of; [exact HQ_|exact CM].
        * intros k Hk. eapply HQ_child; [exact HQ_|exact CM|].
          cbn [fst rkids]. rewrite Ed. apply in_map, Hk.
  Qed.
End Tree.

(* ================================================================== *)
(* 4. Main theorems                                                     *)
(* ================================================================== *)

(* ------------------------------------------------------------------ *)
(* (1) THE PREDICATE TRANSFORMER.  Rendering node n on a state whose top sub-renderer s has
   annotation stack B = ann_stack s: every set Q of tags that contains the empty tag (block
   padding) and the tags of the paths of n,

       tree_tag d B inpre (pe_of n) t  :=  exists p, path_from (pe_of n) p /\ path_tag d B inpre p t,

   is kept as an invariant of all tags stored in the top sub-renderer (finished lines incl.
   borders, pending fragments, wrapping block).  All node kinds; nested sub-renderers of
   headings, quotes, list items, dd and table cells start with the parent's stack.  No
   hypotheses on tree, decorator, options, state. *)
Theorem render_node_inherit : forall d mw n (Q : tag -> Prop) st st' s rest,
  Q [] ->
  (forall t, tree_tag d (ann_stack s) (0 <? pre_depth s) (pe_of n) t -> Q t) ->
  render_node d mw n st = Ok st' -> stack st = s :: rest -> sub_Q Q s ->
  exists s', stack st' = s' :: rest /\ meta_of s' = meta_of s /\ sub_Q Q s'.
Proof.
  intros d mw n Q st st' s rest Qnil HQ_ H E Hs.
  destruct (node_X_all d mw n Q (meta_of s) st st' Qnil HQ_ H s rest E eq_refl) as (s' & E' & M & K).
  exists s'. auto.
Qed.
Print Assumptions render_node_inherit.

(* "old or new": every tag stored afterwards was there before, or is the empty padding tag,
   or is the tag of a path of n *)
Corollary render_node_inherit_new : forall d mw n (Qold : tag -> Prop) st st' s rest,
  render_node d mw n st = Ok st' -> stack st = s :: rest -> sub_Q Qold s ->
  exists s', stack st' = s' :: rest /\ meta_of s' = meta_of s /\
    sub_Q (fun t => Qold t \/ t = [] \/ tree_tag d (ann_stack s) (0 <? pre_depth s) (pe_of n) t) s'.
Proof.
  intros d mw n Qold st st' s rest H E Hs.
  apply (render_node_inherit d mw n _ st st' s rest); auto.
  revert Hs. apply sub_Q_impl. auto.
Qed.

(* (1b) A text leaf (text node, image, <sup>digits</sup>) at the end of a path p ++ [leaf] of
   the tree e: rendered under the annotations enclosing p, its subtree has EXACTLY the tag
   B ++ enclosing_anns d (p ++ [leaf]) -- plus Preformat(first/continuation) iff B was inside
   <pre> or some node of the path is a <pre> -- and that tag is a tag of the tree. *)
Theorem text_leaf_at_path : forall d B pre0 e p i sty,
  path_from e (p ++ [(i, sty)]) -> text_leaf i = true ->
  forall t,
    (tree_tag d (B ++ enclosing_anns d p) (pre0 || path_pre p) (i, sty) t <->
     with_pre d (pre0 || path_pre (p ++ [(i, sty)])) (B ++ enclosing_anns d (p ++ [(i, sty)])) t) /\
    (tree_tag d (B ++ enclosing_anns d p) (pre0 || path_pre p) (i, sty) t -> tree_tag d B pre0 e t).
Proof.
  intros d B pre0 e p i sty Hp Hl t. split.
  - rewrite (tree_tag_leaf d _ _ i sty t Hl). rewrite enclosing_anns_app, enclosing_one.
    unfold pe_anns, path_pre. rewrite existsb_app. cbn [existsb fst snd].
    rewrite orb_false_r, <- orb_assoc, <- !app_assoc. reflexivity.
  - apply tree_tag_at_path, Hp.
Qed.
Print Assumptions text_leaf_at_path.

(* rendering the leaf itself: exactly that tag is added (instance of (1)) *)
Corollary text_leaf_render : forall d mw i sty (Qold : tag -> Prop) st st' s rest,
  text_leaf i = true ->
  render_node d mw (RN i sty) st = Ok st' -> stack st = s :: rest -> sub_Q Qold s ->
  exists s', stack st' = s' :: rest /\ meta_of s' = meta_of s /\
    sub_Q (fun t => Qold t \/ t = [] \/
             with_pre d ((0 <? pre_depth s) || cs_internal_pre sty)
                      (ann_stack s ++ style_anns d sty ++ own_ann d i) t) s'.
Proof.
  intros d mw i sty Qold st st' s rest Hl H E Hs.
  destruct (render_node_inherit_new d mw (RN i sty) Qold st st' s rest H E Hs) as (s' & E' & M & K).
  exists s'. split; [exact E'|]. split; [exact M|]. revert K. apply sub_Q_impl.
  intros t [A|[A|A]]; auto. right. right. apply (tree_tag_leaf d _ _ i sty t Hl). exact A.
Qed.
Print Assumptions text_leaf_render.

(* ------------------------------------------------------------------ *)
(* (2) THE WHOLE TREE: render_tree starts with the empty stack outside <pre>.  Every tag in the
   result is the empty tag (block padding), [ADefault] (the footnote list render_tree appends),
   or the tag of a path from the root. *)
Section Foot.
  Variable Q : tag -> Prop.
  Hypothesis Qd : Q [ADefault].

  Lemma fl_chars_Q t : Q t -> forall cs s buf wl pos,
    sub_Q Q s -> tl_Q Q wl ->
    sub_Q Q (fst (fst (fst (fl_chars s t cs buf wl pos)))) /\
    tl_Q Q (snd (fst (fl_chars s t cs buf wl pos))).
  Proof.
    intros Ht. induction cs as [|c cs IH]; intros s buf wl pos Hs Hw; cbn [fl_chars]; [auto|].
    destruct (swidth_ s <? pos + cw0 c); [|apply IH; assumption].
    apply IH; [|apply tl_new_Q]. apply add_line_Q; [exact Hs|]. cbn [rline_Q].
    destruct buf; [exact Hw|apply tl_push_str_Q; assumption].
  Qed.

  Lemma fl_strings_Q : forall strs s wl pos,
    sub_Q Q s -> tl_Q Q wl ->
    sub_Q Q (fst (fl_strings s strs wl pos)) /\ tl_Q Q (snd (fl_strings s strs wl pos)).
  Proof.
    induction strs as [|[str tg] strs IH]; intros s wl pos Hs Hw; cbn [fl_strings]; [auto|].
    destruct (o_wrap_links (sopts s) && (swidth_ s <? pos + swidth (nl_to_space str))).
    - pose proof (fl_chars_Q [ADefault] Qd (nl_to_space str) s [] wl pos Hs Hw) as [A B].
      destruct (fl_chars s [ADefault] (nl_to_space str) [] wl pos) as [[[s1 buf] wl1] pos1].
      cbn [fst snd] in A, B. apply IH; [exact A|]. apply tl_push_str_Q; assumption.
    - apply IH; [exact Hs|]. apply tl_push_str_Q; assumption.
  Qed.

  Lemma fmt_links_Q : forall links s, sub_Q Q s -> sub_Q Q (fmt_links s links).
  Proof.
    induction links as [|l links IH]; intros s Hs; cbn [fmt_links]; [exact Hs|].
    pose proof (fl_strings_Q (tl_tagged_strings l) s tl_new 0 Hs (tl_new_Q Q)) as [A B].
    destruct (fl_strings s (tl_tagged_strings l) tl_new 0) as [s1 wl]. cbn [fst snd] in A, B.
    apply IH. apply add_line_Q; [exact A|exact B].
  Qed.
End Foot.

Definition root_tag (d : deco) (tree : rnode) (t : tag) : Prop :=
  t = [] \/ t = [ADefault] \/ exists p, path_from (pe_of tree) p /\ path_tag d [] false p t.

Theorem render_tree_inherit : forall d mw o width tree s,
  render_tree d mw o width tree = Ok s -> sub_Q (root_tag d tree) s.
Proof.
  intros d mw o width tree s H. unfold render_tree in H. bind_inv H e He. bind_inv H st Hst.
  assert (K0 : sub_Q (root_tag d tree) (sub_new width o))
    by (unfold sub_Q, sub_new; cbn; repeat split; constructor).
  destruct (render_node_inherit d mw tree (root_tag d tree) (mkrst [sub_new width o] []) st
              (sub_new width o) [] (or_introl eq_refl)
              (fun t Ht => or_intror (or_intror Ht)) Hst eq_refl K0) as (s0 & E & M & K).
  - rewrite E in H. destruct (sub_finalise s0 (links st)) as [|l ls].
    + ok_inv H. exact K.
    + bind_inv H s1 H1. ok_inv H.
      apply (fmt_links_Q (root_tag d tree) (or_intror (or_introl eq_refl)) (l :: ls) s1).
      eapply (start_block_Q _ (or_introl eq_refl)); eassumption.
Qed.
Print Assumptions render_tree_inherit.

(* ------------------------------------------------------------------ *)
(* (3) COLOUR INHERITANCE (C19, last clause).  The last colour annotation of a tag = the
   colour of the nearest node of the path (the last node first) whose style has one. *)
Fixpoint last_some {A B} (f : A -> option B) (l : list A) (acc : option B) : option B :=
  match l with
  | [] => acc
  | x :: l' => last_some f l' (match f x with Some y => Some y | None => acc end)
  end.

Lemma last_some_app {A B} (f : A -> option B) l1 : forall l2 acc,
  last_some f (l1 ++ l2) acc = last_some f l2 (last_some f l1 acc).
Proof. induction l1 as [|x l1 IH]; intros l2 acc; cbn [app last_some]; [reflexivity|apply IH]. Qed.

Lemma last_some_none {A B} (f : A -> option B) l : forall acc,
  Forall (fun x => f x = None) l -> last_some f l acc = acc.
Proof.
  induction l as [|x l IH]; intros acc H; cbn [last_some]; [reflexivity|].
  inversion H as [|? ? H1 H2]; subst. rewrite H1. apply IH, H2.
Qed.

Lemma last_some_snoc {A B} (f : A -> option B) l x acc :
  last_some f (l ++ [x]) acc = match f x with Some y => Some y | None => last_some f l acc end.
Proof. rewrite last_some_app. reflexivity. Qed.

Lemma last_some_None_iff {A B} (f : A -> option B) l :
  last_some f l None = None <-> Forall (fun x => f x = None) l.
Proof.
  induction l as [|x l IH] using rev_ind.
  - split; [constructor|reflexivity].
  - rewrite last_some_snoc, Forall_app. destruct (f x) eqn:E.
    + split; [discriminate|]. intros [_ H]. inversion H; congruence.
    + rewrite IH. split; [intros H; split; [exact H|constructor; [exact E|constructor]]|tauto].
Qed.

Definition fg_of (a : ann) : option (N * N * N) :=
  match a with AColour r g b => Some (r, g, b) | _ => None end.
Definition bg_of (a : ann) : option (N * N * N) :=
  match a with ABg r g b => Some (r, g, b) | _ => None end.
(* the colour a piece of text with tag t is shown in: its last colour annotation *)
Definition last_fg (t : tag) : option (N * N * N) := last_some fg_of t None.
Definition last_bg (t : tag) : option (N * N * N) := last_some bg_of t None.

(* the colours of a node's computed style, as far as the decorator shows colours *)
Definition node_fg (d : deco) (e : pe) : option (N * N * N) :=
  if d_colours d then ws_val (c_colour (cs_core (snd e))) else None.
Definition node_bg (d : deco) (e : pe) : option (N * N * N) :=
  if d_colours d then ws_val (c_bg (cs_core (snd e))) else None.
(* the colour of the nearest node of the path (last node first) that has one *)
Definition nearest_fg (d : deco) (p : list pe) : option (N * N * N) := last_some (node_fg d) p None.
Definition nearest_bg (d : deco) (p : list pe) : option (N * N * N) := last_some (node_bg d) p None.

(* "nearest": the node's own colour if it has one, else that of the nearest ancestor *)
Lemma nearest_fg_snoc d p e :
  nearest_fg d (p ++ [e]) = match node_fg d e with Some c => Some c | None => nearest_fg d p end.
Proof. apply last_some_snoc. Qed.
Lemma nearest_bg_snoc d p e :
  nearest_bg d (p ++ [e]) = match node_bg d e with Some c => Some c | None => nearest_bg d p end.
Proof. apply last_some_snoc. Qed.
Lemma nearest_fg_None d p : nearest_fg d p = None <-> Forall (fun e => node_fg d e = None) p.
Proof. apply last_some_None_iff. Qed.
Lemma nearest_bg_None d p : nearest_bg d p = None <-> Forall (fun e => node_bg d e = None) p.
Proof. apply last_some_None_iff. Qed.

(* Side condition on the decorator: the annotations it gives to links, emphasis, ..., images
   and preformatted text are not colour annotations (true of the three decorators of the
   crate, below).  Needed because a decorator is free to choose its annotations: one that
   used a Colour annotation for <em> would override the inherited colour. *)
Definition is_col (a : ann) : bool :=
  match a with AColour _ _ _ | ABg _ _ _ => true | _ => false end.
Definition deco_plain (d : deco) : Prop :=
  (forall u, is_col (snd (d_link_start d u)) = false) /\
  is_col (snd (d_em_start d)) = false /\ is_col (snd (d_strong_start d)) = false /\
  is_col (snd (d_strike_start d)) = false /\ is_col (snd (d_code_start d)) = false /\
  is_col (snd (d_sup_start d)) = false /\
  (forall s t, is_col (snd (d_image d s t)) = false) /\
  is_col (d_pre_first d) = false /\ is_col (d_pre_cont d) = false.

Lemma rich_deco_plain : deco_plain rich_deco.
Proof. unfold deco_plain. cbn. repeat split; reflexivity. Qed.
Lemma plain_deco_plain : deco_plain plain_deco.
Proof. unfold deco_plain. cbn. repeat split; reflexivity. Qed.
Lemma trivial_deco_plain : deco_plain trivial_deco.
Proof. unfold deco_plain. cbn. repeat split; reflexivity. Qed.

Lemma is_col_fg a : is_col a = false -> fg_of a = None.
Proof. destruct a; cbn; congruence. Qed.
Lemma is_col_bg a : is_col a = false -> bg_of a = None.
Proof. destruct a; cbn; congruence. Qed.

Lemma own_ann_nocol d i : deco_plain d -> Forall (fun a => is_col a = false) (own_ann d i).
Proof.
  intros (A & B & C & D & E & F & G & _). destruct i; cbn [own_ann]; try constructor; auto.
  destruct (sup_digits cs); constructor; auto.
Qed.

Lemma Forall_nocol_fg l : Forall (fun a => is_col a = false) l -> Forall (fun a => fg_of a = None) l.
Proof. apply Forall_impl. intros a. apply is_col_fg. Qed.
Lemma Forall_nocol_bg l : Forall (fun a => is_col a = false) l -> Forall (fun a => bg_of a = None) l.
Proof. apply Forall_impl. intros a. apply is_col_bg. Qed.

(* the colour annotations of a style *)
Lemma style_anns_fg d sty acc :
  last_some fg_of (style_anns d sty) acc =
  match node_fg d (IBreak, sty) with Some c => Some c | None => acc end.
Proof.
  unfold style_anns, col_anns, node_fg. cbn [snd].
  destruct (ws_val (c_colour (cs_core sty))) as [[[r g] b]|];
    destruct (ws_val (c_bg (cs_core sty))) as [[[r2 g2] b2]|];
    destruct (d_colours d); reflexivity.
Qed.
Lemma style_anns_bg d sty acc :
  last_some bg_of (style_anns d sty) acc =
  match node_bg d (IBreak, sty) with Some c => Some c | None => acc end.
Proof.
  unfold style_anns, col_anns, node_bg. cbn [snd].
  destruct (ws_val (c_colour (cs_core sty))) as [[[r g] b]|];
    destruct (ws_val (c_bg (cs_core sty))) as [[[r2 g2] b2]|];
    destruct (d_colours d); reflexivity.
Qed.

Lemma pe_anns_fg d e acc : deco_plain d ->
  last_some fg_of (pe_anns d e) acc = match node_fg d e with Some c => Some c | None => acc end.
Proof.
  intros Hd. unfold pe_anns. rewrite last_some_app, style_anns_fg.
  apply last_some_none, Forall_nocol_fg, own_ann_nocol, Hd.
Qed.
Lemma pe_anns_bg d e acc : deco_plain d ->
  last_some bg_of (pe_anns d e) acc = match node_bg d e with Some c => Some c | None => acc end.
Proof.
  intros Hd. unfold pe_anns. rewrite last_some_app, style_anns_bg.
  apply last_some_none, Forall_nocol_bg, own_ann_nocol, Hd.
Qed.

Lemma enclosing_anns_fg d : deco_plain d -> forall p acc,
  last_some fg_of (enclosing_anns d p) acc = last_some (node_fg d) p acc.
Proof.
  intros Hd. induction p as [|e p IH]; intros acc; [reflexivity|].
  rewrite enclosing_anns_cons, last_some_app, pe_anns_fg by exact Hd. cbn [last_some]. apply IH.
Qed.
Lemma enclosing_anns_bg d : deco_plain d -> forall p acc,
  last_some bg_of (enclosing_anns d p) acc = last_some (node_bg d) p acc.
Proof.
  intros Hd. induction p as [|e p IH]; intros acc; [reflexivity|].
  rewrite enclosing_anns_cons, last_some_app, pe_anns_bg by exact Hd. cbn [last_some]. apply IH.
Qed.

Lemma with_pre_col {B} (f : ann -> option B) d b X t :
  f (d_pre_first d) = None -> f (d_pre_cont d) = None ->
  with_pre d b X t -> last_some f t None = last_some f X None.
Proof.
  intros H1 H2 H. unfold with_pre in H. destruct b; [|subst; reflexivity].
  destruct H as [-> | ->]; rewrite last_some_snoc; [rewrite H1|rewrite H2]; reflexivity.
Qed.

Lemma split_last_pe p : p <> [] -> p = removelast p ++ [last_pe p].
Proof. intros H. apply app_removelast_last, H. Qed.

(* every tag made for a path: its last colour annotation is the colour of the nearest node of
   the path that has one; if no node of the path has one, it is the colour inherited from
   the stack B the path starts with *)
Theorem path_tag_colour : forall d B pre0 p t,
  deco_plain d -> path_tag d B pre0 p t ->
  last_fg t = last_some (node_fg d) p (last_fg B) /\
  last_bg t = last_some (node_bg d) p (last_bg B).
Proof.
  intros d B pre0 p t Hd H. pose proof Hd as (_ & _ & _ & _ & _ & _ & _ & P1 & P2).
  unfold last_fg, last_bg.
  destruct H as [H|[[_ ->]|[Hl H]]].
  - rewrite (with_pre_col fg_of _ _ _ _ (is_col_fg _ P1) (is_col_fg _ P2) H).
    rewrite (with_pre_col bg_of _ _ _ _ (is_col_bg _ P1) (is_col_bg _ P2) H).
    rewrite !last_some_app, enclosing_anns_fg, enclosing_anns_bg by exact Hd. auto.
  - rewrite !last_some_app, enclosing_anns_fg, enclosing_anns_bg by exact Hd. auto.
  - assert (Hp : p <> []) by (intros ->; discriminate).
    rewrite (with_pre_col fg_of _ _ _ _ (is_col_fg _ P1) (is_col_fg _ P2) H).
    rewrite (with_pre_col bg_of _ _ _ _ (is_col_bg _ P1) (is_col_bg _ P2) H).
    rewrite (split_last_pe p Hp) at 3 6. rewrite !last_some_app.
    rewrite enclosing_anns_fg, enclosing_anns_bg by exact Hd.
    rewrite style_anns_fg, style_anns_bg. cbn [last_some]. unfold node_fg, node_bg. cbn [snd]. auto.
Qed.
Print Assumptions path_tag_colour.

Corollary no_colour_iff : forall d pre0 p t,
  deco_plain d -> path_tag d [] pre0 p t ->
  (last_fg t = None <-> Forall (fun e => node_fg d e = None) p) /\
  (last_bg t = None <-> Forall (fun e => node_bg d e = None) p).
Proof.
  intros d pre0 p t Hd H. destruct (path_tag_colour d [] pre0 p t Hd H) as [A B].
  rewrite A, B. split; [apply nearest_fg_None|apply nearest_bg_None].
Qed.

(* In the property's words, for a whole document: every piece of text in the output of
   render_tree has the empty tag (padding), the tag [ADefault] (footnote list), or there is a
   path from the root to a node such that the tag is the list of annotations enclosing that
   node (path_tag) and the LAST foreground / background colour annotation of the tag is the
   colour of the NEAREST node on the path (the node itself first, then its ancestors) whose
   computed style has a colour -- and there is no colour annotation iff no node of the path
   has one (nearest_fg_None). *)
Definition root_tag_col (d : deco) (tree : rnode) (t : tag) : Prop :=
  t = [] \/ t = [ADefault] \/
  exists p, path_from (pe_of tree) p /\ path_tag d [] false p t /\
            last_fg t = nearest_fg d p /\ last_bg t = nearest_bg d p.

Theorem render_tree_colour_inherit : forall d mw o width tree s,
  deco_plain d -> render_tree d mw o width tree = Ok s -> sub_Q (root_tag_col d tree) s.
Proof.
  intros d mw o width tree s Hd H. apply render_tree_inherit in H. revert H. apply sub_Q_impl.
  intros t [A|[A|(p & Hp & Ht)]]; [left; exact A|right; left; exact A|].
  right. right. exists p. split; [exact Hp|]. split; [exact Ht|].
  exact (path_tag_colour d [] false p t Hd Ht).
Qed.
Print Assumptions render_tree_colour_inherit.

(* ... and for a text leaf at the end of path p ++ [leaf] (text_leaf_at_path): the colour of
   its text is the leaf's own colour if its style has one, else the nearest ancestor's. *)
Corollary text_leaf_colour : forall d pre0 p i sty t,
  deco_plain d -> text_leaf i = true ->
  with_pre d (pre0 || path_pre (p ++ [(i, sty)])) (enclosing_anns d (p ++ [(i, sty)])) t ->
  last_fg t = match node_fg d (i, sty) with Some c => Some c | None => nearest_fg d p end /\
  last_bg t = match node_bg d (i, sty) with Some c => Some c | None => nearest_bg d p end.
Proof.
  intros d pre0 p i sty t Hd Hl H.
  rewrite <- nearest_fg_snoc, <- nearest_bg_snoc.
  apply (path_tag_colour d [] pre0 (p ++ [(i, sty)]) t Hd). left. exact H.
Qed.
Print Assumptions text_leaf_colour.

(* ================================================================== *)
(* 5. Non-vacuity examples                                              *)
(* ================================================================== *)

Definition sty_fg (c : N * N * N) : cstyle :=
  mkcs (mkcore (maybe_update ws_default false OAuthor spec0 c) ws_default ws_default ws_default
               ws_default) None None false.
Definition sty_bg (c : N * N * N) : cstyle :=
  mkcs (mkcore ws_default (maybe_update ws_default false OAuthor spec0 c) ws_default ws_default
               ws_default) None None false.

(* <div style="color:#f00">
     <p>a <em style="background:#00f">b</em></p>
     <blockquote style="color:#0f0"><a href="u">q <code>r</code></a></blockquote>
     <table style="color:#00f"><tr style="background:#ff0">
        <td style="color:#0ff">x</td><td>y</td></tr></table>
     <ul><li style="color:#0f0">i</li></ul>
     <pre><span style="background:#010203">p  q</span></pre>
     <p><img src="s" alt="t"><sup>12</sup></p>
   </div> *)
Definition ih_x : rnode := ab_txt [120].
Definition ih_cell : rcell := RCell 1 [ih_x] (sty_fg (0, 255, 255)).
Definition ih_row : rrow := RRow [ih_cell; RCell 1 [ab_txt [121]] cstyle0] (sty_bg (255, 255, 0)).
Definition ih_table : rnode := RN (ITable [ih_row] 2) (sty_fg (0, 0, 255)).
Definition ih_r : rnode := ab_txt [114].
Definition ih_code : rnode := ex_n (ICode [ih_r]).
Definition ih_link : rnode := ex_n (ILink (ex_str [117]) [ab_txt [113; 32]; ih_code]).
Definition ih_quote : rnode := RN (IBlockQuote [ih_link]) (sty_fg (0, 255, 0)).
Definition ih_pq : rnode := RN (IText (ex_str [112; 32; 32; 113])) (sty_bg (1, 2, 3)).
Definition ih_pre : rnode := RN (IBlock [ih_pq]) ab_pre.
Definition ih_tree : rnode :=
  RN (IDiv
    [ex_n (IBlock [ab_txt [97; 32]; RN (IEm [ab_txt [98]]) (sty_bg (0, 0, 255))]);
     ih_quote; ih_table;
     ex_n (IUl [RN (IListItem [ab_txt [105]]) (sty_fg (0, 255, 0))]);
     ih_pre;
     ex_n (IBlock [ex_n (IImg (ex_str [115]) (ex_str [116])); ex_n (ISup [ab_txt [49; 50]])])])
    (sty_fg (255, 0, 0)).

Definition ih_u : text := ex_str [117].
Definition ih_src : text := ex_str [115].

Example ih_render_tree_obs :
  ab_obs (render_tree rich_deco 3 ab_opts 30 ih_tree) =
  Ok [[([97; 32], [AColour 255 0 0]); ([98], [AColour 255 0 0; ABg 0 0 255; AEm])];
      [];
      [([62; 32], [AColour 255 0 0; AColour 0 255 0]);
       ([113; 32], [AColour 255 0 0; AColour 0 255 0; ALink ih_u]);
       ([114], [AColour 255 0 0; AColour 0 255 0; ALink ih_u; ACode])];
      [];
      [([9472; 9516; 9472], [AColour 255 0 0; AColour 0 0 255])];
      [([120], [AColour 255 0 0; AColour 0 0 255; ABg 255 255 0; AColour 0 255 255]);
       ([9474; 121], [AColour 255 0 0; AColour 0 0 255; ABg 255 255 0])];
      [([9472; 9524; 9472], [AColour 255 0 0; AColour 0 0 255; ABg 255 255 0])];
      [([42; 32], [AColour 255 0 0]); ([105], [AColour 255 0 0; AColour 0 255 0])];
      [];
      [([112; 32; 32; 113], [AColour 255 0 0; ABg 1 2 3; APre false])];
      [];
      [([116], [AColour 255 0 0; AImage ih_src]); ([185; 178], [AColour 255 0 0])]].
Proof. vm_compute. reflexivity. Qed.

Definition ih_s : subr :=
  match render_tree rich_deco 3 ab_opts 30 ih_tree with Ok s => s | _ => sub_new 0 ab_opts end.
Example ih_render_tree_eq : render_tree rich_deco 3 ab_opts 30 ih_tree = Ok ih_s.
Proof. vm_compute. reflexivity. Qed.

(* the theorems apply to it *)
Example ih_inherit_applies : sub_Q (root_tag rich_deco ih_tree) ih_s.
Proof. exact (render_tree_inherit rich_deco 3 ab_opts 30 ih_tree ih_s ih_render_tree_eq). Qed.
Example ih_colour_applies : sub_Q (root_tag_col rich_deco ih_tree) ih_s.
Proof.
  exact (render_tree_colour_inherit rich_deco 3 ab_opts 30 ih_tree ih_s rich_deco_plain
                                    ih_render_tree_eq).
Qed.

Ltac path_tac :=
  repeat match goal with
         | |- path_from _ [_] => apply pf_one
         | |- path_from _ (_ :: ?x :: _) => apply pf_cons with (c := x); [cbn; auto 10|]
         end.

(* the path to the "x" in the table cell: div, table, row, cell, text *)
Definition ih_path_x : list pe :=
  [pe_of ih_tree; pe_of ih_table; pe_row ih_row; pe_cell ih_cell; pe_of ih_x].
Example ih_path_x_ok : path_from (pe_of ih_tree) ih_path_x.
Proof. unfold ih_path_x. path_tac. Qed.
Example ih_path_x_anns :
  enclosing_anns rich_deco ih_path_x =
  [AColour 255 0 0; AColour 0 0 255; ABg 255 255 0; AColour 0 255 255].
Proof. reflexivity. Qed.
Example ih_path_x_colours :
  nearest_fg rich_deco ih_path_x = Some (0, 255, 255) /\
  nearest_bg rich_deco ih_path_x = Some (255, 255, 0).
Proof. split; reflexivity. Qed.
(* text_leaf_at_path for this leaf: exactly one tag, the one seen in the output above *)
Example ih_path_x_leaf : forall t,
  tree_tag rich_deco (enclosing_anns rich_deco (removelast ih_path_x)) false (pe_of ih_x) t <->
  t = [AColour 255 0 0; AColour 0 0 255; ABg 255 255 0; AColour 0 255 255].
Proof.
  intros t.
  exact (proj1 (text_leaf_at_path rich_deco [] false (pe_of ih_tree) (removelast ih_path_x)
                  (IText (ex_str [120])) cstyle0 ih_path_x_ok eq_refl t)).
Qed.

(* the path to "r": div, blockquote, link, code, text; inside <pre>: div, pre block, text *)
Definition ih_path_r : list pe :=
  [pe_of ih_tree; pe_of ih_quote; pe_of ih_link; pe_of ih_code; pe_of ih_r].
Example ih_path_r_ok : path_from (pe_of ih_tree) ih_path_r.
Proof. unfold ih_path_r. path_tac. Qed.
Example ih_path_r_anns :
  enclosing_anns rich_deco ih_path_r = [AColour 255 0 0; AColour 0 255 0; ALink ih_u; ACode] /\
  nearest_fg rich_deco ih_path_r = Some (0, 255, 0) /\ nearest_bg rich_deco ih_path_r = None.
Proof. repeat split; reflexivity. Qed.
Definition ih_path_pq : list pe := [pe_of ih_tree; pe_of ih_pre; pe_of ih_pq].
Example ih_path_pq_ok : path_from (pe_of ih_tree) ih_path_pq.
Proof. unfold ih_path_pq. path_tac. Qed.
Example ih_path_pq_tag : forall t,
  path_tag rich_deco [] false ih_path_pq t <->
  t = [AColour 255 0 0; ABg 1 2 3; APre false] \/ t = [AColour 255 0 0; ABg 1 2 3; APre true].
Proof.
  intros t. unfold path_tag. cbn. split; [intros [H|[[H _]|[H _]]]; [exact H|discriminate..]|auto].
Qed.

(* footnotes on: the marker [1] of the link does not carry the link annotation (third case of
   path_tag), the footnote list carries [ADefault] *)
Definition ih_fn_opts : ropts := render_options (set_footnotes (with_decorator rich_deco) true).
Definition ih_fn_tree : rnode := RN (IBlock [ih_link]) (sty_fg (255, 0, 0)).
Example ih_fn_obs :
  ab_obs (render_tree rich_deco 3 ih_fn_opts 30 ih_fn_tree) =
  Ok [[([113; 32], [AColour 255 0 0; ALink ih_u]);
       ([114], [AColour 255 0 0; ALink ih_u; ACode]);
       ([91; 49; 93], [AColour 255 0 0])];
      [];
      [([91; 49; 93; 58; 32; 117], [ADefault])]].
Proof. vm_compute. reflexivity. Qed.
Definition ih_fn_s : subr :=
  match render_tree rich_deco 3 ih_fn_opts 30 ih_fn_tree with Ok s => s | _ => sub_new 0 ab_opts end.
Example ih_fn_applies : sub_Q (root_tag_col rich_deco ih_fn_tree) ih_fn_s.
Proof.
  apply (render_tree_colour_inherit rich_deco 3 ih_fn_opts 30 ih_fn_tree ih_fn_s rich_deco_plain).
  vm_compute. reflexivity.
Qed.

(* render_node_inherit on a state inside <strong> and <pre> *)
Example ih_node_applies :
  exists s', stack ab_st1p = [s'] /\ meta_of s' = meta_of ab_s0p /\
    sub_Q (fun t => False \/ t = [] \/
             with_pre rich_deco true ([AStrong] ++ [AColour 255 0 0] ++ []) t) s'.
Proof.
  exact (text_leaf_render rich_deco 3 (IText (ex_str [112; 32; 32; 113])) ab_red (fun _ => False) ab_st0p ab_st1p ab_s0p []
                          eq_refl ab_leaf_eq eq_refl (ab_s0_empty _)).
Qed.

(* ================================================================== *)
(* 6. What the model does where it differs from CSS inheritance         *)
(* ================================================================== *)

(* O1 (recorded finding C20 tbody_style_dropped, DOM level): the rows of thead/tbody are
   spliced into the table, the style of the thead/tbody element is dropped; a style on tr is
   kept.  With a stub for the CSS front end (any attribute = "color:#f00"): *)
Definition ih_inline (attrs : list (text * text)) : res (list styledecl) :=
  Ok (match attrs with [] => [] | _ => [mksd (SColour 255 0 0) false] end).
Definition ih_el (name : list N) (styled : bool) (kids : list node) : node :=
  NElem true (of_ascii name) (if styled then [(of_ascii [115], of_ascii [120])] else []) kids.
Definition ih_dom (on_tbody on_tr : bool) : list node :=
  [ih_el [116; 97; 98; 108; 101] false
     [ih_el [116; 98; 111; 100; 121] on_tbody
        [ih_el [116; 114] on_tr [ih_el [116; 100] false [NText (ex_str [120])]]]]].
Definition ih_obs_dom (doc : list node) : res (list (list (list N * tag))) :=
  do t <- dom_to_render_tree styledata0 true ih_inline doc;
  ab_obs (render_tree rich_deco 3 ab_opts 30 t).
Example o1_tbody_colour_dropped :
  ih_obs_dom (ih_dom true false) = Ok [[([9472], [])]; [([120], [])]; [([9472], [])]].
Proof. vm_compute. reflexivity. Qed.
Example o1_tr_colour_kept :
  ih_obs_dom (ih_dom false true) =
  Ok [[([9472], [])]; [([120], [AColour 255 0 0])]; [([9472], [AColour 255 0 0])]].
Proof. vm_compute. reflexivity. Qed.

(* O2 (by design of the renderer, not of CSS): block structure carries the annotations of the
   node that makes it, not of the content it decorates (block_struct case of path_tag):
   - the bullet of <li style="color:#0f0"> has the colour of the <ul>, not of the <li>
     (ih_render_tree_obs: "* " is red, "i" is green);
   - the padding of a table cell, the column separators and the border below a row carry the
     annotations of the ROW (not the cell's background: "│y" above), the border above the
     first row those of the TABLE (without the row's background);
   - the prefix "> " of a quote has the quote's own colour. *)
Example o2_bullet_not_li_colour :
  ab_obs (render_tree rich_deco 3 ab_opts 30
            (ex_n (IUl [RN (IListItem [ab_txt [105]]) (sty_fg (0, 255, 0))]))) =
  Ok [[([42; 32], []); ([105], [AColour 0 255 0])]].
Proof. vm_compute. reflexivity. Qed.
Example o2_cell_padding_not_cell_bg :
  ab_obs (render_tree rich_deco 3 (render_options (set_pad (with_decorator rich_deco))) 9
            (ex_n (ITable [RRow [RCell 1 [ab_txt [120]] (sty_bg (1, 2, 3));
                                 RCell 1 [ab_txt [121; 121; 121]] cstyle0] cstyle0] 2))) =
  Ok [[([9472; 9516; 9472; 9472; 9472], [])];
      [([120], [ABg 1 2 3]); ([9474; 121; 121; 121], [])];
      [([9472; 9524; 9472; 9472; 9472], [])]].
Proof. vm_compute. reflexivity. Qed.

(* O3 (model only): <sup> with ASCII digits renders superscript digits itself; the style of its
   text child is not applied (Dom gives text nodes cstyle0, so this cannot be seen from HTML). *)
Example o3_sup_digits_ignore_child_style :
  ab_obs (render_tree rich_deco 3 ab_opts 30
            (ex_n (IBlock [ex_n (ISup [RN (IText (ex_str [49; 50])) (sty_fg (0, 255, 0))])]))) =
  Ok [[([185; 178], [])]].
Proof. vm_compute. reflexivity. Qed.
