(* Proofs/LinkWrapRel.v -- property C15 ("each layout option has exactly its documented effect;
   options that do not apply to a document leave its output unchanged") for the options
   `no_link_wrapping` (Config::no_link_wrapping, ropts field o_wrap_links) and `min_wrap_width`
   (the min_wrap argument of est_node / render_node / render_tree).  For all inputs, no axioms
   (every main theorem is followed by Print Assumptions), no hypothesis on decorator or width.

   PART A -- no_link_wrapping.   nowl o = o with o_wrap_links := false;  rw s = the sub-renderer s
   with nowl applied to its stored options  (same_but_links o1 o2 /\ o_wrap_links o2 = false
   -> o2 = nowl o1: same_but_links_eq).
   A1  nlw_render_node: render_node never reads o_wrap_links.  Obtained from Compose.node_sim_all
       with the relation RW a b := b = rw a; every sub-renderer operation COMMUTES with rw
       (`comm f : f (rw s) = rmap (f s)`, RW_ops).  Two runs from states whose top sub-renderers
       differ only in that option have the same outcome kind (the same Panic site) and end in
       states with the same links and tops again related by rw.
   A2  fmt_links_wrap_rel: what fmt_links appends for the same entries with and without wrapping:
       one line per entry without (the entry itself, line feeds of the target shown as spaces);
       with wrapping every entry is cut into >= 1 consecutive lines whose strings concatenate to
       the entry (Footnotes.entry_groups); every character of both carries the tag [ADefault]
       (pairs_ok: the (character, tag) pairs of the line); with wrapping on every line is at
       most swidth_ s wide, or is ONE single character wider than that (width_ok; the recorded
       finding C02 footnote_wide_char, example lw_wide_char); length new2 <= length new1.
       (fl_chars_pieces / fl_strings_pieces / fmt_links_pieces carry the invariant `finv`.)
   A3  nlw_render_tree:  res_rel (nlw_rel ..) (render_tree d mw o width tree)
                                             (render_tree d mw (nowl o) width tree)
       nlw_rel: no footnote list (footnotes off or no visited link) -> s2 = rw s1; otherwise the
       lines of both results are the lines of the SAME body followed by new1 / new2 as in A2 with
       entries finalise_from 1 (link_targets ..) ("[k]: " ++ target k:
       Footnotes.render_tree_footnote_entry).
       In the checker's words: nlw_lines (lines_rel: the same strings and the same per-character
       tags with the line breaks removed, length ls2 <= length ls1, ls1 = ls2 when there is no
       list), nlw_string (string_rel: strip_nl t1 = strip_nl t2 ...), and through Api.v
       nlw_lines_from_read, nlw_string_from_read, nlw_routes_unchanged (doc_no_list: footnotes
       off, or the document's render tree has no link -> the very same result).

   PART B -- min_wrap_width.  mw is read only by Render.text_est (e_min = min len mw); the
   estimates reach the renderer through (a) width_minus's minimum in the five prefixed blocks
   (heading, block quote, ul, ol, dd) and (b) the table layout.
   B1  minwrap_flat: flat tree = true (no prefixed block, no table: paragraphs, divs, <pre>, dl/dt,
       inline markup) -> render_tree d mw1 o width tree = render_tree d mw2 o width tree
       (the same outcome, failures included; overflow allowed or not).
   B2  minwrap_both_ok: Footnotes.no_table tree = true, o_allow_overflow o = false,
       render_tree d mw1 .. = Ok s1, render_tree d mw2 .. = Ok s2  ->  s1 = s2.
       (direct two-run induction; without overflow width_minus answers swidth - prefix whatever
       the minimum is: wm_indep.)  Both hypotheses and "both succeed" are needed:
       mw_one_side_too_narrow, mw_overflow_differs, mw_table_differs.
       So: NO two successful overflow-free table-free renders differ with mw alone.
   Routes: minwrap_routes_flat, minwrap_routes_both_ok (Config::min_wrap_width = set_min_wrap).

   Examples (non-vacuity): section C. *)
From H2T Require Import Base Tagged Wrap Sub Css Dom Render Api.
From H2T Require Import Proofs.WrapInv Proofs.Small Proofs.RenderWidth Proofs.Compose.
From H2T Require Proofs.TableProof Proofs.Footnotes.
From Coq Require Import Lia ZifyN ZifyBool ZifyNat.

Local Arguments N.add : simpl never.
Local Arguments N.sub : simpl never.
Local Arguments N.mul : simpl never.
Local Arguments N.div : simpl never.
Local Arguments N.modulo : simpl never.
Local Arguments N.leb : simpl never.
Local Arguments N.ltb : simpl never.
Local Arguments N.eqb : simpl never.
Local Arguments N.min : simpl never.
Local Arguments N.max : simpl never.
Local Arguments N.to_nat : simpl never.
Local Arguments N.of_nat : simpl never.
Local Open Scope N_scope.

(* ================================================================== *)
(* A.1  render_node never reads o_wrap_links                            *)
(* ================================================================== *)

(* the options with link wrapping switched off *)
Definition nowl (o : ropts) : ropts :=
  mkopts (wrap_width o) (o_allow_overflow o) (o_pad o) (o_raw o) (o_borders o) false
         (o_footnotes o) (o_strike o).

(* the same sub-renderer, link wrapping switched off in its stored options *)
Definition rw (s : subr) : subr := reopt s (nowl (sopts s)).

Definition RW (a b : subr) : Prop := b = rw a.

Definition rmap (r : res subr) : res subr :=
  match r with Ok s => Ok (rw s) | TooNarrow => TooNarrow | Panic i => Panic i | OutOfFuel => OutOfFuel end.

(* an operation of the sub-renderer commutes with rw *)
Definition comm (f : subr -> res subr) : Prop := forall s, f (rw s) = rmap (f s).
Definition commp (g : subr -> subr) : Prop := forall s, g (rw s) = rw (g s).

Lemma comm_opR f : comm f -> opR RW f.
Proof. intros H x y ->. rewrite H. destruct (f x); cbn [rmap res_rel]; reflexivity. Qed.

Lemma commp_pureR g : commp g -> pureR RW g.
Proof. intros H x y ->. unfold RW. apply H. Qed.

Lemma comm_bind f g : comm f -> comm g -> comm (fun s => do x <- f s; g x).
Proof.
  intros Hf Hg s. rewrite Hf. destruct (f s); cbn [rmap bind]; try reflexivity. apply Hg.
Qed.

Lemma comm_pure g : commp g -> comm (fun s => Ok (g s)).
Proof. intros H s. cbn [rmap]. rewrite H. reflexivity. Qed.

Lemma rw_of s' o : sopts s' = o -> reopt s' (nowl o) = rw s'.
Proof. intros <-. reflexivity. Qed.

Lemma add_line_rw l : commp (fun s => add_line s l).
Proof.
  intros s. unfold rw at 1. rewrite add_line_reopt. apply rw_of.
  destruct (add_line_same s l) as (_ & b & _). exact b.
Qed.

Lemma extend_lines_rw ls : commp (fun s => extend_lines s ls).
Proof.
  intros s. unfold rw at 1. rewrite extend_lines_reopt. apply rw_of.
  destruct (Compose.extend_lines_same ls s) as [_ b]. exact b.
Qed.

Lemma flush_rw : comm flush_wrapping.
Proof.
  intros s. unfold flush_wrapping. change (wrapping (rw s)) with (wrapping s).
  destruct (wrapping s) as [w|]; [|reflexivity].
  destruct (take_trailing_fragments w) as [w1 frags].
  destruct (wb_into_lines_markers w1) as [[ls mk]| | |]; cbn [bind rmap fst snd]; try reflexivity.
  change (set_wrapping (rw s) None) with (rw (set_wrapping s None)).
  rewrite (extend_lines_rw (map RText ls)). reflexivity.
Qed.

Lemma add_empty_line_rw : comm add_empty_line.
Proof.
  unfold add_empty_line. apply comm_bind; [apply flush_rw|]. apply comm_pure.
  intros s. rewrite (add_line_rw (RText tl_new)). reflexivity.
Qed.

Lemma start_block_rw : comm start_block.
Proof.
  intros s. unfold start_block. rewrite flush_rw.
  destruct (flush_wrapping s) as [s1| | |]; cbn [rmap bind]; try reflexivity.
  change (slines (rw s1)) with (slines s1).
  destruct (existsb rline_has_content (slines s1)).
  - rewrite add_empty_line_rw. destruct (add_empty_line s1); cbn [rmap bind]; reflexivity.
  - reflexivity.
Qed.

Lemma new_line_hard_rw : comm new_line_hard.
Proof.
  intros s. unfold new_line_hard. change (wrapping (rw s)) with (wrapping s).
  destruct (wrapping s) as [w|]; [|apply add_empty_line_rw].
  destruct ((wordlen w =? 0) && (tlen_ (wline w) =? 0)); [apply add_empty_line_rw|apply flush_rw].
Qed.

Lemma hline_rw b t : comm (fun s => add_horizontal_line s b t).
Proof.
  unfold add_horizontal_line. apply comm_bind; [apply flush_rw|]. apply comm_pure, add_line_rw.
Qed.

Lemma hborder_rw w : comm (fun s => add_horizontal_border_width s w).
Proof.
  intros s. unfold add_horizontal_border_width. rewrite flush_rw.
  destruct (flush_wrapping s) as [s1| | |]; cbn [rmap bind]; try reflexivity.
  change (ann_stack (rw s1)) with (ann_stack s1).
  rewrite (add_line_rw (RLine (border_new w) (ann_stack s1))). reflexivity.
Qed.

(* the part of add_inline_text after the optional start_block *)
Definition ait_tail (d : deco) (s1 : subr) (t : text) : res subr :=
  let ft := apply_filters (filter_depth s1) t in
  let w := get_wrapping s1 in
  let main_tag := if 0 <? pre_depth s1 then ann_stack s1 ++ [d_pre_first d] else ann_stack s1 in
  let cont_tag := if 0 <? pre_depth s1 then ann_stack s1 ++ [d_pre_cont d] else ann_stack s1 in
  do w1 <- wb_add_text w ft (ws_mode s1) main_tag cont_tag;
  Ok (set_wrapping s1 (Some w1)).

Lemma ait_tail_rw d t : comm (fun s => ait_tail d s t).
Proof.
  intros s. unfold ait_tail.
  change (filter_depth (rw s)) with (filter_depth s). change (get_wrapping (rw s)) with (get_wrapping s).
  change (pre_depth (rw s)) with (pre_depth s). change (ann_stack (rw s)) with (ann_stack s).
  change (ws_mode (rw s)) with (ws_mode s).
  match goal with |- bind ?e _ = _ => destruct e end; reflexivity.
Qed.

Lemma inline_rw d t : comm (fun s => add_inline_text d s t).
Proof.
  intros s. unfold add_inline_text.
  change (ws_mode (rw s)) with (ws_mode s). change (at_block_end (rw s)) with (at_block_end s).
  destruct (negb (preserve_ws (ws_mode s)) && at_block_end s && all_ws t); [reflexivity|].
  destruct (at_block_end s).
  - rewrite start_block_rw. destruct (start_block s) as [s1| | |]; cbn [rmap bind]; try reflexivity.
    apply (ait_tail_rw d t s1).
  - cbn [bind]. apply (ait_tail_rw d t s).
Qed.

Lemma push_ann_rw a : commp (fun s => push_ann s a).
Proof. intros s. reflexivity. Qed.
Lemma pop_ann_rw : commp pop_ann.
Proof. intros s. reflexivity. Qed.

Lemma start_deco_rw d p : comm (fun s => start_deco d s p).
Proof. intros s. unfold start_deco. rewrite (push_ann_rw (snd p) s). apply inline_rw. Qed.

Lemma end_deco_rw d e : comm (fun s => end_deco d s e).
Proof. unfold end_deco. apply comm_bind; [apply inline_rw|apply comm_pure, pop_ann_rw]. Qed.

Lemma start_strikeout_rw d : comm (start_strikeout d).
Proof.
  intros s. unfold start_strikeout. rewrite start_deco_rw.
  destruct (start_deco d s (d_strike_start d)) as [s1| | |]; cbn [rmap bind]; try reflexivity.
  change (o_strike (sopts (rw s1))) with (o_strike (sopts s1)).
  destruct (o_strike (sopts s1)); reflexivity.
Qed.

Lemma end_strikeout_rw d : comm (end_strikeout d).
Proof.
  intros s. unfold end_strikeout.
  change (o_strike (sopts (rw s))) with (o_strike (sopts s)).
  change (filter_depth (rw s)) with (filter_depth s).
  destruct (o_strike (sopts s)).
  - destruct (filter_depth s) as [|n]; [reflexivity|]. cbn [bind].
    apply (end_deco_rw d (d_strike_end d) (set_filter s n)).
  - cbn [bind]. apply end_deco_rw.
Qed.

Lemma image_rw d src t : comm (fun s => add_image d s src t).
Proof.
  intros s. unfold add_image. rewrite (push_ann_rw (snd (d_image d src t)) s), inline_rw.
  match goal with |- bind (rmap ?e) _ = _ => destruct e end; reflexivity.
Qed.

Lemma sub_into_lines_rw u : sub_into_lines (rw u) = sub_into_lines u.
Proof.
  unfold sub_into_lines. rewrite flush_rw. destruct (flush_wrapping u); reflexivity.
Qed.

Lemma append_rw x u f r :
  append_subrender (rw x) (rw u) f r = rmap (append_subrender x u f r).
Proof.
  unfold append_subrender. rewrite flush_rw, sub_into_lines_rw.
  destruct (flush_wrapping x) as [x1| | |]; cbn [rmap bind]; try reflexivity.
  destruct (sub_into_lines u) as [ols| | |]; cbn [rmap bind]; try reflexivity.
  change (ann_stack (rw x1)) with (ann_stack x1).
  rewrite (extend_lines_rw (attach_prefixes (ann_stack x1) f r ols)). reflexivity.
Qed.

Lemma Forall2_RW us vs : Forall2 RW us vs -> vs = map rw us.
Proof. induction 1 as [|u v us vs H _ IH]; [reflexivity|]. cbn [map]. rewrite H, IH. reflexivity. Qed.

Lemma vert_cols_rw : forall us x first,
  vert_cols (rw x) (map rw us) first = rmap (vert_cols x us first).
Proof.
  induction us as [|u us IH]; intros x first; cbn [vert_cols map]; [reflexivity|].
  change (o_borders (sopts (rw x))) with (o_borders (sopts x)).
  change (swidth_ (rw x)) with (swidth_ x). change (ann_stack (rw x)) with (ann_stack x).
  destruct (negb first && o_borders (sopts x)).
  - rewrite hline_rw.
    destruct (add_horizontal_line x (border_new_type (swidth_ x) StraightVert) (ann_stack x))
      as [x1| | |]; cbn [rmap bind]; try reflexivity.
    rewrite append_rw. destruct (append_subrender x1 u [] []); cbn [rmap bind]; try reflexivity.
    apply IH.
  - cbn [bind]. rewrite append_rw. destruct (append_subrender x u [] []); cbn [rmap bind]; try reflexivity.
    apply IH.
Qed.

Lemma vert_rw x us : append_vert_row (rw x) (map rw us) = rmap (append_vert_row x us).
Proof.
  unfold append_vert_row. rewrite flush_rw.
  destruct (flush_wrapping x) as [x1| | |]; cbn [rmap bind]; try reflexivity.
  rewrite vert_cols_rw. destruct (vert_cols x1 us true) as [x2| | |]; cbn [rmap bind]; try reflexivity.
  change (o_borders (sopts (rw x2))) with (o_borders (sopts x2)).
  destruct (o_borders (sopts x2)); [|reflexivity].
  unfold add_horizontal_border. change (swidth_ (rw x2)) with (swidth_ x2). apply hborder_rw.
Qed.

Lemma col_line_sets_rw t : forall us, col_line_sets t (map rw us) = col_line_sets t us.
Proof.
  induction us as [|u us IH]; cbn [col_line_sets map]; [reflexivity|].
  rewrite sub_into_lines_rw, IH. reflexivity.
Qed.

Lemma row_lines_rw t draw sets pads : forall n i s,
  row_lines t draw n i sets pads (rw s) = rw (row_lines t draw n i sets pads s).
Proof.
  induction n as [|n IH]; intros i s; cbn [row_lines]; [reflexivity|].
  rewrite (add_line_rw (RText (row_line t draw i sets pads tl_new)) s). apply IH.
Qed.

Lemma cols_rw x us collapse :
  append_columns_with_borders (rw x) (map rw us) collapse =
  rmap (append_columns_with_borders x us collapse).
Proof.
  unfold append_columns_with_borders. rewrite flush_rw.
  destruct (flush_wrapping x) as [x1| | |]; cbn [rmap bind]; try reflexivity.
  change (ann_stack (rw x1)) with (ann_stack x1). change (slines (rw x1)) with (slines x1).
  change (pending_frags (rw x1)) with (pending_frags x1).
  rewrite col_line_sets_rw.
  destruct (col_line_sets (ann_stack x1) us) as [sets| | |]; cbn [bind rmap]; try reflexivity.
  destruct (match sets with [] => Panic 36 | _ :: _ => Ok tt end) as [[]| | |];
    cbn [bind rmap]; try reflexivity.
  match goal with
  | |- (let '(p1, n1) := ?e in _) = _ => destruct e as [prev1 next1]
  end.
  match goal with
  | |- bind ?e _ = rmap (bind ?e _) =>
    destruct e as [[[[prev3 next3] sets4] pads]| | |]; cbn [bind rmap]; try reflexivity
  end.
  set (lines1 := match olast (slines x1) with
                 | Some (RLine _ pt) =>
                   match prev3 with
                   | Some pb => replace_last (slines x1) (RLine pb pt)
                   | None => slines x1
                   end
                 | _ => slines x1
                 end).
  change (set_lines (rw x1) lines1 (pending_frags x1))
    with (rw (set_lines x1 lines1 (pending_frags x1))).
  rewrite row_lines_rw.
  change (o_borders (sopts (rw (set_lines x1 lines1 (pending_frags x1)))))
    with (o_borders (sopts (set_lines x1 lines1 (pending_frags x1)))).
  destruct (o_borders (sopts (set_lines x1 lines1 (pending_frags x1)))); [|reflexivity].
  match goal with |- Ok (add_line (rw ?s3) ?l) = _ => rewrite (add_line_rw l s3) end.
  reflexivity.
Qed.

Lemma RW_ops d : SimOps d RW.
Proof.
  constructor.
  - intros r g b. apply commp_pureR. intros s. unfold push_colour. destruct (d_colours d); reflexivity.
  - intros r g b. apply commp_pureR. intros s. unfold push_bgcolour. destruct (d_colours d); reflexivity.
  - intros m. apply commp_pureR. intros s. reflexivity.
  - apply commp_pureR. intros s. reflexivity.
  - apply commp_pureR. intros s. unfold pop_colour. destruct (d_colours d); reflexivity.
  - apply commp_pureR. intros s. reflexivity.
  - apply comm_opR. intros s. unfold pop_preformat. change (pre_depth (rw s)) with (pre_depth s).
    destruct (0 <? pre_depth s); reflexivity.
  - intros t. apply comm_opR, inline_rw.
  - intros h. apply comm_opR. apply (start_deco_rw d (d_link_start d h)).
  - apply comm_opR. apply (end_deco_rw d (d_link_end d)).
  - intros x y ->. reflexivity.
  - apply comm_opR, (start_deco_rw d (d_em_start d)).
  - apply comm_opR, (end_deco_rw d (d_em_end d)).
  - apply comm_opR, (start_deco_rw d (d_strong_start d)).
  - apply comm_opR, (end_deco_rw d (d_strong_end d)).
  - apply comm_opR, start_strikeout_rw.
  - apply comm_opR, end_strikeout_rw.
  - apply comm_opR, (start_deco_rw d (d_code_start d)).
  - apply comm_opR, (end_deco_rw d (d_code_end d)).
  - apply comm_opR, (start_deco_rw d (d_sup_start d)).
  - apply comm_opR, (end_deco_rw d (d_sup_end d)).
  - intros src t. apply comm_opR, image_rw.
  - apply comm_opR, start_block_rw.
  - apply commp_pureR. intros s. reflexivity.
  - apply comm_opR, flush_rw.
  - apply comm_opR, new_line_hard_rw.
  - intros n. apply commp_pureR. intros s. reflexivity.
  - intros x y p mn ->. reflexivity.
  - intros x y p mn w -> _. reflexivity.
  - intros x y u v f r -> ->. rewrite append_rw.
    destruct (append_subrender x u f r); cbn [rmap res_rel]; reflexivity.
  - intros x y ->. reflexivity.
  - intros x y ->. reflexivity.
  - intros x y ->. reflexivity.
  - intros w. apply comm_opR, hborder_rw.
  - intros x y u v w -> _ ->. reflexivity.
  - intros x y us vs -> H. rewrite (Forall2_RW _ _ H), vert_rw.
    destruct (append_vert_row x us); cbn [rmap res_rel]; reflexivity.
  - intros x y us vs -> H. rewrite (Forall2_RW _ _ H), cols_rw.
    destruct (append_columns_with_borders x us true); cbn [rmap res_rel]; reflexivity.
  - intros u v ->. reflexivity.
Qed.

(* o2 = o1 except for o_wrap_links *)
Definition same_but_links (o1 o2 : ropts) : Prop :=
  wrap_width o2 = wrap_width o1 /\ o_allow_overflow o2 = o_allow_overflow o1 /\
  o_pad o2 = o_pad o1 /\ o_raw o2 = o_raw o1 /\ o_borders o2 = o_borders o1 /\
  o_footnotes o2 = o_footnotes o1 /\ o_strike o2 = o_strike o1.

Lemma same_but_links_eq o1 o2 :
  same_but_links o1 o2 -> o_wrap_links o2 = false -> o2 = nowl o1.
Proof.
  destruct o2 as [x1 x2 x3 x4 x5 x6 x7 x8]. unfold same_but_links, nowl.
  cbn [wrap_width o_allow_overflow o_pad o_raw o_borders o_wrap_links o_footnotes o_strike].
  intros (-> & -> & -> & -> & -> & -> & ->) ->. reflexivity.
Qed.

Lemma nowl_same o : same_but_links o (nowl o) /\ o_wrap_links (nowl o) = false.
Proof. unfold same_but_links. cbn. auto 10. Qed.

(* THEOREM A1 (the body is untouched).  Two runs of render_node from states that differ only in
   the stored o_wrap_links of the TOP sub-renderer (arbitrary tails) have the same outcome kind
   (the same Panic site) and, when Ok, end in states with the same links whose top
   sub-renderers again differ only in that stored option: render_node never reads it. *)
Theorem nlw_render_node d mw n s rest1 rest2 lk :
  res_rel (fun a b => links a = links b /\
                      exists s', stack a = s' :: rest1 /\ stack b = rw s' :: rest2)
          (render_node d mw n (mkrst (s :: rest1) lk))
          (render_node d mw n (mkrst (rw s :: rest2) lk)).
Proof.
  eapply res_rel_impl; [|apply (node_sim_all d mw RW (RW_ops d) n rest1 rest2)].
  - intros a b (Hl & s1 & s2 & E1 & E2 & ->). split; [exact Hl|]. exists s1. auto.
  - split; [reflexivity|]. exists s, (rw s). cbn [stack]. repeat split.
Qed.
Print Assumptions nlw_render_node.

(* ================================================================== *)
(* A.2  The footnote list: what fmt_links appends, with and without     *)
(*      link wrapping                                                   *)
(* ================================================================== *)

(* the (character, tag) pairs of a line: what lines_from_read shows *)
Definition epairs (e : elem) : list (chr * tag) :=
  match e with Str s t => map (fun c => (c, t)) s | Frag _ => [] end.
Definition tl_pairs (l : tline) : list (chr * tag) := flat_map epairs (tv l).
Definition rl_pairs (r : rline) : list (chr * tag) := tl_pairs (rline_into_tagged r).
(* every character tagged with the default annotation *)
Definition dflt (t : text) : list (chr * tag) := map (fun c => (c, [ADefault])) t.

Lemma dflt_app a b : dflt (a ++ b) = dflt a ++ dflt b.
Proof. apply map_app. Qed.

Lemma tag_eqb_default t0 : tag_eqb t0 [ADefault] = true -> t0 = [ADefault].
Proof.
  destruct t0 as [|a [|b t0]]; cbn [tag_eqb]; try discriminate.
  - destruct a; cbn [ann_eqb andb]; try discriminate. reflexivity.
  - rewrite andb_false_r. discriminate.
Qed.

Lemma vpm_cons2 e e' v s t : v_push_merge (e :: e' :: v) s t = e :: v_push_merge (e' :: v) s t.
Proof. reflexivity. Qed.

Lemma pairs_push_merge : forall v s,
  flat_map epairs (v_push_merge v s [ADefault]) = flat_map epairs v ++ dflt s.
Proof.
  induction v as [|e v IH]; intros s.
  - cbn [v_push_merge flat_map epairs app]. rewrite app_nil_r. reflexivity.
  - destruct v as [|e' v'].
    + cbn [v_push_merge]. destruct e as [s0 t0|nm].
      * destruct (tag_eqb t0 [ADefault]) eqn:E.
        -- apply tag_eqb_default in E. subst t0. cbn [flat_map epairs]. rewrite !app_nil_r.
           apply map_app.
        -- cbn [flat_map epairs]. rewrite !app_nil_r. reflexivity.
      * cbn [flat_map epairs app]. rewrite app_nil_r. reflexivity.
    + rewrite vpm_cons2. cbn [flat_map]. rewrite IH. cbn [flat_map]. rewrite app_assoc. reflexivity.
Qed.

Lemma pairs_push_str l s : tl_pairs (tl_push_str l s [ADefault]) = tl_pairs l ++ dflt s.
Proof.
  unfold tl_push_str. destruct s as [|c s]; [cbn [dflt map]; rewrite app_nil_r; reflexivity|].
  unfold tl_pairs. cbn [tv]. apply pairs_push_merge.
Qed.

(* pushing an element without text (a fragment marker, an empty string) adds no pair *)
Lemma pairs_push_empty l e : elem_text e = [] -> tl_pairs (tl_push l e) = tl_pairs l.
Proof.
  destruct e as [s t|nm]; cbn [elem_text tl_push].
  - intros ->. reflexivity.
  - intros _. unfold tl_pairs. cbn [tv]. rewrite flat_map_app. cbn [flat_map epairs app].
    apply app_nil_r.
Qed.

Lemma pairs_fold_empty : forall v l,
  flat_map elem_text v = [] -> tl_pairs (fold_left tl_push v l) = tl_pairs l.
Proof.
  induction v as [|e v IH]; intros l H; cbn [fold_left]; [reflexivity|].
  cbn [flat_map] in H. apply app_eq_nil in H. destruct H as [H1 H2].
  rewrite (IH _ H2). apply pairs_push_empty, H1.
Qed.

(* the lines fmt_links builds hold at most one string, tagged [ADefault] *)
Definition dl (wl : tline) : Prop := tv wl = [] \/ exists s, tv wl = [Str s [ADefault]].

Lemma dl_new : dl tl_new.
Proof. left. reflexivity. Qed.

Lemma dl_push wl s : dl wl -> dl (tl_push_str wl s [ADefault]).
Proof.
  unfold tl_push_str. destruct s as [|c s]; [auto|]. intros [E|[s0 E]]; right; cbn [tv]; rewrite E.
  - eexists. reflexivity.
  - eexists. reflexivity.
Qed.

Lemma dl_pairs wl : dl wl -> tl_pairs wl = dflt (tl_string wl).
Proof.
  intros [E|[s0 E]]; unfold tl_pairs, tl_string; rewrite E; cbn [flat_map epairs elem_text app];
    rewrite ?app_nil_r; reflexivity.
Qed.

(* one line added while no fragment text is pending: its string and its pairs *)
Lemma add_line_piece s wl :
  ptxt s = [] -> dl wl ->
  exists l', slines (add_line s (RText wl)) = slines s ++ [l'] /\
             rline_string l' = tl_string wl /\ rl_pairs l' = dflt (tl_string wl) /\
             pending_frags (add_line s (RText wl)) = [].
Proof.
  intros Hp Hd. unfold add_line, ptxt in *. destruct (pending_frags s) as [|e pf] eqn:E; sprj.
  - exists (RText wl). split; [reflexivity|]. split; [reflexivity|]. split; [apply dl_pairs, Hd|first [exact E|reflexivity]].
  - set (tl1 := fold_left tl_push (e :: pf) tl_new).
    assert (S1 : tl_string tl1 = []).
    { unfold tl1. rewrite string_fold_push, Hp. reflexivity. }
    assert (P1 : tl_pairs tl1 = []).
    { unfold tl1. rewrite (pairs_fold_empty _ _ Hp). reflexivity. }
    eexists. split; [reflexivity|]. unfold rl_pairs. cbn [rline_string rline_into_tagged].
    destruct Hd as [E2|[s0 E2]].
    + assert (S2 : tl_string wl = []) by (unfold tl_string; rewrite E2; reflexivity).
      rewrite S2, E2. cbn [fold_left]. rewrite S1, P1. auto.
    + assert (S2 : tl_string wl = s0) by (unfold tl_string; rewrite E2; cbn [flat_map elem_text]; apply app_nil_r).
      rewrite S2, E2. cbn [fold_left tl_push].
      rewrite TableProof.tl_string_push_str, pairs_push_str, S1, P1. auto.
Qed.

(* a line of the list: default tags; and - with link wrapping - not wider than the renderer,
   or one single character that is *)
Definition pairs_ok (r : rline) : Prop := rl_pairs r = dflt (rline_string r).
Definition width_ok (W : N) (r : rline) : Prop :=
  swidth (rline_string r) <= W \/ exists c, rline_string r = [c] /\ W < cw0 c.
Definition piece_ok (b : bool) (W : N) (r : rline) : Prop :=
  pairs_ok r /\ (b = true -> width_ok W r).

(* invariant of fl_chars / fl_strings when link wrapping is on: pos is the width of what has
   been collected for the current line (wl and buf), and that fits unless it is one single
   over-wide character *)
Definition finv (b : bool) (W : N) (wl : tline) (buf : text) (pos : N) : Prop :=
  b = true ->
  swidth (tl_string wl ++ buf) = pos /\
  (pos <= W \/ exists c, tl_string wl ++ buf = [c] /\ W < cw0 c).

Ltac conj := repeat match goal with |- _ /\ _ => split end.

Lemma fl_chars_pieces b W : forall cs s buf wl pos s' buf' wl' pos',
  swidth_ s = W -> ptxt s = [] -> dl wl -> finv b W wl buf pos ->
  fl_chars s [ADefault] cs buf wl pos = (s', buf', wl', pos') ->
  exists new, slines s' = slines s ++ new /\ Forall (piece_ok b W) new /\
              ptxt s' = [] /\ dl wl' /\ finv b W wl' buf' pos' /\
              swidth_ s' = W /\ sopts s' = sopts s.
Proof.
  induction cs as [|c cs IH]; intros s buf wl pos s' buf' wl' pos' Hw Hp Hd Hi H; cbn [fl_chars] in H.
  - injection H as <- <- <- <-. exists []. rewrite app_nil_r. conj; auto.
  - destruct (swidth_ s <? pos + cw0 c) eqn:Ec.
    + match type of H with
      | fl_chars (add_line s (RText ?w1)) _ _ _ _ _ = _ => set (wl1 := w1) in *
      end.
      assert (Hd1 : dl wl1) by (unfold wl1; destruct buf; [exact Hd|apply dl_push, Hd]).
      assert (S1 : tl_string wl1 = tl_string wl ++ buf).
      { unfold wl1. destruct buf; [rewrite app_nil_r; reflexivity|].
        apply TableProof.tl_string_push_str. }
      destruct (add_line_piece s wl1 Hp Hd1) as (l' & E1 & E2 & E3 & E4).
      destruct (add_line_same s (RText wl1)) as (a1 & a2 & _).
      apply IH in H; [|congruence|unfold ptxt; rewrite E4; reflexivity|apply dl_new|].
      * destruct H as (new & A & B & C & D & F & G1 & G2).
        exists (l' :: new). rewrite A, E1, <- app_assoc. split; [reflexivity|].
        split; [|conj; auto; congruence].
        constructor; [|exact B]. split.
        -- unfold pairs_ok. rewrite E3, E2. reflexivity.
        -- intros Hb. destruct (Hi Hb) as [I1 I2]. unfold width_ok. rewrite E2, S1.
           destruct I2 as [I2|(c0 & I2 & I3)]; [left; lia|right; eauto].
      * intros _. cbn [tl_string tl_new tv flat_map app swidth]. split; [lia|].
        destruct (N.le_gt_cases (cw0 c) W) as [L|L]; [left; lia|right; eauto].
    + apply IH in H; auto.
      intros Hb. destruct (Hi Hb) as [I1 I2]. rewrite app_assoc, swidth_app.
      cbn [swidth]. split; [lia|]. left. apply N.ltb_ge in Ec. lia.
Qed.

Lemma fl_strings_pieces W : forall strs s wl pos s' wl',
  swidth_ s = W -> ptxt s = [] -> dl wl -> finv (o_wrap_links (sopts s)) W wl [] pos ->
  fl_strings s strs wl pos = (s', wl') ->
  exists new, slines s' = slines s ++ new /\ Forall (piece_ok (o_wrap_links (sopts s)) W) new /\
              ptxt s' = [] /\ dl wl' /\ (exists pos', finv (o_wrap_links (sopts s)) W wl' [] pos') /\
              swidth_ s' = W /\ sopts s' = sopts s.
Proof.
  induction strs as [|[str tg] strs IH]; intros s wl pos s' wl' Hw Hp Hd Hi H; cbn [fl_strings] in H.
  - injection H as <- <-. exists []. rewrite app_nil_r. conj; eauto.
  - destruct (o_wrap_links (sopts s) && (swidth_ s <? pos + swidth (nl_to_space str))) eqn:Ec.
    + destruct (fl_chars s [ADefault] (nl_to_space str) [] wl pos) as [[[s1 buf] wl1] pos1] eqn:Ef.
      destruct (fl_chars_pieces _ W _ _ _ _ _ _ _ _ _ Hw Hp Hd Hi Ef)
        as (new1 & A1 & B1 & C1 & D1 & F1 & G1 & G2).
      apply IH in H; [|exact G1|exact C1|apply dl_push, D1|].
      * destruct H as (new2 & A2 & B2 & C2 & D2 & F2 & G3 & G4). rewrite G2 in *.
        exists (new1 ++ new2). rewrite A2, A1, <- app_assoc. split; [reflexivity|].
        split; [apply Forall_app; auto|]. conj; auto; congruence.
      * rewrite G2. intros Hb. destruct (F1 Hb) as [I1 I2].
        rewrite TableProof.tl_string_push_str, app_nil_r. auto.
    + apply IH in H; auto; [apply dl_push, Hd|].
      intros Hb. rewrite Hb in Ec. cbn [andb] in Ec. apply N.ltb_ge in Ec.
      destruct (Hi Hb) as [I1 I2]. rewrite app_nil_r in *.
      rewrite TableProof.tl_string_push_str, swidth_app. split; [lia|]. left. lia.
Qed.

Lemma fmt_links_pieces W : forall ls s,
  swidth_ s = W -> ptxt s = [] ->
  exists new, slines (fmt_links s ls) = slines s ++ new /\
              Forall (piece_ok (o_wrap_links (sopts s)) W) new.
Proof.
  induction ls as [|l ls IH]; intros s Hw Hp; cbn [fmt_links].
  - exists []. rewrite app_nil_r. auto.
  - destruct (fl_strings s (tl_tagged_strings l) tl_new 0) as [s1 wl] eqn:Ef.
    assert (Hi0 : finv (o_wrap_links (sopts s)) W tl_new [] 0).
    { intros _. cbn [tl_string tl_new tv flat_map app swidth]. split; [reflexivity|]. left. lia. }
    destruct (fl_strings_pieces W _ _ _ _ _ _ Hw Hp dl_new Hi0 Ef)
      as (new1 & A1 & B1 & C1 & D1 & (pos' & F1) & G1 & G2).
    destruct (add_line_piece s1 wl C1 D1) as (l' & E1 & E2 & E3 & E4).
    destruct (add_line_same s1 (RText wl)) as (a1 & a2 & _).
    destruct (IH (add_line s1 (RText wl))) as (new2 & A2 & B2);
      [congruence|unfold ptxt; rewrite E4; reflexivity|].
    rewrite a2, G2 in B2.
    exists ((new1 ++ [l']) ++ new2). rewrite A2, E1, A1, <- !app_assoc. split; [reflexivity|].
    apply Forall_app. split; [exact B1|]. constructor; [|exact B2]. split.
    + unfold pairs_ok. rewrite E3, E2. reflexivity.
    + intros Hb. destruct (F1 Hb) as [I1 I2]. rewrite app_nil_r in *. unfold width_ok. rewrite E2.
      destruct I2 as [I2|(c0 & I2 & I3)]; [left; lia|right; eauto].
Qed.

(* the groups of Footnotes.entry_groups: at least one line per entry, and the lines of all
   groups spell the entries in order *)
Lemma entry_groups_length es p new :
  Footnotes.entry_groups es p new -> (length es <= length new)%nat.
Proof.
  induction 1 as [p|e es p g rest Hg _ _ IH]; [cbn; lia|].
  rewrite app_length. cbn [length]. destruct g; [contradiction|cbn [length]; lia].
Qed.

Lemma entry_groups_concat_gen es p new :
  Footnotes.entry_groups es p new -> es <> [] \/ p = [] ->
  flat_map rline_string new = p ++ concat es.
Proof.
  induction 1 as [p|e es p g rest _ Hs _ IH]; intros Hne.
  - destruct Hne as [Hne| ->]; [contradiction|reflexivity].
  - rewrite flat_map_app, Hs, IH by (right; reflexivity). cbn [concat app].
    rewrite <- app_assoc. reflexivity.
Qed.

Lemma entry_groups_concat es new :
  Footnotes.entry_groups es [] new -> flat_map rline_string new = concat es.
Proof. intros H. apply (entry_groups_concat_gen _ _ _ H). right. reflexivity. Qed.

Lemma flat_map_rline_string ls : flat_map rline_string ls = concat (map rline_string ls).
Proof. apply flat_map_concat_map. Qed.

(* THEOREM A2.  The same sub-renderer s (no fragment text pending), once with its options and
   once with link wrapping switched off, formats the same entries ls:
   - without wrapping (new2): exactly one line per entry, the entry itself (line feeds of the
     target shown as spaces: Footnotes.entry_text l = nl_to_space (tl_string l));
   - with the options of s (new1): every entry is cut into one or more consecutive lines whose
     strings concatenate to the entry (Footnotes.entry_groups: no character lost, added or
     reordered), so there are at least as many lines;
   - in both, every character carries the tag [ADefault];
   - with wrapping on, every line is at most swidth_ s wide, except a line that consists of one
     single character wider than that (the recorded finding C02 footnote_wide_char). *)
Theorem fmt_links_wrap_rel : forall ls s,
  ptxt s = [] ->
  exists new1 new2,
    slines (fmt_links s ls) = slines s ++ new1 /\
    slines (fmt_links (rw s) ls) = slines s ++ new2 /\
    wrapping (fmt_links s ls) = wrapping s /\ wrapping (fmt_links (rw s) ls) = wrapping s /\
    Footnotes.entry_groups (map Footnotes.entry_text ls) [] new1 /\
    map rline_string new2 = map Footnotes.entry_text ls /\
    Forall pairs_ok new1 /\ Forall pairs_ok new2 /\
    (o_wrap_links (sopts s) = true -> Forall (width_ok (swidth_ s)) new1) /\
    (length new2 <= length new1)%nat /\
    flat_map rline_string new1 = flat_map rline_string new2.
Proof.
  intros ls s Hp.
  destruct (Footnotes.fmt_links_spec ls s) as (new1 & A1 & B1 & C1 & _).
  destruct (Footnotes.fmt_links_spec ls (rw s)) as (new2 & A2 & B2 & C2 & D2).
  change (Footnotes.pf_text s) with (ptxt s) in B1. rewrite Hp in B1.
  change (Footnotes.pf_text (rw s)) with (ptxt s) in B2, D2. rewrite Hp in B2, D2.
  specialize (D2 eq_refl).
  assert (D2' : map rline_string new2 = map Footnotes.entry_text ls).
  { rewrite D2. destruct (map Footnotes.entry_text ls); reflexivity. }
  destruct (fmt_links_pieces (swidth_ s) ls s eq_refl Hp) as (n1 & P1 & Q1).
  destruct (fmt_links_pieces (swidth_ s) ls (rw s) eq_refl Hp) as (n2 & P2 & Q2).
  rewrite A1 in P1. apply app_inv_head in P1. subst n1.
  rewrite A2 in P2. apply app_inv_head in P2. subst n2.
  exists new1, new2. split; [exact A1|]. split; [exact A2|]. split; [exact C1|]. split; [exact C2|].
  split; [exact B1|]. split; [exact D2'|].
  split; [eapply Forall_impl; [|exact Q1]; intros r Hr; apply Hr|].
  split; [eapply Forall_impl; [|exact Q2]; intros r Hr; apply Hr|].
  split; [intros Hb; eapply Forall_impl; [|exact Q1]; intros r Hr; apply Hr, Hb|].
  split.
  - pose proof (entry_groups_length _ _ _ B1) as L1.
    rewrite <- (map_length rline_string new2), D2'. exact L1.
  - rewrite (entry_groups_concat _ _ B1), flat_map_rline_string, D2'. reflexivity.
Qed.
Print Assumptions fmt_links_wrap_rel.

(* ================================================================== *)
(* A.3  render_tree and the public routes                               *)
(* ================================================================== *)

(* What relates the result s1 of render_tree with options o to the result s2 with link
   wrapping switched off.  L = the links the renderer visited (Footnotes.link_targets).
   - No footnote list (footnotes off, or no link): the results are equal up to the stored option.
   - Otherwise both results have no pending text, their lines are the lines of the SAME body b1
     (the rendered document after the start_block that separates the list from it) followed by
     the lines new1 / new2 of the list, related as in fmt_links_wrap_rel with
     ls = finalise_from 1 L, i.e. entry k = "[k]: " ++ target k. *)
Definition nlw_rel (d : deco) (mw : N) (o : ropts) (width : N) (tree : rnode) (s1 s2 : subr) : Prop :=
  let L := Footnotes.link_targets d mw o tree width in
  match (if o_footnotes o then L else []) with
  | [] => s2 = rw s1
  | _ :: _ =>
    exists st body b1 new1 new2,
      render_node d mw tree (mkrst [sub_new width o] []) = Ok st /\ stack st = [body] /\
      start_block body = Ok b1 /\
      sub_into_lines s1 = Ok (slines b1 ++ new1) /\
      sub_into_lines s2 = Ok (slines b1 ++ new2) /\
      Footnotes.entry_groups (map Footnotes.entry_text (finalise_from 1 L)) [] new1 /\
      map rline_string new2 = map Footnotes.entry_text (finalise_from 1 L) /\
      Forall pairs_ok new1 /\ Forall pairs_ok new2 /\
      (o_wrap_links o = true -> Forall (width_ok width) new1) /\
      (length new2 <= length new1)%nat /\
      flat_map rline_string new1 = flat_map rline_string new2
  end.

(* THEOREM A3 (whole renderer).  The two renders have the same outcome kind (the same Panic
   site); when Ok they are related by nlw_rel.  No hypothesis at all: any decorator, any
   options o (if o_wrap_links o = false already, nowl o = o and the statement is trivial but
   true), any width (0 included), any tree. *)
Theorem nlw_render_tree d mw o width tree :
  res_rel (nlw_rel d mw o width tree)
          (render_tree d mw o width tree) (render_tree d mw (nowl o) width tree).
Proof.
  unfold render_tree. destruct (est_of d mw tree) as [e| | |]; cbn [bind res_rel]; auto.
  pose proof (nlw_render_node d mw tree (sub_new width o) [] [] []) as G.
  change (rw (sub_new width o)) with (sub_new width (nowl o)) in G.
  destruct (render_node d mw tree (mkrst [sub_new width o] [])) as [a| | |] eqn:Ha;
    destruct (render_node d mw tree (mkrst [sub_new width (nowl o)] [])) as [b| | |];
    cbn [res_rel] in G; try contradiction; cbn [bind res_rel]; auto.
  destruct G as (Hl & s1 & E1 & E2). rewrite E1, E2, <- Hl.
  destruct (Footnotes.node_lt_all d mw o tree (mkrst [sub_new width o] []) a width eq_refl Ha) as [Sh Lk].
  cbn [links app] in Lk. unfold shape in Sh. rewrite E1 in Sh. cbn [stack map sub_new swidth_ sopts] in Sh.
  injection Sh as W1 O1.
  unfold sub_finalise. change (sopts (rw s1)) with (nowl (sopts s1)). cbn [o_footnotes nowl].
  rewrite O1, Lk. unfold nlw_rel.
  destruct (o_footnotes o) eqn:Hf; [|reflexivity].
  destruct (Footnotes.link_targets d mw o tree width) as [|u L'] eqn:EL; [reflexivity|].
  remember (finalise_from 1 (u :: L')) as F eqn:EF.
  destruct F as [|f F']; [cbn [finalise_from] in EF; discriminate|].
  rewrite start_block_rw. destruct (start_block s1) as [b1| | |] eqn:Hb; cbn [rmap bind res_rel]; auto.
  assert (Hp1 : ptxt s1 = []).
  { pose proof (clean_top_preserved d mw tree _ a Ha (clean_top_initial width o)) as C.
    unfold clean_top in C. rewrite E1 in C. exact C. }
  pose proof (keepc_start_block s1 b1 Hp1 Hb) as Hpb.
  pose proof (Footnotes.start_block_none _ _ Hb) as Hn.
  destruct (Footnotes.start_block_sames _ _ Hb) as [Wb Ob].
  destruct (fmt_links_wrap_rel (f :: F') b1 Hpb)
    as (new1 & new2 & A1 & A2 & C1 & C2 & G1 & G2 & P1 & P2 & Q1 & L1 & S1).
  exists a, s1, b1, new1, new2. split; [first [exact Ha|reflexivity]|]. split; [exact E1|]. split; [exact Hb|].
  split; [unfold sub_into_lines, flush_wrapping; rewrite C1, Hn; cbn [bind]; rewrite A1; reflexivity|].
  split; [unfold sub_into_lines, flush_wrapping; rewrite C2, Hn; cbn [bind]; rewrite A2; reflexivity|].
  split; [exact G1|]. split; [exact G2|]. split; [exact P1|]. split; [exact P2|].
  split; [|split; assumption].
  intros Hw. rewrite <- W1, <- Wb. apply Q1. rewrite Ob, O1. exact Hw.
Qed.
Print Assumptions nlw_render_tree.

(* ---- (3) in the checker's words ---- *)

(* two line lists: the same text with the line breaks removed (strings AND per-character tags),
   and the second has no more lines than the first *)
Definition lines_rel (ls1 ls2 : list rline) : Prop :=
  flat_map rline_string ls1 = flat_map rline_string ls2 /\
  flat_map rl_pairs ls1 = flat_map rl_pairs ls2 /\
  (length ls2 <= length ls1)%nat.

Lemma lines_rel_refl ls : lines_rel ls ls.
Proof. unfold lines_rel. auto. Qed.

Lemma pairs_ok_concat new :
  Forall pairs_ok new -> flat_map rl_pairs new = dflt (flat_map rline_string new).
Proof.
  induction 1 as [|r new Hr _ IH]; [reflexivity|]. cbn [flat_map]. rewrite dflt_app, IH, Hr. reflexivity.
Qed.

(* the footnote list is empty: footnotes are off, or the renderer visited no link *)
Definition no_list (d : deco) (mw : N) (o : ropts) (width : N) (tree : rnode) : Prop :=
  (if o_footnotes o then Footnotes.link_targets d mw o tree width else []) = [].

Lemma no_list_off d mw o width tree : o_footnotes o = false -> no_list d mw o width tree.
Proof. unfold no_list. intros ->. reflexivity. Qed.

Lemma no_list_no_link d mw o width tree :
  Footnotes.all_links tree = [] -> no_list d mw o width tree.
Proof.
  intros H. unfold no_list. destruct (o_footnotes o); [|reflexivity].
  apply Footnotes.subseq_nil_r. rewrite <- H. apply Footnotes.link_targets_subseq.
Qed.

Theorem nlw_lines d mw o width tree :
  res_rel (fun ls1 ls2 => lines_rel ls1 ls2 /\ (no_list d mw o width tree -> ls1 = ls2))
          (do s <- render_tree d mw o width tree; sub_into_lines s)
          (do s <- render_tree d mw (nowl o) width tree; sub_into_lines s).
Proof.
  pose proof (nlw_render_tree d mw o width tree) as H.
  destruct (render_tree d mw o width tree) as [s1| | |],
           (render_tree d mw (nowl o) width tree) as [s2| | |];
    cbn [res_rel] in H; try contradiction; cbn [bind res_rel]; auto.
  unfold nlw_rel, no_list in *.
  destruct (if o_footnotes o then Footnotes.link_targets d mw o tree width else []) as [|u L'].
  - subst s2. rewrite sub_into_lines_rw. destruct (sub_into_lines s1); cbn [res_rel]; auto.
    split; [apply lines_rel_refl|reflexivity].
  - destruct H as (st & body & b1 & new1 & new2 & _ & _ & _ & A1 & A2 & _ & _ & P1 & P2 & _ & L1 & S1).
    rewrite A1, A2. cbn [res_rel]. split; [|discriminate]. unfold lines_rel.
    rewrite !flat_map_app, !app_length, (pairs_ok_concat _ P1), (pairs_ok_concat _ P2), S1.
    split; [reflexivity|]. split; [reflexivity|lia].
Qed.
Print Assumptions nlw_lines.

Corollary nlw_lines_same d mw o width tree :
  no_list d mw o width tree ->
  (do s <- render_tree d mw (nowl o) width tree; sub_into_lines s) =
  (do s <- render_tree d mw o width tree; sub_into_lines s).
Proof.
  intros Hn. symmetry. apply res_rel_eq. eapply res_rel_impl; [|apply nlw_lines].
  intros a b [_ H]. exact (H Hn).
Qed.

(* the string: lines joined with a line feed after each; strip_nl removes every line feed *)
Definition strip_nl (t : text) : text := filter (fun c => negb (cp c =? 10)) t.
Definition join_lines (ls : list rline) : text :=
  flat_map (fun l => rline_string l ++ [newline_chr]) ls.

Lemma strip_nl_app a b : strip_nl (a ++ b) = strip_nl a ++ strip_nl b.
Proof. apply filter_app. Qed.

Lemma strip_join ls : strip_nl (join_lines ls) = strip_nl (flat_map rline_string ls).
Proof.
  induction ls as [|l ls IH]; [reflexivity|]. cbn [join_lines flat_map].
  fold (join_lines ls). rewrite !strip_nl_app, IH.
  change (strip_nl [newline_chr]) with (@nil chr). rewrite app_nil_r. reflexivity.
Qed.

Lemma sub_into_string_join s :
  sub_into_string s = (do ls <- sub_into_lines s; Ok (join_lines ls)).
Proof. reflexivity. Qed.

Definition string_rel (t1 t2 : text) : Prop :=
  strip_nl t1 = strip_nl t2 /\
  exists ls1 ls2, t1 = join_lines ls1 /\ t2 = join_lines ls2 /\ (length ls2 <= length ls1)%nat.

Theorem nlw_string d mw o width tree :
  res_rel (fun t1 t2 => string_rel t1 t2 /\ (no_list d mw o width tree -> t1 = t2))
          (do s <- render_tree d mw o width tree; sub_into_string s)
          (do s <- render_tree d mw (nowl o) width tree; sub_into_string s).
Proof.
  assert (E : forall r, (do s <- r; sub_into_string s) =
                        (do ls <- (do s <- r; sub_into_lines s); Ok (join_lines ls))).
  { intros r. rewrite bind_assoc. reflexivity. }
  rewrite !E. eapply res_rel_bind; [apply nlw_lines|].
  intros ls1 ls2 [(S1 & _ & L1) Hs]. cbn [res_rel].
  split; [|intros Hn; rewrite (Hs Hn); reflexivity].
  split; [rewrite !strip_join, S1; reflexivity|]. exists ls1, ls2. auto.
Qed.
Print Assumptions nlw_string.

Lemma flat_map_map {A B C} (f : B -> list C) (g : A -> B) (l : list A) :
  flat_map f (map g l) = flat_map (fun x => f (g x)) l.
Proof. induction l as [|x l IH]; [reflexivity|]. cbn [map flat_map]. rewrite IH. reflexivity. Qed.

Lemma string_into_tagged r : tl_string (rline_into_tagged r) = rline_string r.
Proof.
  destruct r as [l|b t]; [reflexivity|]. cbn [rline_into_tagged rline_string tl_push].
  rewrite TableProof.tl_string_push_str. reflexivity.
Qed.

(* two lists of tagged lines, as lines_from_read returns them *)
Definition tlines_rel (t1 t2 : list tline) : Prop :=
  flat_map tl_string t1 = flat_map tl_string t2 /\
  flat_map tl_pairs t1 = flat_map tl_pairs t2 /\
  (length t2 <= length t1)%nat.

Section RoutesA.
  Variable inl : list (text * text) -> res (list styledecl).
  Variable dr : list node -> res (list ruleset).

  (* the condition "the document has no link" on the render tree the document produces *)
  Definition doc_no_list (c : config) (doc : list node) : Prop :=
    c_footnotes c = false \/
    forall tree, to_render_tree inl dr c doc = Ok tree -> Footnotes.all_links tree = [].

  Lemma doc_no_list_tree c doc tree w :
    doc_no_list c doc -> to_render_tree inl dr c doc = Ok tree ->
    no_list (c_deco c) (c_min_wrap c) (render_options c) w tree.
  Proof.
    intros [H|H] Ht; [apply no_list_off; exact H|apply no_list_no_link, H, Ht].
  Qed.

  Theorem nlw_lines_from_read c doc w :
    res_rel (fun t1 t2 => tlines_rel t1 t2 /\ (doc_no_list c doc -> t1 = t2))
            (lines_from_read inl dr c doc w)
            (lines_from_read inl dr (set_no_link_wrap c) doc w).
  Proof.
    unfold lines_from_read.
    change (to_render_tree inl dr (set_no_link_wrap c) doc) with (to_render_tree inl dr c doc).
    destruct (to_render_tree inl dr c doc) as [tree| | |] eqn:Et; cbn [bind res_rel]; auto.
    unfold render_with_context. cbn [c_deco c_min_wrap set_no_link_wrap].
    change (render_options (set_no_link_wrap c)) with (nowl (render_options c)).
    destruct (w =? 0); [exact I|].
    rewrite <- !bind_assoc. eapply res_rel_bind; [apply nlw_lines|].
    intros ls1 ls2 [(S1 & P1 & L1) Hs]. cbn [res_rel].
    split; [|intros Hn; rewrite (Hs (doc_no_list_tree c doc tree w Hn Et)); reflexivity].
    unfold tlines_rel. rewrite !flat_map_map, !map_length.
    split; [|split; [exact P1|exact L1]].
    rewrite (flat_map_ext _ _ string_into_tagged), S1. symmetry. apply flat_map_ext, string_into_tagged.
  Qed.

  Theorem nlw_string_from_read c doc w :
    res_rel (fun t1 t2 => string_rel t1 t2 /\ (doc_no_list c doc -> t1 = t2))
            (string_from_read inl dr c doc w)
            (string_from_read inl dr (set_no_link_wrap c) doc w).
  Proof.
    unfold string_from_read.
    change (to_render_tree inl dr (set_no_link_wrap c) doc) with (to_render_tree inl dr c doc).
    destruct (to_render_tree inl dr c doc) as [tree| | |] eqn:Et; cbn [bind res_rel]; auto.
    unfold render_with_context. cbn [c_deco c_min_wrap set_no_link_wrap].
    change (render_options (set_no_link_wrap c)) with (nowl (render_options c)).
    destruct (w =? 0); [exact I|].
    eapply res_rel_impl; [|apply nlw_string].
    intros t1 t2 [H1 H2]. split; [exact H1|]. intros Hn. apply H2, (doc_no_list_tree c doc tree w Hn Et).
  Qed.

  (* "options that do not apply to a document leave its output unchanged" *)
  Corollary nlw_routes_unchanged c doc w :
    doc_no_list c doc ->
    lines_from_read inl dr (set_no_link_wrap c) doc w = lines_from_read inl dr c doc w /\
    string_from_read inl dr (set_no_link_wrap c) doc w = string_from_read inl dr c doc w.
  Proof.
    intros Hn. split; symmetry; apply res_rel_eq.
    - eapply res_rel_impl; [|apply nlw_lines_from_read]. intros a b [_ H]. exact (H Hn).
    - eapply res_rel_impl; [|apply nlw_string_from_read]. intros a b [_ H]. exact (H Hn).
  Qed.
End RoutesA.
Print Assumptions nlw_lines_from_read.
Print Assumptions nlw_string_from_read.
Print Assumptions nlw_routes_unchanged.

(* ================================================================== *)
(* B.  min_wrap_width                                                   *)
(* ================================================================== *)
(* WHERE `min_wrap` (the mw argument of est_node / render_node / render_tree) IS READ: only in
   Render.text_est (e_min of a text = min (its length) mw).  The estimates est_node d mw n are
   used by render_node in exactly two ways:
   (a) the minimum inner width of a block with a prefix (heading, block quote, ul, ol, dd):
       `width_minus tp prefix (e_min sz - prefix)`, which answers TooNarrow when the rest is
       smaller than that minimum (overflow not allowed) or makes the inner renderer at least
       that wide (overflow allowed);
   (b) table layout (column widths from e_size / e_min of the cells).
   So the option "does not apply" to a tree without prefixed blocks and tables (B1: the same
   result, unconditionally), and in a table-free tree without allow_width_overflow it can only
   turn a successful rendering into TooNarrow, never change it (B2). *)

(* no block with a prefix and no table: paragraphs, divs, <pre> (a style), dl/dt, inline markup *)
Fixpoint flat (n : rnode) {struct n} : bool :=
  match rn_info n with
  | IText _ | IImg _ _ | IBreak | IFragStart _ => true
  | ILink _ cs
  | IContainer cs | IEm cs | IStrong cs | IStrikeout cs | ICode cs | IBlock cs | IListItem cs
  | IDiv cs | IDl cs | IDt cs | ISup cs => forallb flat cs
  | IHeader _ _ | IBlockQuote _ | IUl _ | IOl _ _ | IDd _
  | ITable _ _ | ITableRow _ | ITableBody _ | ITableCell _ => false
  end.

Lemma est_kids_total d mw cs :
  Forall (fun c => exists e, est_node d mw c = Ok e) cs -> exists e, est_kids d mw cs = Ok e.
Proof.
  unfold est_kids. generalize est0.
  induction cs as [|c cs IH]; intros a HF; cbn [fold_left]; [eauto|].
  inversion HF as [|? ? [e He] HF']; subst. cbn [bind]. rewrite He. cbn [bind]. apply IH, HF'.
Qed.

Lemma est_flat d mw : forall n, flat n = true -> exists e, est_node d mw n = Ok e.
Proof.
  apply (rnode_ind' (fun n => flat n = true -> exists e, est_node d mw n = Ok e)).
  intros i sty IH Hf.
  assert (K : forall cs, Forall (fun n => flat n = true -> exists e, est_node d mw n = Ok e) cs ->
                         forallb flat cs = true -> exists e, est_kids d mw cs = Ok e).
  { intros cs HF Hc. apply est_kids_total. rewrite Forall_forall in *. rewrite forallb_forall in Hc.
    intros c Hin. auto. }
  destruct i; cbn [flat rn_info] in Hf; try discriminate Hf; cbn [direct_kids] in IH;
    try (eexists; reflexivity);
    try (change (exists e, est_kids d mw cs = Ok e); exact (K _ IH Hf)).
  (* ILink *)
  change (exists e, (do e0 <- est_kids d mw cs; Ok (est_add e0 (mkest 5 5 0))) = Ok e).
  destruct (K _ IH Hf) as [e0 E0]. rewrite E0. cbn [bind]. eauto.
Qed.

Lemma bind_ext {A B} (e : res A) (k1 k2 : A -> res B) :
  (forall x, k1 x = k2 x) -> bind e k1 = bind e k2.
Proof. intros H. destruct e; cbn [bind]; auto. Qed.

Section MinWrap.
  Variable d : deco.
  Variables mw1 mw2 : N.

  (* ---------------- B1: flat trees ---------------- *)
  Definition nodeF (n : rnode) : Prop :=
    flat n = true -> forall st, render_node d mw1 n st = render_node d mw2 n st.

  Lemma kidsF cs : Forall nodeF cs -> forallb flat cs = true -> forall acc,
    fold_left (fun acc c => do s <- acc; render_node d mw1 c s) cs acc =
    fold_left (fun acc c => do s <- acc; render_node d mw2 c s) cs acc.
  Proof.
    induction 1 as [|c cs Hc _ IH]; intros Hf acc; cbn [fold_left]; [reflexivity|].
    cbn [forallb] in Hf. apply andb_true_iff in Hf. destruct Hf as [H1 H2].
    assert (E : (do s <- acc; render_node d mw1 c s) = (do s <- acc; render_node d mw2 c s))
      by (apply bind_ext; intros x; apply (Hc H1)).
    rewrite E. apply IH, H2.
  Qed.

  (* syntactic checks only: a conversion test between the two runs would unfold render_node *)
  Ltac srefl := match goal with |- ?x = ?y => constr_eq x y; reflexivity end.
  Ltac bstep :=
    lazymatch goal with
    | |- bind ?e1 _ = bind ?e2 _ => constr_eq e1 e2; apply bind_ext; intros ?
    | |- (let '(a, b) := ?p in _) = _ => destruct p
    | |- match sup_digits ?c with _ => _ end = _ => destruct (sup_digits c)
    end.

  Lemma nodeF_all : forall n, nodeF n.
  Proof.
    apply rnode_ind'. intros i sty IH Hf st.
    destruct (est_flat d mw1 _ Hf) as [e1 E1]. destruct (est_flat d mw2 _ Hf) as [e2 E2].
    destruct i; cbn [flat rn_info] in Hf; try discriminate Hf; cbn [direct_kids] in IH;
      cbn [render_node rn_info rn_style]; unfold est_of; rewrite E1, E2; cbn [bind];
      repeat first [srefl | rewrite (kidsF _ IH Hf) | bstep].
  Qed.

  (* THEOREM B1.  A tree without prefixed blocks and tables renders identically for every two
     values of min_wrap_width: the same outcome (Ok with the same sub-renderer, or the same
     failure), for every decorator, all options (allow_width_overflow included), every width. *)
  Theorem minwrap_flat o width tree :
    flat tree = true -> render_tree d mw1 o width tree = render_tree d mw2 o width tree.
  Proof.
    intros Hf. unfold render_tree, est_of.
    destruct (est_flat d mw1 _ Hf) as [e1 E1]. destruct (est_flat d mw2 _ Hf) as [e2 E2].
    rewrite E1, E2. cbn [bind]. rewrite (nodeF_all tree Hf). reflexivity.
  Qed.
End MinWrap.
Print Assumptions minwrap_flat.

(* ---------------- B2: table-free trees, overflow not allowed ---------------- *)

(* every sub-renderer on the (non-empty) stack forbids width overflow; a property of the shape *)
Definition ovoff (st : rstate) : Prop :=
  shape st <> [] /\ Forall (fun p => o_allow_overflow (snd p) = false) (shape st).

Lemma ovoff_shape a b : shape b = shape a -> ovoff a -> ovoff b.
Proof. unfold ovoff. intros ->. auto. Qed.

Lemma ovoff_T a b l : Footnotes.T a b l -> ovoff a -> ovoff b.
Proof. intros [E _]. apply ovoff_shape, E. Qed.

Lemma ovoff_top st : ovoff st -> exists tp, top st = Ok tp /\ o_allow_overflow (sopts tp) = false.
Proof.
  unfold ovoff, shape, top. destruct (stack st) as [|s rest]; cbn [map]; intros [H1 H2];
    [contradiction|]. exists s. split; [reflexivity|]. exact (Forall_inv H2).
Qed.

Lemma ovoff_top_off st tp : ovoff st -> top st = Ok tp -> o_allow_overflow (sopts tp) = false.
Proof. intros H Ht. destruct (ovoff_top st H) as (tp' & E & Ho). congruence. Qed.

Lemma ovoff_push st tp w : ovoff st -> top st = Ok tp -> ovoff (push_sub st (new_sub_renderer tp w)).
Proof.
  intros H Ht. pose proof (ovoff_top_off st tp H Ht) as Ho. destruct H as [_ H2].
  unfold ovoff, shape. cbn [push_sub stack map]. split; [discriminate|]. constructor; [exact Ho|exact H2].
Qed.

Lemma ovoff_geo st tp : top st = Ok tp -> Footnotes.geo st = Some (swidth_ tp, sopts tp).
Proof. apply Footnotes.top_geo. Qed.

Lemma ovoff_node d mw n st st' : ovoff st -> render_node d mw n st = Ok st' -> ovoff st'.
Proof.
  intros H Hr. destruct (ovoff_top st H) as (tp & Ht & _).
  apply (ovoff_shape st); [|exact H]. exact (Footnotes.render_node_shape d mw n st st' tp Ht Hr).
Qed.

(* render a node into a fresh sub-renderer pushed on the stack, pop it: the stack below is as
   before *)
Lemma ovoff_scope d mw n st tp w s2 sub s3 :
  ovoff st -> top st = Ok tp ->
  render_node d mw n (push_sub st (new_sub_renderer tp w)) = Ok s2 -> pop_sub s2 = Ok (sub, s3) ->
  ovoff s3.
Proof.
  intros H Ht Hr Hp.
  pose proof (Footnotes.node_lt_all d mw (sopts tp) n _ s2 w (Footnotes.push_geo st tp w) Hr) as R.
  destruct (Footnotes.sub_scope_T st tp w s2 sub s3 _ R Hp) as [R3 _].
  exact (ovoff_T _ _ _ R3 H).
Qed.

Lemma width_minus_off tp p m w :
  o_allow_overflow (sopts tp) = false -> width_minus tp p m = Ok w -> w = swidth_ tp - p.
Proof.
  unfold width_minus. intros ->. cbn [negb]. rewrite andb_true_r.
  destruct ((swidth_ tp - p <? m) || (swidth_ tp <? p)) eqn:E; [discriminate|].
  apply orb_false_iff in E. destruct E as [E1 E2]. apply N.ltb_ge in E1. intros H. ok_inv H. lia.
Qed.

(* without overflow the width of a prefixed block does not depend on the estimated minimum *)
Lemma wm_indep tp p m1 m2 w1 w2 :
  o_allow_overflow (sopts tp) = false ->
  width_minus tp p m1 = Ok w1 -> width_minus tp p m2 = Ok w2 -> w1 = w2.
Proof.
  intros Ho H1 H2. rewrite (width_minus_off _ _ _ _ Ho H1), (width_minus_off _ _ _ _ Ho H2). reflexivity.
Qed.

(* two monadic folds with different step functions from the same state: if corresponding
   successful steps agree on states satisfying an invariant, so do the folds *)
Lemma fold2_eq {A B} (I : A -> Prop) (f1 f2 : B -> A -> res A) : forall l,
  (forall b, In b l -> forall a a1 a2, I a -> f1 b a = Ok a1 -> f2 b a = Ok a2 -> a1 = a2 /\ I a1) ->
  forall a r1 r2, I a ->
    fold_left (fun acc b => do s <- acc; f1 b s) l (Ok a) = Ok r1 ->
    fold_left (fun acc b => do s <- acc; f2 b s) l (Ok a) = Ok r2 -> r1 = r2 /\ I r1.
Proof.
  induction l as [|b l IH]; intros Hs a r1 r2 Ha H1 H2.
  - cbn [fold_left] in *. ok_inv H1. ok_inv H2. auto.
  - apply fold_bind_cons in H1. destruct H1 as (x1 & E1 & H1).
    apply fold_bind_cons in H2. destruct H2 as (x2 & E2 & H2).
    destruct (Hs b (or_introl eq_refl) a x1 x2 Ha E1 E2) as [<- Hx].
    apply (IH (fun b' Hb' => Hs b' (or_intror Hb')) x1 r1 r2 Hx H1 H2).
Qed.

Section MinWrap2.
  Variable d : deco.
  Variables mw1 mw2 : N.

  Definition nodeQ (n : rnode) : Prop :=
    Footnotes.no_table n = true -> forall st a b, ovoff st ->
    render_node d mw1 n st = Ok a -> render_node d mw2 n st = Ok b -> a = b.

  Lemma kidsQ cs : Forall nodeQ cs -> forallb Footnotes.no_table cs = true -> forall st a b,
    ovoff st ->
    fold_left (fun acc c => do s <- acc; render_node d mw1 c s) cs (Ok st) = Ok a ->
    fold_left (fun acc c => do s <- acc; render_node d mw2 c s) cs (Ok st) = Ok b ->
    a = b /\ ovoff a.
  Proof.
    intros HF Hn st a b Ho H1 H2.
    refine (fold2_eq ovoff (render_node d mw1) (render_node d mw2) cs _ st a b Ho H1 H2).
    intros c Hc x x1 x2 Hx E1 E2. rewrite Forall_forall in HF. rewrite forallb_forall in Hn.
    split; [exact (HF c Hc (Hn c Hc) x x1 x2 Hx E1 E2)|exact (ovoff_node _ _ _ _ _ Hx E1)].
  Qed.

  (* H1 : (do x <- e; k1 x) = Ok a, H2 : (do x <- e; k2 x) = Ok b  (the same e): one x *)
  Ltac sync H1 H2 x Hx :=
    bind_inv H1 x Hx;
    let y := fresh "y" in let Hy := fresh "Hy" in
    bind_inv H2 y Hy; rewrite Hx in Hy; injection Hy as Hy; subst y.
  Ltac fin H1 H2 := rewrite H1 in H2; injection H2 as H2; exact H2.

  Lemma with_top_ov f st st' : Footnotes.sames f -> ovoff st -> with_top st f = Ok st' -> ovoff st'.
  Proof. intros Hf Ho H. exact (ovoff_T _ _ _ (Footnotes.with_top_T f st st' Hf H) Ho). Qed.

  (* start; children; end; unwind *)
  Lemma wrapQ (f1 f2 : subr -> res subr) cs ps st1 a b :
    Footnotes.sames f1 -> Forall nodeQ cs -> forallb Footnotes.no_table cs = true -> ovoff st1 ->
    (do x <- with_top st1 f1;
     do y <- fold_left (fun acc c => do s <- acc; render_node d mw1 c s) cs (Ok x);
     do z <- with_top y f2; unwind d ps z) = Ok a ->
    (do x <- with_top st1 f1;
     do y <- fold_left (fun acc c => do s <- acc; render_node d mw2 c s) cs (Ok x);
     do z <- with_top y f2; unwind d ps z) = Ok b -> a = b.
  Proof.
    intros K1 HF Hn Ho H1 H2. sync H1 H2 x Hx.
    pose proof (with_top_ov _ _ _ K1 Ho Hx) as Hox.
    bind_inv H1 y1 Y1. bind_inv H2 y2 Y2.
    destruct (kidsQ cs HF Hn x y1 y2 Hox Y1 Y2) as [<- _].
    sync H1 H2 z Hz. fin H1 H2.
  Qed.

  Lemma nodeQ_all : forall n, nodeQ n.
  Proof.
    apply rnode_ind'. intros i sty IH Hn st a b Ho H1 H2.
    destruct i; cbn [Footnotes.no_table rn_info] in Hn; try discriminate Hn;
      cbn [direct_kids] in IH; cbn [render_node rn_info rn_style] in H1, H2;
      bind_inv H1 sz1 Hsz1; bind_inv H2 sz2 Hsz2; sync H1 H2 ap Hap; destruct ap as [st1 ps];
      pose proof (ovoff_T _ _ _ (Footnotes.apply_style_T d _ _ _ _ Hap) Ho) as Ho1.
    - (* IText *) sync H1 H2 x Hx. fin H1 H2.
    - (* IContainer *)
      bind_inv H1 y1 Y1. bind_inv H2 y2 Y2.
      destruct (kidsQ cs IH Hn st1 y1 y2 Ho1 Y1 Y2) as [<- _]. fin H1 H2.
    - (* ILink *)
      sync H1 H2 x Hx.
      assert (Hox : ovoff x).
      { eapply with_top_ov; [apply (Footnotes.start_deco_sames d (d_link_start d href))| |exact Hx].
        exact Ho1. }
      bind_inv H1 y1 Y1. bind_inv H2 y2 Y2.
      destruct (kidsQ cs IH Hn x y1 y2 Hox Y1 Y2) as [<- _].
      sync H1 H2 z Hz. sync H1 H2 tp Htp. sync H1 H2 u Hu. fin H1 H2.
    - (* IEm *)
      exact (wrapQ (start_emphasis d) (end_emphasis d) cs ps st1 a b (Footnotes.start_deco_sames d (d_em_start d)) IH Hn Ho1 H1 H2).
    - (* IStrong *)
      exact (wrapQ (start_strong d) (end_strong d) cs ps st1 a b (Footnotes.start_deco_sames d (d_strong_start d)) IH Hn Ho1 H1 H2).
    - (* IStrikeout *)
      exact (wrapQ (start_strikeout d) (end_strikeout d) cs ps st1 a b (Footnotes.start_strikeout_sames d) IH Hn Ho1 H1 H2).
    - (* ICode *)
      exact (wrapQ (start_code d) (end_code d) cs ps st1 a b (Footnotes.start_deco_sames d (d_code_start d)) IH Hn Ho1 H1 H2).
    - (* IImg *) sync H1 H2 x Hx. fin H1 H2.
    - (* IBlock *)
      exact (wrapQ start_block (fun s => Ok (end_block s)) cs ps st1 a b Footnotes.start_block_sames IH Hn Ho1 H1 H2).
    - (* IHeader *)
      destruct (swidth (d_header_prefix d level) =? e_prefix sz1) eqn:P1; cbn [negb] in H1; [|discriminate].
      destruct (swidth (d_header_prefix d level) =? e_prefix sz2) eqn:P2; cbn [negb] in H2; [|discriminate].
      apply N.eqb_eq in P1, P2. rewrite <- P1 in H1. rewrite <- P2 in H2.
      sync H1 H2 tp Htp. bind_inv H1 w1 W1. bind_inv H2 w2 W2.
      assert (w2 = w1) by (symmetry; eapply wm_indep; [eapply ovoff_top_off; eassumption|eassumption..]).
      subst w2.
      bind_inv H1 y1 Y1. bind_inv H2 y2 Y2.
      destruct (kidsQ cs IH Hn _ y1 y2 (ovoff_push _ _ w1 Ho1 Htp) Y1 Y2) as [<- _].
      sync H1 H2 pp Hpp. destruct pp as [sub st3].
      sync H1 H2 st4 H4. sync H1 H2 st5 H5. sync H1 H2 st6 H6. fin H1 H2.
    - (* IDiv *)
      exact (wrapQ new_line new_line cs ps st1 a b Footnotes.flush_wrapping_sames IH Hn Ho1 H1 H2).
    - (* IBlockQuote *)
      destruct (e_prefix sz1 =? swidth (d_quote_prefix d)); cbn [negb] in H1; [|discriminate].
      destruct (e_prefix sz2 =? swidth (d_quote_prefix d)); cbn [negb] in H2; [|discriminate].
      bind_inv H1 iw1 I1. bind_inv H2 iw2 I2.
      sync H1 H2 tp Htp. bind_inv H1 w1 W1. bind_inv H2 w2 W2.
      assert (w2 = w1) by (symmetry; eapply wm_indep; [eapply ovoff_top_off; eassumption|eassumption..]).
      subst w2.
      bind_inv H1 y1 Y1. bind_inv H2 y2 Y2.
      destruct (kidsQ cs IH Hn _ y1 y2 (ovoff_push _ _ w1 Ho1 Htp) Y1 Y2) as [<- _].
      sync H1 H2 pp Hpp. destruct pp as [sub st3].
      sync H1 H2 st4 H4. sync H1 H2 st5 H5. sync H1 H2 st6 H6. fin H1 H2.
    - (* IUl *)
      bind_inv H1 y1 Y1. bind_inv H2 y2 Y2.
      enough (E : y1 = y2 /\ ovoff y1) by (destruct E as [<- _]; fin H1 H2).
      revert Y1 Y2. apply (fold2_eq ovoff); [|exact Ho1].
      intros item Hitem x x1 x2 Hx E1 E2.
      bind_inv E1 iw1 I1. bind_inv E2 iw2 I2.
      sync E1 E2 tp Htp. bind_inv E1 w1 W1. bind_inv E2 w2 W2.
      assert (w2 = w1) by (symmetry; eapply wm_indep; [eapply ovoff_top_off; eassumption|eassumption..]).
      subst w2.
      bind_inv E1 s2 S2. bind_inv E2 s2' S2'.
      rewrite Forall_forall in IH. rewrite forallb_forall in Hn.
      pose proof (IH item Hitem (Hn item Hitem) _ s2 s2' (ovoff_push _ _ w1 Hx Htp) S2 S2') as <-.
      sync E1 E2 pp Hpp. destruct pp as [sub s3].
      pose proof (ovoff_scope _ _ _ _ _ _ _ _ _ Hx Htp S2 Hpp) as Ho3.
      split; [fin E1 E2|].
      eapply with_top_ov; [apply Footnotes.append_subrender_sames|exact Ho3|exact E1].
    - (* IOl *)
      bind_inv H1 r1 Rb1. bind_inv H2 r2 Rb2.
      enough (E : r1 = r2 /\ ovoff (fst r1)) by (destruct E as [<- _]; fin H1 H2).
      revert Rb1 Rb2.
      apply (fold2_eq (fun si : rstate * Z => ovoff (fst si))); [|exact Ho1].
      intros item Hitem [x i] [x1 i1] [x2 i2] Hx E1 E2. cbn [fst] in Hx |- *.
      bind_inv E1 iw1 I1. bind_inv E2 iw2 I2.
      sync E1 E2 tp Htp. bind_inv E1 w1 W1. bind_inv E2 w2 W2.
      assert (w2 = w1) by (symmetry; eapply wm_indep; [eapply ovoff_top_off; eassumption|eassumption..]).
      subst w2.
      bind_inv E1 s2 S2. bind_inv E2 s2' S2'.
      rewrite Forall_forall in IH. rewrite forallb_forall in Hn.
      pose proof (IH item Hitem (Hn item Hitem) _ s2 s2' (ovoff_push _ _ w1 Hx Htp) S2 S2') as <-.
      sync E1 E2 pp Hpp. destruct pp as [sub s3].
      pose proof (ovoff_scope _ _ _ _ _ _ _ _ _ Hx Htp S2 Hpp) as Ho3.
      sync E1 E2 s4 S4. ok_inv E1. ok_inv E2. split; [reflexivity|].
      eapply with_top_ov; [apply Footnotes.append_subrender_sames|exact Ho3|exact S4].
    - (* IDl *)
      sync H1 H2 x Hx.
      pose proof (with_top_ov _ _ _ Footnotes.start_block_sames Ho1 Hx) as Hox.
      bind_inv H1 y1 Y1. bind_inv H2 y2 Y2.
      destruct (kidsQ cs IH Hn x y1 y2 Hox Y1 Y2) as [<- _]. fin H1 H2.
    - (* IDt *)
      sync H1 H2 x Hx.
      pose proof (with_top_ov _ _ _ Footnotes.flush_wrapping_sames Ho1 Hx) as Hox.
      exact (wrapQ (start_emphasis d) (end_emphasis d) cs ps x a b (Footnotes.start_deco_sames d (d_em_start d)) IH Hn Hox H1 H2).
    - (* IDd *)
      bind_inv H1 iw1 I1. bind_inv H2 iw2 I2.
      sync H1 H2 tp Htp. bind_inv H1 w1 W1. bind_inv H2 w2 W2.
      assert (w2 = w1) by (symmetry; eapply wm_indep; [eapply ovoff_top_off; eassumption|eassumption..]).
      subst w2.
      bind_inv H1 y1 Y1. bind_inv H2 y2 Y2.
      destruct (kidsQ cs IH Hn _ y1 y2 (ovoff_push _ _ w1 Ho1 Htp) Y1 Y2) as [<- _].
      sync H1 H2 pp Hpp. destruct pp as [sub st3].
      sync H1 H2 st4 H4. fin H1 H2.
    - (* IBreak *) sync H1 H2 x Hx. fin H1 H2.
    - (* IFragStart *) sync H1 H2 x Hx. fin H1 H2.
    - (* IListItem *)
      exact (wrapQ start_block (fun s => Ok (end_block s)) cs ps st1 a b Footnotes.start_block_sames IH Hn Ho1 H1 H2).
    - (* ISup *)
      destruct (sup_digits cs) as [ds|].
      + sync H1 H2 x Hx. fin H1 H2.
      + exact (wrapQ (start_superscript d) (end_superscript d) cs ps st1 a b (Footnotes.start_deco_sames d (d_sup_start d)) IH Hn Ho1 H1 H2).
  Qed.

  (* THEOREM B2.  A tree without tables (prefixed blocks allowed, nested in any way), rendered
     without allow_width_overflow: whenever the renderings with two values of min_wrap_width
     both succeed, they give the same result (the same sub-renderer: lines, tags, fragment
     markers).  For every decorator, width and all other options. *)
  Theorem minwrap_both_ok o width tree s1 s2 :
    Footnotes.no_table tree = true -> o_allow_overflow o = false ->
    render_tree d mw1 o width tree = Ok s1 -> render_tree d mw2 o width tree = Ok s2 -> s1 = s2.
  Proof.
    intros Hn Hov H1 H2. unfold render_tree in H1, H2.
    bind_inv H1 e1 E1. bind_inv H2 e2 E2. bind_inv H1 st1 S1. bind_inv H2 st2 S2.
    assert (Ho : ovoff (mkrst [sub_new width o] [])).
    { unfold ovoff, shape. cbn [stack map sub_new swidth_ sopts snd]. split; [discriminate|].
      constructor; [exact Hov|constructor]. }
    pose proof (nodeQ_all tree Hn _ st1 st2 Ho S1 S2) as <-. fin H1 H2.
  Qed.
End MinWrap2.
Print Assumptions minwrap_both_ok.

(* ---- through the public routes: Config::min_wrap_width ---- *)
Section RoutesMinWrap.
  Variable inl : list (text * text) -> res (list styledecl).
  Variable dr : list node -> res (list ruleset).

  (* the option does not apply: no prefixed block, no table in the document's render tree *)
  Theorem minwrap_routes_flat c doc w m :
    (forall tree, to_render_tree inl dr c doc = Ok tree -> flat tree = true) ->
    lines_from_read inl dr (set_min_wrap c m) doc w = lines_from_read inl dr c doc w /\
    string_from_read inl dr (set_min_wrap c m) doc w = string_from_read inl dr c doc w.
  Proof.
    intros Hf. unfold lines_from_read, string_from_read.
    change (to_render_tree inl dr (set_min_wrap c m) doc) with (to_render_tree inl dr c doc).
    destruct (to_render_tree inl dr c doc) as [tree| | |] eqn:Et; cbn [bind]; [|auto..].
    unfold render_with_context. cbn [c_deco c_min_wrap set_min_wrap].
    change (render_options (set_min_wrap c m)) with (render_options c).
    destruct (w =? 0); [auto|].
    rewrite (minwrap_flat (c_deco c) m (c_min_wrap c) (render_options c) w tree (Hf tree eq_refl)). auto.
  Qed.

  (* table-free document, overflow not allowed: if both succeed the results are equal *)
  Theorem minwrap_routes_both_ok c doc w m :
    (forall tree, to_render_tree inl dr c doc = Ok tree -> Footnotes.no_table tree = true) ->
    c_overflow c = false ->
    (forall r1 r2, lines_from_read inl dr (set_min_wrap c m) doc w = Ok r1 ->
                   lines_from_read inl dr c doc w = Ok r2 -> r1 = r2) /\
    (forall r1 r2, string_from_read inl dr (set_min_wrap c m) doc w = Ok r1 ->
                   string_from_read inl dr c doc w = Ok r2 -> r1 = r2).
  Proof.
    intros Hn Hov. unfold lines_from_read, string_from_read.
    change (to_render_tree inl dr (set_min_wrap c m) doc) with (to_render_tree inl dr c doc).
    destruct (to_render_tree inl dr c doc) as [tree| | |] eqn:Et; cbn [bind];
      [|split; intros; discriminate..].
    unfold render_with_context. cbn [c_deco c_min_wrap set_min_wrap].
    change (render_options (set_min_wrap c m)) with (render_options c).
    destruct (w =? 0); [split; intros; discriminate|].
    split; intros r1 r2 H1 H2; bind_inv H1 s1 S1; bind_inv H2 s2 S2;
      pose proof (minwrap_both_ok (c_deco c) m (c_min_wrap c) (render_options c) w tree s1 s2
                    (Hn tree eq_refl) Hov S1 S2) as <-; rewrite H1 in H2; injection H2 as H2; exact H2.
  Qed.
End RoutesMinWrap.
Print Assumptions minwrap_routes_flat.
Print Assumptions minwrap_routes_both_ok.

(* ================================================================== *)
(* C.  Examples (non-vacuity) and counterexamples                       *)
(* ================================================================== *)
Definition lw_opts : ropts := Footnotes.fn_opts.      (* plain decorator, footnotes, link wrapping *)
Definition lw_tx (l : list N) : rnode := ex_n (IText (ex_str l)).
(* http://ex.com/a/b *)
Definition lw_long : text := ex_str [104;116;116;112;58;47;47;101;120;46;99;111;109;47;97;47;98].
(* <p>a <a href="http://ex.com/a/b">p</a></p> *)
Definition lw_tree : rnode := ex_n (IBlock [lw_tx [97;32]; ex_n (ILink lw_long [lw_tx [112]])]).

(* A: the footnote entry "[1]: http://ex.com/a/b" at width 10: three pieces with wrapping, one
   line without; same_but_links holds for the two option sets *)
Example lw_outputs :
  o_wrap_links lw_opts = true /\ same_but_links lw_opts (nowl lw_opts) /\
  Footnotes.fn_out (render_tree plain_deco 3 lw_opts 10 lw_tree) =
  Ok [[97; 32; 91; 112; 93; 91; 49; 93]; [];
      [91; 49; 93; 58; 32; 104; 116; 116; 112; 58];
      [47; 47; 101; 120; 46; 99; 111; 109; 47; 97]; [47; 98]] /\
  Footnotes.fn_out (render_tree plain_deco 3 (nowl lw_opts) 10 lw_tree) =
  Ok [[97; 32; 91; 112; 93; 91; 49; 93]; [];
      [91; 49; 93; 58; 32; 104; 116; 116; 112; 58; 47; 47; 101; 120; 46; 99; 111; 109; 47; 97; 47; 98]].
Proof.
  split; [reflexivity|]. split; [apply nowl_same|]. split; vm_compute; reflexivity.
Qed.

(* the theorem applied to it: both renders are Ok, 5 and 3 lines, related by lines_rel *)
Example lw_applies :
  exists ls1 ls2,
    (do s <- render_tree plain_deco 3 lw_opts 10 lw_tree; sub_into_lines s) = Ok ls1 /\
    (do s <- render_tree plain_deco 3 (nowl lw_opts) 10 lw_tree; sub_into_lines s) = Ok ls2 /\
    length ls1 = 5%nat /\ length ls2 = 3%nat /\ lines_rel ls1 ls2.
Proof.
  pose proof (nlw_lines plain_deco 3 lw_opts 10 lw_tree) as H.
  assert (E1 : exists ls1, (do s <- render_tree plain_deco 3 lw_opts 10 lw_tree; sub_into_lines s)
                           = Ok ls1 /\ length ls1 = 5%nat)
    by (vm_compute; eexists; split; reflexivity).
  assert (E2 : exists ls2, (do s <- render_tree plain_deco 3 (nowl lw_opts) 10 lw_tree; sub_into_lines s)
                           = Ok ls2 /\ length ls2 = 3%nat)
    by (vm_compute; eexists; split; reflexivity).
  destruct E1 as (ls1 & E1 & L1). destruct E2 as (ls2 & E2 & L2).
  rewrite E1, E2 in H. cbn [res_rel] in H. exists ls1, ls2. intuition.
Qed.

(* the recorded finding C02 footnote_wide_char: at width 1 a target character of width 2 gets a
   line of its own, wider than the renderer (width_ok's second alternative); the text is still
   conserved *)
Definition lw_wide : text := [mkchr 23383 (Some 2) false 16].
Definition lw_tree_wide : rnode := ex_n (IBlock [ex_n (ILink lw_wide [lw_tx [112]])]).
Example lw_wide_char :
  Footnotes.fn_out (render_tree plain_deco 3 lw_opts 1 lw_tree_wide) =
  Ok [[91]; [112]; [93]; [91]; [49]; [93]; []; [91]; [49]; [93]; [58]; [32]; [23383]] /\
  Footnotes.fn_out (render_tree plain_deco 3 (nowl lw_opts) 1 lw_tree_wide) =
  Ok [[91]; [112]; [93]; [91]; [49]; [93]; []; [91; 49; 93; 58; 32; 23383]].
Proof. split; vm_compute; reflexivity. Qed.

(* a link-free document: unchanged (no_list holds) *)
Example lw_no_link :
  no_list plain_deco 3 lw_opts 10 (ex_n (IBlock [lw_tx [97;32;98]])) /\
  render_tree plain_deco 3 (nowl lw_opts) 10 (ex_n (IBlock [lw_tx [97;32;98]])) =
  (do s <- render_tree plain_deco 3 lw_opts 10 (ex_n (IBlock [lw_tx [97;32;98]])); Ok (rw s)).
Proof. split; [apply no_list_no_link; reflexivity|vm_compute; reflexivity]. Qed.

(* B *)
Definition mw_pre : cstyle :=
  mkcs (mkcore ws_default ws_default ws_default (maybe_update ws_default false OAgent spec0 WsPre)
               ws_default) None None true.
Definition mw_o : ropts := render_options (with_decorator plain_deco).
Definition mw_oo : ropts := render_options (set_overflow (with_decorator plain_deco)).
(* <p>hello <em>wide</em> world</p><div>ab cd</div><pre>p  q</pre> *)
Definition mw_flat : rnode :=
  ex_n (IContainer
   [ex_n (IBlock [lw_tx [104;101;108;108;111;32]; ex_n (IEm [lw_tx [119;105;100;101]]);
                  lw_tx [32;119;111;114;108;100]]);
    ex_n (IDiv [lw_tx [97;98;32;99;100]]);
    RN (IBlock [lw_tx [112;32;32;113]]) mw_pre]).
Example mw_flat_applies :
  flat mw_flat = true /\
  Footnotes.fn_out (render_tree plain_deco 1 mw_o 7 mw_flat) =
  Ok [[104; 101; 108; 108; 111]; [119; 105; 100; 101]; [119; 111; 114; 108; 100]; [];
      [97; 98; 32; 99; 100]; []; [112; 32; 32; 113]] /\
  render_tree plain_deco 30 mw_o 7 mw_flat = render_tree plain_deco 1 mw_o 7 mw_flat.
Proof.
  split; [reflexivity|]. split; [vm_compute; reflexivity|]. apply minwrap_flat. reflexivity.
Qed.

(* <blockquote>ab c d</blockquote><ul><li>x y</li></ul><ol><li>k</li></ol>
   <dl><dt>t</dt><dd>dd e</dd></dl><h2>hh</h2>  at width 6, min_wrap 1 and 3: both Ok, equal *)
Definition mw_pref : rnode :=
  ex_n (IContainer
   [ex_n (IBlockQuote [lw_tx [97;98;32;99;32;100]]);
    ex_n (IUl [ex_n (IListItem [lw_tx [120;32;121]])]);
    ex_n (IOl 1 [ex_n (IListItem [lw_tx [107]])]);
    ex_n (IDl [ex_n (IDt [lw_tx [116]]); ex_n (IDd [lw_tx [100;100;32;101]])]);
    ex_n (IHeader 2 [lw_tx [104;104]])]).
Example mw_pref_applies :
  Footnotes.no_table mw_pref = true /\ o_allow_overflow mw_o = false /\
  Footnotes.fn_out (render_tree plain_deco 1 mw_o 6 mw_pref) =
  Ok [[62; 32; 97; 98; 32; 99]; [62; 32; 100]; [42; 32; 120; 32; 121]; [49; 46; 32; 107]; [];
      [116]; [32; 32; 100; 100; 32; 101]; []; [35; 35; 32; 104; 104]] /\
  (forall s1 s2, render_tree plain_deco 1 mw_o 6 mw_pref = Ok s1 ->
                 render_tree plain_deco 3 mw_o 6 mw_pref = Ok s2 -> s1 = s2) /\
  (exists s2, render_tree plain_deco 3 mw_o 6 mw_pref = Ok s2).
Proof.
  split; [reflexivity|]. split; [reflexivity|]. split; [vm_compute; reflexivity|]. split.
  - intros s1 s2. apply minwrap_both_ok; reflexivity.
  - vm_compute. eexists. reflexivity.
Qed.

(* "both succeed" is needed: a larger min_wrap_width makes <ul><li>a b</li></ul> TooNarrow at
   width 4 (the documented effect of the option, finding short_split_min_width in DomSplit) *)
Definition mw_ul : rnode := ex_n (IUl [ex_n (IListItem [lw_tx [97;32;98]])]).
Example mw_one_side_too_narrow :
  Footnotes.fn_out (render_tree plain_deco 3 mw_o 4 mw_ul) = TooNarrow /\
  Footnotes.fn_out (render_tree plain_deco 1 mw_o 4 mw_ul) = Ok [[42; 32; 97]; [32; 32; 98]].
Proof. split; vm_compute; reflexivity. Qed.

(* `o_allow_overflow o = false` is needed: with overflow allowed two SUCCESSFUL table-free
   renderings differ with min_wrap alone (<blockquote>a b</blockquote> at width 3: the inner
   renderer is max (3 - 2) (estimated minimum) wide) *)
Definition mw_q : rnode := ex_n (IBlockQuote [lw_tx [97;32;98]]).
Example mw_overflow_differs :
  Footnotes.no_table mw_q = true /\
  Footnotes.fn_out (render_tree plain_deco 3 mw_oo 3 mw_q) = Ok [[62; 32; 97; 32; 98]] /\
  Footnotes.fn_out (render_tree plain_deco 1 mw_oo 3 mw_q) = Ok [[62; 32; 97]; [62; 32; 98]].
Proof. split; [reflexivity|]. split; vm_compute; reflexivity. Qed.

(* tables are excluded for a reason: the estimated minima decide the column widths *)
Definition mw_cell (l : list N) : rcell := RCell 1 [lw_tx l] cstyle0.
Definition mw_tab : rnode :=
  ex_n (ITable [RRow [mw_cell [97;97;97;97;32;98;98;98;98;32;99;99;99;99;32;100;100;100;100;32;
                                101;101;101;101;32;102;102;102;102];
                      mw_cell [120;121;122]] cstyle0] 2).
Example mw_table_differs :
  (do ls <- Footnotes.fn_out (render_tree plain_deco 3 mw_o 10 mw_tab); Ok (nth 1 ls [])) =
  Ok [97; 97; 97; 97; 32; 32; 9474; 120; 121; 122] /\
  (do ls <- Footnotes.fn_out (render_tree plain_deco 1 mw_o 10 mw_tab); Ok (nth 1 ls [])) =
  Ok [97; 97; 97; 97; 32; 32; 32; 32; 9474; 120].
Proof. split; vm_compute; reflexivity. Qed.

(* ================================================================== *)
(* SUMMARY                                                              *)
(* ==================================================================
   PART A (no_link_wrapping), no hypotheses:
     nlw_render_node     render_node commutes with switching o_wrap_links off (body untouched)
     fmt_links_wrap_rel  the footnote list with / without wrapping (pieces, tags, widths, counts)
     nlw_render_tree     res_rel nlw_rel (render_tree .. o ..) (render_tree .. (nowl o) ..)
     nlw_lines, nlw_string, nlw_lines_from_read, nlw_string_from_read, nlw_routes_unchanged
   PART B (min_wrap_width):
     minwrap_flat        flat tree -> the same result for all mw1 mw2
     minwrap_both_ok     no_table tree, overflow off, both Ok -> the same result
     minwrap_routes_flat, minwrap_routes_both_ok
   Not proved / remarks:
     - A: pieces of an entry may be EMPTY lines only when the very first character of an entry
       is wider than the renderer (fl_chars then flushes the empty line collected so far); in
       render_tree an entry starts with "[" (width 1), so for width >= 1 this cannot happen; it
       is not stated as a theorem.  The width clause is stated for o_wrap_links o = true only.
     - B2 is stated for table-free trees; with tables the estimates decide the column widths
       (mw_table_differs), which is the documented effect of the option. *)
