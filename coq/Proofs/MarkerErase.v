(* Proofs/MarkerErase.v -- property C14, clause "markers never change the text": the render tree
   WITH its fragment markers (IFragStart nodes, Frag elements in the lines) and the same tree
   WITHOUT them (FragTables.erase) give the same strings.  No axioms (Print Assumptions after
   every main theorem: Closed under the global context).

   MAIN THEOREMS
     c14_erase_strings (section 7), for every decorator d, min_wrap mw, options o, width, tree n:
         marker_clean n = true -> o_allow_overflow o = false ->
         res_rel (fun s s' => res_rel same_text (sub_into_lines s) (sub_into_lines s') /\
                              sub_into_string s = sub_into_string s')
                 (render_tree d mw o width n) (render_tree d mw o width (erase n))
       Compose.res_rel = the same outcome kind (Ok / TooNarrow / the same Panic site / OutOfFuel);
       same_text ls ls' = map rline_string equal (hence the same number of lines) and the same
       border lines (map rline_border equal: segments and tag).
       (erase_render_tree: the two resulting sub-renderers are related by SR, section 5.)
     c14_erase_string_route, c14_erase_string_from_read, c14_erase_lines_from_read (RoutesE):
       Api.render_with_context / string_from_read / lines_from_read of a document whose render
       tree is `tree` = the same route on `erase tree` (strings equal; lines: map tl_string equal).
       Tree level only: a DOM-level erase is not the tree-level one (see the comment there).
     c14_erase_strings_overflow (section 10): with allow_width_overflow SET, whenever the marked
       tree also renders without the flag (i.e. the flag is not needed), both runs under the flag
       succeed and give the same text (from SimRel.c11_overflow_noop_render).
   SIDE CONDITIONS (decidable), each one NEEDED - the counterexamples are FINDINGS, computed by
   vm_compute in section 9, from the tree and from HTML through string_from_read, and reproduced
   on the implementation:
     marker_clean n = ol_clean n && us_clean n:
       FragTables.ol_clean: no marker directly below IOl (it would be counted as an item; Dom never
         builds that);
       us_clean (a) no marker directly below IUl - Dom DOES build that (ul_marker_item):
         a<ul><span id=x></span></ul>b  renders "a"/"b" (TooNarrow at width 1) but without the id
         "ab": every child of <ul> is rendered as an item, which flushes the pending text and
         runs the item's width check;  (sufficient, not necessary: a marker item after a real
         item is harmless)
       us_clean (b) sup_ok: a marker below ISup must not hide a sole all-digit text
         (sup_marker_digits): <sup><span id=x></span>12</sup> renders ^{12}, without the id the
         superscript digits - the root cause of the recorded finding sup_digits_wrapped.
     o_allow_overflow o = false (overflow_zero_width): with the flag and a character wider than
       the block, a ZERO-WIDTH character next to the marker changes the lines:
         <p>&#x301;<span id=x></span>&#x4E16;</p> at width 1: one line; without the id: two
         (the wide character joins a line of width 0 that already holds the accent);
         <p>&#x4E16;<span id=x></span>&#x301;</p>: two lines; without the id: one
         (Wrap.take_zw, the repair aa6dbdd, does not reach across the piece boundary).
       Without the flag both are TooNarrow on both sides (the theorem covers it).
   NO finding: a line holding only a marker never becomes a visible blank line (such a line is
   never emitted: flush_line tests tl_is_empty, the markers wait in pending_frags and join the
   next text line); sub_empty / start_block / new_line_hard / table-row emptiness do not see
   markers (sub_empty_rel, has_content_rel, new_line_hard_rel); PreTags' cut_regular corner is
   exactly the overflow finding above.
   NOT PROVED: allow_width_overflow when the flag IS needed and no zero-width character is near a
   marker (true by the analysis of section 3 - the two corners are the only uses of the flag -
   but it needs the hypothesis "no zero-width character in any text, decorator string, and no
   strikeout filter" threaded through a copy of SimRel's GOps; not done).  A DOM-level statement.

   METHOD.  One lock-step simulation of the two runs (SimRel.rs in mode MStrict; SimRel's GOps
   record instantiated by SR_ops, its lemmas g_apply_style / g_unwind / g_scope reused; the tree
   induction enode_all is SimRel.gnode_all redone for child lists of different lengths: e_kids).
     lines (section 1): lrel l l' = the same tl_string, both well formed (wfl: cached length
       exact, no Str with an empty string).  Tags are NOT compared: no string depends on a tag,
       and with wfl `tl_is_empty` is "the string is empty".
     wrapped blocks (section 2): WR = the same scalar fields, lines related by lrel, pending words
       with the same TEXT (wdrel: vtext equal, whatever the pieces).
     hard wrap (section 3, the core): hw_piece = hwp (no w / wpos / consumed bookkeeping,
       hw_piece_hwp); hwp_rel (B: the same text on related blocks, any sufficient fuel);
       hwp_split (A: the piece s1 ++ s2 is wrapped like s1 then s2 - the only place where
       allow_overflow = false is used: scanp_app_lt and the zero-width corner of hwp_split_fit);
       hw_elems_hwp (H: a word, piece by piece with markers in between = its text in one piece);
       hw_elems_rel: the hard wrap of a word depends on its text only.
     sub-renderers (section 5): SR = the same scalar fields, lines related (rlrel), pending markers
       are markers, WR (get_wrapping x) (get_wrapping y) - no pending block = a fresh one
       (flush_wrapping_G, new_line_hard_alt, sub_empty_alt).  SR_frag_l: recording a marker on
       ONE side keeps SR.  append_columns_rel: the side-by-side table rows.
     frag_node_run: a marker node, whatever its style, only records the marker. *)
From H2T Require Import Base Tagged Wrap Sub Css Dom Render Api.
From H2T Require Import Proofs.WrapInv Proofs.Small Proofs.RenderWidth Proofs.OptionRel.
From H2T Require Import Proofs.Compose Proofs.SimRel.
From H2T Require Import Proofs.Conserve Proofs.Footnotes Proofs.RenderConserve Proofs.FragStream.
From H2T Require Import Proofs.FragTables.
From Coq Require Import Lia ZifyN ZifyBool ZifyNat.

Local Arguments N.add : simpl never.
Local Arguments N.sub : simpl never.
Local Arguments N.mul : simpl never.
Local Arguments N.div : simpl never.
Local Arguments N.modulo : simpl never.
Local Arguments N.leb : simpl never.
Local Arguments N.ltb : simpl never.
Local Arguments N.eqb : simpl never.
Local Arguments N.min : simpl never.
Local Arguments N.max : simpl never.
Local Arguments N.to_nat : simpl never.
Local Arguments N.of_nat : simpl never.
Local Open Scope N_scope.

(* ================================================================== *)
(* 0. Outcome relation (SimRel.rs in mode MStrict): helpers             *)
(* ================================================================== *)
Notation rss := (rs MStrict).

Lemma rss_sym {A B} (P : A -> B -> Prop) (Q : B -> A -> Prop) x y :
  (forall a b, P a b -> Q b a) -> rss P x y -> rss Q y x.
Proof.
  intros H. destruct x as [a| |i|]; cbn [rs]; intros K.
  - destruct y as [b| | |]; try contradiction. cbn [rs]. apply H, K.
  - subst y. reflexivity.
  - rewrite (K eq_refl). cbn [rs]. reflexivity.
  - rewrite (K eq_refl). cbn [rs]. reflexivity.
Qed.

Lemma rss_trans {A B C} (P : A -> B -> Prop) (Q : B -> C -> Prop) (R : A -> C -> Prop) x y z :
  (forall a b c, P a b -> Q b c -> R a c) -> rss P x y -> rss Q y z -> rss R x z.
Proof.
  intros H. destruct x as [a| |i|]; cbn [rs]; intros K1 K2.
  - destruct y as [b| | |]; try contradiction. cbn [rs] in K2.
    destruct z as [c| | |]; try contradiction. eapply H; eassumption.
  - subst y. cbn [rs] in K2. exact K2.
  - intros _. rewrite (K1 eq_refl) in K2. cbn [rs] in K2. apply K2. reflexivity.
  - intros _. rewrite (K1 eq_refl) in K2. cbn [rs] in K2. apply K2. reflexivity.
Qed.

Lemma rss_ok {A B} (P : A -> B -> Prop) a b : P a b -> rss P (Ok a) (Ok b).
Proof. exact (fun H => H). Qed.

Lemma rss_refl {A} (P : A -> A -> Prop) x : (forall a, x = Ok a -> P a a) -> rss P x x.
Proof. destruct x; cbn [rs]; auto. Qed.

Lemma bind_ext_ok {A B} (e : res A) (k1 k2 : A -> res B) :
  (forall a, e = Ok a -> k1 a = k2 a) -> bind e k1 = bind e k2.
Proof. intros H. destruct e; cbn [bind]; auto. Qed.

(* ================================================================== *)
(* 1. Lines: the string, the cached length, "no empty Str"              *)
(* ================================================================== *)
Definition vtext (v : list elem) : text := flat_map elem_text v.
Definition nes_e (e : elem) : Prop := match e with Str s _ => s <> [] | Frag _ => True end.
Definition nes (v : list elem) : Prop := Forall nes_e v.
Definition isfrag (e : elem) : Prop := match e with Frag _ => True | Str _ _ => False end.
Definition allfrag (v : list elem) : Prop := Forall isfrag v.

Definition isnil (s : text) : bool := match s with [] => true | _ => false end.

(* a well-formed line: exact cached length, no Str with an empty string *)
Definition wfl (l : tline) : Prop := tlen_ l = swidth (tl_string l) /\ nes (tv l).
(* the line relation: the same string, both well formed *)
Definition lrel (l l' : tline) : Prop := tl_string l = tl_string l' /\ wfl l /\ wfl l'.

Lemma vw_vtext v : vw v = swidth (vtext v).
Proof.
  induction v as [|e v IH]; [reflexivity|].
  rewrite vw_cons. unfold vtext in *. cbn [flat_map]. rewrite swidth_app, IH. reflexivity.
Qed.

Lemma raw_string l : tl_width_raw l = swidth (tl_string l).
Proof. rewrite raw_eq. apply vw_vtext. Qed.

Lemma vtext_app a b : vtext (a ++ b) = vtext a ++ vtext b.
Proof. unfold vtext. apply flat_map_app. Qed.

Lemma allfrag_vtext v : allfrag v -> vtext v = [].
Proof.
  induction 1 as [|e v He _ IH]; [reflexivity|]. destruct e; [destruct He|].
  unfold vtext in *. cbn [flat_map elem_text app]. exact IH.
Qed.

Lemma allfrag_nes v : allfrag v -> nes v.
Proof. induction 1 as [|e v He _ IH]; constructor; auto. destruct e; [destruct He|exact I]. Qed.

Lemma nes_content v : nes v -> existsb elem_has_content v = negb (isnil (vtext v)).
Proof.
  induction 1 as [|e v He _ IH]; [reflexivity|].
  cbn [existsb]. unfold vtext in *. cbn [flat_map]. destruct e as [s t|n]; cbn [elem_has_content elem_text].
  - cbn [nes_e] in He. destruct s; [congruence|reflexivity].
  - cbn [orb app]. exact IH.
Qed.

Lemma wfl_is_empty l : wfl l -> tl_is_empty l = isnil (tl_string l).
Proof.
  intros [_ H]. unfold tl_is_empty. rewrite (nes_content _ H). apply negb_involutive.
Qed.

Lemma wfl_consistent l : wfl l -> tlen_ l = tl_width_raw l.
Proof. intros [H _]. rewrite raw_string. exact H. Qed.

Lemma wfl_width l : wfl l -> tl_width l = Ok (swidth (tl_string l)).
Proof. intros H. rewrite (tl_width_ok _ (wfl_consistent _ H)), raw_string. reflexivity. Qed.

Lemma no_content_allfrag v : existsb elem_has_content v = false -> allfrag v.
Proof.
  induction v as [|e v IH]; intros H; constructor.
  - destruct e; [discriminate H|exact I].
  - apply IH. cbn [existsb] in H. apply orb_false_iff in H. apply H.
Qed.

Lemma empty_allfrag l : tl_is_empty l = true -> allfrag (tv l).
Proof.
  unfold tl_is_empty. intros H. apply no_content_allfrag.
  destruct (existsb elem_has_content (tv l)); [discriminate H|reflexivity].
Qed.

Lemma wfl_new : wfl tl_new.
Proof. split; [reflexivity|constructor]. Qed.

Lemma nes_push_merge v s t : nes v -> s <> [] -> nes (v_push_merge v s t).
Proof.
  intros Hv Hs. induction v as [|e v IH].
  - cbn [v_push_merge]. constructor; [exact Hs|constructor].
  - destruct v as [|e' v].
    + cbn [v_push_merge]. destruct e as [s0 t0|n].
      * destruct (tag_eqb t0 t).
        -- constructor; [|constructor]. cbn [nes_e]. inversion Hv; subst. cbn [nes_e] in *.
           destruct s0; [congruence|discriminate].
        -- constructor; [exact (Forall_inv Hv)|]. constructor; [exact Hs|constructor].
      * constructor; [exact I|]. constructor; [exact Hs|constructor].
    + rewrite v_push_merge_cons2. constructor; [exact (Forall_inv Hv)|].
      apply IH. exact (Forall_inv_tail Hv).
Qed.

Lemma wfl_push_str l s t : wfl l -> wfl (tl_push_str l s t).
Proof.
  intros [H1 H2]. split.
  - rewrite tlen_push_str, string_push_str, swidth_app, H1. reflexivity.
  - destruct s as [|c s]; cbn [tl_push_str]; [exact H2|]. cbn [tv].
    apply nes_push_merge; [exact H2|discriminate].
Qed.

Lemma string_push l e : tl_string (tl_push l e) = tl_string l ++ elem_text e.
Proof.
  destruct e as [s t|n]; cbn [tl_push elem_text].
  - apply string_push_str.
  - unfold tl_string. cbn [tv]. rewrite flat_map_app. reflexivity.
Qed.

Lemma wfl_push l e : wfl l -> wfl (tl_push l e).
Proof.
  destruct e as [s t|n]; cbn [tl_push]; [apply wfl_push_str|].
  intros [H1 H2]. split.
  - cbn [tlen_]. unfold tl_string. cbn [tv]. rewrite flat_map_app. cbn [flat_map elem_text app].
    rewrite app_nil_r. exact H1.
  - cbn [tv]. apply Forall_app. split; [exact H2|]. constructor; [exact I|constructor].
Qed.

Lemma wfl_fold v : forall l, wfl l -> wfl (fold_left tl_push v l).
Proof. induction v as [|e v IH]; intros l H; cbn [fold_left]; [exact H|]. apply IH, wfl_push, H. Qed.

Lemma string_fold v : forall l, tl_string (fold_left tl_push v l) = tl_string l ++ vtext v.
Proof.
  induction v as [|e v IH]; intros l; cbn [fold_left].
  - unfold vtext. cbn [flat_map]. rewrite app_nil_r. reflexivity.
  - rewrite IH, string_push. unfold vtext. cbn [flat_map]. rewrite app_assoc. reflexivity.
Qed.

Lemma string_push_char l c t : tl_string (tl_push_char l c t) = tl_string l ++ [c].
Proof. unfold tl_push_char, tl_string. cbn [tv]. apply string_push_merge. Qed.

Lemma wfl_push_char l c t : wfl l -> wfl (tl_push_char l c t).
Proof.
  intros [H1 H2]. split.
  - rewrite tlen_push_char, string_push_char, swidth_app, H1. rewrite swidth_cons, swidth_nil. lia.
  - unfold tl_push_char. cbn [tv]. apply nes_push_merge; [exact H2|discriminate].
Qed.

Lemma string_insert_front l s t : tl_string (tl_insert_front l s t) = s ++ tl_string l.
Proof.
  unfold tl_insert_front, tl_string. destruct (tv l) as [|[s1 t1|n] v'] eqn:E; cbn [tv flat_map elem_text];
    try reflexivity.
  destruct (tag_eqb t1 t); cbn [tv flat_map elem_text]; rewrite <- ?app_assoc; reflexivity.
Qed.

Lemma wfl_insert_front l s t : s <> [] -> wfl l -> wfl (tl_insert_front l s t).
Proof.
  intros Hs [H1 H2]. split.
  - rewrite string_insert_front, swidth_app, <- H1.
    unfold tl_insert_front. destruct (tv l) as [|[s1 t1|n] v']; cbn [tlen_]; try lia.
    destruct (tag_eqb t1 t); cbn [tlen_]; lia.
  - unfold tl_insert_front. destruct (tv l) as [|[s1 t1|n] v'] eqn:E; cbn [tv].
    + constructor; [exact Hs|constructor].
    + destruct (tag_eqb t1 t); cbn [tv].
      * constructor; [|exact (Forall_inv_tail H2)]. cbn [nes_e].
        destruct s; [congruence|discriminate].
      * constructor; [exact Hs|]. exact H2.
    + constructor; [exact Hs|]. exact H2.
Qed.

(* ---- lrel ---- *)
Lemma lrel_refl l : wfl l -> lrel l l.
Proof. intros H. split; [reflexivity|]. split; exact H. Qed.
Lemma lrel_sym l l' : lrel l l' -> lrel l' l.
Proof. intros (A & B & C). split; [symmetry; exact A|]. split; assumption. Qed.
Lemma lrel_trans a b c : lrel a b -> lrel b c -> lrel a c.
Proof. intros (A & B & C) (A' & B' & C'). split; [congruence|]. split; assumption. Qed.

Lemma lrel_tlen l l' : lrel l l' -> tlen_ l = tlen_ l'.
Proof. intros (A & [B _] & [C _]). rewrite B, C, A. reflexivity. Qed.
Lemma lrel_raw l l' : lrel l l' -> tl_width_raw l = tl_width_raw l'.
Proof. intros (A & _ & _). rewrite !raw_string, A. reflexivity. Qed.
Lemma lrel_empty l l' : lrel l l' -> tl_is_empty l = tl_is_empty l'.
Proof. intros (A & B & C). rewrite (wfl_is_empty _ B), (wfl_is_empty _ C), A. reflexivity. Qed.
Lemma lrel_width l l' : lrel l l' -> tl_width l = tl_width l'.
Proof. intros (A & B & C). rewrite (wfl_width _ B), (wfl_width _ C), A. reflexivity. Qed.

Lemma lrel_fold l l' v v' : lrel l l' -> vtext v = vtext v' ->
  lrel (fold_left tl_push v l) (fold_left tl_push v' l').
Proof.
  intros (A & B & C) E. split; [rewrite !string_fold, A, E; reflexivity|].
  split; apply wfl_fold; assumption.
Qed.

Lemma lrel_push l l' e e' : lrel l l' -> elem_text e = elem_text e' -> lrel (tl_push l e) (tl_push l' e').
Proof.
  intros H E. apply (lrel_fold l l' [e] [e'] H). unfold vtext. cbn [flat_map]. rewrite E. reflexivity.
Qed.

Lemma lrel_push_frag_l l l' n : lrel l l' -> lrel (tl_push l (Frag n)) l'.
Proof. intros H. apply (lrel_fold l l' [Frag n] [] H). reflexivity. Qed.

Lemma lrel_push_str l l' s t t' : lrel l l' -> lrel (tl_push_str l s t) (tl_push_str l' s t').
Proof. intros H. apply (lrel_push l l' (Str s t) (Str s t') H). reflexivity. Qed.

Lemma lrel_push_char l l' c t t' : lrel l l' -> lrel (tl_push_char l c t) (tl_push_char l' c t').
Proof.
  intros (A & B & C). split; [rewrite !string_push_char, A; reflexivity|].
  split; apply wfl_push_char; assumption.
Qed.

Lemma lrel_pad_to l l' w t t' : lrel l l' -> rss lrel (tl_pad_to l w t) (tl_pad_to l' w t').
Proof.
  intros H. unfold tl_pad_to. rewrite <- (lrel_width _ _ H).
  destruct H as (A & B & C). rewrite (wfl_width _ B). cbn [bind].
  destruct (swidth (tl_string l) <? w); cbn [rs].
  - unfold tl_push_wsl. apply lrel_push_str. split; [exact A|]. split; assumption.
  - split; [exact A|]. split; assumption.
Qed.

Lemma lrel_insert_front l l' s t t' : s <> [] -> lrel l l' ->
  lrel (tl_insert_front l s t) (tl_insert_front l' s t').
Proof.
  intros Hs (A & B & C). split; [rewrite !string_insert_front, A; reflexivity|].
  split; apply wfl_insert_front; assumption.
Qed.

(* ================================================================== *)
(* 2. The relation between two wrapped blocks                           *)
(* ================================================================== *)
(* the pending word: the same text (whatever the pieces), no empty piece, every character has
   a width *)
Definition wdrel (w w' : list elem) : Prop :=
  vtext w = vtext w' /\ nes w /\ nes w' /\ has_width (vtext w).

Record WR (b b' : wblock) : Prop := mkWR {
  wr_width : wwidth b = wwidth b';
  wr_pad : pad_blocks b = pad_blocks b';
  wr_ovf : allow_overflow b = false;
  wr_ovf' : allow_overflow b' = false;
  wr_prew : pre_wrapped b = pre_wrapped b';
  wr_wslen : wslen b = wslen b';
  wr_wordlen : wordlen b = wordlen b';
  wr_space : spacetag b = spacetag b';
  wr_text : Forall2 lrel (wtext b) (wtext b');
  wr_line : lrel (wline b) (wline b');
  wr_word : wdrel (wword b) (wword b')
}.

Lemma wdrel_sym w w' : wdrel w w' -> wdrel w' w.
Proof. intros (A & B & C & D). split; [symmetry; exact A|]. rewrite <- A. auto. Qed.
Lemma wdrel_trans a b c : wdrel a b -> wdrel b c -> wdrel a c.
Proof. intros (A & B & C & D) (A' & B' & C' & D'). split; [congruence|]. auto. Qed.
Lemma wdrel_nil : wdrel [] [].
Proof. split; [reflexivity|]. split; [constructor|]. split; constructor. Qed.

Lemma F2_lrel_sym a b : Forall2 lrel a b -> Forall2 lrel b a.
Proof. induction 1; constructor; auto using lrel_sym. Qed.
Lemma F2_lrel_trans a b : Forall2 lrel a b -> forall c, Forall2 lrel b c -> Forall2 lrel a c.
Proof.
  induction 1 as [|x y a b Hxy _ IH]; intros c Hc; inversion Hc; subst; constructor.
  - eapply lrel_trans; eassumption.
  - apply IH. assumption.
Qed.

Lemma WR_sym b b' : WR b b' -> WR b' b.
Proof.
  intros []. constructor; auto using lrel_sym, wdrel_sym, F2_lrel_sym.
Qed.
Lemma WR_trans a b c : WR a b -> WR b c -> WR a c.
Proof.
  intros [] []. constructor; try congruence.
  - eapply F2_lrel_trans; eassumption.
  - eapply lrel_trans; eassumption.
  - eapply wdrel_trans; eassumption.
Qed.
Lemma WR_refl_l b b' : WR b b' -> WR b b.
Proof. intros H. eapply WR_trans; [exact H|apply WR_sym, H]. Qed.

Lemma WR_set_line b b' l l' : WR b b' -> lrel l l' -> WR (set_line b l) (set_line b' l').
Proof. intros [] H. constructor; prj; auto. Qed.
Lemma WR_set_line_l b b' l : WR b b' -> lrel l (wline b') -> WR (set_line b l) b'.
Proof. intros [] H. constructor; prj; auto. Qed.
Lemma WR_set_space b b' st n : WR b b' -> WR (set_space b st n) (set_space b' st n).
Proof. intros []. constructor; prj; auto. Qed.
Lemma WR_set_word b b' w w' n : WR b b' -> wdrel w w' -> WR (set_word b w n) (set_word b' w' n).
Proof. intros [] H. constructor; prj; auto. Qed.
Lemma WR_set_prew b b' p : WR b b' -> WR (set_prew b p) (set_prew b' p).
Proof. intros []. constructor; prj; auto. Qed.

Lemma ffl_rel b b' : WR b b' -> rss WR (force_flush_line b) (force_flush_line b').
Proof.
  intros H. unfold force_flush_line. rewrite <- (wr_pad _ _ H), <- (wr_width _ _ H), <- (wr_space _ _ H).
  eapply rs_bind with (P := lrel).
  - destruct (pad_blocks b); [apply lrel_pad_to, (wr_line _ _ H)|exact (wr_line _ _ H)].
  - intros l l' Hl. cbn [rs]. destruct H. constructor; prj; auto.
    + apply Forall2_app; [assumption|]. constructor; [exact Hl|constructor].
    + apply lrel_refl, wfl_new.
Qed.

Lemma ffl_shape b b2 : force_flush_line b = Ok b2 ->
  exists tx, b2 = set_text_line b tx tl_new.
Proof.
  unfold force_flush_line. intros H. bind_inv H l Hl. ok_inv H. eexists. reflexivity.
Qed.

Lemma ffl_ok b : wfl (wline b) -> exists b2, force_flush_line b = Ok b2.
Proof.
  intros H. unfold force_flush_line. destruct (pad_blocks b).
  - unfold tl_pad_to. rewrite (wfl_width _ H). cbn [bind].
    destruct (_ <? _); cbn [bind]; eexists; reflexivity.
  - cbn [bind]. eexists; reflexivity.
Qed.

Lemma flush_line_rel b b' : WR b b' -> rss WR (flush_line b) (flush_line b').
Proof.
  intros H. unfold flush_line. rewrite <- (lrel_empty _ _ (wr_line _ _ H)).
  destruct (tl_is_empty (wline b)); [exact H|apply ffl_rel, H].
Qed.

(* ================================================================== *)
(* 3. Hard wrapping: the cut positions depend on the text only          *)
(* ================================================================== *)
(* the longest prefix that fits *)
Fixpoint fitp (s : text) (ll : N) : text :=
  match s with
  | [] => []
  | c :: s' => if cw0 c <=? ll then c :: fitp s' (ll - cw0 c) else []
  end.

Lemma fitp_width s : forall ll, swidth (fitp s ll) <= ll.
Proof.
  induction s as [|c s IH]; intros ll; cbn [fitp]; [rewrite swidth_nil; lia|].
  destruct (N.leb_spec (cw0 c) ll); [|rewrite swidth_nil; lia].
  rewrite swidth_cons. specialize (IH (ll - cw0 c)). lia.
Qed.

Lemma fitp_prefix s : forall ll, exists r, s = fitp s ll ++ r.
Proof.
  induction s as [|c s IH]; intros ll; cbn [fitp]; [exists []; reflexivity|].
  destruct (cw0 c <=? ll); [|exists (c :: s); reflexivity].
  destruct (IH (ll - cw0 c)) as [r Hr]. exists r. cbn [app]. f_equal. exact Hr.
Qed.

Lemma fitp_app_lt s1 s2 : forall ll, ll < swidth s1 -> fitp (s1 ++ s2) ll = fitp s1 ll.
Proof.
  induction s1 as [|c s1 IH]; intros ll H; [rewrite swidth_nil in H; lia|].
  cbn [app fitp]. rewrite swidth_cons in H.
  destruct (N.leb_spec (cw0 c) ll); [|reflexivity]. f_equal. apply IH. lia.
Qed.

Lemma fitp_app_ge s1 s2 : forall ll, swidth s1 <= ll -> fitp (s1 ++ s2) ll = s1 ++ fitp s2 (ll - swidth s1).
Proof.
  induction s1 as [|c s1 IH]; intros ll H.
  - cbn [app]. rewrite swidth_nil, N.sub_0_r. reflexivity.
  - cbn [app fitp]. rewrite swidth_cons in H.
    destruct (N.leb_spec (cw0 c) ll); [|lia]. f_equal. rewrite IH by lia.
    rewrite swidth_cons. f_equal. f_equal. lia.
Qed.

(* hw_scan reads line0 only through its width *)
Lemma hw_scan_line ovf l l' : tl_width l = tl_width l' ->
  forall s first tr ll wp, hw_scan ovf l first s tr ll wp = hw_scan ovf l' first s tr ll wp.
Proof.
  intros E. induction s as [|c s IH]; intros first tr ll wp; cbn [hw_scan]; [reflexivity|].
  destruct (cw c); [|reflexivity]. destruct (_ <=? _); [apply IH|]. rewrite E. reflexivity.
Qed.

Lemma hw_scan_false ovf l : forall s tr ll wp, has_width s -> ll < swidth s ->
  hw_scan ovf l false s tr ll wp =
  Ok (rev tr ++ fitp s ll, ll - swidth (fitp s ll), wp + swidth (fitp s ll)).
Proof.
  induction s as [|c s IH]; intros tr ll wp Hw Hlt; [rewrite swidth_nil in Hlt; lia|].
  cbn [hw_scan fitp]. inversion Hw as [|? ? Hc Hs]; subst.
  destruct (cw c) as [c_w|] eqn:Ecw; [|congruence].
  assert (Hc0 : cw0 c = c_w) by (unfold cw0; rewrite Ecw; reflexivity). rewrite Hc0.
  rewrite swidth_cons in Hlt.
  destruct (N.leb_spec c_w ll) as [Hfit|Hno].
  - rewrite IH by (auto; lia). cbn [rev]. rewrite <- app_assoc. cbn [app].
    rewrite swidth_cons, Hc0. f_equal. f_equal; [f_equal|]; lia.
  - rewrite app_nil_r, swidth_nil, N.sub_0_r, N.add_0_r. reflexivity.
Qed.

(* what the scan of one `while` iteration takes; z = the line so far has width 0 *)
Definition scanp (ovf z : bool) (s : text) (ll : N) : res text :=
  match s with
  | [] => Ok []
  | c :: s' =>
    if cw0 c <=? ll then Ok (fitp s ll)
    else if z then (if ovf then Ok (c :: take_zw s') else TooNarrow) else Ok []
  end.

Lemma hw_scan_true {A} ovf l (K : text -> N -> res A) s ll wp :
  has_width s -> ll < swidth s -> tlen_ l = tl_width_raw l ->
  (do r <- hw_scan ovf l true s [] ll wp; let '(taken, _, wpos') := r in K taken wpos') =
  (do tk <- scanp ovf (tl_width_raw l =? 0) s ll; K tk (wp + swidth tk)).
Proof.
  intros Hw Hlt Hl. destruct s as [|c s]; [rewrite swidth_nil in Hlt; lia|].
  cbn [hw_scan scanp]. inversion Hw as [|? ? Hc Hs]; subst.
  destruct (cw c) as [c_w|] eqn:Ecw; [|congruence].
  assert (Hc0 : cw0 c = c_w) by (unfold cw0; rewrite Ecw; reflexivity). rewrite Hc0.
  rewrite swidth_cons in Hlt.
  destruct (N.leb_spec c_w ll) as [Hfit|Hno].
  - rewrite hw_scan_false by (auto; lia). cbn [bind rev app fitp]. rewrite Hc0.
    destruct (N.leb_spec c_w ll); [|lia]. rewrite swidth_cons, Hc0.
    f_equal. lia.
  - rewrite (tl_width_ok _ Hl). cbn [bind]. destruct (tl_width_raw l =? 0).
    + destruct ovf; cbn [bind]; [|reflexivity]. rewrite swidth_cons, swidth_take_zw, Hc0.
      f_equal. lia.
    + cbn [bind rev]. rewrite swidth_nil, N.add_0_r. reflexivity.
Qed.

Lemma scanp_prefix ovf z s ll tk : scanp ovf z s ll = Ok tk -> exists r, s = tk ++ r.
Proof.
  destruct s as [|c s]; cbn [scanp]; intros H; [ok_inv H; exists []; reflexivity|].
  destruct (cw0 c <=? ll).
  - ok_inv H. apply (fitp_prefix (c :: s) ll).
  - destruct z; [destruct ovf; [|discriminate H]|]; ok_inv H.
    + destruct (take_zw_split s) as [r Hr]. exists r. cbn [app]. f_equal. exact Hr.
    + exists (c :: s). reflexivity.
Qed.

Lemma scanp_nil ovf z s ll : ll < swidth s -> scanp ovf z s ll = Ok [] -> z = false.
Proof.
  destruct s as [|c s]; [rewrite swidth_nil; lia|]. cbn [scanp fitp]. intros _.
  destruct (cw0 c <=? ll); [discriminate|]. destruct z; [destruct ovf; discriminate|reflexivity].
Qed.

(* one piece, without the bookkeeping of w / wpos / consumed *)
Fixpoint hwp (fuel : nat) (b : wblock) (t : tag) (rest : text) (ll : N) : res (wblock * N) :=
  match fuel with
  | O => OutOfFuel
  | S f =>
    if ll <? swidth rest then
      do tk <- scanp (allow_overflow b) (tl_width_raw (wline b) =? 0) rest ll;
      do b2 <- force_flush_line (set_line b (tl_push (wline b) (Str tk t)));
      hwp f b2 t (skipn (length tk) rest) (wwidth b2)
    else Ok (set_line b (tl_push (wline b) (Str rest t)), ll - swidth rest)
  end.

Lemma set_line_id b : set_line b (wline b) = b.
Proof. destruct b; reflexivity. Qed.

Lemma has_width_skipn n s : has_width s -> has_width (skipn n s).
Proof.
  revert s. induction n as [|n IH]; intros s H; [exact H|]. destruct s; [exact H|].
  cbn [skipn]. apply IH. exact (Forall_inv_tail H).
Qed.

Lemma hw_piece_hwp t w : forall fuel b rest consumed ll wpos,
  wpos + swidth rest = w -> (consumed = false -> wpos = 0) -> has_width rest ->
  tlen_ (wline b) = tl_width_raw (wline b) ->
  hw_piece fuel b t w rest consumed ll wpos = hwp fuel b t rest ll.
Proof.
  induction fuel as [|f IH]; intros b rest consumed ll wpos Hsum Hcons Hw Hl; [reflexivity|].
  cbn [hw_piece hwp]. rewrite (usub_ok 8 w wpos) by lia. cbn [bind].
  replace (w - wpos) with (swidth rest) by lia.
  destruct (N.ltb_spec ll (swidth rest)) as [Hlt|Hge].
  - rewrite (hw_scan_true (allow_overflow b) (wline b)
               (fun taken wpos' =>
                  do b2 <- force_flush_line (set_line b (tl_push (wline b) (Str taken t)));
                  hw_piece f b2 t w (skipn (length taken) rest)
                           (consumed || negb (match taken with [] => true | _ => false end))
                           (wwidth b2) wpos') rest ll wpos Hw Hlt Hl).
    apply bind_ext_ok. intros tk Htk. apply bind_ext_ok. intros b2 Hb2.
    destruct (scanp_prefix _ _ _ _ _ Htk) as [r Hr].
    destruct (ffl_shape _ _ Hb2) as [tx ->]. prj.
    apply IH.
    + rewrite Hr, skipn_length_app. rewrite Hr, swidth_app in Hsum. lia.
    + intros Hc. apply orb_false_iff in Hc. destruct Hc as [Hc1 Hc2].
      destruct tk; [|discriminate Hc2]. rewrite swidth_nil, (Hcons Hc1). reflexivity.
    + apply has_width_skipn, Hw.
    + prj. reflexivity.
  - destruct consumed; cbn [negb].
    + destruct rest as [|c rest].
      * cbn [tl_push tl_push_str]. rewrite set_line_id, swidth_nil, N.sub_0_r. reflexivity.
      * rewrite (usub_ok 5 ll (swidth (c :: rest))) by lia. cbn [bind]. reflexivity.
    + rewrite (Hcons eq_refl) in *. rewrite (usub_ok 5 ll w) by lia. cbn [bind]. repeat f_equal. lia.
Qed.

Lemma ffl_rel2 b b' : WR b b' ->
  rss (fun x y => WR x y /\ wline x = tl_new /\ wline y = tl_new /\ wwidth x = wwidth b)
      (force_flush_line b) (force_flush_line b').
Proof.
  intros H. unfold force_flush_line. rewrite <- (wr_pad _ _ H), <- (wr_width _ _ H), <- (wr_space _ _ H).
  eapply rs_bind with (P := lrel).
  - destruct (pad_blocks b); [apply lrel_pad_to, (wr_line _ _ H)|exact (wr_line _ _ H)].
  - intros l l' Hl. cbn [rs]. prj. split; [|auto]. destruct H. constructor; prj; auto.
    + apply Forall2_app; [assumption|]. constructor; [exact Hl|constructor].
    + apply lrel_refl, wfl_new.
Qed.

Lemma rss_bind_same {A C D} (Q : C -> D -> Prop) (e : res A) k1 k2 :
  (forall v, e = Ok v -> rss Q (k1 v) (k2 v)) -> rss Q (bind e k1) (bind e k2).
Proof. intros H. destruct e; cbn [bind rs]; auto. Qed.

Lemma bind_assoc {A B C} (e : res A) (k : A -> res B) (k' : B -> res C) :
  bind (bind e k) k' = bind e (fun x => bind (k x) k').
Proof. destruct e; reflexivity. Qed.

(* enough fuel for the rest of a piece *)
Definition suff (f : nat) (b : wblock) (rest : text) : Prop :=
  (2 * length rest + (if (tlen_ (wline b) =? 0)%N then 0 else 1) + 1 <= f)%nat.

Definition RP (r r' : wblock * N) : Prop :=
  WR (fst r) (fst r') /\ snd r = snd r' /\ tlen_ (wline (fst r)) + snd r = wwidth (fst r).

Lemma suff_after f b b2 rest tk r z :
  suff (S f) b rest -> rest = tk ++ r -> wline b2 = tl_new ->
  (tk = [] -> z = false) -> z = (tl_width_raw (wline b) =? 0) -> tlen_ (wline b) = tl_width_raw (wline b) ->
  suff f b2 r.
Proof.
  unfold suff. intros H -> -> Hz Ez Hl. cbn [tl_new tlen_]. change (0 =? 0) with true.
  rewrite app_length in H. destruct tk as [|c tk].
  - specialize (Hz eq_refl). subst z. rewrite Hl in H.
    destruct (tl_width_raw (wline b) =? 0); [discriminate|]. cbn [length] in H. lia.
  - cbn [length] in H. lia.
Qed.

(* B: the same text on two related blocks (any sufficient fuel) *)
Lemma hwp_rel t t' : forall f f' b b' rest ll,
  WR b b' -> tlen_ (wline b) + ll = wwidth b -> has_width rest ->
  suff f b rest -> suff f' b' rest ->
  rss RP (hwp f b t rest ll) (hwp f' b' t' rest ll).
Proof.
  induction f as [|f IH]; intros f' b b' rest ll H Hinv Hw Hf Hf'.
  { unfold suff in Hf. lia. }
  destruct f' as [|f']; [unfold suff in Hf'; lia|].
  cbn [hwp]. rewrite (wr_ovf _ _ H), (wr_ovf' _ _ H), <- (lrel_raw _ _ (wr_line _ _ H)).
  pose proof (wr_line _ _ H) as (_ & Hwl & Hwl').
  destruct (N.ltb_spec ll (swidth rest)) as [Hlt|Hge].
  - apply rss_bind_same. intros tk Htk.
    destruct (scanp_prefix _ _ _ _ _ Htk) as [r Hr].
    eapply rs_bind.
    { apply ffl_rel2. apply WR_set_line; [exact H|].
      apply (lrel_push _ _ (Str tk t) (Str tk t') (wr_line _ _ H)). reflexivity. }
    intros b2 b2' (H2 & E2 & E2' & Ew). rewrite Hr, skipn_length_app, <- (wr_width _ _ H2).
    apply IH; auto.
    + rewrite E2. cbn [tl_new tlen_]. lia.
    + rewrite Hr in Hw. apply has_width_app in Hw. apply Hw.
    + apply (suff_after f b b2 rest tk r (tl_width_raw (wline b) =? 0) Hf Hr E2);
        [intros ->; eapply scanp_nil; eassumption|reflexivity|apply wfl_consistent, Hwl].
    + apply (suff_after f' b' b2' rest tk r (tl_width_raw (wline b') =? 0) Hf' Hr E2');
        [|reflexivity|apply wfl_consistent, Hwl'].
      intros ->. rewrite <- (lrel_raw _ _ (wr_line _ _ H)). eapply scanp_nil; eassumption.
  - cbn [rs]. split; [|split]; cbn [fst snd].
    + apply WR_set_line; [exact H|].
      apply (lrel_push _ _ (Str rest t) (Str rest t') (wr_line _ _ H)). reflexivity.
    + reflexivity.
    + prj. rewrite tlen_push. cbn [elem_text]. lia.
Qed.

Lemma sl_wline b l : wline (set_line b l) = l.
Proof. reflexivity. Qed.
Lemma sl_ovf b l : allow_overflow (set_line b l) = allow_overflow b.
Proof. reflexivity. Qed.
Lemma sl_width b l : wwidth (set_line b l) = wwidth b.
Proof. reflexivity. Qed.
Lemma sl_sl b l l2 : set_line (set_line b l) l2 = set_line b l2.
Proof. reflexivity. Qed.
Lemma stl_wline b tx l : wline (set_text_line b tx l) = l.
Proof. reflexivity. Qed.
Lemma stl_ovf b tx l : allow_overflow (set_text_line b tx l) = allow_overflow b.
Proof. reflexivity. Qed.
Lemma stl_width b tx l : wwidth (set_text_line b tx l) = wwidth b.
Proof. reflexivity. Qed.

Lemma scanp_app_lt z s1 s2 ll : ll < swidth s1 ->
  scanp false z (s1 ++ s2) ll = scanp false z s1 ll.
Proof.
  intros H. destruct s1 as [|c s1]; [rewrite swidth_nil in H; lia|].
  unfold scanp. cbn [app]. destruct (cw0 c <=? ll); [|reflexivity].
  f_equal. apply (fitp_app_lt (c :: s1) s2 ll H).
Qed.

Lemma scanp_app_ge ovf z s1 s2 ll : s1 <> [] -> swidth s1 <= ll ->
  scanp ovf z (s1 ++ s2) ll = Ok (s1 ++ fitp s2 (ll - swidth s1)).
Proof.
  intros Hne H. destruct s1 as [|c s1]; [congruence|].
  unfold scanp. cbn [app]. rewrite swidth_cons in H.
  destruct (N.leb_spec (cw0 c) ll); [|lia].
  f_equal. apply (fitp_app_ge (c :: s1) s2 ll). rewrite swidth_cons. lia.
Qed.

Lemma skipn_app2 {A} (a b c : list A) : skipn (length (a ++ b)) (a ++ c) = skipn (length b) c.
Proof. induction a as [|x a IH]; [reflexivity|]. cbn [app length skipn]. exact IH. Qed.

(* A, when the first part fits on the line: the second piece takes over *)
Lemma hwp_split_fit t1 t2 t f2 f b b' s1 s2 ll :
  WR b b' -> tlen_ (wline b) + ll = wwidth b -> has_width s1 -> has_width s2 ->
  swidth s1 <= ll ->
  (2 * length s2 + 2 <= f2)%nat -> suff f b' (s1 ++ s2) ->
  rss RP (hwp f2 (set_line b (tl_push (wline b) (Str s1 t1))) t2 s2 (ll - swidth s1))
         (hwp f b' t (s1 ++ s2) ll).
Proof.
  intros H Hinv Hw1 Hw2 Hfit1 Hf2 Hf.
  destruct s1 as [|c1 s1'].
  { cbn [tl_push tl_push_str app]. rewrite set_line_id, swidth_nil, N.sub_0_r.
    apply hwp_rel; auto. unfold suff. destruct (_ =? _)%N; lia. }
  remember (c1 :: s1') as s1 eqn:Es1.
  assert (Hne : s1 <> []) by (subst s1; discriminate).
  assert (Hlen : (1 <= length s1)%nat) by (subst s1; cbn [length]; lia).
  clear Es1 c1 s1'.
  destruct f2 as [|g2]; [lia|].
  destruct f as [|g]; [unfold suff in Hf; lia|].
  cbn [hwp]. rewrite !sl_wline, !sl_ovf, !sl_sl, (wr_ovf _ _ H), (wr_ovf' _ _ H).
  set (l1 := tl_push (wline b) (Str s1 t1)).
  assert (Hl1 : lrel l1 (tl_push (wline b') (Str s1 t))).
  { apply lrel_push; [apply (wr_line _ _ H)|reflexivity]. }
  pose proof (wr_line _ _ H) as (_ & Hwl & Hwl').
  destruct (N.ltb_spec (ll - swidth s1) (swidth s2)) as [Hlt|Hge].
  - destruct (N.ltb_spec ll (swidth (s1 ++ s2))) as [_|Hc]; [|rewrite swidth_app in Hc; lia].
    rewrite (scanp_app_ge false _ s1 s2 ll Hne Hfit1). cbn [bind].
    destruct s2 as [|c s2']; [rewrite swidth_nil in Hlt; lia|].
    unfold scanp.
    destruct (N.leb_spec (cw0 c) (ll - swidth s1)) as [Hfit|Hno].
    + (* the first character of the second piece fits *)
      cbn [bind]. rewrite ?sl_wline, ?sl_sl. fold l1.
      remember (fitp (c :: s2') (ll - swidth s1)) as tk eqn:Etk.
      assert (Htk1 : (1 <= length tk)%nat).
      { subst tk. cbn [fitp]. destruct (N.leb_spec (cw0 c) (ll - swidth s1)); [cbn [length]; lia|lia]. }
      destruct (fitp_prefix (c :: s2') (ll - swidth s1)) as [r Hr]. rewrite <- Etk in Hr.
      eapply rs_bind.
      { apply ffl_rel2. apply WR_set_line; [exact H|].
        apply (lrel_fold (wline b) (wline b') [Str s1 t1; Str tk t2] [Str (s1 ++ tk) t] (wr_line _ _ H)).
        unfold vtext. cbn [flat_map elem_text]. rewrite !app_nil_r. reflexivity. }
      intros b2 b2' (H2 & E2 & E2' & Ew). rewrite skipn_app2, <- (wr_width _ _ H2).
      rewrite Hr, skipn_length_app.
      assert (Hlr : length (c :: s2') = (length tk + length r)%nat) by (rewrite Hr, app_length; reflexivity).
      apply hwp_rel; auto.
      * rewrite E2. cbn [tl_new tlen_]. lia.
      * rewrite Hr in Hw2. apply has_width_app in Hw2. apply Hw2.
      * unfold suff. rewrite E2. cbn [tl_new tlen_]. change (0 =? 0) with true. cbv iota. cbn [length] in *. lia.
      * unfold suff in *. rewrite E2'. cbn [tl_new tlen_]. change (0 =? 0) with true. cbv iota.
        rewrite app_length in Hf. cbn [length] in *. destruct (_ =? _)%N in Hf; lia.
    + (* it does not *)
      assert (Ef : fitp (c :: s2') (ll - swidth s1) = []).
      { cbn [fitp]. destruct (N.leb_spec (cw0 c) (ll - swidth s1)); [lia|reflexivity]. }
      rewrite Ef, app_nil_r.
      destruct (tl_width_raw l1 =? 0) eqn:Ez.
      * (* corner: the line holds only zero-width characters: too narrow on both sides *)
        cbn [bind rs].
        destruct (ffl_ok (set_line b' (tl_push (wline b') (Str s1 t)))) as [b2' Eb2'].
        { rewrite sl_wline. apply Hl1. }
        rewrite Eb2'. cbn [bind]. destruct (ffl_shape _ _ Eb2') as [tx ->].
        rewrite skipn_length_app, stl_width, sl_width.
        destruct g as [|g']; [unfold suff in Hf; rewrite app_length in Hf; cbn [length] in Hf; lia|].
        cbn [hwp]. rewrite stl_wline, stl_ovf, sl_ovf, (wr_ovf' _ _ H).
        apply N.eqb_eq in Ez. unfold l1 in Ez. rewrite raw_push in Ez. cbn [elem_text] in Ez.
        pose proof (wfl_consistent _ Hwl) as Hc. pose proof (wr_width _ _ H) as Hww.
        rewrite swidth_cons.
        destruct (N.ltb_spec (wwidth b') (cw0 c + swidth s2')) as [_|Hx]; [|lia].
        unfold scanp. destruct (N.leb_spec (cw0 c) (wwidth b')) as [Hy|_]; [lia|].
        change (tl_width_raw tl_new =? 0) with true. reflexivity.
      * cbn [bind]. rewrite ?sl_wline, ?sl_sl. fold l1. cbn [tl_push tl_push_str].
        eapply rs_bind; [apply ffl_rel2, WR_set_line; [exact H|exact Hl1]|].
        intros b2 b2' (H2 & E2 & E2' & Ew). cbn [length skipn].
        rewrite skipn_length_app, <- (wr_width _ _ H2).
        apply hwp_rel; auto.
        -- rewrite E2. cbn [tl_new tlen_]. lia.
        -- unfold suff. rewrite E2. cbn [tl_new tlen_]. change (0 =? 0) with true. cbv iota. cbn [length] in *. lia.
        -- unfold suff in *. rewrite E2'. cbn [tl_new tlen_]. change (0 =? 0) with true. cbv iota.
           rewrite app_length in Hf. cbn [length] in *. destruct (_ =? _)%N in Hf; lia.
  - destruct (N.ltb_spec ll (swidth (s1 ++ s2))) as [Hc|_]; [rewrite swidth_app in Hc; lia|].
    cbn [rs]. split; [|split]; cbn [fst snd].
    + apply WR_set_line; [exact H|].
      apply (lrel_fold (wline b) (wline b') [Str s1 t1; Str s2 t2] [Str (s1 ++ s2) t] (wr_line _ _ H)).
      unfold vtext. cbn [flat_map elem_text]. rewrite !app_nil_r. reflexivity.
    + rewrite swidth_app. lia.
    + rewrite sl_wline, sl_width. unfold l1. rewrite !tlen_push. cbn [elem_text]. lia.
Qed.

(* A: one piece s1 ++ s2 is hard-wrapped like the piece s1 followed by the piece s2 *)
Lemma hwp_split t1 t2 t : forall f1 f2 f b b' s1 s2 ll,
  WR b b' -> tlen_ (wline b) + ll = wwidth b -> has_width s1 -> has_width s2 ->
  suff f1 b s1 -> (2 * length s2 + 2 <= f2)%nat -> suff f b' (s1 ++ s2) ->
  rss RP (do r <- hwp f1 b t1 s1 ll; hwp f2 (fst r) t2 s2 (snd r)) (hwp f b' t (s1 ++ s2) ll).
Proof.
  induction f1 as [|f1 IH]; intros f2 f b b' s1 s2 ll H Hinv Hw1 Hw2 Hf1 Hf2 Hf.
  { unfold suff in Hf1. lia. }
  cbn [hwp]. destruct (N.ltb_spec ll (swidth s1)) as [Hlt|Hge].
  - destruct f as [|g]; [unfold suff in Hf; lia|]. cbn [hwp].
    destruct (N.ltb_spec ll (swidth (s1 ++ s2))) as [_|Hc]; [|rewrite swidth_app in Hc; lia].
    rewrite (wr_ovf _ _ H), (wr_ovf' _ _ H), <- (lrel_raw _ _ (wr_line _ _ H)).
    rewrite scanp_app_lt by exact Hlt. rewrite bind_assoc.
    pose proof (wr_line _ _ H) as (_ & Hwl & Hwl').
    apply rss_bind_same. intros tk Htk. rewrite bind_assoc.
    destruct (scanp_prefix _ _ _ _ _ Htk) as [r Hr].
    eapply rs_bind.
    { apply ffl_rel2. apply WR_set_line; [exact H|].
      apply (lrel_push _ _ (Str tk t1) (Str tk t) (wr_line _ _ H)). reflexivity. }
    intros b2 b2' (H2 & E2 & E2' & Ew). rewrite <- (wr_width _ _ H2).
    rewrite Hr, <- app_assoc, !skipn_length_app.
    rewrite Hr in Hw1. apply has_width_app in Hw1.
    apply IH; auto.
    + rewrite E2. cbn [tl_new tlen_]. lia.
    + apply Hw1.
    + apply (suff_after f1 b b2 s1 tk r (tl_width_raw (wline b) =? 0) Hf1 Hr E2);
        [intros ->; eapply scanp_nil; eassumption|reflexivity|apply wfl_consistent, Hwl].
    + assert (Hr' : s1 ++ s2 = tk ++ (r ++ s2)) by (rewrite Hr, <- app_assoc; reflexivity).
      apply (suff_after g b' b2' (s1 ++ s2) tk (r ++ s2) (tl_width_raw (wline b') =? 0) Hf Hr' E2');
        [|reflexivity|apply wfl_consistent, Hwl'].
      intros ->. rewrite <- (lrel_raw _ _ (wr_line _ _ H)). eapply scanp_nil; eassumption.
  - cbn [bind fst snd]. apply hwp_split_fit; auto.
Qed.

(* H: a whole word, piece by piece (markers in between), is hard-wrapped like its text in one
   piece *)
Lemma hw_elems_hwp t0 : forall els b b' ll F,
  WR b b' -> tlen_ (wline b) + ll = wwidth b -> has_width (vtext els) ->
  (2 * length (vtext els) + 2 <= F)%nat ->
  rss (fun x r => WR x (fst r)) (hw_elems b els ll) (hwp F b' t0 (vtext els) ll).
Proof.
  induction els as [|e els IH]; intros b b' ll F H Hinv Hw HF.
  - cbn [hw_elems]. change (vtext []) with (@nil chr) in *. destruct F as [|F]; [lia|].
    cbn [hwp]. rewrite swidth_nil. destruct (N.ltb_spec ll 0) as [Hc|_]; [lia|].
    cbn [rs fst tl_push tl_push_str]. rewrite set_line_id. exact H.
  - destruct e as [s t|n]; cbn [hw_elems].
    + change (vtext (Str s t :: els)) with (s ++ vtext els) in *.
      pose proof (has_width_app _ _ Hw) as [Hs Hels].
      pose proof (wr_line _ _ H) as (_ & Hwl & _).
      rewrite (hw_piece_hwp t (swidth s) (2 * length s + 2) b s false ll 0);
        [|lia|reflexivity|exact Hs|apply wfl_consistent, Hwl].
      eapply (rss_trans (fun x r => WR x (fst r)) RP (fun x r => WR x (fst r)) _
                (do r <- hwp (2 * length s + 2) b t s ll;
                 hwp (2 * length (vtext els) + 2) (fst r) t0 (vtext els) (snd r))).
      { intros a r c Ha (Hb & _ & _). eapply WR_trans; eassumption. }
      * eapply rs_bind with (P := RP).
        { apply hwp_rel; auto.
          - eapply WR_refl_l, H.
          - unfold suff. destruct (_ =? _)%N; lia.
          - unfold suff. destruct (_ =? _)%N; lia. }
        intros [x ll1] [x' ll1'] (Hx & Ell & Hinv'). cbn [fst snd] in *. subst ll1'.
        apply IH; auto.
      * apply hwp_split; auto.
        -- unfold suff. destruct (_ =? _)%N; lia.
        -- unfold suff. destruct (_ =? _)%N; lia.
    + change (vtext (Frag n :: els)) with (vtext els) in *. apply IH; auto.
      apply WR_set_line_l; [exact H|]. apply lrel_push_frag_l, (wr_line _ _ H).
Qed.

(* the hard wrap of a word depends on its text only *)
Lemma hw_elems_rel els els' b b' ll :
  WR b b' -> tlen_ (wline b) + ll = wwidth b -> vtext els = vtext els' -> has_width (vtext els) ->
  rss WR (hw_elems b els ll) (hw_elems b' els' ll).
Proof.
  intros H Hinv E Hw.
  eapply (rss_trans (fun x r => WR x (fst r)) (fun r y => WR (fst r) y) WR _
            (hwp (2 * length (vtext els) + 2) b' [] (vtext els) ll)).
  { intros a r c Ha Hb. eapply WR_trans; eassumption. }
  - apply hw_elems_hwp; auto.
  - eapply (rss_sym (fun x r => WR x (fst r))); [intros a r Ha; apply WR_sym, Ha|].
    rewrite E. apply hw_elems_hwp; auto.
    + eapply WR_refl_l, WR_sym, H.
    + rewrite <- (lrel_tlen _ _ (wr_line _ _ H)), <- (wr_width _ _ H). exact Hinv.
    + rewrite <- E. exact Hw.
Qed.

Lemma usub_inv site a b r : usub site a b = Ok r -> b <= a /\ r = a - b.
Proof. unfold usub. destruct (N.leb_spec b a) as [Hle|Hgt]; intros E; [ok_inv E; auto|discriminate]. Qed.

Lemma fwhw_rel b b' : WR b b' -> rss WR (flush_word_hard_wrap b) (flush_word_hard_wrap b').
Proof.
  intros H. unfold flush_word_hard_wrap.
  rewrite <- (wr_width _ _ H), <- (lrel_tlen _ _ (wr_line _ _ H)), <- (wr_wordlen _ _ H).
  apply rss_bind_same. intros ll Hll. apply usub_inv in Hll. destruct Hll as [Hle ->].
  destruct (wr_word _ _ H) as (Ev & _ & _ & Hw).
  apply hw_elems_rel; auto.
  - apply WR_set_word; [exact H|apply wdrel_nil].
  - prj. lia.
Qed.

(* ================================================================== *)
(* 4. The operations of the wrapped block respect WR                    *)
(* ================================================================== *)
Ltac wrw H :=
  rewrite <- ?(wr_width _ _ H), <- ?(wr_pad _ _ H), <- ?(wr_wslen _ _ H), <- ?(wr_wordlen _ _ H),
          <- ?(wr_space _ _ H), <- ?(wr_prew _ _ H), <- ?(lrel_tlen _ _ (wr_line _ _ H)).
Ltac same_fail := cbn [rs]; intros _; reflexivity.

Definition WR2 {X} (r r' : wblock * X) : Prop := WR (fst r) (fst r') /\ snd r = snd r'.

Lemma ws_loop_rel : forall fuel b b', WR b b' -> rss WR (ws_loop fuel b) (ws_loop fuel b').
Proof.
  induction fuel as [|f IH]; intros b b' H; cbn [ws_loop]; wrw H;
    (destruct (wslen b =? 0); [exact H|]); [same_fail|].
  destruct (wwidth b =? 0); [apply WR_set_space, H|].
  destruct (spacetag b) as [st|]; [|same_fail].
  eapply rs_bind with (P := WR).
  { assert (H1 : WR (set_line b (tl_push_wsl L_space (wline b) (N.min (wslen b) (wwidth b)) st))
                    (set_line b' (tl_push_wsl L_space (wline b') (N.min (wslen b) (wwidth b)) st))).
    { apply WR_set_line; [exact H|]. apply lrel_push_str, (wr_line _ _ H). }
    destruct (_ =? _); [apply flush_line_rel, H1|exact H1]. }
  intros b2 b2' H2. wrw H2. apply IH, WR_set_space, H2.
Qed.

Lemma wdrel_empty w w' : wdrel w w' -> word_is_empty w = word_is_empty w'.
Proof.
  intros (A & B & C & _). unfold word_is_empty. rewrite (nes_content _ B), (nes_content _ C), A.
  reflexivity.
Qed.

Lemma flush_word_rel m b b' : WR b b' -> rss WR (flush_word b m) (flush_word b' m).
Proof.
  intros H. unfold flush_word. rewrite <- (wdrel_empty _ _ (wr_word _ _ H)).
  destruct (word_is_empty (wword b)); [apply WR_set_word; [exact H|apply (wr_word _ _ H)]|].
  wrw H. apply rss_bind_same. intros sil _.
  destruct (wslen b + wordlen b <=? sil).
  - eapply rs_bind with (P := WR).
    { destruct (0 <? wslen b); [|exact H]. destruct (spacetag b) as [st|]; [|same_fail].
      cbn [rs]. apply WR_set_space, WR_set_line; [exact H|].
      apply (lrel_push _ _ (Str (spacesl L_space (wslen b)) st) (Str (spacesl L_space (wslen b)) st)
                       (wr_line _ _ H)). reflexivity. }
    intros b1 b1' H1. cbn [rs]. apply WR_set_word; [|apply wdrel_nil].
    apply WR_set_line; [exact H1|]. apply lrel_fold; [apply (wr_line _ _ H1)|apply (wr_word _ _ H1)].
  - eapply rs_bind with (P := WR).
    { destruct (negb (do_wrap m)); [|apply WR_set_space, H].
      destruct (sil <=? wslen b); [apply WR_set_space, H|].
      destruct (0 <? wslen b); [|exact H]. destruct (spacetag b) as [st|]; [|same_fail].
      cbn [rs]. apply WR_set_space, WR_set_line; [exact H|]. apply lrel_push_str, (wr_line _ _ H). }
    intros b1 b1' H1.
    eapply rs_bind with (P := WR); [apply flush_line_rel, H1|]. intros b2 b2' H2.
    eapply rs_bind with (P := WR).
    { destruct (is_pre m); prj; wrw H2; apply ws_loop_rel; [apply WR_set_prew|]; exact H2. }
    intros b4 b4' H4. wrw H4.
    eapply rs_bind with (P := WR); [apply fwhw_rel, WR_set_space, H4|].
    intros b6 b6' H6. cbn [rs]. apply WR_set_word; [exact H6|apply (wr_word _ _ H6)].
Qed.

Lemma tab_loop_rel : forall fuel b b' t tw pos one fl, WR b b' ->
  rss (@WR2 bool) (tab_loop fuel b t tw pos one fl) (tab_loop fuel b' t tw pos one fl).
Proof.
  induction fuel as [|f IH]; intros b b' t tw pos one fl H; cbn [tab_loop];
    (destruct (negb (pos mod 8 =? 0) || negb one); [|split; [exact H|reflexivity]]); [same_fail|].
  wrw H. destruct (wwidth b =? 0); [split; [exact H|reflexivity]|].
  destruct (wwidth b <=? pos).
  - eapply rs_bind with (P := WR); [apply flush_line_rel, H|]. intros b1 b1' H1. apply IH, H1.
  - apply IH. apply WR_set_line; [exact H|]. apply lrel_push_char, (wr_line _ _ H).
Qed.

Lemma wdrel_push w w' c t t' : wdrel w w' -> cw c <> None ->
  wdrel (v_push_merge w [c] t) (v_push_merge w' [c] t').
Proof.
  intros (A & B & C & D) Hc. unfold wdrel, vtext in *. rewrite !string_push_merge, A.
  split; [reflexivity|]. split; [apply nes_push_merge; [exact B|discriminate]|].
  split; [apply nes_push_merge; [exact C|discriminate]|].
  rewrite <- A. apply Forall_app. split; [exact D|]. constructor; [exact Hc|constructor].
Qed.

Lemma add_char_rel m t1 t2 b b' u c : WR b b' ->
  rss (@WR2 bool) (add_char m t1 t2 (b, u) c) (add_char m t1 t2 (b', u) c).
Proof.
  intros H. unfold add_char. wrw H.
  eapply rs_bind with (P := WR).
  { destruct (ws c && (0 <? wordlen b)); [apply flush_word_rel, H|exact H]. }
  clear b b' H. intros b b' H. cbv zeta. wrw H.
  destruct (ws c).
  - destruct (preserve_ws m).
    + destruct (cp c =? 10).
      * eapply rs_bind with (P := WR); [apply ffl_rel, H|]. intros b1 b1' H1. cbn [rs].
        split; [|reflexivity]. cbn [fst]. apply WR_set_prew, WR_set_space, H1.
      * destruct (cp c =? 9).
        -- eapply rs_bind with (P := @WR2 bool); [apply tab_loop_rel, H|].
           intros [b1 f1] [b1' f1'] [H1 E]. cbn [fst snd] in *. subst f1'. cbn [rs].
           split; [|reflexivity]. cbn [fst].
           destruct (is_pre m && f1); [apply WR_set_prew|]; exact H1.
        -- destruct (cw c) as [cwidth|]; [|split; [exact H|reflexivity]].
           destruct (wwidth b <? tlen_ (wline b) + wslen b + cwidth).
           ++ eapply rs_bind with (P := WR); [apply flush_line_rel, WR_set_space, H|].
              intros b1 b1' H1. wrw H1.
              destruct (do_wrap m); cbn [rs]; (split; [|reflexivity]); cbn [fst].
              ** apply WR_set_prew, H1.
              ** apply WR_set_prew, WR_set_space, H1.
           ++ split; [|reflexivity]. cbn [fst]. apply WR_set_space, H.
    + destruct ((0 <? tlen_ (wline b)) && (wslen b =? 0)); (split; [|reflexivity]); cbn [fst];
        [apply WR_set_space, H|exact H].
  - destruct (cw c) as [cwidth|] eqn:Ecw; [|split; [exact H|reflexivity]].
    cbn [rs]. split; [|reflexivity]. cbn [fst].
    assert (Hc : cw c <> None) by congruence.
    destruct (is_pre m && (wwidth b <? tlen_ (wline b) + wslen b + (wordlen b + cwidth))); prj.
    + apply (WR_set_word (set_prew b true) (set_prew b' true)); [apply WR_set_prew, H|].
      apply wdrel_push; [apply (wr_word _ _ H)|exact Hc].
    + apply WR_set_word; [exact H|]. apply wdrel_push; [apply (wr_word _ _ H)|exact Hc].
Qed.

Lemma add_chars_rel m t1 t2 : forall s b b' u, WR b b' ->
  rss (@WR2 bool) (add_chars m t1 t2 (b, u) s) (add_chars m t1 t2 (b', u) s).
Proof.
  induction s as [|c s IH]; intros b b' u H; cbn [add_chars].
  - split; [exact H|reflexivity].
  - eapply rs_bind with (P := @WR2 bool); [apply add_char_rel, H|].
    intros [b1 u1] [b1' u1'] [H1 E]. cbn [fst snd] in *. subst u1'. apply IH, H1.
Qed.

Lemma wb_add_text_rel b b' s m t1 t2 : WR b b' ->
  rss WR (wb_add_text b s m t1 t2) (wb_add_text b' s m t1 t2).
Proof.
  intros H. unfold wb_add_text. wrw H.
  eapply rs_bind with (P := @WR2 bool); [apply add_chars_rel, H|].
  intros r r' [H1 _]. exact H1.
Qed.

(* a marker added to the pending word of ONE side *)
Lemma WR_add_frag_l b b' n : WR b b' -> WR (wb_add_element b (Frag n)) b'.
Proof.
  intros H. cbn [wb_add_element]. destruct H as [? ? ? ? ? ? ? ? ? ? (A & B & C & D)].
  constructor; prj; auto. unfold wdrel. rewrite vtext_app. change (vtext [Frag n]) with (@nil chr).
  rewrite app_nil_r. split; [exact A|]. split; [|auto].
  apply Forall_app. split; [exact B|]. constructor; [exact I|constructor].
Qed.

Lemma WR_add_frag b b' n : WR b b' -> WR (wb_add_element b (Frag n)) (wb_add_element b' (Frag n)).
Proof.
  intros H. apply WR_add_frag_l. apply WR_sym, WR_add_frag_l, WR_sym, H.
Qed.

Lemma trailing_frags_spec w : forall p t, trailing_frags w = (p, t) ->
  vtext p = vtext w /\ allfrag t /\ (nes w -> nes p).
Proof.
  induction w as [|e w IH]; intros p t E; cbn [trailing_frags] in E.
  - ok_inv E. split; [reflexivity|]. split; [constructor|auto].
  - destruct (trailing_frags w) as [p0 t0]. destruct (IH p0 t0 eq_refl) as (A & B & C).
    destruct p0 as [|e0 p0'].
    + destruct (elem_has_content e) eqn:Ec; ok_inv E.
      * unfold vtext in *. cbn [flat_map]. rewrite <- A. cbn [flat_map].
        split; [reflexivity|]. split; [exact B|]. intros Hn. constructor; [exact (Forall_inv Hn)|constructor].
      * destruct e; [discriminate Ec|]. unfold vtext in *. cbn [flat_map elem_text app]. rewrite <- A.
        split; [reflexivity|]. split; [constructor; [exact I|exact B]|]. intros _. constructor.
    + ok_inv E. unfold vtext in *. cbn [flat_map] in *. rewrite A.
      split; [reflexivity|]. split; [exact B|]. intros Hn. constructor; [exact (Forall_inv Hn)|].
      apply C. exact (Forall_inv_tail Hn).
Qed.

Lemma ttf_rel b b' : WR b b' ->
  WR (fst (take_trailing_fragments b)) (fst (take_trailing_fragments b')) /\
  allfrag (snd (take_trailing_fragments b)) /\ allfrag (snd (take_trailing_fragments b')).
Proof.
  intros H. unfold take_trailing_fragments.
  destruct (trailing_frags (wword b)) as [p t] eqn:E, (trailing_frags (wword b')) as [p' t'] eqn:E'.
  destruct (trailing_frags_spec _ _ _ E) as (A & B & C), (trailing_frags_spec _ _ _ E') as (A' & B' & C').
  cbn [fst snd]. split; [|auto]. wrw H. apply WR_set_word; [exact H|].
  destruct (wr_word _ _ H) as (X & Y & Z & U). unfold wdrel. rewrite A, A'. auto.
Qed.

Lemma flush_line_rel2 b b' : WR b b' ->
  rss (fun x y => WR x y /\ tl_is_empty (wline x) = true /\ tl_is_empty (wline y) = true)
      (flush_line b) (flush_line b').
Proof.
  intros H. unfold flush_line. rewrite <- (lrel_empty _ _ (wr_line _ _ H)).
  destruct (tl_is_empty (wline b)) eqn:E.
  - cbn [rs]. rewrite <- (lrel_empty _ _ (wr_line _ _ H)). auto.
  - eapply rs_impl; [|apply ffl_rel2, H]. intros x y (A & -> & -> & _). auto.
Qed.

Lemma wb_into_lines_markers_rel b b' : WR b b' ->
  rss (fun r r' => Forall2 lrel (fst r) (fst r') /\ allfrag (snd r) /\ allfrag (snd r'))
      (wb_into_lines_markers b) (wb_into_lines_markers b').
Proof.
  intros H. unfold wb_into_lines_markers, wb_flush.
  eapply rs_bind.
  { eapply rs_bind with (P := WR); [apply flush_word_rel, H|]. intros x y Hxy.
    apply flush_line_rel2, Hxy. }
  intros x y (Hxy & Ex & Ey). cbn [rs fst snd].
  split; [apply (wr_text _ _ Hxy)|]. split; apply empty_allfrag; assumption.
Qed.

Lemma WR_new w pad : WR (wb_new w pad false) (wb_new w pad false).
Proof.
  constructor; cbn [wb_new wwidth wtext wline spacetag wword wordlen wslen pre_wrapped pad_blocks
                    allow_overflow]; auto.
  - apply lrel_refl, wfl_new.
  - apply wdrel_nil.
Qed.

(* ================================================================== *)
(* 5. The relation between two sub-renderers                            *)
(* ================================================================== *)
Definition rlrel (r r' : rline) : Prop :=
  match r, r' with
  | RText l, RText l' => lrel l l'
  | RLine b t, RLine b' t' => b = b' /\ t = t'
  | _, _ => False
  end.

Record SR (x y : subr) : Prop := mkSR {
  sr_width : swidth_ x = swidth_ y;
  sr_opts : sopts x = sopts y;
  sr_ovf : o_allow_overflow (sopts x) = false;
  sr_abe : at_block_end x = at_block_end y;
  sr_ann : ann_stack x = ann_stack y;
  sr_filter : filter_depth x = filter_depth y;
  sr_pre : pre_depth x = pre_depth y;
  sr_ws : ws_stack x = ws_stack y;
  sr_lines : Forall2 rlrel (slines x) (slines y);
  sr_pf : allfrag (pending_frags x);
  sr_pf' : allfrag (pending_frags y);
  sr_wrap : WR (get_wrapping x) (get_wrapping y)
}.

Ltac srw H :=
  rewrite <- ?(sr_width _ _ H), <- ?(sr_opts _ _ H), <- ?(sr_abe _ _ H), <- ?(sr_ann _ _ H),
          <- ?(sr_filter _ _ H), <- ?(sr_pre _ _ H), <- ?(sr_ws _ _ H).

Lemma rlrel_sym r r' : rlrel r r' -> rlrel r' r.
Proof. destruct r, r'; cbn [rlrel]; auto using lrel_sym. intros [-> ->]. auto. Qed.
Lemma rlrel_trans a b c : rlrel a b -> rlrel b c -> rlrel a c.
Proof.
  destruct a, b, c; cbn [rlrel]; try contradiction; eauto using lrel_trans.
  intros [-> ->] [-> ->]. auto.
Qed.
Lemma F2_rlrel_sym a b : Forall2 rlrel a b -> Forall2 rlrel b a.
Proof. induction 1; constructor; auto using rlrel_sym. Qed.
Lemma F2_rlrel_trans a b : Forall2 rlrel a b -> forall c, Forall2 rlrel b c -> Forall2 rlrel a c.
Proof.
  induction 1 as [|x y a b Hxy _ IH]; intros c Hc; inversion Hc; subst; constructor.
  - eapply rlrel_trans; eassumption.
  - apply IH. assumption.
Qed.

Lemma SR_sym x y : SR x y -> SR y x.
Proof.
  intros []. constructor; auto using F2_rlrel_sym, WR_sym; congruence.
Qed.
Lemma SR_trans a b c : SR a b -> SR b c -> SR a c.
Proof.
  intros [] []. constructor; try congruence; auto.
  - eapply F2_rlrel_trans; eassumption.
  - eapply WR_trans; eassumption.
Qed.

Lemma get_wrapping_none s : wrapping s = None ->
  get_wrapping s = wb_new (match wrap_width (sopts s) with
                           | Some ww => N.min (N.max ww 1) (swidth_ s)
                           | None => swidth_ s
                           end) (o_pad (sopts s)) (o_allow_overflow (sopts s)).
Proof. intros E. unfold get_wrapping. rewrite E. reflexivity. Qed.

Lemma SR_wrap_none x y : SR x y -> wrapping x = None -> wrapping y = None ->
  WR (get_wrapping x) (get_wrapping y).
Proof. intros H _ _. apply (sr_wrap _ _ H). Qed.

(* both sides without a pending block *)
Lemma SR_unwrap x y : SR x y -> SR (set_wrapping x None) (set_wrapping y None).
Proof.
  intros H. pose proof (sr_ovf _ _ H) as Ho. destruct H. constructor; sprj; auto.
  rewrite !get_wrapping_none by reflexivity. sprj.
  rewrite <- sr_opts0, <- sr_width0, Ho. apply WR_new.
Qed.

Lemma SR_set_wrapping x y w w' : SR x y -> WR w w' ->
  SR (set_wrapping x (Some w)) (set_wrapping y (Some w')).
Proof. intros [] H. constructor; sprj; auto. Qed.

Lemma SR_set_wrapping_l x y w : SR x y -> WR w (get_wrapping y) -> SR (set_wrapping x (Some w)) y.
Proof. intros [] H. constructor; sprj; auto. Qed.

Lemma get_wrapping_set_lines s ls pf : get_wrapping (set_lines s ls pf) = get_wrapping s.
Proof. reflexivity. Qed.

Lemma SR_set_lines x y ls ls' pf pf' : SR x y -> Forall2 rlrel ls ls' -> allfrag pf -> allfrag pf' ->
  SR (set_lines x ls pf) (set_lines y ls' pf').
Proof. intros [] A B C. constructor; sprj; auto. Qed.

Lemma SR_set_abe x y b : SR x y -> SR (set_abe x b) (set_abe y b).
Proof. intros []. constructor; sprj; auto. Qed.

Lemma lrel_pending p tl tl' : allfrag p -> lrel tl tl' ->
  lrel (fold_left tl_push (tv tl) (fold_left tl_push p tl_new)) tl'.
Proof.
  intros Hp (A & B & C). split; [|split; [|exact C]].
  - rewrite !string_fold, (allfrag_vtext _ Hp). cbn [tl_new tl_string tv flat_map app]. exact A.
  - apply wfl_fold, wfl_fold, wfl_new.
Qed.

Lemma add_line_rel x y l l' : SR x y -> rlrel l l' -> SR (add_line x l) (add_line y l').
Proof.
  intros H Hl. unfold add_line.
  assert (K : forall ls ls' pf pf', rlrel ls ls' -> allfrag pf -> allfrag pf' ->
              SR (set_lines x (slines x ++ [ls]) pf) (set_lines y (slines y ++ [ls']) pf')).
  { intros. apply SR_set_lines; auto. apply Forall2_app; [apply (sr_lines _ _ H)|].
    constructor; [assumption|constructor]. }
  pose proof (sr_pf _ _ H) as Hp. pose proof (sr_pf' _ _ H) as Hp'.
  destruct l as [tl|b t], l' as [tl'|b' t']; cbn [rlrel] in Hl; try contradiction.
  - destruct (pending_frags x) as [|e p] eqn:E, (pending_frags y) as [|e' p'] eqn:E'.
    + apply K; [exact Hl|constructor|constructor].
    + apply K; [|constructor|constructor]. cbn [rlrel].
      apply lrel_sym, lrel_pending; [exact Hp'|apply lrel_sym, Hl].
    + apply K; [|constructor|constructor]. cbn [rlrel]. apply lrel_pending; assumption.
    + apply K; [|constructor|constructor]. cbn [rlrel].
      eapply lrel_trans; [apply lrel_pending; [exact Hp|exact Hl]|].
      apply lrel_sym, lrel_pending; [exact Hp'|]. apply lrel_refl, Hl.
  - destruct (pending_frags x) as [|e p] eqn:E, (pending_frags y) as [|e' p'] eqn:E';
      apply K; try assumption; exact Hl.
Qed.

Lemma extend_lines_rel ls ls' : Forall2 rlrel ls ls' -> forall x y, SR x y ->
  SR (extend_lines x ls) (extend_lines y ls').
Proof.
  unfold extend_lines. induction 1 as [|l l' ls ls' Hl _ IH]; intros x y H; cbn [fold_left]; [exact H|].
  apply IH, add_line_rel; assumption.
Qed.

(* flush_wrapping, written with get_wrapping: no pending block = a fresh, empty one *)
Definition flushW (w : wblock) : res (list tline * list elem) :=
  let '(w1, frags) := take_trailing_fragments w in
  do lm <- wb_into_lines_markers w1; Ok (fst lm, snd lm ++ frags).
Definition flushG (s : subr) : res subr :=
  do r <- flushW (get_wrapping s);
  let s1 := extend_lines (set_wrapping s None) (map RText (fst r)) in
  Ok (set_lines s1 (slines s1) (pending_frags s1 ++ snd r)).

Lemma flushW_new w p o : flushW (wb_new w p o) = Ok ([], []).
Proof. reflexivity. Qed.

Lemma flush_wrapping_G s : flush_wrapping s = flushG s.
Proof.
  unfold flush_wrapping, flushG. destruct (wrapping s) as [w|] eqn:E.
  - unfold get_wrapping. rewrite E. unfold flushW.
    destruct (take_trailing_fragments w) as [w1 frags]. rewrite bind_assoc.
    apply bind_ext_ok. intros lm _. reflexivity.
  - rewrite (get_wrapping_none _ E), flushW_new. cbn [bind fst snd map extend_lines fold_left].
    destruct s. sprj. subst. rewrite app_nil_r. reflexivity.
Qed.

Lemma flushW_rel w w' : WR w w' ->
  rss (fun r r' => Forall2 lrel (fst r) (fst r') /\ allfrag (snd r) /\ allfrag (snd r'))
      (flushW w) (flushW w').
Proof.
  intros H. unfold flushW. pose proof (ttf_rel _ _ H) as (A & B & C).
  destruct (take_trailing_fragments w) as [w1 fr], (take_trailing_fragments w') as [w1' fr'].
  cbn [fst snd] in *. eapply rs_bind; [apply wb_into_lines_markers_rel, A|].
  intros r r' (X & Y & Z). cbn [rs fst snd]. split; [exact X|].
  split; apply Forall_app; auto.
Qed.

Lemma F2_RText a b : Forall2 lrel a b -> Forall2 rlrel (map RText a) (map RText b).
Proof. induction 1; constructor; auto. Qed.

Lemma flush_wrapping_rel x y : SR x y -> rss SR (flush_wrapping x) (flush_wrapping y).
Proof.
  intros H. rewrite !flush_wrapping_G. unfold flushG.
  eapply rs_bind; [apply flushW_rel, (sr_wrap _ _ H)|].
  intros r r' (A & B & C). cbn [rs].
  pose proof (extend_lines_rel _ _ (F2_RText _ _ A) _ _ (SR_unwrap _ _ H)) as H1.
  apply SR_set_lines; [exact H1|apply (sr_lines _ _ H1)| |].
  - apply Forall_app. split; [apply (sr_pf _ _ H1)|exact B].
  - apply Forall_app. split; [apply (sr_pf' _ _ H1)|exact C].
Qed.

Lemma sub_into_lines_rel x y : SR x y -> rss (Forall2 rlrel) (sub_into_lines x) (sub_into_lines y).
Proof.
  intros H. unfold sub_into_lines. eapply rs_bind; [apply flush_wrapping_rel, H|].
  intros a b Hab. apply (sr_lines _ _ Hab).
Qed.

Lemma add_empty_line_rel x y : SR x y -> rss SR (add_empty_line x) (add_empty_line y).
Proof.
  intros H. unfold add_empty_line. eapply rs_bind; [apply flush_wrapping_rel, H|].
  intros a b Hab. cbn [rs]. apply SR_set_abe, add_line_rel; [exact Hab|].
  apply lrel_refl, wfl_new.
Qed.

Lemma has_content_rel ls ls' : Forall2 rlrel ls ls' ->
  existsb rline_has_content ls = existsb rline_has_content ls'.
Proof.
  induction 1 as [|l l' ls ls' Hl _ IH]; [reflexivity|]. cbn [existsb]. rewrite IH. f_equal.
  destruct l, l'; cbn [rlrel] in Hl; try contradiction; cbn [rline_has_content]; [|reflexivity].
  rewrite (lrel_empty _ _ Hl). reflexivity.
Qed.

Lemma start_block_rel x y : SR x y -> rss SR (start_block x) (start_block y).
Proof.
  intros H. unfold start_block. eapply rs_bind; [apply flush_wrapping_rel, H|].
  intros a b Hab. rewrite <- (has_content_rel _ _ (sr_lines _ _ Hab)).
  eapply rs_bind with (P := SR).
  { destruct (existsb rline_has_content (slines a)); [apply add_empty_line_rel, Hab|exact Hab]. }
  intros a' b' H'. cbn [rs]. apply SR_set_abe, H'.
Qed.

Lemma new_line_hard_alt s :
  new_line_hard s =
  if (wordlen (get_wrapping s) =? 0) && (tlen_ (wline (get_wrapping s)) =? 0)
  then add_empty_line s else flush_wrapping s.
Proof.
  unfold new_line_hard, get_wrapping. destruct (wrapping s); reflexivity.
Qed.

Lemma new_line_hard_rel x y : SR x y -> rss SR (new_line_hard x) (new_line_hard y).
Proof.
  intros H. rewrite !new_line_hard_alt. pose proof (sr_wrap _ _ H) as Hw. wrw Hw.
  destruct (_ && _); [apply add_empty_line_rel|apply flush_wrapping_rel]; exact H.
Qed.

Lemma hline_rel b t x y : SR x y -> rss SR (add_horizontal_line x b t) (add_horizontal_line y b t).
Proof.
  intros H. unfold add_horizontal_line. eapply rs_bind; [apply flush_wrapping_rel, H|].
  intros a c Hac. cbn [rs]. apply add_line_rel; [exact Hac|]. cbn [rlrel]. auto.
Qed.

Lemma hborder_rel w x y : SR x y ->
  rss SR (add_horizontal_border_width x w) (add_horizontal_border_width y w).
Proof.
  intros H. unfold add_horizontal_border_width. eapply rs_bind; [apply flush_wrapping_rel, H|].
  intros a c Hac. cbn [rs]. srw Hac. apply add_line_rel; [exact Hac|]. cbn [rlrel]. auto.
Qed.

Lemma ws_mode_rel x y : SR x y -> ws_mode x = ws_mode y.
Proof. intros H. unfold ws_mode. rewrite (sr_ws _ _ H). reflexivity. Qed.

Lemma add_inline_text_rel d t x y : SR x y ->
  rss SR (add_inline_text d x t) (add_inline_text d y t).
Proof.
  intros H. unfold add_inline_text. rewrite <- (ws_mode_rel _ _ H). srw H.
  destruct (negb (preserve_ws (ws_mode x)) && at_block_end x && all_ws t); [exact H|].
  eapply rs_bind with (P := SR).
  { destruct (at_block_end x); [apply start_block_rel, H|exact H]. }
  intros a b Hab. rewrite <- (ws_mode_rel _ _ Hab). srw Hab.
  eapply rs_bind; [apply wb_add_text_rel, (sr_wrap _ _ Hab)|].
  intros w w' Hw. cbn [rs]. apply SR_set_wrapping; assumption.
Qed.

(* ---- the small operations ---- *)
Ltac srp H :=
  let h := fresh "hw" in
  pose proof (sr_wrap _ _ H) as h; destruct H; constructor; sprj; auto; try congruence; try exact h.

Lemma SR_push_ann a : pureR SR (fun s => push_ann s a).
Proof. intros x y H. unfold push_ann. srp H. Qed.
Lemma SR_pop_ann : pureR SR pop_ann.
Proof. intros x y H. unfold pop_ann. srp H. Qed.
Lemma SR_push_colour d r g b : pureR SR (fun s => push_colour d s r g b).
Proof. intros x y H. unfold push_colour. destruct (d_colours d); [apply SR_push_ann, H|exact H]. Qed.
Lemma SR_push_bg d r g b : pureR SR (fun s => push_bgcolour d s r g b).
Proof. intros x y H. unfold push_bgcolour. destruct (d_colours d); [apply SR_push_ann, H|exact H]. Qed.
Lemma SR_pop_colour d : pureR SR (pop_colour d).
Proof. intros x y H. unfold pop_colour. destruct (d_colours d); [apply SR_pop_ann, H|exact H]. Qed.
Lemma SR_push_ws m : pureR SR (fun s => push_ws_mode s m).
Proof. intros x y H. unfold push_ws_mode. srp H. Qed.
Lemma SR_pop_ws : pureR SR pop_ws_mode.
Proof. intros x y H. unfold pop_ws_mode. srp H. Qed.
Lemma SR_push_pre : pureR SR push_preformat.
Proof. intros x y H. unfold push_preformat. srp H. Qed.
Lemma SR_pop_pre : gop MStrict SR pop_preformat.
Proof.
  intros x y H. unfold pop_preformat. srw H. destruct (0 <? pre_depth x); [|same_fail].
  cbn [rs]. srp H.
Qed.
Lemma SR_end_block : pureR SR end_block.
Proof. intros x y H. apply SR_set_abe, H. Qed.
Lemma SR_set_filter n : pureR SR (fun s => set_filter s n).
Proof. intros x y H. srp H. Qed.

Lemma SR_start_deco d p : gop MStrict SR (fun s => start_deco d s p).
Proof. intros x y H. unfold start_deco. apply add_inline_text_rel, SR_push_ann, H. Qed.
Lemma SR_end_deco d e : gop MStrict SR (fun s => end_deco d s e).
Proof.
  intros x y H. unfold end_deco. eapply rs_bind; [apply add_inline_text_rel, H|].
  intros a b Hab. cbn [rs]. apply SR_pop_ann, Hab.
Qed.
Lemma SR_start_strikeout d : gop MStrict SR (start_strikeout d).
Proof.
  intros x y H. unfold start_strikeout. eapply rs_bind; [apply SR_start_deco, H|].
  intros a b Hab. cbn [rs]. srw Hab. destruct (o_strike (sopts a)); [apply SR_set_filter|]; exact Hab.
Qed.
Lemma SR_end_strikeout d : gop MStrict SR (end_strikeout d).
Proof.
  intros x y H. unfold end_strikeout. srw H.
  eapply rs_bind with (P := SR); [|intros a b Hab; apply SR_end_deco, Hab].
  destruct (o_strike (sopts x)); [|exact H]. destruct (filter_depth x); [same_fail|].
  cbn [rs]. apply SR_set_filter, H.
Qed.
Lemma SR_image d src t : gop MStrict SR (fun s => add_image d s src t).
Proof.
  intros x y H. unfold add_image. eapply rs_bind; [apply add_inline_text_rel, SR_push_ann, H|].
  intros a b Hab. cbn [rs]. apply SR_pop_ann, Hab.
Qed.

Lemma SR_frag n : pureR SR (fun s => record_frag_start s n).
Proof.
  intros x y H. unfold record_frag_start. apply SR_set_wrapping; [exact H|].
  apply WR_add_frag, (sr_wrap _ _ H).
Qed.
(* THE asymmetric step: the marker is recorded on one side only *)
Lemma SR_frag_l n x y : SR x y -> SR (record_frag_start x n) y.
Proof.
  intros H. unfold record_frag_start. apply SR_set_wrapping_l; [exact H|].
  apply WR_add_frag_l, (sr_wrap _ _ H).
Qed.

Lemma width_minus_rel x y p mn : SR x y -> rss eq (width_minus x p mn) (width_minus y p mn).
Proof.
  intros H. unfold width_minus. srw H. apply rss_refl. auto.
Qed.

Lemma SR_new u v w : SR u v -> SR (new_sub_renderer u w) (new_sub_renderer v w).
Proof.
  intros H. pose proof (sr_ovf _ _ H) as Ho. destruct H. unfold new_sub_renderer.
  constructor; sprj; auto; try apply Forall_nil.
  rewrite !get_wrapping_none by reflexivity. sprj. rewrite <- sr_opts0, Ho. apply WR_new.
Qed.

Lemma attach_prefix_rel t p l l' : rlrel l l' -> rlrel (attach_prefix t p l) (attach_prefix t p l').
Proof.
  destruct l as [tl|b bt], l' as [tl'|b' bt']; cbn [rlrel]; try contradiction; intros H.
  - unfold attach_prefix. destruct p as [|c p]; [exact H|]. cbn [rlrel].
    apply lrel_insert_front; [discriminate|exact H].
  - destruct H as [<- <-]. cbn [attach_prefix rlrel]. apply lrel_refl, wfl_push, wfl_push, wfl_new.
Qed.

Lemma attach_prefixes_rel t f r ls ls' : Forall2 rlrel ls ls' ->
  Forall2 rlrel (attach_prefixes t f r ls) (attach_prefixes t f r ls').
Proof.
  intros H. destruct H as [|l l' ls ls' Hl Hls]; cbn [attach_prefixes]; constructor.
  - apply attach_prefix_rel, Hl.
  - induction Hls; cbn [map]; constructor; auto using attach_prefix_rel.
Qed.

Lemma append_subrender_rel x y u v f r : SR x y -> SR u v ->
  rss SR (append_subrender x u f r) (append_subrender y v f r).
Proof.
  intros H Huv. unfold append_subrender. eapply rs_bind; [apply flush_wrapping_rel, H|].
  intros a b Hab. eapply rs_bind; [apply sub_into_lines_rel, Huv|].
  intros ls ls' Hls. cbn [rs]. srw Hab.
  apply extend_lines_rel; [apply attach_prefixes_rel, Hls|exact Hab].
Qed.

Lemma vert_cols_rel : forall us vs, Forall2 SR us vs -> forall x y first, SR x y ->
  rss SR (vert_cols x us first) (vert_cols y vs first).
Proof.
  induction 1 as [|u v us vs Huv _ IH]; intros x y first H; cbn [vert_cols]; [exact H|].
  srw H. eapply rs_bind with (P := SR).
  { destruct (negb first && o_borders (sopts x)); [apply hline_rel, H|exact H]. }
  intros a b Hab. eapply rs_bind; [apply append_subrender_rel; eassumption|].
  intros a' b' H'. apply IH, H'.
Qed.

Lemma append_vert_row_rel x y us vs : SR x y -> Forall2 SR us vs ->
  rss SR (append_vert_row x us) (append_vert_row y vs).
Proof.
  intros H Huv. unfold append_vert_row. eapply rs_bind; [apply flush_wrapping_rel, H|].
  intros a b Hab. eapply rs_bind; [apply vert_cols_rel; eassumption|].
  intros a' b' H'. srw H'. destruct (o_borders (sopts a')); [|exact H'].
  unfold add_horizontal_border. srw H'. apply hborder_rel, H'.
Qed.

Lemma sub_empty_alt s :
  sub_empty s = match slines s with [] => wb_is_empty (get_wrapping s) | _ => false end.
Proof. unfold sub_empty, get_wrapping. destruct (slines s); [|reflexivity]. destruct (wrapping s); reflexivity. Qed.

Lemma F2_length' {A B} (R : A -> B -> Prop) l l' : Forall2 R l l' -> length l = length l'.
Proof. induction 1; cbn [length]; congruence. Qed.

Lemma sub_empty_rel u v : SR u v -> sub_empty u = sub_empty v.
Proof.
  intros H. rewrite !sub_empty_alt. pose proof (sr_lines _ _ H) as Hl.
  destruct Hl; [|reflexivity]. pose proof (sr_wrap _ _ H) as Hw.
  unfold wb_is_empty, wb_text_len. wrw Hw. rewrite (F2_length' _ _ _ (wr_text _ _ Hw)). reflexivity.
Qed.

(* ---- append_columns_with_borders ---- *)
Definition setrel (p p' : N * list rline) : Prop := fst p = fst p' /\ Forall2 rlrel (snd p) (snd p').
Definition setsrel := Forall2 setrel.

Lemma pad_cell_lines_rel w t : forall ls ls', Forall2 rlrel ls ls' ->
  rss (Forall2 rlrel) (pad_cell_lines w t ls) (pad_cell_lines w t ls').
Proof.
  induction 1 as [|l l' ls ls' Hl _ IH]; cbn [pad_cell_lines]; [constructor|].
  destruct l as [tl|b bt], l' as [tl'|b' bt']; cbn [rlrel] in Hl; try contradiction.
  - eapply rs_bind; [apply lrel_pad_to, Hl|]. intros p p' Hp.
    eapply rs_bind; [exact IH|]. intros r r' Hr. cbn [rs]. constructor; assumption.
  - destruct Hl as [<- <-]. eapply rs_bind; [exact IH|]. intros r r' Hr. cbn [rs].
    constructor; [cbn [rlrel]; auto|assumption].
Qed.

Lemma col_line_sets_rel t : forall us vs, Forall2 SR us vs ->
  rss setsrel (col_line_sets t us) (col_line_sets t vs).
Proof.
  induction 1 as [|u v us vs Huv _ IH]; cbn [col_line_sets]; [constructor|].
  eapply rs_bind; [apply sub_into_lines_rel, Huv|]. intros ls ls' Hls. srw Huv.
  eapply rs_bind; [apply pad_cell_lines_rel, Hls|]. intros p p' Hp.
  eapply rs_bind; [exact IH|]. intros r r' Hr. cbn [rs]. constructor; [|exact Hr].
  split; [reflexivity|exact Hp].
Qed.

Lemma setsrel_fst sets sets' : setsrel sets sets' -> map fst sets = map fst sets'.
Proof. induction 1 as [|p p' l l' [E _] _ IH]; cbn [map]; congruence. Qed.

Lemma setsrel_heights sets sets' : setsrel sets sets' ->
  map (fun p : N * list rline => length (snd p)) sets = map (fun p : N * list rline => length (snd p)) sets'.
Proof.
  induction 1 as [|p p' l l' [_ E] _ IH]; cbn [map]; [reflexivity|].
  rewrite IH, (F2_length' _ _ _ E). reflexivity.
Qed.

Lemma F2_rev {A B} (R : A -> B -> Prop) l l' : Forall2 R l l' -> Forall2 R (rev l) (rev l').
Proof.
  induction 1; cbn [rev]; [constructor|]. apply Forall2_app; [assumption|]. constructor; auto.
Qed.

Definition orel (o o' : option rline) : Prop :=
  match o, o' with Some a, Some b => rlrel a b | None, None => True | _, _ => False end.

Lemma olast_rel l l' : Forall2 rlrel l l' -> orel (olast l) (olast l').
Proof.
  intros H. apply F2_rev in H. unfold olast. destruct H; cbn [orel]; auto.
Qed.

Lemma removelast_rel {A B} (R : A -> B -> Prop) l l' : Forall2 R l l' ->
  Forall2 R (removelast l) (removelast l').
Proof.
  induction 1 as [|a b l l' Hab Hl IH]; cbn [removelast]; [constructor|].
  destruct Hl; [constructor|]. constructor; assumption.
Qed.

Lemma nth_opt_rel l l' : Forall2 rlrel l l' -> forall i, 
  match nth_opt l i, nth_opt l' i with
  | Some a, Some b => rlrel a b | None, None => True | _, _ => False
  end.
Proof.
  induction 1 as [|a b l l' Hab _ IH]; intros i; [destruct i; exact I|].
  destruct i; cbn [nth_opt]; [exact Hab|apply IH].
Qed.

Lemma collapse_top_rel : forall sets sets', setsrel sets sets' -> forall prev pos,
  rss (fun r r' => fst r = fst r' /\ setsrel (snd r) (snd r'))
      (collapse_top sets prev pos) (collapse_top sets' prev pos).
Proof.
  induction 1 as [|[w sub] [w' sub'] sets sets' [Ew Hs] _ IH]; intros prev pos; cbn [collapse_top].
  { cbn [rs fst snd]. split; [reflexivity|constructor]. }
  cbn [fst snd] in Ew, Hs. subst w'.
  assert (Hdef : rss (fun r r' => fst r = fst r' /\ setsrel (snd r) (snd r'))
            (do r <- collapse_top sets prev (pos + w + 1); Ok (fst r, (w, sub) :: snd r))
            (do r <- collapse_top sets' prev (pos + w + 1); Ok (fst r, (w, sub') :: snd r))).
  { eapply rs_bind; [apply IH|]. intros r r' [E1 E2]. cbn [rs fst snd]. split; [exact E1|].
    constructor; [split; [reflexivity|exact Hs]|exact E2]. }
  destruct Hs as [|l l' sub sub' Hl Hs]; [exact Hdef|].
  destruct l as [tl|line lt], l' as [tl'|line' lt']; cbn [rlrel] in Hl; try contradiction;
    [exact Hdef|].
  destruct Hl as [<- <-]. destruct prev as [pb|]; [|same_fail].
  eapply rs_bind; [apply IH|]. intros r r' [E1 E2]. cbn [rs fst snd]. split; [exact E1|].
  constructor; [split; [reflexivity|exact Hs]|exact E2].
Qed.

Lemma collapse_bottom_rel : forall sets sets', setsrel sets sets' -> forall next pos,
  fst (fst (collapse_bottom sets next pos)) = fst (fst (collapse_bottom sets' next pos)) /\
  setsrel (snd (fst (collapse_bottom sets next pos))) (snd (fst (collapse_bottom sets' next pos))) /\
  snd (collapse_bottom sets next pos) = snd (collapse_bottom sets' next pos).
Proof.
  induction 1 as [|[w sub] [w' sub'] sets sets' [Ew Hs] _ IH]; intros next pos; cbn [collapse_bottom].
  { cbn [fst snd]. split; [reflexivity|]. split; [constructor|reflexivity]. }
  cbn [fst snd] in Ew, Hs. subst w'.
  pose proof (olast_rel _ _ Hs) as Ho.
  destruct (olast sub) as [[tl|line lt]|], (olast sub') as [[tl'|line' lt']|]; cbn [orel rlrel] in Ho;
    try contradiction.
  - specialize (IH next (pos + w + 1)).
    destruct (collapse_bottom sets next (pos + w + 1)) as [[n1 s1] p1],
             (collapse_bottom sets' next (pos + w + 1)) as [[n1' s1'] p1']. cbn [fst snd] in *.
    destruct IH as (A & B & C). subst. split; [reflexivity|]. split; [|reflexivity].
    constructor; [split; [reflexivity|exact Hs]|exact B].
  - destruct Ho as [<- <-]. specialize (IH (merge_from_above next line pos) (pos + w + 1)).
    destruct (collapse_bottom sets (merge_from_above next line pos) (pos + w + 1)) as [[n1 s1] p1],
             (collapse_bottom sets' (merge_from_above next line pos) (pos + w + 1)) as [[n1' s1'] p1'].
    cbn [fst snd] in *. destruct IH as (A & B & C). subst. split; [reflexivity|]. split; [|reflexivity].
    constructor; [split; [reflexivity|apply removelast_rel, Hs]|exact B].
  - specialize (IH next (pos + w + 1)).
    destruct (collapse_bottom sets next (pos + w + 1)) as [[n1 s1] p1],
             (collapse_bottom sets' next (pos + w + 1)) as [[n1' s1'] p1']. cbn [fst snd] in *.
    destruct IH as (A & B & C). subst. split; [reflexivity|]. split; [|reflexivity].
    constructor; [split; [reflexivity|exact Hs]|exact B].
Qed.

Lemma lrel_consume a a' l l' : lrel a a' -> lrel l l' -> lrel (tl_consume a l) (tl_consume a' l').
Proof. intros Ha (E & _ & _). unfold tl_consume. apply lrel_fold; [exact Ha|exact E]. Qed.

Lemma row_line_rel t draw i : forall sets sets', setsrel sets sets' -> forall pads acc acc',
  lrel acc acc' -> lrel (row_line t draw i sets pads acc) (row_line t draw i sets' pads acc').
Proof.
  induction 1 as [|[w ls] [w' ls'] sets sets' [Ew Hs] Hrest IH]; intros pads acc acc' Ha;
    cbn [row_line]; [exact Ha|].
  cbn [fst snd] in Ew, Hs. subst w'. apply IH.
  assert (H1 : lrel
    match nth_opt ls i with
    | Some (RText tl) => tl_consume acc tl
    | Some (RLine b _) => tl_push acc (Str (border_string b) t)
    | None => tl_push acc (Str match match pads with p :: _ => p | [] => None end with
                               | Some p => p | None => spacesl L_pad w end t)
    end
    match nth_opt ls' i with
    | Some (RText tl) => tl_consume acc' tl
    | Some (RLine b _) => tl_push acc' (Str (border_string b) t)
    | None => tl_push acc' (Str match match pads with p :: _ => p | [] => None end with
                                | Some p => p | None => spacesl L_pad w end t)
    end).
  { pose proof (nth_opt_rel _ _ Hs i) as Hn.
    destruct (nth_opt ls i) as [[tl|b bt]|], (nth_opt ls' i) as [[tl'|b' bt']|]; cbn [rlrel] in Hn;
      try contradiction.
    - apply lrel_consume; assumption.
    - destruct Hn as [<- <-]. apply lrel_push; [exact Ha|reflexivity].
    - apply lrel_push; [exact Ha|reflexivity]. }
  destruct Hrest; [exact H1|]. apply lrel_push_char, H1.
Qed.

Lemma row_lines_rel t draw sets sets' pads : setsrel sets sets' -> forall n i x y, SR x y ->
  SR (row_lines t draw n i sets pads x) (row_lines t draw n i sets' pads y).
Proof.
  intros Hs. induction n as [|n IH]; intros i x y H; cbn [row_lines]; [exact H|].
  apply IH, add_line_rel; [exact H|]. cbn [rlrel]. apply row_line_rel; [exact Hs|].
  apply lrel_refl, wfl_new.
Qed.

Definition cw_pn (lastl : option rline) (ws_ : list N) (next0 : list seg)
  : option (list seg) * list seg :=
  match lastl with
  | Some (RLine pb pt) => let '(p, n) := join_cols ws_ pb next0 0 in (Some p, n)
  | _ => (None, next0)
  end.
Definition cw_collapse (sets : list (N * list rline)) (prev1 : option (list seg)) (next1 : list seg)
  : res (option (list seg) * list seg * list (N * list rline) * list (option text)) :=
  do ct <- collapse_top sets prev1 0;
  let '(prev2, sets2) := ct in
  let '(next2, sets3, pads) := collapse_bottom sets2 next1 0 in
  Ok (prev2, next2, sets3, pads).
Definition cw_finish (s1 : subr) (t : tag) (lastl : option rline)
    (r : option (list seg) * list seg * list (N * list rline) * list (option text)) : res subr :=
  let '(prev3, next3, sets4, pads) := r in
  let lines1 := match lastl, prev3 with
                | Some (RLine _ pt), Some pb => replace_last (slines s1) (RLine pb pt)
                | _, _ => slines s1
                end in
  let s2 := set_lines s1 lines1 (pending_frags s1) in
  let cell_height := fold_left Nat.max (map (fun p => length (snd p)) sets4) O in
  let draw := o_borders (sopts s2) in
  let s3 := row_lines t draw cell_height O sets4 pads s2 in
  Ok (if draw then add_line s3 (RLine next3 t) else s3).
Definition cw_tail (s1 : subr) (sets : list (N * list rline)) : res subr :=
  let t := ann_stack s1 in
  let tot_width := sumN (map fst sets) + (N.of_nat (length sets) - 1) in
  let next0 := border_new tot_width in
  do _chk <- (match sets with [] => Panic 36 | _ => Ok tt end);
  let lastl := olast (slines s1) in
  let '(prev1, next1) := cw_pn lastl (map fst sets) next0 in
  do r <- cw_collapse sets prev1 next1;
  cw_finish s1 t lastl r.

Lemma acwb_eq s cols :
  append_columns_with_borders s cols true =
  do s1 <- flush_wrapping s; do sets <- col_line_sets (ann_stack s1) cols; cw_tail s1 sets.
Proof. reflexivity. Qed.

Lemma cw_pn_rel o o' ws_ next0 : orel o o' -> cw_pn o ws_ next0 = cw_pn o' ws_ next0.
Proof.
  destruct o as [[tl|b bt]|], o' as [[tl'|b' bt']|]; cbn [orel rlrel]; try contradiction; auto.
  intros [<- <-]. reflexivity.
Qed.

Definition r4rel (r r' : option (list seg) * list seg * list (N * list rline) * list (option text))
  : Prop :=
  fst (fst (fst r)) = fst (fst (fst r')) /\ snd (fst (fst r)) = snd (fst (fst r')) /\
  setsrel (snd (fst r)) (snd (fst r')) /\ snd r = snd r'.

Lemma cw_collapse_rel sets sets' prev1 next1 : setsrel sets sets' ->
  rss r4rel (cw_collapse sets prev1 next1) (cw_collapse sets' prev1 next1).
Proof.
  intros Hs. unfold cw_collapse. eapply rs_bind; [apply collapse_top_rel, Hs|].
  intros [prev2 sets2] [prev2' sets2'] [E Hs2]. cbn [fst snd] in *. subst prev2'.
  pose proof (collapse_bottom_rel _ _ Hs2 next1 0) as (A & B & C).
  destruct (collapse_bottom sets2 next1 0) as [[n s] p], (collapse_bottom sets2' next1 0) as [[n' s'] p'].
  cbn [fst snd] in *. subst. cbn [rs]. unfold r4rel. cbn [fst snd]. auto.
Qed.

Lemma cw_finish_rel a b t o o' r r' : SR a b -> orel o o' -> r4rel r r' ->
  rss SR (cw_finish a t o r) (cw_finish b t o' r').
Proof.
  intros H Ho Hr. destruct r as [[[prev3 next3] sets4] pads], r' as [[[prev3' next3'] sets4'] pads'].
  destruct Hr as (E1 & E2 & Hs & E4). cbn [fst snd] in *. subst prev3' next3' pads'.
  unfold cw_finish. cbn [rs]. rewrite <- (setsrel_heights _ _ Hs).
  change (sopts (set_lines b ?l ?p)) with (sopts b). change (sopts (set_lines a ?l ?p)) with (sopts a).
  srw H.
  assert (H2 : SR
    (set_lines a match o with
                 | Some (RLine _ pt) => match prev3 with
                                        | Some pb => replace_last (slines a) (RLine pb pt)
                                        | None => slines a
                                        end
                 | _ => slines a
                 end (pending_frags a))
    (set_lines b match o' with
                 | Some (RLine _ pt) => match prev3 with
                                        | Some pb => replace_last (slines b) (RLine pb pt)
                                        | None => slines b
                                        end
                 | _ => slines b
                 end (pending_frags b))).
  { apply SR_set_lines; [exact H| |apply (sr_pf _ _ H)|apply (sr_pf' _ _ H)].
    pose proof (sr_lines _ _ H) as Hl.
    destruct o as [[tl|bo bt]|], o' as [[tl'|bo' bt']|]; cbn [orel rlrel] in Ho; try contradiction;
      try exact Hl.
    destruct Ho as [<- <-]. destruct prev3 as [pb|]; [|exact Hl].
    unfold replace_last. apply Forall2_app; [apply removelast_rel, Hl|].
    constructor; [cbn [rlrel]; auto|constructor]. }
  pose proof (row_lines_rel t (o_borders (sopts a)) sets4 sets4' pads Hs
                (fold_left Nat.max (map (fun p : N * list rline => length (snd p)) sets4) O) O _ _ H2) as H3.
  destruct (o_borders (sopts a)); [|exact H3].
  apply add_line_rel; [exact H3|]. cbn [rlrel]. auto.
Qed.

Lemma cw_tail_rel a b sets sets' : SR a b -> setsrel sets sets' ->
  rss SR (cw_tail a sets) (cw_tail b sets').
Proof.
  intros H Hs. unfold cw_tail. srw H.
  rewrite <- (setsrel_fst _ _ Hs), <- (F2_length' _ _ _ Hs).
  pose proof (olast_rel _ _ (sr_lines _ _ H)) as Ho.
  rewrite <- (cw_pn_rel _ _ (map fst sets)
                (border_new (sumN (map fst sets) + (N.of_nat (length sets) - 1))) Ho).
  destruct Hs as [|p p' sets sets' Hp Hs]; [same_fail|]. cbn [bind].
  destruct (cw_pn _ _ _) as [prev1 next1].
  eapply rs_bind; [apply cw_collapse_rel; constructor; assumption|].
  intros r r' Hr. apply cw_finish_rel; assumption.
Qed.

Lemma append_columns_rel x y us vs : SR x y -> Forall2 SR us vs ->
  rss SR (append_columns_with_borders x us true) (append_columns_with_borders y vs true).
Proof.
  intros H Huv. rewrite !acwb_eq. eapply rs_bind; [apply flush_wrapping_rel, H|].
  intros a b Hab. srw Hab. eapply rs_bind; [apply col_line_sets_rel, Huv|].
  intros sets sets' Hs. apply cw_tail_rel; assumption.
Qed.

(* ---- all of it: the record of SimRel ---- *)
Lemma SR_ops d mw : GOps MStrict d mw SR eq (fun _ => True).
Proof.
  constructor.
  - intros; apply SR_push_colour.
  - intros; apply SR_push_bg.
  - intros; apply SR_push_ws.
  - apply SR_push_pre.
  - apply SR_pop_colour.
  - apply SR_pop_ws.
  - apply SR_pop_pre.
  - intros t1 t2 <- x y H. apply add_inline_text_rel, H.
  - intros t x y H. apply add_inline_text_rel, H.
  - intros t1 t2 <-. reflexivity.
  - intros t1 t2 <- _. reflexivity.
  - intros h x y H. apply SR_start_deco, H.
  - intros x y H. apply SR_end_deco, H.
  - intros x y H. rewrite (sr_opts _ _ H). reflexivity.
  - intros x y H. apply SR_start_deco, H.
  - intros x y H. apply SR_end_deco, H.
  - intros x y H. apply SR_start_deco, H.
  - intros x y H. apply SR_end_deco, H.
  - apply SR_start_strikeout.
  - apply SR_end_strikeout.
  - intros x y H. apply SR_start_deco, H.
  - intros x y H. apply SR_end_deco, H.
  - intros x y H. apply SR_start_deco, H.
  - intros x y H. apply SR_end_deco, H.
  - intros src t x y H. apply SR_image, H.
  - intros x y H. apply start_block_rel, H.
  - apply SR_end_block.
  - intros x y H. apply flush_wrapping_rel, H.
  - intros x y H. apply new_line_hard_rel, H.
  - intros n. apply SR_frag.
  - intros x y p mn H. apply width_minus_rel, H.
  - intros u v w H. apply SR_new, H.
  - intros x y u v f r H Huv. apply append_subrender_rel; assumption.
  - intros x y H. apply (sr_width _ _ H).
  - intros x y H. rewrite (sr_opts _ _ H). reflexivity.
  - intros x y H. rewrite (sr_opts _ _ H). reflexivity.
  - intros w x y H. apply hborder_rel, H.
  - intros x y us vs H Huv. apply append_vert_row_rel; assumption.
  - intros x y us vs H Huv. apply append_columns_rel; assumption.
  - intros u v H. apply sub_empty_rel, H.
Qed.

(* ================================================================== *)
(* 6. Render trees: the tree with its markers / the tree without        *)
(* ================================================================== *)
(* side conditions beside FragTables.ol_clean: no marker is a DIRECT child of an unordered list
   (every child of IUl is rendered as an item: finding ul_marker_item below), and a marker
   under <sup> does not hide a sole all-digit text (finding sup_marker_digits below) *)
Definition sup_ok (cs : list rnode) : bool :=
  match sup_digits (els erase cs), sup_digits cs with
  | Some _, None => false
  | _, _ => true
  end.

Fixpoint us_clean (n : rnode) {struct n} : bool :=
  let cells_ok (cells : list rcell) : bool :=
      forallb (fun c => match c with RCell _ k _ => forallb us_clean k end) cells in
  match rn_info n with
  | IText _ | IImg _ _ | IBreak | IFragStart _ => true
  | IUl cs => forallb (fun c => negb (is_frag c)) cs && forallb us_clean cs
  | ISup cs => sup_ok cs && forallb us_clean cs
  | IContainer cs | ILink _ cs | IEm cs | IStrong cs | IStrikeout cs | ICode cs | IBlock cs
  | IHeader _ cs | IDiv cs | IBlockQuote cs | IOl _ cs | IDl cs | IDt cs | IDd cs
  | IListItem cs => forallb us_clean cs
  | ITable rows _ | ITableBody rows =>
    forallb (fun r => match r with RRow cells _ => cells_ok cells end) rows
  | ITableRow (RRow cells _) => cells_ok cells
  | ITableCell (RCell _ k _) => forallb us_clean k
  end.

(* the whole side condition *)
Definition marker_clean (n : rnode) : bool := ol_clean n && us_clean n.

Lemma us_clean_kids i sty :
  us_clean (RN i sty) = true -> forallb us_clean (direct_kids i) = true.
Proof.
  destruct i; cbn [us_clean rn_info direct_kids]; intros H; try exact H; try reflexivity.
  - apply andb_true_iff in H. apply H.
  - rewrite forallb_flat_map. apply forallb_forall. intros [cells s] Hr.
    rewrite forallb_forall in H. specialize (H _ Hr). unfold row_kids. cbn [row_cells].
    rewrite forallb_flat_map. apply forallb_forall. intros [n k cs] Hc.
    rewrite forallb_forall in H. exact (H _ Hc).
  - rewrite forallb_flat_map. apply forallb_forall. intros [cells s] Hr.
    rewrite forallb_forall in H. specialize (H _ Hr). unfold row_kids. cbn [row_cells].
    rewrite forallb_flat_map. apply forallb_forall. intros [n k cs] Hc.
    rewrite forallb_forall in H. exact (H _ Hc).
  - destruct r as [cells s]. unfold row_kids. cbn [row_cells].
    rewrite forallb_flat_map. apply forallb_forall. intros [n k cs] Hc.
    rewrite forallb_forall in H. exact (H _ Hc).
  - destruct c as [n k cs]. exact H.
  - apply andb_true_iff in H. apply H.
Qed.

Lemma sup_ok_digits cs : sup_ok cs = true -> sup_digits (els erase cs) = sup_digits cs.
Proof.
  unfold sup_ok. destruct (sup_digits cs) as [ds|] eqn:E.
  - intros _. destruct cs as [|c [|c' cs]]; try discriminate E. destruct c as [i sty].
    destruct i; try discriminate E. cbn [els is_frag rn_info erase]. exact E.
  - destruct (sup_digits (els erase cs)); [discriminate|reflexivity].
Qed.

Lemma els_map cs : forallb (fun c => negb (is_frag c)) cs = true -> els erase cs = map erase cs.
Proof.
  induction cs as [|c cs IH]; intros H; [reflexivity|]. cbn [forallb] in H.
  apply andb_true_iff in H. destruct H as [H1 H2]. cbn [els map].
  destruct (is_frag c); [discriminate H1|]. rewrite (IH H2). reflexivity.
Qed.

Lemma subr_eq a b :
  swidth_ a = swidth_ b -> sopts a = sopts b -> slines a = slines b ->
  pending_frags a = pending_frags b -> at_block_end a = at_block_end b -> wrapping a = wrapping b ->
  ann_stack a = ann_stack b -> filter_depth a = filter_depth b -> pre_depth a = pre_depth b ->
  ws_stack a = ws_stack b -> a = b.
Proof. destruct a, b. sprj. intros; subst; reflexivity. Qed.

Section Tree.
  Variables (d : deco) (mw : N).
  Notation GS := (GSt SR).
  Notation gn := (gnode MStrict d mw SR).
  Let ops := SR_ops d mw.

  (* a marker node, whatever its style, only records the marker *)
  Lemma frag_node_run nm sty s rest lk :
    render_node d mw (RN (IFragStart nm) sty) (mkrst (s :: rest) lk) =
    Ok (mkrst (record_frag_start s nm :: rest) lk).
  Proof.
    cbn [render_node rn_info rn_style]. unfold est_of. cbn [est_node rn_info bind].
    unfold apply_style.
    destruct (ws_val (c_colour (cs_core sty))) as [[[r g] b]|];
    destruct (ws_val (c_bg (cs_core sty))) as [[[r' g'] b']|];
    destruct (match ws_val (c_white_space (cs_core sty)) with
              | Some WsPre => Some WsPre | Some WsPreWrap => Some WsPreWrap | _ => None end) as [m|];
    destruct (cs_internal_pre sty);
    cbn [with_top' with_top stack links bind unwind p_bg p_colour p_ws p_pre];
    unfold pop_preformat, push_preformat, record_frag_start, get_wrapping, push_colour, push_bgcolour,
      pop_bgcolour, pop_colour, push_ann, pop_ann, push_ws_mode, pop_ws_mode;
    destruct (d_colours d); sprj;
    try (replace (0 <? pre_depth s + 1) with true by (symmetry; apply N.ltb_lt; lia));
    cbn [with_top' with_top stack links bind];
    do 2 f_equal; f_equal;
    apply subr_eq; sprj; rewrite ?removelast_last; try reflexivity; try lia.
  Qed.

  Definition mnode (c : rnode) : Prop :=
    forall r1 r2 a b, GS r1 r2 a b -> rss (GS r1 r2) (render_node d mw c a) (Ok b).

  Lemma frag_mnode c : is_frag c = true -> mnode c.
  Proof.
    intros Hf r1 r2 a b (Hl & s1 & s2 & E1 & E2 & Hs). destruct c as [i sty].
    unfold is_frag in Hf. cbn [rn_info] in Hf. destruct i; try discriminate Hf.
    destruct a as [stk lk]. cbn [stack links] in *. subst stk. rewrite frag_node_run. cbn [rs].
    split; [exact Hl|]. exists (record_frag_start s1 name), s2. cbn [stack].
    split; [reflexivity|]. split; [exact E2|]. apply SR_frag_l, Hs.
  Qed.

  (* what is known of a child: a marker is absorbed by the left run alone; any other child is
     simulated by its erasure *)
  Definition EN (c : rnode) : Prop := if is_frag c then mnode c else gn c (erase c).

  Lemma rss_bind_l {A B} (P : A -> B -> Prop) (x : res A) (y : res B) k :
    rss P x y -> (forall a b, P a b -> rss P (k a) (Ok b)) -> rss P (bind x k) y.
  Proof.
    destruct x as [a| |i|]; cbn [rs bind]; intros H K; auto.
    destruct y as [b| | |]; try contradiction. apply K, H.
  Qed.

  Lemma e_kids_gen cs : Forall EN cs -> forall r1 r2 x y, rss (GS r1 r2) x y ->
    rss (GS r1 r2) (fold_left (fun acc c => do s <- acc; render_node d mw c s) cs x)
                   (fold_left (fun acc c => do s <- acc; render_node d mw c s) (els erase cs) y).
  Proof.
    induction 1 as [|c cs Hc _ IH]; intros r1 r2 x y Hxy; cbn [els fold_left]; [exact Hxy|].
    unfold EN in Hc. destruct (is_frag c).
    - apply IH. apply rss_bind_l; [exact Hxy|]. intros a b Hab. apply Hc, Hab.
    - cbn [fold_left]. apply IH. eapply rs_bind; [exact Hxy|]. intros a b Hab. apply Hc, Hab.
  Qed.

  Lemma e_kids cs r1 r2 a b : Forall EN cs -> GS r1 r2 a b ->
    rss (GS r1 r2) (rkids d mw cs a) (rkids d mw (els erase cs) b).
  Proof. intros HF H. unfold rkids. apply e_kids_gen; [exact HF|exact H]. Qed.

  Lemma e_wrap (f1 f2 : subr -> res subr) cs ps r1 r2 a b :
    gop MStrict SR f1 -> gop MStrict SR f2 -> Forall EN cs -> GS r1 r2 a b ->
    rss (GS r1 r2)
      (do x <- with_top a f1; do y <- rkids d mw cs x; do z <- with_top y f2; unwind d ps z)
      (do x <- with_top b f1; do y <- rkids d mw (els erase cs) x; do z <- with_top y f2; unwind d ps z).
  Proof.
    intros K1 K2 HF H.
    eapply rs_bind; [apply g_with_top; [apply K1|exact H]|]. intros x1 x2 Hx.
    eapply rs_bind; [apply e_kids; [exact HF|exact Hx]|]. intros y1 y2 Hy.
    eapply rs_bind; [apply g_with_top; [apply K2|exact Hy]|]. intros z1 z2 Hz.
    apply (g_unwind _ _ _ _ _ _ ops), Hz.
  Qed.

  Lemma e_cells : forall cells wsl r1 r2 a b us vs,
    Forall (fun c => Forall EN (cell_content c)) cells -> GS r1 r2 a b -> Forall2 SR us vs ->
    rss (fun p q => GS r1 r2 (fst p) (fst q) /\ Forall2 SR (snd p) (snd q))
        (cells_loop d mw cells wsl a us) (cells_loop d mw (map ecell cells) wsl b vs).
  Proof.
    induction cells as [|[n content csty] cells IH]; intros wsl r1 r2 a b us vs HF H Huv;
      cbn [map ecell cells_loop].
    - cbn [rs fst snd]. auto.
    - inversion HF as [|? ? HF1 HF2]; subst. cbn [cell_content] in HF1.
      destruct wsl as [|[w|] wsl]; [cbn [rs fst snd]; auto| |].
      + eapply rs_bind; [apply g_top, H|]. intros x y (Hxy & E1 & E2).
        assert (Hp : GS (x :: r1) (y :: r2) (push_sub a (new_sub_renderer x w))
                        (push_sub b (new_sub_renderer y w))).
        { apply g_push; [exact (proj1 H)|exact E1|exact E2|]. apply SR_new, Hxy. }
        eapply rs_bind; [apply (g_apply_style _ _ _ _ _ _ ops); [exact I|exact Hp]|].
        intros [a4 p4] [b4 q4] [H4 Epq]. cbn [fst snd] in H4, Epq. subst q4.
        eapply rs_bind; [apply (e_kids content); [exact HF1|exact H4]|]. intros a5 b5 H5.
        eapply rs_bind; [apply (g_unwind _ _ _ _ _ _ ops), H5|]. intros a6 b6 H6.
        eapply rs_bind; [apply (g_pop MStrict SR r1 r2 x y); assumption|].
        intros [u a7] [v b7] [Huv' H7]. cbn [fst snd] in *.
        apply IH; auto. apply Forall2_app; auto.
      + apply IH; auto.
  Qed.

  Lemma e_row vr col_widths r r1 r2 a b :
    Forall (fun c => Forall EN (cell_content c)) (row_cells r) -> GS r1 r2 a b ->
    rss (GS r1 r2) (row_body d mw vr col_widths r a) (row_body d mw vr col_widths (erow r) b).
  Proof.
    intros HC H. destruct r as [rcells rstyle]. cbn [row_cells erow] in *. unfold row_body.
    eapply rs_bind; [apply (g_apply_style _ _ _ _ _ _ ops); [exact I|exact H]|].
    intros [a1 p1] [b1 q1] [H1 Epq]. cbn [fst snd] in H1, Epq. subst q1.
    rewrite cell_widths_erase.
    apply (rs_head MStrict _ _ _ _ _ eq_refl (cell_widths_ntn _ _ _ _)). intros cws _.
    eapply rs_bind; [apply (e_cells rcells cws r1 r2 a1 b1 [] []); auto|].
    intros [a8 us] [b8 vs] [H8 Huv]. cbn [fst snd] in H8, Huv.
    eapply rs_bind with (P := GS r1 r2).
    { destruct vr.
      - apply g_with_top; [|exact H8]. intros x y Hxy. apply append_vert_row_rel; assumption.
      - assert (Ee : existsb (fun c => negb (sub_empty c)) us = existsb (fun c => negb (sub_empty c)) vs).
        { clear -Huv. induction Huv as [|u v us vs Huv1 _ IH]; [reflexivity|].
          cbn [existsb]. rewrite IH, (sub_empty_rel u v Huv1). reflexivity. }
        rewrite <- Ee. destruct (existsb (fun c => negb (sub_empty c)) us); [|exact H8].
        apply g_with_top; [|exact H8]. intros x y Hxy. apply append_columns_rel; assumption. }
    intros a9 b9 H9. apply (g_unwind _ _ _ _ _ _ ops), H9.
  Qed.

  (* the statement proved by induction on the tree *)
  Definition PN (n : rnode) : Prop := ol_clean n = true -> us_clean n = true -> gn n (erase n).

  Lemma kids_EN cs : Forall PN cs -> forallb ol_clean cs = true -> forallb us_clean cs = true ->
    Forall EN cs.
  Proof.
    induction 1 as [|c cs Hc _ IH]; intros H1 H2; constructor.
    - cbn [forallb] in H1, H2. apply andb_true_iff in H1, H2. unfold EN.
      destruct (is_frag c) eqn:Ef; [apply frag_mnode, Ef|apply Hc; [apply H1|apply H2]].
    - cbn [forallb] in H1, H2. apply andb_true_iff in H1, H2. apply IH; [apply H1|apply H2].
  Qed.

  Lemma kids_F2 cs : Forall PN cs -> forallb ol_clean cs = true -> forallb us_clean cs = true ->
    Forall2 gn cs (map erase cs).
  Proof.
    induction 1 as [|c cs Hc _ IH]; intros H1 H2; cbn [map]; constructor;
      cbn [forallb] in H1, H2; apply andb_true_iff in H1, H2.
    - apply Hc; [apply H1|apply H2].
    - apply IH; [apply H1|apply H2].
  Qed.

  Lemma rows_kids_EN rows :
    Forall PN (flat_map row_kids rows) ->
    forallb ol_clean (flat_map row_kids rows) = true ->
    forallb us_clean (flat_map row_kids rows) = true ->
    Forall (fun r => Forall (fun c => Forall EN (cell_content c)) (row_cells r)) rows.
  Proof.
    intros HP H1 H2. apply Forall_forall. intros r Hr. apply Forall_forall. intros c Hc.
    apply kids_EN.
    - apply Forall_forall. intros n Hn. rewrite Forall_forall in HP. apply HP.
      apply in_flat_map. exists r. split; [exact Hr|]. unfold row_kids. apply in_flat_map.
      exists c. auto.
    - apply forallb_forall. intros n Hn. rewrite forallb_forall in H1. apply H1.
      apply in_flat_map. exists r. split; [exact Hr|]. unfold row_kids. apply in_flat_map.
      exists c. auto.
    - apply forallb_forall. intros n Hn. rewrite forallb_forall in H2. apply H2.
      apply in_flat_map. exists r. split; [exact Hr|]. unfold row_kids. apply in_flat_map.
      exists c. auto.
  Qed.

  Lemma rows_clean_of rows :
    forallb ol_clean (flat_map row_kids rows) = true -> rows_clean rows = true.
  Proof.
    intros H. unfold rows_clean. apply forallb_forall. intros r Hr. apply forallb_forall.
    intros c Hc. apply forallb_forall. intros n Hn. rewrite forallb_forall in H. apply H.
    apply in_flat_map. exists r. split; [exact Hr|]. unfold row_kids. apply in_flat_map.
    exists c. auto.
  Qed.

  Lemma enode_all : forall n, PN n.
  Proof.
    apply (rnode_ind' PN). intros i sty IH Hol Hus r1 r2 a b Hab.
    pose proof (ol_clean_kids _ _ Hol) as Hk1. pose proof (us_clean_kids _ _ Hus) as Hk2.
    pose proof (eq_sym (est_erase d mw _ Hol)) as Eest.
    destruct i; cbn [direct_kids] in IH, Hk1, Hk2; cbn [erase] in Eest |- *;
      cbn [render_node rn_info rn_style];
      try (apply (rs_head MStrict _ _ _ _ _ Eest (est_ntn d mw _)); intros sz _);
      cbn [bind];
      (eapply rs_bind; [apply (g_apply_style _ _ _ _ _ _ ops); [exact I|exact Hab]|]);
      intros [a1 p1] [b1 q1] [H1 Epq]; cbn [fst snd] in H1, Epq; subst q1;
      try (pose proof (kids_EN _ IH Hk1 Hk2) as HK).
    - (* IText *)
      eapply rs_bind; [apply (g_inline_same _ _ _ _ _ _ ops), H1|].
      intros; apply (g_unwind _ _ _ _ _ _ ops); assumption.
    - (* IContainer *)
      eapply rs_bind; [apply (e_kids cs); [exact HK|exact H1]|].
      intros; apply (g_unwind _ _ _ _ _ _ ops); assumption.
    - (* ILink *)
      assert (H1' : GS r1 r2 (mkrst (stack a1) (links a1 ++ [href]))
                              (mkrst (stack b1) (links b1 ++ [href]))).
      { destruct H1 as (Hl & s1 & s2 & E1 & E2 & Hs'). split; [cbn [links]; congruence|].
        exists s1, s2. cbn [stack]. auto. }
      eapply rs_bind; [apply g_with_top; [apply (go_start_link _ _ _ _ _ _ ops)|exact H1']|].
      intros a2 b2 H2.
      eapply rs_bind; [apply (e_kids cs); [exact HK|exact H2]|]. intros a3 b3 H3.
      eapply rs_bind; [apply g_with_top; [apply (go_end_link _ _ _ _ _ _ ops)|exact H3]|].
      intros a4 b4 H4.
      eapply rs_bind; [apply g_top, H4|]. intros x y (Hxy & E1 & E2).
      rewrite <- (go_foot _ _ _ _ _ _ ops x y Hxy), <- (proj1 H4).
      eapply rs_bind with (P := GS r1 r2).
      { destruct (o_footnotes (sopts x)); [apply (g_inline_same _ _ _ _ _ _ ops), H4|exact H4]. }
      intros; apply (g_unwind _ _ _ _ _ _ ops); assumption.
    - (* IEm *) apply e_wrap; auto; [apply (go_em_s _ _ _ _ _ _ ops)|apply (go_em_e _ _ _ _ _ _ ops)].
    - (* IStrong *) apply e_wrap; auto; [apply (go_strong_s _ _ _ _ _ _ ops)|apply (go_strong_e _ _ _ _ _ _ ops)].
    - (* IStrikeout *) apply e_wrap; auto; [apply (go_strike_s _ _ _ _ _ _ ops)|apply (go_strike_e _ _ _ _ _ _ ops)].
    - (* ICode *) apply e_wrap; auto; [apply (go_code_s _ _ _ _ _ _ ops)|apply (go_code_e _ _ _ _ _ _ ops)].
    - (* IImg *)
      eapply rs_bind; [apply g_with_top; [apply (go_image _ _ _ _ _ _ ops)|exact H1]|].
      intros; apply (g_unwind _ _ _ _ _ _ ops); assumption.
    - (* IBlock *)
      apply (e_wrap start_block (fun s => Ok (end_block s))); auto;
        [apply (go_start_block _ _ _ _ _ _ ops)|].
      intros x y Hxy. cbn [rs]. apply SR_end_block, Hxy.
    - (* IHeader *)
      destruct (negb (swidth (d_header_prefix d level) =? e_prefix sz)); [cbn [rs]; auto|].
      apply (g_scope _ _ _ _ _ _ ops r1 r2 a1 b1 _ _ (rkids d mw cs) (rkids d mw (els erase cs)));
        [exact H1| |].
      { intros; apply e_kids; assumption. }
      intros u v a3 b3 Huv H3.
      eapply rs_bind; [apply g_with_top; [apply (go_start_block _ _ _ _ _ _ ops)|exact H3]|].
      intros a4 b4 H4.
      eapply rs_bind; [apply g_with_top; [|exact H4]|].
      { intros x y Hxy. apply append_subrender_rel; assumption. }
      intros a5 b5 H5.
      eapply rs_bind; [apply g_with_top'; [apply SR_end_block|exact H5]|].
      intros; apply (g_unwind _ _ _ _ _ _ ops); assumption.
    - (* IDiv *)
      apply e_wrap; auto; apply (go_new_line _ _ _ _ _ _ ops).
    - (* IBlockQuote *)
      destruct (negb (e_prefix sz =? swidth (d_quote_prefix d))); [cbn [rs]; auto|].
      apply (rs_head MStrict _ _ _ _ _ eq_refl (usub_ntn _ _ _)). intros iw _.
      apply (g_scope _ _ _ _ _ _ ops r1 r2 a1 b1 _ _ (rkids d mw cs) (rkids d mw (els erase cs)));
        [exact H1| |].
      { intros; apply e_kids; assumption. }
      intros u v a3 b3 Huv H3.
      eapply rs_bind; [apply g_with_top; [apply (go_start_block _ _ _ _ _ _ ops)|exact H3]|].
      intros a4 b4 H4.
      eapply rs_bind; [apply g_with_top; [|exact H4]|].
      { intros x y Hxy. apply append_subrender_rel; assumption. }
      intros a5 b5 H5.
      eapply rs_bind; [apply g_with_top'; [apply SR_end_block|exact H5]|].
      intros; apply (g_unwind _ _ _ _ _ _ ops); assumption.
    - (* IUl *)
      cbn [us_clean rn_info] in Hus. apply andb_true_iff in Hus. destruct Hus as [Hnf _].
      rewrite (els_map _ Hnf). pose proof (kids_F2 _ IH Hk1 Hk2) as HF2.
      eapply rs_bind with (P := GS r1 r2); [|intros; apply (g_unwind _ _ _ _ _ _ ops); assumption].
      apply (rs_fold2 MStrict (GS r1 r2) gn _ _ cs (map erase cs) HF2); [|exact H1].
      intros item item' Hitem x y Hxy.
      apply (rs_head MStrict _ _ _ _ _ eq_refl (usub_ntn _ _ _)). intros iw _.
      apply (g_scope _ _ _ _ _ _ ops r1 r2 x y _ _ (render_node d mw item) (render_node d mw item'));
        [exact Hxy| |].
      { exact Hitem. }
      intros u v a3 b3 Huv H3. apply g_with_top; [|exact H3].
      intros x' y' Hxy'. apply append_subrender_rel; assumption.
    - (* IOl *)
      cbn [ol_clean rn_info] in Hol. apply andb_true_iff in Hol. destruct Hol as [Hnf _].
      rewrite (els_map _ Hnf), map_length. pose proof (kids_F2 _ IH Hk1 Hk2) as HF2.
      eapply rs_bind with (P := fun p q => GS r1 r2 (fst p) (fst q) /\ snd p = snd q);
        [|intros p q [Hpq _]; apply (g_unwind _ _ _ _ _ _ ops); exact Hpq].
      set (pw := N.max (swidth (d_ol_prefix d start))
                       (swidth (d_ol_prefix d (isat64 (isat64 (start + Z.of_nat (length cs)) - 1))))).
      apply (rs_fold2 MStrict (fun p q => GS r1 r2 (fst p) (fst q) /\ snd p = snd q) gn
               (ol_step d mw sz pw) (ol_step d mw sz pw) cs (map erase cs) HF2);
        [|cbn [rs fst snd]; auto].
      intros item item' Hitem [x ix] [y iy] [Hxy Ei]. cbn [fst snd] in Hxy, Ei. subst iy.
      unfold ol_step.
      apply (rs_head MStrict _ _ _ _ _ eq_refl (usub_ntn _ _ _)). intros iw _.
      apply (g_scope _ _ _ _ _ _ ops r1 r2 x y _ _ (render_node d mw item) (render_node d mw item'));
        [exact Hxy| |].
      { exact Hitem. }
      intros u v a3 b3 Huv H3.
      eapply rs_bind; [apply g_with_top; [|exact H3]|].
      { intros x' y' Hxy'. apply append_subrender_rel; assumption. }
      intros a4 b4 H4. cbn [rs fst snd]. auto.
    - (* IDl *)
      eapply rs_bind; [apply g_with_top; [apply (go_start_block _ _ _ _ _ _ ops)|exact H1]|].
      intros a2 b2 H2.
      eapply rs_bind; [apply (e_kids cs); [exact HK|exact H2]|].
      intros; apply (g_unwind _ _ _ _ _ _ ops); assumption.
    - (* IDt *)
      eapply rs_bind; [apply g_with_top; [apply (go_new_line _ _ _ _ _ _ ops)|exact H1]|].
      intros a2 b2 H2.
      apply e_wrap; auto; [apply (go_em_s _ _ _ _ _ _ ops)|apply (go_em_e _ _ _ _ _ _ ops)].
    - (* IDd *)
      apply (rs_head MStrict _ _ _ _ _ eq_refl (usub_ntn _ _ _)). intros iw _.
      apply (g_scope _ _ _ _ _ _ ops r1 r2 a1 b1 _ _ (rkids d mw cs) (rkids d mw (els erase cs)));
        [exact H1| |].
      { intros; apply e_kids; assumption. }
      intros u v a3 b3 Huv H3.
      eapply rs_bind; [apply g_with_top; [|exact H3]|].
      { intros x y Hxy. apply append_subrender_rel; assumption. }
      intros; apply (g_unwind _ _ _ _ _ _ ops); assumption.
    - (* IBreak *)
      eapply rs_bind; [apply g_with_top; [apply (go_new_line_hard _ _ _ _ _ _ ops)|exact H1]|].
      intros; apply (g_unwind _ _ _ _ _ _ ops); assumption.
    - (* ITable *)
      pose proof (rows_kids_EN _ IH Hk1 Hk2) as HR.
      pose proof (tbl_col_sizes_erase d mw rows ncols (rows_clean_of _ Hk1)) as Ecs.
      match goal with |- rs _ _ (bind ?e1 _) (bind ?e2 _) =>
        change e1 with (tbl_col_sizes d mw rows ncols);
        change e2 with (tbl_col_sizes d mw (map erow rows) ncols)
      end.
      rewrite Ecs.
      apply (rs_head MStrict _ _ _ _ _ eq_refl).
      { unfold tbl_col_sizes. apply fold_ntn; [discriminate|]. intros r acc Hr.
        unfold tbl_row_step. apply bind_ntn; [|discriminate].
        apply fold_ntn; [discriminate|]. intros c [sz_ colno] Hc.
        apply bind_ntn.
        - apply est_kids_ntn. apply Forall_forall. intros n _. apply est_ntn.
        - intros ce. destruct (cell_colspan c =? 0); [discriminate|].
          destruct (upd_range _ _ _ _); discriminate. }
      intros col_sizes _.
      eapply rs_bind; [apply g_top, H1|]. intros x y (Hxy & E1 & E2).
      rewrite <- (sr_width _ _ Hxy), <- (sr_opts _ _ Hxy).
      set (vr := o_raw (sopts x)
                 || ((swidth_ x <? sumN (map e_min col_sizes) + (N.of_nat (length col_sizes) - 1))
                     || (swidth_ x =? 0))).
      match goal with |- rs _ _ (bind ?e _) (bind ?e _) => apply (rs_head MStrict _ e e _ _ eq_refl) end.
      { destruct (negb vr); [|discriminate].
        destruct (map (col_width_of (swidth_ x) (sumN (map e_size col_sizes))) col_sizes);
          [discriminate|apply shrink_loop_ntn]. }
      intros col_widths _.
      eapply rs_bind; [apply g_with_top; [apply (go_start_block _ _ _ _ _ _ ops)|exact H1]|].
      intros a2 b2 H2.
      eapply rs_bind with (P := GS r1 r2).
      { match goal with |- rs _ _ (if ?c then _ else _) _ => destruct c end; [|exact H2].
        apply g_with_top; [apply hborder_rel|exact H2]. }
      intros a3 b3 H3.
      eapply rs_bind with (P := GS r1 r2); [|intros; apply (g_unwind _ _ _ _ _ _ ops); assumption].
      assert (HF2 : Forall2 (fun r r' => r' = erow r /\
                       Forall (fun c => Forall EN (cell_content c)) (row_cells r)) rows (map erow rows)).
      { clear -HR. induction HR; cbn [map]; constructor; auto. }
      apply (rs_fold2 MStrict (GS r1 r2) _ (row_body d mw vr col_widths)
                      (row_body d mw vr col_widths) rows (map erow rows) HF2); [|exact H3].
      intros r r' [-> Hr] a' b' H'. apply e_row; assumption.
    - (* ITableBody *) cbn [rs]. auto.
    - (* ITableRow *) cbn [rs]. auto.
    - (* ITableCell *) cbn [rs]. auto.
    - (* IFragStart *)
      eapply rs_bind; [apply g_with_top'; [apply SR_frag|exact H1]|].
      intros; apply (g_unwind _ _ _ _ _ _ ops); assumption.
    - (* IListItem *)
      apply (e_wrap start_block (fun s => Ok (end_block s))); auto;
        [apply (go_start_block _ _ _ _ _ _ ops)|].
      intros x y Hxy. cbn [rs]. apply SR_end_block, Hxy.
    - (* ISup *)
      cbn [us_clean rn_info] in Hus. apply andb_true_iff in Hus. destruct Hus as [Hso _].
      rewrite (sup_ok_digits _ Hso).
      destruct (sup_digits cs) as [digitstr|].
      + eapply rs_bind; [apply (g_inline_same _ _ _ _ _ _ ops), H1|].
        intros; apply (g_unwind _ _ _ _ _ _ ops); assumption.
      + apply e_wrap; auto; [apply (go_sup_s _ _ _ _ _ _ ops)|apply (go_sup_e _ _ _ _ _ _ ops)].
  Qed.
End Tree.

(* ================================================================== *)
(* 7. The whole renderer                                                *)
(* ================================================================== *)
Lemma fl_chars_rel t : forall cs x y buf wl pos, SR x y -> wfl wl ->
  SR (fst (fst (fst (fl_chars x t cs buf wl pos)))) (fst (fst (fst (fl_chars y t cs buf wl pos)))) /\
  snd (fst (fst (fl_chars x t cs buf wl pos))) = snd (fst (fst (fl_chars y t cs buf wl pos))) /\
  snd (fst (fl_chars x t cs buf wl pos)) = snd (fst (fl_chars y t cs buf wl pos)) /\
  snd (fl_chars x t cs buf wl pos) = snd (fl_chars y t cs buf wl pos) /\
  wfl (snd (fst (fl_chars x t cs buf wl pos))).
Proof.
  induction cs as [|c cs IH]; intros x y buf wl pos H Hwl; cbn [fl_chars].
  - cbn [fst snd]. auto.
  - srw H. destruct (swidth_ x <? pos + cw0 c); [|apply IH; assumption].
    apply IH; [|apply wfl_new]. apply add_line_rel; [exact H|]. cbn [rlrel].
    apply lrel_refl. destruct buf; [exact Hwl|apply wfl_push_str, Hwl].
Qed.

Lemma fl_strings_rel : forall strs x y wl pos, SR x y -> wfl wl ->
  SR (fst (fl_strings x strs wl pos)) (fst (fl_strings y strs wl pos)) /\
  snd (fl_strings x strs wl pos) = snd (fl_strings y strs wl pos) /\
  wfl (snd (fl_strings x strs wl pos)).
Proof.
  induction strs as [|[str tg] strs IH]; intros x y wl pos H Hwl; cbn [fl_strings].
  - cbn [fst snd]. auto.
  - srw H. destruct (o_wrap_links (sopts x) && (swidth_ x <? pos + swidth (nl_to_space str))).
    + pose proof (fl_chars_rel [ADefault] (nl_to_space str) x y [] wl pos H Hwl) as (A & B & C & D & E).
      destruct (fl_chars x [ADefault] (nl_to_space str) [] wl pos) as [[[s1 buf] wl1] pos1],
               (fl_chars y [ADefault] (nl_to_space str) [] wl pos) as [[[s1' buf'] wl1'] pos1'].
      cbn [fst snd] in *. subst buf' wl1' pos1'. apply IH; [exact A|apply wfl_push_str, E].
    + apply IH; [exact H|apply wfl_push_str, Hwl].
Qed.

Lemma fmt_links_rel : forall links x y, SR x y -> SR (fmt_links x links) (fmt_links y links).
Proof.
  induction links as [|l links IH]; intros x y H; cbn [fmt_links]; [exact H|].
  pose proof (fl_strings_rel (tl_tagged_strings l) x y tl_new 0 H wfl_new) as (A & B & C).
  destruct (fl_strings x (tl_tagged_strings l) tl_new 0) as [s1 wl],
           (fl_strings y (tl_tagged_strings l) tl_new 0) as [s1' wl'].
  cbn [fst snd] in *. subst wl'. apply IH, add_line_rel; [exact A|]. cbn [rlrel]. apply lrel_refl, C.
Qed.

Lemma SR_sub_new width o : o_allow_overflow o = false -> SR (sub_new width o) (sub_new width o).
Proof.
  intros Ho. unfold sub_new. constructor; sprj; auto; try apply Forall_nil.
  rewrite get_wrapping_none by reflexivity. sprj. rewrite Ho. apply WR_new.
Qed.

Lemma rss_res_rel {A B} (P : A -> B -> Prop) x y : rss P x y -> res_rel P x y.
Proof.
  destruct x as [a| |i|]; cbn [rs]; intros H.
  - destruct y; try contradiction. exact H.
  - subst y. exact I.
  - rewrite (H eq_refl). reflexivity.
  - rewrite (H eq_refl). exact I.
Qed.

Theorem erase_render_tree d mw o width n :
  marker_clean n = true -> o_allow_overflow o = false ->
  rss SR (render_tree d mw o width n) (render_tree d mw o width (erase n)).
Proof.
  intros Hc Ho. unfold marker_clean in Hc. apply andb_true_iff in Hc. destruct Hc as [Hol Hus].
  unfold render_tree.
  apply (rs_head MStrict _ _ _ _ _ (eq_sym (est_erase d mw _ Hol)) (est_ntn d mw _)). intros e _.
  eapply rs_bind.
  { apply (enode_all d mw n Hol Hus [] []). split; [reflexivity|].
    exists (sub_new width o), (sub_new width o). cbn [stack]. auto using SR_sub_new. }
  intros a b (Hl & s1 & s2 & E1 & E2 & Hs). rewrite E1, E2, <- Hl.
  unfold sub_finalise. rewrite <- (sr_opts _ _ Hs).
  destruct (if o_footnotes (sopts s1) then finalise_from 1 (links a) else []) as [|l ls];
    [exact Hs|].
  eapply rs_bind; [apply start_block_rel, Hs|]. intros x y Hxy. cbn [rs].
  apply fmt_links_rel, Hxy.
Qed.

(* what two related sub-renderers give *)
Definition rline_border (r : rline) : option (list seg * tag) :=
  match r with RLine b t => Some (b, t) | RText _ => None end.

Lemma rlrel_strings ls ls' : Forall2 rlrel ls ls' ->
  map rline_string ls = map rline_string ls' /\ map rline_border ls = map rline_border ls'.
Proof.
  induction 1 as [|l l' ls ls' Hl _ [IH1 IH2]]; [auto|]. cbn [map]. rewrite IH1, IH2.
  destruct l, l'; cbn [rlrel] in Hl; try contradiction; cbn [rline_string rline_border].
  - rewrite (proj1 Hl). auto.
  - destruct Hl as [<- <-]. auto.
Qed.

Definition same_text (ls ls' : list rline) : Prop :=
  map rline_string ls = map rline_string ls' /\ map rline_border ls = map rline_border ls'.

Lemma SR_lines x y : SR x y -> res_rel same_text (sub_into_lines x) (sub_into_lines y).
Proof.
  intros H. apply rss_res_rel. eapply rs_impl; [|apply sub_into_lines_rel, H].
  intros ls ls' Hls. apply rlrel_strings, Hls.
Qed.

Lemma SR_string x y : SR x y -> sub_into_string x = sub_into_string y.
Proof.
  intros H. unfold sub_into_string. pose proof (SR_lines _ _ H) as K.
  destruct (sub_into_lines x) as [ls| |i|], (sub_into_lines y) as [ls'| |j|]; cbn [res_rel] in K;
    try contradiction; cbn [bind]; try reflexivity; [|congruence].
  destruct K as [K _]. f_equal. revert ls' K. induction ls as [|l ls IH]; intros [|l' ls'] K;
    cbn [map] in K; try discriminate; [reflexivity|]. injection K as K1 K2.
  cbn [flat_map]. rewrite K1, (IH _ K2). reflexivity.
Qed.

(* ------------------------------------------------------------------ *)
(* MAIN THEOREM.  The tree rendered with its markers and the tree without them: the same outcome
   kind (Compose.res_rel: Ok / TooNarrow / the same Panic site / OutOfFuel), and when Ok the two
   sub-renderers give - again with the same outcome kind - the same number of lines, the same
   string on every line and the same border lines. *)
Theorem c14_erase_strings d mw o width n :
  marker_clean n = true -> o_allow_overflow o = false ->
  res_rel (fun s s' => res_rel same_text (sub_into_lines s) (sub_into_lines s') /\
                       sub_into_string s = sub_into_string s')
          (render_tree d mw o width n) (render_tree d mw o width (erase n)).
Proof.
  intros Hc Ho. apply rss_res_rel. eapply rs_impl; [|apply erase_render_tree; assumption].
  intros s s' H. split; [apply SR_lines, H|apply SR_string, H].
Qed.
Print Assumptions c14_erase_strings.

(* ------------------------------------------------------------------ *)
(* The routes of Api.v, at the level of the render tree.  (A DOM-level `erase` - the document
   without its id / name attributes - is NOT the tree-level one: removing an id can remove the
   element altogether (<span id=x></span> alone is kept as a marker, <span></span> is dropped,
   which in turn decides whether <p>, <div>, <ul> ... around it are kept), changes the CSS
   selectors that match, and an id on an inline element wraps it in a fresh container.  So the
   routes are stated for the tree that to_render_tree made.) *)
Section RoutesE.
  Variable inl : list (text * text) -> res (list styledecl).
  Variable dr : list node -> res (list ruleset).

  Lemma erase_render_with_context c tree w :
    marker_clean tree = true -> c_overflow c = false ->
    rss SR (render_with_context c tree w) (render_with_context c (erase tree) w).
  Proof.
    intros Hc Ho. unfold render_with_context. destruct (w =? 0); [reflexivity|].
    apply erase_render_tree; [exact Hc|exact Ho].
  Qed.

  (* Api.string_from_read on a document whose tree is `tree` = the string of the erased tree *)
  Theorem c14_erase_string_route c tree w :
    marker_clean tree = true -> c_overflow c = false ->
    (do s <- render_with_context c tree w; sub_into_string s) =
    (do s <- render_with_context c (erase tree) w; sub_into_string s).
  Proof.
    intros Hc Ho. pose proof (erase_render_with_context c tree w Hc Ho) as H.
    destruct (render_with_context c tree w) as [s| |i|]; cbn [rs] in H.
    - destruct (render_with_context c (erase tree) w) as [s'| | |]; try contradiction.
      cbn [bind]. apply SR_string, H.
    - rewrite H. reflexivity.
    - rewrite (H eq_refl). reflexivity.
    - rewrite (H eq_refl). reflexivity.
  Qed.

  Theorem c14_erase_string_from_read c doc w tree :
    to_render_tree inl dr c doc = Ok tree -> marker_clean tree = true -> c_overflow c = false ->
    string_from_read inl dr c doc w =
    (do s <- render_with_context c (erase tree) w; sub_into_string s).
  Proof.
    intros Ht Hc Ho. unfold string_from_read. rewrite Ht. cbn [bind].
    apply c14_erase_string_route; assumption.
  Qed.

  Lemma into_tagged_string r : tl_string (rline_into_tagged r) = rline_string r.
  Proof.
    destruct r as [l|b t]; cbn [rline_into_tagged rline_string]; [reflexivity|].
    rewrite string_push. reflexivity.
  Qed.

  (* Api.lines_from_read: the same number of lines, the same string on every line *)
  Theorem c14_erase_lines_from_read c doc w tree :
    to_render_tree inl dr c doc = Ok tree -> marker_clean tree = true -> c_overflow c = false ->
    res_rel (fun ls ls' => map tl_string ls = map tl_string ls')
      (lines_from_read inl dr c doc w)
      (do s <- render_with_context c (erase tree) w;
       do ls <- sub_into_lines s; Ok (map rline_into_tagged ls)).
  Proof.
    intros Ht Hc Ho. unfold lines_from_read. rewrite Ht. cbn [bind].
    apply rss_res_rel. eapply rs_bind; [apply erase_render_with_context; assumption|].
    intros s s' H. eapply rs_bind; [apply sub_into_lines_rel, H|].
    intros ls ls' Hls. cbn [rs]. rewrite !map_map.
    apply rlrel_strings in Hls. destruct Hls as [Hls _].
    revert ls' Hls. induction ls as [|l ls IH]; intros [|l' ls'] K; cbn [map] in *;
      try discriminate; [reflexivity|]. injection K as K1 K2.
    rewrite !into_tagged_string, K1, (IH _ K2). reflexivity.
  Qed.
End RoutesE.
Print Assumptions c14_erase_string_from_read.
Print Assumptions c14_erase_lines_from_read.

(* ================================================================== *)
(* 8. Non-vacuity                                                       *)
(* ================================================================== *)
Definition me_strs (r : res subr) : res (list (list N)) :=
  do s <- r; do ls <- sub_into_lines s; Ok (map (fun l => cps (rline_string l)) ls).
Definition me_show (r : res subr) : res (list (list (list N + list N))) :=
  do s <- r; do ls <- sub_into_lines s; Ok (map fx_rline ls).

(* the table of FragTables.ft_dom1 as a tree: markers t, c, k, e in its cells *)
Definition me_table : rnode :=
  cx_n (ITable
    [RRow [RCell 1 [fx_fr [116]; fx_fr [99]; cx_t 120 [97;97;32;98;98]] cstyle0;
           RCell 1 [cx_t 130 [99;99;32]; cx_n (IContainer [fx_fr [107]]); cx_t 134 [100;100]] cstyle0] cstyle0;
     RRow [RCell 1 [cx_n (IContainer [fx_fr [101]])] cstyle0;
           RCell 1 [cx_t 150 [102]] cstyle0] cstyle0] 2).

(* FragStream.fx1 (heading, link, list, quote; 9 markers), then
   <p>abcdefg<span id=m></span>hijklmnop qr</p>   (the marker m INSIDE a word that is hard-wrapped)
   <ol start=9><li id=o>x y</li><li>z<sup>12</sup></li></ol>, the table, <sup><span id=s></span>a1</sup> *)
Definition me_tree : rnode :=
  cx_n (IContainer
    [ fx1;
      cx_n (IBlock [cx_t 300 [97;98;99;100;101;102;103]; fx_fr [109];
                    cx_t 310 [104;105;106;107;108;109;110;111;112;32;113;114]]);
      cx_n (IOl 9 [cx_n (IListItem [fx_fr [111]; cx_t 330 [120;32;121]]);
                   cx_n (IListItem [cx_t 340 [122]; cx_n (ISup [cx_t 345 [49;50]])])]);
      me_table;
      cx_n (ISup [fx_fr [115]; cx_t 350 [97;49]]) ]).

Example me_tree_hyps :
  marker_clean me_tree = true /\ o_allow_overflow fx_o = false /\
  map cps (all_frags me_tree) =
    [[104]; [107]; [108]; [105]; [101; 49]; [101; 50]; [113]; [112]; [122]; [109]; [111]; [116];
     [99]; [107]; [101]; [115]] /\
  all_frags (erase me_tree) = [].
Proof. repeat split; vm_compute; reflexivity. Qed.

(* the theorem applies (width 9: the word around m is cut in the middle of its second piece;
   width 5: both runs are TooNarrow) *)
Example me_tree_theorem : forall width,
  res_rel (fun s s' => res_rel same_text (sub_into_lines s) (sub_into_lines s') /\
                       sub_into_string s = sub_into_string s')
          (render_tree plain_deco 3 fx_o width me_tree)
          (render_tree plain_deco 3 fx_o width (erase me_tree)).
Proof. intros width. apply c14_erase_strings; reflexivity. Qed.

(* ... and this is what the two runs give (inl = marker name, inr = piece of text) *)
Example me_tree_output :
  me_show (render_tree plain_deco 3 fx_o 9 me_tree) =
  Ok [[inl [104]; inr [35; 35; 32; 72; 105; 32]; inr [121; 111; 117]];
      []; [inr [97; 98]];
      [inl [107]; inr [91; 99; 100; 93]; inr [91; 49; 93]];
      [inr [101; 102; 103; 104; 32; 105; 106]];
      [inl [108]; inr [42; 32]; inl [105]; inr [111; 110; 101; 32; 116; 119; 111]];
      [inr [32; 32; 116; 104; 114; 101; 101]]; [inr [42; 32; 65]]; [inr [42; 32; 66]]; [];
      [inr [62; 32]; inl [113]; inl [112]; inr [113; 32; 114]];
      [inl [122]];
      [inr [97; 98; 99; 100; 101; 102; 103]; inl [109]; inr [104; 105]];   (* abcdefg<m>hi *)
      [inr [106; 107; 108; 109; 110; 111; 112]]; [inr [113; 114]];          (* jklmnop / qr *)
      [inr [57; 46; 32; 32]; inl [111]; inr [120; 32; 121]];
      [inr [49; 48; 46; 32; 122; 185; 178]]; []; [];
      [inl [116]; inl [99]; inr [97; 97; 32; 32; 9474; 99; 99; 32; 32]];
      [inr [98; 98; 32; 32; 9474]; inl [107]; inr [100; 100; 32; 32]];
      []; [inr [32; 32; 32; 32; 9474; 102; 32; 32; 32]]; [];
      [inr [94; 123]; inl [115]; inr [97; 49; 125]]; [];
      [inr [91; 49; 93; 58; 32; 117]]] /\
  me_strs (render_tree plain_deco 3 fx_o 9 me_tree) =
  me_strs (render_tree plain_deco 3 fx_o 9 (erase me_tree)) /\
  me_strs (render_tree plain_deco 3 fx_o 9 (erase me_tree)) =
  Ok [[35; 35; 32; 72; 105; 32; 121; 111; 117]; []; [97; 98]; [91; 99; 100; 93; 91; 49; 93];
      [101; 102; 103; 104; 32; 105; 106]; [42; 32; 111; 110; 101; 32; 116; 119; 111];
      [32; 32; 116; 104; 114; 101; 101]; [42; 32; 65]; [42; 32; 66]; []; [62; 32; 113; 32; 114]; [];
      [97; 98; 99; 100; 101; 102; 103; 104; 105];                           (* abcdefghi *)
      [106; 107; 108; 109; 110; 111; 112]; [113; 114];
      [57; 46; 32; 32; 120; 32; 121]; [49; 48; 46; 32; 122; 185; 178];
      []; [9472; 9472; 9472; 9472; 9516; 9472; 9472; 9472; 9472];
      [97; 97; 32; 32; 9474; 99; 99; 32; 32]; [98; 98; 32; 32; 9474; 100; 100; 32; 32];
      [9472; 9472; 9472; 9472; 9532; 9472; 9472; 9472; 9472];
      [32; 32; 32; 32; 9474; 102; 32; 32; 32];
      [9472; 9472; 9472; 9472; 9524; 9472; 9472; 9472; 9472];
      [94; 123; 97; 49; 125]; []; [91; 49; 93; 58; 32; 117]] /\
  me_strs (render_tree plain_deco 3 fx_o 5 me_tree) = TooNarrow /\
  me_strs (render_tree plain_deco 3 fx_o 5 (erase me_tree)) = TooNarrow.
Proof. repeat split; vm_compute; reflexivity. Qed.

(* through the public route: FragTables.ft_dom1 (a DOM with ids on table, row, cell and two
   anchors) *)
Example me_route_theorem : forall tree w,
  to_render_tree cx_ist cx_dr cfg_plain (ft_dom1 true) = Ok tree ->
  string_from_read cx_ist cx_dr cfg_plain (ft_dom1 true) w =
  (do s <- render_with_context cfg_plain (erase tree) w; sub_into_string s).
Proof.
  intros tree w Ht. apply (c14_erase_string_from_read cx_ist cx_dr cfg_plain _ w tree Ht);
    [|reflexivity]. vm_compute in Ht. injection Ht as <-. vm_compute. reflexivity.
Qed.

(* ================================================================== *)
(* 9. FINDINGS: where a marker DOES change the text (each side condition is needed)            *)
(* ================================================================== *)
Definition me_zw (k : N) : chr := mkchr 769 (Some 0) false k.   (* U+0301, a combining accent *)
Definition me_str_route (c : config) (doc : list node) (w : N) : res (list N) :=
  do s <- string_from_read cx_ist cx_dr c doc w; Ok (cps s).
Definition me_span (id : list N) : node := fx_el fx_span id [].

(* (1) ul_marker_item.  Directly below <ul> EVERY child of the render tree is rendered as a list
   item, a lone marker included: the item renders nothing, but the pending text in front of the
   list is flushed, and the width check of an item is made.
     a<ul><span id=x></span></ul>b   ->  "a" / "b"        (width 1: TooNarrow)
     a<ul><span></span></ul>b        ->  "ab"             (the empty <ul> is dropped)
   FragTables.ol_clean does not exclude it; us_clean does. *)
Definition me_ul : rnode :=
  cx_n (IContainer [cx_t 16 [97]; cx_n (IUl [fx_fr [120]]); cx_t 20 [98]]).
Example ul_marker_item :
  ol_clean me_ul = true /\ us_clean me_ul = false /\
  me_strs (render_tree plain_deco 3 fx_o 10 me_ul) = Ok [[97]; [98]] /\
  me_strs (render_tree plain_deco 3 fx_o 10 (erase me_ul)) = Ok [[97; 98]] /\
  me_strs (render_tree plain_deco 3 fx_o 1 me_ul) = TooNarrow /\
  me_strs (render_tree plain_deco 3 fx_o 1 (erase me_ul)) = Ok [[97]; [98]] /\
  me_str_route cfg_plain [NText (Al 16 [97]); fx_el [117;108] [] [me_span [120]]; NText (Al 20 [98])] 10
    = Ok [97; 10; 98; 10] /\
  me_str_route cfg_plain [NText (Al 16 [97]); fx_el [117;108] [] [me_span []]; NText (Al 20 [98])] 10
    = Ok [97; 98; 10].
Proof. repeat split; vm_compute; reflexivity. Qed.

(* (2) sup_marker_digits (the root cause of the recorded finding sup_digits_wrapped): <sup> prints
   superscript digits only for a SOLE all-digit text child; a marker next to it is a second child.
     <sup><span id=x></span>12</sup>  ->  ^{12}        <sup><span></span>12</sup>  ->  U+00B9 U+00B2 *)
Definition me_sup : rnode := cx_n (IContainer [cx_n (ISup [fx_fr [120]; cx_t 16 [49;50]])]).
Example sup_marker_digits :
  ol_clean me_sup = true /\ us_clean me_sup = false /\
  me_strs (render_tree plain_deco 3 fx_o 10 me_sup) = Ok [[94; 123; 49; 50; 125]] /\
  me_strs (render_tree plain_deco 3 fx_o 10 (erase me_sup)) = Ok [[185; 178]] /\
  me_str_route cfg_plain [fx_el [115;117;112] [] [me_span [120]; NText (Al 16 [49;50])]] 10
    = Ok [94; 123; 49; 50; 125; 10] /\
  me_str_route cfg_plain [fx_el [115;117;112] [] [me_span []; NText (Al 16 [49;50])]] 10
    = Ok [185; 178; 10].
Proof. repeat split; vm_compute; reflexivity. Qed.

(* (3) overflow_zero_width_before.  allow_width_overflow, a character wider than the block.
   Wrap.hw_elems starts every piece of the word with `first = true`; the overflow branch of
   hw_scan is taken only when the line so far has WIDTH 0.  A zero-width character (a combining
   mark) in front of the marker is a piece of its own: after it the line has width 0 but is not
   empty, so the over-wide character of the next piece joins it.  Without the marker the
   zero-width character and the wide one are one piece: the scan takes the zero-width character
   (it fits), stops at the wide one with first = false, and flushes.
     <p>&#x301;<span id=x></span>&#x4E16;</p>  width 1  ->  one line   U+0301 U+4E16
     <p>&#x301;&#x4E16;</p>                              ->  two lines  U+0301 / U+4E16
   (4) overflow_zero_width_after.  The repair aa6dbdd (Wrap.take_zw: the zero-width characters
   after a character taken by the overflow branch stay with it) does not look across the piece
   boundary a marker makes:
     <p>&#x4E16;<span id=x></span>&#x301;</p>  width 1  ->  two lines  U+4E16 / U+0301
     <p>&#x4E16;&#x301;</p>                              ->  one line   U+4E16 U+0301
   Without allow_width_overflow both runs of both documents are TooNarrow. *)
Definition me_zb : rnode :=
  cx_n (IContainer [cx_n (IText [me_zw 16]); fx_fr [120]; cx_n (IText [fx_wide 17])]).
Definition me_za : rnode :=
  cx_n (IContainer [cx_n (IText [fx_wide 16]); fx_fr [120]; cx_n (IText [me_zw 17])]).
Example overflow_zero_width :
  marker_clean me_zb = true /\ marker_clean me_za = true /\ o_allow_overflow fx_oo = true /\
  me_strs (render_tree plain_deco 3 fx_oo 1 me_zb) = Ok [[769; 19990]] /\
  me_strs (render_tree plain_deco 3 fx_oo 1 (erase me_zb)) = Ok [[769]; [19990]] /\
  me_strs (render_tree plain_deco 3 fx_oo 1 me_za) = Ok [[19990]; [769]] /\
  me_strs (render_tree plain_deco 3 fx_oo 1 (erase me_za)) = Ok [[19990; 769]] /\
  me_strs (render_tree plain_deco 3 fx_o 1 me_zb) = TooNarrow /\
  me_strs (render_tree plain_deco 3 fx_o 1 (erase me_zb)) = TooNarrow /\
  me_str_route (set_overflow cfg_plain)
    [fx_el [112] [] [NText [me_zw 16]; me_span [120]; NText [fx_wide 17]]] 1 = Ok [769; 19990; 10] /\
  me_str_route (set_overflow cfg_plain)
    [fx_el [112] [] [NText [me_zw 16]; me_span []; NText [fx_wide 17]]] 1 = Ok [769; 10; 19990; 10] /\
  me_str_route (set_overflow cfg_plain)
    [fx_el [112] [] [NText [fx_wide 16]; me_span [120]; NText [me_zw 17]]] 1 = Ok [19990; 10; 769; 10] /\
  me_str_route (set_overflow cfg_plain)
    [fx_el [112] [] [NText [fx_wide 16]; me_span []; NText [me_zw 17]]] 1 = Ok [19990; 769; 10].
Proof. repeat split; vm_compute; reflexivity. Qed.

(* ================================================================== *)
(* 10. allow_width_overflow, when it is not needed                      *)
(* ================================================================== *)
(* The findings (3), (4) need a character wider than its block.  With SimRel.c11 (a rendering that
   succeeds without the flag is unchanged by it): whenever the tree WITH its markers renders
   without allow_width_overflow, the flag changes nothing on either side, so markers do not
   change the text under the flag either. *)
Theorem c14_erase_strings_overflow d mw o width n s ls :
  marker_clean n = true -> o_allow_overflow o = false ->
  render_tree d mw o width n = Ok s -> sub_into_lines s = Ok ls ->
  exists s1 s2 ls2,
    render_tree d mw (with_overflow o) width n = Ok s1 /\ sub_into_lines s1 = Ok ls /\
    render_tree d mw (with_overflow o) width (erase n) = Ok s2 /\ sub_into_lines s2 = Ok ls2 /\
    same_text ls ls2.
Proof.
  intros Hc Ho H Hls. pose proof (erase_render_tree d mw o width n Hc Ho) as R.
  rewrite H in R. cbn [rs] in R.
  destruct (render_tree d mw o width (erase n)) as [s'| | |] eqn:E'; try contradiction.
  pose proof (SR_lines _ _ R) as L. rewrite Hls in L.
  destruct (sub_into_lines s') as [ls2| | |] eqn:El'; cbn [res_rel] in L; try contradiction.
  destruct (c11_overflow_noop_render d mw o width n s H) as [E1 K1].
  destruct (c11_overflow_noop_render d mw o width (erase n) s' E') as [E2 K2].
  exists (ovs s), (ovs s'), ls2.
  split; [exact E1|]. split; [apply K1, Hls|]. split; [exact E2|]. split; [apply K2, El'|exact L].
Qed.
Print Assumptions c14_erase_strings_overflow.

Example me_tree_overflow :
  exists s1 s2 ls ls2,
    render_tree plain_deco 3 (with_overflow fx_o) 9 me_tree = Ok s1 /\ sub_into_lines s1 = Ok ls /\
    render_tree plain_deco 3 (with_overflow fx_o) 9 (erase me_tree) = Ok s2 /\
    sub_into_lines s2 = Ok ls2 /\ same_text ls ls2.
Proof.
  destruct (render_tree plain_deco 3 fx_o 9 me_tree) as [s| | |] eqn:E;
    try (exfalso; vm_compute in E; discriminate E).
  destruct (sub_into_lines s) as [ls| | |] eqn:El;
    try (exfalso; revert El; vm_compute in E; injection E as <-; vm_compute; discriminate).
  destruct (c14_erase_strings_overflow plain_deco 3 fx_o 9 me_tree s ls eq_refl eq_refl E El)
    as (s1 & s2 & ls2 & A & B & C & D & F).
  exists s1, s2, ls, ls2. auto.
Qed.
