(* Proofs/MaxWrapBound.v -- property C15, first clause, first half:
   "a maximum wrap width m limits text lines to m columns beyond their prefix".
   (The second half, "and changes nothing when m is at least the width", is
   Compose.c15_maxwrap_noop_render.)
   Whole-renderer proof, partial correctness (only the Ok outcome is considered).  No axioms.

   HOW THE MODEL USES THE MAXIMUM WRAP WIDTH (Sub.get_wrapping)
     `wrap_width o = Some m` is read in exactly one place: when a sub-renderer of width W opens a
     new wrapping block, the block is  min (max m 1) W  columns wide (ParaGreedy.eff_w).  Every
     line a wrapping block emits is at most as wide as the block (overflow off: WrapInv.Inv /
     RenderWidth.InvP; this includes the lines padded by `pad_blocks`, which are padded to the
     BLOCK width, and the lines of <pre>, which are cut at the block width).  A prefixed block
     (quote, heading, list item, dd) of prefix width p renders its content in a nested
     sub-renderer of width W - p and prepends at most p columns to every line of it.
     Nothing else in a table-free tree makes a line, except the footnote list (`fmt_links`),
     which is wrapped at the WIDTH of the renderer (`swidth_`), not at m.

   THE INVARIANT (compositional, as in RenderWidth/OverflowBound)
     sub_okM m B s:  overflow off, wrap_width = Some m, the wrapping block a fresh `get_wrapping`
       would open is at most B wide (min (max m 1) (swidth_ s) <= B), every line of s is at most B
       wide, the open wrapping block is at most B wide.
     - a sub-renderer that holds no prefixed block keeps sub_okM (min W (max m 1)), W its width
       (take B = max m 1 in `render_kids_RM`, W from RenderWidth: corollary `sub_renderer_bound`);
     - `append_subrender_okM`: a child with bound B' appended with prefixes of at most p columns
       fits the bound B of the parent as soon as p + B' <= B;
     - node_okM_all: render_node of a table-free node n keeps sub_okM B of the top sub-renderer
       for every B >= pchain d n + max m 1  (one bound per sub-renderer on the stack; the
       content of a prefixed block of prefix p is rendered with the bound B - p).
     pchain (OverflowBound.v) = P, the largest total prefix width of a chain of nested prefixed
     blocks (for <ol>: the width `olpw` render_node reserves for the numbers).

   MAIN THEOREMS
     c15_maxwrap_body_bound :
       ol_prefix_monotone d -> ol_prefix_sat d ->                  (H1)
       o_allow_overflow o = false ->                                (H2)
       wrap_width o = Some m ->
       no_table tree = true ->                                      (H4)
       tree_ok fn L tree = true ->                                  (H5, decidable; any fn, L)
       render_tree d mw o width tree = Ok s ->
       exists body foot, sub_into_lines s = Ok (body ++ foot) /\
         (forall r, In r body -> rline_width r <= pchain d tree + N.max m 1) /\
         (o_footnotes o = false -> foot = [])
       (`foot` is the footnote list, including nothing else; `body` everything before it).
     c15_maxwrap_bound : additionally o_footnotes o = false, 1 <= width:
       forall ls, sub_into_lines s = Ok ls -> forall r, In r ls ->
         rline_width r <= N.min width (pchain d tree + N.max m 1).
     c15_maxwrap_lines_from_read / c15_maxwrap_string_from_read: through the Api routes with
       c_max_wrap c = Some m.
     sub_renderer_bound (what holds inside tables): the lines of a sub-renderer of width w in
       which table-free nodes cs were rendered (a table cell: w = the column width) are at most
       min w (P(cs) + max m 1) wide.  The ROW lines of a table are the cell lines padded to the
       column widths and joined with separators, so they are NOT limited by m (mwb_table).

   HYPOTHESES
     (H1) as in C02: the item numbers between the first and the last measured number of an <ol>
          have prefixes no wider than those two (true of the built-in decorators).
     (H2) overflow off, as in the task.  (With overflow on a character wider than m is put on a
          line of its own, mwb_overflow, and width_minus makes nested blocks wider than the
          remaining width.)
     (H4) table-free: see mwb_table.
     (H5) RenderWidth.tree_ok: every <ol> has i64_min <= start (true of trees built from a DOM);
          the link-target part of tree_ok is not used (fn, L arbitrary; take fn = false).
     footnotes off in c15_maxwrap_bound: the footnote list is wrapped at the width (mwb_foot).

   OBSERVATIONS (each with an `Example` in section 6), read against "limits text lines to m
   columns beyond their prefix":
     O1 (mwb_m0)    m = 0 behaves as m = 1: the lines are 1 column wide, not 0 (and not an
                    error).  The bound is P + max m 1, not P + m.
     O2 (mwb_foot)  the footnote list "[n]: url" is wrapped at the renderer width, not at m:
                    with m = 5, width 30 the line "[1]: http://aaaaaaaaaaaaa" is 25 columns wide.
                    These are text lines without a prefix; they contradict the clause as a user
                    would read it (whether intended: the URL list is arguably not flowed text).
     O3 (mwb_table) table rows: cell text is wrapped at min (column width) (max m 1), but the
                    columns keep their widths (computed without regard to m) and the row lines
                    are padded to them: with m = 5, width 30 every line of a 2-column table is
                    30 wide.  Reading "text lines" as "lines of flowed text" this is outside the
                    clause; reading it as "every output line" it contradicts it.
     O4 (mwb_pad)   `pad_block_width` pads to the BLOCK width min (max m 1) W, not to the
                    renderer width: padded lines are exactly prefix + m wide - consistent.
     O5 (mwb_pre)   <pre> lines are cut at the block width, so they obey m as well.
     O6 (mwb_tight) the bound P + max m 1 is attained.
     No defect of the renderer was found in the table-free, footnote-free case: the bound holds
     with exactly the C02 side conditions.

   STRUCTURE
     1 sub-renderer layer (sub_okM)   2 render layer (node_okM_all)   3 render_tree
     4 sub-renderers inside tables    5 Api routes                    6 examples *)
From H2T Require Import Base Tagged Wrap Sub Css Dom Render Api.
From H2T Require Import Proofs.WrapInv Proofs.RenderWidth Proofs.Footnotes Proofs.OverflowBound.
From Coq Require Import Lia ZifyN ZifyBool ZifyNat.

Local Arguments N.add : simpl never.
Local Arguments N.sub : simpl never.
Local Arguments N.mul : simpl never.
Local Arguments N.div : simpl never.
Local Arguments N.modulo : simpl never.
Local Arguments N.leb : simpl never.
Local Arguments N.ltb : simpl never.
Local Arguments N.eqb : simpl never.
Local Arguments N.min : simpl never.
Local Arguments N.max : simpl never.
Local Arguments N.to_nat : simpl never.
Local Arguments N.of_nat : simpl never.
Local Open Scope N_scope.

(* ================================================================== *)
(* 1. Sub-renderer layer: every line is at most B wide                 *)
(* ================================================================== *)

Section SubLayer.
  Variable m : N.      (* the maximum wrap width *)

  Definition sub_okM (B : N) (s : subr) : Prop :=
    o_allow_overflow (sopts s) = false /\
    wrap_width (sopts s) = Some m /\
    N.min (N.max m 1) (swidth_ s) <= B /\
    (forall r, In r (slines s) -> rline_width r <= B) /\
    vw (pending_frags s) = 0 /\
    (forall w, wrapping s = Some w -> wb_okW B w).

  Lemma sub_okM_mk B s :
    o_allow_overflow (sopts s) = false ->
    wrap_width (sopts s) = Some m ->
    N.min (N.max m 1) (swidth_ s) <= B ->
    (forall r, In r (slines s) -> rline_width r <= B) ->
    vw (pending_frags s) = 0 ->
    (forall w, wrapping s = Some w -> wb_okW B w) -> sub_okM B s.
  Proof. unfold sub_okM. auto 10. Qed.

  Lemma wb_okW_mono W W' w : W <= W' -> wb_okW W w -> wb_okW W' w.
  Proof. intros H (A & B & C). split; [exact A|]. split; [lia|exact C]. Qed.

  Lemma sub_okM_mono B B' s : B <= B' -> sub_okM B s -> sub_okM B' s.
  Proof.
    intros HB (H1 & H2 & H3 & H4 & H5 & H6). apply sub_okM_mk; auto; try lia.
    - intros r Hr. specialize (H4 r Hr). lia.
    - intros w Hw. eapply wb_okW_mono; [exact HB|apply H6, Hw].
  Qed.

  (* the C02 invariant gives the bound B = the width of the sub-renderer *)
  Lemma sub_ok_okM s : sub_ok s -> wrap_width (sopts s) = Some m -> sub_okM (swidth_ s) s.
  Proof.
    intros (H1 & H2 & H3 & H4) Hm. apply sub_okM_mk; auto. lia.
  Qed.

  Definition keepsM (B : N) (f : subr -> res subr) : Prop :=
    forall s s', sub_okM B s -> f s = Ok s' -> sub_okM B s' /\ same s s'.

  Lemma sub_okM_ext B s s' :
    swidth_ s' = swidth_ s -> sopts s' = sopts s -> slines s' = slines s ->
    pending_frags s' = pending_frags s -> wrapping s' = wrapping s -> sub_okM B s -> sub_okM B s'.
  Proof. unfold sub_okM. intros -> -> -> -> ->. auto. Qed.

  Lemma keepsM_pure B (g : subr -> subr) :
    (forall s, swidth_ (g s) = swidth_ s /\ sopts (g s) = sopts s /\ slines (g s) = slines s /\
               pending_frags (g s) = pending_frags s /\ wrapping (g s) = wrapping s) ->
    keepsM B (fun s => Ok (g s)).
  Proof.
    intros Hg s s' Hs H. ok_inv H. destruct (Hg s) as (a & b & c & e & f).
    split; [apply (sub_okM_ext B s); auto|split; auto].
  Qed.

  Lemma keepsM_comp B f g : keepsM B f -> keepsM B g -> keepsM B (fun s => do s1 <- f s; g s1).
  Proof.
    intros Hf Hg s s' Hs H. bind_inv H s1 H1.
    destruct (Hf _ _ Hs H1) as [A X]. destruct (Hg _ _ A H) as [C D].
    split; [exact C|eapply same_trans; eassumption].
  Qed.

  Lemma add_line_okM B s l : sub_okM B s -> rline_width l <= B -> sub_okM B (add_line s l).
  Proof.
    intros (H1 & H2 & H3 & H4 & H5 & H6) Hl.
    destruct (add_line_same s l) as (a & b & c).
    destruct (add_line_lines s l H5) as (l' & El & Ew & Ep).
    unfold sub_okM. rewrite a, b, c, El. repeat (split; [assumption|]).
    split; [|split; [exact Ep|exact H6]].
    intros r Hr. apply in_app_or in Hr. destruct Hr as [Hr|[<-|[]]]; [auto|lia].
  Qed.

  Lemma extend_lines_okM B ls : forall s,
    sub_okM B s -> (forall l, In l ls -> rline_width l <= B) ->
    sub_okM B (extend_lines s ls) /\ same s (extend_lines s ls) /\
    wrapping (extend_lines s ls) = wrapping s.
  Proof.
    unfold extend_lines. induction ls as [|l ls IH]; intros s Hs Hls; cbn [fold_left].
    - split; [exact Hs|]. split; [apply same_refl|reflexivity].
    - destruct (add_line_same s l) as (a & b & c).
      destruct (IH (add_line s l)) as (A & X & C).
      + apply add_line_okM; [exact Hs|]. apply Hls. left. reflexivity.
      + intros l' Hl'. apply Hls. right. exact Hl'.
      + split; [exact A|]. split; [|congruence].
        eapply same_trans; [apply add_line_same'|exact X].
  Qed.

  Lemma flush_wrapping_okM B s s' :
    sub_okM B s -> flush_wrapping s = Ok s' -> sub_okM B s' /\ same s s' /\ wrapping s' = None.
  Proof.
    intros Hs H. unfold flush_wrapping in H. destruct (wrapping s) as [w|] eqn:Ew.
    - destruct (take_trailing_fragments w) as [w1 frags] eqn:Et.
      bind_inv H lm Hlm. ok_inv H.
      pose proof (wb_into_lines_markers_fst _ _ Hlm) as Hls.
      pose proof (frags_vw _ (wb_into_lines_markers_frags _ _ Hlm)) as Hmk.
      destruct lm as [ls mk]. cbn [fst snd] in *.
      pose proof Hs as (H1 & H2 & H3 & H4 & H5 & H6).
      destruct (take_frags_okW _ _ _ _ (H6 w Ew) Et) as [Hw1 Hfr].
      assert (Hs0 : sub_okM B (set_wrapping s None)).
      { apply sub_okM_mk; sprj; auto. intros ? [=]. }
      destruct (extend_lines_okM B (map RText ls) _ Hs0) as (A & (X1 & X2) & C).
      { intros l Hl. apply in_map_iff in Hl. destruct Hl as (tl & <- & Htl).
        cbn [rline_width]. eapply wb_into_lines_okW; eassumption. }
      sprj. destruct A as (A1 & A2 & A3 & A4 & A5 & A6).
      split; [|split; [split; sprj; auto|sprj; exact C]].
      apply sub_okM_mk; sprj; auto. rewrite !vw_app. lia.
    - ok_inv H. split; [exact Hs|]. split; [apply same_refl|exact Ew].
  Qed.

  Lemma flush_wrapping_keepsM B : keepsM B flush_wrapping.
  Proof. intros s s' Hs H. destruct (flush_wrapping_okM B s s' Hs H) as (A & X & _). auto. Qed.

  Lemma set_abe_okM B s b : sub_okM B s -> sub_okM B (set_abe s b).
  Proof. apply sub_okM_ext; reflexivity. Qed.

  Lemma add_empty_line_keepsM B : keepsM B add_empty_line.
  Proof.
    intros s s' Hs H. unfold add_empty_line in H. bind_inv H s1 H1. ok_inv H.
    destruct (flush_wrapping_keepsM B _ _ Hs H1) as [A X].
    split.
    - apply set_abe_okM, add_line_okM; [exact A|]. cbn [rline_width]. rewrite raw_new. lia.
    - eapply same_trans; [exact X|]. destruct (add_line_same s1 (RText tl_new)) as (a & b & _).
      split; sprj; auto.
  Qed.

  Lemma start_block_keepsM B : keepsM B start_block.
  Proof.
    intros s s' Hs H. unfold start_block in H. bind_inv H s1 H1. bind_inv H s2 H2. ok_inv H.
    destruct (flush_wrapping_keepsM B _ _ Hs H1) as [A X].
    assert (C : sub_okM B s2 /\ same s1 s2).
    { destruct (existsb rline_has_content (slines s1)).
      - apply add_empty_line_keepsM; assumption.
      - ok_inv H2. split; [exact A|apply same_refl]. }
    destruct C as [C D]. split; [apply set_abe_okM, C|].
    eapply same_trans; [exact X|]. eapply same_trans; [exact D|]. split; reflexivity.
  Qed.

  Lemma new_line_keepsM B : keepsM B new_line.
  Proof. exact (flush_wrapping_keepsM B). Qed.

  Lemma new_line_hard_keepsM B : keepsM B new_line_hard.
  Proof.
    intros s s' Hs H. unfold new_line_hard in H. destruct (wrapping s) as [w|].
    - destruct ((wordlen w =? 0) && (tlen_ (wline w) =? 0)).
      + apply add_empty_line_keepsM; assumption.
      + apply flush_wrapping_keepsM; assumption.
    - apply add_empty_line_keepsM; assumption.
  Qed.

  (* ---- inline text: THE place where the maximum wrap width acts ---- *)
  Lemma get_wrapping_okM B s : sub_okM B s -> wb_okW B (get_wrapping s).
  Proof.
    intros (H1 & H2 & H3 & H4 & H5 & H6). unfold get_wrapping.
    destruct (wrapping s) as [w|] eqn:Ew.
    - apply H6. reflexivity.
    - rewrite H1, H2. apply wb_new_okW. exact H3.
  Qed.

  Lemma set_wrapping_okM B s w : sub_okM B s -> wb_okW B w -> sub_okM B (set_wrapping s (Some w)).
  Proof.
    intros (H1 & H2 & H3 & H4 & H5 & H6) Hw. apply sub_okM_mk; sprj; auto.
    intros w' [= <-]. exact Hw.
  Qed.

  Lemma add_inline_text_keepsM B d t : keepsM B (fun s => add_inline_text d s t).
  Proof.
    intros s s' Hs H. unfold add_inline_text in H.
    destruct (negb (preserve_ws (ws_mode s)) && at_block_end s && all_ws t).
    { ok_inv H. split; [exact Hs|apply same_refl]. }
    bind_inv H s1 H1.
    assert (A : sub_okM B s1 /\ same s s1).
    { destruct (at_block_end s).
      - apply start_block_keepsM; assumption.
      - ok_inv H1. split; [exact Hs|apply same_refl]. }
    destruct A as [A X]. bind_inv H w1 Hw1. ok_inv H.
    split.
    - apply set_wrapping_okM; [exact A|].
      eapply wb_add_text_okW; [apply get_wrapping_okM, A|exact Hw1].
    - eapply same_trans; [exact X|]. split; reflexivity.
  Qed.

  Lemma push_ann_pureM B a : keepsM B (fun s => Ok (push_ann s a)).
  Proof. apply keepsM_pure. intros s. unfold push_ann. sprj. auto. Qed.
  Lemma pop_ann_pureM B : keepsM B (fun s => Ok (pop_ann s)).
  Proof. apply keepsM_pure. intros s. unfold pop_ann. sprj. auto. Qed.

  Lemma start_deco_keepsM B d p : keepsM B (fun s => start_deco d s p).
  Proof.
    unfold start_deco.
    exact (keepsM_comp B _ _ (push_ann_pureM B (snd p)) (add_inline_text_keepsM B d (fst p))).
  Qed.

  Lemma end_deco_keepsM B d e : keepsM B (fun s => end_deco d s e).
  Proof.
    unfold end_deco. exact (keepsM_comp B _ _ (add_inline_text_keepsM B d e) (pop_ann_pureM B)).
  Qed.

  Lemma start_strikeout_keepsM B d : keepsM B (start_strikeout d).
  Proof.
    unfold start_strikeout. apply keepsM_comp; [apply (start_deco_keepsM B d)|].
    apply keepsM_pure. intros s. destruct (o_strike (sopts s)); sprj; auto.
  Qed.

  Lemma end_strikeout_keepsM B d : keepsM B (end_strikeout d).
  Proof.
    unfold end_strikeout. apply keepsM_comp; [|apply (end_deco_keepsM B d)].
    intros s s' Hs H. destruct (o_strike (sopts s)).
    - destruct (filter_depth s); [discriminate|]. ok_inv H.
      split; [apply (sub_okM_ext B s); auto|split; reflexivity].
    - ok_inv H. split; [exact Hs|apply same_refl].
  Qed.

  Lemma add_image_keepsM B d src title : keepsM B (fun s => add_image d s src title).
  Proof.
    unfold add_image.
    exact (keepsM_comp B _ _ (keepsM_comp B _ _ (push_ann_pureM B _) (add_inline_text_keepsM B d _))
                       (pop_ann_pureM B)).
  Qed.

  Lemma record_frag_start_keepsM B name : keepsM B (fun s => Ok (record_frag_start s name)).
  Proof.
    intros s s' Hs H. ok_inv H. unfold record_frag_start. split; [|split; reflexivity].
    apply set_wrapping_okM; [exact Hs|]. apply wb_add_frag_okW, get_wrapping_okM, Hs.
  Qed.

  Lemma end_block_pureM B : keepsM B (fun s => Ok (end_block s)).
  Proof. apply keepsM_pure. intros s. unfold end_block. sprj. auto. Qed.
  Lemma push_colour_pureM B d r g b : keepsM B (fun s => Ok (push_colour d s r g b)).
  Proof. apply keepsM_pure. intros s. unfold push_colour, push_ann. destruct (d_colours d); sprj; auto. Qed.
  Lemma push_bgcolour_pureM B d r g b : keepsM B (fun s => Ok (push_bgcolour d s r g b)).
  Proof. apply keepsM_pure. intros s. unfold push_bgcolour, push_ann. destruct (d_colours d); sprj; auto. Qed.
  Lemma pop_colour_pureM B d : keepsM B (fun s => Ok (pop_colour d s)).
  Proof. apply keepsM_pure. intros s. unfold pop_colour, pop_ann. destruct (d_colours d); sprj; auto. Qed.
  Lemma push_ws_mode_pureM B wm : keepsM B (fun s => Ok (push_ws_mode s wm)).
  Proof. apply keepsM_pure. intros s. unfold push_ws_mode. sprj. auto. Qed.
  Lemma pop_ws_mode_pureM B : keepsM B (fun s => Ok (pop_ws_mode s)).
  Proof. apply keepsM_pure. intros s. unfold pop_ws_mode. sprj. auto. Qed.
  Lemma push_preformat_pureM B : keepsM B (fun s => Ok (push_preformat s)).
  Proof. apply keepsM_pure. intros s. unfold push_preformat. sprj. auto. Qed.
  Lemma pop_preformat_keepsM B : keepsM B pop_preformat.
  Proof.
    intros s s' Hs H. unfold pop_preformat in H. destruct (0 <? pre_depth s); [|discriminate].
    ok_inv H. split; [apply (sub_okM_ext B s); auto|split; reflexivity].
  Qed.

  (* a nested sub-renderer: any bound that is at least max m 1 (or at least its width) will do *)
  Lemma new_sub_renderer_okM B s w :
    o_allow_overflow (sopts s) = false -> wrap_width (sopts s) = Some m ->
    N.min (N.max m 1) w <= B -> sub_okM B (new_sub_renderer s w).
  Proof.
    intros Ho Hm HB. unfold new_sub_renderer. apply sub_okM_mk; sprj; auto;
      [intros r []|intros ? [=]].
  Qed.

  (* ---- append_subrender (prefixes) ---- *)
  Lemma sub_into_lines_okM B s ls :
    sub_okM B s -> sub_into_lines s = Ok ls -> forall r, In r ls -> rline_width r <= B.
  Proof.
    intros Hs H. unfold sub_into_lines in H. bind_inv H s1 H1. ok_inv H.
    destruct (flush_wrapping_okM B _ _ Hs H1) as ((_ & _ & _ & A & _) & _ & _). exact A.
  Qed.

  (* the child was rendered with the bound B'; with prefixes of at most p columns its lines fit
     the parent's bound B as soon as p + B' <= B *)
  Lemma append_subrender_okM B B' s other first rest p s' :
    sub_okM B s -> sub_okM B' other -> swidth first <= p -> swidth rest <= p ->
    p + B' <= B ->
    append_subrender s other first rest = Ok s' -> sub_okM B s' /\ same s s'.
  Proof.
    intros Hs Ho Hf Hr Hw H. unfold append_subrender in H.
    bind_inv H s1 H1. bind_inv H ols H2. ok_inv H.
    destruct (flush_wrapping_keepsM B _ _ Hs H1) as [A [X1 X2]].
    destruct (extend_lines_okM B (attach_prefixes (ann_stack s1) first rest ols) s1 A) as (C & D & _).
    - intros l Hl.
      pose proof (attach_prefixes_width _ _ _ _ p B' Hf Hr (sub_into_lines_okM _ _ _ Ho H2) l Hl).
      lia.
    - split; [exact C|]. eapply same_trans; [split; eassumption|exact D].
  Qed.
End SubLayer.

(* ================================================================== *)
(* 2. The render layer                                                 *)
(* ================================================================== *)

Lemma maxN_kid_le (f : rnode -> N) (cs : list rnode) (c : rnode) (X B : N) :
  In c cs -> maxN (map f cs) + X <= B -> f c + X <= B.
Proof. intros Hc H. pose proof (maxN_map_in f cs c Hc). lia. Qed.

Section RenderLayerM.
  Variable d : deco.
  Variable mw : N.
  Variable m : N.         (* the maximum wrap width; M = max m 1 is what the model uses *)
  Variable fn : bool.     (* parameters of RenderWidth.tree_ok; only its <ol> part is used *)
  Variable L : N.
  Hypothesis Hd : ol_prefix_monotone d.
  Hypothesis Hsat : ol_prefix_sat d.

  Local Notation M := (N.max m 1).

  (* one bound per sub-renderer on the stack, innermost first *)
  Definition st_invM (Bs : list N) (st : rstate) : Prop := Forall2 (sub_okM m) Bs (stack st).

  Definition RM (Bs : list N) (st st' : rstate) : Prop :=
    st_invM Bs st' /\ shape st' = shape st.

  Lemma RM_refl Bs st : st_invM Bs st -> RM Bs st st.
  Proof. intros H. split; [exact H|reflexivity]. Qed.
  Lemma RM_trans Bs a b c : RM Bs a b -> RM Bs b c -> RM Bs a c.
  Proof. intros [A1 A2] [B1 B2]. split; [exact B1|congruence]. Qed.

  Lemma with_top_RM B Bs f st st' :
    keepsM m B f -> st_invM (B :: Bs) st -> with_top st f = Ok st' -> RM (B :: Bs) st st'.
  Proof.
    intros Hk Hi H. destruct (with_top_inv _ _ _ H) as (s & rest & s' & Es & Ef & ->).
    unfold st_invM in Hi. rewrite Es in Hi.
    inversion Hi as [|B0 s0 Bs0 rest0 Hs Hrest]; subst.
    destruct (Hk s s' Hs Ef) as [A [X1 X2]].
    split.
    - unfold st_invM. cbn [stack]. constructor; assumption.
    - unfold shape. cbn [stack]. rewrite Es. cbn [map]. congruence.
  Qed.

  Lemma with_top'_RM B Bs g st st' :
    keepsM m B (fun s => Ok (g s)) -> st_invM (B :: Bs) st -> with_top' st g = Ok st' ->
    RM (B :: Bs) st st'.
  Proof. unfold with_top'. apply with_top_RM. Qed.

  Lemma apply_style_RM B Bs st cs st' p :
    st_invM (B :: Bs) st -> apply_style d st cs = Ok (st', p) -> RM (B :: Bs) st st'.
  Proof.
    intros Hi H. unfold apply_style in H.
    bind_inv H st1 H1. bind_inv H st2 H2. bind_inv H st3 H3. bind_inv H st4 H4.
    injection H as <- _.
    assert (R1 : RM (B :: Bs) st st1).
    { destruct (ws_val (c_colour (cs_core cs))) as [[[r g] b]|].
      - eapply with_top'_RM; [apply push_colour_pureM|exact Hi|exact H1].
      - ok_inv H1. apply RM_refl, Hi. }
    assert (R2 : RM (B :: Bs) st1 st2).
    { destruct (ws_val (c_bg (cs_core cs))) as [[[r g] b]|].
      - eapply with_top'_RM; [apply push_bgcolour_pureM|exact (proj1 R1)|exact H2].
      - ok_inv H2. apply RM_refl, R1. }
    assert (R3 : RM (B :: Bs) st2 st3).
    { destruct (match ws_val (c_white_space (cs_core cs)) with
                | Some WsPre => Some WsPre
                | Some WsPreWrap => Some WsPreWrap
                | _ => None
                end) as [wm|].
      - eapply with_top'_RM; [apply push_ws_mode_pureM|exact (proj1 R2)|exact H3].
      - ok_inv H3. apply RM_refl, R2. }
    assert (R4 : RM (B :: Bs) st3 st4).
    { destruct (cs_internal_pre cs).
      - eapply with_top'_RM; [apply push_preformat_pureM|exact (proj1 R3)|exact H4].
      - ok_inv H4. apply RM_refl, R3. }
    eapply RM_trans; [|exact R4]. eapply RM_trans; [|exact R3]. eapply RM_trans; eassumption.
  Qed.

  Lemma unwind_RM B Bs p st st' :
    st_invM (B :: Bs) st -> unwind d p st = Ok st' -> RM (B :: Bs) st st'.
  Proof.
    intros Hi H. unfold unwind in H.
    bind_inv H st1 H1. bind_inv H st2 H2. bind_inv H st3 H3.
    assert (R1 : RM (B :: Bs) st st1).
    { destruct (p_bg p).
      - eapply with_top'_RM; [apply pop_colour_pureM|exact Hi|exact H1].
      - ok_inv H1. apply RM_refl, Hi. }
    assert (R2 : RM (B :: Bs) st1 st2).
    { destruct (p_colour p).
      - eapply with_top'_RM; [apply pop_colour_pureM|exact (proj1 R1)|exact H2].
      - ok_inv H2. apply RM_refl, R1. }
    assert (R3 : RM (B :: Bs) st2 st3).
    { destruct (p_ws p).
      - eapply with_top'_RM; [apply pop_ws_mode_pureM|exact (proj1 R2)|exact H3].
      - ok_inv H3. apply RM_refl, R2. }
    assert (R4 : RM (B :: Bs) st3 st').
    { destruct (p_pre p).
      - eapply with_top_RM; [apply pop_preformat_keepsM|exact (proj1 R3)|exact H].
      - ok_inv H. apply RM_refl, R3. }
    eapply RM_trans; [|exact R4]. eapply RM_trans; [|exact R3]. eapply RM_trans; eassumption.
  Qed.

  Lemma inline_text_RM B Bs t st st' :
    st_invM (B :: Bs) st -> inline_text d st t = Ok st' -> RM (B :: Bs) st st'.
  Proof. unfold inline_text. apply with_top_RM, add_inline_text_keepsM. Qed.

  (* ---- the per-node property and the fold over children ---- *)
  Definition node_okM (n : rnode) : Prop :=
    forall B Bs st st', no_table n = true -> tree_ok fn L n = true -> pchain d n + M <= B ->
      st_invM (B :: Bs) st -> render_node d mw n st = Ok st' -> RM (B :: Bs) st st'.

  Lemma render_kids_RM B Bs cs st st' :
    Forall node_okM cs -> forallb no_table cs = true -> forallb (tree_ok fn L) cs = true ->
    maxN (map (pchain d) cs) + M <= B -> st_invM (B :: Bs) st ->
    fold_left (fun acc c => do s <- acc; render_node d mw c s) cs (Ok st) = Ok st' ->
    RM (B :: Bs) st st'.
  Proof.
    intros HF Hn Ht HB Hi H.
    apply (fold_bind_inv (fun a => RM (B :: Bs) st a) (render_node d mw) cs) with (a := st);
      [|apply RM_refl, Hi|exact H].
    intros c Hc a a' Ra Hr. eapply RM_trans; [exact Ra|].
    rewrite Forall_forall in HF. rewrite forallb_forall in Hn, Ht.
    apply (HF c Hc B Bs a a' (Hn c Hc) (Ht c Hc)); [|exact (proj1 Ra)|exact Hr].
    eapply maxN_kid_le; eassumption.
  Qed.

  (* ---- nested sub-renderers ---- *)
  Lemma top_okM B Bs st tp : st_invM (B :: Bs) st -> top st = Ok tp -> sub_okM m B tp.
  Proof.
    intros Hi Ht. destruct (top_inv _ _ Ht) as [rest E]. unfold st_invM in Hi. rewrite E in Hi.
    inversion Hi; assumption.
  Qed.

  Lemma push_invM B B' Bs st tp w :
    st_invM (B :: Bs) st -> top st = Ok tp -> M <= B' ->
    st_invM (B' :: B :: Bs) (push_sub st (new_sub_renderer tp w)).
  Proof.
    intros Hi Ht HB'. pose proof (top_okM _ _ _ _ Hi Ht) as (Ho & Hm & _).
    unfold st_invM. cbn [push_sub stack]. constructor; [|exact Hi].
    apply new_sub_renderer_okM; auto. lia.
  Qed.

  Lemma sub_scopeM B B' Bs st tp w st2 sub st3 :
    st_invM (B :: Bs) st -> top st = Ok tp ->
    RM (B' :: B :: Bs) (push_sub st (new_sub_renderer tp w)) st2 ->
    pop_sub st2 = Ok (sub, st3) ->
    RM (B :: Bs) st st3 /\ sub_okM m B' sub /\ swidth_ sub = w.
  Proof.
    intros Hi Ht [I1 E] Hp. unfold pop_sub in Hp.
    destruct (stack st2) as [|s rest] eqn:Es; [discriminate|]. injection Hp as -> <-.
    unfold st_invM in I1. rewrite Es in I1.
    inversion I1 as [|? ? ? ? Hs Hr]; subst.
    unfold shape in E. rewrite Es in E. cbn [push_sub stack map] in E. injection E as E1 E2 E3.
    split; [split|split].
    - exact Hr.
    - exact E3.
    - exact Hs.
    - exact E1.
  Qed.

  (* a prefixed block of prefix width p: push, body (bound B - p), pop; afterwards the child
     can be appended with any prefixes of at most p columns *)
  Lemma prefixed_scopeM B Bs st tp p w st2 sub st3 :
    st_invM (B :: Bs) st -> top st = Ok tp -> p + M <= B ->
    (st_invM (B - p :: B :: Bs) (push_sub st (new_sub_renderer tp w)) ->
     RM (B - p :: B :: Bs) (push_sub st (new_sub_renderer tp w)) st2) ->
    pop_sub st2 = Ok (sub, st3) ->
    RM (B :: Bs) st st3 /\
    forall first rest, swidth first <= p -> swidth rest <= p ->
      keepsM m B (fun s => append_subrender s sub first rest).
  Proof.
    intros Hi Ht HB Hbody Hp.
    pose proof (push_invM B (B - p) Bs st tp w Hi Ht ltac:(lia)) as Hi1.
    destruct (sub_scopeM B (B - p) Bs st tp w st2 sub st3 Hi Ht (Hbody Hi1) Hp) as (R3 & Hsub & Esub).
    split; [exact R3|].
    intros first rest H1 H2 s s' Hs Happ.
    eapply (append_subrender_okM m B (B - p) s sub first rest p); try eassumption. lia.
  Qed.

  (* ---- the simple node kinds ---- *)
  Lemma wrap_caseM B Bs (f1 f2 : subr -> res subr) cs ps st1 st' :
    keepsM m B f1 -> keepsM m B f2 -> Forall node_okM cs ->
    forallb no_table cs = true -> forallb (tree_ok fn L) cs = true ->
    maxN (map (pchain d) cs) + M <= B ->
    st_invM (B :: Bs) st1 ->
    (do a <- with_top st1 f1;
     do b <- fold_left (fun acc c => do s <- acc; render_node d mw c s) cs (Ok a);
     do c <- with_top b f2; unwind d ps c) = Ok st' -> RM (B :: Bs) st1 st'.
  Proof.
    intros K1 K2 HF Hn Ht HB Hi H.
    bind_inv H a H1. bind_inv H b H2. bind_inv H c H3.
    pose proof (with_top_RM _ _ _ _ _ K1 Hi H1) as Ra.
    pose proof (render_kids_RM _ _ _ _ _ HF Hn Ht HB (proj1 Ra) H2) as Rb.
    pose proof (with_top_RM _ _ _ _ _ K2 (proj1 Rb) H3) as Rc.
    pose proof (unwind_RM _ _ _ _ _ (proj1 Rc) H) as Rd.
    eapply RM_trans; [exact Ra|]. eapply RM_trans; [exact Rb|]. eapply RM_trans; eassumption.
  Qed.

  (* ---- ordered lists ---- *)
  Lemma ol_items_RM B Bs sz pw start0 (n : nat) : forall items k s r,
    Forall node_okM items -> forallb no_table items = true ->
    forallb (tree_ok fn L) items = true -> pw + maxN (map (pchain d) items) + M <= B ->
    (forall j, (j < n)%nat -> swidth (d_ol_prefix d (ol_idx start0 j)) <= pw) ->
    (k + length items = n)%nat -> (i64_min <= start0)%Z ->
    st_invM (B :: Bs) s ->
    fold_left (fun acc item => do si <- acc; ol_step d mw sz pw item si) items
              (Ok (s, ol_idx start0 k)) = Ok r ->
    RM (B :: Bs) s (fst r).
  Proof.
    induction items as [|item items IH]; intros k s r HF Hn Ht HB Hlen Hk Hmin Hi H.
    - cbn [fold_left] in H. ok_inv H. apply RM_refl, Hi.
    - apply fold_bind_cons in H. destruct H as ([s4 i'] & Hstep & H).
      pose proof (Forall_inv HF) as HF1. pose proof (Forall_inv_tail HF) as HF2.
      cbn [forallb] in Hn, Ht. apply andb_true_iff in Hn, Ht.
      destruct Hn as [Hn1 Hn2]. destruct Ht as [Ht1 Ht2].
      cbn [length] in Hk. cbn [map maxN] in HB.
      unfold ol_step in Hstep.
      bind_inv Hstep iw Hiw.
      bind_inv Hstep tp Htp. bind_inv Hstep w Hw. bind_inv Hstep s2 Hs2. bind_inv Hstep pp Hpp.
      destruct pp as [sub s3]. bind_inv Hstep s4' H4. injection Hstep as -> <-.
      destruct (prefixed_scopeM B Bs _ _ pw w s2 sub s3 Hi Htp ltac:(lia)) as [R3 Kapp];
        [|exact Hpp|].
      { intros Ip. eapply HF1; [exact Hn1|exact Ht1|lia|exact Ip|exact Hs2]. }
      assert (R4 : RM (B :: Bs) s3 s4).
      { eapply with_top_RM; [|exact (proj1 R3)|exact H4].
        apply Kapp.
        - rewrite swidth_pad_width. specialize (Hlen k ltac:(lia)). lia.
        - rewrite swidth_pad_chars, swidth_nil. cbn [length]. lia. }
      assert (R04 : RM (B :: Bs) s s4) by (eapply RM_trans; eassumption).
      eapply RM_trans; [exact R04|].
      rewrite (ol_idx_succ _ _ Hmin) in H.
      eapply (IH (S k) s4 r); try eassumption; try lia.
      exact (proj1 R04).
  Qed.

  Ltac startM H Hinv sz Hsz ap st1 ps R1 :=
    let Hap := fresh "Hap" in
    bind_inv H sz Hsz; bind_inv H ap Hap; destruct ap as [st1 ps];
    pose proof (apply_style_RM _ _ _ _ _ _ Hinv Hap) as R1.

  Lemma node_okM_all : forall n, node_okM n.
  Proof.
    apply rnode_ind'. intros i sty IH B Bs st st' Hn Ht HB Hinv H.
    destruct i; cbn [direct_kids] in IH;
      cbn [no_table rn_info] in Hn; try discriminate;
      cbn [render_node rn_info rn_style] in H; cbn [tree_ok rn_info] in Ht;
      cbn [pchain rn_info] in HB.
    - (* IText *)
      startM H Hinv sz Hsz ap st1 ps R1. bind_inv H st2 H2.
      pose proof (inline_text_RM _ _ _ _ _ (proj1 R1) H2) as R2.
      pose proof (unwind_RM _ _ _ _ _ (proj1 R2) H) as R3.
      eapply RM_trans; [exact R1|]. eapply RM_trans; eassumption.
    - (* IContainer *)
      startM H Hinv sz Hsz ap st1 ps R1. bind_inv H st2 H2.
      pose proof (render_kids_RM _ _ _ _ _ IH Hn Ht HB (proj1 R1) H2) as R2.
      pose proof (unwind_RM _ _ _ _ _ (proj1 R2) H) as R3.
      eapply RM_trans; [exact R1|]. eapply RM_trans; eassumption.
    - (* ILink *)
      startM H Hinv sz Hsz ap st1 ps R1.
      apply andb_true_iff in Ht. destruct Ht as [Hh Ht].
      pose proof (proj1 R1) as I1.
      set (st1' := mkrst (stack st1) (links st1 ++ [href])) in H.
      assert (R1' : RM (B :: Bs) st1 st1') by (split; [exact I1|reflexivity]).
      bind_inv H st2 H2. bind_inv H st3 H3. bind_inv H st4 H4. bind_inv H tp H5. bind_inv H st5 H6.
      pose proof (with_top_RM _ _ _ _ _ (start_deco_keepsM m B d (d_link_start d href))
                    (proj1 R1') H2) as R2.
      pose proof (render_kids_RM _ _ _ _ _ IH Hn Ht HB (proj1 R2) H3) as R3.
      pose proof (with_top_RM _ _ _ _ _ (end_deco_keepsM m B d (d_link_end d)) (proj1 R3) H4) as R4.
      assert (R5 : RM (B :: Bs) st4 st5).
      { destruct (o_footnotes (sopts tp)).
        - eapply inline_text_RM; [exact (proj1 R4)|exact H6].
        - ok_inv H6. apply RM_refl, R4. }
      pose proof (unwind_RM _ _ _ _ _ (proj1 R5) H) as R6.
      eapply RM_trans; [exact R1|]. eapply RM_trans; [exact R1'|]. eapply RM_trans; [exact R2|].
      eapply RM_trans; [exact R3|]. eapply RM_trans; [exact R4|]. eapply RM_trans; eassumption.
    - (* IEm *)
      startM H Hinv sz Hsz ap st1 ps R1. eapply RM_trans; [exact R1|].
      eapply (wrap_caseM B Bs (start_emphasis d) (end_emphasis d)); try eassumption;
        [apply (start_deco_keepsM m B d)|apply (end_deco_keepsM m B d)|exact (proj1 R1)].
    - (* IStrong *)
      startM H Hinv sz Hsz ap st1 ps R1. eapply RM_trans; [exact R1|].
      eapply (wrap_caseM B Bs (start_strong d) (end_strong d)); try eassumption;
        [apply (start_deco_keepsM m B d)|apply (end_deco_keepsM m B d)|exact (proj1 R1)].
    - (* IStrikeout *)
      startM H Hinv sz Hsz ap st1 ps R1. eapply RM_trans; [exact R1|].
      eapply (wrap_caseM B Bs (start_strikeout d) (end_strikeout d)); try eassumption;
        [apply start_strikeout_keepsM|apply end_strikeout_keepsM|exact (proj1 R1)].
    - (* ICode *)
      startM H Hinv sz Hsz ap st1 ps R1. eapply RM_trans; [exact R1|].
      eapply (wrap_caseM B Bs (start_code d) (end_code d)); try eassumption;
        [apply (start_deco_keepsM m B d)|apply (end_deco_keepsM m B d)|exact (proj1 R1)].
    - (* IImg *)
      startM H Hinv sz Hsz ap st1 ps R1. bind_inv H st2 H2.
      pose proof (with_top_RM _ _ _ _ _ (add_image_keepsM m B d src title) (proj1 R1) H2) as R2.
      pose proof (unwind_RM _ _ _ _ _ (proj1 R2) H) as R3.
      eapply RM_trans; [exact R1|]. eapply RM_trans; eassumption.
    - (* IBlock *)
      startM H Hinv sz Hsz ap st1 ps R1. eapply RM_trans; [exact R1|].
      eapply (wrap_caseM B Bs start_block (fun s => Ok (end_block s))); try eassumption;
        [apply start_block_keepsM|apply end_block_pureM|exact (proj1 R1)].
    - (* IHeader *)
      startM H Hinv sz Hsz ap st1 ps R1. pose proof (proj1 R1) as I1.
      destruct (N.eqb_spec (swidth (d_header_prefix d level)) (e_prefix sz)) as [Ep'|];
        cbn [negb] in H; [|discriminate].
      bind_inv H tp Htp. bind_inv H w Hw. bind_inv H st2 H2. bind_inv H pp Hpp.
      destruct pp as [sub st3]. bind_inv H st4 H4. bind_inv H st5 H5. bind_inv H st6 H6.
      destruct (prefixed_scopeM B Bs _ _ (swidth (d_header_prefix d level)) w st2 sub st3 I1 Htp)
        as [R3 Kapp]; [lia| |exact Hpp|].
      { intros Ip. eapply render_kids_RM; try eassumption. lia. }
      pose proof (with_top_RM _ _ _ _ _ (start_block_keepsM m B) (proj1 R3) H4) as R4.
      assert (R5 : RM (B :: Bs) st4 st5).
      { eapply with_top_RM; [|exact (proj1 R4)|exact H5]. apply Kapp; lia. }
      pose proof (with_top'_RM _ _ _ _ _ (end_block_pureM m B) (proj1 R5) H6) as R6.
      pose proof (unwind_RM _ _ _ _ _ (proj1 R6) H) as R7.
      eapply RM_trans; [exact R1|]. eapply RM_trans; [exact R3|]. eapply RM_trans; [exact R4|].
      eapply RM_trans; [exact R5|]. eapply RM_trans; eassumption.
    - (* IDiv *)
      startM H Hinv sz Hsz ap st1 ps R1. eapply RM_trans; [exact R1|].
      eapply (wrap_caseM B Bs new_line new_line); try eassumption;
        [apply new_line_keepsM|apply new_line_keepsM|exact (proj1 R1)].
    - (* IBlockQuote *)
      startM H Hinv sz Hsz ap st1 ps R1. pose proof (proj1 R1) as I1.
      destruct (e_prefix sz =? swidth (d_quote_prefix d)); cbn [negb] in H; [|discriminate].
      bind_inv H iw Hiw.
      bind_inv H tp Htp. bind_inv H w Hw. bind_inv H st2 H2. bind_inv H pp Hpp.
      destruct pp as [sub st3]. bind_inv H st4 H4. bind_inv H st5 H5. bind_inv H st6 H6.
      destruct (prefixed_scopeM B Bs _ _ (swidth (d_quote_prefix d)) w st2 sub st3 I1 Htp)
        as [R3 Kapp]; [lia| |exact Hpp|].
      { intros Ip. eapply render_kids_RM; try eassumption. lia. }
      pose proof (with_top_RM _ _ _ _ _ (start_block_keepsM m B) (proj1 R3) H4) as R4.
      assert (R5 : RM (B :: Bs) st4 st5).
      { eapply with_top_RM; [|exact (proj1 R4)|exact H5]. apply Kapp; lia. }
      pose proof (with_top'_RM _ _ _ _ _ (end_block_pureM m B) (proj1 R5) H6) as R6.
      pose proof (unwind_RM _ _ _ _ _ (proj1 R6) H) as R7.
      eapply RM_trans; [exact R1|]. eapply RM_trans; [exact R3|]. eapply RM_trans; [exact R4|].
      eapply RM_trans; [exact R5|]. eapply RM_trans; eassumption.
    - (* IUl *)
      startM H Hinv sz Hsz ap st1 ps R1. pose proof (proj1 R1) as I1.
      bind_inv H st2 H2.
      assert (R2 : RM (B :: Bs) st1 st2).
      { revert H2.
        apply (fold_bind_inv (fun a => RM (B :: Bs) st1 a)
                 (fun item s =>
                    do inner_width <- usub 22 (e_min sz) (swidth (d_ul_prefix d));
                    do tp <- top s;
                    do w <- width_minus tp (swidth (d_ul_prefix d)) inner_width;
                    do s2 <- render_node d mw item (push_sub s (new_sub_renderer tp w));
                    do pp <- pop_sub s2;
                    let '(sub, s3) := pp in
                    with_top s3 (fun t => append_subrender t sub (d_ul_prefix d)
                       (repeat_chr (spacel L_prefix) (N.to_nat (swidth (d_ul_prefix d))))))
                 cs); [|apply RM_refl, I1].
        intros item Hitem a a' Ra Hstep. pose proof (proj1 Ra) as Ia.
        bind_inv Hstep iw Hiw.
        bind_inv Hstep tp Htp. bind_inv Hstep w Hw. bind_inv Hstep s2 Hs2. bind_inv Hstep pp Hpp.
        destruct pp as [sub s3].
        rewrite Forall_forall in IH. rewrite forallb_forall in Hn, Ht.
        destruct (prefixed_scopeM B Bs _ _ (swidth (d_ul_prefix d)) w s2 sub s3 Ia Htp)
          as [R3 Kapp]; [lia| |exact Hpp|].
        { intros Ip. eapply (IH item Hitem); [apply Hn, Hitem|apply Ht, Hitem| |exact Ip|exact Hs2].
          pose proof (maxN_map_in (pchain d) cs item Hitem). lia. }
        eapply RM_trans; [exact Ra|]. eapply RM_trans; [exact R3|].
        eapply with_top_RM; [|exact (proj1 R3)|exact Hstep].
        apply Kapp; [lia|].
        rewrite swidth_repeat_w1 by reflexivity. lia. }
      pose proof (unwind_RM _ _ _ _ _ (proj1 R2) H) as R3.
      eapply RM_trans; [exact R1|]. eapply RM_trans; eassumption.
    - (* IOl *)
      startM H Hinv sz Hsz ap st1 ps R1. pose proof (proj1 R1) as I1.
      apply andb_true_iff in Ht. destruct Ht as [Hmin Ht].
      bind_inv H r Hr. unfold olpw in HB.
      set (n := length cs) in *.
      set (mn := isat64 (isat64 (start + Z.of_nat n) - 1)) in *.
      set (pw := N.max (swidth (d_ol_prefix d start)) (swidth (d_ol_prefix d mn))) in *.
      assert (Hr' : fold_left (fun acc item => do si <- acc; ol_step d mw sz pw item si) cs
                              (Ok (st1, ol_idx start 0)) = Ok r) by exact Hr.
      assert (R2 : RM (B :: Bs) st1 (fst r)).
      { eapply (ol_items_RM B Bs sz pw start n cs 0 st1 r); try eassumption; try lia.
        intros j Hj.
        pose proof (Hd start (ol_idx start j) mn) as Hm. unfold ol_prefix_sat in Hsat.
        assert (Hcases : ol_idx start j = start \/ (start <= ol_idx start j <= mn)%Z \/
                         (ol_idx start j = i64_max /\ mn = (i64_max - 1)%Z)).
        { unfold ol_idx, mn, isat64, i64_min, i64_max in *. destruct j; lia. }
        destruct Hcases as [E|[E|[E1 E2]]].
        - rewrite E. unfold pw. lia.
        - specialize (Hm E). unfold pw. exact Hm.
        - rewrite E1. unfold pw. rewrite E2. lia. }
      pose proof (unwind_RM _ _ _ _ _ (proj1 R2) H) as R3.
      eapply RM_trans; [exact R1|]. eapply RM_trans; eassumption.
    - (* IDl *)
      startM H Hinv sz Hsz ap st1 ps R1.
      bind_inv H st2 H2. bind_inv H st3 H3.
      pose proof (with_top_RM _ _ _ _ _ (start_block_keepsM m B) (proj1 R1) H2) as R2.
      pose proof (render_kids_RM _ _ _ _ _ IH Hn Ht HB (proj1 R2) H3) as R3.
      pose proof (unwind_RM _ _ _ _ _ (proj1 R3) H) as R4.
      eapply RM_trans; [exact R1|]. eapply RM_trans; [exact R2|]. eapply RM_trans; eassumption.
    - (* IDt *)
      startM H Hinv sz Hsz ap st1 ps R1.
      bind_inv H st2 H2.
      pose proof (with_top_RM _ _ _ _ _ (new_line_keepsM m B) (proj1 R1) H2) as R2.
      eapply RM_trans; [exact R1|]. eapply RM_trans; [exact R2|].
      eapply (wrap_caseM B Bs (start_emphasis d) (end_emphasis d)); try eassumption;
        [apply (start_deco_keepsM m B d)|apply (end_deco_keepsM m B d)|exact (proj1 R2)].
    - (* IDd *)
      startM H Hinv sz Hsz ap st1 ps R1. pose proof (proj1 R1) as I1.
      bind_inv H iw Hiw.
      bind_inv H tp Htp. bind_inv H w Hw. bind_inv H st2 H2. bind_inv H pp Hpp.
      destruct pp as [sub st3]. bind_inv H st4 H4.
      destruct (prefixed_scopeM B Bs _ _ 2 w st2 sub st3 I1 Htp) as [R3 Kapp];
        [lia| |exact Hpp|].
      { intros Ip. eapply render_kids_RM; try eassumption. lia. }
      assert (R4 : RM (B :: Bs) st3 st4).
      { eapply with_top_RM; [|exact (proj1 R3)|exact H4]. apply Kapp; cbn; lia. }
      pose proof (unwind_RM _ _ _ _ _ (proj1 R4) H) as R5.
      eapply RM_trans; [exact R1|]. eapply RM_trans; [exact R3|]. eapply RM_trans; eassumption.
    - (* IBreak *)
      startM H Hinv sz Hsz ap st1 ps R1. bind_inv H st2 H2.
      pose proof (with_top_RM _ _ _ _ _ (new_line_hard_keepsM m B) (proj1 R1) H2) as R2.
      pose proof (unwind_RM _ _ _ _ _ (proj1 R2) H) as R3.
      eapply RM_trans; [exact R1|]. eapply RM_trans; eassumption.
    - (* IFragStart *)
      startM H Hinv sz Hsz ap st1 ps R1. bind_inv H st2 H2.
      pose proof (with_top'_RM _ _ _ _ _ (record_frag_start_keepsM m B name) (proj1 R1) H2) as R2.
      pose proof (unwind_RM _ _ _ _ _ (proj1 R2) H) as R3.
      eapply RM_trans; [exact R1|]. eapply RM_trans; eassumption.
    - (* IListItem *)
      startM H Hinv sz Hsz ap st1 ps R1. eapply RM_trans; [exact R1|].
      eapply (wrap_caseM B Bs start_block (fun s => Ok (end_block s))); try eassumption;
        [apply start_block_keepsM|apply end_block_pureM|exact (proj1 R1)].
    - (* ISup *)
      startM H Hinv sz Hsz ap st1 ps R1. eapply RM_trans; [exact R1|].
      destruct (sup_digits cs) as [digitstr|] eqn:Esd.
      + bind_inv H st2 H2.
        pose proof (inline_text_RM _ _ _ _ _ (proj1 R1) H2) as R2.
        pose proof (unwind_RM _ _ _ _ _ (proj1 R2) H) as R3. eapply RM_trans; eassumption.
      + eapply (wrap_caseM B Bs (start_superscript d) (end_superscript d)); try eassumption;
          [apply (start_deco_keepsM m B d)|apply (end_deco_keepsM m B d)|exact (proj1 R1)].
  Qed.
End RenderLayerM.

(* ================================================================== *)
(* 3. render_tree                                                      *)
(* ================================================================== *)

(* The lines of the output are the document body followed by the footnote list (nothing when
   footnotes are off); every line of the body is at most P + max m 1 columns wide. *)
Theorem c15_maxwrap_body_bound :
  forall (d : deco) (mw : N) (o : ropts) (m : N) (fn : bool) (L width : N) (tree : rnode) (s : subr),
  ol_prefix_monotone d -> ol_prefix_sat d ->
  o_allow_overflow o = false ->
  wrap_width o = Some m ->
  no_table tree = true ->
  tree_ok fn L tree = true ->
  render_tree d mw o width tree = Ok s ->
  forall ls, sub_into_lines s = Ok ls ->
  exists body foot, ls = body ++ foot /\
    (forall r, In r body -> rline_width r <= pchain d tree + N.max m 1) /\
    (o_footnotes o = false -> foot = []).
Proof.
  intros d mw o m fn L width tree s Hd Hsat Hovf Hm Hnt Hside H ls Hls.
  set (B := pchain d tree + N.max m 1).
  destruct (render_tree_footnotes d mw o width tree s H) as (st & body & Hst & Es & _ & Ew & Eo & Hfin).
  set (st0 := mkrst [sub_new width o] []) in Hst.
  assert (I0 : st_invM m [B] st0).
  { unfold st_invM. cbn [st0 stack]. constructor; [|constructor].
    unfold sub_new. apply sub_okM_mk; cbn [sopts swidth_ slines pending_frags wrapping]; auto.
    - unfold B. lia.
    - intros r [].
    - intros ? [=]. }
  destruct (node_okM_all d mw m fn L Hd Hsat tree B [] st0 st Hnt Hside ltac:(unfold B; lia) I0 Hst)
    as [I1 _].
  unfold st_invM in I1. rewrite Es in I1.
  assert (Hbody : sub_okM m B body) by (inversion I1; assumption).
  destruct (if o_footnotes o then link_targets d mw o tree width else []) as [|u us] eqn:Ef.
  - subst s. exists ls, []. rewrite app_nil_r. split; [reflexivity|]. split; [|reflexivity].
    exact (sub_into_lines_okM m B body ls Hbody Hls).
  - destruct Hfin as (b1 & Hb1 & ->).
    destruct (fmt_links_spec (finalise_from 1 (link_targets d mw o tree width)) b1)
      as (new & G1 & _ & G3 & _).
    unfold sub_into_lines, flush_wrapping in Hls. rewrite G3, (start_block_none _ _ Hb1) in Hls.
    cbn [bind] in Hls. ok_inv Hls. rewrite G1.
    exists (slines b1), new. split; [reflexivity|]. split.
    + destruct (start_block_keepsM m B _ _ Hbody Hb1) as [(_ & _ & _ & A & _) _]. exact A.
    + intros Hf. rewrite Hf in Ef. discriminate Ef.
Qed.

(* THE CLAUSE: without the footnote list every line is at most min width (P + max m 1) wide *)
Theorem c15_maxwrap_bound :
  forall (d : deco) (mw : N) (o : ropts) (m width : N) (tree : rnode) (s : subr),
  ol_prefix_monotone d -> ol_prefix_sat d ->
  o_allow_overflow o = false ->
  o_footnotes o = false ->
  wrap_width o = Some m ->
  1 <= width ->
  no_table tree = true ->
  tree_ok false 0 tree = true ->
  render_tree d mw o width tree = Ok s ->
  forall ls, sub_into_lines s = Ok ls -> forall r, In r ls ->
    rline_width r <= N.min width (pchain d tree + N.max m 1).
Proof.
  intros d mw o m width tree s Hd Hsat Hovf Hfn Hm Hw Hnt Hside H ls Hls r Hr.
  pose proof (c02_render_width_bound_nofoot d mw o width tree s Hd Hsat Hovf Hfn Hw Hside H
                ls Hls r Hr) as H1.
  destruct (c15_maxwrap_body_bound d mw o m false 0 width tree s Hd Hsat Hovf Hm Hnt Hside H ls Hls)
    as (body & foot & -> & Hb & Hf).
  rewrite (Hf Hfn), app_nil_r in Hr. specialize (Hb r Hr). lia.
Qed.

(* ================================================================== *)
(* 4. Inside a table: the lines of a cell                              *)
(* ================================================================== *)

(* A sub-renderer of width w (for a table cell: the column width) into which table-free nodes
   cs are rendered has lines of at most min w (P(cs) + max m 1) columns.  (The row lines of the
   table are these lines padded to the column widths: not limited by m.)  The hypotheses are
   the C02 invariant of the state and that every sub-renderer has the option wrap_width = Some m
   (all sub-renderers of a rendering share the options). *)
Lemma sub_renderer_bound :
  forall (d : deco) (mw m : N) (fn : bool) (L : N),
  ol_prefix_monotone d -> ol_prefix_sat d ->
  forall (cs : list rnode) (st : rstate) (tp : subr) (w : N) (st2 : rstate) (sub : subr) (st3 : rstate),
  st_inv fn L st ->
  Forall (fun s => wrap_width (sopts s) = Some m) (stack st) ->
  top st = Ok tp ->
  forallb no_table cs = true -> forallb (tree_ok fn L) cs = true ->
  fold_left (fun acc c => do s <- acc; render_node d mw c s) cs
            (Ok (push_sub st (new_sub_renderer tp w))) = Ok st2 ->
  pop_sub st2 = Ok (sub, st3) ->
  forall ls, sub_into_lines sub = Ok ls -> forall r, In r ls ->
    rline_width r <= N.min w (maxN (map (pchain d) cs) + N.max m 1).
Proof.
  intros d mw m fn L Hd Hsat cs st tp w st2 sub st3 Hi Hms Htp Hn Ht Hk Hp ls Hls r Hr.
  apply N.min_glb.
  - (* the width of the sub-renderer: C02 *)
    pose proof (push_inv fn L st tp w Hi Htp) as Ip.
    assert (HF : Forall (node_ok d mw fn L) cs).
    { apply Forall_forall. intros c _. apply node_ok_all; assumption. }
    pose proof (render_kids_R d mw fn L cs _ _ HF Ht Ip Hk) as Rk.
    destruct (sub_scope fn L st tp w st2 sub st3 Hi Htp Rk Hp) as (_ & Hsub & Esub).
    rewrite <- Esub. exact (sub_into_lines_ok sub ls Hsub Hls r Hr).
  - (* the maximum wrap width *)
    destruct (top_inv _ _ Htp) as [rest Es].
    assert (I0 : st_invM m (swidth_ tp :: map swidth_ rest) st).
    { unfold st_invM. rewrite Es. destruct Hi as [Hi _]. rewrite Es in Hi, Hms.
      change (swidth_ tp :: map swidth_ rest) with (map swidth_ (tp :: rest)).
      clear - Hi Hms. revert Hi Hms. generalize (tp :: rest). intros l.
      induction l as [|x l IH]; intros H1 H2; cbn [map]; [constructor|].
      inversion H1; inversion H2; subst.
      constructor; [apply sub_ok_okM; assumption|apply IH; assumption]. }
    set (B' := maxN (map (pchain d) cs) + N.max m 1).
    pose proof (push_invM m (swidth_ tp) B' (map swidth_ rest) st tp w I0 Htp ltac:(unfold B'; lia))
      as Ip.
    assert (HF : Forall (node_okM d mw m fn L) cs).
    { apply Forall_forall. intros c _. apply node_okM_all; assumption. }
    pose proof (render_kids_RM d mw m fn L B' _ cs _ _ HF Hn Ht ltac:(unfold B'; lia) Ip Hk) as Rk.
    destruct (sub_scopeM m (swidth_ tp) B' _ st tp w st2 sub st3 I0 Htp Rk Hp) as (_ & Hsub & _).
    exact (sub_into_lines_okM m B' sub ls Hsub Hls r Hr).
Qed.

(* the sub-renderers that hold no prefixed block: min w (max m 1) *)
Corollary sub_renderer_bound_flat :
  forall (d : deco) (mw m : N) (fn : bool) (L : N),
  ol_prefix_monotone d -> ol_prefix_sat d ->
  forall (cs : list rnode) (st : rstate) (tp : subr) (w : N) (st2 : rstate) (sub : subr) (st3 : rstate),
  st_inv fn L st ->
  Forall (fun s => wrap_width (sopts s) = Some m) (stack st) ->
  top st = Ok tp ->
  forallb no_table cs = true -> forallb (tree_ok fn L) cs = true ->
  maxN (map (pchain d) cs) = 0 ->
  fold_left (fun acc c => do s <- acc; render_node d mw c s) cs
            (Ok (push_sub st (new_sub_renderer tp w))) = Ok st2 ->
  pop_sub st2 = Ok (sub, st3) ->
  forall ls, sub_into_lines sub = Ok ls -> forall r, In r ls ->
    rline_width r <= N.min w (N.max m 1).
Proof.
  intros d mw m fn L Hd Hsat cs st tp w st2 sub st3 Hi Hms Htp Hn Ht Hp0 Hk Hp ls Hls r Hr.
  pose proof (sub_renderer_bound d mw m fn L Hd Hsat cs st tp w st2 sub st3 Hi Hms Htp Hn Ht Hk Hp
                ls Hls r Hr) as HB.
  rewrite Hp0 in HB. lia.
Qed.

(* ================================================================== *)
(* 5. The public routes (Api.v)                                        *)
(* ================================================================== *)

Section RoutesM.
  Variable inline_styles : list (text * text) -> res (list styledecl).
  Variable doc_rules : list node -> res (list ruleset).

  Theorem c15_maxwrap_lines_from_read :
    forall (c : config) (doc : list node) (w m : N) (tree : rnode) (ls : list tline),
    ol_prefix_monotone (c_deco c) -> ol_prefix_sat (c_deco c) ->
    c_overflow c = false ->
    c_footnotes c = false ->
    c_max_wrap c = Some m ->
    to_render_tree inline_styles doc_rules c doc = Ok tree ->
    no_table tree = true ->
    tree_ok false 0 tree = true ->
    lines_from_read inline_styles doc_rules c doc w = Ok ls ->
    forall l, In l ls ->
      tl_width_raw l <= N.min w (pchain (c_deco c) tree + N.max m 1).
  Proof.
    intros c doc w m tree ls Hd Hsat Hovf Hfn Hm Htree Hnt Hside H l Hl.
    unfold lines_from_read in H. rewrite Htree in H. cbn [bind] in H.
    bind_inv H s Hs. bind_inv H rls Hrls.
    ok_inv H. apply in_map_iff in Hl. destruct Hl as (r & <- & Hr).
    rewrite raw_into_tagged.
    unfold render_with_context in Hs. destruct (N.eqb_spec w 0) as [|Hw0]; [discriminate|].
    eapply (c15_maxwrap_bound (c_deco c) (c_min_wrap c) (render_options c) m w tree s);
      try eassumption; try lia.
  Qed.

  (* the string route: the string is the concatenation of the lines, each followed by a
     newline, and every line is within the bound *)
  Theorem c15_maxwrap_string_from_read :
    forall (c : config) (doc : list node) (w m : N) (tree : rnode) (t : text),
    ol_prefix_monotone (c_deco c) -> ol_prefix_sat (c_deco c) ->
    c_overflow c = false ->
    c_footnotes c = false ->
    c_max_wrap c = Some m ->
    to_render_tree inline_styles doc_rules c doc = Ok tree ->
    no_table tree = true ->
    tree_ok false 0 tree = true ->
    string_from_read inline_styles doc_rules c doc w = Ok t ->
    exists rls, t = flat_map (fun l => rline_string l ++ [newline_chr]) rls /\
      forall r, In r rls ->
        rline_width r <= N.min w (pchain (c_deco c) tree + N.max m 1).
  Proof.
    intros c doc w m tree t Hd Hsat Hovf Hfn Hm Htree Hnt Hside H.
    unfold string_from_read in H. rewrite Htree in H. cbn [bind] in H.
    bind_inv H s Hs. unfold sub_into_string in H. bind_inv H rls Hrls. ok_inv H.
    exists rls. split; [reflexivity|]. intros r Hr.
    unfold render_with_context in Hs. destruct (N.eqb_spec w 0) as [|Hw0]; [discriminate|].
    eapply (c15_maxwrap_bound (c_deco c) (c_min_wrap c) (render_options c) m w tree s);
      try eassumption; try lia.
  Qed.
End RoutesM.

(* ================================================================== *)
(* 6. Non-vacuity, tightness, and the observations O1-O6               *)
(* ================================================================== *)

Definition mwb_cfg (m : N) : config := set_max_wrap (with_decorator plain_deco) m.
Definition mwb_opts (m : N) : ropts := render_options (mwb_cfg m).
Definition mwb_txt (l : list N) : rnode := ex_n (IText (ex_str l)).
Definition mwb_par (l : list N) : rnode := ex_n (IBlock [mwb_txt l]).
(* "aa bb cc dd ee ff gg" *)
Definition mwb_words : list N :=
  [97;97;32;98;98;32;99;99;32;100;100;32;101;101;32;102;102;32;103;103].
Definition mwb_bq (cs : list rnode) : rnode := ex_n (IBlockQuote cs).
Definition mwb_ul (cs : list rnode) : rnode := ex_n (IUl (map (fun c => ex_n (IListItem [c])) cs)).
Definition mwb_ol (st : Z) (cs : list rnode) : rnode :=
  ex_n (IOl st (map (fun c => ex_n (IListItem [c])) cs)).

(* <p>W</p> <blockquote><p>W</p><ul><li><p>W</p></li></ul></blockquote> <h2>W</h2>
   <ol start=9><li><p>W</p></li><li><p>W</p></li></ol> <dl><dt>W</dt><dd>W</dd></dl> *)
Definition mwb_t1 : rnode :=
  ex_n (IContainer [mwb_par mwb_words;
                    mwb_bq [mwb_par mwb_words; mwb_ul [mwb_par mwb_words]];
                    ex_n (IHeader 2 [mwb_txt mwb_words]);
                    mwb_ol 9 [mwb_par mwb_words; mwb_par mwb_words];
                    ex_n (IDl [ex_n (IDt [mwb_txt mwb_words]); ex_n (IDd [mwb_txt mwb_words])])]).

(* O6: m = 5, width 30: P = 4 ("> " + "* "), every line is at most 9 wide and the lines of the
   list item inside the quote ARE 9 wide; plain paragraphs 5, quote 7, heading "## " 8, ol 9, dd 7 *)
Example mwb_tight :
  ex_widths (render_tree plain_deco 3 (mwb_opts 5) 30 mwb_t1) =
  Ok [5; 5; 5; 2; 0; 7; 7; 7; 4; 9; 9; 9; 6; 0; 8; 8; 8; 5; 9; 9; 9; 6;
      9; 9; 9; 6; 0; 5; 5; 5; 2; 7; 7; 7; 4] /\
  pchain plain_deco mwb_t1 = 4.
Proof. split; vm_compute; reflexivity. Qed.

(* ... and at width 7 (< P + m) the width is the limit: min width (P + max m 1) *)
Example mwb_narrow :
  ex_widths (render_tree plain_deco 3 (mwb_opts 5) 7 mwb_t1) =
  Ok [5; 5; 5; 2; 0; 7; 7; 7; 4; 6; 6; 6; 6; 6; 6; 6; 0; 5; 5; 5; 5; 5;
      5; 5; 6; 6; 6; 6; 6; 6; 6; 6; 6; 6; 6; 6; 6; 6; 0; 5; 5; 5; 2; 7; 7; 7; 4].
Proof. vm_compute. reflexivity. Qed.

(* the theorem applies to the example *)
Definition mwb_s1 : subr :=
  match render_tree plain_deco 3 (mwb_opts 5) 30 mwb_t1 with Ok s => s | _ => sub_new 0 (mwb_opts 5) end.
Example mwb_s1_eq : render_tree plain_deco 3 (mwb_opts 5) 30 mwb_t1 = Ok mwb_s1.
Proof. vm_compute. reflexivity. Qed.
Definition mwb_ls1 : list rline := match sub_into_lines mwb_s1 with Ok ls => ls | _ => [] end.
Example mwb_ls1_eq : sub_into_lines mwb_s1 = Ok mwb_ls1.
Proof. vm_compute. reflexivity. Qed.
Example mwb_t1_side :
  no_table mwb_t1 = true /\ tree_ok false 0 mwb_t1 = true /\ length mwb_ls1 = 35%nat.
Proof. vm_compute. repeat split. Qed.

Example mwb_theorem_applies : forall r, In r mwb_ls1 -> rline_width r <= 9.
Proof.
  destruct mwb_t1_side as (H1 & H2 & _). destruct mwb_tight as [_ HP]. intros r Hr.
  pose proof (c15_maxwrap_bound plain_deco 3 (mwb_opts 5) 5 30 mwb_t1 mwb_s1
                ol_prefix_monotone_plain ol_prefix_sat_plain eq_refl eq_refl eq_refl
                ltac:(lia) H1 H2 mwb_s1_eq mwb_ls1 mwb_ls1_eq r Hr) as HB.
  rewrite HP in HB. lia.
Qed.

(* O1: m = 0 behaves as m = 1 (one-column lines, no error) *)
Example mwb_m0 :
  ex_widths (render_tree plain_deco 3 (mwb_opts 0) 30 (mwb_par [97;32;98;32;99])) = Ok [1; 1; 1] /\
  ex_widths (render_tree plain_deco 3 (mwb_opts 1) 30 (mwb_par [97;32;98;32;99])) = Ok [1; 1; 1].
Proof. split; vm_compute; reflexivity. Qed.

(* O2: the footnote list is wrapped at the width (30, then 12), not at m = 5:
   "[xy][1]" / "" / "[1]: http://aaaaaaaaaaaaa" *)
Definition mwb_lk : rnode :=
  ex_n (IBlock [ex_n (ILink (ex_str [104;116;116;112;58;47;47;97;97;97;97;97;97;97;97;97;97;97;97;97])
                            [mwb_txt [120;121]])]).
Definition mwb_fopts : ropts := render_options (set_footnotes (mwb_cfg 5) true).
Example mwb_foot :
  ex_widths (render_tree plain_deco 3 mwb_fopts 30 mwb_lk) = Ok [5; 2; 0; 25] /\
  ex_widths (render_tree plain_deco 3 mwb_fopts 12 mwb_lk) = Ok [5; 2; 0; 12; 12; 1] /\
  pchain plain_deco mwb_lk = 0.
Proof. repeat split; vm_compute; reflexivity. Qed.

(* ... c15_maxwrap_body_bound applies to it: the body "[xy][" "1]" "" is within 5 columns *)
Definition mwb_s2 : subr :=
  match render_tree plain_deco 3 mwb_fopts 30 mwb_lk with Ok s => s | _ => sub_new 0 mwb_fopts end.
Example mwb_s2_eq : render_tree plain_deco 3 mwb_fopts 30 mwb_lk = Ok mwb_s2.
Proof. vm_compute. reflexivity. Qed.
Definition mwb_ls2 : list rline := match sub_into_lines mwb_s2 with Ok ls => ls | _ => [] end.
Example mwb_ls2_eq : sub_into_lines mwb_s2 = Ok mwb_ls2.
Proof. vm_compute. reflexivity. Qed.
Example mwb_body_applies :
  exists body foot, mwb_ls2 = body ++ foot /\
    (forall r, In r body -> rline_width r <= 0 + N.max 5 1) /\
    (o_footnotes mwb_fopts = false -> foot = []).
Proof.
  exact (c15_maxwrap_body_bound plain_deco 3 mwb_fopts 5 false 0 30 mwb_lk mwb_s2
           ol_prefix_monotone_plain ol_prefix_sat_plain eq_refl eq_refl eq_refl eq_refl
           mwb_s2_eq mwb_ls2 mwb_ls2_eq).
Qed.

(* O3: a table: the cell text is wrapped at 5, but the two columns share the 30 columns and
   every row line is padded to 30 (with and without borders) *)
Definition mwb_tb : rnode := ex_n (ITable [RRow [ex_cell mwb_words; ex_cell mwb_words] cstyle0] 2).
Example mwb_table :
  ex_widths (render_tree plain_deco 3 (mwb_opts 5) 30 mwb_tb) = Ok [30; 30; 30; 30; 30; 30] /\
  ex_widths (render_tree plain_deco 3 (render_options (set_no_borders (mwb_cfg 5))) 30 mwb_tb)
    = Ok [30; 30; 30; 30] /\
  no_table mwb_tb = false.
Proof. repeat split; vm_compute; reflexivity. Qed.

(* O4: with pad_block_width the lines are padded to prefix + m, not to the width *)
Example mwb_pad :
  ex_widths (render_tree plain_deco 3 (render_options (set_pad (mwb_cfg 5))) 30 mwb_t1) =
  Ok [5; 5; 5; 5; 0; 7; 7; 7; 7; 9; 9; 9; 9; 0; 8; 8; 8; 8; 9; 9; 9; 9;
      9; 9; 9; 9; 0; 5; 5; 5; 5; 7; 7; 7; 7].
Proof. vm_compute. reflexivity. Qed.

(* (H2) is needed: with overflow allowed a character wider than m gets a line of its own
   (m = 1, two characters of width 2); without it the outcome is TooNarrow *)
Definition mwb_wide : chr := mkchr 19990 (Some 2) false 16.
Example mwb_overflow :
  ex_widths (render_tree plain_deco 3 (render_options (set_overflow (mwb_cfg 1))) 30
                         (ex_n (IBlock [ex_n (IText [mwb_wide; mwb_wide])]))) = Ok [2; 2] /\
  ex_widths (render_tree plain_deco 3 (mwb_opts 1) 30
                         (ex_n (IBlock [ex_n (IText [mwb_wide; mwb_wide])]))) = TooNarrow.
Proof. split; vm_compute; reflexivity. Qed.

(* ---- through the public route, from a DOM (O5: <pre> lines are cut at m too) ---- *)
From H2T Require CssParse.
Definition mwb_el (name : list N) (kids : list node) : node := NElem true (of_ascii name) [] kids.
Definition mwb_nl : chr := mkchr 10 None true 16.
(* <html><body><blockquote><p>W</p><pre>xxxxxxxxxxxx\nyy z</pre><ul><li>W</li></ul>
   </blockquote></body></html> *)
Definition mwb_doc : list node :=
  [mwb_el [104;116;109;108] [mwb_el [98;111;100;121]
     [mwb_el [98;108;111;99;107;113;117;111;116;101]
        [mwb_el [112] [NText (ex_str mwb_words)];
         mwb_el [112;114;101]
           [NText (ex_str [120;120;120;120;120;120;120;120;120;120;120;120] ++ [mwb_nl] ++
                   ex_str [121;121;32;122])];
         mwb_el [117;108] [mwb_el [108;105] [NText (ex_str mwb_words)]]]]]].
Definition mwb_tree : rnode :=
  match to_render_tree CssParse.inline_styles CssParse.doc_rules (mwb_cfg 5) mwb_doc with
  | Ok t => t | _ => mwb_t1 end.
Definition mwb_out : list tline :=
  match lines_from_read CssParse.inline_styles CssParse.doc_rules (mwb_cfg 5) mwb_doc 30 with
  | Ok ls => ls | _ => [] end.
Definition mwb_str : text :=
  match string_from_read CssParse.inline_styles CssParse.doc_rules (mwb_cfg 5) mwb_doc 30 with
  | Ok t => t | _ => [] end.

(* "> aa bb" "> cc dd" "> ee ff" "> gg" "> " "> xxxxx" "> xxxxx" "> xx" "> yy z"
   "> * aa bb" ">   cc dd" ">   ee ff" ">   gg";  without max_wrap: 22 2 14 6 24 *)
Example mwb_pre :
  to_render_tree CssParse.inline_styles CssParse.doc_rules (mwb_cfg 5) mwb_doc = Ok mwb_tree /\
  lines_from_read CssParse.inline_styles CssParse.doc_rules (mwb_cfg 5) mwb_doc 30 = Ok mwb_out /\
  string_from_read CssParse.inline_styles CssParse.doc_rules (mwb_cfg 5) mwb_doc 30 = Ok mwb_str /\
  map tl_width_raw mwb_out = [7; 7; 7; 4; 2; 7; 7; 4; 6; 9; 9; 9; 6] /\
  no_table mwb_tree = true /\ tree_ok false 0 mwb_tree = true /\
  pchain plain_deco mwb_tree = 4 /\
  (do ls <- lines_from_read CssParse.inline_styles CssParse.doc_rules (with_decorator plain_deco)
                            mwb_doc 30; Ok (map tl_width_raw ls)) = Ok [22; 2; 14; 6; 24].
Proof. vm_compute. repeat split. Qed.

Example mwb_route_theorem : forall l, In l mwb_out -> tl_width_raw l <= 9.
Proof.
  destruct mwb_pre as (H1 & H2 & _ & _ & H4 & H5 & H6 & _). intros l Hl.
  pose proof (c15_maxwrap_lines_from_read CssParse.inline_styles CssParse.doc_rules
                (mwb_cfg 5) mwb_doc 30 5 mwb_tree mwb_out
                ol_prefix_monotone_plain ol_prefix_sat_plain eq_refl eq_refl eq_refl
                H1 H4 H5 H2 l Hl) as HB.
  change (c_deco (mwb_cfg 5)) with plain_deco in HB. rewrite H6 in HB. lia.
Qed.

Example mwb_string_theorem :
  exists rls, mwb_str = flat_map (fun l => rline_string l ++ [newline_chr]) rls /\
    forall r, In r rls -> rline_width r <= 9.
Proof.
  destruct mwb_pre as (H1 & _ & H3 & _ & H4 & H5 & H6 & _).
  destruct (c15_maxwrap_string_from_read CssParse.inline_styles CssParse.doc_rules
              (mwb_cfg 5) mwb_doc 30 5 mwb_tree mwb_str
              ol_prefix_monotone_plain ol_prefix_sat_plain eq_refl eq_refl eq_refl
              H1 H4 H5 H3) as (rls & E & HB).
  exists rls. split; [exact E|]. intros r Hr. specialize (HB r Hr).
  change (c_deco (mwb_cfg 5)) with plain_deco in HB. rewrite H6 in HB. lia.
Qed.

(* ---- sub_renderer_bound: a "cell" of width 12 holding <p>W</p><blockquote><p>W</p></blockquote>:
   its lines are at most min 12 (2 + 5) wide ---- *)
Definition mwb_cs : list rnode := [mwb_par mwb_words; mwb_bq [mwb_par mwb_words]].
Definition mwb_st0 : rstate := mkrst [sub_new 30 (mwb_opts 5)] [].
Definition mwb_st2 : rstate :=
  match fold_left (fun acc c => do s <- acc; render_node plain_deco 3 c s) mwb_cs
          (Ok (push_sub mwb_st0 (new_sub_renderer (sub_new 30 (mwb_opts 5)) 12))) with
  | Ok st => st | _ => mwb_st0 end.
Definition mwb_sub : subr := match pop_sub mwb_st2 with Ok (s, _) => s | _ => sub_new 0 (mwb_opts 5) end.
Definition mwb_lsc : list rline := match sub_into_lines mwb_sub with Ok ls => ls | _ => [] end.
Example mwb_cell_hyps :
  fold_left (fun acc c => do s <- acc; render_node plain_deco 3 c s) mwb_cs
            (Ok (push_sub mwb_st0 (new_sub_renderer (sub_new 30 (mwb_opts 5)) 12))) = Ok mwb_st2 /\
  pop_sub mwb_st2 = Ok (mwb_sub, mwb_st0) /\
  sub_into_lines mwb_sub = Ok mwb_lsc /\
  map rline_width mwb_lsc = [5; 5; 5; 2; 0; 7; 7; 7; 4] /\
  forallb no_table mwb_cs = true /\ forallb (tree_ok false 0) mwb_cs = true /\
  maxN (map (pchain plain_deco) mwb_cs) = 2.
Proof. vm_compute. repeat split. Qed.

Example mwb_cell_applies : forall r, In r mwb_lsc -> rline_width r <= 7.
Proof.
  destruct mwb_cell_hyps as (H1 & H2 & H3 & _ & H5 & H6 & H7). intros r Hr.
  assert (Hs0 : sub_ok (sub_new 30 (mwb_opts 5))).
  { apply sub_ok_mk; [reflexivity|intros ? []|reflexivity|intros ? [=]]. }
  pose proof (sub_renderer_bound plain_deco 3 5 false 0 ol_prefix_monotone_plain ol_prefix_sat_plain
                mwb_cs mwb_st0 (sub_new 30 (mwb_opts 5)) 12 mwb_st2 mwb_sub mwb_st0) as HB.
  assert (Hi : st_inv false 0 mwb_st0).
  { split; [constructor; [exact Hs0|constructor]|discriminate]. }
  assert (Hm : Forall (fun s => wrap_width (sopts s) = Some 5) (stack mwb_st0)).
  { constructor; [reflexivity|constructor]. }
  specialize (HB Hi Hm eq_refl H5 H6 H1 H2 mwb_lsc H3 r Hr).
  rewrite H7 in HB. lia.
Qed.

Check (c15_maxwrap_bound :
  forall (d : deco) (mw : N) (o : ropts) (m width : N) (tree : rnode) (s : subr),
  ol_prefix_monotone d -> ol_prefix_sat d ->
  o_allow_overflow o = false ->
  o_footnotes o = false ->
  wrap_width o = Some m ->
  1 <= width ->
  no_table tree = true ->
  tree_ok false 0 tree = true ->
  render_tree d mw o width tree = Ok s ->
  forall ls, sub_into_lines s = Ok ls -> forall r, In r ls ->
    rline_width r <= N.min width (pchain d tree + N.max m 1)).

Print Assumptions node_okM_all.
Print Assumptions c15_maxwrap_body_bound.
Print Assumptions c15_maxwrap_bound.
Print Assumptions sub_renderer_bound.
Print Assumptions sub_renderer_bound_flat.
Print Assumptions c15_maxwrap_lines_from_read.
Print Assumptions c15_maxwrap_string_from_read.
Print Assumptions mwb_theorem_applies.
Print Assumptions mwb_body_applies.
Print Assumptions mwb_route_theorem.
Print Assumptions mwb_string_theorem.
Print Assumptions mwb_cell_applies.
