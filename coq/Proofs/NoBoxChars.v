(* Proofs/NoBoxChars.v -- property C15 ("disabling table borders or enabling raw mode removes
   every box-drawing character; disabling footnotes removes only references and the footnote
   list").  One generic invariant (Section Gen: a class p of characters that the renderer never
   makes and that the inputs do not contain does not occur in any sub-renderer), threaded
   through every SubRenderer operation, render_node, render_tree and the Api routes, then
   instantiated twice:
     (A) p = renderer-made box-drawing character, options with borders off;
     (B) p = footnote-labelled character, options with footnotes off.
   No axioms.  Exact statements, hypotheses, findings: SUMMARY at the end of the file. *)
From H2T Require Import Base Tagged Wrap Sub Css Dom Render Api.
From H2T Require Import Proofs.Conserve Proofs.WrapInv Proofs.RenderWidth Proofs.Small.
From H2T Require Import Proofs.Footnotes Proofs.RenderConserve.
From H2T Require Proofs.TableProof.
From Coq Require Import Lia ZifyN ZifyBool ZifyNat Permutation.

Local Arguments N.add : simpl never.
Local Arguments N.sub : simpl never.
Local Arguments N.mul : simpl never.
Local Arguments N.div : simpl never.
Local Arguments N.modulo : simpl never.
Local Arguments N.leb : simpl never.
Local Arguments N.ltb : simpl never.
Local Arguments N.eqb : simpl never.
Local Arguments N.min : simpl never.
Local Arguments N.max : simpl never.
Local Arguments N.to_nat : simpl never.
Local Arguments N.of_nat : simpl never.
Local Open Scope N_scope.

(* ================================================================== *)
(* 0. List helpers                                                      *)
(* ================================================================== *)

Lemma filter_nil_Forall {A} (p : A -> bool) l :
  filter p l = [] <-> Forall (fun c => p c = false) l.
Proof.
  induction l as [|c l IH]; cbn [filter]; [split; [constructor|reflexivity]|].
  destruct (p c) eqn:E; split; intros H.
  - discriminate.
  - inversion H; subst. congruence.
  - constructor; [exact E|apply IH, H].
  - inversion H; subst. apply IH. assumption.
Qed.

Lemma forallb_flat_map' {A B} (f : B -> bool) (g : A -> list B) l :
  forallb f (flat_map g l) = forallb (fun x => forallb f (g x)) l.
Proof.
  induction l as [|a l IH]; cbn [flat_map forallb]; [reflexivity|].
  rewrite forallb_app, IH. reflexivity.
Qed.

Lemma Forall_removelast {A} (Q : A -> Prop) l : Forall Q l -> Forall Q (removelast l).
Proof.
  intros H. apply Forall_forall. intros x Hx. rewrite Forall_forall in H.
  apply H, In_removelast, Hx.
Qed.

Lemma dec_pos_fuel_lt128 : forall f n acc,
  Forall (fun x => x < 128) acc -> Forall (fun x => x < 128) (dec_pos_fuel f n acc).
Proof.
  induction f as [|f IH]; intros n acc Ha; cbn [dec_pos_fuel]; [exact Ha|].
  assert (Hd : 48 + n mod 10 < 128) by (pose proof (N.mod_lt n 10); lia).
  destruct (n / 10 =? 0); [constructor; assumption|]. apply IH. constructor; assumption.
Qed.
Lemma dec_N_lt128 k : Forall (fun x => x < 128) (dec_N k).
Proof. unfold dec_N. apply dec_pos_fuel_lt128. constructor. Qed.

(* ================================================================== *)
(* 1. The generic invariant                                             *)
(* ================================================================== *)

Section Gen.
  Variable p : chr -> bool.      (* the class of characters that must not occur *)
  Variable nb : bool.            (* true: table borders are off (then no RLine line may exist);
                                    false: border characters are not in the class *)
  Variable fn : bool.            (* false: footnotes are off; true: footnote markup is not in
                                    the class *)
  Hypothesis Hp : forall l, p (spacel l) = false.
  Hypothesis Hstrike : p strike_chr = false.
  Hypothesis Hsup : forall c, is_ascii_digit c = true -> p c = false -> p (sup_char c) = false.
  Hypothesis Hseg : nb = false -> forall s, p (seg_char s) = false.
  Hypothesis Hvbar : nb = false -> p vbar = false.
  Hypothesis Hdd : filter p (ptext [32; 32]) = [].
  Hypothesis Hft : fn = true -> forall l, Forall (fun x => x < 128) l -> filter p (ftext l) = [].

  (* a text without characters of the class *)
  Definition cl (t : text) : Prop := filter p t = [].
  Definition clb (t : text) : bool := forallb (fun c => negb (p c)) t.

  Lemma cl_nil : cl [].
  Proof. reflexivity. Qed.
  Lemma cl_app a b : cl (a ++ b) <-> cl a /\ cl b.
  Proof.
    unfold cl. rewrite filter_app. split.
    - intros H. apply app_eq_nil in H. exact H.
    - intros [-> ->]. reflexivity.
  Qed.
  Lemma cl_app_i a b : cl a -> cl b -> cl (a ++ b).
  Proof. intros A B. apply cl_app. auto. Qed.
  Lemma cl_Forall t : cl t <-> Forall (fun c => p c = false) t.
  Proof. apply filter_nil_Forall. Qed.
  Lemma clb_cl t : clb t = true -> cl t.
  Proof.
    intros H. apply cl_Forall, Forall_forall. intros c Hc. unfold clb in H.
    rewrite forallb_forall in H. specialize (H c Hc). destruct (p c); [discriminate|reflexivity].
  Qed.
  Lemma cl_filter q t : cl t -> cl (filter q t).
  Proof. apply filter_filter_nil. Qed.
  Lemma cl_one c : p c = false -> cl [c].
  Proof. intros H. unfold cl. cbn [filter]. rewrite H. reflexivity. Qed.
  Lemma cl_repeat c n : p c = false -> cl (repeat_chr c n).
  Proof.
    intros H. unfold cl. induction n as [|n IH]; cbn [repeat_chr filter]; [reflexivity|].
    rewrite H. exact IH.
  Qed.
  Lemma cl_spacesl lb n : cl (spacesl lb n).
  Proof. apply cl_repeat, Hp. Qed.
  Lemma cl_flat_map {A} (f : A -> text) l : Forall (fun x => cl (f x)) l <-> cl (flat_map f l).
  Proof.
    induction l as [|x l IH]; cbn [flat_map]; [split; [reflexivity|constructor]|].
    rewrite cl_app. split.
    - intros H. inversion H; subst. split; [assumption|apply IH; assumption].
    - intros [Ha Hb]. constructor; [exact Ha|apply IH, Hb].
  Qed.
  Lemma cl_map (f : chr -> chr) t : (forall c, p c = false -> p (f c) = false) -> cl t -> cl (map f t).
  Proof.
    intros Hf H. apply cl_Forall. apply cl_Forall in H. apply Forall_forall. intros c Hc.
    apply in_map_iff in Hc. destruct Hc as (x & <- & Hx). rewrite Forall_forall in H. apply Hf, H, Hx.
  Qed.

  Lemma cl_kept t : cl t -> cl (kept t).
  Proof. apply cl_filter. Qed.
  Lemma cl_strikeout t : cl t -> cl (filter_strikeout t).
  Proof.
    intros H. unfold filter_strikeout. apply cl_flat_map. apply cl_Forall in H.
    eapply Forall_impl; [|exact H]. intros c Hc. cbv beta.
    destruct (negb (ws c) && (0 <? cw0 c)).
    - change [c; strike_chr] with ([c] ++ [strike_chr]). apply cl_app_i; apply cl_one; assumption.
    - apply cl_one, Hc.
  Qed.
  Lemma cl_filters n : forall t, cl t -> cl (apply_filters n t).
  Proof. induction n as [|n IH]; intros t H; cbn [apply_filters]; [exact H|]. apply IH, cl_strikeout, H. Qed.
  Lemma cl_nl_to_space t : cl t -> cl (nl_to_space t).
  Proof.
    unfold nl_to_space. apply cl_map. intros c Hc. destruct (cp c =? 10); [apply Hp|exact Hc].
  Qed.
  Lemma cl_border b : nb = false -> cl (border_string b).
  Proof.
    intros E. unfold border_string. apply cl_Forall, Forall_forall. intros c Hc.
    apply in_map_iff in Hc. destruct Hc as (x & <- & _). apply Hseg, E.
  Qed.
  Lemma cl_vlines b : nb = false -> cl (to_vertical_lines_above b).
  Proof.
    intros E. unfold to_vertical_lines_above. apply cl_Forall, Forall_forall. intros c Hc.
    apply in_map_iff in Hc. destruct Hc as (x & <- & _).
    destruct x; first [apply Hp|apply Hvbar, E].
  Qed.
  Lemma cl_pad_width t w : cl t -> cl (pad_width t w).
  Proof. intros H. unfold pad_width. apply cl_app_i; [exact H|apply cl_repeat, Hp]. Qed.
  Lemma cl_pad_chars w : cl (pad_chars [] w).
  Proof. unfold pad_chars. apply cl_app_i; [apply cl_nil|apply cl_repeat, Hp]. Qed.
  Lemma cl_sup s : forallb is_ascii_digit s = true -> cl s -> cl (map sup_char s).
  Proof.
    intros Hd H. apply cl_Forall. apply cl_Forall in H. apply Forall_forall. intros c Hc.
    apply in_map_iff in Hc. destruct Hc as (x & <- & Hx). rewrite Forall_forall in H.
    rewrite forallb_forall in Hd. apply Hsup; [apply Hd, Hx|apply H, Hx].
  Qed.

  (* ---- wrapping blocks ---- *)
  Definition btext (w : wblock) : text :=
    flat_map tl_string (wtext w) ++ tl_string (wline w) ++ flat_map elem_text (wword w).
  Definition wcl (ow : option wblock) : Prop :=
    match ow with Some w => cl (btext w) | None => True end.

  Lemma btext_projr w : filter p (btext w) = projr (pstream p w).
  Proof. unfold btext. rewrite projr_pstream. reflexivity. Qed.

  Lemma btext_new W pad ovf : cl (btext (wb_new W pad ovf)).
  Proof. reflexivity. Qed.

  Lemma btext_add_text b s m t1 t2 b' :
    wb_add_text b s m t1 t2 = Ok b' -> cl (btext b) -> cl s -> cl (btext b').
  Proof.
    intros H Hb Hs. unfold cl in *. rewrite btext_projr in *.
    rewrite (add_text_stream p Hp _ _ _ _ _ _ H), projr_app, Hb. unfold pchars.
    rewrite projr_map_inr. apply cl_kept, Hs.
  Qed.

  Lemma btext_add_frag b n : cl (btext b) -> cl (btext (wb_add_element b (Frag n))).
  Proof.
    intros Hb. unfold cl in *. rewrite btext_projr in *.
    rewrite add_frag_stream, projr_app, Hb. reflexivity.
  Qed.

  Lemma btext_into_lines b ls : wb_into_lines b = Ok ls -> cl (btext b) -> cl (flat_map tl_string ls).
  Proof.
    intros H Hb. unfold cl in *. rewrite (into_lines_generic p Hp b ls H), <- btext_projr. exact Hb.
  Qed.

  Lemma btext_take_frags w w1 frags :
    take_trailing_fragments w = (w1, frags) -> btext w1 = btext w /\ flat_map elem_text frags = [].
  Proof.
    rewrite ttf_eq. intros H. injection H as <- <-.
    pose proof (no_content_text _ (tfr_snd_nocontent (wword w))) as Ht. split; [|exact Ht].
    unfold btext. cbn [set_word wtext wline wword]. rewrite (tfr_app (wword w)) at 2.
    rewrite flat_map_app, Ht, app_nil_r. reflexivity.
  Qed.

  (* ---- lines and sub-renderers ---- *)
  (* a finished line: its text is free of the class; a border line is only allowed when border
     characters are not in the class *)
  Definition lok (l : rline) : Prop :=
    match l with RText tl => cl (tl_string tl) | RLine _ _ => nb = false end.

  Definition Ko (o : ropts) : Prop :=
    (nb = true -> o_borders o = false) /\ (fn = false -> o_footnotes o = false).

  Definition K (s : subr) : Prop :=
    Forall lok (slines s) /\ cl (pf_text s) /\ wcl (wrapping s) /\ Ko (sopts s).

  Lemma lok_string l : lok l -> cl (rline_string l).
  Proof. destruct l as [tl|b t]; cbn [lok rline_string]; [auto|apply cl_border]. Qed.

  Lemma lok_text_lines ls : cl (flat_map tl_string ls) -> Forall lok (map RText ls).
  Proof.
    intros H. apply cl_flat_map in H. apply Forall_forall. intros l Hl.
    apply in_map_iff in Hl. destruct Hl as (x & <- & Hx). rewrite Forall_forall in H. exact (H x Hx).
  Qed.

  Lemma K_ext s s' :
    slines s' = slines s -> pending_frags s' = pending_frags s -> wrapping s' = wrapping s ->
    sopts s' = sopts s -> K s -> K s'.
  Proof. unfold K, pf_text. intros -> -> -> ->. auto. Qed.

  Definition opK (f : subr -> res subr) : Prop := forall s s', f s = Ok s' -> K s -> K s'.

  Lemma opK_comp f g : opK f -> opK g -> opK (fun s => do s1 <- f s; g s1).
  Proof. intros Hf Hg s s' H Hk. bind_inv H s1 H1. eapply Hg; [exact H|]. eapply Hf; eassumption. Qed.

  Lemma opK_pure (g : subr -> subr) :
    (forall s, slines (g s) = slines s /\ pending_frags (g s) = pending_frags s /\
               wrapping (g s) = wrapping s /\ sopts (g s) = sopts s) -> opK (fun s => Ok (g s)).
  Proof.
    intros Hg s s' H Hk. ok_inv H. destruct (Hg s) as (a & b & c & e).
    exact (K_ext s (g s) a b c e Hk).
  Qed.

  Lemma add_line_K s l : K s -> lok l -> K (add_line s l).
  Proof.
    intros (A & B & C & D) Hl. destruct (add_line_same s l) as (_ & Eo & Ew).
    unfold K. rewrite Eo, Ew. unfold add_line, pf_text in *.
    destruct (pending_frags s) as [|e pf] eqn:E; destruct l as [tl|b t]; sprj.
    - split; [|auto]. apply Forall_app. split; [exact A|]. constructor; [exact Hl|constructor].
    - split; [|auto]. apply Forall_app. split; [exact A|]. constructor; [exact Hl|constructor].
    - split; [|split; [apply cl_nil|auto]].
      apply Forall_app. split; [exact A|]. constructor; [|constructor].
      cbn [lok]. rewrite !tl_string_fold_push. apply cl_app_i; [|exact Hl].
      apply cl_app_i; [apply cl_nil|exact B].
    - split; [|auto]. apply Forall_app. split; [exact A|]. constructor; [exact Hl|constructor].
  Qed.

  Lemma extend_lines_K ls : forall s, K s -> Forall lok ls -> K (extend_lines s ls).
  Proof.
    unfold extend_lines. induction ls as [|l ls IH]; intros s Hk Hl; cbn [fold_left]; [exact Hk|].
    inversion Hl; subst. apply IH; [apply add_line_K|]; assumption.
  Qed.

  Lemma flush_wrapping_K : opK flush_wrapping.
  Proof.
    intros s s' H Hk. unfold flush_wrapping in H. destruct (wrapping s) as [w|] eqn:Ew.
    - destruct (take_trailing_fragments w) as [w1 frags] eqn:Et. bind_inv H lm Hlm. ok_inv H.
      pose proof (wb_into_lines_markers_fst _ _ Hlm) as Hls.
      pose proof (no_content_text _ (wb_into_lines_markers_no_content _ _ Hlm)) as Hmk.
      destruct lm as [ls mk]. cbn [fst snd] in *.
      destruct (btext_take_frags _ _ _ Et) as [Eb Ef].
      destruct Hk as (A & B & C & D). rewrite Ew in C. cbn [wcl] in C.
      assert (Hk0 : K (set_wrapping s None)).
      { unfold K. sprj. cbn [wcl]. auto. }
      assert (Hls' : Forall lok (map RText ls)).
      { apply lok_text_lines. eapply btext_into_lines; [exact Hls|]. rewrite Eb. exact C. }
      destruct (extend_lines_K _ _ Hk0 Hls') as (A' & B' & C' & D').
      unfold K, pf_text in *. sprj. split; [exact A'|]. split; [|auto].
      rewrite !flat_map_app, Hmk, Ef, !app_nil_r. exact B'.
    - ok_inv H. exact Hk.
  Qed.

  Lemma sub_into_lines_K s ls : sub_into_lines s = Ok ls -> K s -> Forall lok ls.
  Proof.
    intros H Hk. unfold sub_into_lines in H. bind_inv H s1 H1. ok_inv H.
    exact (proj1 (flush_wrapping_K _ _ H1 Hk)).
  Qed.

  Lemma add_line_opK l : lok l -> opK (fun s => Ok (add_line s l)).
  Proof. intros Hl s s' H Hk. ok_inv H. apply add_line_K; assumption. Qed.

  Lemma add_empty_line_K : opK add_empty_line.
  Proof.
    intros s s' H Hk. unfold add_empty_line in H. bind_inv H s1 H1. ok_inv H.
    pose proof (flush_wrapping_K _ _ H1 Hk) as K1.
    pose proof (add_line_K s1 (RText tl_new) K1 cl_nil) as K2.
    revert K2. apply K_ext; reflexivity.
  Qed.

  Lemma start_block_K : opK start_block.
  Proof.
    intros s s' H Hk. unfold start_block in H. bind_inv H s1 H1. bind_inv H s2 H2. ok_inv H.
    pose proof (flush_wrapping_K _ _ H1 Hk) as K1.
    assert (K2 : K s2).
    { destruct (existsb rline_has_content (slines s1)).
      - eapply add_empty_line_K; eassumption.
      - ok_inv H2. exact K1. }
    revert K2. apply K_ext; reflexivity.
  Qed.

  Lemma new_line_hard_K : opK new_line_hard.
  Proof.
    intros s s' H Hk. unfold new_line_hard in H. destruct (wrapping s) as [w|].
    - destruct ((wordlen w =? 0) && (tlen_ (wline w) =? 0)).
      + eapply add_empty_line_K; eassumption.
      + eapply flush_wrapping_K; eassumption.
    - eapply add_empty_line_K; eassumption.
  Qed.

  (* border lines are added only when the options draw borders *)
  Lemma borders_nb s : K s -> o_borders (sopts s) = true -> nb = false.
  Proof.
    intros (_ & _ & _ & [D _]) Hb. destruct nb; [|reflexivity].
    rewrite (D eq_refl) in Hb. discriminate.
  Qed.

  Lemma add_horizontal_line_K b t : nb = false -> opK (fun s => add_horizontal_line s b t).
  Proof.
    intros E s s' H Hk. unfold add_horizontal_line in H. bind_inv H s1 H1. ok_inv H.
    apply add_line_K; [eapply flush_wrapping_K; eassumption|exact E].
  Qed.
  Lemma add_horizontal_border_width_K w : nb = false -> opK (fun s => add_horizontal_border_width s w).
  Proof.
    intros E s s' H Hk. unfold add_horizontal_border_width in H. bind_inv H s1 H1. ok_inv H.
    apply add_line_K; [eapply flush_wrapping_K; eassumption|exact E].
  Qed.

  Lemma K_get_wrapping s : K s -> cl (btext (get_wrapping s)).
  Proof.
    intros (_ & _ & C & _). unfold get_wrapping. destruct (wrapping s) as [w|]; [exact C|].
    apply btext_new.
  Qed.

  Lemma add_inline_text_K d t : cl t -> opK (fun s => add_inline_text d s t).
  Proof.
    intros Ht s s' H Hk. unfold add_inline_text in H.
    destruct (negb (preserve_ws (ws_mode s)) && at_block_end s && all_ws t).
    { ok_inv H. exact Hk. }
    bind_inv H s1 H1.
    assert (K1 : K s1).
    { destruct (at_block_end s).
      - eapply start_block_K; eassumption.
      - ok_inv H1. exact Hk. }
    bind_inv H w1 Hw1. ok_inv H.
    pose proof (btext_add_text _ _ _ _ _ _ Hw1 (K_get_wrapping _ K1) (cl_filters _ _ Ht)) as Hb.
    destruct K1 as (A & B & C & D). unfold K, pf_text in *. sprj. cbn [wcl]. auto.
  Qed.

  Lemma push_ann_K a : opK (fun s => Ok (push_ann s a)).
  Proof. apply opK_pure. intros s. unfold push_ann. sprj. auto. Qed.
  Lemma pop_ann_K : opK (fun s => Ok (pop_ann s)).
  Proof. apply opK_pure. intros s. unfold pop_ann. sprj. auto. Qed.

  Lemma start_deco_K d q : cl (fst q) -> opK (fun s => start_deco d s q).
  Proof.
    intros Hq. unfold start_deco.
    exact (opK_comp _ _ (push_ann_K (snd q)) (add_inline_text_K d (fst q) Hq)).
  Qed.
  Lemma end_deco_K d e : cl e -> opK (fun s => end_deco d s e).
  Proof. intros He. unfold end_deco. exact (opK_comp _ _ (add_inline_text_K d e He) pop_ann_K). Qed.

  Lemma start_strikeout_K d : cl (fst (d_strike_start d)) -> opK (start_strikeout d).
  Proof.
    intros Hq. unfold start_strikeout. apply opK_comp; [apply (start_deco_K d), Hq|].
    intros s s' H Hk. ok_inv H. destruct (o_strike (sopts s)); [|exact Hk].
    revert Hk. apply K_ext; reflexivity.
  Qed.
  Lemma end_strikeout_K d : cl (d_strike_end d) -> opK (end_strikeout d).
  Proof.
    intros He. unfold end_strikeout. apply opK_comp; [|apply (end_deco_K d), He].
    intros s s' H Hk. destruct (o_strike (sopts s)).
    - destruct (filter_depth s); [discriminate|]. ok_inv H. revert Hk. apply K_ext; reflexivity.
    - ok_inv H. exact Hk.
  Qed.

  Lemma add_image_K d src title : cl (fst (d_image d src title)) -> opK (fun s => add_image d s src title).
  Proof.
    intros Hq. unfold add_image.
    exact (opK_comp _ _ (opK_comp _ _ (push_ann_K _) (add_inline_text_K d _ Hq)) pop_ann_K).
  Qed.

  Lemma record_frag_start_K name : opK (fun s => Ok (record_frag_start s name)).
  Proof.
    intros s s' H Hk. ok_inv H. pose proof (btext_add_frag _ name (K_get_wrapping _ Hk)) as Hb.
    destruct Hk as (A & B & C & D). unfold K, pf_text, record_frag_start in *. sprj. cbn [wcl]. auto.
  Qed.
  Lemma end_block_K : opK (fun s => Ok (end_block s)).
  Proof. apply opK_pure. intros s. unfold end_block. sprj. auto. Qed.
  Lemma push_colour_K d r g b : opK (fun s => Ok (push_colour d s r g b)).
  Proof. apply opK_pure. intros s. unfold push_colour, push_ann. destruct (d_colours d); sprj; auto. Qed.
  Lemma push_bgcolour_K d r g b : opK (fun s => Ok (push_bgcolour d s r g b)).
  Proof. apply opK_pure. intros s. unfold push_bgcolour, push_ann. destruct (d_colours d); sprj; auto. Qed.
  Lemma pop_colour_K d : opK (fun s => Ok (pop_colour d s)).
  Proof. apply opK_pure. intros s. unfold pop_colour, pop_ann. destruct (d_colours d); sprj; auto. Qed.
  Lemma push_ws_mode_K m : opK (fun s => Ok (push_ws_mode s m)).
  Proof. apply opK_pure. intros s. unfold push_ws_mode. sprj. auto. Qed.
  Lemma pop_ws_mode_K : opK (fun s => Ok (pop_ws_mode s)).
  Proof. apply opK_pure. intros s. unfold pop_ws_mode. sprj. auto. Qed.
  Lemma push_preformat_K : opK (fun s => Ok (push_preformat s)).
  Proof. apply opK_pure. intros s. unfold push_preformat. sprj. auto. Qed.
  Lemma pop_preformat_K : opK pop_preformat.
  Proof.
    intros s s' H Hk. unfold pop_preformat in H. destruct (0 <? pre_depth s); [|discriminate].
    ok_inv H. revert Hk. apply K_ext; reflexivity.
  Qed.

  (* ---- a nested sub-renderer is appended with prefixes ---- *)
  Lemma attach_prefix_lok t q l : cl q -> lok l -> lok (attach_prefix t q l).
  Proof.
    intros Hq Hl. destruct l as [tl|b bt]; cbn [attach_prefix].
    - destruct q as [|c q]; [exact Hl|]. cbn [lok]. rewrite tl_string_insert_front.
      apply cl_app_i; assumption.
    - cbn [lok] in *. rewrite !TableProof.tl_string_push. cbn [elem_text tl_string tl_new tv flat_map app].
      apply cl_app_i; [exact Hq|apply cl_border, Hl].
  Qed.

  Lemma attach_prefixes_lok t first rest ls :
    cl first -> cl rest -> Forall lok ls -> Forall lok (attach_prefixes t first rest ls).
  Proof.
    intros Hf Hr H. destruct ls as [|l ls]; cbn [attach_prefixes]; [constructor|].
    inversion H; subst. constructor; [apply attach_prefix_lok; assumption|].
    apply Forall_forall. intros x Hx. apply in_map_iff in Hx. destruct Hx as (y & <- & Hy).
    apply attach_prefix_lok; [exact Hr|]. rewrite Forall_forall in H3. apply H3, Hy.
  Qed.

  Lemma append_subrender_K sub first rest :
    K sub -> cl first -> cl rest -> opK (fun s => append_subrender s sub first rest).
  Proof.
    intros Hsub Hf Hr s s' H Hk. unfold append_subrender in H.
    bind_inv H s1 H1. bind_inv H ols Hols. ok_inv H.
    apply extend_lines_K; [eapply flush_wrapping_K; eassumption|].
    apply attach_prefixes_lok; [exact Hf|exact Hr|]. eapply sub_into_lines_K; eassumption.
  Qed.
  (* ---- tables: side-by-side rows ---- *)
  Definition setsok (sets : list (N * list rline)) : Prop :=
    Forall (fun pr => Forall lok (snd pr)) sets.
  Definition padsok (pads : list (option text)) : Prop :=
    Forall (fun o => match o with Some t => cl t | None => True end) pads.

  Lemma pad_cell_lines_lok w t : forall ls r,
    pad_cell_lines w t ls = Ok r -> Forall lok ls -> Forall lok r.
  Proof.
    induction ls as [|l ls IH]; intros r H Hl; cbn [pad_cell_lines] in H.
    - ok_inv H. constructor.
    - inversion Hl as [|? ? Hl1 Hl2]; subst. destruct l as [tl|b bt].
      + bind_inv H tl' Htl. bind_inv H r' Hr. ok_inv H. constructor; [|eapply IH; eassumption].
        cbn [lok] in *. unfold cl in *. rewrite <- projr_pline in *.
        rewrite (pline_pad_to p Hp _ _ _ _ Htl). exact Hl1.
      + bind_inv H r' Hr. ok_inv H. constructor; [exact Hl1|eapply IH; eassumption].
  Qed.

  Lemma col_line_sets_ok t : forall cols sets,
    Forall K cols -> col_line_sets t cols = Ok sets -> setsok sets.
  Proof.
    induction cols as [|c cols IH]; intros sets HF H; cbn [col_line_sets] in H.
    - ok_inv H. constructor.
    - inversion HF as [|? ? Hc HF']; subst.
      bind_inv H ls Hls. bind_inv H pls Hpls. bind_inv H r Hr. ok_inv H.
      constructor; [|eapply IH; eassumption]. cbn [snd].
      eapply pad_cell_lines_lok; [exact Hpls|]. eapply sub_into_lines_K; eassumption.
  Qed.

  Lemma collapse_top_ok : forall sets prev pos r,
    collapse_top sets prev pos = Ok r -> setsok sets -> setsok (snd r).
  Proof.
    induction sets as [|[w sub] sets IH]; intros prev pos r H Hs; cbn [collapse_top] in H.
    - ok_inv H. constructor.
    - inversion Hs as [|? ? Hs1 Hs2]; subst. cbn [snd] in Hs1.
      destruct sub as [|[tl|line lt] sub'].
      + bind_inv H r' Hr. ok_inv H. cbn [snd]. constructor; [exact Hs1|eapply IH; eassumption].
      + bind_inv H r' Hr. ok_inv H. cbn [snd]. constructor; [exact Hs1|eapply IH; eassumption].
      + destruct prev as [pb|]; [|discriminate]. bind_inv H r' Hr. ok_inv H. cbn [snd].
        constructor; [|eapply IH; eassumption]. cbn [snd]. inversion Hs1; assumption.
  Qed.

  Lemma collapse_bottom_ok : forall sets next pos n' s' p',
    collapse_bottom sets next pos = (n', s', p') -> setsok sets -> setsok s' /\ padsok p'.
  Proof.
    induction sets as [|[w sub] sets IH]; intros next pos n' s' p' H Hs; cbn [collapse_bottom] in H.
    - injection H as <- <- <-. split; constructor.
    - inversion Hs as [|? ? Hs1 Hs2]; subst. cbn [snd] in Hs1.
      destruct (olast sub) as [[tl|line lt]|] eqn:El.
      + destruct (collapse_bottom sets next (pos + w + 1)) as [[n2 s2] p2] eqn:E.
        injection H as <- <- <-. destruct (IH _ _ _ _ _ E Hs2) as [A B].
        split; constructor; auto.
      + destruct (collapse_bottom sets (merge_from_above next line pos) (pos + w + 1))
          as [[n2 s2] p2] eqn:E.
        injection H as <- <- <-. destruct (IH _ _ _ _ _ E Hs2) as [A B].
        split; constructor; auto.
        * cbn [snd]. apply Forall_removelast, Hs1.
        * apply cl_vlines. rewrite Forall_forall in Hs1. exact (Hs1 _ (olast_In _ _ El)).
      + destruct (collapse_bottom sets next (pos + w + 1)) as [[n2 s2] p2] eqn:E.
        injection H as <- <- <-. destruct (IH _ _ _ _ _ E Hs2) as [A B].
        split; constructor; auto.
  Qed.

  Lemma padsok_none {A} (l : list A) : padsok (map (fun _ => None) l).
  Proof. induction l; constructor; [exact I|assumption]. Qed.

  Lemma padsok_tl pads : padsok pads -> padsok (tl pads).
  Proof. intros H. destruct pads; [exact H|]. inversion H; assumption. Qed.

  Lemma row_line_cl t draw i : (draw = true -> nb = false) -> forall sets pads acc,
    setsok sets -> padsok pads -> cl (tl_string acc) ->
    cl (tl_string (row_line t draw i sets pads acc)).
  Proof.
    intros Hd. induction sets as [|[w ls] sets IH]; intros pads acc Hs Hpd Ha; cbn [row_line];
      [exact Ha|].
    inversion Hs as [|? ? Hs1 Hs2]; subst. cbn [snd] in Hs1.
    apply IH; [exact Hs2|apply padsok_tl, Hpd|].
    assert (Hsep : forall a c, cl (tl_string a) -> p c = false ->
              cl (tl_string match sets with [] => a | _ :: _ => tl_push_char a c t end)).
    { intros a c Ha1 Hc. destruct sets; [exact Ha1|].
      rewrite TableProof.tl_string_push_char. apply cl_app_i; [exact Ha1|apply cl_one, Hc]. }
    apply Hsep.
    - destruct (nth_opt ls i) as [[tl|b bt]|] eqn:En.
      + rewrite TableProof.tl_string_consume. apply cl_app_i; [exact Ha|].
        rewrite Forall_forall in Hs1. exact (Hs1 _ (nth_opt_In _ _ _ En)).
      + rewrite TableProof.tl_string_push. cbn [elem_text]. apply cl_app_i; [exact Ha|].
        apply cl_border. rewrite Forall_forall in Hs1. exact (Hs1 _ (nth_opt_In _ _ _ En)).
      + rewrite TableProof.tl_string_push. cbn [elem_text]. apply cl_app_i; [exact Ha|].
        destruct pads as [|[q|] pads']; try apply cl_spacesl.
        inversion Hpd; assumption.
    - destruct draw; [apply Hvbar, Hd; reflexivity|apply Hp].
  Qed.

  Lemma row_lines_K t draw sets pads : (draw = true -> nb = false) -> setsok sets -> padsok pads ->
    forall n i s, K s -> K (row_lines t draw n i sets pads s).
  Proof.
    intros Hd Hs Hpd. induction n as [|n IH]; intros i s Hk; cbn [row_lines]; [exact Hk|].
    apply IH. apply add_line_K; [exact Hk|]. cbn [lok].
    apply row_line_cl; try assumption. apply cl_nil.
  Qed.

  Lemma append_columns_K cols collapse :
    Forall K cols -> opK (fun s => append_columns_with_borders s cols collapse).
  Proof.
    intros HF s s' H Hk. unfold append_columns_with_borders in H.
    bind_inv H s1 H1. bind_inv H sets Hsets. bind_inv H chk Hchk. clear Hchk.
    pose proof (flush_wrapping_K _ _ H1 Hk) as K1.
    pose proof (col_line_sets_ok _ _ _ HF Hsets) as Hsok.
    match type of H with
    | (let '(p, n) := ?e in _) = _ => destruct e as [prev1 next1]
    end.
    bind_inv H r Hr. destruct r as [[[prev3 next3] sets4] pads].
    assert (Q : setsok sets4 /\ padsok pads).
    { destruct collapse.
      - bind_inv Hr ct Hct. destruct ct as [prev2 sets2].
        destruct (collapse_bottom sets2 next1 0) as [[next2 sets3] pads3] eqn:Ecb.
        ok_inv Hr. pose proof (collapse_top_ok _ _ _ _ Hct Hsok) as B3. cbn [snd] in B3.
        exact (collapse_bottom_ok _ _ _ _ _ _ Ecb B3).
      - ok_inv Hr. split; [exact Hsok|apply padsok_none]. }
    destruct Q as [Q1 Q2].
    ok_inv H.
    match goal with
    | |- context [set_lines s1 ?l (pending_frags s1)] => set (lines1 := l)
    end.
    assert (Hl1 : Forall lok lines1).
    { destruct K1 as (A & _). unfold lines1.
      destruct (olast (slines s1)) as [[tl|pb0 pt]|] eqn:Eo; try exact A.
      destruct prev3 as [pb|]; [|exact A].
      unfold replace_last. apply Forall_app. split; [apply Forall_removelast, A|].
      constructor; [|constructor]. rewrite Forall_forall in A. exact (A _ (olast_In _ _ Eo)). }
    set (s2 := set_lines s1 lines1 (pending_frags s1)).
    assert (K2 : K s2).
    { destruct K1 as (A & B & C & D). split; [exact Hl1|split; [exact B|split; [exact C|exact D]]]. }
    assert (Hd : o_borders (sopts s2) = true -> nb = false) by (apply borders_nb, K2).
    pose proof (row_lines_K (ann_stack s1) (o_borders (sopts s2)) sets4 pads Hd Q1 Q2
                  (fold_left Nat.max (map (fun q => length (snd q)) sets4) O) O s2 K2) as K3.
    change (sopts s2) with (sopts s1) in *.
    destruct (o_borders (sopts s1)) eqn:Eb.
    - apply add_line_K; [exact K3|]. exact (Hd eq_refl).
    - exact K3.
  Qed.

  (* ---- tables: stacked rows ---- *)
  Lemma vert_cols_K : forall cols s first s',
    Forall K cols -> vert_cols s cols first = Ok s' -> K s -> K s'.
  Proof.
    induction cols as [|c cols IH]; intros s first s' HF H Hk; cbn [vert_cols] in H.
    - ok_inv H. exact Hk.
    - inversion HF as [|? ? Hc HF']; subst. bind_inv H s1 H1. bind_inv H s2 H2.
      assert (K1 : K s1).
      { destruct (negb first && o_borders (sopts s)) eqn:E.
        - apply andb_true_iff in E. destruct E as [_ E].
          exact (add_horizontal_line_K _ _ (borders_nb _ Hk E) _ _ H1 Hk).
        - ok_inv H1. exact Hk. }
      eapply IH; [exact HF'|exact H|].
      eapply append_subrender_K; [exact Hc|apply cl_nil|apply cl_nil|exact H2|exact K1].
  Qed.

  Lemma append_vert_row_K cols : Forall K cols -> opK (fun s => append_vert_row s cols).
  Proof.
    intros HF s s' H Hk. unfold append_vert_row in H. bind_inv H s1 H1. bind_inv H s2 H2.
    pose proof (flush_wrapping_K _ _ H1 Hk) as K1.
    pose proof (vert_cols_K _ _ _ _ HF H2 K1) as K2.
    destruct (o_borders (sopts s2)) eqn:E.
    - unfold add_horizontal_border in H.
      exact (add_horizontal_border_width_K _ (borders_nb _ K2 E) _ _ H K2).
    - ok_inv H. exact K2.
  Qed.

  (* ---- the footnote list ---- *)
  Lemma fl_chars_K t : forall cs s buf wl pos s' buf' wl' pos',
    fl_chars s t cs buf wl pos = (s', buf', wl', pos') ->
    K s -> cl cs -> cl buf -> cl (tl_string wl) ->
    K s' /\ cl buf' /\ cl (tl_string wl').
  Proof.
    induction cs as [|c cs IH]; intros s buf wl pos s' buf' wl' pos' H Hk Hc Hb Hw; cbn [fl_chars] in H.
    - injection H as <- <- <- <-. auto.
    - change (c :: cs) with ([c] ++ cs) in Hc. apply cl_app in Hc. destruct Hc as [Hc1 Hc2].
      destruct (swidth_ s <? pos + cw0 c).
      + eapply IH; [exact H| |exact Hc2|exact Hc1|apply cl_nil].
        apply add_line_K; [exact Hk|]. cbn [lok].
        destruct buf; [exact Hw|]. rewrite TableProof.tl_string_push_str.
        apply cl_app_i; assumption.
      + eapply IH; [exact H|exact Hk|exact Hc2| |exact Hw]. apply cl_app_i; assumption.
  Qed.

  Lemma fl_strings_K : forall strs s wl pos s' wl',
    fl_strings s strs wl pos = (s', wl') ->
    K s -> Forall (fun q => cl (fst q)) strs -> cl (tl_string wl) ->
    K s' /\ cl (tl_string wl').
  Proof.
    induction strs as [|[str tg] strs IH]; intros s wl pos s' wl' H Hk Hs Hw; cbn [fl_strings] in H.
    - injection H as <- <-. auto.
    - inversion Hs as [|? ? Hs1 Hs2]; subst. cbn [fst] in Hs1.
      pose proof (cl_nl_to_space _ Hs1) as Hn.
      destruct (o_wrap_links (sopts s) && (swidth_ s <? pos + swidth (nl_to_space str))).
      + destruct (fl_chars s [ADefault] (nl_to_space str) [] wl pos) as [[[s1 buf] wl1] pos1] eqn:Ef.
        destruct (fl_chars_K _ _ _ _ _ _ _ _ _ _ Ef Hk Hn cl_nil Hw) as (K1 & Hb1 & Hw1).
        eapply IH; [exact H|exact K1|exact Hs2|].
        rewrite TableProof.tl_string_push_str. apply cl_app_i; assumption.
      + eapply IH; [exact H|exact Hk|exact Hs2|].
        rewrite TableProof.tl_string_push_str. apply cl_app_i; assumption.
  Qed.

  Lemma tagged_strings_cl l : cl (tl_string l) -> Forall (fun q => cl (fst q)) (tl_tagged_strings l).
  Proof.
    unfold tl_tagged_strings, tl_string. induction (tv l) as [|e v IH]; cbn [flat_map]; intros H.
    - constructor.
    - apply cl_app in H. destruct H as [H1 H2]. apply Forall_app. split; [|apply IH, H2].
      destruct e; [|constructor]. constructor; [exact H1|constructor].
  Qed.

  Lemma fmt_links_K : forall ls s, K s -> Forall (fun l => cl (tl_string l)) ls -> K (fmt_links s ls).
  Proof.
    induction ls as [|l ls IH]; intros s Hk Hl; cbn [fmt_links]; [exact Hk|].
    inversion Hl as [|? ? Hl1 Hl2]; subst.
    destruct (fl_strings s (tl_tagged_strings l) tl_new 0) as [s1 wl] eqn:Ef.
    destruct (fl_strings_K _ _ _ _ _ _ Ef Hk (tagged_strings_cl _ Hl1) cl_nil) as [K1 Hw].
    apply IH; [|exact Hl2]. apply add_line_K; [exact K1|exact Hw].
  Qed.

  Lemma finalise_from_cl urls : forall k,
    fn = true -> Forall (fun u => cl (relabel L_foot u)) urls ->
    (forall k, Forall (fun x => x < 128) (dec_N k)) ->
    Forall (fun l => cl (tl_string l)) (finalise_from k urls).
  Proof.
    induction urls as [|u urls IH]; intros k Hf Hu Hdig; cbn [finalise_from]; constructor.
    - inversion Hu as [|? ? Hu1 Hu2]. rewrite tl_string_from_string. apply cl_app_i; [|exact Hu1].
      apply Hft; [exact Hf|]. apply Forall_app. split; [repeat constructor|].
      apply Forall_app. split; [apply Hdig|repeat constructor].
    - inversion Hu as [|? ? Hu1 Hu2]. apply IH; assumption.
  Qed.
  (* ================================================================ *)
  (* the render layer                                                   *)
  (* ================================================================ *)

  (* the decorator: no string it makes contains a character of the class (the link and image
     functions: provided their arguments do not) *)
  Record deco_cl (d : deco) : Prop := {
    dc_link_start : forall h, cl h -> cl (fst (d_link_start d h));
    dc_link_end : cl (d_link_end d);
    dc_em_start : cl (fst (d_em_start d));
    dc_em_end : cl (d_em_end d);
    dc_strong_start : cl (fst (d_strong_start d));
    dc_strong_end : cl (d_strong_end d);
    dc_strike_start : cl (fst (d_strike_start d));
    dc_strike_end : cl (d_strike_end d);
    dc_code_start : cl (fst (d_code_start d));
    dc_code_end : cl (d_code_end d);
    dc_sup_start : cl (fst (d_sup_start d));
    dc_sup_end : cl (d_sup_end d);
    dc_image : forall src title, cl src -> cl title -> cl (fst (d_image d src title));
    dc_header : forall l, cl (d_header_prefix d l);
    dc_quote : cl (d_quote_prefix d);
    dc_ul : cl (d_ul_prefix d);
    dc_ol : forall i, cl (d_ol_prefix d i) }.

  (* the render tree: no text, image source / alt text or link target contains a character of
     the class; with footnotes on the link targets are copied into the footnote list relabelled
     L_foot, so the relabelled target must not contain one either *)
  Fixpoint tree_cl (n : rnode) {struct n} : bool :=
    match rn_info n with
    | IText t => clb t
    | IImg src title => clb src && clb title
    | IBreak | IFragStart _ => true
    | ILink href cs =>
      clb href && (negb fn || clb (relabel L_foot href)) && forallb tree_cl cs
    | IContainer cs | IEm cs | IStrong cs | IStrikeout cs | ICode cs | IBlock cs | IListItem cs
    | IDiv cs | IDl cs | IDt cs | ISup cs | IHeader _ cs | IBlockQuote cs | IUl cs | IOl _ cs
    | IDd cs => forallb tree_cl cs
    | ITable rows _ =>
      forallb (fun r => match r with
                        | RRow cells _ =>
                          forallb (fun c => match c with
                                            | RCell _ k _ => forallb tree_cl k
                                            end) cells
                        end) rows
    | ITableBody _ | ITableRow _ | ITableCell _ => false   (* never rendered: Panic 60 *)
    end.

  Lemma tree_cl_kids i sty : tree_cl (RN i sty) = true -> forallb tree_cl (direct_kids i) = true.
  Proof.
    destruct i; cbn [tree_cl rn_info direct_kids]; intros H; try exact H; try reflexivity; try discriminate.
    - apply andb_true_iff in H. exact (proj2 H).
    - rewrite forallb_flat_map'. rewrite forallb_forall in *. intros [cells rsty] Hr.
      specialize (H _ Hr). cbv beta iota in H. unfold row_kids. cbn [row_cells].
      rewrite forallb_flat_map'. rewrite forallb_forall in *. intros [n k csty] Hc.
      specialize (H _ Hc). exact H.
  Qed.
  Lemma sup_digits_cl cs ds : sup_digits cs = Some ds -> forallb tree_cl cs = true -> cl ds.
  Proof.
    unfold sup_digits. destruct cs as [|n [|n2 cs]]; try discriminate.
    destruct n as [i sty]. cbn [rn_info]. destruct i; try discriminate.
    destruct (forallb is_ascii_digit t) eqn:Ed; [|discriminate]. intros [= <-] H.
    cbn [forallb tree_cl rn_info] in H. rewrite andb_true_r in H.
    apply cl_sup; [exact Ed|apply clb_cl, H].
  Qed.

  (* ---- the state: every sub-renderer on the stack is clean, and (footnotes on) every
     collected link target is clean after the relabelling of the footnote list ---- *)
  Definition lk_ok (ls : list text) : Prop :=
    fn = true -> Forall (fun u => cl (relabel L_foot u)) ls.
  Definition SI (st : rstate) : Prop := Forall K (stack st) /\ lk_ok (links st).

  Lemma with_top_SI f st st' : opK f -> with_top st f = Ok st' -> SI st -> SI st'.
  Proof.
    intros Hf H [A B]. destruct (with_top_inv _ _ _ H) as (s & rest & s' & Es & Ef & ->).
    rewrite Es in A. inversion A as [|? ? A1 A2]; subst. split; [|exact B].
    cbn [stack]. constructor; [exact (Hf _ _ Ef A1)|exact A2].
  Qed.
  Lemma with_top'_SI g st st' : opK (fun s => Ok (g s)) -> with_top' st g = Ok st' -> SI st -> SI st'.
  Proof. unfold with_top'. apply with_top_SI. Qed.

  Lemma top_SI st tp : top st = Ok tp -> SI st -> K tp.
  Proof.
    intros H [A _]. destruct (top_inv _ _ H) as [rest E]. rewrite E in A.
    inversion A; assumption.
  Qed.
  Lemma push_SI st s : SI st -> K s -> SI (push_sub st s).
  Proof. intros [A B] Hs. split; [constructor; assumption|exact B]. Qed.
  Lemma pop_SI st sub st3 : pop_sub st = Ok (sub, st3) -> SI st -> K sub /\ SI st3.
  Proof.
    intros H [A B]. unfold pop_sub in H. destruct (stack st) as [|s rest]; [discriminate|].
    injection H as <- <-. inversion A as [|? ? A1 A2]; subst. split; [exact A1|]. split; assumption.
  Qed.
  Lemma K_new_sub tp w : K tp -> K (new_sub_renderer tp w).
  Proof.
    intros (_ & _ & _ & D). unfold K, pf_text, new_sub_renderer. sprj. cbn [flat_map wcl].
    split; [constructor|]. split; [apply cl_nil|]. split; [exact I|exact D].
  Qed.
  Lemma K_sub_new w o : Ko o -> K (sub_new w o).
  Proof.
    intros D. unfold K, pf_text, sub_new. sprj. cbn [flat_map wcl].
    split; [constructor|]. split; [apply cl_nil|]. split; [exact I|exact D].
  Qed.
  Lemma scope_SI st tp w : top st = Ok tp -> SI st -> SI (push_sub st (new_sub_renderer tp w)).
  Proof. intros Ht Hs. apply push_SI; [exact Hs|]. apply K_new_sub. eapply top_SI; eassumption. Qed.

  Section Node.
    Variable d : deco.
    Variable mw : N.
    Hypothesis Hd : deco_cl d.

    Lemma inline_text_SI st t st' : cl t -> inline_text d st t = Ok st' -> SI st -> SI st'.
    Proof. intros Ht. unfold inline_text. apply with_top_SI, add_inline_text_K, Ht. Qed.

    Lemma apply_style_SI st cs st' pu : apply_style d st cs = Ok (st', pu) -> SI st -> SI st'.
    Proof.
      intros H Hs. unfold apply_style in H.
      bind_inv H st1 H1. bind_inv H st2 H2. bind_inv H st3 H3. bind_inv H st4 H4.
      injection H as <- _.
      assert (S1 : SI st1).
      { destruct (ws_val (c_colour (cs_core cs))) as [[[r g] b]|].
        - eapply with_top'_SI; [apply push_colour_K|exact H1|exact Hs].
        - ok_inv H1. exact Hs. }
      assert (S2 : SI st2).
      { destruct (ws_val (c_bg (cs_core cs))) as [[[r g] b]|].
        - eapply with_top'_SI; [apply push_bgcolour_K|exact H2|exact S1].
        - ok_inv H2. exact S1. }
      assert (S3 : SI st3).
      { destruct (match ws_val (c_white_space (cs_core cs)) with
                  | Some WsPre => Some WsPre
                  | Some WsPreWrap => Some WsPreWrap
                  | _ => None
                  end) as [m|].
        - eapply with_top'_SI; [apply push_ws_mode_K|exact H3|exact S2].
        - ok_inv H3. exact S2. }
      destruct (cs_internal_pre cs).
      - eapply with_top'_SI; [apply push_preformat_K|exact H4|exact S3].
      - ok_inv H4. exact S3.
    Qed.

    Lemma unwind_SI pu st st' : unwind d pu st = Ok st' -> SI st -> SI st'.
    Proof.
      intros H Hs. unfold unwind in H.
      bind_inv H st1 H1. bind_inv H st2 H2. bind_inv H st3 H3.
      assert (S1 : SI st1).
      { destruct (p_bg pu).
        - eapply with_top'_SI; [apply pop_colour_K|exact H1|exact Hs].
        - ok_inv H1. exact Hs. }
      assert (S2 : SI st2).
      { destruct (p_colour pu).
        - eapply with_top'_SI; [apply pop_colour_K|exact H2|exact S1].
        - ok_inv H2. exact S1. }
      assert (S3 : SI st3).
      { destruct (p_ws pu).
        - eapply with_top'_SI; [apply pop_ws_mode_K|exact H3|exact S2].
        - ok_inv H3. exact S2. }
      destruct (p_pre pu).
      - eapply with_top_SI; [apply pop_preformat_K|exact H|exact S3].
      - ok_inv H. exact S3.
    Qed.

    Definition node_SI (n : rnode) : Prop :=
      forall st st', tree_cl n = true -> SI st -> render_node d mw n st = Ok st' -> SI st'.

    Lemma render_kids_SI cs st st' :
      Forall node_SI cs -> forallb tree_cl cs = true -> SI st ->
      fold_left (fun acc c => do s <- acc; render_node d mw c s) cs (Ok st) = Ok st' -> SI st'.
    Proof.
      intros HF Ha Hs. apply (fold_bind_inv SI (render_node d mw) cs); [|exact Hs].
      intros c Hc a a' Hsa Hr. rewrite Forall_forall in HF. rewrite forallb_forall in Ha.
      exact (HF c Hc a a' (Ha c Hc) Hsa Hr).
    Qed.

    Lemma wrap_case_SI (f1 f2 : subr -> res subr) cs ps st1 st' :
      opK f1 -> opK f2 -> Forall node_SI cs -> forallb tree_cl cs = true -> SI st1 ->
      (do a <- with_top st1 f1;
       do b <- fold_left (fun acc c => do s <- acc; render_node d mw c s) cs (Ok a);
       do c <- with_top b f2; unwind d ps c) = Ok st' ->
      SI st'.
    Proof.
      intros K1 K2 HF Ha Hs H.
      bind_inv H a H1. bind_inv H b H2. bind_inv H c H3.
      eapply unwind_SI; [exact H|]. eapply with_top_SI; [exact K2|exact H3|].
      eapply render_kids_SI; [exact HF|exact Ha| |exact H2].
      exact (with_top_SI _ _ _ K1 H1 Hs).
    Qed.

    (* a nested block rendered into its own sub-renderer and appended with prefixes *)
    Lemma append_SI st3 sub q1 q2 st4 :
      K sub -> cl q1 -> cl q2 -> SI st3 ->
      with_top st3 (fun s => append_subrender s sub q1 q2) = Ok st4 -> SI st4.
    Proof.
      intros Hsub H1 H2 Hs H. eapply with_top_SI; [|exact H|exact Hs].
      apply append_subrender_K; assumption.
    Qed.

    Lemma cells_loop_SI : forall cells wsl s2 subs r,
      Forall (fun c => Forall node_SI (cell_content c)) cells ->
      forallb (fun c => forallb tree_cl (cell_content c)) cells = true ->
      SI s2 -> Forall K subs ->
      cells_loop d mw cells wsl s2 subs = Ok r -> SI (fst r) /\ Forall K (snd r).
    Proof.
      induction cells as [|[n content csty] cells IH]; intros wsl s2 subs r HF Ha Hs Hsubs H;
        cbn [cells_loop] in H.
      - ok_inv H. cbn [fst snd]. auto.
      - inversion HF as [|? ? HF1 HF2]; subst. cbn [cell_content] in HF1.
        cbn [forallb cell_content] in Ha. apply andb_true_iff in Ha. destruct Ha as [Ha1 Ha2].
        destruct wsl as [|[cw_|] wsl].
        + ok_inv H. cbn [fst snd]. auto.
        + bind_inv H tp2 Htp. bind_inv H apc Hap. destruct apc as [s4 pcell].
          bind_inv H s5 H5. bind_inv H s6 H6. bind_inv H pp Hpp. destruct pp as [sub s7].
          pose proof (scope_SI s2 tp2 cw_ Htp Hs) as S3.
          pose proof (apply_style_SI _ _ _ _ Hap S3) as S4.
          pose proof (render_kids_SI _ _ _ HF1 Ha1 S4 H5) as S5.
          pose proof (unwind_SI _ _ _ H6 S5) as S6.
          destruct (pop_SI _ _ _ Hpp S6) as [Ksub S7].
          apply (IH wsl s7 (subs ++ [sub]) r HF2 Ha2 S7); [|exact H].
          apply Forall_app. split; [exact Hsubs|]. constructor; [exact Ksub|constructor].
        + apply (IH wsl s2 subs r HF2 Ha2 Hs Hsubs H).
    Qed.

    Lemma row_body_SI vr col_widths r s s' :
      Forall (fun c => Forall node_SI (cell_content c)) (row_cells r) ->
      forallb (fun c => forallb tree_cl (cell_content c)) (row_cells r) = true ->
      SI s -> row_body d mw vr col_widths r s = Ok s' -> SI s'.
    Proof.
      intros HF Ha Hs H. destruct r as [rcells rstyle]. cbn [row_cells] in *. unfold row_body in H.
      bind_inv H apr Hap. destruct apr as [s1 prow]. bind_inv H cws Hcws. bind_inv H rr Hrr.
      destruct rr as [s8 subs]. bind_inv H s9 H9.
      pose proof (apply_style_SI _ _ _ _ Hap Hs) as S1.
      destruct (cells_loop_SI rcells cws s1 [] (s8, subs) HF Ha S1 (Forall_nil _) Hrr) as [S8 Ksubs].
      cbn [fst snd] in *.
      eapply unwind_SI; [exact H|].
      destruct vr.
      - eapply with_top_SI; [|exact H9|exact S8]. apply append_vert_row_K, Ksubs.
      - destruct (existsb (fun c => negb (sub_empty c)) subs).
        + eapply with_top_SI; [|exact H9|exact S8]. apply append_columns_K, Ksubs.
        + ok_inv H9. exact S8.
    Qed.

    Ltac start H sz ap st1 ps Hs S1 :=
      let Hsz := fresh "Hsz" in let Hap := fresh "Hap" in
      bind_inv H sz Hsz; bind_inv H ap Hap; destruct ap as [st1 ps];
      pose proof (apply_style_SI _ _ _ _ Hap Hs) as S1.

    Lemma node_SI_all : forall n, node_SI n.
    Proof.
      apply rnode_ind'. intros i sty IH st st' Ha Hs H.
      pose proof (tree_cl_kids _ _ Ha) as Hk.
      destruct i; cbn [direct_kids] in IH, Hk; cbn [render_node rn_info rn_style] in H.
      - (* IText *)
        start H sz ap st1 ps Hs S1. bind_inv H st2 H2.
        eapply unwind_SI; [exact H|]. eapply inline_text_SI; [|exact H2|exact S1].
        apply clb_cl. exact Ha.
      - (* IContainer *)
        start H sz ap st1 ps Hs S1. bind_inv H st2 H2.
        eapply unwind_SI; [exact H|]. eapply render_kids_SI; eassumption.
      - (* ILink *)
        start H sz ap st1 ps Hs S1.
        cbn [tree_cl rn_info] in Ha. apply andb_true_iff in Ha. destruct Ha as [Ha _].
        apply andb_true_iff in Ha. destruct Ha as [Hh Hrl]. apply clb_cl in Hh.
        set (st1' := mkrst (stack st1) (links st1 ++ [href])) in H.
        assert (S1' : SI st1').
        { destruct S1 as [A B]. split; [exact A|]. intros Ef. cbn [links st1'].
          apply Forall_app. split; [exact (B Ef)|]. constructor; [|constructor].
          rewrite Ef in Hrl. cbn [negb orb] in Hrl. apply clb_cl, Hrl. }
        bind_inv H st2 H2. bind_inv H st3 H3. bind_inv H st4 H4. bind_inv H tp H5. bind_inv H st5 H6.
        pose proof (with_top_SI _ _ _ (start_deco_K d (d_link_start d href) (dc_link_start d Hd href Hh))
                                H2 S1') as S2.
        pose proof (render_kids_SI _ _ _ IH Hk S2 H3) as S3.
        pose proof (with_top_SI _ _ _ (end_deco_K d (d_link_end d) (dc_link_end d Hd)) H4 S3) as S4.
        eapply unwind_SI; [exact H|].
        destruct (o_footnotes (sopts tp)) eqn:Ef; [|ok_inv H6; exact S4].
        eapply inline_text_SI; [|exact H6|exact S4].
        destruct (top_SI _ _ H5 S4) as (_ & _ & _ & [_ Df]).
        apply Hft.
        + destruct fn; [reflexivity|]. rewrite (Df eq_refl) in Ef. discriminate.
        + apply Forall_app. split; [repeat constructor|].
          apply Forall_app. split; [apply dec_N_lt128|repeat constructor].
      - (* IEm *)
        start H sz ap st1 ps Hs S1.
        exact (wrap_case_SI (start_emphasis d) (end_emphasis d) cs ps st1 st'
                 (start_deco_K d (d_em_start d) (dc_em_start d Hd))
                 (end_deco_K d (d_em_end d) (dc_em_end d Hd)) IH Hk S1 H).
      - (* IStrong *)
        start H sz ap st1 ps Hs S1.
        exact (wrap_case_SI (start_strong d) (end_strong d) cs ps st1 st'
                 (start_deco_K d (d_strong_start d) (dc_strong_start d Hd))
                 (end_deco_K d (d_strong_end d) (dc_strong_end d Hd)) IH Hk S1 H).
      - (* IStrikeout *)
        start H sz ap st1 ps Hs S1.
        exact (wrap_case_SI (start_strikeout d) (end_strikeout d) cs ps st1 st'
                 (start_strikeout_K d (dc_strike_start d Hd))
                 (end_strikeout_K d (dc_strike_end d Hd)) IH Hk S1 H).
      - (* ICode *)
        start H sz ap st1 ps Hs S1.
        exact (wrap_case_SI (start_code d) (end_code d) cs ps st1 st'
                 (start_deco_K d (d_code_start d) (dc_code_start d Hd))
                 (end_deco_K d (d_code_end d) (dc_code_end d Hd)) IH Hk S1 H).
      - (* IImg *)
        start H sz ap st1 ps Hs S1. bind_inv H st2 H2.
        cbn [tree_cl rn_info] in Ha. apply andb_true_iff in Ha. destruct Ha as [Hsrc Htitle].
        eapply unwind_SI; [exact H|]. eapply with_top_SI; [|exact H2|exact S1].
        apply add_image_K, (dc_image d Hd); apply clb_cl; assumption.
      - (* IBlock *)
        start H sz ap st1 ps Hs S1.
        exact (wrap_case_SI start_block (fun s => Ok (end_block s)) cs ps st1 st'
                 start_block_K end_block_K IH Hk S1 H).
      - (* IHeader *)
        start H sz ap st1 ps Hs S1.
        destruct (swidth (d_header_prefix d level) =? e_prefix sz); cbn [negb] in H; [|discriminate].
        bind_inv H tp Htp. bind_inv H w' Hw. bind_inv H st2 H2. bind_inv H pp Hpp.
        destruct pp as [sub st3]. bind_inv H st4 H4. bind_inv H st5 H5. bind_inv H st6 H6.
        pose proof (render_kids_SI _ _ _ IH Hk (scope_SI _ _ w' Htp S1) H2) as S2.
        destruct (pop_SI _ _ _ Hpp S2) as [Ksub S3].
        pose proof (with_top_SI _ _ _ start_block_K H4 S3) as S4.
        pose proof (append_SI _ _ _ _ _ Ksub (dc_header d Hd level) (dc_header d Hd level) S4 H5) as S5.
        pose proof (with_top'_SI _ _ _ end_block_K H6 S5) as S6.
        eapply unwind_SI; eassumption.
      - (* IDiv *)
        start H sz ap st1 ps Hs S1.
        exact (wrap_case_SI new_line new_line cs ps st1 st' flush_wrapping_K flush_wrapping_K IH Hk S1 H).
      - (* IBlockQuote *)
        start H sz ap st1 ps Hs S1.
        destruct (e_prefix sz =? swidth (d_quote_prefix d)); cbn [negb] in H; [|discriminate].
        bind_inv H iw Hiw.
        bind_inv H tp Htp. bind_inv H w' Hw. bind_inv H st2 H2. bind_inv H pp Hpp.
        destruct pp as [sub st3]. bind_inv H st4 H4. bind_inv H st5 H5. bind_inv H st6 H6.
        pose proof (render_kids_SI _ _ _ IH Hk (scope_SI _ _ w' Htp S1) H2) as S2.
        destruct (pop_SI _ _ _ Hpp S2) as [Ksub S3].
        pose proof (with_top_SI _ _ _ start_block_K H4 S3) as S4.
        pose proof (append_SI _ _ _ _ _ Ksub (dc_quote d Hd) (dc_quote d Hd) S4 H5) as S5.
        pose proof (with_top'_SI _ _ _ end_block_K H6 S5) as S6.
        eapply unwind_SI; eassumption.
      - (* IUl *)
        start H sz ap st1 ps Hs S1. bind_inv H st2 H2.
        eapply unwind_SI; [exact H|]. revert H2.
        apply (fold_bind_inv SI
                 (fun item s =>
                    do inner_width <- usub 22 (e_min sz) (swidth (d_ul_prefix d));
                    do tp <- top s;
                    do w <- width_minus tp (swidth (d_ul_prefix d)) inner_width;
                    do s2 <- render_node d mw item (push_sub s (new_sub_renderer tp w));
                    do pp <- pop_sub s2;
                    let '(sub, s3) := pp in
                    with_top s3 (fun t => append_subrender t sub (d_ul_prefix d)
                       (repeat_chr (spacel L_prefix) (N.to_nat (swidth (d_ul_prefix d))))))
                 cs); [|exact S1].
        intros item Hitem a a' Hsa Hstep.
        bind_inv Hstep iw Hiw. bind_inv Hstep tp Htp. bind_inv Hstep w' Hw.
        bind_inv Hstep s2 Hs2. bind_inv Hstep pp Hpp. destruct pp as [sub s3].
        rewrite Forall_forall in IH. rewrite forallb_forall in Hk.
        pose proof (IH item Hitem _ _ (Hk item Hitem) (scope_SI _ _ w' Htp Hsa) Hs2) as S2.
        destruct (pop_SI _ _ _ Hpp S2) as [Ksub S3].
        eapply append_SI; [exact Ksub|exact (dc_ul d Hd)|apply cl_repeat, Hp|exact S3|exact Hstep].
      - (* IOl *)
        start H sz ap st1 ps Hs S1. bind_inv H r Hr.
        eapply unwind_SI; [exact H|]. revert Hr.
        set (pw := N.max _ _).
        apply (fold_bind_inv (fun si : rstate * Z => SI (fst si)) (ol_step d mw sz pw) cs);
          [|exact S1].
        intros item Hitem [a i] a' Hsa Hstep. cbn [fst] in Hsa. unfold ol_step in Hstep.
        bind_inv Hstep iw Hiw. bind_inv Hstep tp Htp. bind_inv Hstep w' Hw.
        bind_inv Hstep s2 Hs2. bind_inv Hstep pp Hpp. destruct pp as [sub s3].
        bind_inv Hstep s4 H4. ok_inv Hstep. cbn [fst].
        rewrite Forall_forall in IH. rewrite forallb_forall in Hk.
        pose proof (IH item Hitem _ _ (Hk item Hitem) (scope_SI _ _ w' Htp Hsa) Hs2) as S2.
        destruct (pop_SI _ _ _ Hpp S2) as [Ksub S3].
        eapply append_SI; [exact Ksub|apply cl_pad_width, (dc_ol d Hd)|apply cl_pad_chars|exact S3|exact H4].
      - (* IDl *)
        start H sz ap st1 ps Hs S1. bind_inv H st2 H2. bind_inv H st3 H3.
        eapply unwind_SI; [exact H|]. eapply render_kids_SI; [exact IH|exact Hk| |exact H3].
        eapply with_top_SI; [apply start_block_K|exact H2|exact S1].
      - (* IDt *)
        start H sz ap st1 ps Hs S1. bind_inv H st2 H2.
        pose proof (with_top_SI _ _ _ flush_wrapping_K H2 S1) as S2.
        exact (wrap_case_SI (start_emphasis d) (end_emphasis d) cs ps st2 st'
                 (start_deco_K d (d_em_start d) (dc_em_start d Hd))
                 (end_deco_K d (d_em_end d) (dc_em_end d Hd)) IH Hk S2 H).
      - (* IDd *)
        start H sz ap st1 ps Hs S1. bind_inv H iw Hiw.
        bind_inv H tp Htp. bind_inv H w' Hw. bind_inv H st2 H2. bind_inv H pp Hpp.
        destruct pp as [sub st3]. bind_inv H st4 H4.
        pose proof (render_kids_SI _ _ _ IH Hk (scope_SI _ _ w' Htp S1) H2) as S2.
        destruct (pop_SI _ _ _ Hpp S2) as [Ksub S3].
        eapply unwind_SI; [exact H|]. eapply append_SI; [exact Ksub|exact Hdd|exact Hdd|exact S3|exact H4].
      - (* IBreak *)
        start H sz ap st1 ps Hs S1. bind_inv H st2 H2.
        eapply unwind_SI; [exact H|]. eapply with_top_SI; [apply new_line_hard_K|exact H2|exact S1].
      - (* ITable *)
        start H sz ap st1 ps Hs S1.
        bind_inv H col_sizes Hcs. bind_inv H tp Htp.
        set (vr := o_raw (sopts tp)
                   || ((swidth_ tp <? sumN (map e_min col_sizes) + (N.of_nat (length col_sizes) - 1))
                       || (swidth_ tp =? 0))) in *.
        bind_inv H col_widths Hcw. bind_inv H st2 H2. bind_inv H st3 H3. bind_inv H st_rows Hrows.
        pose proof (with_top_SI _ _ _ start_block_K H2 S1) as S2.
        assert (S3 : SI st3).
        { match type of H3 with (if ?c then _ else _) = _ => destruct c eqn:Ec end.
          - apply andb_true_iff in Ec. destruct Ec as [_ Eb].
            eapply with_top_SI; [|exact H3|exact S2].
            apply add_horizontal_border_width_K. exact (borders_nb _ (top_SI _ _ Htp S1) Eb).
          - ok_inv H3. exact S2. }
        assert (Hrows' : fold_left (fun acc r => do s <- acc; row_body d mw vr col_widths r s) rows
                                   (Ok st3) = Ok st_rows) by exact Hrows.
        eapply unwind_SI; [exact H|]. revert Hrows'.
        apply (fold_bind_inv SI (row_body d mw vr col_widths) rows); [|exact S3].
        intros r Hr a a' Hsa Hstep.
        apply Forall_flat_map in IH. rewrite Forall_forall in IH. specialize (IH r Hr).
        unfold row_kids in IH. apply Forall_flat_map in IH.
        rewrite forallb_flat_map' in Hk. rewrite forallb_forall in Hk. specialize (Hk r Hr).
        unfold row_kids in Hk. rewrite forallb_flat_map' in Hk.
        exact (row_body_SI vr col_widths r a a' IH Hk Hsa Hstep).
      - (* ITableBody *) discriminate Ha.
      - (* ITableRow *) discriminate Ha.
      - (* ITableCell *) discriminate Ha.
      - (* IFragStart *)
        start H sz ap st1 ps Hs S1. bind_inv H st2 H2.
        eapply unwind_SI; [exact H|].
        eapply with_top'_SI; [apply record_frag_start_K|exact H2|exact S1].
      - (* IListItem *)
        start H sz ap st1 ps Hs S1.
        exact (wrap_case_SI start_block (fun s => Ok (end_block s)) cs ps st1 st'
                 start_block_K end_block_K IH Hk S1 H).
      - (* ISup *)
        start H sz ap st1 ps Hs S1.
        destruct (sup_digits cs) as [digitstr|] eqn:Esd.
        + bind_inv H st2 H2. eapply unwind_SI; [exact H|].
          eapply inline_text_SI; [|exact H2|exact S1]. eapply sup_digits_cl; eassumption.
        + exact (wrap_case_SI (start_superscript d) (end_superscript d) cs ps st1 st'
                   (start_deco_K d (d_sup_start d) (dc_sup_start d Hd))
                   (end_deco_K d (d_sup_end d) (dc_sup_end d Hd)) IH Hk S1 H).
    Qed.

    (* render_tree: the body, then (footnotes on, at least one link) the footnote list *)
    Lemma render_tree_K o width tree s :
      Ko o -> tree_cl tree = true -> render_tree d mw o width tree = Ok s -> K s.
    Proof.
      intros Ho Ht H. unfold render_tree in H. bind_inv H e He. bind_inv H st Hst.
      assert (S0 : SI (mkrst [sub_new width o] [])).
      { split; [constructor; [apply K_sub_new, Ho|constructor]|]. intros _. constructor. }
      destruct (node_SI_all tree _ _ Ht S0 Hst) as [A B].
      destruct (stack st) as [|body [|x rest]]; try discriminate.
      inversion A as [|? ? Kb _]; subst.
      unfold sub_finalise in H. destruct (o_footnotes (sopts body)) eqn:Ef; [|ok_inv H; exact Kb].
      assert (Efn : fn = true).
      { destruct Kb as (_ & _ & _ & [_ Df]). destruct fn; [reflexivity|].
        rewrite (Df eq_refl) in Ef. discriminate. }
      pose proof (finalise_from_cl (links st) 1 Efn (B Efn) dec_N_lt128) as Hfl.
      destruct (finalise_from 1 (links st)) as [|l ls]; [injection H as <-; exact Kb|].
      bind_inv H s1 H1. injection H as <-.
      exact (fmt_links_K (l :: ls) s1 (start_block_K _ _ H1 Kb) Hfl).
    Qed.
  End Node.
  (* ---- what the invariant says about the output ---- *)
  Lemma lines_cl ls : Forall lok ls -> cl (flat_map rline_string ls).
  Proof. intros H. apply cl_flat_map. eapply Forall_impl; [|exact H]. apply lok_string. Qed.

  Lemma lines_text ls : nb = true -> Forall lok ls -> Forall (fun l => exists tl, l = RText tl) ls.
  Proof.
    intros E H. eapply Forall_impl; [|exact H]. intros [tl|b t] Hl; [eauto|].
    cbn [lok] in Hl. congruence.
  Qed.

  Lemma string_cl ls : p newline_chr = false -> Forall lok ls ->
    cl (flat_map (fun l => rline_string l ++ [newline_chr]) ls).
  Proof.
    intros Hn H. apply cl_flat_map. eapply Forall_impl; [|exact H]. intros l Hl. cbv beta.
    apply cl_app_i; [apply lok_string, Hl|apply cl_one, Hn].
  Qed.

  Lemma tagged_cl ls : Forall lok ls -> cl (flat_map tl_string (map rline_into_tagged ls)).
  Proof.
    intros H. rewrite flat_map_concat_map, map_map, <- flat_map_concat_map.
    rewrite (flat_map_ext _ _ tl_string_into_tagged). apply lines_cl, H.
  Qed.
End Gen.

(* ================================================================== *)
(* 2. GOAL A: no box-drawing character with table borders off           *)
(* ================================================================== *)

(* the Unicode block "Box Drawing", U+2500 .. U+257F.  The model's borders use five of them
   (Sub.seg_char, Sub.vbar): U+2500 (9472), U+2502 (9474), U+252C (9516), U+2534 (9524),
   U+253C (9532) - and '/' (47) for the rule between stacked cells, which is not one. *)
Definition is_box (c : chr) : bool := (9472 <=? cp c) && (cp c <=? 9599).
(* a RENDERER-MADE box-drawing character (label < 16; a box-drawing character typed in the
   document keeps its label >= 16 and is of course kept) *)
Definition boxp (c : chr) : bool := (lab c <? 16) && is_box c.
(* the texts of the statements: every renderer-made character is not a box-drawing one *)
Definition nobox (t : text) : Prop := Forall (fun c => lab c <? 16 = true -> is_box c = false) t.

Lemma border_chars_are_box :
  forallb is_box (vbar :: map seg_char [Straight; JoinAbove; JoinBelow; JoinCross]) = true /\
  is_box (seg_char StraightVert) = false.
Proof. split; reflexivity. Qed.

Lemma cl_boxp_nobox t : cl boxp t <-> nobox t.
Proof.
  unfold nobox. rewrite cl_Forall. split; intros H; (eapply Forall_impl; [|exact H]); intros c;
    unfold boxp; destruct (lab c <? 16), (is_box c); cbn [andb]; auto.
Qed.

Lemma boxp_ascii c : cp c < 9472 -> boxp c = false.
Proof. intros H. unfold boxp, is_box. lia. Qed.

Lemma boxp_spacel l : boxp (spacel l) = false.
Proof. apply boxp_ascii. cbn [spacel cp]. lia. Qed.
Lemma boxp_sup c : is_ascii_digit c = true -> boxp c = false -> boxp (sup_char c) = false.
Proof.
  intros Hd _. apply boxp_ascii. unfold is_ascii_digit in Hd. unfold sup_char. cbn [cp].
  destruct (cp c - 48 =? 1); [lia|]. destruct (cp c - 48 =? 2); [lia|].
  destruct (cp c - 48 =? 3); lia.
Qed.
Lemma boxp_asciil lb l : Forall (fun x => x < 128) l -> cl boxp (of_asciil lb l).
Proof.
  intros H. apply cl_Forall, Forall_forall. intros c Hc. unfold of_asciil in Hc.
  apply in_map_iff in Hc. destruct Hc as (x & <- & Hx). rewrite Forall_forall in H.
  apply boxp_ascii. cbn [mkl cp]. specialize (H x Hx). lia.
Qed.
Lemma boxp_ftext : true = true -> forall l, Forall (fun x => x < 128) l -> filter boxp (ftext l) = [].
Proof. intros _ l H. apply (boxp_asciil L_foot l H). Qed.

(* the generic section at p = boxp, borders off, footnotes on or off *)
Definition KA := K boxp true.
Lemma box_render_tree_K fn d mw o width tree s :
  deco_cl boxp d -> Ko true fn o -> tree_cl boxp fn tree = true ->
  render_tree d mw o width tree = Ok s -> K boxp true fn s.
Proof.
  intros Hd Ho Ht H.
  refine (render_tree_K boxp true fn boxp_spacel eq_refl boxp_sup _ _ eq_refl _ d mw Hd o width tree s Ho Ht H).
  - intros E. discriminate E.
  - intros E. discriminate E.
  - intros _ l Hl. apply (boxp_asciil L_foot l Hl).
Qed.

(* THEOREM A1 (render tree level).  Options with table borders off (o_borders o = false:
   `no_table_borders()`, and also `raw_mode(_)`, which turns the borders off: Api.set_raw),
   every tree (nested tables, stacked fallback), every width, raw mode on or off, footnotes on
   or off: no output line is a border line (RLine), and no renderer-made character of the
   output is a box-drawing character. *)
Theorem c15_no_borders_render_tree : forall d mw o width tree s ls,
  deco_cl boxp d -> tree_cl boxp (o_footnotes o) tree = true -> o_borders o = false ->
  render_tree d mw o width tree = Ok s -> sub_into_lines s = Ok ls ->
  Forall (fun l => exists tl, l = RText tl) ls /\ nobox (flat_map rline_string ls).
Proof.
  intros d mw o width tree s ls Hd Ht Hb H Hls.
  assert (Ho : Ko true (o_footnotes o) o) by (split; auto).
  pose proof (box_render_tree_K _ d mw o width tree s Hd Ho Ht H) as Hk.
  pose proof (sub_into_lines_K boxp true (o_footnotes o) boxp_spacel s ls Hls Hk) as Hl.
  split; [exact (lines_text boxp true ls eq_refl Hl)|].
  apply cl_boxp_nobox. apply (lines_cl boxp true); [|exact Hl]. intros E. discriminate E.
Qed.
Print Assumptions c15_no_borders_render_tree.

Theorem c15_no_borders_into_string : forall d mw o width tree s t,
  deco_cl boxp d -> tree_cl boxp (o_footnotes o) tree = true -> o_borders o = false ->
  render_tree d mw o width tree = Ok s -> sub_into_string s = Ok t -> nobox t.
Proof.
  intros d mw o width tree s t Hd Ht Hb H Hs. unfold sub_into_string in Hs. bind_inv Hs ls Hls.
  ok_inv Hs.
  assert (Ho : Ko true (o_footnotes o) o) by (split; auto).
  pose proof (box_render_tree_K _ d mw o width tree s Hd Ho Ht H) as Hk.
  pose proof (sub_into_lines_K boxp true (o_footnotes o) boxp_spacel s ls Hls Hk) as Hl.
  apply cl_boxp_nobox. apply (string_cl boxp true); [|reflexivity|exact Hl]. intros E. discriminate E.
Qed.
Print Assumptions c15_no_borders_into_string.

(* ---- the public routes (Api.v) ---- *)
(* THEOREM A2.  A configuration with table borders off. *)
Theorem c15_string_from_read_no_borders : forall ist dr (c : config) doc width tree t,
  deco_cl boxp (c_deco c) -> c_borders c = false ->
  to_render_tree ist dr c doc = Ok tree -> tree_cl boxp (c_footnotes c) tree = true ->
  string_from_read ist dr c doc width = Ok t -> nobox t.
Proof.
  intros ist dr c doc width tree t Hd Hb Ht Htc H. unfold string_from_read in H. rewrite Ht in H.
  cbn [bind] in H. bind_inv H s Hs. unfold render_with_context in Hs.
  destruct (width =? 0); [discriminate|].
  exact (c15_no_borders_into_string _ _ (render_options c) _ _ _ _ Hd Htc Hb Hs H).
Qed.
Print Assumptions c15_string_from_read_no_borders.

Theorem c15_lines_from_read_no_borders : forall ist dr (c : config) doc width tree tls,
  deco_cl boxp (c_deco c) -> c_borders c = false ->
  to_render_tree ist dr c doc = Ok tree -> tree_cl boxp (c_footnotes c) tree = true ->
  lines_from_read ist dr c doc width = Ok tls -> nobox (flat_map tl_string tls).
Proof.
  intros ist dr c doc width tree tls Hd Hb Ht Htc H. unfold lines_from_read in H. rewrite Ht in H.
  cbn [bind] in H. bind_inv H s Hs. unfold render_with_context in Hs.
  destruct (width =? 0); [discriminate|]. bind_inv H ls Hls. ok_inv H.
  assert (Ho : Ko true (c_footnotes c) (render_options c)) by (split; auto).
  pose proof (box_render_tree_K _ _ _ _ _ _ _ Hd Ho Htc Hs) as Hk.
  pose proof (sub_into_lines_K boxp true (c_footnotes c) boxp_spacel s ls Hls Hk) as Hl.
  apply cl_boxp_nobox. apply (tagged_cl boxp true); [|exact Hl]. intros E. discriminate E.
Qed.
Print Assumptions c15_lines_from_read_no_borders.

(* the two ways the public API has to get there: `no_table_borders()` and `raw_mode(raw)`
   (Api.set_raw mirrors lib.rs: raw_mode "Implies no_table_borders()" - for raw = true AND for
   raw = false) *)
Corollary c15_string_from_read_set_no_borders : forall ist dr (c0 : config) doc width tree t,
  deco_cl boxp (c_deco c0) ->
  to_render_tree ist dr (set_no_borders c0) doc = Ok tree ->
  tree_cl boxp (c_footnotes c0) tree = true ->
  string_from_read ist dr (set_no_borders c0) doc width = Ok t -> nobox t.
Proof.
  intros ist dr c0 doc width tree t Hd Ht Htc H.
  exact (c15_string_from_read_no_borders ist dr (set_no_borders c0) doc width tree t Hd eq_refl Ht Htc H).
Qed.

Corollary c15_string_from_read_raw : forall ist dr (c0 : config) raw doc width tree t,
  deco_cl boxp (c_deco c0) ->
  to_render_tree ist dr (set_raw c0 raw) doc = Ok tree ->
  tree_cl boxp (c_footnotes c0) tree = true ->
  string_from_read ist dr (set_raw c0 raw) doc width = Ok t -> nobox t.
Proof.
  intros ist dr c0 raw doc width tree t Hd Ht Htc H.
  exact (c15_string_from_read_no_borders ist dr (set_raw c0 raw) doc width tree t Hd eq_refl Ht Htc H).
Qed.
Print Assumptions c15_string_from_read_raw.

Corollary c15_lines_from_read_raw : forall ist dr (c0 : config) raw doc width tree tls,
  deco_cl boxp (c_deco c0) ->
  to_render_tree ist dr (set_raw c0 raw) doc = Ok tree ->
  tree_cl boxp (c_footnotes c0) tree = true ->
  lines_from_read ist dr (set_raw c0 raw) doc width = Ok tls -> nobox (flat_map tl_string tls).
Proof.
  intros ist dr c0 raw doc width tree tls Hd Ht Htc H.
  exact (c15_lines_from_read_no_borders ist dr (set_raw c0 raw) doc width tree tls Hd eq_refl Ht Htc H).
Qed.

(* ---- the decorators of the model ---- *)
Lemma dec_Z_lt128 i : Forall (fun x => x < 128) (dec_Z i).
Proof.
  destruct i; cbn [dec_Z]; [repeat constructor|apply dec_N_lt128|].
  constructor; [lia|apply dec_N_lt128].
Qed.
Lemma boxp_hashes level : cl boxp (hashes level).
Proof.
  unfold hashes. apply cl_app_i; [apply cl_repeat; reflexivity|reflexivity].
Qed.
Lemma boxp_ol i : cl boxp (ptext (dec_Z i ++ [46; 32])).
Proof.
  apply boxp_asciil. apply Forall_app. split; [apply dec_Z_lt128|repeat constructor].
Qed.

Theorem deco_cl_box_plain : deco_cl boxp plain_deco.
Proof.
  split; intros; cbn [plain_deco d_link_start d_link_end d_em_start d_em_end d_strong_start
    d_strong_end d_strike_start d_strike_end d_code_start d_code_end d_sup_start d_sup_end
    d_image d_header_prefix d_quote_prefix d_ul_prefix d_ol_prefix fst];
    try reflexivity; try apply boxp_hashes; try apply boxp_ol.
  apply cl_app_i; [reflexivity|]. apply cl_app_i; [assumption|reflexivity].
Qed.
Theorem deco_cl_box_rich : deco_cl boxp rich_deco.
Proof.
  split; intros; cbn [rich_deco d_link_start d_link_end d_em_start d_em_end d_strong_start
    d_strong_end d_strike_start d_strike_end d_code_start d_code_end d_sup_start d_sup_end
    d_image d_header_prefix d_quote_prefix d_ul_prefix d_ol_prefix fst];
    try reflexivity; try apply boxp_hashes; try apply boxp_ol; try assumption.
Qed.
Theorem deco_cl_box_trivial : deco_cl boxp trivial_deco.
Proof.
  split; intros; cbn [trivial_deco d_link_start d_link_end d_em_start d_em_end d_strong_start
    d_strong_end d_strike_start d_strike_end d_code_start d_code_end d_sup_start d_sup_end
    d_image d_header_prefix d_quote_prefix d_ul_prefix d_ol_prefix fst];
    try reflexivity; try assumption.
Qed.

(* the custom decorator family: every given string free of box-drawing characters *)
Definition nb_str (t : text) : bool := forallb (fun c => negb (is_box c)) t.
Lemma nb_str_relabel lb t : nb_str t = true -> cl boxp (relabel lb t).
Proof.
  intros H. apply cl_Forall, Forall_forall. intros c Hc. unfold relabel in Hc.
  apply in_map_iff in Hc. destruct Hc as (x & <- & Hx). unfold nb_str in H.
  rewrite forallb_forall in H. specialize (H x Hx). unfold boxp, is_box in *. cbn [cp lab]. lia.
Qed.
Lemma cl_flat_repeat p (t : text) n : cl p t -> cl p (flat_map (fun _ : unit => t) (repeat tt n)).
Proof.
  intros H. induction n as [|n IH]; cbn [repeat flat_map]; [reflexivity|apply cl_app_i; assumption].
Qed.

Theorem deco_cl_box_custom lks lke ems eme sts ste sks ske cds cde ims ime hdr qt ul olsuf :
  forallb nb_str [lks; lke; ems; eme; sts; ste; sks; ske; cds; cde; ims; ime; hdr; qt; ul; olsuf] = true ->
  deco_cl boxp (custom_deco lks lke ems eme sts ste sks ske cds cde ims ime hdr qt ul olsuf).
Proof.
  intros H. cbn [forallb] in H. repeat (apply andb_true_iff in H; destruct H as [? H]).
  split; intros;
    cbn [custom_deco d_header_prefix d_quote_prefix d_ul_prefix d_ol_prefix d_link_start d_link_end
         d_em_start d_em_end d_strong_start d_strong_end d_strike_start d_strike_end d_code_start
         d_code_end d_sup_start d_sup_end d_image fst];
    try (apply nb_str_relabel; assumption); try reflexivity.
  - apply cl_app_i; [apply nb_str_relabel; assumption|].
    apply cl_app_i; [assumption|apply nb_str_relabel; assumption].
  - apply cl_app_i; [|reflexivity]. apply cl_flat_repeat, nb_str_relabel. assumption.
  - apply cl_app_i; [|apply nb_str_relabel; assumption]. apply boxp_asciil, dec_Z_lt128.
Qed.
Print Assumptions deco_cl_box_custom.

(* ---- non-vacuity: a heading, a table with a nested table in a cell, a link (footnotes on),
   a three-column table; width 20: both tables side by side; width 8: the outer table and the
   three-column table fall back to stacked rows, the nested table stays side by side ---- *)
Definition bx_tb (rows : list (list rcell)) (n : N) : rnode :=
  ex_n (ITable (map (fun r => RRow r cstyle0) rows) n).
Definition bx_inner : rnode :=
  bx_tb [[ex_cell [97;98]; ex_cell [99;100]]; [ex_cell [101]; ex_cell [102]]] 2.
Definition bx_tree : rnode :=
  ex_n (IContainer [
    ex_n (IHeader 1 [ex_n (IText (ex_str [72;105]))]);
    bx_tb [[RCell 1 [bx_inner] cstyle0; ex_cell [120;121;122]]; [ex_cell [49]; ex_cell [50]]] 2;
    ex_n (IBlock [ex_n (ILink (ex_str [117]) [ex_n (IText (ex_str [108;110;107]))])]);
    bx_tb [[ex_cell [97;97;97;97;97;97]; ex_cell [98;98;98;98;98;98]; ex_cell [99;99;99;99;99;99]]] 3 ]).
Definition bx_on : ropts := render_options cfg_plain.                        (* borders on *)
Definition bx_off : ropts := render_options (set_no_borders cfg_plain).      (* borders off *)
Definition bx_raw : ropts := render_options (set_raw cfg_plain true).        (* raw mode *)

(* borders on, for comparison: 9472.. are the box-drawing characters, 47 = '/' *)
Example bx_borders_on_20 :
  fn_out (render_tree plain_deco 3 bx_on 20 bx_tree) =
  Ok [[35; 32; 72; 105]; [];
      [9472; 9472; 9516; 9472; 9472; 9472; 9516; 9472; 9472; 9472];
      [97; 98; 9474; 99; 100; 32; 9474; 120; 121; 122];
      [9472; 9472; 9532; 9472; 9472; 9472; 9474; 32; 32; 32];
      [101; 32; 9474; 102; 32; 32; 9474; 32; 32; 32];
      [9472; 9472; 9524; 9472; 9472; 9472; 9532; 9472; 9472; 9472];
      [49; 32; 32; 32; 32; 32; 9474; 50; 32; 32];
      [9472; 9472; 9472; 9472; 9472; 9472; 9524; 9472; 9472; 9472]; [];
      [91; 108; 110; 107; 93; 91; 49; 93]; [];
      [9472; 9472; 9472; 9472; 9472; 9472; 9516; 9472; 9472; 9472; 9472;
       9472; 9472; 9516; 9472; 9472; 9472; 9472; 9472; 9472];
      [97; 97; 97; 97; 97; 97; 9474; 98; 98; 98; 98; 98; 98; 9474; 99; 99; 99; 99; 99; 99];
      [9472; 9472; 9472; 9472; 9472; 9472; 9524; 9472; 9472; 9472; 9472;
       9472; 9472; 9524; 9472; 9472; 9472; 9472; 9472; 9472]; [];
      [91; 49; 93; 58; 32; 117]].
Proof. vm_compute. reflexivity. Qed.

Example bx_borders_off_20 :
  fn_out (render_tree plain_deco 3 bx_off 20 bx_tree) =
  Ok [[35; 32; 72; 105]; [];
      [97; 98; 32; 99; 100; 32; 32; 120; 121; 122];
      [101; 32; 32; 102; 32; 32; 32; 32; 32; 32];
      [49; 32; 32; 32; 32; 32; 32; 50; 32; 32]; [];
      [91; 108; 110; 107; 93; 91; 49; 93]; [];
      [97; 97; 97; 97; 97; 97; 32; 98; 98; 98; 98; 98; 98; 32; 99; 99; 99; 99; 99; 99]; [];
      [91; 49; 93; 58; 32; 117]].
Proof. vm_compute. reflexivity. Qed.

(* width 8, borders off: stacked fallback for the outer tables, nested table side by side *)
Example bx_borders_off_8 :
  fn_out (render_tree plain_deco 3 bx_off 8 bx_tree) =
  Ok [[35; 32; 72; 105]; []; [97; 98; 32; 99; 100]; [101; 32; 32; 102; 32]; [120; 121; 122];
      [49]; [50]; []; [91; 108; 110; 107; 93; 91; 49; 93]; [];
      [97; 97; 97; 97; 97; 97]; [98; 98; 98; 98; 98; 98]; [99; 99; 99; 99; 99; 99]; [];
      [91; 49; 93; 58; 32; 117]].
Proof. vm_compute. reflexivity. Qed.

Example bx_raw_20 :
  fn_out (render_tree plain_deco 3 bx_raw 20 bx_tree) =
  Ok [[35; 32; 72; 105]; []; [97; 98]; [99; 100]; [101]; [102]; [120; 121; 122]; [49]; [50]; [];
      [91; 108; 110; 107; 93; 91; 49; 93]; []; [97; 97; 97; 97; 97; 97]; [98; 98; 98; 98; 98; 98];
      [99; 99; 99; 99; 99; 99]; []; [91; 49; 93; 58; 32; 117]].
Proof. vm_compute. reflexivity. Qed.

(* the hypotheses hold for this input, and the theorem applies (widths 20 and 8, raw mode) *)
Example bx_hyps :
  tree_cl boxp (o_footnotes bx_off) bx_tree = true /\ o_borders bx_off = false /\
  o_borders bx_raw = false /\ o_footnotes bx_off = true /\
  (exists s, render_tree plain_deco 3 bx_off 20 bx_tree = Ok s) /\
  (exists s, render_tree plain_deco 3 bx_off 8 bx_tree = Ok s) /\
  (exists s, render_tree plain_deco 3 bx_raw 20 bx_tree = Ok s).
Proof. repeat split; try reflexivity; eexists; vm_compute; reflexivity. Qed.

Example bx_theorem : forall o w s ls, In (o, w) [(bx_off, 20); (bx_off, 8); (bx_raw, 20)] ->
  render_tree plain_deco 3 o w bx_tree = Ok s -> sub_into_lines s = Ok ls ->
  Forall (fun l => exists tl, l = RText tl) ls /\ nobox (flat_map rline_string ls).
Proof.
  intros o w s ls Hin H Hls.
  refine (c15_no_borders_render_tree plain_deco 3 o w bx_tree s ls deco_cl_box_plain _ _ H Hls);
    destruct Hin as [E|[E|[E|[]]]]; injection E as <- <-; reflexivity.
Qed.

(* a box-drawing character typed in the document (label >= 16) is kept, and a decorator or a
   link target containing one is excluded by the hypotheses: with footnotes on the target is
   copied into the footnote list relabelled L_foot (renderer-made by the labelling) *)
Definition bx_doc_box : rnode :=
  ex_n (IBlock [ex_n (IText [mkchr 9472 (Some 1) false 16]);
                ex_n (ILink [mkchr 9474 (Some 1) false 17] [ex_n (IText (ex_str [120]))])]).
Example bx_document_box_kept :
  fn_out (render_tree plain_deco 3 bx_off 20 bx_doc_box) =
    Ok [[9472; 91; 120; 93; 91; 49; 93]; []; [91; 49; 93; 58; 32; 9474]] /\
  tree_cl boxp true bx_doc_box = false /\ tree_cl boxp false bx_doc_box = true.
Proof. repeat split; vm_compute; reflexivity. Qed.

(* OBSERVATION (model level only, not reachable through the public API): the renderer option
   `raw` alone does NOT remove the borders - with o_raw = true and o_borders = true every row is
   stacked, and append_vert_row / the table's top rule still draw U+2500 rules and '/' rules.
   It is Config::raw_mode (Api.set_raw) that turns the borders off together with raw mode; no
   public method turns them on again, so every reachable configuration with raw mode has
   borders off, which is what c15_string_from_read_raw uses. *)
Definition bx_raw_borders : ropts := mkopts None false false true true true true true.
Example raw_option_alone_keeps_borders :
  fn_out (render_tree plain_deco 3 bx_raw_borders 6
            (bx_tb [[ex_cell [97]; ex_cell [98]]] 2)) =
  Ok [[9472; 9472; 9472; 9472; 9472; 9472]; [97]; [47; 47; 47; 47; 47; 47]; [98];
      [9472; 9472; 9472; 9472; 9472; 9472]].
Proof. vm_compute. reflexivity. Qed.
Example raw_mode_config_has_no_borders : forall c raw,
  o_borders (render_options (set_raw c raw)) = false /\
  o_raw (render_options (set_raw c raw)) = raw.
Proof. intros. split; reflexivity. Qed.

(* the public route on a DOM: <p>x</p><table><tr><td>ab</td><td>cd</td></tr></table> with
   raw_mode(true), raw_mode(false) (both turn the borders off) and no_table_borders() *)
Definition bx_dom : list node :=
  [cx_el [112] [NText (Al 16 [120])];
   cx_el [116;97;98;108;101] [cx_el [116;98;111;100;121]
     [cx_el [116;114] [cx_el [116;100] [NText (Al 20 [97;98])];
                       cx_el [116;100] [NText (Al 30 [99;100])]]]]].
Definition bx_str (c : config) : option (list N) :=
  option_map cps (match string_from_read cx_ist cx_dr c bx_dom 20 with Ok t => Some t | _ => None end).
Example bx_route_outputs :
  bx_str cfg_plain = Some [120; 10; 10; 9472; 9472; 9516; 9472; 9472; 10; 97; 98; 9474; 99; 100; 10;
                           9472; 9472; 9524; 9472; 9472; 10] /\
  bx_str (set_raw cfg_plain true) = Some [120; 10; 10; 97; 98; 10; 99; 100; 10] /\
  bx_str (set_raw cfg_plain false) = Some [120; 10; 10; 97; 98; 32; 99; 100; 10] /\
  bx_str (set_no_borders cfg_plain) = Some [120; 10; 10; 97; 98; 32; 99; 100; 10].
Proof. repeat split; vm_compute; reflexivity. Qed.
Example bx_route_theorem : forall raw tree t,
  to_render_tree cx_ist cx_dr (set_raw cfg_plain raw) bx_dom = Ok tree ->
  string_from_read cx_ist cx_dr (set_raw cfg_plain raw) bx_dom 20 = Ok t -> nobox t.
Proof.
  intros raw tree t Ht H.
  refine (c15_string_from_read_raw cx_ist cx_dr cfg_plain raw bx_dom 20 tree t deco_cl_box_plain Ht _ H).
  vm_compute in Ht. injection Ht as <-. vm_compute. reflexivity.
Qed.

(* ================================================================== *)
(* 3. GOAL B: footnotes off                                             *)
(* ================================================================== *)

(* a character of the footnote markup: labelled L_foot (the reference "[k]" that render_node
   emits after a link's end affix, the list entries "[k]: " and the relabelled targets),
   other than U+0020 (sub_finalise's nl_to_space makes L_foot spaces; none of them exists
   with footnotes off either, but spaces are outside the generic invariant) *)
Definition pfoot (c : chr) : bool := (lab c =? L_foot) && negb (cp c =? 32).
Definition nofoot (t : text) : Prop := Forall (fun c => pfoot c = false) t.

Lemma pfoot_lab c : lab c <> L_foot -> pfoot c = false.
Proof. intros H. unfold pfoot. apply andb_false_iff. left. lia. Qed.
Lemma pfoot_spacel l : pfoot (spacel l) = false.
Proof. unfold pfoot. apply andb_false_iff. right. reflexivity. Qed.
Lemma pfoot_sup c : is_ascii_digit c = true -> pfoot c = false -> pfoot (sup_char c) = false.
Proof.
  unfold is_ascii_digit, pfoot, sup_char. cbn [lab cp]. intros Hd Hc.
  apply andb_false_iff. left. lia.
Qed.
Lemma pfoot_seg : false = false -> forall s, pfoot (seg_char s) = false.
Proof. intros _ s. destruct s; reflexivity. Qed.
Lemma pfoot_relabel lb t : lb <> L_foot -> cl pfoot (relabel lb t).
Proof.
  intros H. apply cl_Forall, Forall_forall. intros c Hc. unfold relabel in Hc.
  apply in_map_iff in Hc. destruct Hc as (x & <- & _). apply pfoot_lab. exact H.
Qed.
Lemma pfoot_asciil lb l : lb <> L_foot -> cl pfoot (of_asciil lb l).
Proof.
  intros H. apply cl_Forall, Forall_forall. intros c Hc. unfold of_asciil in Hc.
  apply in_map_iff in Hc. destruct Hc as (x & <- & _). apply pfoot_lab. exact H.
Qed.

Lemma foot_render_tree_K d mw o width tree s :
  deco_cl pfoot d -> o_footnotes o = false -> tree_cl pfoot false tree = true ->
  render_tree d mw o width tree = Ok s -> K pfoot false false s.
Proof.
  intros Hd Ho Ht H.
  refine (render_tree_K pfoot false false pfoot_spacel eq_refl pfoot_sup pfoot_seg (fun _ => eq_refl)
            eq_refl _ d mw Hd o width tree s _ Ht H).
  - intros E. discriminate E.
  - split; [intros E; discriminate E|intros _; exact Ho].
Qed.

(* THEOREM B1.  Options with footnotes off, every tree, every decorator that does not itself
   make L_foot characters, every width: the result of render_tree is the rendered body itself
   - sub_finalise answers no line, no list is appended - and no character of the output
   (other than U+0020) is labelled L_foot: no link has emitted a "[k]" reference. *)
Theorem c15_footnotes_off_render_tree : forall d mw o width tree s,
  deco_cl pfoot d -> tree_cl pfoot false tree = true -> o_footnotes o = false ->
  render_tree d mw o width tree = Ok s ->
  (exists st, render_node d mw tree (mkrst [sub_new width o] []) = Ok st /\ stack st = [s] /\
              sub_finalise s (links st) = []) /\
  (forall ls, sub_into_lines s = Ok ls -> nofoot (flat_map rline_string ls)) /\
  (forall t, sub_into_string s = Ok t -> nofoot t).
Proof.
  intros d mw o width tree s Hd Ht Ho H. split; [|split].
  - destruct (render_tree_footnotes d mw o width tree s H) as (st & body & A & B & _ & _ & E & F).
    rewrite Ho in F. subst s. exists st. split; [exact A|]. split; [exact B|].
    unfold sub_finalise. rewrite E, Ho. reflexivity.
  - intros ls Hls. pose proof (foot_render_tree_K d mw o width tree s Hd Ho Ht H) as Hk.
    pose proof (sub_into_lines_K pfoot false false pfoot_spacel s ls Hls Hk) as Hl.
    apply cl_Forall. apply (lines_cl pfoot false); [apply pfoot_seg|exact Hl].
  - intros t Hs. unfold sub_into_string in Hs. bind_inv Hs ls Hls. ok_inv Hs.
    pose proof (foot_render_tree_K d mw o width tree s Hd Ho Ht H) as Hk.
    pose proof (sub_into_lines_K pfoot false false pfoot_spacel s ls Hls Hk) as Hl.
    apply cl_Forall. apply (string_cl pfoot false); [apply pfoot_seg|reflexivity|exact Hl].
Qed.
Print Assumptions c15_footnotes_off_render_tree.

(* ---- the document-character stream does not depend on the footnote option ---- *)
(* RenderConserve.tree_stream (the visible document characters render_node hands to the
   sub-renderer, cells without a width left out) reads two options only: o_raw (vertical
   rows) and o_allow_overflow (width_minus) *)
Section StreamOpts.
  Variable d : deco.
  Variable mw : N.
  Variables o1 o2 : ropts.
  Hypothesis Hraw : o_raw o2 = o_raw o1.
  Hypothesis Hovf : o_allow_overflow o2 = o_allow_overflow o1.

  Lemma wm_eq w a c : width_minus (sub_new w o2) a c = width_minus (sub_new w o1) a c.
  Proof. unfold width_minus. cbn [sub_new swidth_ sopts]. rewrite Hovf. reflexivity. Qed.
  Lemma tv_eq w cs : tbl_vert o2 w cs = tbl_vert o1 w cs.
  Proof. unfold tbl_vert. rewrite Hraw. reflexivity. Qed.
  Lemma tcw_eq w cs : tbl_col_widths o2 w cs = tbl_col_widths o1 w cs.
  Proof. unfold tbl_col_widths. rewrite tv_eq. reflexivity. Qed.

  Definition PE (n : rnode) : Prop := forall w, tree_stream d mw o2 n w = tree_stream d mw o1 n w.

  Lemma kids_eq cs : Forall PE cs -> forall w,
    flat_map (fun c => tree_stream d mw o2 c w) cs = flat_map (fun c => tree_stream d mw o1 c w) cs.
  Proof.
    intros H w. apply flat_map_Forall_eq. eapply Forall_impl; [|exact H]. intros n Hn. apply Hn.
  Qed.

  Lemma on_okT_ext {A} (r : res A) k1 k2 d1 d2 :
    (forall a, k1 a = k2 a) -> d1 = d2 -> on_okT r k1 d1 = on_okT r k2 d2.
  Proof. intros H1 H2. destruct r; cbn [on_okT]; auto. Qed.

  Lemma cells_ts_eq : forall cells wsl,
    Forall (fun c => Forall PE (cell_content c)) cells ->
    cells_ts (tree_stream d mw o2) cells wsl = cells_ts (tree_stream d mw o1) cells wsl.
  Proof.
    induction cells as [|[n content csty] cells IH]; intros wsl HF; [destruct wsl; reflexivity|].
    inversion HF as [|? ? HF1 HF2]; subst. cbn [cell_content] in HF1.
    destruct wsl as [|[cw_|] wsl]; cbn [cells_ts]; [reflexivity| |apply IH, HF2].
    rewrite (kids_eq _ HF1), (IH _ HF2). reflexivity.
  Qed.

  Lemma all_cells_eq w cells : Forall (fun c => Forall PE (cell_content c)) cells ->
    flat_map (fun c => match c with
                       | RCell _ content _ => flat_map (fun c0 => tree_stream d mw o2 c0 w) content
                       end) cells =
    flat_map (fun c => match c with
                       | RCell _ content _ => flat_map (fun c0 => tree_stream d mw o1 c0 w) content
                       end) cells.
  Proof.
    intros HF. apply flat_map_Forall_eq. eapply Forall_impl; [|exact HF].
    intros [n content csty] Hc. cbn [cell_content] in Hc. apply (kids_eq _ Hc).
  Qed.

  Theorem tree_stream_opts : forall n, PE n.
  Proof.
    apply (rnode_ind' PE). intros i sty IH w.
    destruct i; cbn [direct_kids] in IH;
      try (cbn [tree_stream rn_info]; try reflexivity;
           try match goal with |- context [sup_digits ?cs] => destruct (sup_digits cs) end;
           try reflexivity;
           repeat first
             [ rewrite (kids_eq _ IH); reflexivity
             | apply (kids_eq _ IH)
             | rewrite wm_eq
             | match goal with
               | |- on_okT (bind ?r _) _ _ = _ => destruct r; cbn [bind on_okT]
               end
             | apply on_okT_ext; [intro|] ];
           fail).
    (* ITable *)
    apply Forall_flat_map in IH.
    assert (IHr : Forall (fun r => Forall (fun c => Forall PE (cell_content c)) (row_cells r)) rows).
    { eapply Forall_impl; [|exact IH]. intros [cells rsty] Hr. unfold row_kids in Hr.
      apply Forall_flat_map in Hr. exact Hr. }
    assert (Hall :
      flat_map (fun r => match r with
                         | RRow rcells _ =>
                           flat_map (fun c => match c with
                                              | RCell _ content _ =>
                                                flat_map (fun c0 => tree_stream d mw o2 c0 w) content
                                              end) rcells
                         end) rows =
      flat_map (fun r => match r with
                         | RRow rcells _ =>
                           flat_map (fun c => match c with
                                              | RCell _ content _ =>
                                                flat_map (fun c0 => tree_stream d mw o1 c0 w) content
                                              end) rcells
                         end) rows).
    { apply flat_map_Forall_eq. eapply Forall_impl; [|exact IHr].
      intros [cells rsty] Hr. cbn [row_cells] in Hr. apply (all_cells_eq w _ Hr). }
    destruct (tbl_col_sizes d mw rows ncols) as [col_sizes| | |] eqn:E1;
      [destruct (tbl_col_widths o1 w col_sizes) as [col_widths| | |] eqn:E2|..];
      try (cbn [tree_stream rn_info]; rewrite E1; cbn [on_okT]; try rewrite tcw_eq, E2;
           cbn [on_okT]; exact Hall).
    rewrite (ts_table d mw o1 rows ncols sty w _ _ E1 E2).
    rewrite <- tcw_eq in E2. rewrite (ts_table d mw o2 rows ncols sty w _ _ E1 E2), tv_eq.
    apply flat_map_Forall_eq. eapply Forall_impl; [|exact IHr].
    intros [cells rsty] Hr. cbn [row_cells] in Hr. unfold row_ts.
    apply on_okT_ext.
    - intros cws. apply cells_ts_eq, Hr.
    - unfold kids_ts. apply flat_map_Forall_eq. eapply Forall_impl; [|exact Hr].
      intros [n content csty] Hc. cbn [cell_content] in *. apply (kids_eq _ Hc).
  Qed.
End StreamOpts.

(* THEOREM B2.  Two runs on the same tree at the same width whose options agree on raw mode
   and overflow (in particular: footnotes on / footnotes off, everything else equal): the
   visible document characters of the two outputs are the same - exactly, in the same order,
   for trees without tables and in raw mode; as a multiset in general (side-by-side rows, whose
   line breaks the references move, interleave their cells: RenderConserve (C)). *)
Theorem c15_footnotes_same_stream_exact : forall d mw o1 o2 width tree s1 s2 ls1 ls2,
  prefix_made d -> o_raw o2 = o_raw o1 -> o_allow_overflow o2 = o_allow_overflow o1 ->
  no_table tree = true \/ o_raw o1 = true ->
  render_tree d mw o1 width tree = Ok s1 -> render_tree d mw o2 width tree = Ok s2 ->
  sub_into_lines s1 = Ok ls1 -> sub_into_lines s2 = Ok ls2 ->
  filter docp (flat_map rline_string ls1) = filter docp (flat_map rline_string ls2).
Proof.
  intros d mw o1 o2 width tree s1 s2 ls1 ls2 Hd Hraw Hovf [Hn|Hr] H1 H2 Hl1 Hl2.
  - rewrite (proj2 (c03_render_tree_no_table d mw o1 width tree s1 Hd Hn H1) ls1 Hl1).
    rewrite (proj2 (c03_render_tree_no_table d mw o2 width tree s2 Hd Hn H2) ls2 Hl2). reflexivity.
  - rewrite (proj2 (c03_render_tree_raw d mw o1 width tree s1 Hd Hr H1) ls1 Hl1).
    rewrite (proj2 (c03_render_tree_raw d mw o2 width tree s2 Hd (eq_trans Hraw Hr) H2) ls2 Hl2).
    symmetry. apply (tree_stream_opts d mw o1 o2 Hraw Hovf).
Qed.
Print Assumptions c15_footnotes_same_stream_exact.

Theorem c15_footnotes_same_stream : forall d mw o1 o2 width tree s1 s2 ls1 ls2,
  prefix_made d -> o_raw o2 = o_raw o1 -> o_allow_overflow o2 = o_allow_overflow o1 ->
  Forall posw (tree_stream d mw o1 tree width) ->
  render_tree d mw o1 width tree = Ok s1 -> render_tree d mw o2 width tree = Ok s2 ->
  sub_into_lines s1 = Ok ls1 -> sub_into_lines s2 = Ok ls2 ->
  Permutation (filter docp (flat_map rline_string ls1)) (filter docp (flat_map rline_string ls2)).
Proof.
  intros d mw o1 o2 width tree s1 s2 ls1 ls2 Hd Hraw Hovf Hpos H1 H2 Hl1 Hl2.
  pose proof (tree_stream_opts d mw o1 o2 Hraw Hovf tree width) as E.
  eapply Permutation_trans;
    [exact (proj2 (c03_render_tree_perm d mw o1 width tree s1 Hd Hpos H1) ls1 Hl1)|].
  apply Permutation_sym. rewrite <- E in *.
  exact (proj2 (c03_render_tree_perm d mw o2 width tree s2 Hd Hpos H2) ls2 Hl2).
Qed.
Print Assumptions c15_footnotes_same_stream.

(* ---- the public routes ---- *)
Theorem c15_string_from_read_footnotes_off : forall ist dr (c : config) doc width tree t,
  deco_cl pfoot (c_deco c) -> c_footnotes c = false ->
  to_render_tree ist dr c doc = Ok tree -> tree_cl pfoot false tree = true ->
  string_from_read ist dr c doc width = Ok t -> nofoot t.
Proof.
  intros ist dr c doc width tree t Hd Hf Ht Htc H. unfold string_from_read in H. rewrite Ht in H.
  cbn [bind] in H. bind_inv H s Hs. unfold render_with_context in Hs.
  destruct (width =? 0); [discriminate|].
  exact (proj2 (proj2 (c15_footnotes_off_render_tree _ _ (render_options c) _ _ _ Hd Htc Hf Hs)) t H).
Qed.
Print Assumptions c15_string_from_read_footnotes_off.

Theorem c15_lines_from_read_footnotes_off : forall ist dr (c : config) doc width tree tls,
  deco_cl pfoot (c_deco c) -> c_footnotes c = false ->
  to_render_tree ist dr c doc = Ok tree -> tree_cl pfoot false tree = true ->
  lines_from_read ist dr c doc width = Ok tls -> nofoot (flat_map tl_string tls).
Proof.
  intros ist dr c doc width tree tls Hd Hf Ht Htc H. unfold lines_from_read in H. rewrite Ht in H.
  cbn [bind] in H. bind_inv H s Hs. unfold render_with_context in Hs.
  destruct (width =? 0); [discriminate|]. bind_inv H ls Hls. ok_inv H.
  pose proof (foot_render_tree_K _ _ (render_options c) _ _ _ Hd Hf Htc Hs) as Hk.
  pose proof (sub_into_lines_K pfoot false false pfoot_spacel s ls Hls Hk) as Hl.
  apply cl_Forall. apply (tagged_cl pfoot false); [apply pfoot_seg|exact Hl].
Qed.
Print Assumptions c15_lines_from_read_footnotes_off.

(* footnotes on versus off through string_from_read: the same visible document characters *)
Theorem c15_string_from_read_footnotes_stream : forall ist dr (c : config) doc width tree t1 t2,
  prefix_made (c_deco c) -> to_render_tree ist dr c doc = Ok tree ->
  Forall posw (tree_stream (c_deco c) (c_min_wrap c) (render_options c) tree width) ->
  string_from_read ist dr (set_footnotes c true) doc width = Ok t1 ->
  string_from_read ist dr (set_footnotes c false) doc width = Ok t2 ->
  Permutation (filter docp t1) (filter docp t2) /\
  (no_table tree = true \/ c_raw c = true -> filter docp t1 = filter docp t2).
Proof.
  intros ist dr c doc width tree t1 t2 Hd Ht Hpos H1 H2.
  unfold string_from_read in H1, H2.
  change (to_render_tree ist dr (set_footnotes c true) doc) with (to_render_tree ist dr c doc) in H1.
  change (to_render_tree ist dr (set_footnotes c false) doc) with (to_render_tree ist dr c doc) in H2.
  rewrite Ht in H1, H2. cbn [bind] in H1, H2. bind_inv H1 s1 Hs1. bind_inv H2 s2 Hs2.
  unfold render_with_context in Hs1, Hs2. destruct (width =? 0); [discriminate|].
  unfold sub_into_string in H1, H2. bind_inv H1 ls1 Hl1. bind_inv H2 ls2 Hl2. ok_inv H1. ok_inv H2.
  rewrite !filter_docp_lines.
  cbn [set_footnotes c_deco c_min_wrap] in Hs1, Hs2.
  assert (E : tree_stream (c_deco c) (c_min_wrap c) (render_options (set_footnotes c true)) tree width
              = tree_stream (c_deco c) (c_min_wrap c) (render_options c) tree width).
  { apply tree_stream_opts; reflexivity. }
  split.
  - refine (c15_footnotes_same_stream _ _ (render_options (set_footnotes c true))
              (render_options (set_footnotes c false)) _ _ _ _ _ _ Hd _ _ _ Hs1 Hs2 Hl1 Hl2);
      [reflexivity|reflexivity|]. rewrite E. exact Hpos.
  - intros Hc.
    refine (c15_footnotes_same_stream_exact _ _ (render_options (set_footnotes c true))
              (render_options (set_footnotes c false)) _ _ _ _ _ _ Hd _ _ Hc Hs1 Hs2 Hl1 Hl2);
      reflexivity.
Qed.
Print Assumptions c15_string_from_read_footnotes_stream.

(* ---- the decorators of the model make no L_foot character ---- *)
Theorem deco_cl_foot_plain : deco_cl pfoot plain_deco.
Proof.
  split; intros; cbn [plain_deco d_link_start d_link_end d_em_start d_em_end d_strong_start
    d_strong_end d_strike_start d_strike_end d_code_start d_code_end d_sup_start d_sup_end
    d_image d_header_prefix d_quote_prefix d_ul_prefix d_ol_prefix fst];
    try reflexivity; try (apply pfoot_asciil; discriminate).
  - apply cl_app_i; [reflexivity|]. apply cl_app_i; [assumption|reflexivity].
  - unfold hashes. apply cl_app_i; [apply cl_repeat; reflexivity|reflexivity].
Qed.
Theorem deco_cl_foot_rich : deco_cl pfoot rich_deco.
Proof.
  split; intros; cbn [rich_deco d_link_start d_link_end d_em_start d_em_end d_strong_start
    d_strong_end d_strike_start d_strike_end d_code_start d_code_end d_sup_start d_sup_end
    d_image d_header_prefix d_quote_prefix d_ul_prefix d_ol_prefix fst];
    try reflexivity; try (apply pfoot_asciil; discriminate); try assumption.
  unfold hashes. apply cl_app_i; [apply cl_repeat; reflexivity|reflexivity].
Qed.
Theorem deco_cl_foot_trivial : deco_cl pfoot trivial_deco.
Proof.
  split; intros; cbn [trivial_deco d_link_start d_link_end d_em_start d_em_end d_strong_start
    d_strong_end d_strike_start d_strike_end d_code_start d_code_end d_sup_start d_sup_end
    d_image d_header_prefix d_quote_prefix d_ul_prefix d_ol_prefix fst];
    try reflexivity; try assumption.
Qed.
Theorem deco_cl_foot_custom lks lke ems eme sts ste sks ske cds cde ims ime hdr qt ul olsuf :
  deco_cl pfoot (custom_deco lks lke ems eme sts ste sks ske cds cde ims ime hdr qt ul olsuf).
Proof.
  split; intros;
    cbn [custom_deco d_header_prefix d_quote_prefix d_ul_prefix d_ol_prefix d_link_start d_link_end
         d_em_start d_em_end d_strong_start d_strong_end d_strike_start d_strike_end d_code_start
         d_code_end d_sup_start d_sup_end d_image fst];
    try (apply pfoot_relabel; discriminate); try reflexivity.
  - apply cl_app_i; [apply pfoot_relabel; discriminate|].
    apply cl_app_i; [assumption|apply pfoot_relabel; discriminate].
  - apply cl_app_i; [|reflexivity]. apply cl_flat_repeat, pfoot_relabel. discriminate.
  - apply cl_app_i; [apply pfoot_asciil; discriminate|apply pfoot_relabel; discriminate].
Qed.
Print Assumptions deco_cl_foot_custom.

(* ---- non-vacuity: two links in a paragraph, one in a table cell; width 12 ---- *)
Definition ft_on : ropts := render_options (set_footnotes cfg_plain true).
Definition ft_off : ropts := render_options (set_footnotes cfg_plain false).
Definition ft_tree : rnode :=
  ex_n (IContainer [
    ex_n (IBlock [cx_t 16 [97;97;32]; cx_n (ILink (Al 200 [117]) [cx_t 20 [98;98]]);
                  cx_t 30 [32;99;99;32]; cx_n (ILink (Al 210 [118]) [cx_t 40 [100;100]])]);
    bx_tb [[RCell 1 [cx_n (ILink (Al 220 [119]) [cx_t 50 [101]])] cstyle0; cx_cell 60 [102]]] 2]).

(* on:  aa [bb][1] / cc [dd][2] / table with [e][3] / [1]: u / [2]: v / [3]: w
   off: aa [bb] cc / [dd] / table with [e]: the references and the list are gone, and - the
   references take space - the paragraph is wrapped differently (no "equal after deleting the
   references" relation between the two layouts) *)
Example ft_outputs :
  fn_out (render_tree plain_deco 3 ft_on 12 ft_tree) =
  Ok [[97; 97; 32; 91; 98; 98; 93; 91; 49; 93]; [99; 99; 32; 91; 100; 100; 93; 91; 50; 93]; [];
      [9472; 9472; 9472; 9472; 9472; 9472; 9516; 9472]; [91; 101; 93; 91; 51; 93; 9474; 102];
      [9472; 9472; 9472; 9472; 9472; 9472; 9524; 9472]; [];
      [91; 49; 93; 58; 32; 117]; [91; 50; 93; 58; 32; 118]; [91; 51; 93; 58; 32; 119]] /\
  fn_out (render_tree plain_deco 3 ft_off 12 ft_tree) =
  Ok [[97; 97; 32; 91; 98; 98; 93; 32; 99; 99]; [91; 100; 100; 93]; [];
      [9472; 9472; 9472; 9472; 9472; 9472; 9516; 9472]; [91; 101; 93; 32; 32; 32; 9474; 102];
      [9472; 9472; 9472; 9472; 9472; 9472; 9524; 9472]].
Proof. split; vm_compute; reflexivity. Qed.

Example ft_hyps :
  tree_cl pfoot false ft_tree = true /\ o_footnotes ft_off = false /\
  (exists s, render_tree plain_deco 3 ft_off 12 ft_tree = Ok s) /\
  (exists s, render_tree plain_deco 3 ft_on 12 ft_tree = Ok s) /\
  forallb (fun c => 0 <? cw0 c) (tree_stream plain_deco 3 ft_on ft_tree 12) = true.
Proof. repeat split; try reflexivity; try (eexists; vm_compute; reflexivity). Qed.

Example ft_theorem_off : forall s ls,
  render_tree plain_deco 3 ft_off 12 ft_tree = Ok s -> sub_into_lines s = Ok ls ->
  nofoot (flat_map rline_string ls).
Proof.
  intros s ls H Hls.
  exact (proj1 (proj2 (c15_footnotes_off_render_tree plain_deco 3 ft_off 12 ft_tree s
                         deco_cl_foot_plain eq_refl eq_refl H)) ls Hls).
Qed.
(* with footnotes ON the same output does contain L_foot characters: the statement is not
   vacuous *)
Example ft_on_has_foot :
  (do s <- render_tree plain_deco 3 ft_on 12 ft_tree; do ls <- sub_into_lines s;
   Ok (length (filter pfoot (flat_map rline_string ls)))) = Ok 24%nat.
Proof. vm_compute. reflexivity. Qed.

Example ft_theorem_stream : forall s1 s2 ls1 ls2,
  render_tree plain_deco 3 ft_on 12 ft_tree = Ok s1 -> render_tree plain_deco 3 ft_off 12 ft_tree = Ok s2 ->
  sub_into_lines s1 = Ok ls1 -> sub_into_lines s2 = Ok ls2 ->
  Permutation (filter docp (flat_map rline_string ls1)) (filter docp (flat_map rline_string ls2)).
Proof.
  intros s1 s2 ls1 ls2 H1 H2 Hl1 Hl2.
  refine (c15_footnotes_same_stream plain_deco 3 ft_on ft_off 12 ft_tree s1 s2 ls1 ls2
            prefix_made_plain eq_refl eq_refl _ H1 H2 Hl1 Hl2).
  apply posw_forallb. vm_compute. reflexivity.
Qed.
Example ft_streams :
  cx_labs (render_tree plain_deco 3 ft_on 12 ft_tree) =
    Ok [(97, 16); (97, 17); (98, 20); (98, 21); (99, 31); (99, 32); (100, 40); (100, 41); (101, 50); (102, 60)] /\
  cx_labs (render_tree plain_deco 3 ft_off 12 ft_tree) = cx_labs (render_tree plain_deco 3 ft_on 12 ft_tree).
Proof. split; vm_compute; reflexivity. Qed.

Print Assumptions node_SI_all.
Print Assumptions render_tree_K.
Print Assumptions tree_stream_opts.
Print Assumptions deco_cl_box_plain.
Print Assumptions deco_cl_box_rich.
Print Assumptions deco_cl_box_trivial.
Print Assumptions deco_cl_foot_plain.
Print Assumptions deco_cl_foot_rich.
Print Assumptions deco_cl_foot_trivial.
Print Assumptions c15_string_from_read_set_no_borders.
Print Assumptions c15_lines_from_read_raw.
Print Assumptions bx_theorem.
Print Assumptions bx_route_theorem.
Print Assumptions ft_theorem_off.
Print Assumptions ft_theorem_stream.
Print Assumptions raw_option_alone_keeps_borders.

(* ---- the same route theorems with the side condition stated on the document (decidable:
   everything is computable), as in RenderWidth.c02_doc_side ---- *)
Section DocSide.
  Variable ist : list (text * text) -> res (list styledecl).
  Variable dr : list node -> res (list ruleset).

  Definition c15_box_doc_side (c : config) (doc : list node) : bool :=
    match to_render_tree ist dr c doc with
    | Ok tree => tree_cl boxp (c_footnotes c) tree
    | _ => true
    end.
  Definition c15_foot_doc_side (c : config) (doc : list node) : bool :=
    match to_render_tree ist dr c doc with
    | Ok tree => tree_cl pfoot false tree
    | _ => true
    end.

  Theorem c15_raw_or_no_borders_string : forall (c : config) doc width t,
    deco_cl boxp (c_deco c) -> c_borders c = false -> c15_box_doc_side c doc = true ->
    string_from_read ist dr c doc width = Ok t -> nobox t.
  Proof.
    intros c doc width t Hd Hb Hside H. pose proof H as H0. unfold string_from_read in H0.
    bind_inv H0 tree Ht. unfold c15_box_doc_side in Hside. rewrite Ht in Hside.
    exact (c15_string_from_read_no_borders ist dr c doc width tree t Hd Hb Ht Hside H).
  Qed.

  Theorem c15_raw_or_no_borders_lines : forall (c : config) doc width tls,
    deco_cl boxp (c_deco c) -> c_borders c = false -> c15_box_doc_side c doc = true ->
    lines_from_read ist dr c doc width = Ok tls -> nobox (flat_map tl_string tls).
  Proof.
    intros c doc width tls Hd Hb Hside H. pose proof H as H0. unfold lines_from_read in H0.
    bind_inv H0 tree Ht. unfold c15_box_doc_side in Hside. rewrite Ht in Hside.
    exact (c15_lines_from_read_no_borders ist dr c doc width tree tls Hd Hb Ht Hside H).
  Qed.

  Theorem c15_footnotes_off_string : forall (c : config) doc width t,
    deco_cl pfoot (c_deco c) -> c_footnotes c = false -> c15_foot_doc_side c doc = true ->
    string_from_read ist dr c doc width = Ok t -> nofoot t.
  Proof.
    intros c doc width t Hd Hf Hside H. pose proof H as H0. unfold string_from_read in H0.
    bind_inv H0 tree Ht. unfold c15_foot_doc_side in Hside. rewrite Ht in Hside.
    exact (c15_string_from_read_footnotes_off ist dr c doc width tree t Hd Hf Ht Hside H).
  Qed.

  Theorem c15_footnotes_off_lines : forall (c : config) doc width tls,
    deco_cl pfoot (c_deco c) -> c_footnotes c = false -> c15_foot_doc_side c doc = true ->
    lines_from_read ist dr c doc width = Ok tls -> nofoot (flat_map tl_string tls).
  Proof.
    intros c doc width tls Hd Hf Hside H. pose proof H as H0. unfold lines_from_read in H0.
    bind_inv H0 tree Ht. unfold c15_foot_doc_side in Hside. rewrite Ht in Hside.
    exact (c15_lines_from_read_footnotes_off ist dr c doc width tree tls Hd Hf Ht Hside H).
  Qed.
End DocSide.
Print Assumptions c15_raw_or_no_borders_string.
Print Assumptions c15_raw_or_no_borders_lines.
Print Assumptions c15_footnotes_off_string.
Print Assumptions c15_footnotes_off_lines.

Example bx_doc_side :
  c15_box_doc_side cx_ist cx_dr (set_raw cfg_plain true) bx_dom = true /\
  c15_foot_doc_side cx_ist cx_dr (set_footnotes cfg_plain false) bx_dom = true /\
  c_borders (set_raw cfg_plain true) = false /\
  (exists t, string_from_read cx_ist cx_dr (set_raw cfg_plain true) bx_dom 20 = Ok t).
Proof. repeat split; try reflexivity. eexists. vm_compute. reflexivity. Qed.

(* ================================================================== *)
(* SUMMARY                                                              *)
(* ==================================================================

   HOW THE MODEL DOES IT (Render.v / Sub.v)
     o_raw      : render_node (ITable): vert_row := o_raw || width < min_size || width = 0; a
                  vertical row stacks its cells with Sub.append_vert_row, otherwise they are laid
                  side by side with Sub.append_columns_with_borders (collapse = true).
     o_borders  : guards EVERY place a border is made: the table's top rule
                  (add_horizontal_border_width), in append_columns_with_borders the column
                  separator (vbar U+2502 if on, a space labelled L_border if off) and the rule
                  under the row (RLine), in append_vert_row the '/' rule between stacked cells
                  (border_new_type StraightVert) and the rule under the row.  Joins (U+252C,
                  U+2534, U+253C) and the vertical bars of collapsed nested borders only come
                  from existing RLine lines.  There is no <hr> (ignored by the DOM step, in the
                  implementation too) and headings draw no rule.
     raw => no borders is NOT a property of the renderer options but of the configuration
                  builder: Api.set_raw (lib.rs raw_mode: "Implies no_table_borders()") sets
                  c_borders := false (for raw = true and for raw = false).
     o_footnotes: render_node (ILink) emits ftext "[k]" after the link's end affix only if on;
                  Sub.sub_finalise answers the list "[k]: target" (L_foot) only if on.  The link
                  target is pushed on `links` and the estimate of a link adds 5 columns whether
                  footnotes are on or not.

   VOCABULARY
     is_box c   := 9472 <= cp c <= 9599        the Unicode block Box Drawing, U+2500..U+257F; the
                  borders use U+2500 U+2502 U+252C U+2534 U+253C (border_chars_are_box), and
                  '/' for the rule between stacked cells
     boxp c     := lab c < 16 && is_box c       a RENDERER-MADE box-drawing character
     nobox t    := every c of t: lab c < 16 -> is_box c = false
     pfoot c    := lab c = L_foot && cp c <> 32 a character of the footnote markup
     nofoot t   := every c of t: pfoot c = false
     deco_cl p d:= no string the decorator d makes contains a character of class p (link start
                  and image: provided the target / source / alt text do not).
                  deco_cl_box_plain/_rich/_trivial, deco_cl_box_custom (custom strings without
                  box-drawing characters), deco_cl_foot_plain/_rich/_trivial/_custom.
     tree_cl p fn tree : bool := no text leaf, image source / alt text, link target of the render
                  tree contains a character of class p, and if fn (footnotes on) no link target
                  does after relabelling to L_foot (the footnote list shows the targets with
                  that label).  For p = boxp: document characters are labelled >= 16, so this
                  only excludes (1) box-drawing characters in CSS `content:` strings (the DOM
                  step relabels them L_deco: they are "renderer-made" by label, but supplied by
                  the style author like the decorator's strings) and (2) with footnotes on,
                  box-drawing characters inside link targets.  Computable on the document:
                  c15_box_doc_side / c15_foot_doc_side.
     K p nb fn s: the invariant of a sub-renderer (Section Gen): every finished line is a text
                  line free of p - or a border line, allowed only if nb = false -, the pending
                  fragments and the open wrapping block are free of p, nb = true -> borders off,
                  fn = false -> footnotes off.  opK: kept by every SubRenderer operation;
                  node_SI_all: render_node keeps it for every sub-renderer on the stack (one
                  induction over rnode_ind', all node kinds, nested tables, both table layouts);
                  render_tree_K: render_tree, including the footnote list.

   MAIN THEOREMS (partial correctness, Ok outcome; every tree, every width, all other options;
   all "Closed under the global context")

   GOAL A
     c15_no_borders_render_tree :
       deco_cl boxp d -> tree_cl boxp (o_footnotes o) tree = true -> o_borders o = false ->
       render_tree d mw o width tree = Ok s -> sub_into_lines s = Ok ls ->
       Forall (fun l => exists tl, l = RText tl) ls /\ nobox (flat_map rline_string ls)
     c15_no_borders_into_string : ... sub_into_string s = Ok t -> nobox t
     c15_string_from_read_no_borders / c15_lines_from_read_no_borders (Api routes):
       deco_cl boxp (c_deco c) -> c_borders c = false -> to_render_tree ist dr c doc = Ok tree ->
       tree_cl boxp (c_footnotes c) tree = true -> string_from_read ist dr c doc width = Ok t ->
       nobox t                          (lines: nobox (flat_map tl_string tls))
     c15_string_from_read_raw / c15_lines_from_read_raw : the same for c = set_raw c0 raw (ANY
       raw), c15_string_from_read_set_no_borders : for c = set_no_borders c0.
     c15_raw_or_no_borders_string / _lines : the same with the side condition on the document.
     So: with borders off - hence in raw mode - no border line survives and no renderer-made
     character of any output line is a box-drawing character: nested tables, the stacked
     fallback of tables that do not fit, tables in lists / quotes / headings included.
     No counterexample exists (bx_* examples: nested table, fallback at width 8, raw mode).

   GOAL B
     c15_footnotes_off_render_tree :
       deco_cl pfoot d -> tree_cl pfoot false tree = true -> o_footnotes o = false ->
       render_tree d mw o width tree = Ok s ->
       (exists st, render_node d mw tree (mkrst [sub_new width o] []) = Ok st /\ stack st = [s] /\
                   sub_finalise s (links st) = []) /\
       (forall ls, sub_into_lines s = Ok ls -> nofoot (flat_map rline_string ls)) /\
       (forall t, sub_into_string s = Ok t -> nofoot t)
       (the result is the body: no list is appended; no "[k]" reference was emitted)
     c15_string_from_read_footnotes_off / c15_lines_from_read_footnotes_off,
     c15_footnotes_off_string / _lines (side condition on the document): the Api routes.
     tree_stream_opts : o_raw o2 = o_raw o1 -> o_allow_overflow o2 = o_allow_overflow o1 ->
       tree_stream d mw o2 n w = tree_stream d mw o1 n w
     c15_footnotes_same_stream_exact : prefix_made d -> (the two equalities) ->
       no_table tree = true \/ o_raw o1 = true -> the two runs (same tree, same width) give
       filter docp (flat_map rline_string ls1) = filter docp (flat_map rline_string ls2)
     c15_footnotes_same_stream : ... Forall posw (tree_stream d mw o1 tree width) ->
       Permutation (filter docp ...ls1) (filter docp ...ls2)            (trees with tables)
     c15_string_from_read_footnotes_stream : set_footnotes c true versus set_footnotes c false
       through string_from_read.
     Not attempted (as instructed): a layout relation "equal after deleting the references" -
     it does not hold (ft_outputs: the references take space, lines break elsewhere).

   HYPOTHESES and why
     deco_cl / tree_cl: a decorator string, a CSS content string or (footnotes on) a link target
       with a box-drawing character is copied to the output with a label < 16; a decorator
       that itself makes L_foot characters would defeat B.  Both are conditions on inputs.
     o_borders o = false (A): needed, also in raw mode: see the observation below.
     prefix_made, posw (B2): inherited from RenderConserve (zero_width_row_dropped).
     pfoot excludes U+0020: the generic invariant is about classes that contain no space
       (Conserve's stream lemmas need p (spacel l) = false for every label); L_foot spaces are
       made by nl_to_space in the footnote list only.

   OBSERVATIONS (no defect reachable through the public API)
     raw_option_alone_keeps_borders: at the level of the renderer options o_raw = true with
       o_borders = true still draws the U+2500 rules and '/' rules of stacked rows; only the
       builder (raw_mode) couples the two.  A future public method that re-enables borders
       after raw_mode would break "raw mode removes every box-drawing character".
     set_raw c false also turns the borders off (mirrors lib.rs; raw_mode(false) is not the
       identity) - bx_route_outputs.
     With footnotes off a link still adds 5 columns to the size estimate (lib.rs get_size_estimate,
       mirrored in Render.est_node), so table columns holding links stay wider than their
       content (ft_outputs: "[e]   |f").
   NOT PROVED
     nothing about the DOM -> render tree step (the route theorems take the tree condition, or
     its computable form on the document); no relation between the LAYOUTS of the two runs. *)
