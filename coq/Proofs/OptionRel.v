(* OptionRel.v -- the two boolean options of the WrappedBlock model (Wrap.v),
   allow_overflow (C11) and pad_blocks (C15), proved by ONE lock-step
   simulation between two runs of the same calls that differ only in those
   two options.  No axioms.

   Run 1 has options (pad1, ovf1), run 2 has (pad2, ovf2) with ovf1 -> ovf2.
   The two block states agree on every field except the finished lines
   (wtext), which are related line by line by LR; control flow never inspects
   wtext, allow_overflow is read only in hw_scan's TooNarrow branch, and
   pad_blocks only in force_flush_line. *)
From H2T Require Import Base Tagged Wrap Proofs.WrapInv.
From Coq Require Import Lia ZifyN ZifyBool ZifyNat.

Local Arguments N.add : simpl never.
Local Arguments N.sub : simpl never.
Local Arguments N.mul : simpl never.
Local Arguments N.div : simpl never.
Local Arguments N.modulo : simpl never.
Local Arguments N.leb : simpl never.
Local Arguments N.ltb : simpl never.
Local Arguments N.eqb : simpl never.
Local Arguments N.min : simpl never.
Local Arguments N.max : simpl never.
Local Arguments N.to_nat : simpl never.
Local Arguments N.of_nat : simpl never.
Local Open Scope N_scope.

(* ================================================================== *)
Section Sim.

Variables (W : N) (pad1 pad2 ovf1 ovf2 esc : bool) (LR : tline -> tline -> Prop).

(* Outcome relation: r1 is the outcome of run 1, r2 of run 2.
   - run 1 Ok            => run 2 Ok with a related value
                            (or, only if esc, run 2 hit the width debug_assert, Panic 40)
   - run 1 TooNarrow     => if run 2 has no overflow allowance either, run 2 is TooNarrow too
   - run 1 Panic/OutOfFuel: no claim (excluded separately by WrapInv.run_total). *)
Definition simr {A B} (Q : A -> B -> Prop) (r2 : res A) (r1 : res B) : Prop :=
  match r1 with
  | Ok b => (exists a, r2 = Ok a /\ Q a b) \/ (esc = true /\ r2 = Panic 40)
  | TooNarrow => ovf2 = false -> r2 = TooNarrow \/ (esc = true /\ r2 = Panic 40)
  | Panic _ => True
  | OutOfFuel => True
  end.

Lemma simr_ok {A B} (Q : A -> B -> Prop) a b : Q a b -> simr Q (Ok a) (Ok b).
Proof. intros H. left. exists a. auto. Qed.

Lemma simr_same {A} (r : res A) : simr eq r r.
Proof. destruct r; cbn [simr]; eauto. Qed.

Lemma simr_bind {A B A' B'} (Q : A -> B -> Prop) (Q' : A' -> B' -> Prop) r2 r1 k2 k1 :
  simr Q r2 r1 -> (forall a b, Q a b -> simr Q' (k2 a) (k1 b)) ->
  simr Q' (bind r2 k2) (bind r1 k1).
Proof.
  intros H K. destruct r1 as [b| | |]; cbn [simr bind] in *; auto.
  - destruct H as [(a & -> & HQ)|(He & ->)]; cbn [bind]; [apply K, HQ|].
    destruct (k1 b); cbn [simr]; auto.
  - intros Ho. destruct (H Ho) as [->|(He & ->)]; cbn [bind]; auto.
Qed.

Hypothesis Hovf : ovf1 = true -> ovf2 = true.
Hypothesis HLR : forall l t,
  simr LR (if pad2 then tl_pad_to l W t else Ok l) (if pad1 then tl_pad_to l W t else Ok l).

(* the state of run 2 that corresponds to state b of run 1, with finished lines tp *)
Definition mk2 (b : wblock) (tp : list tline) : wblock :=
  mkwb (wwidth b) tp (wline b) (spacetag b) (wword b) (wordlen b) (wslen b) (pre_wrapped b)
       pad2 ovf2.

Definition RR (b : wblock) (tp : list tline) : Prop :=
  wwidth b = W /\ pad_blocks b = pad1 /\ allow_overflow b = ovf1 /\ Forall2 LR tp (wtext b).

Definition Rel (b2 b1 : wblock) : Prop := exists tp, b2 = mk2 b1 tp /\ RR b1 tp.

Definition Rel2 {X} (p2 p1 : wblock * X) : Prop := Rel (fst p2) (fst p1) /\ snd p2 = snd p1.

Ltac prj2 :=
  cbn [mk2 wwidth wtext wline spacetag wword wordlen wslen pre_wrapped pad_blocks allow_overflow
       set_line set_text_line set_space set_word set_prew fst snd] in *.

(* all the setters except set_text_line commute with mk2 by computation *)
Ltac rel :=
  match goal with
  | HR : RR ?b ?tp |- Rel _ _ => exists tp; split; [reflexivity | exact HR]
  end.
Ltac rel2 := split; [rel | reflexivity].
Ltac triv := try solve [cbn [simr]; auto].

(* ------------------------------------------------------------------ *)
(* force_flush_line: the only reader of pad_blocks *)
Lemma ffl_sim b2 b1 : Rel b2 b1 -> simr Rel (force_flush_line b2) (force_flush_line b1).
Proof.
  intros (tp & -> & HR). pose proof HR as (HW & Hp & Ho & HF).
  unfold force_flush_line. prj2.
  eapply simr_bind with (Q := LR).
  - rewrite Hp, HW. apply HLR.
  - intros l2 l1 Hl. apply simr_ok. exists (tp ++ [l2]). split; [reflexivity|].
    unfold RR. prj2. repeat split; auto. apply Forall2_app; auto.
Qed.

Lemma flush_line_sim b2 b1 : Rel b2 b1 -> simr Rel (flush_line b2) (flush_line b1).
Proof.
  intros (tp & -> & HR). unfold flush_line. prj2. destruct (tl_is_empty (wline b1)).
  - apply simr_ok. rel.
  - apply ffl_sim. rel.
Qed.

(* ------------------------------------------------------------------ *)
(* hw_scan: the only reader of allow_overflow *)
Lemma hw_scan_sim line0 : forall s first tr ll wp,
  simr eq (hw_scan ovf2 line0 first s tr ll wp) (hw_scan ovf1 line0 first s tr ll wp).
Proof.
  induction s as [|c s IH]; intros first tr ll wp; cbn [hw_scan].
  - apply simr_ok; reflexivity.
  - destruct (cw c) as [c_w|]; [|exact I].
    destruct (c_w <=? ll); [apply IH|].
    destruct first; [|apply simr_ok; reflexivity].
    destruct (tl_width line0) as [lw| | |]; cbn [bind]; triv.
    destruct (lw =? 0); [|apply simr_ok; reflexivity].
    destruct (Bool.bool_dec ovf1 true) as [E1|E1].
    + rewrite E1, (Hovf E1). apply simr_ok; reflexivity.
    + apply Bool.not_true_is_false in E1. rewrite E1. cbn [simr]. intros E2. rewrite E2. auto.
Qed.

Lemma hw_piece_sim t w : forall fuel b2 b1 rest consumed lineleft wpos,
  Rel b2 b1 ->
  simr (@Rel2 N) (hw_piece fuel b2 t w rest consumed lineleft wpos)
                 (hw_piece fuel b1 t w rest consumed lineleft wpos).
Proof.
  induction fuel as [|f IH]; intros b2 b1 rest consumed lineleft wpos HR; cbn [hw_piece].
  - exact I.
  - destruct HR as (tp & -> & HR). pose proof HR as (HW & Hp & Ho & HF).
    destruct (usub 8 w wpos) as [rem| | |]; cbn [bind]; triv.
    destruct (lineleft <? rem).
    + eapply simr_bind with (Q := eq).
      { prj2. rewrite Ho. apply hw_scan_sim. }
      intros r2 r1 <-. destruct r2 as [[taken ll] wpos'].
      eapply simr_bind with (Q := Rel).
      { apply ffl_sim. rel. }
      intros b2' b1' (tp' & -> & HR'). prj2. apply IH. rel.
    + destruct (negb consumed).
      * destruct (usub 5 lineleft w); cbn [bind]; triv.
        apply simr_ok. rel2.
      * destruct rest as [|c rest].
        -- apply simr_ok. rel2.
        -- destruct (usub 5 lineleft (w - wpos)); cbn [bind]; triv.
           apply simr_ok. rel2.
Qed.

Lemma hw_elems_sim : forall els b2 b1 ll,
  Rel b2 b1 -> simr Rel (hw_elems b2 els ll) (hw_elems b1 els ll).
Proof.
  induction els as [|e els IH]; intros b2 b1 ll HR; cbn [hw_elems].
  - apply simr_ok, HR.
  - destruct e as [s t|n].
    + eapply simr_bind with (Q := @Rel2 N); [apply hw_piece_sim, HR|].
      intros [b2' x2] [b1' x1] [HR' E]. cbn [fst snd] in *. subst x2. apply IH, HR'.
    + apply IH. destruct HR as (tp & -> & HR). rel.
Qed.

Lemma fwhw_sim b2 b1 :
  Rel b2 b1 -> simr Rel (flush_word_hard_wrap b2) (flush_word_hard_wrap b1).
Proof.
  intros (tp & -> & HR). unfold flush_word_hard_wrap. prj2.
  destruct (usub 3 (wwidth b1) (tlen_ (wline b1))); cbn [bind]; triv.
  apply hw_elems_sim. rel.
Qed.

(* ------------------------------------------------------------------ *)
Lemma ws_loop_sim : forall fuel b2 b1,
  Rel b2 b1 -> simr Rel (ws_loop fuel b2) (ws_loop fuel b1).
Proof.
  induction fuel as [|f IH]; intros b2 b1 (tp & -> & HR); cbn [ws_loop]; prj2;
    (destruct (wslen b1 =? 0); [apply simr_ok; rel|]); [exact I|].
  destruct (wwidth b1 =? 0); [apply simr_ok; rel|].
  destruct (spacetag b1) as [st|]; [|exact I].
  eapply simr_bind with (Q := Rel).
  { destruct (N.min (wslen b1) (wwidth b1) =? wwidth b1);
      [apply flush_line_sim; rel | apply simr_ok; rel]. }
  intros b2' b1' (tp' & -> & HR'). prj2. apply IH. rel.
Qed.

Lemma flush_word_sim m b2 b1 : Rel b2 b1 -> simr Rel (flush_word b2 m) (flush_word b1 m).
Proof.
  intros (tp & -> & HR). unfold flush_word. prj2.
  destruct (word_is_empty (wword b1)); [apply simr_ok; rel|].
  destruct (usub 1 (wwidth b1) (tlen_ (wline b1))) as [sil| | |]; cbn [bind]; triv.
  destruct (wslen b1 + wordlen b1 <=? sil).
  - destruct (0 <? wslen b1).
    + destruct (spacetag b1) as [st|]; cbn [bind]; [|exact I]. prj2. apply simr_ok. rel.
    + cbn [bind]. apply simr_ok. rel.
  - eapply simr_bind with (Q := Rel).
    { destruct (negb (do_wrap m)).
      - destruct (sil <=? wslen b1); [apply simr_ok; rel|].
        destruct (0 <? wslen b1); [|apply simr_ok; rel].
        destruct (spacetag b1); [apply simr_ok; rel|exact I].
      - apply simr_ok; rel. }
    intros b2' b1' HR1.
    eapply simr_bind with (Q := Rel); [apply flush_line_sim, HR1|].
    intros b2'' b1'' (tp2 & -> & HR2).
    eapply simr_bind with (Q := Rel).
    { destruct (is_pre m); prj2; apply ws_loop_sim; rel. }
    intros b4' b4 (tp4 & -> & HR4).
    eapply simr_bind with (Q := Rel).
    { apply fwhw_sim. prj2. rel. }
    intros b6' b6 (tp6 & -> & HR6). apply simr_ok. prj2. rel.
Qed.

(* ------------------------------------------------------------------ *)
Lemma tab_loop_sim : forall fuel b2 b1 t tw pos one fl,
  Rel b2 b1 ->
  simr (@Rel2 bool) (tab_loop fuel b2 t tw pos one fl) (tab_loop fuel b1 t tw pos one fl).
Proof.
  induction fuel as [|f IH]; intros b2 b1 t tw pos one fl (tp & -> & HR); cbn [tab_loop]; prj2;
    (destruct (negb (pos mod 8 =? 0) || negb one); [|apply simr_ok; rel2]); [exact I|].
  destruct (wwidth b1 =? 0); [apply simr_ok; rel2|].
  destruct (wwidth b1 <=? pos).
  - eapply simr_bind with (Q := Rel); [apply flush_line_sim; rel|].
    intros b2' b1' HR'. apply IH, HR'.
  - apply IH. rel.
Qed.

Lemma add_char_sim m t1 t2 b2 b1 u c :
  Rel b2 b1 ->
  simr (@Rel2 bool) (add_char m t1 t2 (b2, u) c) (add_char m t1 t2 (b1, u) c).
Proof.
  intros (tp & -> & HR). unfold add_char.
  eapply simr_bind with (Q := Rel).
  { prj2. destruct (ws c && (0 <? wordlen b1)); [apply flush_word_sim; rel|apply simr_ok; rel]. }
  clear tp HR b1. intros b2 b1 (tp & -> & HR). cbv zeta. prj2.
  destruct (ws c).
  - destruct (preserve_ws m).
    + destruct (cp c =? 10).
      * eapply simr_bind with (Q := Rel); [apply ffl_sim; rel|].
        intros b2' b1' (tp' & -> & HR'). apply simr_ok. prj2. rel2.
      * destruct (cp c =? 9).
        -- eapply simr_bind with (Q := @Rel2 bool); [apply tab_loop_sim; rel|].
           intros [b2' f2] [b1' f1] [(tp' & E & HR') Ef]. cbn [fst snd] in *. subst b2' f2.
           destruct (is_pre m && f1); apply simr_ok; prj2; rel2.
        -- destruct (cw c) as [cwidth|]; [|apply simr_ok; rel2].
           destruct (wwidth b1 <? tlen_ (wline b1) + wslen b1 + cwidth).
           ++ eapply simr_bind with (Q := Rel); [apply flush_line_sim; rel|].
              intros b2' b1' (tp' & -> & HR').
              destruct (do_wrap m); apply simr_ok; prj2; rel2.
           ++ apply simr_ok; rel2.
    + destruct ((0 <? tlen_ (wline b1)) && (wslen b1 =? 0)); apply simr_ok; rel2.
  - destruct (cw c) as [cwidth|]; [|apply simr_ok; rel2].
    destruct (is_pre m && (wwidth b1 <? tlen_ (wline b1) + wslen b1 + (wordlen b1 + cwidth)));
      apply simr_ok; prj2; rel2.
Qed.

Lemma add_chars_sim m t1 t2 : forall s b2 b1 u,
  Rel b2 b1 ->
  simr (@Rel2 bool) (add_chars m t1 t2 (b2, u) s) (add_chars m t1 t2 (b1, u) s).
Proof.
  induction s as [|c s IH]; intros b2 b1 u HR; cbn [add_chars].
  - apply simr_ok. split; [exact HR|reflexivity].
  - eapply simr_bind with (Q := @Rel2 bool); [apply add_char_sim, HR|].
    intros [b2' u2] [b1' u1] [HR' E]. cbn [fst snd] in *. subst u2. apply IH, HR'.
Qed.

Lemma wb_add_text_sim b2 b1 s m t1 t2 :
  Rel b2 b1 -> simr Rel (wb_add_text b2 s m t1 t2) (wb_add_text b1 s m t1 t2).
Proof.
  intros HR. unfold wb_add_text.
  eapply simr_bind with (Q := @Rel2 bool).
  - destruct HR as (tp & -> & HR). prj2. apply add_chars_sim. rel.
  - intros p2 p1 [HR' _]. apply simr_ok, HR'.
Qed.

Lemma wb_add_frag_sim b2 b1 n :
  Rel b2 b1 -> Rel (wb_add_element b2 (Frag n)) (wb_add_element b1 (Frag n)).
Proof. intros (tp & -> & HR). cbn [wb_add_element]. rel. Qed.

Lemma take_trailing_fragments_sim b2 b1 :
  Rel b2 b1 ->
  Rel (fst (take_trailing_fragments b2)) (fst (take_trailing_fragments b1)) /\
  snd (take_trailing_fragments b2) = snd (take_trailing_fragments b1).
Proof.
  intros (tp & -> & HR). rewrite !ttf_eq. prj2.
  split; try reflexivity; rel.
Qed.

Lemma do_call_sim b2 b1 c : Rel b2 b1 -> simr Rel (do_call b2 c) (do_call b1 c).
Proof.
  intros HR. destruct c; cbn [do_call].
  - apply wb_add_text_sim, HR.
  - apply simr_ok, wb_add_frag_sim, HR.
  - apply simr_ok, take_trailing_fragments_sim, HR.
Qed.

Lemma run_calls_sim : forall cs b2 b1,
  Rel b2 b1 -> simr Rel (run_calls b2 cs) (run_calls b1 cs).
Proof.
  induction cs as [|c cs IH]; intros b2 b1 HR; cbn [run_calls].
  - apply simr_ok, HR.
  - eapply simr_bind with (Q := Rel); [apply do_call_sim, HR|]. exact (IH).
Qed.

Lemma wb_into_lines_sim b2 b1 :
  Rel b2 b1 -> simr (Forall2 LR) (wb_into_lines b2) (wb_into_lines b1).
Proof.
  intros HR. unfold wb_into_lines, wb_flush.
  eapply simr_bind with (Q := Rel).
  - eapply simr_bind with (Q := Rel); [apply flush_word_sim, HR|].
    intros b2' b1' HR'. apply flush_line_sim, HR'.
  - intros b2' b1' (tp & -> & HR'). apply simr_ok. prj2. apply HR'.
Qed.

(* the same for wb_into_lines_markers: the leftover markers of the two runs are EQUAL (the
   unfinished line is not touched by the two options) *)
Lemma wb_into_lines_markers_sim b2 b1 :
  Rel b2 b1 ->
  simr (fun lm2 lm1 => Forall2 LR (fst lm2) (fst lm1) /\ snd lm2 = snd lm1)
       (wb_into_lines_markers b2) (wb_into_lines_markers b1).
Proof.
  intros HR. unfold wb_into_lines_markers, wb_flush.
  eapply simr_bind with (Q := Rel).
  - eapply simr_bind with (Q := Rel); [apply flush_word_sim, HR|].
    intros b2' b1' HR'. apply flush_line_sim, HR'.
  - intros b2' b1' (tp & -> & HR'). apply simr_ok. prj2. split; [apply HR'|reflexivity].
Qed.

Lemma wb_new_Rel : Rel (wb_new W pad2 ovf2) (wb_new W pad1 ovf1).
Proof.
  exists []. split; [reflexivity|]. unfold RR, wb_new. prj2. repeat split. constructor.
Qed.

Theorem run_sim cs : simr (Forall2 LR) (run W pad2 ovf2 cs) (run W pad1 ovf1 cs).
Proof.
  unfold run. eapply simr_bind with (Q := Rel).
  - apply run_calls_sim, wb_new_Rel.
  - intros b2 b1 HR. apply wb_into_lines_sim, HR.
Qed.

End Sim.

(* ================================================================== *)
(* C11: allow_overflow                                                  *)
(* ================================================================== *)

Lemma Forall2_eq {A} (a b : list A) : Forall2 eq a b -> a = b.
Proof. induction 1; congruence. Qed.

(* the overflow flag is consulted only on the path that returns TooNarrow: if a
   run succeeds without it, it gives exactly the same lines with it.
   (Holds for every width, including 0, and every padding mode.) *)
Theorem c11_overflow_noop : forall W pad cs ls,
  run W pad false cs = Ok ls -> run W pad true cs = Ok ls.
Proof.
  intros W pad cs ls H.
  pose proof (run_sim W pad pad false true false eq (fun _ => eq_refl)
                (fun l t => simr_same true false _) cs) as S.
  rewrite H in S. cbn [simr] in S.
  destruct S as [(a & E & HF)|(F & _)]; [|discriminate].
  apply Forall2_eq in HF. congruence.
Qed.

(* with the flag set a run never fails (restated from WrapInv.run_never_panics) *)
Theorem c11_overflow_never_too_narrow : forall W pad cs,
  1 <= W -> exists ls, run W pad true cs = Ok ls.
Proof.
  intros W pad cs HW. pose proof (run_total W pad true cs HW) as H.
  destruct (run W pad true cs) as [ls| | |]; [eauto|discriminate|contradiction|contradiction].
Qed.

(* the two together: the flag changes the outcome only by turning TooNarrow into Ok *)
Corollary c11_overflow_only_rescues : forall W pad cs,
  1 <= W ->
  run W pad true cs = run W pad false cs \/
  (run W pad false cs = TooNarrow /\ exists ls, run W pad true cs = Ok ls).
Proof.
  intros W pad cs HW. pose proof (run_total W pad false cs HW) as H.
  destruct (run W pad false cs) as [ls| | |] eqn:E; try contradiction.
  - left. apply c11_overflow_noop, E.
  - right. split; [reflexivity|]. apply c11_overflow_never_too_narrow, HW.
Qed.

(* ================================================================== *)
(* C15: pad_blocks                                                      *)
(* ================================================================== *)

Lemma string_push_merge v s t :
  flat_map elem_text (v_push_merge v s t) = flat_map elem_text v ++ s.
Proof.
  induction v as [|e v IH].
  - cbn [v_push_merge flat_map elem_text app]. apply app_nil_r.
  - destruct v as [|e' v].
    + cbn [v_push_merge]. destruct e as [s0 t0|n].
      * destruct (tag_eqb t0 t); cbn [flat_map elem_text app]; rewrite ?app_nil_r; reflexivity.
      * cbn [flat_map elem_text app]. rewrite ?app_nil_r; reflexivity.
    + rewrite v_push_merge_cons2. cbn [flat_map] in *. rewrite IH. apply app_assoc.
Qed.

Lemma string_push_str l s t : tl_string (tl_push_str l s t) = tl_string l ++ s.
Proof.
  destruct s as [|c s]; cbn [tl_push_str].
  - symmetry. apply app_nil_r.
  - unfold tl_string. cbn [tv]. apply string_push_merge.
Qed.

(* the padded line is exactly what TaggedLine::pad_to makes of the unpadded one *)
Definition is_pad_exact (W : N) (lp l : tline) : Prop := exists t, tl_pad_to l W t = Ok lp.

(* the requested shape: same text plus n made (label L_pad) spaces; exactly W wide when l fits *)
Definition is_pad_of (W : N) (lp l : tline) : Prop :=
  exists n, tl_string lp = tl_string l ++ spacesl L_pad n /\
            (tl_width_raw l <= W -> tl_width_raw lp = W).

(* a sharper shape: the number of spaces, the resulting width and the length field *)
Definition is_pad_of_strong (W : N) (lp l : tline) : Prop :=
  tl_string lp = tl_string l ++ spacesl L_pad (W - tl_width_raw l) /\
  tl_width_raw lp = N.max W (tl_width_raw l) /\
  tlen_ lp = tlen_ l + (W - tl_width_raw l) /\
  (W <= tl_width_raw l -> lp = l).

Lemma spacesl_0 lb : spacesl lb 0 = [].
Proof. reflexivity. Qed.

Lemma is_pad_exact_strong W lp l : is_pad_exact W lp l -> is_pad_of_strong W lp l.
Proof.
  intros (t & E). unfold tl_pad_to, tl_width in E.
  destruct (tlen_ l =? tl_width_raw l); cbn [bind] in E; [|discriminate].
  unfold is_pad_of_strong.
  destruct (N.ltb_spec (tl_width_raw l) W) as [Hlt|Hge]; injection E as <-.
  - unfold tl_push_wsl. rewrite string_push_str, raw_push_str, tlen_push_str, swidth_spacesl.
    repeat split; try reflexivity; lia.
  - replace (W - tl_width_raw l) with 0 by lia. rewrite spacesl_0, app_nil_r.
    repeat split; try reflexivity; lia.
Qed.

Lemma is_pad_strong_weak W lp l : is_pad_of_strong W lp l -> is_pad_of W lp l.
Proof. intros (A & B & _). exists (W - tl_width_raw l). split; [exact A|]. lia. Qed.

Lemma Forall2_impl {A B} (P Q : A -> B -> Prop) (H : forall a b, P a b -> Q a b) :
  forall la lb, Forall2 P la lb -> Forall2 Q la lb.
Proof. induction 1; constructor; auto. Qed.

(* tl_pad_to can only fail on the debug_assert of TaggedLine::width (Panic 40) *)
Lemma pad_HLR W ovf l t :
  simr ovf true (is_pad_exact W) (if true then tl_pad_to l W t else Ok l)
                                 (if false then tl_pad_to l W t else Ok l).
Proof.
  cbn [simr]. destruct (tl_pad_to l W t) as [lp| | |] eqn:E.
  - left. exists lp. split; [reflexivity|]. exists t. exact E.
  - exfalso. unfold tl_pad_to, tl_width in E.
    destruct (tlen_ l =? tl_width_raw l); cbn [bind] in E; [|discriminate].
    destruct (tl_width_raw l <? W); discriminate.
  - right. split; [reflexivity|]. unfold tl_pad_to, tl_width in E.
    destruct (tlen_ l =? tl_width_raw l); cbn [bind] in E; [|symmetry; exact E].
    destruct (tl_width_raw l <? W); discriminate.
  - exfalso. unfold tl_pad_to, tl_width in E.
    destruct (tlen_ l =? tl_width_raw l); cbn [bind] in E; [|discriminate].
    destruct (tl_width_raw l <? W); discriminate.
Qed.

(* Master statement, for either value of the overflow flag: the padded run succeeds
   iff the unpadded one does, with the same number of lines, and each padded line
   is pad_to of the corresponding unpadded line. *)
Theorem c15_pad_exact : forall W ovf cs,
  1 <= W ->
  match run W false ovf cs, run W true ovf cs with
  | Ok ls, Ok lsp => Forall2 (is_pad_exact W) lsp ls
  | TooNarrow, TooNarrow => ovf = false
  | _, _ => False
  end.
Proof.
  intros W ovf cs HW.
  pose proof (run_sim W false true ovf ovf true (is_pad_exact W) (fun H => H)
                (pad_HLR W ovf) cs) as S.
  pose proof (run_total W false ovf cs HW) as T1.
  pose proof (run_total W true ovf cs HW) as T2.
  destruct (run W false ovf cs) as [ls| | |]; try contradiction; cbn [simr] in S.
  - destruct S as [(a & -> & HF)|(_ & E)]; [exact HF|].
    rewrite E in T2. contradiction.
  - destruct (S T1) as [->|(_ & E)]; [exact T1|]. rewrite E in T2. contradiction.
Qed.

Theorem c15_pad_strong : forall W ovf cs,
  1 <= W ->
  match run W false ovf cs, run W true ovf cs with
  | Ok ls, Ok lsp => Forall2 (is_pad_of_strong W) lsp ls
  | TooNarrow, TooNarrow => ovf = false
  | _, _ => False
  end.
Proof.
  intros W ovf cs HW. pose proof (c15_pad_exact W ovf cs HW) as H.
  destruct (run W false ovf cs), (run W true ovf cs); auto.
  revert H. apply Forall2_impl. apply is_pad_exact_strong.
Qed.

(* C15 as requested *)
Theorem c15_pad_only_trailing_spaces : forall W cs,
  1 <= W ->
  match run W false false cs, run W true false cs with
  | Ok ls, Ok lsp => Forall2 (is_pad_of W) lsp ls
  | TooNarrow, TooNarrow => True
  | _, _ => False
  end.
Proof.
  intros W cs HW. pose proof (c15_pad_strong W false cs HW) as H.
  destruct (run W false false cs), (run W true false cs); auto.
  revert H. apply Forall2_impl. apply is_pad_strong_weak.
Qed.

(* the same with overflow allowed: both runs succeed; over-wide lines are left alone *)
Theorem c15_pad_only_trailing_spaces_ovf : forall W cs,
  1 <= W ->
  exists ls lsp, run W false true cs = Ok ls /\ run W true true cs = Ok lsp /\
                 Forall2 (is_pad_of_strong W) lsp ls.
Proof.
  intros W cs HW. pose proof (c15_pad_strong W true cs HW) as H.
  destruct (run W false true cs) as [ls| | |], (run W true true cs) as [lsp| | |];
    try contradiction; try discriminate.
  exists ls, lsp. auto.
Qed.

(* consequences that are easy to read: same number of lines; every padded line of a
   run without overflow is exactly W wide *)
Corollary c15_same_line_count : forall W ovf cs ls lsp,
  1 <= W -> run W false ovf cs = Ok ls -> run W true ovf cs = Ok lsp -> length lsp = length ls.
Proof.
  intros W ovf cs ls lsp HW E1 E2. pose proof (c15_pad_exact W ovf cs HW) as H.
  rewrite E1, E2 in H. clear E1 E2. induction H; cbn [length]; congruence.
Qed.

Corollary c15_padded_lines_full_width : forall W cs lsp,
  1 <= W -> run W true false cs = Ok lsp -> forall lp, In lp lsp -> tl_width_raw lp = W.
Proof.
  intros W cs lsp HW E2 lp Hin.
  pose proof (c15_pad_strong W false cs HW) as H.
  pose proof (run_never_panics W false false cs HW) as (_ & _ & _ & Hfit).
  rewrite E2 in H. destruct (run W false false cs) as [ls| | |]; try contradiction.
  specialize (Hfit eq_refl ls eq_refl).
  clear E2. induction H as [|lp' l lsp' ls' (_ & Hw & _) HF IH]; [contradiction|].
  destruct Hin as [<-|Hin].
  - pose proof (Hfit l (or_introl eq_refl)). lia.
  - apply IH; [exact Hin|]. intros l0 H0. apply Hfit. right. exact H0.
Qed.

(* ================================================================== *)
(* Non-vacuity                                                          *)
(* ================================================================== *)

Definition nl : chr := mkchr 10 None true 0.
Definition asc (l : list N) : text :=
  map (fun c => if c =? 32 then space else if c =? 10 then nl else mk c 1) l.

(* width 6: "abcdefghij kl" in normal mode (the first word is hard-wrapped), then
   " x  y\nzz" preformatted, then a fragment *)
Definition ex_cs6 : list call :=
  [CText (asc [97;98;99;100;101;102;103;104;105;106;32;107;108]) WsNormal [] [];
   CText (asc [32;120;32;32;121;10;122;122]) WsPre [APre false] [APre true];
   CFrag []].

Definition show (ls : list tline) : list (list N * N) :=
  map (fun l => (cps (tl_string l), tl_width_raw l)) ls.

(* succeeds without overflow (so c11_overflow_noop applies), 5 lines *)
Example ex_c11_applies :
  exists ls, run 6 false false ex_cs6 = Ok ls /\ run 6 false true ex_cs6 = Ok ls /\
    show ls = [([97;98;99;100;101;102], 6); ([103;104;105;106;32], 5);
               ([107;108;32;120], 4); ([121], 1); ([122;122], 2)].
Proof. eexists. split; [vm_compute; reflexivity|]. split; vm_compute; reflexivity. Qed.

(* the padded variant: same 5 lines, each followed by spaces up to width 6 *)
Example ex_c15_padded :
  exists lsp, run 6 true false ex_cs6 = Ok lsp /\
    show lsp = [([97;98;99;100;101;102], 6); ([103;104;105;106;32;32], 6);
                ([107;108;32;120;32;32], 6); ([121;32;32;32;32;32], 6);
                ([122;122;32;32;32;32], 6)].
Proof. eexists. split; vm_compute; reflexivity. Qed.

(* the converse of c11_overflow_noop is not claimed: TooNarrow without the flag, Ok with it
   (a width-7 character in a width-6 block); and with padding the over-wide line is
   left alone while the others are padded *)
Definition ex_csw : list call :=
  [CText (asc [97;98]) WsNormal [] []; CText [mk 19990 7] WsNormal [] [];
   CText (asc [32;99]) WsNormal [] []].

Example ex_c11_converse_fails :
  run 6 false false ex_csw = TooNarrow /\ run 6 true false ex_csw = TooNarrow /\
  (exists ls, run 6 false true ex_csw = Ok ls /\
     show ls = [([97;98], 2); ([19990], 7); ([99], 1)]) /\
  (exists lsp, run 6 true true ex_csw = Ok lsp /\
     show lsp = [([97;98;32;32;32;32], 6); ([19990], 7); ([99;32;32;32;32;32], 6)]).
Proof.
  split; [vm_compute; reflexivity|]. split; [vm_compute; reflexivity|].
  split; eexists; split; vm_compute; reflexivity.
Qed.

(* direct check (not through the theorems) of is_pad_of on the concrete width-6 run *)
Example ex_c15_direct :
  match run 6 false false ex_cs6, run 6 true false ex_cs6 with
  | Ok ls, Ok lsp => Forall2 (is_pad_of 6) lsp ls /\ length ls = 5%nat
  | _, _ => False
  end.
Proof.
  vm_compute run.
  split; [|reflexivity].
  repeat (constructor;
          [first [exists 0; split; [vm_compute; reflexivity|intros _; vm_compute; reflexivity]
                 |exists 1; split; [vm_compute; reflexivity|intros _; vm_compute; reflexivity]
                 |exists 2; split; [vm_compute; reflexivity|intros _; vm_compute; reflexivity]
                 |exists 4; split; [vm_compute; reflexivity|intros _; vm_compute; reflexivity]
                 |exists 5; split; [vm_compute; reflexivity|intros _; vm_compute; reflexivity]]|]).
  constructor.
Qed.

Print Assumptions run_sim.
Print Assumptions c11_overflow_noop.
Print Assumptions c11_overflow_never_too_narrow.
Print Assumptions c11_overflow_only_rescues.
Print Assumptions c15_pad_exact.
Print Assumptions c15_pad_strong.
Print Assumptions c15_pad_only_trailing_spaces.
Print Assumptions c15_pad_only_trailing_spaces_ovf.
Print Assumptions c15_same_line_count.
Print Assumptions c15_padded_lines_full_width.
Print Assumptions ex_c11_applies.
Print Assumptions ex_c15_padded.
Print Assumptions ex_c11_converse_fails.
Print Assumptions ex_c15_direct.
