(* Proofs/OverflowBound.v -- property C11, fourth clause, second half:
   "When [allow_width_overflow] does overflow, no line is wider than the deepest stack of block
    prefixes occurring in the document plus the small minimum content width the layout reserves
    (the configured minimum wrap width, or a few columns for a link or a wide character), so
    ordinary text is still wrapped."
   Quantifier: for table-free d, every line l has
       width(l) <= max (w, P + max (min_wrap_width, 5)).
   Whole-renderer proof, partial correctness (only the Ok outcome is considered; that the
   outcome IS Ok with the flag set is SimRel.c11_overflow_always_ok).  No axioms.

   HOW THE MODEL COMPUTES WIDTHS (Render.v / Sub.v)
     A prefixed block (blockquote, heading, ul/ol item, dd) with prefix width p inside a
     renderer of width W renders its content in a sub-renderer of width
         width_minus = max (W - p, m)         (TooNarrow instead when the flag is off and W - p < m)
     where m = e_min of the content = (e_min of the node) - p is the size estimate: max over the
     children, a text leaf min (its length, min_wrap), an image likewise, a link max (.., 5),
     <br> 1, a nested prefixed block its own m + its p.  Inside a renderer of width W' the
     wrapping block has width <= W'; its lines are <= W' except that a single character wider
     than the block is put on a line of its own (Wrap.hw_scan, flag on).  Nothing else exceeds.

   MAIN THEOREMS
     c11_overflow_width_bound :
       ol_prefix_monotone d -> ol_prefix_sat d ->                    (H1)
       (o_footnotes o = true -> o_wrap_links o = true) ->            (H3)
       no_table tree = true ->                                       (H4)
       tree_ok (o_footnotes o) L tree = true ->                      (H5, decidable)
       render_tree d mw o width tree = Ok s ->
       forall ls, sub_into_lines s = Ok ls -> forall r, In r ls ->
         rline_width r <= N.max width (overflow_bound d mw o L tree)
     with overflow_bound d mw o L tree = max (tb d mw tree) (if footnotes then max 1 L else 0)
     and `tb` (section 4) defined by recursion on the tree:
         text leaf: its widest character;  inline element: its widest affix character and its
         children;  prefixed block: p + max (emin_b children, tb children)
     (`emin_b` = the estimate m above as a function of the tree; `est_min` proves it IS
     e_min (est_node ..) for table-free nodes).  THE BOUND IS ATTAINED (examples ob_t1_theorem,
     ob_t3_tight, ob_t2_wide, ob_t45): it is the tightest bound of this shape.
     No hypothesis on the flag: the statement also holds with the flag off (where C02 gives
     the stronger rline_width r <= width).

     c11_overflow_width_bound_chain :  ... rline_width r <=
         max width (pchain d tree + max (max mw 5) (max (cwb d tree) (if footnotes then L else 0)))
     c11_overflow_width_bound_spec  (THE PROPERTY AS STATED):
         ... tree_ok (o_footnotes o) 2 tree = true -> cwb d tree <= 2 -> ...
         rline_width r <= N.max width (pchain d tree + N.max mw 5)
     where pchain = P (the largest sum of prefix widths along a chain of nested prefixed blocks;
     for <ol> the width render_node reserves for the numbers, `olpw`) and cwb = the widest
     character given to the wrapping layer (document text, image text, decorator affixes, the
     "[n]" of a link, superscript digits).  Lemmas emin_le_chain, tb_le_chain:
         emin_b n <= pchain n + max mw 5,   tb n <= pchain n + max (max mw 5) (cwb n).
     So the property's bound HOLDS in the model; there is no counterexample with characters of
     width <= 2, and P + max (min_wrap, 5) itself is attained (ob_t3_tight: a link in two
     blockquotes at width 3, min_wrap 3: 4 + 5 = 9).
     c11_lines_from_read_overflow_bound / _spec : the same through Api.lines_from_read.

   HYPOTHESES (all inherited from C02, RenderWidth.v, for the same reasons)
     (H1) ol_prefix_monotone / ol_prefix_sat: the item numbers between the first and the last
          measured number have prefixes no wider than those two (true of the built-in decorators).
     (H3) the footnote list is only wrapped with o_wrap_links (RenderWidth.cex3).
     (H4) table-free, as in the statement of the property.
     (H5) RenderWidth.tree_ok: every <ol> has i64_min <= start (true of trees built from a DOM);
          with footnotes, every character of every link target is at most L columns wide.

   STRUCTURE
     1  WrappedBlock layer.  WrapInv.Inv says nothing about the lines when allow_overflow = true;
        new invariant InvK K: current line <= width, every finished line
        <= max (block width) K, every pending character <= K columns.  Preserved by every
        operation, for every width (0 included) and both values of the flag (partial
        correctness, so no fuel/Panic argument is needed).  wb_into_lines_okB.
     2  sub-renderer layer: sub_okB B s: every line <= max (swidth_ s) B; append_subrender_okB.
     3  fmt_links.   4  the bound tb, emin_b, est_min.
     5  render layer: node_okB_all (one bound per sub-renderer on the stack; a prefixed block
        of prefix p renders its content with bound B - p).
     6  render_tree.  7  comparison with P + max (min_wrap, 5).  8  Api route.  9  examples. *)
From H2T Require Import Base Tagged Wrap Sub Css Dom Render Api.
From H2T Require Import Proofs.WrapInv Proofs.RenderWidth Proofs.Footnotes.
From Coq Require Import Lia ZifyN ZifyBool ZifyNat.

Local Arguments N.add : simpl never.
Local Arguments N.sub : simpl never.
Local Arguments N.mul : simpl never.
Local Arguments N.div : simpl never.
Local Arguments N.modulo : simpl never.
Local Arguments N.leb : simpl never.
Local Arguments N.ltb : simpl never.
Local Arguments N.eqb : simpl never.
Local Arguments N.min : simpl never.
Local Arguments N.max : simpl never.
Local Arguments N.to_nat : simpl never.
Local Arguments N.of_nat : simpl never.
Local Open Scope N_scope.

(* ================================================================== *)
(* 1. WrappedBlock layer: every finished line is at most               *)
(*    max (block width) (widest single character), whatever the        *)
(*    overflow flag and the width (0 included).  Partial correctness.  *)
(* ================================================================== *)

Lemma chars_le_app K a b : chars_le K a -> chars_le K b -> chars_le K (a ++ b).
Proof. unfold chars_le. intros Ha Hb. apply Forall_app. auto. Qed.

Lemma chars_le_app_inv K a b : chars_le K (a ++ b) -> chars_le K a /\ chars_le K b.
Proof. unfold chars_le. apply Forall_app. Qed.

Lemma chars_le_nil K : chars_le K [].
Proof. constructor. Qed.

Lemma swidth_rev s : swidth (rev s) = swidth s.
Proof.
  induction s as [|c s IH]; [reflexivity|]. cbn [rev].
  rewrite swidth_app, IH, !swidth_cons, swidth_nil. lia.
Qed.

(* a finished line: cached length exact, width at most max W K *)
Definition fink (W K : N) (l : tline) : Prop :=
  tlen_ l = tl_width_raw l /\ tl_width_raw l <= N.max W K.

(* the part of the invariant about the lines *)
Definition K0 (K : N) (b : wblock) : Prop :=
  line_ok (wwidth b) (wline b) /\ (forall l, In l (wtext b) -> fink (wwidth b) K l).

Definition elemsK (K : N) (v : list elem) : Prop :=
  Forall (fun e => chars_le K (elem_text e)) v.

Definition InvK (K : N) (b : wblock) : Prop :=
  K0 K b /\ wordlen b = vw (wword b) /\ elemsK K (wword b).

Lemma K0_stl K b tx ln :
  line_ok (wwidth b) ln -> (forall l, In l tx -> fink (wwidth b) K l) ->
  K0 K (set_text_line b tx ln).
Proof. unfold K0. prj. tauto. Qed.
Lemma K0_set_line K b ln : K0 K b -> line_ok (wwidth b) ln -> K0 K (set_line b ln).
Proof. unfold K0. prj. tauto. Qed.
Lemma K0_set_word K b w n : K0 K b -> K0 K (set_word b w n).
Proof. unfold K0. prj. tauto. Qed.
Lemma K0_set_prew K b p : K0 K b -> K0 K (set_prew b p).
Proof. unfold K0. prj. tauto. Qed.
Lemma K0_set_space K b st n : K0 K b -> K0 K (set_space b st n).
Proof. unfold K0. prj. tauto. Qed.

Lemma K0_push K b e :
  K0 K b -> tlen_ (wline b) + swidth (elem_text e) <= wwidth b ->
  K0 K (set_line b (tl_push (wline b) e)).
Proof.
  intros HK Hle. pose proof HK as ([Hl1 Hl2] & _). apply K0_set_line; [exact HK|].
  split; rewrite tlen_push, ?raw_push; lia.
Qed.

(* force_flush_line: the current line may be any acceptable finished line *)
Lemma ffl_k K b b' :
  tlen_ (wline b) = tl_width_raw (wline b) ->
  tl_width_raw (wline b) <= N.max (wwidth b) K ->
  (forall l, In l (wtext b) -> fink (wwidth b) K l) ->
  force_flush_line b = Ok b' -> K0 K b' /\ lc b b'.
Proof.
  intros Hl Hle Htx H. unfold force_flush_line in H. bind_inv H l' Hl'. ok_inv H.
  split; [|eexists; eexists; reflexivity].
  assert (Hf : fink (wwidth b) K l').
  { destruct (pad_blocks b).
    - destruct (tl_pad_to_spec (wline b) (wwidth b)
                  (match spacetag b with Some st => st | None => [] end) Hl) as (l2 & E & H1 & H2).
      rewrite E in Hl'. ok_inv Hl'. split; [exact H1|lia].
    - ok_inv Hl'. split; assumption. }
  apply K0_stl; [apply line_ok_new|].
  intros l Hin. apply in_app_or in Hin. destruct Hin as [Hin|[<-|[]]]; auto.
Qed.

Lemma ffl_k0 K b b' : K0 K b -> force_flush_line b = Ok b' -> K0 K b' /\ lc b b'.
Proof.
  intros ([Hl1 Hl2] & Htx) H. eapply ffl_k; try eassumption. lia.
Qed.

Lemma flush_line_k K b b' :
  K0 K b -> flush_line b = Ok b' -> K0 K b' /\ lc b b' /\ tlen_ (wline b') = 0.
Proof.
  intros HK H. unfold flush_line in H. destruct (tl_is_empty (wline b)) eqn:Ee.
  - ok_inv H. split; [exact HK|]. split; [apply lc_refl|].
    destruct HK as ([Hl _] & _). rewrite Hl. apply tl_is_empty_raw, Ee.
  - destruct (ffl_k0 K b b' HK H) as [A B]. split; [exact A|]. split; [exact B|].
    unfold force_flush_line in H. bind_inv H l' Hl'. ok_inv H. reflexivity.
Qed.

(* the character scan of flush_word_hard_wrap *)
Lemma hw_scan_k K ovf line0 : forall s first taken_rev lineleft wpos taken ll wpos',
  hw_scan ovf line0 first s taken_rev lineleft wpos = Ok (taken, ll, wpos') ->
  (first = true -> taken_rev = []) -> chars_le K s -> lineleft < swidth s ->
  exists pre rest', s = pre ++ rest' /\ taken = rev taken_rev ++ pre /\
    wpos' = wpos + swidth pre /\
    (swidth pre <= lineleft \/ (first = true /\ tl_width_raw line0 = 0 /\ swidth pre <= K)).
Proof.
  induction s as [|c s IH]; intros first taken_rev lineleft wpos taken ll wpos' H Hf Hc Hlt.
  - rewrite swidth_nil in Hlt. lia.
  - cbn [hw_scan] in H. inversion Hc as [|? ? Hc1 Hc2]; subst.
    destruct (cw c) as [c_w|] eqn:Ecw; [|discriminate].
    assert (Hc0 : cw0 c = c_w) by (unfold cw0; rewrite Ecw; reflexivity).
    rewrite swidth_cons in Hlt.
    destruct (N.leb_spec c_w lineleft) as [Hfit|Hnofit].
    + destruct (IH false (c :: taken_rev) (lineleft - c_w) (wpos + c_w) taken ll wpos' H)
        as (pre & rest' & E1 & E2 & E3 & E4); [discriminate|exact Hc2|lia|].
      exists (c :: pre), rest'. subst s. split; [reflexivity|]. split.
      { rewrite E2. cbn [rev]. rewrite <- app_assoc. reflexivity. }
      split; [rewrite swidth_cons; lia|].
      destruct E4 as [A|[A _]]; [left|discriminate]. rewrite swidth_cons. lia.
    + destruct first.
      * rewrite (Hf eq_refl) in *. bind_inv H lw Hlw. unfold tl_width in Hlw.
        destruct (tlen_ line0 =? tl_width_raw line0); [|discriminate]. ok_inv Hlw.
        destruct (N.eqb_spec (tl_width_raw line0) 0) as [Ez|Enz].
        -- destruct ovf; [|discriminate]. injection H as <- _ <-.
           destruct (take_zw_split s) as [r Er].
           exists (c :: take_zw s), r. split; [cbn [app]; f_equal; exact Er|].
           split; [reflexivity|].
           rewrite swidth_cons, swidth_take_zw. split; [lia|]. right. repeat split; auto. lia.
        -- injection H as <- _ <-. exists [], (c :: s). split; [reflexivity|].
           split; [reflexivity|]. rewrite swidth_nil. split; [lia|]. left. lia.
      * injection H as <- _ <-. exists [], (c :: s). rewrite app_nil_r.
        split; [reflexivity|]. split; [reflexivity|]. rewrite swidth_nil. split; [lia|]. left. lia.
Qed.

Lemma chars_le_skipn K n s : chars_le K s -> chars_le K (skipn n s).
Proof.
  unfold chars_le. revert s. induction n as [|n IH]; intros s H; [exact H|].
  destruct s as [|c s]; [exact H|]. cbn [skipn]. apply IH. inversion H; assumption.
Qed.

Lemma lc_width b b' : lc b b' -> wwidth b' = wwidth b.
Proof. intros (tx & ln & ->). reflexivity. Qed.

Lemma hw_piece_k K t w : forall fuel b rest consumed lineleft wpos r,
  K0 K b -> chars_le K rest -> wpos + swidth rest = w ->
  (consumed = false -> wpos = 0) ->
  tlen_ (wline b) + lineleft <= wwidth b ->
  hw_piece fuel b t w rest consumed lineleft wpos = Ok r ->
  K0 K (fst r) /\ lc b (fst r) /\ tlen_ (wline (fst r)) + snd r <= wwidth b.
Proof.
  induction fuel as [|f IH]; intros b rest consumed lineleft wpos r HK Hc Hsum Hcons Hll H;
    cbn [hw_piece] in H; [discriminate|].
  pose proof HK as ([Hl1 Hl2] & Htx).
  bind_inv H rem Hrem. unfold usub in Hrem. destruct (wpos <=? w); [|discriminate]. injection Hrem as <-.
  destruct (N.ltb_spec lineleft (w - wpos)) as [Hlt|Hge].
  - bind_inv H r0 Hscan. destruct r0 as [[taken ll0] wpos'].
    destruct (hw_scan_k K _ _ _ _ _ _ _ _ _ _ Hscan (fun _ => eq_refl) Hc ltac:(lia))
      as (pre & rest' & E1 & E2 & E3 & E4).
    cbn [rev app] in E2. subst taken.
    bind_inv H b2 Hffl.
    pose proof (force_flush_line_empty _ _ Hffl) as Hnew.
    apply (ffl_k K) in Hffl; prj.
    2:{ rewrite tlen_push, raw_push. lia. }
    2:{ rewrite raw_push. cbn [elem_text]. destruct E4 as [A|(_ & A & B)]; lia. }
    2:{ exact Htx. }
    destruct Hffl as [HK2 Hlc2]. pose proof (lc_width _ _ Hlc2) as Hw2. prj.
    subst rest. rewrite skipn_length_app in H.
    apply chars_le_app_inv in Hc. destruct Hc as [_ Hc']. rewrite swidth_app in Hsum.
    match type of H with hw_piece _ _ _ _ _ ?cs _ _ = _ =>
      destruct (IH b2 rest' cs (wwidth b2) wpos' r HK2 Hc') as (A & B & C)
    end; [lia| | |exact H|].
    + intros Hcf. apply orb_false_iff in Hcf. destruct Hcf as [Hc1 Hc2].
      destruct pre; [|discriminate]. rewrite swidth_nil in E3. rewrite (Hcons Hc1) in E3. lia.
    + rewrite Hnew. cbn [tl_new tlen_]. lia.
    + split; [exact A|]. split; [|lia].
      eapply lc_trans; [|exact B]. eapply lc_trans; [apply lc_set_line|exact Hlc2].
  - destruct consumed; cbn [negb] in H.
    + destruct rest as [|c rest].
      * injection H as <-. cbn [fst snd]. split; [exact HK|]. split; [apply lc_refl|lia].
      * bind_inv H ll Hu. unfold usub in Hu.
        destruct (N.leb_spec (w - wpos) lineleft); [|discriminate]. injection Hu as <-. injection H as <-.
        cbn [fst snd]. split; [|split; [apply lc_set_line|]].
        -- apply (K0_push K b (Str (c :: rest) t)); [exact HK|]. cbn [elem_text]. lia.
        -- change (tlen_ (tl_push (wline b) (Str (c :: rest) t)) + (lineleft - (w - wpos)) <= wwidth b).
           rewrite tlen_push. cbn [elem_text]. lia.
    + rewrite (Hcons eq_refl) in *.
      bind_inv H ll Hu. unfold usub in Hu.
      destruct (N.leb_spec w lineleft); [|discriminate]. injection Hu as <-. injection H as <-.
      cbn [fst snd]. split; [|split; [apply lc_set_line|]].
      * apply (K0_push K b (Str rest t)); [exact HK|]. cbn [elem_text]. lia.
      * change (tlen_ (tl_push (wline b) (Str rest t)) + (lineleft - w) <= wwidth b).
        rewrite tlen_push. cbn [elem_text]. lia.
Qed.

Lemma hw_elems_k K : forall els b lineleft r,
  K0 K b -> elemsK K els -> tlen_ (wline b) + lineleft <= wwidth b ->
  hw_elems b els lineleft = Ok r -> K0 K r /\ lc b r.
Proof.
  induction els as [|e els IH]; intros b lineleft r HK He Hll H; cbn [hw_elems] in H.
  - injection H as <-. split; [exact HK|apply lc_refl].
  - inversion He as [|? ? He1 He2]; subst. destruct e as [s t|n].
    + bind_inv H r0 Hp. destruct r0 as [b1 ll]. cbn [elem_text] in He1.
      destruct (hw_piece_k K t (swidth s) _ b s false lineleft 0 _ HK He1 ltac:(lia)
                  (fun _ => eq_refl) Hll Hp) as (A & B & C).
      cbn [fst snd] in *. rewrite <- (lc_width _ _ B) in C.
      destruct (IH _ _ _ A He2 C H) as [D E]. split; [exact D|eapply lc_trans; eassumption].
    + destruct (IH (set_line b (tl_push (wline b) (Frag n))) lineleft r) as [D E];
        [|exact He2| |exact H|].
      * apply K0_push; [exact HK|]. cbn [elem_text]. rewrite swidth_nil. lia.
      * prj. rewrite tlen_push. cbn [elem_text]. rewrite swidth_nil. lia.
      * split; [exact D|]. eapply lc_trans; [apply lc_set_line|exact E].
Qed.

Lemma fwhw_k K b b' :
  K0 K b -> elemsK K (wword b) -> flush_word_hard_wrap b = Ok b' ->
  K0 K b' /\ exists tx ln, b' = set_word (set_text_line b tx ln) [] (wordlen b).
Proof.
  intros HK He H. pose proof HK as ([Hl1 Hl2] & _). unfold flush_word_hard_wrap in H.
  bind_inv H ll Hu. unfold usub in Hu.
  destruct (N.leb_spec (tlen_ (wline b)) (wwidth b)); [|discriminate]. injection Hu as <-.
  apply (hw_elems_k K) in H; [|apply K0_set_word, HK|exact He|prj; lia].
  destruct H as [A (tx & ln & ->)].
  split; [exact A|]. exists tx, ln. reflexivity.
Qed.

Lemma ws_loop_k K : forall fuel b b',
  K0 K b -> (wslen b = 0 \/ tlen_ (wline b) = 0) -> ws_loop fuel b = Ok b' ->
  K0 K b' /\ exists tx ln, b' = set_space (set_text_line b tx ln) (spacetag b) 0.
Proof.
  assert (Hid : forall b, wslen b = 0 ->
            b = set_space (set_text_line b (wtext b) (wline b)) (spacetag b) 0).
  { intros b E. destruct b; prj; subst; reflexivity. }
  induction fuel as [|f IH]; intros b b' HK Hor H; cbn [ws_loop] in H.
  - destruct (N.eqb_spec (wslen b) 0) as [Ez|]; [|discriminate]. injection H as <-.
    split; [exact HK|]. exists (wtext b), (wline b). apply Hid, Ez.
  - destruct (N.eqb_spec (wslen b) 0) as [Ez|Enz].
    { injection H as <-. split; [exact HK|]. exists (wtext b), (wline b). apply Hid, Ez. }
    destruct (N.eqb_spec (wwidth b) 0) as [Hw0|Hw0].
    { injection H as <-. split; [apply K0_set_space, HK|].
      exists (wtext b), (wline b). destruct b; reflexivity. }
    destruct (spacetag b) as [st|] eqn:Est; [|discriminate].
    assert (Hz : tlen_ (wline b) = 0) by (destruct Hor; [lia|assumption]).
    pose proof HK as ([Hl1 Hl2] & _).
    set (tc := N.min (wslen b) (wwidth b)) in *.
    set (ln1 := tl_push_wsl L_space (wline b) tc st) in *.
    assert (HK1 : K0 K (set_line b ln1)).
    { apply K0_set_line; [exact HK|]. unfold ln1.
      split; rewrite tlen_push_wsl, ?raw_push_wsl; lia. }
    bind_inv H b2 H2.
    assert (A : K0 K b2 /\ lc (set_line b ln1) b2 /\ (tc = wwidth b -> tlen_ (wline b2) = 0)).
    { destruct (N.eqb_spec tc (wwidth b)) as [Et|Et].
      - destruct (flush_line_k K _ _ HK1 H2) as (X & Y & Z). auto.
      - injection H2 as <-. split; [exact HK1|]. split; [apply lc_refl|contradiction]. }
    destruct A as (HK2 & (tx2 & ln2 & ->) & Hfl). prj. rewrite Est in H.
    apply IH in H.
    + destruct H as [A (tx & ln & ->)]. split; [exact A|]. exists tx, ln. prj.
      rewrite <- Est. destruct b; reflexivity.
    + apply K0_set_space. exact HK2.
    + prj. destruct (N.eq_dec tc (wwidth b)) as [Et|Et]; [right; auto|left; lia].
Qed.

Lemma elemsK_push_merge K v s t : elemsK K v -> chars_le K s -> elemsK K (v_push_merge v s t).
Proof.
  intros Hv Hs. induction v as [|e v IH].
  - cbn [v_push_merge]. constructor; [exact Hs|constructor].
  - inversion Hv as [|? ? He Hv']; subst. destruct v as [|e' v].
    + cbn [v_push_merge]. destruct e as [s0 t0|n].
      * destruct (tag_eqb t0 t).
        -- constructor; [|constructor]. cbn [elem_text] in *. apply chars_le_app; assumption.
        -- constructor; [exact He|]. constructor; [exact Hs|constructor].
      * constructor; [exact He|]. constructor; [exact Hs|constructor].
    + rewrite v_push_merge_cons2. constructor; [exact He|]. apply IH, Hv'.
Qed.

Lemma InvK_lc K b b' : InvK K b -> K0 K b' -> lc b b' -> InvK K b'.
Proof. intros (_ & A & B) HK (tx & ln & ->). split; [exact HK|]. prj. auto. Qed.

Lemma flush_word_k K b m b' :
  InvK K b -> flush_word b m = Ok b' -> InvK K b' /\ wwidth b' = wwidth b.
Proof.
  intros (HK & Hwl & He) H. pose proof HK as ([Hl1 Hl2] & Htx).
  unfold flush_word in H. destruct (word_is_empty (wword b)) eqn:Ewe.
  - injection H as <-. split; [|reflexivity]. split; [apply K0_set_word, HK|]. prj.
    split; [symmetry; apply word_is_empty_vw, Ewe|exact He].
  - cbv zeta in H. bind_inv H sil Hu. unfold usub in Hu.
    destruct (N.leb_spec (tlen_ (wline b)) (wwidth b)); [|discriminate]. injection Hu as <-.
    destruct (N.leb_spec (wslen b + wordlen b) (wwidth b - tlen_ (wline b))) as [Hfit|Hnofit].
    + bind_inv H b1 H1.
      assert (A : K0 K b1 /\ wword b1 = wword b /\ wwidth b1 = wwidth b /\
                  tlen_ (wline b1) = tlen_ (wline b) + wslen b).
      { destruct (N.ltb_spec 0 (wslen b)).
        - destruct (spacetag b) as [st|]; [|discriminate]. injection H1 as <-. prj.
          split; [|split; [reflexivity|split; [reflexivity|]]].
          + apply K0_set_space.
            apply (K0_push K b (Str (spacesl L_space (wslen b)) st)); [exact HK|].
            cbn [elem_text]. rewrite swidth_spacesl. lia.
          + change (tlen_ (tl_push (wline b) (Str (spacesl L_space (wslen b)) st)) =
                    tlen_ (wline b) + wslen b).
            rewrite tlen_push. cbn [elem_text]. rewrite swidth_spacesl. reflexivity.
        - injection H1 as <-. split; [exact HK|]. split; [reflexivity|]. split; [reflexivity|lia]. }
      destruct A as (A1 & A2 & A3 & A4). injection H as <-. prj. split; [|exact A3].
      split; [|prj; split; [reflexivity|constructor]].
      apply K0_set_word. apply K0_set_line; [exact A1|]. pose proof A1 as ([B1 B2] & _).
      split; rewrite tlen_fold_push, ?raw_fold_push; rewrite A2; lia.
    + bind_inv H b1 H1.
      assert (A : K0 K b1 /\ wword b1 = wword b /\ wwidth b1 = wwidth b).
      { destruct (do_wrap m); cbn [negb] in H1.
        - injection H1 as <-. prj. split; [apply K0_set_space, HK|auto].
        - destruct (N.leb_spec (wwidth b - tlen_ (wline b)) (wslen b)).
          + injection H1 as <-. prj. split; [apply K0_set_space, HK|auto].
          + destruct (N.ltb_spec 0 (wslen b)).
            * destruct (spacetag b) as [st|]; [|discriminate]. injection H1 as <-. prj.
              split; [|auto]. apply K0_set_space. apply K0_set_line; [exact HK|].
              split; rewrite tlen_push_wsl, ?raw_push_wsl; lia.
            * injection H1 as <-. auto. }
      destruct A as (A1 & A2 & A3).
      bind_inv H b2 H2. destruct (flush_line_k K _ _ A1 H2) as (Z2 & (tx2 & ln2 & ->) & Hz2).
      bind_inv H b4 H4.
      match type of H4 with ws_loop _ ?b3 = _ =>
        assert (Z3 : K0 K b3 /\ tlen_ (wline b3) = 0)
          by (destruct (is_pre m); [split; [apply K0_set_prew|]|split]; assumption);
        destruct (ws_loop_k K _ _ _ (proj1 Z3) (or_intror (proj2 Z3)) H4) as [Z4 (tx4 & ln4 & E4)]
      end.
      bind_inv H b6 H6.
      match type of H6 with flush_word_hard_wrap ?b5 = _ =>
        assert (Z5 : K0 K b5 /\ wword b5 = wword b /\ wwidth b5 = wwidth b)
      end.
      { subst b4. destruct (is_pre m); prj; (split; [|auto]);
          apply K0_set_space; exact Z4. }
      destruct Z5 as (Z5 & W5 & X5).
      destruct (fwhw_k K _ _ Z5 ltac:(rewrite W5; exact He) H6) as [Z6 (tx6 & ln6 & E6)].
      injection H as <-. rewrite E6 in *. prj. split; [|exact X5].
      split; [|prj; split; [reflexivity|constructor]].
      revert Z6. unfold K0. prj. tauto.
Qed.

Lemma tab_loop_k K tw : forall f b t0 pos one fl r,
  K0 K b -> tlen_ (wline b) <= pos -> tab_loop f b t0 tw pos one fl = Ok r ->
  K0 K (fst r) /\ lc b (fst r).
Proof.
  induction f as [|f IH]; intros b t0 pos one fl r HK Hpos H; cbn [tab_loop] in H.
  - destruct (negb (pos mod 8 =? 0) || negb one); [discriminate|]. injection H as <-.
    split; [exact HK|apply lc_refl].
  - destruct (negb (pos mod 8 =? 0) || negb one).
    2:{ injection H as <-. split; [exact HK|apply lc_refl]. }
    destruct (wwidth b =? 0).
    { injection H as <-. split; [exact HK|apply lc_refl]. }
    pose proof HK as ([Hl1 Hl2] & _).
    destruct (N.leb_spec (wwidth b) pos) as [Hfull|Hroom].
    + bind_inv H b1 H1. destruct (flush_line_k K _ _ HK H1) as (A & B & C).
      destruct (IH _ _ _ _ _ _ A ltac:(lia) H) as [D E].
      split; [exact D|eapply lc_trans; eassumption].
    + destruct (IH (set_line b (tl_push_char (wline b) (spacel L_space) t0)) t0 (pos + 1) true fl r)
        as [D E]; [| |exact H|].
      * apply K0_set_line; [exact HK|].
        split; rewrite tlen_push_char, ?raw_push_char, cw0_spacel; lia.
      * prj. rewrite tlen_push_char, cw0_spacel. lia.
      * split; [exact D|]. eapply lc_trans; [apply lc_set_line|exact E].
Qed.

Lemma add_char_k K m t1 t2 b u c b' u' :
  InvK K b -> cw0 c <= K -> add_char m t1 t2 (b, u) c = Ok (b', u') ->
  InvK K b' /\ wwidth b' = wwidth b.
Proof.
  intros HI Hc H. unfold add_char in H. bind_inv H b1 H1.
  assert (HI1 : InvK K b1 /\ wwidth b1 = wwidth b).
  { destruct (ws c && (0 <? wordlen b)).
    - eapply flush_word_k; eassumption.
    - injection H1 as <-. auto. }
  clear H1 HI. destruct HI1 as [HI1 HW1]. rewrite <- HW1. clear HW1 b. rename b1 into b.
  cbv zeta in H. pose proof HI1 as (HK & Hwl & He). pose proof HK as ([Hl1 Hl2] & Htx).
  destruct (ws c).
  - destruct (preserve_ws m).
    + destruct (cp c =? 10).
      * bind_inv H b2 H2. destruct (ffl_k0 K _ _ HK H2) as [Z2 (tx & ln & ->)].
        injection H as <- _. prj. split; [|reflexivity].
        split; [|prj; auto]. apply K0_set_prew, K0_set_space. exact Z2.
      * destruct (cp c =? 9).
        -- bind_inv H r2 H2. apply (tab_loop_k K) in H2; [|exact HK|lia].
           destruct H2 as [Z2 (tx & ln & E2)]. destruct r2 as [b2 fl2]. cbn [fst snd] in *. subst b2.
           injection H as <- _. destruct (is_pre m && fl2); prj; (split; [|reflexivity]);
             (split; [|prj; auto]); [apply K0_set_prew|]; exact Z2.
        -- destruct (cw c) as [cwidth|].
           ++ destruct (wwidth b <? tlen_ (wline b) + wslen b + cwidth).
              ** bind_inv H b2 H2.
                 destruct (flush_line_k K _ _ (K0_set_space K b (spacetag b) 0 HK) H2)
                   as (Z2 & (tx & ln & ->) & _).
                 destruct (do_wrap m); injection H as <- _; prj; (split; [|reflexivity]);
                   (split; [|prj; auto]); revert Z2; unfold K0; prj; tauto.
              ** injection H as <- _. prj. split; [|reflexivity].
                 split; [apply K0_set_space, HK|prj; auto].
           ++ injection H as <- _. auto.
    + destruct ((0 <? tlen_ (wline b)) && (wslen b =? 0)); injection H as <- _; [|auto].
      prj. split; [|reflexivity]. split; [apply K0_set_space, HK|prj; auto].
  - destruct (cw c) as [cwidth|] eqn:Ecw.
    + assert (Hc0 : cw0 c = cwidth) by (unfold cw0; rewrite Ecw; reflexivity).
      assert (Hwc : chars_le K [c]) by (constructor; [lia|constructor]).
      injection H as <- _.
      destruct (is_pre m && (wwidth b <? tlen_ (wline b) + wslen b + (wordlen b + cwidth)));
        prj; (split; [|reflexivity]); (split; [|prj; split]);
        try (rewrite vw_push_merge, swidth_cons, swidth_nil; lia);
        try (apply elemsK_push_merge; assumption).
      * apply K0_set_word, K0_set_prew, HK.
      * apply K0_set_word, HK.
    + injection H as <- _. auto.
Qed.

Lemma add_chars_k K m t1 t2 : forall s b u r,
  InvK K b -> chars_le K s -> add_chars m t1 t2 (b, u) s = Ok r ->
  InvK K (fst r) /\ wwidth (fst r) = wwidth b.
Proof.
  induction s as [|c s IH]; intros b u r HI Hs H; cbn [add_chars] in H.
  - injection H as <-. auto.
  - inversion Hs as [|? ? Hc Hs']; subst.
    bind_inv H st' H1. destruct st' as [b1 u1].
    destruct (add_char_k K _ _ _ _ _ _ _ _ HI Hc H1) as [A B].
    destruct (IH _ _ _ A Hs' H) as [C D]. split; [exact C|congruence].
Qed.

(* what the sub-renderer needs of a wrapping block: InvK, and no wider than the renderer *)
Definition wb_okB (W B : N) (w : wblock) : Prop := InvK B w /\ wwidth w <= W.

Lemma wb_okB_mono W B B' w : B <= B' -> wb_okB W B w -> wb_okB W B' w.
Proof.
  intros HB (((Hl & Htx) & Hwl & He) & HW). split; [|exact HW].
  split; [split; [exact Hl|]|split; [exact Hwl|]].
  - intros l Hin. destruct (Htx l Hin) as [X Y]. split; [exact X|lia].
  - unfold elemsK in *. eapply Forall_impl; [|exact He].
    intros e Hc. eapply chars_le_mono; eassumption.
Qed.

Lemma wb_add_text_okB W B b s m t1 t2 b' :
  wb_okB W B b -> chars_le B s -> wb_add_text b s m t1 t2 = Ok b' -> wb_okB W B b'.
Proof.
  intros [HI HW] Hs H. unfold wb_add_text in H. bind_inv H r Hr. injection H as <-.
  destruct (add_chars_k B _ _ _ _ _ _ _ HI Hs Hr) as [A E]. split; [exact A|lia].
Qed.

Lemma wb_into_lines_okB W B b ls :
  wb_okB W B b -> wb_into_lines b = Ok ls -> forall l, In l ls -> tl_width_raw l <= N.max W B.
Proof.
  intros [HI HW] H l Hl. unfold wb_into_lines, wb_flush in H. bind_inv H b2 H2. bind_inv H2 b1 H1.
  injection H as <-. destruct (flush_word_k B _ _ _ HI H1) as [(Z1 & _) E1].
  destruct (flush_line_k B _ _ Z1 H2) as ((_ & Htx) & Hlc & _).
  pose proof (lc_width _ _ Hlc) as E2. destruct (Htx l Hl) as [_ X]. lia.
Qed.

Lemma take_frags_okB W B b b1 frags :
  wb_okB W B b -> take_trailing_fragments b = (b1, frags) -> wb_okB W B b1 /\ vw frags = 0.
Proof.
  intros ((HK & Hwl & He) & HW) H. rewrite ttf_eq in H. injection H as <- <-.
  split; [|apply tfr_snd_vw]. split; [|prj; exact HW].
  split; [apply K0_set_word, HK|]. prj. split; [rewrite tfr_fst_vw; exact Hwl|].
  unfold elemsK in *. rewrite (tfr_app (wword b)) in He. apply Forall_app in He. apply He.
Qed.

Lemma wb_add_frag_okB W B b n : wb_okB W B b -> wb_okB W B (wb_add_element b (Frag n)).
Proof.
  intros ((HK & Hwl & He) & HW). cbn [wb_add_element]. split; [|prj; exact HW].
  split; [apply K0_set_word, HK|]. prj. split.
  - rewrite vw_app, vw_cons, vw_nil. cbn [elem_text]. rewrite swidth_nil. lia.
  - unfold elemsK in *. apply Forall_app. split; [exact He|].
    constructor; [apply chars_le_nil|constructor].
Qed.

Lemma wb_new_okB W B ww pad ovf : ww <= W -> wb_okB W B (wb_new ww pad ovf).
Proof.
  intros H. split; [|exact H]. unfold InvK, K0, wb_new. prj.
  split; [split; [apply line_ok_new|intros l []]|]. split; [reflexivity|constructor].
Qed.

(* ================================================================== *)
(* 2. Sub-renderer layer: every line is at most max (swidth_ s) B      *)
(* ================================================================== *)

Definition sub_okB (B : N) (s : subr) : Prop :=
  (forall r, In r (slines s) -> rline_width r <= N.max (swidth_ s) B) /\
  vw (pending_frags s) = 0 /\
  (forall w, wrapping s = Some w -> wb_okB (swidth_ s) B w).

Lemma sub_okB_mk B s :
  (forall r, In r (slines s) -> rline_width r <= N.max (swidth_ s) B) ->
  vw (pending_frags s) = 0 ->
  (forall w, wrapping s = Some w -> wb_okB (swidth_ s) B w) -> sub_okB B s.
Proof. unfold sub_okB. auto. Qed.

Lemma sub_okB_mono B B' s : B <= B' -> sub_okB B s -> sub_okB B' s.
Proof.
  intros HB (H1 & H2 & H3). apply sub_okB_mk; [|exact H2|].
  - intros r Hr. specialize (H1 r Hr). lia.
  - intros w Hw. eapply wb_okB_mono; [exact HB|apply H3, Hw].
Qed.

Definition keepsB (B : N) (f : subr -> res subr) : Prop :=
  forall s s', sub_okB B s -> f s = Ok s' -> sub_okB B s' /\ same s s'.

Lemma sub_okB_ext B s s' :
  swidth_ s' = swidth_ s -> slines s' = slines s ->
  pending_frags s' = pending_frags s -> wrapping s' = wrapping s -> sub_okB B s -> sub_okB B s'.
Proof. unfold sub_okB. intros -> -> -> ->. auto. Qed.

Lemma keepsB_pure B (g : subr -> subr) :
  (forall s, swidth_ (g s) = swidth_ s /\ sopts (g s) = sopts s /\ slines (g s) = slines s /\
             pending_frags (g s) = pending_frags s /\ wrapping (g s) = wrapping s) ->
  keepsB B (fun s => Ok (g s)).
Proof.
  intros Hg s s' Hs H. ok_inv H. destruct (Hg s) as (a & b & c & e & f).
  split; [apply (sub_okB_ext B s); auto|split; auto].
Qed.

Lemma keepsB_comp B f g : keepsB B f -> keepsB B g -> keepsB B (fun s => do s1 <- f s; g s1).
Proof.
  intros Hf Hg s s' Hs H. bind_inv H s1 H1.
  destruct (Hf _ _ Hs H1) as [A X]. destruct (Hg _ _ A H) as [C D].
  split; [exact C|eapply same_trans; eassumption].
Qed.

Lemma add_line_okB B s l :
  sub_okB B s -> rline_width l <= N.max (swidth_ s) B -> sub_okB B (add_line s l).
Proof.
  intros (H3 & H4 & H5) Hl.
  destruct (add_line_same s l) as (a & b & c).
  destruct (add_line_lines s l H4) as (l' & El & Ew & Ep).
  unfold sub_okB. rewrite a, c, El. split; [|split; [exact Ep|exact H5]].
  intros r Hr. apply in_app_or in Hr. destruct Hr as [Hr|[<-|[]]]; [auto|lia].
Qed.

Lemma extend_lines_okB B ls : forall s,
  sub_okB B s -> (forall l, In l ls -> rline_width l <= N.max (swidth_ s) B) ->
  sub_okB B (extend_lines s ls) /\ same s (extend_lines s ls) /\
  wrapping (extend_lines s ls) = wrapping s.
Proof.
  unfold extend_lines. induction ls as [|l ls IH]; intros s Hs Hls; cbn [fold_left].
  - split; [exact Hs|]. split; [apply same_refl|reflexivity].
  - destruct (add_line_same s l) as (a & b & c).
    destruct (IH (add_line s l)) as (A & X & C).
    + apply add_line_okB; [exact Hs|]. apply Hls. left. reflexivity.
    + intros l' Hl'. rewrite a. apply Hls. right. exact Hl'.
    + split; [exact A|]. split; [|congruence].
      eapply same_trans; [apply add_line_same'|exact X].
Qed.

Lemma flush_wrapping_okB B s s' :
  sub_okB B s -> flush_wrapping s = Ok s' -> sub_okB B s' /\ same s s' /\ wrapping s' = None.
Proof.
  intros Hs H. unfold flush_wrapping in H. destruct (wrapping s) as [w|] eqn:Ew.
  - destruct (take_trailing_fragments w) as [w1 frags] eqn:Et.
    bind_inv H lm Hlm. ok_inv H.
    pose proof (wb_into_lines_markers_fst _ _ Hlm) as Hls.
    pose proof (frags_vw _ (wb_into_lines_markers_frags _ _ Hlm)) as Hmk.
    destruct lm as [ls mk]. cbn [fst snd] in *.
    pose proof Hs as (H3 & H4 & H5).
    destruct (take_frags_okB _ _ _ _ _ (H5 w Ew) Et) as [Hw1 Hfr].
    assert (Hs0 : sub_okB B (set_wrapping s None)).
    { apply sub_okB_mk; sprj; auto. intros ? [=]. }
    destruct (extend_lines_okB B (map RText ls) _ Hs0) as (A & (B1 & B2) & C).
    { intros l Hl. apply in_map_iff in Hl. destruct Hl as (tl & <- & Htl). sprj.
      cbn [rline_width]. eapply wb_into_lines_okB; eassumption. }
    sprj. destruct A as (A3 & A4 & A5).
    split; [|split; [split; sprj; auto|sprj; exact C]].
    apply sub_okB_mk; sprj; auto. rewrite !vw_app. lia.
  - ok_inv H. split; [exact Hs|]. split; [apply same_refl|exact Ew].
Qed.

Lemma flush_wrapping_keepsB B : keepsB B flush_wrapping.
Proof. intros s s' Hs H. destruct (flush_wrapping_okB B s s' Hs H) as (A & X & _). auto. Qed.

Lemma set_abe_okB B s b : sub_okB B s -> sub_okB B (set_abe s b).
Proof. apply sub_okB_ext; reflexivity. Qed.

Lemma add_empty_line_keepsB B : keepsB B add_empty_line.
Proof.
  intros s s' Hs H. unfold add_empty_line in H. bind_inv H s1 H1. ok_inv H.
  destruct (flush_wrapping_keepsB B _ _ Hs H1) as [A X].
  split.
  - apply set_abe_okB, add_line_okB; [exact A|]. cbn [rline_width]. rewrite raw_new. lia.
  - eapply same_trans; [exact X|]. destruct (add_line_same s1 (RText tl_new)) as (a & b & _).
    split; sprj; auto.
Qed.

Lemma start_block_keepsB B : keepsB B start_block.
Proof.
  intros s s' Hs H. unfold start_block in H. bind_inv H s1 H1. bind_inv H s2 H2. ok_inv H.
  destruct (flush_wrapping_keepsB B _ _ Hs H1) as [A X].
  assert (C : sub_okB B s2 /\ same s1 s2).
  { destruct (existsb rline_has_content (slines s1)).
    - apply add_empty_line_keepsB; assumption.
    - ok_inv H2. split; [exact A|apply same_refl]. }
  destruct C as [C D]. split; [apply set_abe_okB, C|].
  eapply same_trans; [exact X|]. eapply same_trans; [exact D|]. split; reflexivity.
Qed.

Lemma new_line_keepsB B : keepsB B new_line.
Proof. exact (flush_wrapping_keepsB B). Qed.

Lemma new_line_hard_keepsB B : keepsB B new_line_hard.
Proof.
  intros s s' Hs H. unfold new_line_hard in H. destruct (wrapping s) as [w|].
  - destruct ((wordlen w =? 0) && (tlen_ (wline w) =? 0)).
    + apply add_empty_line_keepsB; assumption.
    + apply flush_wrapping_keepsB; assumption.
  - apply add_empty_line_keepsB; assumption.
Qed.

(* ---- inline text ---- *)
Lemma get_wrapping_okB B s : sub_okB B s -> wb_okB (swidth_ s) B (get_wrapping s).
Proof.
  intros (H3 & H4 & H5). unfold get_wrapping. destruct (wrapping s) as [w|] eqn:Ew.
  - apply H5. reflexivity.
  - apply wb_new_okB. destruct (wrap_width (sopts s)); lia.
Qed.

Lemma set_wrapping_okB B s w :
  sub_okB B s -> wb_okB (swidth_ s) B w -> sub_okB B (set_wrapping s (Some w)).
Proof.
  intros (H3 & H4 & H5) Hw. apply sub_okB_mk; sprj; auto.
  intros w' [= <-]. exact Hw.
Qed.

Lemma chars_le_strikeout K t : chars_le K t -> chars_le K (filter_strikeout t).
Proof.
  unfold chars_le, filter_strikeout. intros H. apply Forall_forall. intros c Hc.
  apply in_flat_map in Hc. destruct Hc as (c0 & Hc0 & Hin). rewrite Forall_forall in H.
  specialize (H c0 Hc0).
  destruct (negb (ws c0) && (0 <? cw0 c0)); cbn [In] in Hin.
  - destruct Hin as [<-|[<-|[]]]; [exact H|]. unfold cw0, strike_chr. cbn [cw]. lia.
  - destruct Hin as [<-|[]]. exact H.
Qed.

Lemma chars_le_filters K n : forall t, chars_le K t -> chars_le K (apply_filters n t).
Proof.
  induction n as [|n IH]; intros t H; cbn [apply_filters]; [exact H|].
  apply IH, chars_le_strikeout, H.
Qed.

Lemma add_inline_text_keepsB B d t : chars_le B t -> keepsB B (fun s => add_inline_text d s t).
Proof.
  intros Ht s s' Hs H. unfold add_inline_text in H.
  destruct (negb (preserve_ws (ws_mode s)) && at_block_end s && all_ws t).
  { ok_inv H. split; [exact Hs|apply same_refl]. }
  bind_inv H s1 H1.
  assert (A : sub_okB B s1 /\ same s s1).
  { destruct (at_block_end s).
    - apply start_block_keepsB; assumption.
    - ok_inv H1. split; [exact Hs|apply same_refl]. }
  destruct A as [A X]. bind_inv H w1 Hw1. ok_inv H.
  split.
  - apply set_wrapping_okB; [exact A|].
    eapply wb_add_text_okB; [apply get_wrapping_okB, A| |exact Hw1].
    apply chars_le_filters, Ht.
  - eapply same_trans; [exact X|]. split; reflexivity.
Qed.

Lemma push_ann_pureB B a : keepsB B (fun s => Ok (push_ann s a)).
Proof. apply keepsB_pure. intros s. unfold push_ann. sprj. auto. Qed.
Lemma pop_ann_pureB B : keepsB B (fun s => Ok (pop_ann s)).
Proof. apply keepsB_pure. intros s. unfold pop_ann. sprj. auto. Qed.

Lemma start_deco_keepsB B d p : chars_le B (fst p) -> keepsB B (fun s => start_deco d s p).
Proof.
  intros Hp. unfold start_deco.
  exact (keepsB_comp B _ _ (push_ann_pureB B (snd p)) (add_inline_text_keepsB B d (fst p) Hp)).
Qed.

Lemma end_deco_keepsB B d e : chars_le B e -> keepsB B (fun s => end_deco d s e).
Proof.
  intros He. unfold end_deco.
  exact (keepsB_comp B _ _ (add_inline_text_keepsB B d e He) (pop_ann_pureB B)).
Qed.

Lemma start_strikeout_keepsB B d : chars_le B (fst (d_strike_start d)) -> keepsB B (start_strikeout d).
Proof.
  intros Hp. unfold start_strikeout. apply keepsB_comp; [apply (start_deco_keepsB B d), Hp|].
  apply keepsB_pure. intros s. destruct (o_strike (sopts s)); sprj; auto.
Qed.

Lemma end_strikeout_keepsB B d : chars_le B (d_strike_end d) -> keepsB B (end_strikeout d).
Proof.
  intros Hp. unfold end_strikeout. apply keepsB_comp; [|apply (end_deco_keepsB B d), Hp].
  intros s s' Hs H. destruct (o_strike (sopts s)).
  - destruct (filter_depth s); [discriminate|]. ok_inv H.
    split; [apply (sub_okB_ext B s); auto|split; reflexivity].
  - ok_inv H. split; [exact Hs|apply same_refl].
Qed.

Lemma add_image_keepsB B d src title :
  chars_le B (fst (d_image d src title)) -> keepsB B (fun s => add_image d s src title).
Proof.
  intros Hp. unfold add_image.
  exact (keepsB_comp B _ _ (keepsB_comp B _ _ (push_ann_pureB B _) (add_inline_text_keepsB B d _ Hp))
                     (pop_ann_pureB B)).
Qed.

Lemma record_frag_start_keepsB B name : keepsB B (fun s => Ok (record_frag_start s name)).
Proof.
  intros s s' Hs H. ok_inv H. unfold record_frag_start. split; [|split; reflexivity].
  apply set_wrapping_okB; [exact Hs|]. apply wb_add_frag_okB, get_wrapping_okB, Hs.
Qed.

Lemma end_block_pureB B : keepsB B (fun s => Ok (end_block s)).
Proof. apply keepsB_pure. intros s. unfold end_block. sprj. auto. Qed.
Lemma push_colour_pureB B d r g b : keepsB B (fun s => Ok (push_colour d s r g b)).
Proof. apply keepsB_pure. intros s. unfold push_colour, push_ann. destruct (d_colours d); sprj; auto. Qed.
Lemma push_bgcolour_pureB B d r g b : keepsB B (fun s => Ok (push_bgcolour d s r g b)).
Proof. apply keepsB_pure. intros s. unfold push_bgcolour, push_ann. destruct (d_colours d); sprj; auto. Qed.
Lemma pop_colour_pureB B d : keepsB B (fun s => Ok (pop_colour d s)).
Proof. apply keepsB_pure. intros s. unfold pop_colour, pop_ann. destruct (d_colours d); sprj; auto. Qed.
Lemma push_ws_mode_pureB B m : keepsB B (fun s => Ok (push_ws_mode s m)).
Proof. apply keepsB_pure. intros s. unfold push_ws_mode. sprj. auto. Qed.
Lemma pop_ws_mode_pureB B : keepsB B (fun s => Ok (pop_ws_mode s)).
Proof. apply keepsB_pure. intros s. unfold pop_ws_mode. sprj. auto. Qed.
Lemma push_preformat_pureB B : keepsB B (fun s => Ok (push_preformat s)).
Proof. apply keepsB_pure. intros s. unfold push_preformat. sprj. auto. Qed.
Lemma pop_preformat_keepsB B : keepsB B pop_preformat.
Proof.
  intros s s' Hs H. unfold pop_preformat in H. destruct (0 <? pre_depth s); [|discriminate].
  ok_inv H. split; [apply (sub_okB_ext B s); auto|split; reflexivity].
Qed.

Lemma new_sub_renderer_okB B s w : sub_okB B (new_sub_renderer s w).
Proof.
  unfold new_sub_renderer. apply sub_okB_mk; sprj; auto; [intros r []|intros ? [=]].
Qed.

(* ---- append_subrender (prefixes) ---- *)
Lemma sub_into_lines_okB B s ls :
  sub_okB B s -> sub_into_lines s = Ok ls ->
  forall r, In r ls -> rline_width r <= N.max (swidth_ s) B.
Proof.
  intros Hs H. unfold sub_into_lines in H. bind_inv H s1 H1. ok_inv H.
  destruct (flush_wrapping_okB B _ _ Hs H1) as ((A & _) & (X & _) & _).
  intros r Hr. rewrite <- X. auto.
Qed.

(* the child was rendered with bound B' at its own width; with prefixes of at most p columns its
   lines fit the parent's bound as soon as  p + max (child width) B' <= max (parent width) B *)
Lemma append_subrender_okB B B' s other first rest p s' :
  sub_okB B s -> sub_okB B' other -> swidth first <= p -> swidth rest <= p ->
  p + N.max (swidth_ other) B' <= N.max (swidth_ s) B ->
  append_subrender s other first rest = Ok s' -> sub_okB B s' /\ same s s'.
Proof.
  intros Hs Ho Hf Hr Hw H. unfold append_subrender in H.
  bind_inv H s1 H1. bind_inv H ols H2. ok_inv H.
  destruct (flush_wrapping_keepsB B _ _ Hs H1) as [A [X1 X2]].
  destruct (extend_lines_okB B (attach_prefixes (ann_stack s1) first rest ols) s1 A) as (C & D & _).
  - intros l Hl. rewrite X1.
    pose proof (attach_prefixes_width _ _ _ _ p (N.max (swidth_ other) B') Hf Hr
                  (sub_into_lines_okB _ _ _ Ho H2) l Hl). lia.
  - split; [exact C|]. eapply same_trans; [split; eassumption|exact D].
Qed.

(* ================================================================== *)
(* 3. fmt_links (footnote list): lines at most max width L, L >= the   *)
(*    widest character of a footnote                                   *)
(* ================================================================== *)

Lemma fl_chars_okB B t : forall cs s buf wl pos,
  sub_okB B s -> chars_le B cs ->
  tl_width_raw wl + swidth buf = pos -> pos <= N.max (swidth_ s) B ->
  let '(s1, buf1, wl1, pos1) := fl_chars s t cs buf wl pos in
  sub_okB B s1 /\ same s s1 /\ tl_width_raw wl1 + swidth buf1 = pos1 /\
  pos1 <= N.max (swidth_ s) B.
Proof.
  induction cs as [|c cs IH]; intros s buf wl pos Hs Hc Hpos Hle; cbn [fl_chars].
  - split; [exact Hs|]. split; [apply same_refl|auto].
  - inversion Hc as [|? ? Hc1 Hc2]; subst.
    destruct (N.ltb_spec (swidth_ s) (tl_width_raw wl + swidth buf + cw0 c)) as [Hov|Hfit].
    + set (wl1 := match buf with [] => wl | _ :: _ => tl_push_str wl buf t end).
      assert (Hwl1 : tl_width_raw wl1 = tl_width_raw wl + swidth buf).
      { unfold wl1. destruct buf; [rewrite swidth_nil; lia|apply raw_push_str]. }
      destruct (add_line_same' s (RText wl1)) as [a b].
      specialize (IH (add_line s (RText wl1)) [c] tl_new (0 + cw0 c)).
      destruct (fl_chars (add_line s (RText wl1)) t cs [c] tl_new (0 + cw0 c)) as [[[s1 buf1] wl2] pos1].
      destruct IH as (A & X & C & D).
      * apply add_line_okB; [exact Hs|]. cbn [rline_width]. lia.
      * exact Hc2.
      * rewrite raw_new, swidth_cons, swidth_nil. lia.
      * rewrite a. lia.
      * split; [exact A|]. split; [eapply same_trans; [split; eassumption|exact X]|].
        split; [exact C|]. rewrite a in D. exact D.
    + apply IH; auto.
      * rewrite swidth_app, swidth_cons, swidth_nil. lia.
      * lia.
Qed.

Lemma chars_le_nl' B t : 1 <= B -> chars_le B t -> chars_le B (nl_to_space t).
Proof. apply chars_le_nl. Qed.

Lemma fl_strings_okB B : forall strs s wl pos,
  sub_okB B s -> 1 <= B -> o_wrap_links (sopts s) = true ->
  Forall (fun st => chars_le B (fst st)) strs ->
  tl_width_raw wl = pos -> pos <= N.max (swidth_ s) B ->
  let '(s1, wl1) := fl_strings s strs wl pos in
  sub_okB B s1 /\ same s s1 /\ tl_width_raw wl1 <= N.max (swidth_ s) B.
Proof.
  induction strs as [|[str tg] strs IH]; intros s wl pos Hs HB Hwrap Hc Hpos Hle; cbn [fl_strings].
  - split; [exact Hs|]. split; [apply same_refl|lia].
  - inversion Hc as [|? ? Hc1 Hc2]; subst. cbn [fst] in Hc1.
    rewrite Hwrap. cbn [andb].
    destruct (N.ltb_spec (swidth_ s) (tl_width_raw wl + swidth (nl_to_space str))) as [Hov|Hfit].
    + pose proof (fl_chars_okB B [ADefault] (nl_to_space str) s [] wl (tl_width_raw wl) Hs
                    (chars_le_nl _ _ HB Hc1)) as F.
      destruct (fl_chars s [ADefault] (nl_to_space str) [] wl (tl_width_raw wl)) as [[[s1 buf] wl1] pos1].
      destruct F as (A & [X1 X2] & C & D); [rewrite swidth_nil; lia|exact Hle|].
      specialize (IH s1 (tl_push_str wl1 buf [ADefault]) pos1 A HB).
      destruct (fl_strings s1 strs (tl_push_str wl1 buf [ADefault]) pos1) as [s2 wl2].
      destruct IH as (E & F & G).
      * congruence.
      * exact Hc2.
      * rewrite raw_push_str. exact C.
      * rewrite X1. exact D.
      * split; [exact E|]. split; [eapply same_trans; [split; eassumption|exact F]|].
        rewrite X1 in G. exact G.
    + apply IH; auto.
      * rewrite raw_push_str. reflexivity.
      * lia.
Qed.

Lemma fmt_links_okB B : forall links s,
  sub_okB B s -> 1 <= B -> o_wrap_links (sopts s) = true ->
  Forall (fun l => Forall (fun st => chars_le B (fst st)) (tl_tagged_strings l)) links ->
  sub_okB B (fmt_links s links) /\ same s (fmt_links s links).
Proof.
  induction links as [|l links IH]; intros s Hs HB Hwrap Hl; cbn [fmt_links].
  - split; [exact Hs|apply same_refl].
  - inversion Hl as [|? ? Hl1 Hl2]; subst.
    pose proof (fl_strings_okB B (tl_tagged_strings l) s tl_new 0 Hs HB Hwrap Hl1 raw_new) as F.
    destruct (fl_strings s (tl_tagged_strings l) tl_new 0) as [s1 wl].
    destruct F as (A & [X1 X2] & C); [lia|].
    destruct (add_line_same' s1 (RText wl)) as [a b].
    destruct (IH (add_line s1 (RText wl))) as [D E].
    + apply add_line_okB; [exact A|]. cbn [rline_width]. lia.
    + exact HB.
    + congruence.
    + exact Hl2.
    + split; [exact D|]. eapply same_trans; [|exact E]. split; congruence.
Qed.

(* ================================================================== *)
(* 4. The bound, a function of the tree (and decorator, min_wrap)      *)
(* ================================================================== *)

(* the widest character of a string *)
Definition cwmax (t : text) : N := maxN (map cw0 t).

Lemma chars_le_cwmax B t : cwmax t <= B -> chars_le B t.
Proof.
  unfold cwmax, chars_le. induction t as [|c t IH]; intros H; [constructor|].
  cbn [map maxN] in H. constructor; [lia|apply IH; lia].
Qed.

Lemma maxN_le (l : list N) B : (forall x, In x l -> x <= B) -> maxN l <= B.
Proof.
  induction l as [|x l IH]; intros H; cbn [maxN]; [lia|].
  pose proof (H x (or_introl eq_refl)). specialize (IH (fun y Hy => H y (or_intror Hy))). lia.
Qed.

Lemma maxN_in (l : list N) x : In x l -> x <= maxN l.
Proof.
  induction l as [|y l IH]; intros H; [destruct H|]. cbn [maxN].
  destruct H as [->|H]; [lia|specialize (IH H); lia].
Qed.

Lemma maxN_map_in {A} (f : A -> N) l a : In a l -> f a <= maxN (map f l).
Proof. intros H. apply maxN_in, in_map, H. Qed.

Section Bound.
  Variable d : deco.
  Variable mw : N.

  (* the width render_node reserves for the numbers of an ordered list *)
  Definition olpw (start : Z) (n : nat) : N :=
    N.max (swidth (d_ol_prefix d start))
          (swidth (d_ol_prefix d (isat64 (isat64 (start + Z.of_nat n) - 1)))).

  (* the estimated minimum width (e_min of est_node) of a table-free node, as a function *)
  Fixpoint emin_b (n : rnode) {struct n} : N :=
    match rn_info n with
    | IText t => e_min (text_est mw t false)
    | IImg _ t => e_min (text_est mw t true)
    | IContainer cs | IEm cs | IStrong cs | IStrikeout cs | ICode cs | IBlock cs | IDiv cs
    | IDl cs | IDt cs | IListItem cs | ISup cs => maxN (map emin_b cs)
    | ILink _ cs => N.max (maxN (map emin_b cs)) 5
    | IDd cs => maxN (map emin_b cs) + 2
    | IBlockQuote cs => maxN (map emin_b cs) + swidth (d_quote_prefix d)
    | IUl cs => maxN (map emin_b cs) + swidth (d_ul_prefix d)
    | IOl i cs => maxN (map emin_b cs) + olpw i (length cs)
    | IHeader level cs => maxN (map emin_b cs) + swidth (d_header_prefix d level)
    | IBreak => 1
    | IFragStart _ => 0
    | ITable _ _ | ITableBody _ | ITableRow _ | ITableCell _ => 0
    end.

  Definition affix_cw (p : text * ann) (e : text) : N := N.max (cwmax (fst p)) (cwmax e).

  (* THE BOUND.  A leaf needs its widest character; an inline element also the widest character
     of its decorator affixes (a link: and 1 for the "[n]" footnote reference); a prefixed block
     needs its prefix plus the larger of the minimum width the layout reserves for its content
     (emin_b) and what the content needs. *)
  Fixpoint tb (n : rnode) {struct n} : N :=
    match rn_info n with
    | IText t => cwmax t
    | IImg src title => cwmax (fst (d_image d src title))
    | IContainer cs | IBlock cs | IDiv cs | IDl cs | IListItem cs => maxN (map tb cs)
    | ILink href cs =>
      N.max (N.max 1 (affix_cw (d_link_start d href) (d_link_end d))) (maxN (map tb cs))
    | IEm cs | IDt cs => N.max (affix_cw (d_em_start d) (d_em_end d)) (maxN (map tb cs))
    | IStrong cs => N.max (affix_cw (d_strong_start d) (d_strong_end d)) (maxN (map tb cs))
    | IStrikeout cs => N.max (affix_cw (d_strike_start d) (d_strike_end d)) (maxN (map tb cs))
    | ICode cs => N.max (affix_cw (d_code_start d) (d_code_end d)) (maxN (map tb cs))
    | ISup cs =>
      match sup_digits cs with
      | Some _ => 1
      | None => N.max (affix_cw (d_sup_start d) (d_sup_end d)) (maxN (map tb cs))
      end
    | IDd cs => 2 + N.max (maxN (map emin_b cs)) (maxN (map tb cs))
    | IBlockQuote cs =>
      swidth (d_quote_prefix d) + N.max (maxN (map emin_b cs)) (maxN (map tb cs))
    | IUl cs => swidth (d_ul_prefix d) + N.max (maxN (map emin_b cs)) (maxN (map tb cs))
    | IOl i cs => olpw i (length cs) + N.max (maxN (map emin_b cs)) (maxN (map tb cs))
    | IHeader level cs =>
      swidth (d_header_prefix d level) + N.max (maxN (map emin_b cs)) (maxN (map tb cs))
    | IBreak | IFragStart _ => 0
    | ITable _ _ | ITableBody _ | ITableRow _ | ITableCell _ => 0
    end.

  (* ---- emin_b is the model's estimate ---- *)
  Lemma est_fold_min : forall cs a e,
    Forall (fun c => forall e', est_node d mw c = Ok e' -> e_min e' = emin_b c) cs ->
    fold_left (fun acc c => do a <- acc; do e <- est_node d mw c; Ok (est_add a e)) cs (Ok a) = Ok e ->
    e_min e = N.max (e_min a) (maxN (map emin_b cs)).
  Proof.
    induction cs as [|c cs IH]; intros a e HF H.
    - cbn [fold_left] in H. injection H as <-. cbn [map maxN]. lia.
    - apply (fold_bind_cons (fun c a => do e <- est_node d mw c; Ok (est_add a e))) in H.
      destruct H as (a1 & H1 & H). bind_inv H1 e1 He1. injection H1 as <-.
      inversion HF as [|? ? Hc Hcs]; subst.
      rewrite (IH _ _ Hcs H). cbn [est_add e_min map maxN]. rewrite (Hc _ He1). lia.
  Qed.

  Lemma est_kids_min cs e :
    Forall (fun c => forall e', est_node d mw c = Ok e' -> e_min e' = emin_b c) cs ->
    est_kids d mw cs = Ok e -> e_min e = maxN (map emin_b cs).
  Proof.
    intros HF H. unfold est_kids in H. rewrite (est_fold_min _ _ _ HF H). cbn [est0 e_min]. lia.
  Qed.

  Lemma prefixed_est_min cs pw sz :
    Forall (fun c => forall e', est_node d mw c = Ok e' -> e_min e' = emin_b c) cs ->
    (do e <- est_kids d mw cs;
     let r := est_add_hor e (mkest pw pw 0) in Ok (mkest (e_size r) (e_min r) pw)) = Ok sz ->
    e_prefix sz = pw /\ e_min sz = maxN (map emin_b cs) + pw.
  Proof.
    intros HF H. bind_inv H e He. injection H as <-. cbn [e_prefix e_min est_add_hor].
    rewrite (est_kids_min _ _ HF He). auto.
  Qed.

  Lemma kids_IH (P : rnode -> Prop) cs :
    Forall (fun c => no_table c = true -> P c) cs -> forallb no_table cs = true -> Forall P cs.
  Proof.
    intros HF Hn. rewrite Forall_forall in *. rewrite forallb_forall in Hn. auto.
  Qed.

  Lemma est_min : forall n, no_table n = true ->
    forall e, est_node d mw n = Ok e -> e_min e = emin_b n.
  Proof.
    apply (rnode_ind' (fun n => no_table n = true ->
                                forall e, est_node d mw n = Ok e -> e_min e = emin_b n)).
    intros i sty IH Hn e H.
    destruct i; cbn [direct_kids] in IH; cbn [no_table rn_info] in Hn; try discriminate;
      try (pose proof (kids_IH _ _ IH Hn) as HF; clear IH);
      cbn [est_node rn_info ol_prefix_size bind] in H; cbn [emin_b rn_info];
      try (exact (est_kids_min _ _ HF H));
      try (apply prefixed_est_min in H; [|exact HF]; destruct H as [_ H]; exact H).
    - injection H as <-. reflexivity.
    - bind_inv H e0 He0. injection H as <-. cbn [est_add e_min].
      rewrite (est_kids_min _ _ HF He0). reflexivity.
    - injection H as <-. reflexivity.
    - injection H as <-. reflexivity.
  Qed.
End Bound.

(* ================================================================== *)
(* 5. The render layer                                                 *)
(* ================================================================== *)

Lemma affix_le B p e : affix_cw p e <= B -> chars_le B (fst p) /\ chars_le B e.
Proof. unfold affix_cw. intros H. split; apply chars_le_cwmax; lia. Qed.

Lemma sup_digits_w1 cs ds : sup_digits cs = Some ds -> chars_le 1 ds.
Proof.
  unfold sup_digits. destruct cs as [|n [|n' cs]]; try discriminate.
  destruct (rn_info n); try discriminate. destruct (forallb is_ascii_digit t); [|discriminate].
  intros [= <-]. unfold chars_le. apply Forall_forall. intros c Hc.
  apply in_map_iff in Hc. destruct Hc as (c0 & <- & _). unfold cw0, sup_char. cbn [cw]. lia.
Qed.

Lemma width_minus_eq tp p m w : width_minus tp p m = Ok w -> w = N.max (swidth_ tp - p) m.
Proof.
  unfold width_minus. destruct (_ && _); [discriminate|]. intros [= <-]. reflexivity.
Qed.

Section RenderLayerB.
  Variable d : deco.
  Variable mw : N.
  Variable fn : bool.     (* footnotes are on: link targets are checked *)
  Variable L : N.         (* the bound on the width of link-target characters *)
  Hypothesis Hd : ol_prefix_monotone d.
  Hypothesis Hsat : ol_prefix_sat d.

  (* one bound per sub-renderer on the stack, innermost first *)
  Definition st_invB (Bs : list N) (st : rstate) : Prop :=
    Forall2 sub_okB Bs (stack st) /\ (fn = true -> Forall (chars_le L) (links st)).

  Definition RB (Bs : list N) (st st' : rstate) : Prop :=
    st_invB Bs st' /\ shape st' = shape st.

  Lemma RB_refl Bs st : st_invB Bs st -> RB Bs st st.
  Proof. intros H. split; [exact H|reflexivity]. Qed.
  Lemma RB_trans Bs a b c : RB Bs a b -> RB Bs b c -> RB Bs a c.
  Proof. intros [A1 A2] [B1 B2]. split; [exact B1|congruence]. Qed.

  Definition keepsWB (a B : N) (f : subr -> res subr) : Prop :=
    forall s s', sub_okB B s -> swidth_ s = a -> f s = Ok s' -> sub_okB B s' /\ same s s'.

  Lemma with_top_RWB a B Bs f st st' :
    keepsWB a B f -> topw st = Some a -> st_invB (B :: Bs) st -> with_top st f = Ok st' ->
    RB (B :: Bs) st st'.
  Proof.
    intros Hk Ht [Hi1 Hi2] H. destruct (with_top_inv _ _ _ H) as (s & rest & s' & Es & Ef & ->).
    unfold topw in Ht. rewrite Es in *. injection Ht as Ht.
    inversion Hi1 as [|B0 s0 Bs0 rest0 Hs Hrest]; subst.
    destruct (Hk s s' Hs eq_refl Ef) as [A [X1 X2]].
    split; [split|].
    - cbn [stack]. constructor; assumption.
    - exact Hi2.
    - unfold shape. cbn [stack]. rewrite Es. cbn [map]. congruence.
  Qed.

  Lemma with_top_RB B Bs f st st' :
    keepsB B f -> st_invB (B :: Bs) st -> with_top st f = Ok st' -> RB (B :: Bs) st st'.
  Proof.
    intros Hk Hi H. destruct (with_top_inv _ _ _ H) as (s & rest & s' & Es & Ef & E).
    eapply (with_top_RWB (swidth_ s) B Bs f); [|unfold topw; rewrite Es; reflexivity|exact Hi|exact H].
    intros x x' Hx _ Hf. apply Hk; assumption.
  Qed.

  Lemma with_top'_RB B Bs g st st' :
    keepsB B (fun s => Ok (g s)) -> st_invB (B :: Bs) st -> with_top' st g = Ok st' ->
    RB (B :: Bs) st st'.
  Proof. unfold with_top'. apply with_top_RB. Qed.

  Lemma apply_style_RB B Bs st cs st' p :
    st_invB (B :: Bs) st -> apply_style d st cs = Ok (st', p) -> RB (B :: Bs) st st'.
  Proof.
    intros Hi H. unfold apply_style in H.
    bind_inv H st1 H1. bind_inv H st2 H2. bind_inv H st3 H3. bind_inv H st4 H4.
    injection H as <- _.
    assert (R1 : RB (B :: Bs) st st1).
    { destruct (ws_val (c_colour (cs_core cs))) as [[[r g] b]|].
      - eapply with_top'_RB; [apply push_colour_pureB|exact Hi|exact H1].
      - ok_inv H1. apply RB_refl, Hi. }
    assert (R2 : RB (B :: Bs) st1 st2).
    { destruct (ws_val (c_bg (cs_core cs))) as [[[r g] b]|].
      - eapply with_top'_RB; [apply push_bgcolour_pureB|exact (proj1 R1)|exact H2].
      - ok_inv H2. apply RB_refl, R1. }
    assert (R3 : RB (B :: Bs) st2 st3).
    { destruct (match ws_val (c_white_space (cs_core cs)) with
                | Some WsPre => Some WsPre
                | Some WsPreWrap => Some WsPreWrap
                | _ => None
                end) as [m|].
      - eapply with_top'_RB; [apply push_ws_mode_pureB|exact (proj1 R2)|exact H3].
      - ok_inv H3. apply RB_refl, R2. }
    assert (R4 : RB (B :: Bs) st3 st4).
    { destruct (cs_internal_pre cs).
      - eapply with_top'_RB; [apply push_preformat_pureB|exact (proj1 R3)|exact H4].
      - ok_inv H4. apply RB_refl, R3. }
    eapply RB_trans; [|exact R4]. eapply RB_trans; [|exact R3]. eapply RB_trans; eassumption.
  Qed.

  Lemma unwind_RB B Bs p st st' :
    st_invB (B :: Bs) st -> unwind d p st = Ok st' -> RB (B :: Bs) st st'.
  Proof.
    intros Hi H. unfold unwind in H.
    bind_inv H st1 H1. bind_inv H st2 H2. bind_inv H st3 H3.
    assert (R1 : RB (B :: Bs) st st1).
    { destruct (p_bg p).
      - eapply with_top'_RB; [apply pop_colour_pureB|exact Hi|exact H1].
      - ok_inv H1. apply RB_refl, Hi. }
    assert (R2 : RB (B :: Bs) st1 st2).
    { destruct (p_colour p).
      - eapply with_top'_RB; [apply pop_colour_pureB|exact (proj1 R1)|exact H2].
      - ok_inv H2. apply RB_refl, R1. }
    assert (R3 : RB (B :: Bs) st2 st3).
    { destruct (p_ws p).
      - eapply with_top'_RB; [apply pop_ws_mode_pureB|exact (proj1 R2)|exact H3].
      - ok_inv H3. apply RB_refl, R2. }
    assert (R4 : RB (B :: Bs) st3 st').
    { destruct (p_pre p).
      - eapply with_top_RB; [apply pop_preformat_keepsB|exact (proj1 R3)|exact H].
      - ok_inv H. apply RB_refl, R3. }
    eapply RB_trans; [|exact R4]. eapply RB_trans; [|exact R3]. eapply RB_trans; eassumption.
  Qed.

  Lemma inline_text_RB B Bs t st st' :
    chars_le B t -> st_invB (B :: Bs) st -> inline_text d st t = Ok st' -> RB (B :: Bs) st st'.
  Proof. intros Ht. unfold inline_text. apply with_top_RB, add_inline_text_keepsB, Ht. Qed.

  (* ---- the per-node property and the fold over children ---- *)
  Definition node_okB (n : rnode) : Prop :=
    forall B Bs st st', no_table n = true -> tree_ok fn L n = true -> tb d mw n <= B ->
      st_invB (B :: Bs) st -> render_node d mw n st = Ok st' -> RB (B :: Bs) st st'.

  Lemma render_kids_RB B Bs cs st st' :
    Forall node_okB cs -> forallb no_table cs = true -> forallb (tree_ok fn L) cs = true ->
    maxN (map (tb d mw) cs) <= B -> st_invB (B :: Bs) st ->
    fold_left (fun acc c => do s <- acc; render_node d mw c s) cs (Ok st) = Ok st' ->
    RB (B :: Bs) st st'.
  Proof.
    intros HF Hn Ht HB Hi H.
    apply (fold_bind_inv (fun a => RB (B :: Bs) st a) (render_node d mw) cs) with (a := st);
      [|apply RB_refl, Hi|exact H].
    intros c Hc a a' Ra Hr. eapply RB_trans; [exact Ra|].
    rewrite Forall_forall in HF. rewrite forallb_forall in Hn, Ht.
    apply (HF c Hc B Bs a a' (Hn c Hc) (Ht c Hc)); [|exact (proj1 Ra)|exact Hr].
    pose proof (maxN_map_in (tb d mw) cs c Hc). lia.
  Qed.

  (* ---- nested sub-renderers ---- *)
  Lemma push_invB B B' Bs st tp w :
    st_invB (B :: Bs) st -> top st = Ok tp ->
    st_invB (B' :: B :: Bs) (push_sub st (new_sub_renderer tp w)).
  Proof.
    intros [Hi1 Hi2] Ht. split; [|exact Hi2].
    cbn [push_sub stack]. constructor; [apply new_sub_renderer_okB|exact Hi1].
  Qed.

  Lemma sub_scopeB B B' Bs st tp w st2 sub st3 :
    st_invB (B :: Bs) st -> top st = Ok tp ->
    RB (B' :: B :: Bs) (push_sub st (new_sub_renderer tp w)) st2 ->
    pop_sub st2 = Ok (sub, st3) ->
    RB (B :: Bs) st st3 /\ sub_okB B' sub /\ swidth_ sub = w.
  Proof.
    intros Hi Ht [[I1 I2] E] Hp. unfold pop_sub in Hp.
    destruct (stack st2) as [|s rest] eqn:Es; [discriminate|]. injection Hp as -> <-.
    inversion I1 as [|? ? ? ? Hs Hr]; subst.
    unfold shape in E. rewrite Es in E. cbn [push_sub stack map] in E. injection E as E1 E2 E3.
    split; [split; [split|]|split].
    - exact Hr.
    - exact I2.
    - exact E3.
    - exact Hs.
    - exact E1.
  Qed.

  (* a prefixed block: width_minus, push, body (bound B'), pop; afterwards the child can be
     appended with any prefixes of at most p columns *)
  Lemma prefixed_scopeB B B' Bs st tp p m w st2 sub st3 :
    st_invB (B :: Bs) st -> top st = Ok tp -> width_minus tp p m = Ok w ->
    p + N.max m B' <= B ->
    (st_invB (B' :: B :: Bs) (push_sub st (new_sub_renderer tp w)) ->
     RB (B' :: B :: Bs) (push_sub st (new_sub_renderer tp w)) st2) ->
    pop_sub st2 = Ok (sub, st3) ->
    RB (B :: Bs) st st3 /\
    forall first rest, swidth first <= p -> swidth rest <= p ->
      keepsWB (swidth_ tp) B (fun s => append_subrender s sub first rest).
  Proof.
    intros Hi Ht Hw HB Hbody Hp.
    pose proof (width_minus_eq _ _ _ _ Hw) as Ew.
    pose proof (push_invB B B' Bs st tp w Hi Ht) as Hi1.
    destruct (sub_scopeB B B' Bs st tp w st2 sub st3 Hi Ht (Hbody Hi1) Hp) as (R3 & Hsub & Esub).
    split; [exact R3|].
    intros first rest H1 H2 s s' Hs Es Happ.
    eapply (append_subrender_okB B B' s sub first rest p); try eassumption. lia.
  Qed.

  (* ---- the simple node kinds ---- *)
  Lemma wrap_caseB B Bs (f1 f2 : subr -> res subr) cs ps st1 st' :
    keepsB B f1 -> keepsB B f2 -> Forall node_okB cs ->
    forallb no_table cs = true -> forallb (tree_ok fn L) cs = true ->
    maxN (map (tb d mw) cs) <= B ->
    st_invB (B :: Bs) st1 ->
    (do a <- with_top st1 f1;
     do b <- fold_left (fun acc c => do s <- acc; render_node d mw c s) cs (Ok a);
     do c <- with_top b f2; unwind d ps c) = Ok st' -> RB (B :: Bs) st1 st'.
  Proof.
    intros K1 K2 HF Hn Ht HB Hi H.
    bind_inv H a H1. bind_inv H b H2. bind_inv H c H3.
    pose proof (with_top_RB _ _ _ _ _ K1 Hi H1) as Ra.
    pose proof (render_kids_RB _ _ _ _ _ HF Hn Ht HB (proj1 Ra) H2) as Rb.
    pose proof (with_top_RB _ _ _ _ _ K2 (proj1 Rb) H3) as Rc.
    pose proof (unwind_RB _ _ _ _ _ (proj1 Rc) H) as Rd.
    eapply RB_trans; [exact Ra|]. eapply RB_trans; [exact Rb|]. eapply RB_trans; eassumption.
  Qed.

  Lemma est_facts cs :
    forallb no_table cs = true ->
    Forall (fun c => forall e', est_node d mw c = Ok e' -> e_min e' = emin_b d mw c) cs.
  Proof.
    intros Hn. apply Forall_forall. intros c Hc. rewrite forallb_forall in Hn.
    apply est_min, Hn, Hc.
  Qed.

  (* ---- ordered lists ---- *)
  Lemma ol_items_RB B B' Bs sz pw start0 (n : nat) : forall items k s r,
    Forall node_okB items -> forallb no_table items = true ->
    forallb (tree_ok fn L) items = true -> maxN (map (tb d mw) items) <= B' ->
    (forall j, (j < n)%nat -> swidth (d_ol_prefix d (ol_idx start0 j)) <= pw) ->
    (k + length items = n)%nat -> (i64_min <= start0)%Z ->
    pw + N.max (e_min sz - e_prefix sz) B' <= B ->
    st_invB (B :: Bs) s ->
    fold_left (fun acc item => do si <- acc; ol_step d mw sz pw item si) items
              (Ok (s, ol_idx start0 k)) = Ok r ->
    RB (B :: Bs) s (fst r).
  Proof.
    induction items as [|item items IH]; intros k s r HF Hn Ht HB' Hlen Hk Hmin HB Hi H.
    - cbn [fold_left] in H. ok_inv H. apply RB_refl, Hi.
    - apply fold_bind_cons in H. destruct H as ([s4 i'] & Hstep & H).
      pose proof (Forall_inv HF) as HF1. pose proof (Forall_inv_tail HF) as HF2.
      cbn [forallb] in Hn, Ht. apply andb_true_iff in Hn, Ht.
      destruct Hn as [Hn1 Hn2]. destruct Ht as [Ht1 Ht2].
      cbn [length] in Hk. cbn [map maxN] in HB'.
      unfold ol_step in Hstep.
      bind_inv Hstep iw Hiw. unfold usub in Hiw.
      destruct (e_prefix sz <=? e_min sz); [|discriminate]. ok_inv Hiw.
      bind_inv Hstep tp Htp. bind_inv Hstep w Hw. bind_inv Hstep s2 Hs2. bind_inv Hstep pp Hpp.
      destruct pp as [sub s3]. bind_inv Hstep s4' H4. injection Hstep as -> <-.
      destruct (prefixed_scopeB B B' Bs _ _ _ _ _ s2 sub s3 Hi Htp Hw HB) as [R3 Kapp];
        [|exact Hpp|].
      { intros Ip. eapply HF1; [exact Hn1|exact Ht1|lia|exact Ip|exact Hs2]. }
      assert (R4 : RB (B :: Bs) s3 s4).
      { eapply (with_top_RWB (swidth_ tp)); [|
          rewrite (shape_topw _ _ (proj2 R3)); apply top_topw, Htp|exact (proj1 R3)|exact H4].
        apply Kapp.
        - rewrite swidth_pad_width. specialize (Hlen k ltac:(lia)). lia.
        - rewrite swidth_pad_chars, swidth_nil. cbn [length]. lia. }
      assert (R04 : RB (B :: Bs) s s4) by (eapply RB_trans; eassumption).
      eapply RB_trans; [exact R04|].
      rewrite (ol_idx_succ _ _ Hmin) in H.
      eapply (IH (S k) s4 r); try eassumption; try lia.
      exact (proj1 R04).
  Qed.

  Ltac startB H Hinv sz Hsz ap st1 ps R1 :=
    let Hap := fresh "Hap" in
    bind_inv H sz Hsz; bind_inv H ap Hap; destruct ap as [st1 ps];
    pose proof (apply_style_RB _ _ _ _ _ _ Hinv Hap) as R1.

  Lemma node_okB_all : forall n, node_okB n.
  Proof.
    apply rnode_ind'. intros i sty IH B Bs st st' Hn Ht HB Hinv H.
    destruct i; cbn [direct_kids] in IH;
      cbn [no_table rn_info] in Hn; try discriminate;
      cbn [render_node rn_info rn_style] in H; cbn [tree_ok rn_info] in Ht;
      cbn [tb rn_info] in HB.
    - (* IText *)
      startB H Hinv sz Hsz ap st1 ps R1. bind_inv H st2 H2.
      pose proof (inline_text_RB _ _ _ _ _ (chars_le_cwmax _ _ HB) (proj1 R1) H2) as R2.
      pose proof (unwind_RB _ _ _ _ _ (proj1 R2) H) as R3.
      eapply RB_trans; [exact R1|]. eapply RB_trans; eassumption.
    - (* IContainer *)
      startB H Hinv sz Hsz ap st1 ps R1. bind_inv H st2 H2.
      pose proof (render_kids_RB _ _ _ _ _ IH Hn Ht HB (proj1 R1) H2) as R2.
      pose proof (unwind_RB _ _ _ _ _ (proj1 R2) H) as R3.
      eapply RB_trans; [exact R1|]. eapply RB_trans; eassumption.
    - (* ILink *)
      startB H Hinv sz Hsz ap st1 ps R1.
      apply andb_true_iff in Ht. destruct Ht as [Hh Ht].
      destruct (affix_le B (d_link_start d href) (d_link_end d) ltac:(lia)) as [Ha1 Ha2].
      pose proof (proj1 R1) as I1.
      set (st1' := mkrst (stack st1) (links st1 ++ [href])) in H.
      assert (R1' : RB (B :: Bs) st1 st1').
      { split; [|reflexivity]. destruct I1 as [X Y]. split; [exact X|].
        intros Hfn. cbn [links st1']. apply Forall_app. split; [auto|].
        constructor; [|constructor]. rewrite Hfn in Hh. cbn [negb orb] in Hh.
        unfold chars_le. apply Forall_forall. intros c Hc.
        rewrite forallb_forall in Hh. specialize (Hh c Hc). lia. }
      bind_inv H st2 H2. bind_inv H st3 H3. bind_inv H st4 H4. bind_inv H tp H5. bind_inv H st5 H6.
      pose proof (with_top_RB _ _ _ _ _ (start_deco_keepsB B d (d_link_start d href) Ha1)
                    (proj1 R1') H2) as R2.
      assert (HBk : maxN (map (tb d mw) cs) <= B) by lia.
      pose proof (render_kids_RB _ _ _ _ _ IH Hn Ht HBk (proj1 R2) H3) as R3.
      pose proof (with_top_RB _ _ _ _ _ (end_deco_keepsB B d (d_link_end d) Ha2) (proj1 R3) H4) as R4.
      assert (R5 : RB (B :: Bs) st4 st5).
      { destruct (o_footnotes (sopts tp)).
        - eapply inline_text_RB; [|exact (proj1 R4)|exact H6]. apply chars_le_ascii. lia.
        - ok_inv H6. apply RB_refl, R4. }
      pose proof (unwind_RB _ _ _ _ _ (proj1 R5) H) as R6.
      eapply RB_trans; [exact R1|]. eapply RB_trans; [exact R1'|]. eapply RB_trans; [exact R2|].
      eapply RB_trans; [exact R3|]. eapply RB_trans; [exact R4|]. eapply RB_trans; eassumption.
    - (* IEm *)
      startB H Hinv sz Hsz ap st1 ps R1. eapply RB_trans; [exact R1|].
      destruct (affix_le B (d_em_start d) (d_em_end d) ltac:(lia)) as [Ha1 Ha2].
      eapply (wrap_caseB B Bs (start_emphasis d) (end_emphasis d)); try eassumption;
        [apply (start_deco_keepsB B d), Ha1|apply (end_deco_keepsB B d), Ha2|lia|exact (proj1 R1)].
    - (* IStrong *)
      startB H Hinv sz Hsz ap st1 ps R1. eapply RB_trans; [exact R1|].
      destruct (affix_le B (d_strong_start d) (d_strong_end d) ltac:(lia)) as [Ha1 Ha2].
      eapply (wrap_caseB B Bs (start_strong d) (end_strong d)); try eassumption;
        [apply (start_deco_keepsB B d), Ha1|apply (end_deco_keepsB B d), Ha2|lia|exact (proj1 R1)].
    - (* IStrikeout *)
      startB H Hinv sz Hsz ap st1 ps R1. eapply RB_trans; [exact R1|].
      destruct (affix_le B (d_strike_start d) (d_strike_end d) ltac:(lia)) as [Ha1 Ha2].
      eapply (wrap_caseB B Bs (start_strikeout d) (end_strikeout d)); try eassumption;
        [apply start_strikeout_keepsB, Ha1|apply end_strikeout_keepsB, Ha2|lia|exact (proj1 R1)].
    - (* ICode *)
      startB H Hinv sz Hsz ap st1 ps R1. eapply RB_trans; [exact R1|].
      destruct (affix_le B (d_code_start d) (d_code_end d) ltac:(lia)) as [Ha1 Ha2].
      eapply (wrap_caseB B Bs (start_code d) (end_code d)); try eassumption;
        [apply (start_deco_keepsB B d), Ha1|apply (end_deco_keepsB B d), Ha2|lia|exact (proj1 R1)].
    - (* IImg *)
      startB H Hinv sz Hsz ap st1 ps R1. bind_inv H st2 H2.
      pose proof (with_top_RB _ _ _ _ _ (add_image_keepsB B d src title (chars_le_cwmax _ _ HB))
                    (proj1 R1) H2) as R2.
      pose proof (unwind_RB _ _ _ _ _ (proj1 R2) H) as R3.
      eapply RB_trans; [exact R1|]. eapply RB_trans; eassumption.
    - (* IBlock *)
      startB H Hinv sz Hsz ap st1 ps R1. eapply RB_trans; [exact R1|].
      eapply (wrap_caseB B Bs start_block (fun s => Ok (end_block s))); try eassumption;
        [apply start_block_keepsB|apply end_block_pureB|exact (proj1 R1)].
    - (* IHeader *)
      startB H Hinv sz Hsz ap st1 ps R1. pose proof (proj1 R1) as I1.
      unfold est_of in Hsz. cbn [est_node rn_info] in Hsz.
      apply prefixed_est_min in Hsz; [|apply est_facts, Hn]. destruct Hsz as [Ep Em].
      destruct (N.eqb_spec (swidth (d_header_prefix d level)) (e_prefix sz)) as [Ep'|];
        cbn [negb] in H; [|discriminate].
      bind_inv H tp Htp. bind_inv H w Hw. bind_inv H st2 H2. bind_inv H pp Hpp.
      destruct pp as [sub st3]. bind_inv H st4 H4. bind_inv H st5 H5. bind_inv H st6 H6.
      destruct (prefixed_scopeB B (B - e_prefix sz) Bs _ _ _ _ _ st2 sub st3 I1 Htp Hw)
        as [R3 Kapp]; [lia| |exact Hpp|].
      { intros Ip. eapply render_kids_RB; try eassumption. lia. }
      pose proof (with_top_RB _ _ _ _ _ (start_block_keepsB B) (proj1 R3) H4) as R4.
      assert (R5 : RB (B :: Bs) st4 st5).
      { eapply (with_top_RWB (swidth_ tp)); [|
          rewrite (shape_topw _ _ (proj2 R4)), (shape_topw _ _ (proj2 R3)); apply top_topw, Htp
          |exact (proj1 R4)|exact H5].
        apply Kapp; rewrite Ep'; lia. }
      pose proof (with_top'_RB _ _ _ _ _ (end_block_pureB B) (proj1 R5) H6) as R6.
      pose proof (unwind_RB _ _ _ _ _ (proj1 R6) H) as R7.
      eapply RB_trans; [exact R1|]. eapply RB_trans; [exact R3|]. eapply RB_trans; [exact R4|].
      eapply RB_trans; [exact R5|]. eapply RB_trans; eassumption.
    - (* IDiv *)
      startB H Hinv sz Hsz ap st1 ps R1. eapply RB_trans; [exact R1|].
      eapply (wrap_caseB B Bs new_line new_line); try eassumption;
        [apply new_line_keepsB|apply new_line_keepsB|exact (proj1 R1)].
    - (* IBlockQuote *)
      startB H Hinv sz Hsz ap st1 ps R1. pose proof (proj1 R1) as I1.
      unfold est_of in Hsz. cbn [est_node rn_info] in Hsz.
      apply prefixed_est_min in Hsz; [|apply est_facts, Hn]. destruct Hsz as [Ep Em].
      destruct (e_prefix sz =? swidth (d_quote_prefix d)); cbn [negb] in H; [|discriminate].
      bind_inv H iw Hiw. unfold usub in Hiw.
      destruct (swidth (d_quote_prefix d) <=? e_min sz); [|discriminate]. ok_inv Hiw.
      bind_inv H tp Htp. bind_inv H w Hw. bind_inv H st2 H2. bind_inv H pp Hpp.
      destruct pp as [sub st3]. bind_inv H st4 H4. bind_inv H st5 H5. bind_inv H st6 H6.
      destruct (prefixed_scopeB B (B - swidth (d_quote_prefix d)) Bs _ _ _ _ _ st2 sub st3 I1 Htp Hw)
        as [R3 Kapp]; [lia| |exact Hpp|].
      { intros Ip. eapply render_kids_RB; try eassumption. lia. }
      pose proof (with_top_RB _ _ _ _ _ (start_block_keepsB B) (proj1 R3) H4) as R4.
      assert (R5 : RB (B :: Bs) st4 st5).
      { eapply (with_top_RWB (swidth_ tp)); [|
          rewrite (shape_topw _ _ (proj2 R4)), (shape_topw _ _ (proj2 R3)); apply top_topw, Htp
          |exact (proj1 R4)|exact H5].
        apply Kapp; lia. }
      pose proof (with_top'_RB _ _ _ _ _ (end_block_pureB B) (proj1 R5) H6) as R6.
      pose proof (unwind_RB _ _ _ _ _ (proj1 R6) H) as R7.
      eapply RB_trans; [exact R1|]. eapply RB_trans; [exact R3|]. eapply RB_trans; [exact R4|].
      eapply RB_trans; [exact R5|]. eapply RB_trans; eassumption.
    - (* IUl *)
      startB H Hinv sz Hsz ap st1 ps R1. pose proof (proj1 R1) as I1.
      unfold est_of in Hsz. cbn [est_node rn_info] in Hsz.
      apply prefixed_est_min in Hsz; [|apply est_facts, Hn]. destruct Hsz as [Ep Em].
      bind_inv H st2 H2.
      assert (R2 : RB (B :: Bs) st1 st2).
      { revert H2.
        apply (fold_bind_inv (fun a => RB (B :: Bs) st1 a)
                 (fun item s =>
                    do inner_width <- usub 22 (e_min sz) (swidth (d_ul_prefix d));
                    do tp <- top s;
                    do w <- width_minus tp (swidth (d_ul_prefix d)) inner_width;
                    do s2 <- render_node d mw item (push_sub s (new_sub_renderer tp w));
                    do pp <- pop_sub s2;
                    let '(sub, s3) := pp in
                    with_top s3 (fun t => append_subrender t sub (d_ul_prefix d)
                       (repeat_chr (spacel L_prefix) (N.to_nat (swidth (d_ul_prefix d))))))
                 cs); [|apply RB_refl, I1].
        intros item Hitem a a' Ra Hstep. pose proof (proj1 Ra) as Ia.
        bind_inv Hstep iw Hiw. unfold usub in Hiw.
        destruct (swidth (d_ul_prefix d) <=? e_min sz); [|discriminate]. ok_inv Hiw.
        bind_inv Hstep tp Htp. bind_inv Hstep w Hw. bind_inv Hstep s2 Hs2. bind_inv Hstep pp Hpp.
        destruct pp as [sub s3].
        rewrite Forall_forall in IH. rewrite forallb_forall in Hn, Ht.
        destruct (prefixed_scopeB B (B - swidth (d_ul_prefix d)) Bs _ _ _ _ _ s2 sub s3 Ia Htp Hw)
          as [R3 Kapp]; [lia| |exact Hpp|].
        { intros Ip. eapply (IH item Hitem); [apply Hn, Hitem|apply Ht, Hitem| |exact Ip|exact Hs2].
          pose proof (maxN_map_in (tb d mw) cs item Hitem). lia. }
        eapply RB_trans; [exact Ra|]. eapply RB_trans; [exact R3|].
        eapply (with_top_RWB (swidth_ tp)); [|
          rewrite (shape_topw _ _ (proj2 R3)); apply top_topw, Htp|exact (proj1 R3)|exact Hstep].
        apply Kapp; [lia|].
        rewrite swidth_repeat_w1 by reflexivity. lia. }
      pose proof (unwind_RB _ _ _ _ _ (proj1 R2) H) as R3.
      eapply RB_trans; [exact R1|]. eapply RB_trans; eassumption.
    - (* IOl *)
      startB H Hinv sz Hsz ap st1 ps R1. pose proof (proj1 R1) as I1.
      unfold est_of in Hsz. cbn [est_node rn_info ol_prefix_size bind] in Hsz.
      apply prefixed_est_min in Hsz; [|apply est_facts, Hn]. destruct Hsz as [Ep Em].
      apply andb_true_iff in Ht. destruct Ht as [Hmin Ht].
      bind_inv H r Hr. unfold olpw in HB.
      set (n := length cs) in *.
      set (mn := isat64 (isat64 (start + Z.of_nat n) - 1)) in *.
      set (pw := N.max (swidth (d_ol_prefix d start)) (swidth (d_ol_prefix d mn))) in *.
      assert (Hr' : fold_left (fun acc item => do si <- acc; ol_step d mw sz pw item si) cs
                              (Ok (st1, ol_idx start 0)) = Ok r) by exact Hr.
      assert (R2 : RB (B :: Bs) st1 (fst r)).
      { eapply (ol_items_RB B (B - pw) Bs sz pw start n cs 0 st1 r); try eassumption; try lia.
        intros j Hj.
        pose proof (Hd start (ol_idx start j) mn) as Hm. unfold ol_prefix_sat in Hsat.
        assert (Hcases : ol_idx start j = start \/ (start <= ol_idx start j <= mn)%Z \/
                         (ol_idx start j = i64_max /\ mn = (i64_max - 1)%Z)).
        { unfold ol_idx, mn, isat64, i64_min, i64_max in *. destruct j; lia. }
        destruct Hcases as [E|[E|[E1 E2]]].
        - rewrite E. unfold pw. lia.
        - specialize (Hm E). unfold pw. exact Hm.
        - rewrite E1. unfold pw. rewrite E2. lia. }
      pose proof (unwind_RB _ _ _ _ _ (proj1 R2) H) as R3.
      eapply RB_trans; [exact R1|]. eapply RB_trans; eassumption.
    - (* IDl *)
      startB H Hinv sz Hsz ap st1 ps R1.
      bind_inv H st2 H2. bind_inv H st3 H3.
      pose proof (with_top_RB _ _ _ _ _ (start_block_keepsB B) (proj1 R1) H2) as R2.
      pose proof (render_kids_RB _ _ _ _ _ IH Hn Ht HB (proj1 R2) H3) as R3.
      pose proof (unwind_RB _ _ _ _ _ (proj1 R3) H) as R4.
      eapply RB_trans; [exact R1|]. eapply RB_trans; [exact R2|]. eapply RB_trans; eassumption.
    - (* IDt *)
      startB H Hinv sz Hsz ap st1 ps R1.
      destruct (affix_le B (d_em_start d) (d_em_end d) ltac:(lia)) as [Ha1 Ha2].
      bind_inv H st2 H2.
      pose proof (with_top_RB _ _ _ _ _ (new_line_keepsB B) (proj1 R1) H2) as R2.
      eapply RB_trans; [exact R1|]. eapply RB_trans; [exact R2|].
      eapply (wrap_caseB B Bs (start_emphasis d) (end_emphasis d)); try eassumption;
        [apply (start_deco_keepsB B d), Ha1|apply (end_deco_keepsB B d), Ha2|lia|exact (proj1 R2)].
    - (* IDd *)
      startB H Hinv sz Hsz ap st1 ps R1. pose proof (proj1 R1) as I1.
      unfold est_of in Hsz. cbn [est_node rn_info] in Hsz.
      apply prefixed_est_min in Hsz; [|apply est_facts, Hn]. destruct Hsz as [Ep Em].
      bind_inv H iw Hiw. unfold usub in Hiw.
      destruct (2 <=? e_min sz); [|discriminate]. ok_inv Hiw.
      bind_inv H tp Htp. bind_inv H w Hw. bind_inv H st2 H2. bind_inv H pp Hpp.
      destruct pp as [sub st3]. bind_inv H st4 H4.
      destruct (prefixed_scopeB B (B - 2) Bs _ _ _ _ _ st2 sub st3 I1 Htp Hw) as [R3 Kapp];
        [lia| |exact Hpp|].
      { intros Ip. eapply render_kids_RB; try eassumption. lia. }
      assert (R4 : RB (B :: Bs) st3 st4).
      { eapply (with_top_RWB (swidth_ tp)); [|
          rewrite (shape_topw _ _ (proj2 R3)); apply top_topw, Htp|exact (proj1 R3)|exact H4].
        apply Kapp; cbn; lia. }
      pose proof (unwind_RB _ _ _ _ _ (proj1 R4) H) as R5.
      eapply RB_trans; [exact R1|]. eapply RB_trans; [exact R3|]. eapply RB_trans; eassumption.
    - (* IBreak *)
      startB H Hinv sz Hsz ap st1 ps R1. bind_inv H st2 H2.
      pose proof (with_top_RB _ _ _ _ _ (new_line_hard_keepsB B) (proj1 R1) H2) as R2.
      pose proof (unwind_RB _ _ _ _ _ (proj1 R2) H) as R3.
      eapply RB_trans; [exact R1|]. eapply RB_trans; eassumption.
    - (* IFragStart *)
      startB H Hinv sz Hsz ap st1 ps R1. bind_inv H st2 H2.
      pose proof (with_top'_RB _ _ _ _ _ (record_frag_start_keepsB B name) (proj1 R1) H2) as R2.
      pose proof (unwind_RB _ _ _ _ _ (proj1 R2) H) as R3.
      eapply RB_trans; [exact R1|]. eapply RB_trans; eassumption.
    - (* IListItem *)
      startB H Hinv sz Hsz ap st1 ps R1. eapply RB_trans; [exact R1|].
      eapply (wrap_caseB B Bs start_block (fun s => Ok (end_block s))); try eassumption;
        [apply start_block_keepsB|apply end_block_pureB|exact (proj1 R1)].
    - (* ISup *)
      startB H Hinv sz Hsz ap st1 ps R1. eapply RB_trans; [exact R1|].
      destruct (sup_digits cs) as [digitstr|] eqn:Esd.
      + bind_inv H st2 H2.
        pose proof (inline_text_RB _ _ _ _ _
                      (chars_le_mono 1 B _ HB (sup_digits_w1 _ _ Esd)) (proj1 R1) H2) as R2.
        pose proof (unwind_RB _ _ _ _ _ (proj1 R2) H) as R3. eapply RB_trans; eassumption.
      + destruct (affix_le B (d_sup_start d) (d_sup_end d) ltac:(lia)) as [Ha1 Ha2].
        eapply (wrap_caseB B Bs (start_superscript d) (end_superscript d)); try eassumption;
          [apply (start_deco_keepsB B d), Ha1|apply (end_deco_keepsB B d), Ha2|lia|exact (proj1 R1)].
  Qed.
End RenderLayerB.

(* ================================================================== *)
(* 6. render_tree                                                      *)
(* ================================================================== *)

(* The bound of the whole rendering: what the tree needs (tb), and, when the footnote list is
   printed, its widest character (1 for "[n]: ", L for the link targets). *)
Definition overflow_bound (d : deco) (mw : N) (o : ropts) (L : N) (tree : rnode) : N :=
  N.max (tb d mw tree) (if o_footnotes o then N.max 1 L else 0).

Theorem c11_overflow_width_bound :
  forall (d : deco) (mw : N) (o : ropts) (L width : N) (tree : rnode) (s : subr),
  ol_prefix_monotone d -> ol_prefix_sat d ->
  (o_footnotes o = true -> o_wrap_links o = true) ->
  no_table tree = true ->
  tree_ok (o_footnotes o) L tree = true ->
  render_tree d mw o width tree = Ok s ->
  forall ls, sub_into_lines s = Ok ls -> forall r, In r ls ->
    rline_width r <= N.max width (overflow_bound d mw o L tree).
Proof.
  intros d mw o L width tree s Hd Hsat Hwrap Hnt Hside H.
  set (B := overflow_bound d mw o L tree).
  unfold render_tree in H. bind_inv H e He. bind_inv H st Hst.
  set (st0 := mkrst [sub_new width o] []) in Hst.
  assert (I0 : st_invB (o_footnotes o) L [B] st0).
  { split; [|intros _; constructor]. cbn [st0 stack]. constructor; [|constructor].
    unfold sub_new. apply sub_okB_mk; cbn; auto; [intros r []|intros ? [=]]. }
  destruct (node_okB_all d mw (o_footnotes o) L Hd Hsat tree B [] st0 st Hnt Hside
              ltac:(unfold B, overflow_bound; lia) I0 Hst) as [[I1 I2] Esh].
  destruct (stack st) as [|s0 [|s1 rest]] eqn:Es; try discriminate.
  unfold shape in Esh. rewrite Es in Esh. cbn [st0 stack map] in Esh. injection Esh as Ew Eo.
  assert (Hs0 : sub_okB B s0) by (inversion I1; assumption).
  assert (Hfinal : sub_okB B s /\ swidth_ s = swidth_ s0).
  { unfold sub_finalise in H. rewrite Eo in H.
    destruct (o_footnotes o) eqn:Efn.
    - assert (HB1 : 1 <= B) by (unfold B, overflow_bound; rewrite Efn; lia).
      assert (HBL : L <= B) by (unfold B, overflow_bound; rewrite Efn; lia).
      destruct (finalise_from 1 (links st)) as [|l0 ls0] eqn:Ef.
      + injection H as <-. auto.
      + bind_inv H s1 H1. injection H as <-.
        destruct (start_block_keepsB B _ _ Hs0 H1) as [A [X1 X2]].
        destruct (fmt_links_okB B (l0 :: ls0) s1 A) as [C [D1 D2]].
        * exact HB1.
        * rewrite X2, Eo. auto.
        * rewrite <- Ef. apply finalise_from_ok; [exact HB1|].
          eapply Forall_impl; [|apply I2; reflexivity].
          intros t Ht. eapply chars_le_mono; [|exact Ht]. exact HBL.
        * split; [exact C|exact (eq_trans D1 X1)].
    - injection H as <-. auto. }
  destruct Hfinal as [Hs Esw].
  intros ls Hls r Hr. pose proof (sub_into_lines_okB _ _ _ Hs Hls r Hr). fold B. lia.
Qed.

(* ================================================================== *)
(* 7. Comparison with the statement of the property:                   *)
(*    width(l) <= max (w, P + max (min_wrap_width, 5))                 *)
(* ================================================================== *)

Lemma maxN_map_le_add {A} (f g : A -> N) (C : N) (l : list A) :
  Forall (fun a => f a <= g a + C) l -> maxN (map f l) <= maxN (map g l) + C.
Proof.
  induction 1 as [|a l Ha Hl IH]; cbn [map maxN]; lia.
Qed.

Lemma maxN_map_le_add2 {A} (f g h : A -> N) (M : N) (l : list A) :
  Forall (fun a => f a <= g a + N.max M (h a)) l ->
  maxN (map f l) <= maxN (map g l) + N.max M (maxN (map h l)).
Proof.
  induction 1 as [|a l Ha Hl IH]; cbn [map maxN]; lia.
Qed.

Section Chain.
  Variable d : deco.
  Variable mw : N.

  (* P: the largest total prefix width of a chain of nested prefixed blocks *)
  Fixpoint pchain (n : rnode) {struct n} : N :=
    match rn_info n with
    | IText _ | IImg _ _ | IBreak | IFragStart _ => 0
    | IContainer cs | ILink _ cs | IEm cs | IStrong cs | IStrikeout cs | ICode cs | IBlock cs
    | IDiv cs | IDl cs | IDt cs | IListItem cs | ISup cs => maxN (map pchain cs)
    | IDd cs => 2 + maxN (map pchain cs)
    | IBlockQuote cs => swidth (d_quote_prefix d) + maxN (map pchain cs)
    | IUl cs => swidth (d_ul_prefix d) + maxN (map pchain cs)
    | IOl i cs => olpw d i (length cs) + maxN (map pchain cs)
    | IHeader level cs => swidth (d_header_prefix d level) + maxN (map pchain cs)
    | ITable _ _ | ITableBody _ | ITableRow _ | ITableCell _ => 0
    end.

  (* the widest character handed to the wrapping layer: document text, image text, decorator
     affixes, the "[n]" of a link, superscript digits *)
  Fixpoint cwb (n : rnode) {struct n} : N :=
    match rn_info n with
    | IText t => cwmax t
    | IImg src title => cwmax (fst (d_image d src title))
    | IContainer cs | IBlock cs | IDiv cs | IDl cs | IListItem cs
    | IDd cs | IBlockQuote cs | IUl cs | IOl _ cs | IHeader _ cs => maxN (map cwb cs)
    | ILink href cs =>
      N.max (N.max 1 (affix_cw (d_link_start d href) (d_link_end d))) (maxN (map cwb cs))
    | IEm cs | IDt cs => N.max (affix_cw (d_em_start d) (d_em_end d)) (maxN (map cwb cs))
    | IStrong cs => N.max (affix_cw (d_strong_start d) (d_strong_end d)) (maxN (map cwb cs))
    | IStrikeout cs => N.max (affix_cw (d_strike_start d) (d_strike_end d)) (maxN (map cwb cs))
    | ICode cs => N.max (affix_cw (d_code_start d) (d_code_end d)) (maxN (map cwb cs))
    | ISup cs =>
      match sup_digits cs with
      | Some _ => 1
      | None => N.max (affix_cw (d_sup_start d) (d_sup_end d)) (maxN (map cwb cs))
      end
    | IBreak | IFragStart _ => 0
    | ITable _ _ | ITableBody _ | ITableRow _ | ITableCell _ => 0
    end.

  Lemma text_est_min t img : e_min (text_est mw t img) <= mw.
  Proof. unfold text_est. cbn [e_min]. lia. Qed.

  (* the reserved minimum width is at most P + max (min_wrap, 5) *)
  Lemma emin_le_chain : forall n, emin_b d mw n <= pchain n + N.max mw 5.
  Proof.
    apply rnode_ind'. intros i sty IH.
    destruct i; cbn [direct_kids] in IH; cbn [emin_b pchain rn_info];
      try (pose proof (maxN_map_le_add _ _ _ _ IH) as HK);
      try (pose proof (text_est_min t false)); try (pose proof (text_est_min title true)); lia.
  Qed.

  Lemma emin_kids_le_chain cs :
    maxN (map (emin_b d mw) cs) <= maxN (map pchain cs) + N.max mw 5.
  Proof. apply maxN_map_le_add, Forall_forall. intros c _. apply emin_le_chain. Qed.

  (* hence the bound is at most P + max (min_wrap, 5, widest character) *)
  Lemma tb_le_chain : forall n, tb d mw n <= pchain n + N.max (N.max mw 5) (cwb n).
  Proof.
    apply rnode_ind'. intros i sty IH.
    destruct i; cbn [direct_kids] in IH; cbn [tb pchain cwb rn_info];
      try (pose proof (maxN_map_le_add2 _ _ _ _ _ IH) as HK);
      try (pose proof (emin_kids_le_chain cs) as HE);
      try (destruct (sup_digits cs)); lia.
  Qed.
End Chain.

(* the general form: C bounds the width of every character *)
Theorem c11_overflow_width_bound_chain :
  forall (d : deco) (mw : N) (o : ropts) (L width : N) (tree : rnode) (s : subr),
  ol_prefix_monotone d -> ol_prefix_sat d ->
  (o_footnotes o = true -> o_wrap_links o = true) ->
  no_table tree = true ->
  tree_ok (o_footnotes o) L tree = true ->
  render_tree d mw o width tree = Ok s ->
  forall ls, sub_into_lines s = Ok ls -> forall r, In r ls ->
    rline_width r <=
    N.max width (pchain d tree +
                 N.max (N.max mw 5) (N.max (cwb d tree) (if o_footnotes o then L else 0))).
Proof.
  intros d mw o L width tree s Hd Hsat Hwrap Hnt Hside H ls Hls r Hr.
  pose proof (c11_overflow_width_bound d mw o L width tree s Hd Hsat Hwrap Hnt Hside H ls Hls r Hr)
    as HB.
  pose proof (tb_le_chain d mw tree). unfold overflow_bound in HB.
  destruct (o_footnotes o); lia.
Qed.

(* THE PROPERTY AS STATED: every character (of the document, of the decorator affixes, of the
   link targets when they are listed) is at most 2 columns wide *)
Theorem c11_overflow_width_bound_spec :
  forall (d : deco) (mw : N) (o : ropts) (width : N) (tree : rnode) (s : subr),
  ol_prefix_monotone d -> ol_prefix_sat d ->
  (o_footnotes o = true -> o_wrap_links o = true) ->
  no_table tree = true ->
  tree_ok (o_footnotes o) 2 tree = true ->
  cwb d tree <= 2 ->
  render_tree d mw o width tree = Ok s ->
  forall ls, sub_into_lines s = Ok ls -> forall r, In r ls ->
    rline_width r <= N.max width (pchain d tree + N.max mw 5).
Proof.
  intros d mw o width tree s Hd Hsat Hwrap Hnt Hside Hcw H ls Hls r Hr.
  pose proof (c11_overflow_width_bound_chain d mw o 2 width tree s Hd Hsat Hwrap Hnt Hside H
                ls Hls r Hr) as HB.
  destruct (o_footnotes o); lia.
Qed.

(* ================================================================== *)
(* 8. The public route (Api.v)                                         *)
(* ================================================================== *)

Section RoutesB.
  Variable inline_styles : list (text * text) -> res (list styledecl).
  Variable doc_rules : list node -> res (list ruleset).

  Theorem c11_lines_from_read_overflow_bound :
    forall (c : config) (doc : list node) (w L : N) (tree : rnode) (ls : list tline),
    ol_prefix_monotone (c_deco c) -> ol_prefix_sat (c_deco c) ->
    c_overflow c = true ->
    (c_footnotes c = true -> c_wrap_links c = true) ->
    to_render_tree inline_styles doc_rules c doc = Ok tree ->
    no_table tree = true ->
    tree_ok (c_footnotes c) L tree = true ->
    lines_from_read inline_styles doc_rules c doc w = Ok ls ->
    forall l, In l ls ->
      tl_width_raw l <= N.max w (overflow_bound (c_deco c) (c_min_wrap c) (render_options c) L tree).
  Proof.
    intros c doc w L tree ls Hd Hsat _ Hwrap Htree Hnt Hside H l Hl.
    unfold lines_from_read in H. rewrite Htree in H. cbn [bind] in H.
    bind_inv H s Hs. bind_inv H rls Hrls.
    ok_inv H. apply in_map_iff in Hl. destruct Hl as (r & <- & Hr).
    rewrite raw_into_tagged.
    unfold render_with_context in Hs. destruct (w =? 0); [discriminate|].
    eapply (c11_overflow_width_bound (c_deco c) (c_min_wrap c) (render_options c) L w tree s);
      eassumption.
  Qed.

  Theorem c11_lines_from_read_overflow_spec :
    forall (c : config) (doc : list node) (w : N) (tree : rnode) (ls : list tline),
    ol_prefix_monotone (c_deco c) -> ol_prefix_sat (c_deco c) ->
    c_overflow c = true ->
    (c_footnotes c = true -> c_wrap_links c = true) ->
    to_render_tree inline_styles doc_rules c doc = Ok tree ->
    no_table tree = true ->
    tree_ok (c_footnotes c) 2 tree = true ->
    cwb (c_deco c) tree <= 2 ->
    lines_from_read inline_styles doc_rules c doc w = Ok ls ->
    forall l, In l ls ->
      tl_width_raw l <= N.max w (pchain (c_deco c) tree + N.max (c_min_wrap c) 5).
  Proof.
    intros c doc w tree ls Hd Hsat _ Hwrap Htree Hnt Hside Hcw H l Hl.
    unfold lines_from_read in H. rewrite Htree in H. cbn [bind] in H.
    bind_inv H s Hs. bind_inv H rls Hrls.
    ok_inv H. apply in_map_iff in Hl. destruct Hl as (r & <- & Hr).
    rewrite raw_into_tagged.
    unfold render_with_context in Hs. destruct (w =? 0); [discriminate|].
    eapply (c11_overflow_width_bound_spec (c_deco c) (c_min_wrap c) (render_options c) w tree s);
      eassumption.
  Qed.
End RoutesB.

(* ================================================================== *)
(* 9. Non-vacuity; the bound is met with equality                      *)
(* ================================================================== *)

Definition ob_opts : ropts := render_options (set_overflow (with_decorator plain_deco)).
Definition ob_opts_fn : ropts :=
  render_options (set_footnotes (set_overflow (with_decorator plain_deco)) true).
Definition ob_bq (cs : list rnode) : rnode := ex_n (IBlockQuote cs).

(* <blockquote><blockquote><blockquote>abcdef gh</blockquote></blockquote></blockquote>, width 3,
   min_wrap_width 3: the innermost renderer gets width max (0, 3) = 3 and the lines are
   "> > > abc" / "> > > def" / "> > > gh": 6 + 3 = 9 columns. *)
Definition ob_t1 : rnode :=
  ob_bq [ob_bq [ob_bq [ex_n (IText (ex_str [97;98;99;100;101;102;32;103;104]))]]].

Example ob_t1_render :
  ex_widths (render_tree plain_deco 3 ob_opts 3 ob_t1) = Ok [9; 9; 8] /\
  (* without the flag: TooNarrow *)
  ex_widths (render_tree plain_deco 3 ex_opts 3 ob_t1) = TooNarrow.
Proof. split; vm_compute; reflexivity. Qed.

Example ob_t1_bound :
  no_table ob_t1 = true /\ tree_ok (o_footnotes ob_opts) 0 ob_t1 = true /\
  overflow_bound plain_deco 3 ob_opts 0 ob_t1 = 9 /\
  pchain plain_deco ob_t1 = 6 /\ cwb plain_deco ob_t1 = 1 /\ emin_b plain_deco 3 ob_t1 = 9.
Proof. vm_compute. repeat split. Qed.

Definition ob_s1 : subr :=
  match render_tree plain_deco 3 ob_opts 3 ob_t1 with Ok s => s | _ => sub_new 0 ob_opts end.
Example ob_s1_eq : render_tree plain_deco 3 ob_opts 3 ob_t1 = Ok ob_s1.
Proof. vm_compute. reflexivity. Qed.
Definition ob_ls1 : list rline := match sub_into_lines ob_s1 with Ok ls => ls | _ => [] end.
Example ob_ls1_eq : sub_into_lines ob_s1 = Ok ob_ls1.
Proof. vm_compute. reflexivity. Qed.

(* the theorem applies, and its bound max (3, 9) = 9 is attained *)
Example ob_t1_side :
  no_table ob_t1 = true /\ tree_ok (o_footnotes ob_opts) 0 ob_t1 = true /\
  tree_ok (o_footnotes ob_opts) 2 ob_t1 = true /\ cwb plain_deco ob_t1 <=? 2 = true /\
  overflow_bound plain_deco 3 ob_opts 0 ob_t1 = 9 /\
  existsb (fun r => rline_width r =? 9) ob_ls1 = true.
Proof. vm_compute. repeat split. Qed.

Example ob_t1_theorem :
  (forall r, In r ob_ls1 -> rline_width r <= 9) /\ (exists r, In r ob_ls1 /\ rline_width r = 9).
Proof.
  destruct ob_t1_side as (S1 & S2 & _ & _ & S5 & S6). split.
  - intros r Hr.
    pose proof (c11_overflow_width_bound plain_deco 3 ob_opts 0 3 ob_t1 ob_s1
                  ol_prefix_monotone_plain ol_prefix_sat_plain (fun X => ltac:(discriminate X))
                  S1 S2 ob_s1_eq ob_ls1 ob_ls1_eq r Hr) as HB.
    rewrite S5 in HB. lia.
  - apply existsb_exists in S6. destruct S6 as (r & Hr & E). exists r. split; [exact Hr|lia].
Qed.

(* the statement of the property gives max (3, 6 + max (3, 5)) = 11 for it *)
Example ob_t1_spec : forall r, In r ob_ls1 -> rline_width r <= 11.
Proof.
  destruct ob_t1_side as (S1 & _ & S3 & S4 & _). intros r Hr.
  pose proof (c11_overflow_width_bound_spec plain_deco 3 ob_opts 3 ob_t1 ob_s1
                ol_prefix_monotone_plain ol_prefix_sat_plain (fun X => ltac:(discriminate X))
                S1 S3 ltac:(lia) ob_s1_eq ob_ls1 ob_ls1_eq r Hr) as HB.
  change (pchain plain_deco ob_t1) with 6 in HB. lia.
Qed.

(* The property's own bound P + max (min_wrap_width, 5) is attained too: a link (minimum
   width 5) in two blockquotes, footnotes on, width 3:  "> > [abcd"  is 4 + 5 = 9 columns. *)
Definition ob_t3 : rnode :=
  ob_bq [ob_bq [ex_n (ILink (ex_str [104;116;116;112;58;47;47;97;98;99])
                            [ex_n (IText (ex_str [97;98;99;100;101;102;32;103;104]))])]].
Example ob_t3_tight :
  ex_widths (render_tree plain_deco 3 ob_opts_fn 3 ob_t3) = Ok [9; 6; 9; 5; 0; 3; 3; 3; 3; 3] /\
  no_table ob_t3 = true /\ tree_ok (o_footnotes ob_opts_fn) 1 ob_t3 = true /\
  cwb plain_deco ob_t3 = 1 /\
  overflow_bound plain_deco 3 ob_opts_fn 1 ob_t3 = 9 /\
  pchain plain_deco ob_t3 + N.max 3 5 = 9.
Proof. vm_compute. repeat split. Qed.

(* a width-2 character in a renderer of width 1 (min_wrap_width 1): 6 + 2 = 8 *)
Definition ob_w2 : chr := mkchr 19990 (Some 2) false 16.
Definition ob_t2 : rnode := ob_bq [ob_bq [ob_bq [ex_n (IText [ob_w2; ob_w2; ob_w2])]]].
Example ob_t2_wide :
  ex_widths (render_tree plain_deco 1 ob_opts 3 ob_t2) = Ok [8; 8; 8] /\
  emin_b plain_deco 1 ob_t2 = 7 /\ overflow_bound plain_deco 1 ob_opts 0 ob_t2 = 8 /\
  cwb plain_deco ob_t2 = 2.
Proof. vm_compute. repeat split. Qed.

(* nested lists, a heading, a definition, an image: the bound is attained again *)
Definition ob_t4 : rnode :=
  ex_n (IOl 99 [ex_n (IListItem [ob_bq [ex_n (IText (ex_str [97;98;99;100;101;102;32;103;104]))]]);
                ex_n (IListItem [ex_n (IText (ex_str [97;98]))])]).
Definition ob_t5 : rnode :=
  ex_n (IHeader 4 [ex_n (IDd [ex_n (IImg [] (ex_str [97;98;99;100;101;102;32;103;104]))]);
                   ex_n IBreak]).
Example ob_t45 :
  ex_widths (render_tree plain_deco 3 ob_opts_fn 3 ob_t4) = Ok [10; 10; 9; 7] /\
  overflow_bound plain_deco 3 ob_opts_fn 0 ob_t4 = 10 /\
  ex_widths (render_tree plain_deco 0 ob_opts_fn 3 ob_t5) = Ok [8; 8; 8; 8; 8; 8; 8; 8; 8; 8; 5] /\
  overflow_bound plain_deco 0 ob_opts_fn 0 ob_t5 = 8.
Proof. vm_compute. repeat split. Qed.

(* through the public route, from a DOM *)
From H2T Require CssParse.
Definition ob_el (name : list N) (kids : list node) : node := NElem true (of_ascii name) [] kids.
Definition ob_sbq : list N := [98;108;111;99;107;113;117;111;116;101].
Definition ob_doc : list node :=
  [ob_el [104;116;109;108] [ob_el [98;111;100;121]
     [ob_el ob_sbq [ob_el ob_sbq [ob_el ob_sbq
        [NText (ex_str [97;98;99;100;101;102;32;103;104])]]]]]].
Definition ob_cfg : config := set_overflow (with_decorator plain_deco).
Definition ob_tree : rnode :=
  match to_render_tree CssParse.inline_styles CssParse.doc_rules ob_cfg ob_doc with
  | Ok t => t | _ => ob_t1 end.
Definition ob_out : list tline :=
  match lines_from_read CssParse.inline_styles CssParse.doc_rules ob_cfg ob_doc 3 with
  | Ok ls => ls | _ => [] end.
Example ob_route_hyps :
  to_render_tree CssParse.inline_styles CssParse.doc_rules ob_cfg ob_doc = Ok ob_tree /\
  lines_from_read CssParse.inline_styles CssParse.doc_rules ob_cfg ob_doc 3 = Ok ob_out /\
  map tl_width_raw ob_out = [9; 9; 8] /\
  no_table ob_tree = true /\ tree_ok (c_footnotes ob_cfg) 0 ob_tree = true /\
  overflow_bound (c_deco ob_cfg) (c_min_wrap ob_cfg) (render_options ob_cfg) 0 ob_tree = 9.
Proof. vm_compute. repeat split. Qed.

Example ob_route_theorem : forall l, In l ob_out -> tl_width_raw l <= 9.
Proof.
  destruct ob_route_hyps as (H1 & H2 & _ & H4 & H5 & H6). intros l Hl.
  pose proof (c11_lines_from_read_overflow_bound CssParse.inline_styles CssParse.doc_rules
                ob_cfg ob_doc 3 0 ob_tree ob_out
                ol_prefix_monotone_plain ol_prefix_sat_plain eq_refl
                (fun X => ltac:(discriminate X)) H1 H4 H5 H2 l Hl) as HB.
  rewrite H6 in HB. lia.
Qed.

Check (c11_overflow_width_bound :
  forall (d : deco) (mw : N) (o : ropts) (L width : N) (tree : rnode) (s : subr),
  ol_prefix_monotone d -> ol_prefix_sat d ->
  (o_footnotes o = true -> o_wrap_links o = true) ->
  no_table tree = true ->
  tree_ok (o_footnotes o) L tree = true ->
  render_tree d mw o width tree = Ok s ->
  forall ls, sub_into_lines s = Ok ls -> forall r, In r ls ->
    rline_width r <= N.max width (overflow_bound d mw o L tree)).
Check (c11_overflow_width_bound_spec :
  forall (d : deco) (mw : N) (o : ropts) (width : N) (tree : rnode) (s : subr),
  ol_prefix_monotone d -> ol_prefix_sat d ->
  (o_footnotes o = true -> o_wrap_links o = true) ->
  no_table tree = true ->
  tree_ok (o_footnotes o) 2 tree = true ->
  cwb d tree <= 2 ->
  render_tree d mw o width tree = Ok s ->
  forall ls, sub_into_lines s = Ok ls -> forall r, In r ls ->
    rline_width r <= N.max width (pchain d tree + N.max mw 5)).

Print Assumptions wb_into_lines_okB.
Print Assumptions est_min.
Print Assumptions node_okB_all.
Print Assumptions c11_overflow_width_bound.
Print Assumptions emin_le_chain.
Print Assumptions tb_le_chain.
Print Assumptions c11_overflow_width_bound_chain.
Print Assumptions c11_overflow_width_bound_spec.
Print Assumptions c11_lines_from_read_overflow_bound.
Print Assumptions c11_lines_from_read_overflow_spec.
Print Assumptions ob_t1_theorem.
Print Assumptions ob_t1_spec.
Print Assumptions ob_route_theorem.
