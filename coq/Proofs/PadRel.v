(* Proofs/PadRel.v -- C15, clause "padding the block width only appends trailing spaces", for the
   WHOLE renderer (Render.render_tree and the routes of Api.v), all inputs.  No axioms (every
   main theorem is followed by Print Assumptions).

   STATEMENT (section 6).  o1: options with padding off; with_pad o1: the same, padding on.
     c15_pad_render_tree :
       o_pad o1 = false -> pad_side d (o_allow_overflow o1) tree = true ->
       res_rel (fun s1 s2 => res_rel (Forall2 rline_pad) (sub_into_lines s1) (sub_into_lines s2))
               (render_tree d mw o1 width tree) (render_tree d mw (with_pad o1) width tree)
   (Compose.res_rel: the same outcome kind, the same Panic site; when both Ok, the two
   sub-renderers give -- again with the same outcome kind -- the same NUMBER of lines, related
   line by line by rline_pad: a border line is the same; a text line l2 of the padded run is
   line_pad l1 l2 := prel (items l1) (items l2): its items (characters with their tags, fragment
   markers, in order) are those of l1 followed by padding characters (padc = a space with the
   label L_pad).  "The same item" (ieq): the same character with a tag that Tagged.tag_eqb
   accepts; the tag of a padding character is not compared (see OBSERVATION below).)
     c15_pad_render_tree_rstrip : ... the same number of lines, padded string = unpadded string ++
       padding spaces, map rstrip equal (rstrip removes trailing U+0020, as the checker does);
     c15_pad_lines_from_read, c15_pad_string_from_read : the routes of Api.v (c, set_pad c).
       Api.string_from_read does NOT strip trailing spaces itself (sub_into_string joins the line
       strings with newlines): the padded string is the unpadded one with padding spaces added at
       the end of lines; stripping is needed for equality.
     c15_pad_render_tree_nopre : the same under the simpler condition `nopre tree` (no style with
       white-space: pre / pre-wrap anywhere, ordered lists start at an i64), overflow off, and a
       decorator with RenderWidth.ol_prefix_monotone / _sat (the built-in ones).

   SIDE CONDITION  pad_side d ovf tree := (negb ovf && pok true d [] tree) || pok false d [] tree,
   decidable, `pok tb d L n` (section 5) walks the tree with the stack L of white-space modes pushed
   by the styles of the ancestors (exactly what apply_style pushes: pre / pre-wrap; `normal` is not
   pushed) and asks:
     (a) every text given to add_inline_text while white space is preserved (the top of the stack
         is pre or pre-wrap) has no line break: no character with ws = true and code point 10
         (`tok`).  The texts are: text leaves, image texts, and the decorator's affixes of links,
         em, strong, strikeout, code, sup, dt (footnote numbers and superscript digits never
         contain one).  In normal mode line breaks are free.
     (b) tb = false: no ITable node.  tb = true (tables allowed; then overflow must be off):
         every marker of an ordered list is at most as wide as the prefix width computed from the
         first and last number (`ol_fit`; always true for the built-in decorators, `ol_fit_std`).
   WHAT IS EXCLUDED, AND WHY.
     (a) is the recorded finding pad_blank_pre_line.  In pre / pre-wrap mode a line break calls
         force_flush_line on the current line even when it is empty (flush_line skips empty
         lines, force_flush_line does not).  With padding the empty line becomes width spaces: a
         line WITH content (TaggedLine::is_empty looks for a Str element).  start_block adds a
         blank line iff some line of the sub-renderer has content.  So: if all lines of a
         sub-renderer (document, list item, quote, table cell ...) so far are without content and
         one of them is such an empty preformatted line, the next start_block (next <p>, <pre>,
         table, heading, or inline text after a block) adds a blank line in the padded run only:
         the line counts differ (cex_blank_pre_differs: <pre>\n\n</pre><p>x</p>, 2 lines / 3 lines).
         Apart from (b) this is the only way padding is observed by later layout (the other tests
         -- sub_empty, flush_line, new_line_hard, the wrapping arithmetic -- do not look at the
         content of finished lines; prefixes go in front; trailing blank lines are not trimmed).  The condition
         (a) is sufficient, not necessary: an empty preformatted line after a line with content is
         harmless (exp_pre_inner_blank_agrees); the exact condition is dynamic ("no empty line is
         force-flushed in a block of width >= 1 while the sub-renderer has no content").
         Note: the model has no IPre node; <pre> is IBlock with the style white-space: pre
         (+ cs_internal_pre), and a CSS white-space: pre / pre-wrap on any element behaves the
         same, so a filter on the element name `pre` does not cover the class.
     (b) NEW FINDING (cex_ovf_table_differs): with allow_width_overflow, a prefixed block inside
         a table cell can be rendered wider than the cell (width_minus gives it the estimated
         minimum; a nested table makes the minimum exceed the estimated size that fixes the
         column width).  Its padded lines are then wider than the cell, the table does not pad
         them further, while the unpadded lines are padded to the cell width only: the column
         separator of that row line moves -- a difference in the middle of the line.  Without
         overflow every sub-renderer is exactly prefix + inner wide and cells are at most as wide
         as their table, so padded lines never exceed the width the table pads to.
         The ordered-list condition has the same reason (a marker wider than the computed prefix
         width makes the first line of an item wider than the sub-renderer).
   OBSERVATION (exp_cell_padding_tags).  In a table cell both runs end with the same characters,
   but the padding of a cell line carries different annotations: made by the table
   (pad_cell_lines) it has the annotation stack of the table's sub-renderer (e.g. the enclosing
   link / colour); made by the wrapped block it has the tag of the last pending white space or
   none.  Invisible in strings, visible in the rich lines; this is why ieq ignores the tag of a
   padding character.

   METHOD.  One lock-step simulation of the two runs of render_node, in the style of Compose.v
   section 1, but with a relation INDEXED by the white-space mode stack L and the width W:
     SR tb o1 L W x y: y is x with the padding option, the same fields, finished lines related by
       RLR (text lines by LR: prel on the items, both length fields exact and "empty <-> no
       character" (LI), the same has-a-character flag, and -- tables -- the padded line is at most
       max (unpadded, W) wide), pending block related by WR, pending markers are Frag elements.
     WR (section 2): strict simulation of every WrappedBlock operation (padding off / on), the
       same outcome kind including Panic sites and fuel; the line under construction satisfies
       LI, so tl_pad_to never hits the width debug_assert (Panic 40) in the padded run.
     Tables (section 4): pad_cell_lines makes the two cell lines TIGHT (the same items, TR);
       collapse_top / collapse_bottom / row_line only see borders and tight lines.
     node_pad_all (section 5): induction with RenderWidth.rnode_ind'. *)
From H2T Require Import Base Tagged Wrap Sub Css Dom Render Api.
From H2T Require Import Proofs.WrapInv Proofs.Small Proofs.RenderWidth Proofs.Compose.
From Coq Require Import Lia ZifyN ZifyBool ZifyNat.

Local Arguments N.add : simpl never.
Local Arguments N.sub : simpl never.
Local Arguments N.mul : simpl never.
Local Arguments N.div : simpl never.
Local Arguments N.modulo : simpl never.
Local Arguments N.leb : simpl never.
Local Arguments N.ltb : simpl never.
Local Arguments N.eqb : simpl never.
Local Arguments N.min : simpl never.
Local Arguments N.max : simpl never.
Local Arguments N.to_nat : simpl never.
Local Arguments N.of_nat : simpl never.
Local Open Scope N_scope.
(* ================================================================== *)
(* 1. Items of a line; the relation "the same line plus trailing padding" *)
(* ================================================================== *)

(* ---- tag_eqb is an equivalence ---- *)
Lemma lN_eqb_iff : forall a b, lN_eqb a b = true <-> a = b.
Proof.
  induction a as [|x a IH]; intros [|y b]; cbn [lN_eqb]; split; intros H; try discriminate; auto.
  - apply andb_true_iff in H. destruct H as [H1 H2]. apply N.eqb_eq in H1. apply IH in H2. congruence.
  - injection H as -> ->. rewrite N.eqb_refl. cbn [andb]. apply IH. reflexivity.
Qed.

Lemma text_eqb_iff u v : text_eqb u v = true <-> cps u = cps v.
Proof. unfold text_eqb. apply lN_eqb_iff. Qed.

Definition akey (a : ann) : ann :=
  match a with
  | ALink u => ALink (of_ascii (cps u))
  | AImage u => AImage (of_ascii (cps u))
  | _ => a
  end.

Lemma cps_of_ascii l : cps (of_ascii l) = l.
Proof. unfold cps, of_ascii. rewrite map_map. cbn [cp mk]. apply map_id. Qed.

Lemma ann_eqb_iff a b : ann_eqb a b = true <-> akey a = akey b.
Proof.
  destruct a, b; cbn [ann_eqb akey]; split; intros H; try discriminate; try reflexivity;
    try (apply text_eqb_iff in H; rewrite H; reflexivity);
    try (apply text_eqb_iff; injection H as H; apply (f_equal cps) in H; rewrite !cps_of_ascii in H; exact H).
  - apply Bool.eqb_prop in H. congruence.
  - injection H as ->. apply Bool.eqb_reflx.
  - apply andb_true_iff in H. destruct H as [H H3]. apply andb_true_iff in H. destruct H as [H1 H2].
    apply N.eqb_eq in H1, H2, H3. congruence.
  - injection H as -> -> ->. rewrite !N.eqb_refl. reflexivity.
  - apply andb_true_iff in H. destruct H as [H H3]. apply andb_true_iff in H. destruct H as [H1 H2].
    apply N.eqb_eq in H1, H2, H3. congruence.
  - injection H as -> -> ->. rewrite !N.eqb_refl. reflexivity.
Qed.

Lemma tag_eqb_iff : forall a b, tag_eqb a b = true <-> map akey a = map akey b.
Proof.
  induction a as [|x a IH]; intros [|y b]; cbn [tag_eqb map]; split; intros H; try discriminate; auto.
  - apply andb_true_iff in H. destruct H as [H1 H2]. apply ann_eqb_iff in H1. apply IH in H2. congruence.
  - injection H as H1 H2. apply ann_eqb_iff in H1. apply IH in H2. rewrite H1, H2. reflexivity.
Qed.

Lemma teq_refl t : tag_eqb t t = true.
Proof. apply tag_eqb_iff. reflexivity. Qed.
Lemma teq_sym a b : tag_eqb a b = true -> tag_eqb b a = true.
Proof. rewrite !tag_eqb_iff. auto. Qed.
Lemma teq_trans a b c : tag_eqb a b = true -> tag_eqb b c = true -> tag_eqb a c = true.
Proof. rewrite !tag_eqb_iff. congruence. Qed.

(* ---- items ---- *)
Inductive item := IC (c : chr) (t : tag) | IFr (n : text).

Definition elem_items (e : elem) : list item :=
  match e with Str s t => map (fun c => IC c t) s | Frag n => [IFr n] end.
Definition vitems (v : list elem) : list item := flat_map elem_items v.
Definition items (l : tline) : list item := vitems (tv l).

(* the padding character: a made space with the label L_pad *)
Definition padc : chr := spacel L_pad.

(* the same item: the same character with the same tag (tags as compared by tag_eqb); the tag of
   a padding character is not compared *)
Definition ieq (i1 i2 : item) : Prop :=
  match i1, i2 with
  | IC c1 t1, IC c2 t2 => c1 = c2 /\ (tag_eqb t1 t2 = true \/ c1 = padc)
  | IFr a, IFr b => a = b
  | _, _ => False
  end.
Definition ieqs : list item -> list item -> Prop := Forall2 ieq.
Definition ispad (i : item) : Prop := exists t, i = IC padc t.

Lemma ieq_refl i : ieq i i.
Proof. destruct i; cbn [ieq]; auto using teq_refl. Qed.
Lemma ieq_sym i j : ieq i j -> ieq j i.
Proof.
  destruct i, j; cbn [ieq]; try tauto; [|congruence].
  intros [-> [H|H]]; split; auto using teq_sym.
Qed.
Lemma ieq_trans i j k : ieq i j -> ieq j k -> ieq i k.
Proof.
  destruct i, j, k; cbn [ieq]; try tauto; [|congruence].
  intros [-> [H|H]] [-> [H'|H']]; split; eauto using teq_trans.
Qed.
Lemma ieqs_refl s : ieqs s s.
Proof. induction s; constructor; auto using ieq_refl. Qed.
Lemma ieqs_sym a b : ieqs a b -> ieqs b a.
Proof. induction 1; constructor; auto using ieq_sym. Qed.
Lemma ieqs_trans a b c : ieqs a b -> ieqs b c -> ieqs a c.
Proof.
  intros H. revert c. induction H as [|x y a b Hxy _ IH]; intros c Hc; inversion Hc; subst;
    constructor; [eapply ieq_trans; eassumption|apply IH; assumption].
Qed.
Lemma ieqs_app a b a' b' : ieqs a a' -> ieqs b b' -> ieqs (a ++ b) (a' ++ b').
Proof. apply Forall2_app. Qed.
Lemma ieqs_length a b : ieqs a b -> length a = length b.
Proof. induction 1; cbn [length]; congruence. Qed.

Lemma ispad_ieq i j : ispad i -> ieq i j -> ispad j.
Proof.
  intros [t ->]. destruct j as [c t'|n]; cbn [ieq]; [|tauto]. intros [<- _]. exists t'. reflexivity.
Qed.
Lemma ispad_ieq2 i j : ispad i -> ispad j -> ieq i j.
Proof. intros [t ->] [t' ->]. cbn [ieq]. auto. Qed.
Lemma pads_ieqs p q : Forall ispad p -> ieqs p q -> Forall ispad q.
Proof. intros Hp H. induction H; inversion Hp; subst; constructor; eauto using ispad_ieq. Qed.
Lemma pads_ieqs2 : forall p q, Forall ispad p -> Forall ispad q -> length p = length q -> ieqs p q.
Proof.
  induction p as [|i p IH]; intros [|j q] Hp Hq Hl; cbn [length] in Hl; try discriminate; constructor.
  - apply ispad_ieq2; [exact (Forall_inv Hp)|exact (Forall_inv Hq)].
  - apply IH; [exact (Forall_inv_tail Hp)|exact (Forall_inv_tail Hq)|congruence].
Qed.

(* s2 is s1 followed by padding characters *)
Definition prel (s1 s2 : list item) : Prop :=
  exists a p, s2 = a ++ p /\ ieqs s1 a /\ Forall ispad p.

Lemma prel_of_ieqs a b : ieqs a b -> prel a b.
Proof. intros H. exists b, []. rewrite app_nil_r. auto. Qed.
Lemma prel_refl s : prel s s.
Proof. apply prel_of_ieqs, ieqs_refl. Qed.
Lemma prel_front a a' s1 s2 : ieqs a a' -> prel s1 s2 -> prel (a ++ s1) (a' ++ s2).
Proof.
  intros Ha (b & p & -> & Hb & Hp). exists (a' ++ b), p. rewrite app_assoc.
  split; [reflexivity|]. split; [apply ieqs_app; assumption|exact Hp].
Qed.
Lemma prel_pad s1 s2 p : prel s1 s2 -> Forall ispad p -> prel s1 (s2 ++ p).
Proof.
  intros (b & q & -> & Hb & Hq) Hp. exists b, (q ++ p). rewrite app_assoc.
  split; [reflexivity|]. split; [exact Hb|apply Forall_app; auto].
Qed.
Lemma prel_l s1' s1 s2 : ieqs s1' s1 -> prel s1 s2 -> prel s1' s2.
Proof. intros H (b & p & -> & Hb & Hp). exists b, p. eauto using ieqs_trans. Qed.
Lemma prel_r s1 s2 s2' : prel s1 s2 -> ieqs s2 s2' -> prel s1 s2'.
Proof.
  intros (b & p & -> & Hb & Hp) H. apply Forall2_app_inv_l in H.
  destruct H as (b' & p' & Hb' & Hp' & ->). exists b', p'.
  split; [reflexivity|]. split; [eapply ieqs_trans; eassumption|eapply pads_ieqs; eassumption].
Qed.
Lemma prel_length s1 s2 : prel s1 s2 -> (length s1 <= length s2)%nat.
Proof. intros (b & p & -> & Hb & Hp). rewrite app_length, (ieqs_length _ _ Hb). lia. Qed.

(* both sides completed with padding to the same length: the same items *)
Lemma prel_tight s1 s2 p1 p2 :
  prel s1 s2 -> Forall ispad p1 -> Forall ispad p2 ->
  length (s1 ++ p1) = length (s2 ++ p2) -> ieqs (s1 ++ p1) (s2 ++ p2).
Proof.
  intros (b & p & -> & Hb & Hp) H1 H2 Hl. rewrite <- app_assoc. apply ieqs_app; [exact Hb|].
  apply pads_ieqs2; [exact H1|apply Forall_app; auto|].
  rewrite !app_length in *. rewrite (ieqs_length _ _ Hb) in Hl. lia.
Qed.

(* display width of an item list *)
Definition iw1 (i : item) : N := match i with IC c _ => cw0 c | IFr _ => 0 end.
Definition iw (s : list item) : N := sumN (map iw1 s).
Lemma iw_app a b : iw (a ++ b) = iw a + iw b.
Proof. unfold iw. rewrite map_app. apply sumN_app. Qed.
Lemma iw_ieqs a b : ieqs a b -> iw a = iw b.
Proof.
  induction 1 as [|i j a b Hij _ IH]; [reflexivity|]. unfold iw in *. cbn [map sumN]. rewrite IH.
  f_equal. destruct i, j; cbn [ieq iw1] in *; try tauto. destruct Hij as [-> _]. reflexivity.
Qed.
Lemma iw_pads p : Forall ispad p -> iw p = N.of_nat (length p).
Proof.
  induction 1 as [|i p [t ->] _ IH]; [reflexivity|]. unfold iw in *. cbn [map sumN length iw1].
  rewrite IH. change (cw0 padc) with 1. lia.
Qed.
Lemma prel_iw s1 s2 : prel s1 s2 -> iw s2 = iw s1 + N.of_nat (length s2 - length s1).
Proof.
  intros (b & p & -> & Hb & Hp). rewrite iw_app, (iw_ieqs _ _ Hb), (iw_pads _ Hp), app_length,
    (ieqs_length _ _ Hb). f_equal. f_equal. lia.
Qed.

Lemma iw_map_IC s t : iw (map (fun c => IC c t) s) = swidth s.
Proof. induction s as [|c s IH]; [reflexivity|]. unfold iw in *. cbn [map sumN iw1 swidth]. rewrite IH. reflexivity. Qed.
Lemma vw_vitems v : vw v = iw (vitems v).
Proof.
  induction v as [|e v IH]; [reflexivity|]. rewrite vw_cons. unfold vitems in *. cbn [flat_map].
  rewrite iw_app, <- IH. f_equal. destruct e; cbn [elem_text elem_items]; [symmetry; apply iw_map_IC|reflexivity].
Qed.
Lemma raw_items l : tl_width_raw l = iw (items l).
Proof. rewrite raw_eq. apply vw_vitems. Qed.

(* some character *)
Definition isIC (i : item) : bool := match i with IC _ _ => true | IFr _ => false end.
Definition hasC (s : list item) : bool := existsb isIC s.
Lemma hasC_app a b : hasC (a ++ b) = hasC a || hasC b.
Proof. apply existsb_app. Qed.
Lemma hasC_ieqs a b : ieqs a b -> hasC a = hasC b.
Proof.
  induction 1 as [|i j a b Hij _ IH]; [reflexivity|]. unfold hasC in *. cbn [existsb]. rewrite IH.
  f_equal. destruct i, j; cbn [ieq isIC] in *; tauto.
Qed.
Lemma hasC_pads p : Forall ispad p -> hasC p = negb (match p with [] => true | _ => false end).
Proof. intros H. destruct H as [|i p [t ->] _]; reflexivity. Qed.
Lemma hasC_map_IC s t : hasC (map (fun c => IC c t) s) = negb (match s with [] => true | _ => false end).
Proof. destruct s; reflexivity. Qed.
Lemma prel_hasC s1 s2 : prel s1 s2 -> hasC s1 = true -> hasC s2 = true.
Proof.
  intros (b & p & -> & Hb & Hp) H. rewrite hasC_app, <- (hasC_ieqs _ _ Hb), H. reflexivity.
Qed.

(* ---- items of the line operations ---- *)
Lemma vitems_app a b : vitems (a ++ b) = vitems a ++ vitems b.
Proof. apply flat_map_app. Qed.

Lemma ieqs_map_IC s t t' : tag_eqb t t' = true -> ieqs (map (fun c => IC c t) s) (map (fun c => IC c t') s).
Proof. intros H. induction s; cbn [map]; constructor; [cbn [ieq]; auto|assumption]. Qed.

Lemma vitems_push_merge v s t :
  ieqs (vitems (v_push_merge v s t)) (vitems v ++ map (fun c => IC c t) s).
Proof.
  induction v as [|e v IH].
  - cbn [v_push_merge vitems flat_map elem_items app]. rewrite app_nil_r. apply ieqs_refl.
  - destruct v as [|e' v].
    + cbn [v_push_merge]. destruct e as [s0 t0|n].
      * destruct (tag_eqb t0 t) eqn:E; unfold vitems; cbn [flat_map elem_items app]; rewrite ?app_nil_r.
        -- rewrite map_app. apply ieqs_app; [apply ieqs_refl|apply ieqs_map_IC, E].
        -- apply ieqs_refl.
      * unfold vitems; cbn [flat_map elem_items app]. rewrite ?app_nil_r. apply ieqs_refl.
    + rewrite v_push_merge_cons2. unfold vitems in *. cbn [flat_map] in *.
      rewrite <- app_assoc. apply ieqs_app; [apply ieqs_refl|exact IH].
Qed.

Lemma items_push_str l s t : ieqs (items (tl_push_str l s t)) (items l ++ map (fun c => IC c t) s).
Proof.
  destruct s as [|c s]; cbn [tl_push_str].
  - cbn [map]. rewrite app_nil_r. apply ieqs_refl.
  - unfold items. cbn [tv]. apply vitems_push_merge.
Qed.
Lemma items_push l e : ieqs (items (tl_push l e)) (items l ++ elem_items e).
Proof.
  destruct e as [s t|n]; cbn [tl_push elem_items]; [apply items_push_str|].
  unfold items. cbn [tv]. rewrite vitems_app. unfold vitems at 2. cbn [flat_map elem_items app].
  apply ieqs_refl.
Qed.
Lemma items_push_char l c t : ieqs (items (tl_push_char l c t)) (items l ++ [IC c t]).
Proof. unfold tl_push_char, items. cbn [tv]. apply (vitems_push_merge (tv l) [c] t). Qed.
Lemma items_fold_push v : forall l, ieqs (items (fold_left tl_push v l)) (items l ++ vitems v).
Proof.
  induction v as [|e v IH]; intros l; cbn [fold_left].
  - unfold vitems. cbn [flat_map]. rewrite app_nil_r. apply ieqs_refl.
  - eapply ieqs_trans; [apply IH|]. unfold vitems. cbn [flat_map]. rewrite app_assoc.
    apply ieqs_app; [apply items_push|apply ieqs_refl].
Qed.
Lemma items_new : items tl_new = [].
Proof. reflexivity. Qed.
Lemma items_insert_front l s t : ieqs (items (tl_insert_front l s t)) (map (fun c => IC c t) s ++ items l).
Proof.
  unfold tl_insert_front, items. destruct (tv l) as [|[s1 t1|n] v'] eqn:E; cbn [tv].
  - unfold vitems. cbn [flat_map elem_items]. apply ieqs_refl.
  - destruct (tag_eqb t1 t) eqn:Et; cbn [tv]; unfold vitems; cbn [flat_map elem_items].
    + rewrite map_app, <- app_assoc. apply ieqs_app; [apply ieqs_map_IC, Et|apply ieqs_refl].
    + apply ieqs_refl.
  - unfold vitems. cbn [flat_map elem_items]. apply ieqs_refl.
Qed.

(* the string of a line is the characters of its items *)
Definition ichars (s : list item) : text :=
  flat_map (fun i => match i with IC c _ => [c] | IFr _ => [] end) s.
Lemma ichars_app a b : ichars (a ++ b) = ichars a ++ ichars b.
Proof. apply flat_map_app. Qed.
Lemma ichars_map_IC s t : ichars (map (fun c => IC c t) s) = s.
Proof. induction s as [|c s IH]; [reflexivity|]. unfold ichars in *. cbn [map flat_map app]. rewrite IH. reflexivity. Qed.
Lemma tl_string_items l : tl_string l = ichars (items l).
Proof.
  unfold tl_string, items, vitems. induction (tv l) as [|e v IH]; [reflexivity|].
  cbn [flat_map]. rewrite ichars_app, <- IH. f_equal.
  destruct e; cbn [elem_text elem_items]; [symmetry; apply ichars_map_IC|reflexivity].
Qed.
Lemma ichars_ieqs a b : ieqs a b -> ichars a = ichars b.
Proof.
  induction 1 as [|i j a b Hij _ IH]; [reflexivity|]. unfold ichars in *. cbn [flat_map]. rewrite IH.
  f_equal. destruct i, j; cbn [ieq] in *; try tauto. destruct Hij as [-> _]. reflexivity.
Qed.
Lemma ichars_pads p : Forall ispad p -> ichars p = repeat_chr padc (length p).
Proof.
  induction 1 as [|i p [t ->] _ IH]; [reflexivity|]. unfold ichars in *. cbn [flat_map length repeat_chr app].
  rewrite IH. reflexivity.
Qed.

(* ---- line invariant: the length field is exact, and the line is "empty" (no Str element)
   exactly when it has no character ---- *)
Definition LI (l : tline) : Prop :=
  tlen_ l = tl_width_raw l /\ tl_is_empty l = negb (hasC (items l)).

Lemma LI_new : LI tl_new.
Proof. split; reflexivity. Qed.

Lemma LI_push_str l s t : LI l -> LI (tl_push_str l s t).
Proof.
  intros [H1 H2]. split; [rewrite tlen_push_str, raw_push_str; lia|].
  destruct s as [|c s]; [exact H2|].
  rewrite (hasC_ieqs _ _ (items_push_str l (c :: s) t)), hasC_app, hasC_map_IC, orb_true_r.
  unfold tl_is_empty. cbn [tl_push_str tv]. rewrite content_push_merge. reflexivity.
Qed.
Lemma LI_push l e : LI l -> LI (tl_push l e).
Proof.
  destruct e as [s t|n]; cbn [tl_push]; [apply LI_push_str|].
  intros [H1 H2]. split; [cbn [tlen_]; rewrite raw_eq in *; cbn [tv]; rewrite vw_app, vw_cons, vw_nil; cbn [elem_text]; rewrite swidth_nil; lia|].
  unfold tl_is_empty, items in *. cbn [tv]. rewrite existsb_app, vitems_app, hasC_app.
  cbn [existsb elem_has_content]. unfold vitems at 2. cbn [flat_map elem_items app hasC existsb isIC].
  rewrite !orb_false_r. exact H2.
Qed.
Lemma LI_push_char l c t : LI l -> LI (tl_push_char l c t).
Proof.
  intros [H1 H2]. split; [rewrite tlen_push_char, raw_push_char; lia|].
  rewrite (hasC_ieqs _ _ (items_push_char l c t)), hasC_app. cbn [hasC existsb isIC]. rewrite orb_true_r.
  unfold tl_is_empty, tl_push_char. cbn [tv]. rewrite content_push_merge. reflexivity.
Qed.
Lemma LI_push_wsl lb l n t : LI l -> LI (tl_push_wsl lb l n t).
Proof. apply LI_push_str. Qed.
Lemma LI_fold_push v : forall l, LI l -> LI (fold_left tl_push v l).
Proof. induction v as [|e v IH]; intros l H; cbn [fold_left]; [exact H|]. apply IH, LI_push, H. Qed.
Lemma LI_insert_front l s t : s <> [] -> LI l -> LI (tl_insert_front l s t).
Proof.
  intros Hs [H1 H2]. split.
  - rewrite raw_insert_front. unfold tl_insert_front.
    destruct (tv l) as [|[s1 t1|n] v']; [|destruct (tag_eqb t1 t)|]; cbn [tlen_]; lia.
  - rewrite (hasC_ieqs _ _ (items_insert_front l s t)), hasC_app, hasC_map_IC.
    destruct s as [|c s]; [congruence|]. cbn [negb orb].
    unfold tl_is_empty, tl_insert_front.
    destruct (tv l) as [|[s1 t1|n] v']; [|destruct (tag_eqb t1 t)|]; reflexivity.
Qed.

Lemma LI_nonempty_hasC l : LI l -> tl_is_empty l = false -> hasC (items l) = true.
Proof. intros [_ H] E. rewrite E in H. destruct (hasC (items l)); [reflexivity|discriminate]. Qed.

(* ---- the line relation ---- *)
(* tb: the tree may contain tables; then the padded line is no wider than max (unpadded, W) *)
Definition LR (tb : bool) (W : N) (l1 l2 : tline) : Prop :=
  prel (items l1) (items l2) /\ LI l1 /\ LI l2 /\ hasC (items l1) = hasC (items l2) /\
  (tb = true -> tl_width_raw l2 <= N.max (tl_width_raw l1) W).

(* the tight relation: the same items *)
Definition TR (l1 l2 : tline) : Prop :=
  ieqs (items l1) (items l2) /\ LI l1 /\ LI l2.

Lemma TR_LR tb W l1 l2 : TR l1 l2 -> LR tb W l1 l2.
Proof.
  intros (H & A & B). split; [apply prel_of_ieqs, H|]. split; [exact A|]. split; [exact B|].
  split; [apply hasC_ieqs, H|]. intros _. rewrite !raw_items, (iw_ieqs _ _ H). lia.
Qed.
Lemma TR_refl l : LI l -> TR l l.
Proof. intros H. split; [apply ieqs_refl|auto]. Qed.
Lemma LR_refl tb W l : LI l -> LR tb W l l.
Proof. intros H. apply TR_LR, TR_refl, H. Qed.
Lemma LR_mono tb W W' l1 l2 : W <= W' -> LR tb W l1 l2 -> LR tb W' l1 l2.
Proof.
  intros H (A & B & C & D & E). split; [exact A|]. split; [exact B|]. split; [exact C|].
  split; [exact D|]. intros T. specialize (E T). lia.
Qed.
Lemma LR_empty tb W l1 l2 : LR tb W l1 l2 -> tl_is_empty l1 = tl_is_empty l2.
Proof. intros (_ & [_ A] & [_ B] & C & _). rewrite A, B, C. reflexivity. Qed.
Lemma LR_raw tb W l1 l2 : LR tb W l1 l2 ->
  tl_width_raw l2 = tl_width_raw l1 + N.of_nat (length (items l2) - length (items l1)).
Proof. intros (A & _). rewrite !raw_items. apply prel_iw, A. Qed.

(* padding a line *)
Lemma LR_pad tb W l t l2 :
  LI l -> (tl_is_empty l = false \/ W = 0) -> tl_pad_to l W t = Ok l2 -> LR tb W l l2.
Proof.
  intros HL Hne H. unfold tl_pad_to in H. rewrite (tl_width_ok l (proj1 HL)) in H. cbn [bind] in H.
  destruct (N.ltb_spec (tl_width_raw l) W) as [Hlt|Hge]; injection H as <-; [|apply LR_refl, HL].
  assert (Hc : hasC (items l) = true).
  { destruct Hne as [Hne|Hz]; [apply LI_nonempty_hasC; assumption|lia]. }
  pose proof (items_push_str l (spacesl L_pad (W - tl_width_raw l)) t) as Hi.
  assert (Hp : Forall ispad (map (fun c => IC c t) (spacesl L_pad (W - tl_width_raw l)))).
  { unfold spacesl. induction (N.to_nat (W - tl_width_raw l)) as [|n IH]; cbn [repeat_chr map]; constructor; auto.
    exists t. reflexivity. }
  unfold tl_push_wsl. split.
  { eapply prel_r; [|apply ieqs_sym, Hi]. apply prel_pad; [apply prel_refl|exact Hp]. }
  split; [exact HL|]. split; [apply LI_push_str, HL|]. split.
  { rewrite (hasC_ieqs _ _ Hi), hasC_app, Hc. reflexivity. }
  intros _. rewrite raw_push_str, swidth_spacesl. lia.
Qed.

(* a padding run never hits the width debug_assert on a line whose length field is exact *)
Lemma tl_pad_to_total l W t : LI l -> exists l2, tl_pad_to l W t = Ok l2.
Proof.
  intros [H _]. unfold tl_pad_to. rewrite (tl_width_ok l H). cbn [bind].
  destruct (tl_width_raw l <? W); eauto.
Qed.
(* ================================================================== *)
(* 2. The wrapped block: strict lock-step simulation, padding off / on  *)
(* ================================================================== *)

Lemma res_rel_head {A C D} (Q : C -> D -> Prop) (e : res A) (k1 : A -> res C) (k2 : A -> res D) :
  (forall v, e = Ok v -> res_rel Q (k1 v) (k2 v)) -> res_rel Q (bind e k1) (bind e k2).
Proof. intros H. destruct e; cbn [bind res_rel]; auto. Qed.

Lemma res_rel_ok {A B} (P : A -> B -> Prop) a b : P a b -> res_rel P (Ok a) (Ok b).
Proof. exact (fun H => H). Qed.

(* the result of hw_scan *)
Lemma hw_scan_inv ovf line0 : forall s first tr ll wp taken ll' wp',
  hw_scan ovf line0 first s tr ll wp = Ok (taken, ll', wp') ->
  (first = true -> tr = []) ->
  exists pre rest', s = pre ++ rest' /\ wp' = wp + swidth pre /\
    ((taken = rev tr ++ pre /\ (first = true -> pre = [] -> tl_width_raw line0 <> 0)) \/
     (taken = [] /\ rest' = [] /\ swidth s <= ll)).
Proof.
  induction s as [|c s IH]; intros first tr ll wp taken ll' wp' H Hf; cbn [hw_scan] in H.
  - injection H as <- <- <-. exists [], []. rewrite swidth_nil. split; [reflexivity|].
    split; [lia|]. right. split; [reflexivity|]. split; [reflexivity|lia].
  - destruct (cw c) as [c_w|] eqn:Ecw; [|discriminate].
    assert (Hc0 : cw0 c = c_w) by (unfold cw0; rewrite Ecw; reflexivity).
    destruct (N.leb_spec c_w ll) as [Hfit|Hnofit].
    + destruct (IH false (c :: tr) (ll - c_w) (wp + c_w) taken ll' wp' H) as (pre & rest' & E1 & E2 & E3);
        [discriminate|].
      exists (c :: pre), rest'. subst s. split; [reflexivity|]. rewrite swidth_cons.
      split; [lia|]. destruct E3 as [[A _]|(A & B & C)].
      * left. split; [|discriminate]. rewrite A. cbn [rev]. rewrite <- app_assoc. reflexivity.
      * right. split; [exact A|]. split; [exact B|]. rewrite swidth_cons. lia.
    + destruct first.
      * unfold tl_width in H. destruct (tlen_ line0 =? tl_width_raw line0); cbn [bind] in H; [|discriminate].
        rewrite (Hf eq_refl) in *.
        destruct (N.eqb_spec (tl_width_raw line0) 0) as [Ez|Enz].
        -- destruct ovf; [|discriminate]. injection H as <- <- <-.
           destruct (take_zw_split s) as [r Er].
           exists (c :: take_zw s), r. split; [cbn [app]; f_equal; exact Er|].
           rewrite swidth_cons, swidth_take_zw.
           split; [lia|]. left. split; [reflexivity|discriminate].
        -- injection H as <- <- <-. exists [], (c :: s). split; [reflexivity|]. rewrite swidth_nil.
           split; [lia|]. left. split; [rewrite app_nil_r; reflexivity|]. intros _ _. exact Enz.
      * injection H as <- <- <-. exists [], (c :: s). split; [reflexivity|]. rewrite swidth_nil.
        split; [lia|]. left. split; [rewrite app_nil_r; reflexivity|discriminate].
Qed.

Section WB.
  Variable tb : bool.
  Variable W : N.

  (* the state of the padded run that corresponds to state b of the unpadded run *)
  Definition mkp (b : wblock) (tp : list tline) : wblock :=
    mkwb (wwidth b) tp (wline b) (spacetag b) (wword b) (wordlen b) (wslen b) (pre_wrapped b)
         true (allow_overflow b).

  (* b1: padding off; b2: padding on.  Every field agrees except the finished lines, which are
     related line by line; the line under construction satisfies LI. *)
  Definition WR (b1 b2 : wblock) : Prop :=
    exists tp, b2 = mkp b1 tp /\ wwidth b1 = W /\ pad_blocks b1 = false /\
               Forall2 (LR tb W) (wtext b1) tp /\ LI (wline b1).

  Definition WR2 {X} (p1 p2 : wblock * X) : Prop := WR (fst p1) (fst p2) /\ snd p1 = snd p2.

  Ltac pj :=
    cbn [mkp wwidth wtext wline spacetag wword wordlen wslen pre_wrapped pad_blocks allow_overflow
         set_line set_text_line set_space set_word set_prew fst snd] in *.

  (* WR after updating fields other than the finished lines *)
  Ltac wr tp :=
    exists tp; split; [reflexivity|]; pj; split; [assumption|]; split; [assumption|];
    split; [assumption|];
    auto using LI_new, LI_push, LI_push_str, LI_push_char, LI_push_wsl, LI_fold_push.

  Lemma ffl_pad b1 b2 :
    WR b1 b2 -> (tl_is_empty (wline b1) = false \/ wwidth b1 = 0) ->
    res_rel WR (force_flush_line b1) (force_flush_line b2).
  Proof.
    intros (tp & -> & HW & Hp & HF & HL) Hne. unfold force_flush_line. pj. rewrite Hp.
    destruct (tl_pad_to_total (wline b1) (wwidth b1)
                (match spacetag b1 with Some st => st | None => [] end) HL) as (l2 & E).
    rewrite E. cbn [bind res_rel].
    exists (tp ++ [l2]). split; [reflexivity|]. pj. split; [exact HW|]. split; [exact Hp|].
    split; [|apply LI_new].
    apply Forall2_app; [exact HF|]. constructor; [|constructor]. rewrite <- HW.
    eapply LR_pad; eassumption.
  Qed.

  Lemma flush_line_pad b1 b2 : WR b1 b2 -> res_rel WR (flush_line b1) (flush_line b2).
  Proof.
    intros HR. pose proof HR as (tp & -> & HW & Hp & HF & HL). unfold flush_line. pj.
    destruct (tl_is_empty (wline b1)) eqn:E; [exact HR|].
    apply ffl_pad; [exact HR|]. left. exact E.
  Qed.

  Lemma hw_piece_pad t w : forall fuel b1 b2 rest consumed lineleft wpos,
    WR b1 b2 -> w <= wpos + swidth rest ->
    res_rel (@WR2 N) (hw_piece fuel b1 t w rest consumed lineleft wpos)
                     (hw_piece fuel b2 t w rest consumed lineleft wpos).
  Proof.
    induction fuel as [|f IH]; intros b1 b2 rest consumed lineleft wpos HR Hinv; cbn [hw_piece].
    - exact I.
    - destruct HR as (tp & -> & HW & Hp & HF & HL).
      apply res_rel_head. intros rem Hrem. unfold usub in Hrem.
      destruct (N.leb_spec wpos w) as [Hle|]; [|discriminate]. injection Hrem as <-.
      destruct (N.ltb_spec lineleft (w - wpos)) as [Hlt|Hge].
      + pj. apply res_rel_head. intros [[taken ll0] wpos'] Hscan.
        destruct (hw_scan_inv _ _ _ _ _ _ _ _ _ _ Hscan (fun _ => eq_refl))
          as (pre & rest' & E1 & E2 & E3).
        assert (Hcase : taken = pre /\ (pre = [] -> tl_width_raw (wline b1) <> 0)).
        { destruct E3 as [[A B]|(A & B & C)]; [cbn [rev app] in A; auto|lia]. }
        destruct Hcase as [-> Hnb]. clear E3.
        eapply res_rel_bind with (P := WR).
        { apply ffl_pad; [wr tp|]. pj. left.
          destruct pre as [|c pre].
          - cbn [tl_push tl_push_str]. destruct (tl_is_empty (wline b1)) eqn:Ee; [|reflexivity].
            apply tl_is_empty_raw in Ee. specialize (Hnb eq_refl). congruence.
          - unfold tl_is_empty. cbn [tl_push tl_push_str tv]. rewrite content_push_merge. reflexivity. }
        intros b1' b2' (tp' & -> & HW' & Hp' & HF' & HL'). pj.
        apply IH; [wr tp'|].
        subst rest. rewrite skipn_length_app. rewrite swidth_app in Hinv. lia.
      + destruct (negb consumed).
        * apply res_rel_head. intros ll _. cbn [res_rel]. split; [|reflexivity]. pj. wr tp.
        * destruct rest as [|c rest].
          -- cbn [res_rel]. split; [|reflexivity]. pj. wr tp.
          -- apply res_rel_head. intros ll _. cbn [res_rel]. split; [|reflexivity]. pj. wr tp.
  Qed.

  Lemma hw_elems_pad : forall els b1 b2 ll,
    WR b1 b2 -> res_rel WR (hw_elems b1 els ll) (hw_elems b2 els ll).
  Proof.
    induction els as [|e els IH]; intros b1 b2 ll HR; cbn [hw_elems].
    - exact HR.
    - destruct e as [s t|n].
      + eapply res_rel_bind with (P := @WR2 N); [apply hw_piece_pad; [exact HR|lia]|].
        intros [b1' x1] [b2' x2] [HR' E]. cbn [fst snd] in *. subst x2. apply IH, HR'.
      + apply IH. destruct HR as (tp & -> & HW & Hp & HF & HL). pj. wr tp.
  Qed.

  Lemma fwhw_pad b1 b2 :
    WR b1 b2 -> res_rel WR (flush_word_hard_wrap b1) (flush_word_hard_wrap b2).
  Proof.
    intros (tp & -> & HW & Hp & HF & HL). unfold flush_word_hard_wrap. pj.
    apply res_rel_head. intros ll _. apply hw_elems_pad. pj. wr tp.
  Qed.

  Lemma ws_loop_pad : forall fuel b1 b2,
    WR b1 b2 -> res_rel WR (ws_loop fuel b1) (ws_loop fuel b2).
  Proof.
    induction fuel as [|f IH]; intros b1 b2 HR; pose proof HR as (tp & -> & HW & Hp & HF & HL);
      cbn [ws_loop]; pj; (destruct (wslen b1 =? 0); [exact HR|]); [exact I|].
    destruct (wwidth b1 =? 0); [cbn [res_rel]; wr tp|].
    destruct (spacetag b1) as [st|]; [|reflexivity].
    eapply res_rel_bind with (P := WR).
    { destruct (N.min (wslen b1) (wwidth b1) =? wwidth b1);
        [apply flush_line_pad; wr tp | cbn [res_rel]; wr tp]. }
    intros b1' b2' (tp' & -> & HW' & Hp' & HF' & HL'). pj. apply IH. wr tp'.
  Qed.

  Lemma flush_word_pad m b1 b2 : WR b1 b2 -> res_rel WR (flush_word b1 m) (flush_word b2 m).
  Proof.
    intros (tp & -> & HW & Hp & HF & HL). unfold flush_word. pj.
    destruct (word_is_empty (wword b1)); [cbn [res_rel]; wr tp|].
    apply res_rel_head. intros sil _.
    destruct (wslen b1 + wordlen b1 <=? sil).
    - destruct (0 <? wslen b1).
      + destruct (spacetag b1) as [st|]; cbn [bind res_rel]; [|reflexivity]. pj. wr tp.
      + cbn [bind res_rel]. wr tp.
    - eapply res_rel_bind with (P := WR).
      { destruct (negb (do_wrap m)).
        - destruct (sil <=? wslen b1); [cbn [res_rel]; wr tp|].
          destruct (0 <? wslen b1); [|cbn [res_rel]; wr tp].
          destruct (spacetag b1); [cbn [res_rel]; wr tp|reflexivity].
        - cbn [res_rel]. wr tp. }
      intros b1' b2' HR1.
      eapply res_rel_bind with (P := WR); [apply flush_line_pad, HR1|].
      intros b1'' b2'' (tp2 & -> & HW2 & Hp2 & HF2 & HL2).
      eapply res_rel_bind with (P := WR).
      { destruct (is_pre m); pj; apply ws_loop_pad; wr tp2. }
      intros b4 b4' (tp4 & -> & HW4 & Hp4 & HF4 & HL4).
      eapply res_rel_bind with (P := WR).
      { apply fwhw_pad. pj. wr tp4. }
      intros b6 b6' (tp6 & -> & HW6 & Hp6 & HF6 & HL6). cbn [res_rel]. pj. wr tp6.
  Qed.

  Lemma tab_loop_pad : forall fuel b1 b2 t tw pos one fl,
    WR b1 b2 ->
    res_rel (@WR2 bool) (tab_loop fuel b1 t tw pos one fl) (tab_loop fuel b2 t tw pos one fl).
  Proof.
    induction fuel as [|f IH]; intros b1 b2 t tw pos one fl HR;
      pose proof HR as (tp & -> & HW & Hp & HF & HL); cbn [tab_loop]; pj;
      (destruct (negb (pos mod 8 =? 0) || negb one); [|split; [exact HR|reflexivity]]); [exact I|].
    destruct (wwidth b1 =? 0); [split; [exact HR|reflexivity]|].
    destruct (wwidth b1 <=? pos).
    - eapply res_rel_bind with (P := WR); [apply flush_line_pad, HR|].
      intros b1' b2' HR'. apply IH, HR'.
    - apply IH. wr tp.
  Qed.

  (* the character is not a line break of preformatted text *)
  Definition nonl (m : wsmode) (c : chr) : bool := negb (preserve_ws m && ws c && (cp c =? 10)).

  Lemma add_char_pad m t1 t2 b1 b2 u c :
    WR b1 b2 -> nonl m c = true ->
    res_rel (@WR2 bool) (add_char m t1 t2 (b1, u) c) (add_char m t1 t2 (b2, u) c).
  Proof.
    intros HR Hnl. pose proof HR as (tp & -> & HW & Hp & HF & HL). unfold add_char.
    eapply res_rel_bind with (P := WR).
    { pj. destruct (ws c && (0 <? wordlen b1)); [apply flush_word_pad, HR|exact HR]. }
    clear tp HR HW Hp HF HL b1. intros b1 b2 HR. pose proof HR as (tp & -> & HW & Hp & HF & HL). cbv zeta. pj.
    unfold nonl in Hnl.
    destruct (ws c).
    - destruct (preserve_ws m).
      + destruct (cp c =? 10); [discriminate|].
        destruct (cp c =? 9).
        * eapply res_rel_bind with (P := @WR2 bool); [apply tab_loop_pad, HR|].
          intros [b1' f1] [b2' f2] [(tp' & E & HW' & Hp' & HF' & HL') Ef]. cbn [fst snd] in *. subst b2' f2.
          destruct (is_pre m && f1); cbn [res_rel]; (split; [|reflexivity]); pj; wr tp'.
        * destruct (cw c) as [cwidth|]; [|split; [exact HR|reflexivity]].
          destruct (wwidth b1 <? tlen_ (wline b1) + wslen b1 + cwidth).
          -- eapply res_rel_bind with (P := WR); [apply flush_line_pad; wr tp|].
             intros b1' b2' (tp' & -> & HW' & Hp' & HF' & HL').
             destruct (do_wrap m); cbn [res_rel]; (split; [|reflexivity]); pj; wr tp'.
          -- cbn [res_rel]. split; [|reflexivity]. pj. wr tp.
      + destruct ((0 <? tlen_ (wline b1)) && (wslen b1 =? 0)); cbn [res_rel]; (split; [|reflexivity]);
          pj; wr tp.
    - destruct (cw c) as [cwidth|]; [|split; [exact HR|reflexivity]].
      destruct (is_pre m && (wwidth b1 <? tlen_ (wline b1) + wslen b1 + (wordlen b1 + cwidth)));
        cbn [res_rel]; (split; [|reflexivity]); pj; wr tp.
  Qed.

  Definition nlfree_m (m : wsmode) (s : text) : bool := forallb (nonl m) s.

  Lemma add_chars_pad m t1 t2 : forall s b1 b2 u,
    WR b1 b2 -> nlfree_m m s = true ->
    res_rel (@WR2 bool) (add_chars m t1 t2 (b1, u) s) (add_chars m t1 t2 (b2, u) s).
  Proof.
    induction s as [|c s IH]; intros b1 b2 u HR Hs; cbn [add_chars].
    - split; [exact HR|reflexivity].
    - cbn [nlfree_m forallb] in Hs. apply andb_true_iff in Hs. destruct Hs as [Hc Hs].
      eapply res_rel_bind with (P := @WR2 bool); [apply add_char_pad; assumption|].
      intros [b1' u1] [b2' u2] [HR' E]. cbn [fst snd] in *. subst u2. apply IH; assumption.
  Qed.

  Lemma wb_add_text_pad b1 b2 s m t1 t2 :
    WR b1 b2 -> nlfree_m m s = true ->
    res_rel WR (wb_add_text b1 s m t1 t2) (wb_add_text b2 s m t1 t2).
  Proof.
    intros HR Hs. unfold wb_add_text.
    eapply res_rel_bind with (P := @WR2 bool).
    - pose proof HR as (tp & -> & _). pj. apply add_chars_pad; assumption.
    - intros p1 p2 [HR' _]. exact HR'.
  Qed.

  Lemma wb_add_element_pad b1 b2 e : WR b1 b2 -> WR (wb_add_element b1 e) (wb_add_element b2 e).
  Proof.
    intros HR. pose proof HR as (tp & -> & HW & Hp & HF & HL). destruct e as [s t|n]; cbn [wb_add_element].
    - destruct s; [exact HR|]. pj. wr tp.
    - pj. wr tp.
  Qed.

  Lemma ttf_pad b1 b2 :
    WR b1 b2 ->
    WR (fst (take_trailing_fragments b1)) (fst (take_trailing_fragments b2)) /\
    snd (take_trailing_fragments b1) = snd (take_trailing_fragments b2).
  Proof.
    intros (tp & -> & HW & Hp & HF & HL). rewrite !ttf_eq. pj. split; [|reflexivity]. wr tp.
  Qed.

  Lemma wb_flush_pad b1 b2 : WR b1 b2 -> res_rel WR (wb_flush b1) (wb_flush b2).
  Proof.
    intros HR. unfold wb_flush.
    eapply res_rel_bind with (P := WR); [apply flush_word_pad, HR|].
    intros b1' b2' HR'. apply flush_line_pad, HR'.
  Qed.

  Lemma wb_into_lines_markers_pad b1 b2 :
    WR b1 b2 ->
    res_rel (fun lm1 lm2 => Forall2 (LR tb W) (fst lm1) (fst lm2) /\ snd lm1 = snd lm2)
            (wb_into_lines_markers b1) (wb_into_lines_markers b2).
  Proof.
    intros HR. unfold wb_into_lines_markers.
    eapply res_rel_bind with (P := WR); [apply wb_flush_pad, HR|].
    intros b1' b2' (tp & -> & HW & Hp & HF & HL). cbn [res_rel fst snd]. pj. auto.
  Qed.

  Lemma wb_new_pad ovf : WR (wb_new W false ovf) (wb_new W true ovf).
  Proof.
    exists []. split; [reflexivity|]. unfold wb_new. pj. split; [reflexivity|]. split; [reflexivity|].
    split; [constructor|apply LI_new].
  Qed.

  Lemma WR_fields b1 b2 : WR b1 b2 ->
    wwidth b2 = wwidth b1 /\ wline b2 = wline b1 /\ wword b2 = wword b1 /\ wordlen b2 = wordlen b1 /\
    length (wtext b2) = length (wtext b1) /\ wwidth b1 = W.
  Proof.
    intros (tp & -> & HW & Hp & HF & HL). pj. repeat split; auto.
    symmetry. clear -HF. induction HF; cbn [length]; congruence.
  Qed.
End WB.
(* ================================================================== *)
(* 3. The sub-renderer: relation and operations                         *)
(* ================================================================== *)

Definition with_pad (o : ropts) : ropts :=
  mkopts (wrap_width o) (o_allow_overflow o) true (o_raw o) (o_borders o) (o_wrap_links o)
         (o_footnotes o) (o_strike o).

Definition no_pad (o : ropts) : ropts :=
  mkopts (wrap_width o) (o_allow_overflow o) false (o_raw o) (o_borders o) (o_wrap_links o)
         (o_footnotes o) (o_strike o).

Definition isFrag (e : elem) : Prop := match e with Frag _ => True | Str _ _ => False end.

Lemma frags_vitems v : Forall isFrag v -> hasC (vitems v) = false /\ iw (vitems v) = 0.
Proof.
  induction 1 as [|e v He _ [IH1 IH2]]; [split; reflexivity|]. destruct e as [|n]; [destruct He|].
  unfold vitems in *. cbn [flat_map elem_items app hasC existsb isIC orb]. split; [exact IH1|].
  unfold iw in *. cbn [map sumN iw1]. lia.
Qed.

Section SubLayer.
  Variable tb : bool.
  Variable o1 : ropts.

  Inductive RLR (W : N) : rline -> rline -> Prop :=
  | RLR_text l1 l2 : LR tb W l1 l2 -> RLR W (RText l1) (RText l2)
  | RLR_line b t : RLR W (RLine b t) (RLine b t).

  Lemma RLR_mono W W' r1 r2 : W <= W' -> RLR W r1 r2 -> RLR W' r1 r2.
  Proof. intros H [l1 l2 HL|b t]; constructor. eapply LR_mono; eassumption. Qed.

  Lemma RLR_content W r1 r2 : RLR W r1 r2 -> rline_has_content r1 = rline_has_content r2.
  Proof. intros [l1 l2 HL|b t]; cbn [rline_has_content]; [|reflexivity]. rewrite (LR_empty _ _ _ _ HL). reflexivity. Qed.

  Lemma RLRs_content W : forall ls1 ls2, Forall2 (RLR W) ls1 ls2 ->
    existsb rline_has_content ls1 = existsb rline_has_content ls2.
  Proof. induction 1 as [|a b l1 l2 H _ IH]; cbn [existsb]; [reflexivity|]. rewrite IH, (RLR_content _ _ _ H). reflexivity. Qed.

  Definition wrapR (W : N) (w1 w2 : option wblock) : Prop :=
    match w1, w2 with
    | None, None => True
    | Some a, Some b => exists Wb, Wb <= W /\ WR tb Wb a b
    | _, _ => False
    end.

  (* the padded-run sub-renderer that corresponds to x, with lines ls2 and pending block w2 *)
  Definition mks (x : subr) (ls2 : list rline) (w2 : option wblock) : subr :=
    mksub (swidth_ x) (with_pad (sopts x)) ls2 (pending_frags x) (at_block_end x) w2 (ann_stack x)
          (filter_depth x) (pre_depth x) (ws_stack x).

  (* L: the white-space mode stack; W: the width *)
  Definition SR (L : list wsmode) (W : N) (x y : subr) : Prop :=
    exists ls2 w2, y = mks x ls2 w2 /\ sopts x = no_pad o1 /\ swidth_ x = W /\ ws_stack x = L /\
      Forall isFrag (pending_frags x) /\ Forall2 (RLR W) (slines x) ls2 /\ wrapR W (wrapping x) w2.

  Ltac sj :=
    cbn [mks swidth_ sopts slines pending_frags at_block_end wrapping ann_stack filter_depth pre_depth
         ws_stack set_lines set_abe set_wrapping set_ann set_filter set_pre_depth set_ws_stack
         with_pad wrap_width o_allow_overflow o_pad o_raw o_borders o_wrap_links o_footnotes o_strike] in *.

  Definition opS L W (f : subr -> res subr) : Prop :=
    forall x y, SR L W x y -> res_rel (SR L W) (f x) (f y).
  Definition pureS L W (g : subr -> subr) : Prop := forall x y, SR L W x y -> SR L W (g x) (g y).

  Lemma opS_bind L W f g : opS L W f -> opS L W g -> opS L W (fun s => do x <- f s; g x).
  Proof. intros Hf Hg x y Hxy. eapply res_rel_bind; [apply Hf, Hxy|]. intros. apply Hg. assumption. Qed.
  Lemma pureS_op L W g : pureS L W g -> opS L W (fun s => Ok (g s)).
  Proof. intros H x y Hxy. cbn [res_rel]. apply H, Hxy. Qed.

  (* ---- add_line ---- *)
  Lemma LR_frags_front W pf l1 l2 :
    Forall isFrag pf -> LR tb W l1 l2 ->
    LR tb W (fold_left tl_push (tv l1) (fold_left tl_push pf tl_new))
            (fold_left tl_push (tv l2) (fold_left tl_push pf tl_new)).
  Proof.
    intros Hpf (A & B & C & D & E).
    set (f := fold_left tl_push pf tl_new).
    assert (Hf : ieqs (items f) (vitems pf)).
    { unfold f. eapply ieqs_trans; [apply items_fold_push|]. rewrite items_new. apply ieqs_refl. }
    assert (H1 : ieqs (items (fold_left tl_push (tv l1) f)) (vitems pf ++ items l1)).
    { eapply ieqs_trans; [apply items_fold_push|]. apply ieqs_app; [exact Hf|apply ieqs_refl]. }
    assert (H2 : ieqs (items (fold_left tl_push (tv l2) f)) (vitems pf ++ items l2)).
    { eapply ieqs_trans; [apply items_fold_push|]. apply ieqs_app; [exact Hf|apply ieqs_refl]. }
    assert (Lf : LI f) by (apply LI_fold_push, LI_new).
    destruct (frags_vitems pf Hpf) as [F1 F2].
    split.
    { eapply prel_l; [exact H1|]. eapply prel_r; [|apply ieqs_sym, H2].
      apply prel_front; [apply ieqs_refl|exact A]. }
    split; [apply LI_fold_push, Lf|]. split; [apply LI_fold_push, Lf|]. split.
    { rewrite (hasC_ieqs _ _ H1), (hasC_ieqs _ _ H2), !hasC_app, D. reflexivity. }
    intros T. specialize (E T). rewrite !raw_items in *.
    rewrite (iw_ieqs _ _ H1), (iw_ieqs _ _ H2), !iw_app, F2. lia.
  Qed.

  Lemma add_line_SR L W x y r1 r2 :
    SR L W x y -> RLR W r1 r2 -> SR L W (add_line x r1) (add_line y r2).
  Proof.
    intros (ls2 & w2 & -> & Ho & HW & HL & Hpf & Hls & Hwr) Hr. unfold add_line. sj.
    destruct (pending_frags x) as [|e pf] eqn:Epf.
    - exists (ls2 ++ [r2]), w2. sj. split; [reflexivity|]. repeat split; auto.
      apply Forall2_app; [exact Hls|constructor; [exact Hr|constructor]].
    - destruct Hr as [l1 l2 Hl|b t].
      + eexists (ls2 ++ [RText _]), w2. sj. split; [reflexivity|]. repeat split; auto.
        apply Forall2_app; [exact Hls|]. constructor; [|constructor]. constructor.
        apply (LR_frags_front W (e :: pf) l1 l2 Hpf Hl).
      + exists (ls2 ++ [RLine b t]), w2. sj. split; [reflexivity|]. repeat split; auto.
        apply Forall2_app; [exact Hls|constructor; [constructor|constructor]].
  Qed.

  Lemma extend_lines_SR L W : forall rs1 rs2 x y,
    SR L W x y -> Forall2 (RLR W) rs1 rs2 -> SR L W (extend_lines x rs1) (extend_lines y rs2).
  Proof.
    unfold extend_lines. induction rs1 as [|r1 rs1 IH]; intros rs2 x y Hxy HF; inversion HF; subst;
      cbn [fold_left]; [exact Hxy|].
    apply IH; [apply add_line_SR; assumption|assumption].
  Qed.

  (* ---- flush_wrapping ---- *)
  Lemma flush_SR L W : opS L W flush_wrapping.
  Proof.
    intros x y HS. pose proof HS as (ls2 & w2 & -> & Ho & HW & HL & Hpf & Hls & Hwr).
    unfold flush_wrapping. sj.
    destruct (wrapping x) as [a|] eqn:Ea; destruct w2 as [b|]; cbn [wrapR] in Hwr; try contradiction;
      [|exact HS].
    destruct Hwr as (Wb & HWb & HR).
    destruct (ttf_pad tb Wb a b HR) as [HR1 Efr]. rewrite !ttf_eq in *. cbn [fst snd] in *.
    set (a1 := set_word a (fst (trailing_frags (wword a))) (wordlen a)) in *.
    set (b1 := set_word b (fst (trailing_frags (wword b))) (wordlen b)) in *.
    rewrite <- Efr. set (fr := snd (trailing_frags (wword a))).
    assert (Hfr : Forall isFrag fr).
    { apply Forall_forall. intros e He. destruct (tfr_snd_frag _ _ He) as [n ->]. exact I. }
    pose proof (wb_into_lines_markers_pad tb Wb a1 b1 HR1) as S.
    destruct (wb_into_lines_markers a1) as [[l1 m1]| | |] eqn:E1;
      destruct (wb_into_lines_markers b1) as [[l2 m2]| | |]; cbn [res_rel] in S; try contradiction;
      cbn [bind res_rel]; auto.
    destruct S as [HF Em]. cbn [fst snd] in *. subst m2.
    assert (Hm : Forall isFrag m1).
    { apply Forall_forall. intros e He.
      destruct (wb_into_lines_markers_frags _ _ E1 e He) as [n ->]. exact I. }
    assert (H0 : SR L W (set_wrapping x None) (set_wrapping (mks x ls2 (Some b)) None)).
    { exists ls2, None. sj. repeat split; auto. }
    assert (HF' : Forall2 (RLR W) (map RText l1) (map RText l2)).
    { clear -HF HWb. induction HF; cbn [map]; constructor; auto. constructor.
      eapply LR_mono; eassumption. }
    pose proof (extend_lines_SR L W _ _ _ _ H0 HF') as (ls3 & w3 & E3 & Ho3 & HW3 & HL3 & Hpf3 & Hls3 & Hwr3).
    rewrite E3. sj.
    exists ls3, w3. sj. split; [reflexivity|]. repeat split; auto.
    apply Forall_app. split; [exact Hpf3|]. apply Forall_app. split; assumption.
  Qed.

  Lemma sub_into_lines_SR L W x y :
    SR L W x y -> res_rel (Forall2 (RLR W)) (sub_into_lines x) (sub_into_lines y).
  Proof.
    intros H. unfold sub_into_lines. eapply res_rel_bind; [apply flush_SR, H|].
    intros x1 y1 (ls2 & w2 & -> & _ & _ & _ & _ & Hls & _). cbn [res_rel]. sj. exact Hls.
  Qed.

  (* ---- simple operations ---- *)
  Lemma SR_fields L W x y : SR L W x y ->
    swidth_ y = swidth_ x /\ at_block_end y = at_block_end x /\ ann_stack y = ann_stack x /\
    filter_depth y = filter_depth x /\ pre_depth y = pre_depth x /\ ws_stack y = ws_stack x /\
    pending_frags y = pending_frags x /\ sopts y = with_pad (sopts x) /\ sopts x = no_pad o1 /\
    swidth_ x = W /\ ws_stack x = L.
  Proof. intros (ls2 & w2 & -> & Ho & HW & HL & _). sj. auto 12. Qed.

  Lemma set_abe_SR L W b : pureS L W (fun s => set_abe s b).
  Proof.
    intros x y (ls2 & w2 & -> & Ho & HW & HL & Hpf & Hls & Hwr). exists ls2, w2. sj. repeat split; auto.
  Qed.

  Lemma add_empty_line_SR L W : opS L W add_empty_line.
  Proof.
    unfold add_empty_line. apply opS_bind; [apply flush_SR|]. apply pureS_op. intros x y H.
    apply (set_abe_SR L W false), add_line_SR; [exact H|]. constructor. apply LR_refl, LI_new.
  Qed.

  Lemma start_block_SR L W : opS L W start_block.
  Proof.
    intros x y H. unfold start_block.
    eapply res_rel_bind; [apply flush_SR, H|]. intros x1 y1 H1.
    eapply res_rel_bind with (P := SR L W).
    { pose proof H1 as (ls2 & w2 & -> & _ & _ & _ & _ & Hls & _). sj.
      rewrite <- (RLRs_content W _ _ Hls).
      destruct (existsb rline_has_content (slines x1)); [apply add_empty_line_SR, H1|exact H1]. }
    intros x2 y2 H2. cbn [res_rel]. apply (set_abe_SR L W false), H2.
  Qed.

  Lemma new_line_SR L W : opS L W new_line.
  Proof. apply flush_SR. Qed.

  Lemma new_line_hard_SR L W : opS L W new_line_hard.
  Proof.
    intros x y H. pose proof H as (ls2 & w2 & -> & _ & _ & _ & _ & _ & Hwr). unfold new_line_hard. sj.
    destruct (wrapping x) as [a|]; destruct w2 as [b|]; cbn [wrapR] in Hwr; try contradiction;
      [|apply add_empty_line_SR, H].
    destruct Hwr as (Wb & _ & HR). destruct (WR_fields _ _ _ _ HR) as (_ & E1 & _ & E2 & _).
    rewrite E1, E2.
    destruct ((wordlen a =? 0) && (tlen_ (wline a) =? 0)); [apply add_empty_line_SR, H|apply flush_SR, H].
  Qed.

  Lemma add_hline_SR L W x y b t :
    SR L W x y -> res_rel (SR L W) (add_horizontal_line x b t) (add_horizontal_line y b t).
  Proof.
    intros H. unfold add_horizontal_line. eapply res_rel_bind; [apply flush_SR, H|].
    intros x1 y1 H1. cbn [res_rel]. apply add_line_SR; [exact H1|constructor].
  Qed.

  Lemma hborder_SR L W w : opS L W (fun s => add_horizontal_border_width s w).
  Proof.
    intros x y H. unfold add_horizontal_border_width. eapply res_rel_bind; [apply flush_SR, H|].
    intros x1 y1 H1. cbn [res_rel]. destruct (SR_fields _ _ _ _ H1) as (_ & _ & E & _). rewrite E.
    apply add_line_SR; [exact H1|constructor].
  Qed.

  Lemma push_ws_SR L W m x y : SR L W x y -> SR (m :: L) W (push_ws_mode x m) (push_ws_mode y m).
  Proof.
    intros (ls2 & w2 & -> & Ho & HW & HL & Hpf & Hls & Hwr). exists ls2, w2. unfold push_ws_mode. sj.
    repeat split; auto. congruence.
  Qed.
  Lemma pop_ws_SR L W x y : SR L W x y -> SR (tl L) W (pop_ws_mode x) (pop_ws_mode y).
  Proof.
    intros (ls2 & w2 & -> & Ho & HW & HL & Hpf & Hls & Hwr). exists ls2, w2. unfold pop_ws_mode. sj.
    repeat split; auto. congruence.
  Qed.
  Lemma push_pre_SR L W : pureS L W push_preformat.
  Proof.
    intros x y (ls2 & w2 & -> & Ho & HW & HL & Hpf & Hls & Hwr). exists ls2, w2. unfold push_preformat. sj.
    repeat split; auto.
  Qed.
  Lemma pop_pre_SR L W : opS L W pop_preformat.
  Proof.
    intros x y (ls2 & w2 & -> & Ho & HW & HL & Hpf & Hls & Hwr). unfold pop_preformat. sj.
    destruct (0 <? pre_depth x); [|reflexivity]. cbn [res_rel]. exists ls2, w2. sj. repeat split; auto.
  Qed.
  Lemma set_ann_SR L W (f : tag -> tag) : pureS L W (fun s => set_ann s (f (ann_stack s))).
  Proof.
    intros x y (ls2 & w2 & -> & Ho & HW & HL & Hpf & Hls & Hwr). exists ls2, w2. sj. repeat split; auto.
  Qed.
  Lemma push_ann_SR L W a : pureS L W (fun s => push_ann s a).
  Proof. apply (set_ann_SR L W (fun t => t ++ [a])). Qed.
  Lemma pop_ann_SR L W : pureS L W pop_ann.
  Proof. apply (set_ann_SR L W (@removelast ann)). Qed.
  Lemma push_colour_SR L W d r g b : pureS L W (fun s => push_colour d s r g b).
  Proof. intros x y H. unfold push_colour. destruct (d_colours d); [apply push_ann_SR, H|exact H]. Qed.
  Lemma push_bg_SR L W d r g b : pureS L W (fun s => push_bgcolour d s r g b).
  Proof. intros x y H. unfold push_bgcolour. destruct (d_colours d); [apply push_ann_SR, H|exact H]. Qed.
  Lemma pop_colour_SR L W d : pureS L W (pop_colour d).
  Proof. intros x y H. unfold pop_colour. destruct (d_colours d); [apply pop_ann_SR, H|exact H]. Qed.
  Lemma end_block_SR L W : pureS L W end_block.
  Proof. apply set_abe_SR. Qed.
  Lemma set_filter_SR L W n : pureS L W (fun s => set_filter s n).
  Proof.
    intros x y (ls2 & w2 & -> & Ho & HW & HL & Hpf & Hls & Hwr). exists ls2, w2. sj. repeat split; auto.
  Qed.

  (* ---- inline text ---- *)
  Definition mode_of (L : list wsmode) : wsmode := match L with m :: _ => m | [] => WsNormal end.
  Definition nlfree (t : text) : bool := forallb (fun c => negb (ws c && (cp c =? 10))) t.
  (* the text has no line break, or white space is not preserved *)
  Definition tok (L : list wsmode) (t : text) : bool := negb (preserve_ws (mode_of L)) || nlfree t.

  Lemma nlfree_filter t : nlfree t = true -> nlfree (filter_strikeout t) = true.
  Proof.
    unfold nlfree, filter_strikeout. induction t as [|c t IH]; [reflexivity|]. cbn [forallb flat_map].
    intros H. apply andb_true_iff in H. destruct H as [Hc Ht]. rewrite forallb_app, (IH Ht), andb_true_r.
    destruct (negb (ws c) && (0 <? cw0 c)); cbn [forallb]; rewrite Hc; reflexivity.
  Qed.
  Lemma nlfree_filters n : forall t, nlfree t = true -> nlfree (apply_filters n t) = true.
  Proof. induction n as [|n IH]; intros t H; cbn [apply_filters]; [exact H|]. apply IH, nlfree_filter, H. Qed.

  Lemma tok_nlfree_m L n t : tok L t = true -> nlfree_m (mode_of L) (apply_filters n t) = true.
  Proof.
    unfold tok, nlfree_m, nonl. intros H. destruct (preserve_ws (mode_of L)); cbn [negb orb andb] in *.
    - apply (nlfree_filters n) in H. unfold nlfree in H. exact H.
    - apply forallb_forall. reflexivity.
  Qed.

  Lemma get_wrapping_SR L W x y :
    SR L W x y -> exists Wb, Wb <= W /\ WR tb Wb (get_wrapping x) (get_wrapping y).
  Proof.
    intros (ls2 & w2 & -> & Ho & HW & HL & Hpf & Hls & Hwr). unfold get_wrapping. sj.
    destruct (wrapping x) as [a|]; destruct w2 as [b|]; cbn [wrapR] in Hwr; try contradiction;
      [exact Hwr|].
    rewrite Ho. cbn [no_pad o_pad wrap_width o_allow_overflow].
    eexists. split; [|apply wb_new_pad]. destruct (wrap_width o1); lia.
  Qed.

  Lemma set_wrapping_SR L W x y a b Wb :
    SR L W x y -> Wb <= W -> WR tb Wb a b -> SR L W (set_wrapping x (Some a)) (set_wrapping y (Some b)).
  Proof.
    intros (ls2 & w2 & -> & Ho & HW & HL & Hpf & Hls & Hwr) Hle HR. exists ls2, (Some b). sj.
    repeat split; auto. exists Wb. auto.
  Qed.

  Section Deco.
    Variable d : deco.

    Lemma inline_SR L W t : tok L t = true -> opS L W (fun s => add_inline_text d s t).
    Proof.
      intros Ht x y H. unfold add_inline_text, ws_mode.
      destruct (SR_fields _ _ _ _ H) as (_ & E1 & _ & _ & _ & E2 & _ & _ & _ & _ & E3).
      rewrite E1, E2, E3. fold (mode_of L).
      destruct (negb (preserve_ws (mode_of L)) && at_block_end x && all_ws t); [exact H|].
      eapply res_rel_bind with (P := SR L W).
      { destruct (at_block_end x); [apply start_block_SR, H|exact H]. }
      intros x1 y1 H1.
      destruct (SR_fields _ _ _ _ H1) as (_ & _ & F1 & F2 & F3 & F4 & _ & _ & _ & _ & F5).
      rewrite F1, F2, F3, F4, F5. fold (mode_of L).
      destruct (get_wrapping_SR _ _ _ _ H1) as (Wb & HWb & HR).
      eapply res_rel_bind; [apply (wb_add_text_pad tb Wb _ _ _ _ _ _ HR), tok_nlfree_m, Ht|].
      intros a b HR'. cbn [res_rel]. eapply set_wrapping_SR; eassumption.
    Qed.

    Lemma start_deco_SR L W p : tok L (fst p) = true -> opS L W (fun s => start_deco d s p).
    Proof. intros Ht x y H. unfold start_deco. apply inline_SR; [exact Ht|]. apply push_ann_SR, H. Qed.
    Lemma end_deco_SR L W e : tok L e = true -> opS L W (fun s => end_deco d s e).
    Proof.
      intros Ht x y H. unfold end_deco. eapply res_rel_bind; [apply inline_SR; [exact Ht|exact H]|].
      intros x1 y1 H1. cbn [res_rel]. apply pop_ann_SR, H1.
    Qed.

    Lemma start_strikeout_SR L W : tok L (fst (d_strike_start d)) = true -> opS L W (start_strikeout d).
    Proof.
      intros Ht x y H. unfold start_strikeout.
      eapply res_rel_bind; [apply start_deco_SR; [exact Ht|exact H]|].
      intros x1 y1 H1. cbn [res_rel].
      destruct (SR_fields _ _ _ _ H1) as (_ & _ & _ & E & _ & _ & _ & Eo & _). rewrite Eo, E.
      change (o_strike (with_pad (sopts x1))) with (o_strike (sopts x1)).
      destruct (o_strike (sopts x1)); [apply (set_filter_SR L W), H1|exact H1].
    Qed.
    Lemma end_strikeout_SR L W : tok L (d_strike_end d) = true -> opS L W (end_strikeout d).
    Proof.
      intros Ht x y H. unfold end_strikeout.
      destruct (SR_fields _ _ _ _ H) as (_ & _ & _ & E & _ & _ & _ & Eo & _). rewrite Eo, E.
      change (o_strike (with_pad (sopts x))) with (o_strike (sopts x)).
      eapply res_rel_bind with (P := SR L W); [|intros; apply end_deco_SR; assumption].
      destruct (o_strike (sopts x)); [|exact H].
      destruct (filter_depth x) as [|n] eqn:En; [reflexivity|]. cbn [res_rel].
      apply (set_filter_SR L W n), H.
    Qed.

    Lemma add_image_SR L W src t : tok L (fst (d_image d src t)) = true -> opS L W (fun s => add_image d s src t).
    Proof.
      intros Ht x y H. unfold add_image.
      eapply res_rel_bind; [apply inline_SR; [exact Ht|apply push_ann_SR, H]|].
      intros x1 y1 H1. cbn [res_rel]. apply pop_ann_SR, H1.
    Qed.
  End Deco.

  Lemma frag_SR L W n : pureS L W (fun s => record_frag_start s n).
  Proof.
    intros x y H. unfold record_frag_start. destruct (get_wrapping_SR _ _ _ _ H) as (Wb & HWb & HR).
    eapply set_wrapping_SR; [exact H|exact HWb|]. apply wb_add_element_pad, HR.
  Qed.

  Lemma width_minus_SR L W x y p mn : SR L W x y -> width_minus x p mn = width_minus y p mn.
  Proof. intros (ls2 & w2 & -> & _). unfold width_minus. sj. reflexivity. Qed.

  Lemma new_sub_SR L W x y w : SR L W x y -> SR L w (new_sub_renderer x w) (new_sub_renderer y w).
  Proof.
    intros (ls2 & w2 & -> & Ho & HW & HL & Hpf & Hls & Hwr). exists [], None. unfold new_sub_renderer. sj.
    repeat split; auto.
  Qed.

  Lemma sub_empty_SR L W x y : SR L W x y -> sub_empty x = sub_empty y.
  Proof.
    intros (ls2 & w2 & -> & _ & _ & _ & _ & Hls & Hwr). unfold sub_empty. sj.
    destruct Hls; [|reflexivity].
    destruct (wrapping x) as [a|]; destruct w2 as [b|]; cbn [wrapR] in Hwr; try contradiction;
      [|reflexivity].
    destruct Hwr as (Wb & _ & HR). destruct (WR_fields _ _ _ _ HR) as (_ & E1 & _ & E2 & E3 & _).
    unfold wb_is_empty, wb_text_len. rewrite E1, E2, E3. reflexivity.
  Qed.

  (* ---- prefixes ---- *)
  Lemma attach_prefix_RLR Wu W t p r1 r2 :
    RLR Wu r1 r2 -> (tb = true -> Wu + swidth p <= W) ->
    RLR W (attach_prefix t p r1) (attach_prefix t p r2).
  Proof.
    intros [l1 l2 (A & B & C & D & E)|b bt] Hw; cbn [attach_prefix].
    - destruct p as [|c p].
      + constructor. split; [exact A|]. split; [exact B|]. split; [exact C|]. split; [exact D|].
        intros T. specialize (E T). specialize (Hw T). rewrite swidth_nil in Hw. lia.
      + constructor.
        pose proof (items_insert_front l1 (c :: p) t) as H1.
        pose proof (items_insert_front l2 (c :: p) t) as H2.
        split.
        { eapply prel_l; [exact H1|]. eapply prel_r; [|apply ieqs_sym, H2].
          apply prel_front; [apply ieqs_refl|exact A]. }
        split; [apply LI_insert_front; [discriminate|exact B]|].
        split; [apply LI_insert_front; [discriminate|exact C]|]. split.
        { rewrite (hasC_ieqs _ _ H1), (hasC_ieqs _ _ H2), !hasC_app, D. reflexivity. }
        intros T. specialize (E T). specialize (Hw T). rewrite !raw_insert_front. lia.
    - constructor. apply LR_refl. apply LI_push, LI_push, LI_new.
  Qed.

  Lemma attach_prefixes_RLR Wu W t f r rs1 rs2 :
    Forall2 (RLR Wu) rs1 rs2 ->
    (tb = true -> Wu + swidth f <= W /\ Wu + swidth r <= W) ->
    Forall2 (RLR W) (attach_prefixes t f r rs1) (attach_prefixes t f r rs2).
  Proof.
    intros HF Hw. destruct HF as [|a b l1 l2 Hab HF]; cbn [attach_prefixes]; constructor.
    - eapply attach_prefix_RLR; [exact Hab|]. intros T. apply (Hw T).
    - induction HF; cbn [map]; constructor; auto.
      eapply attach_prefix_RLR; [eassumption|]. intros T. apply (Hw T).
  Qed.

  Lemma append_subrender_SR L W L' Wu x y u v f r :
    SR L W x y -> SR L' Wu u v ->
    (tb = true -> Wu + swidth f <= W /\ Wu + swidth r <= W) ->
    res_rel (SR L W) (append_subrender x u f r) (append_subrender y v f r).
  Proof.
    intros H Hu Hw. unfold append_subrender.
    eapply res_rel_bind; [apply flush_SR, H|]. intros x1 y1 H1.
    eapply res_rel_bind; [apply (sub_into_lines_SR _ _ _ _ Hu)|]. intros rs1 rs2 HF. cbn [res_rel].
    destruct (SR_fields _ _ _ _ H1) as (_ & _ & E & _). rewrite E.
    apply extend_lines_SR; [exact H1|]. eapply attach_prefixes_RLR; eassumption.
  Qed.
End SubLayer.
(* ================================================================== *)
(* 4. Tables                                                            *)
(* ================================================================== *)

Lemma Forall2_olast {A B} (R : A -> B -> Prop) l1 l2 :
  Forall2 R l1 l2 ->
  match olast l1, olast l2 with
  | Some a, Some b => R a b
  | None, None => True
  | _, _ => False
  end.
Proof.
  intros H. unfold olast.
  assert (G : Forall2 R (rev l1) (rev l2)).
  { induction H; cbn [rev]; [constructor|]. apply Forall2_app; [assumption|constructor; [assumption|constructor]]. }
  destruct G; auto.
Qed.

Lemma Forall2_removelast {A B} (R : A -> B -> Prop) l1 l2 :
  Forall2 R l1 l2 -> Forall2 R (removelast l1) (removelast l2).
Proof.
  induction 1 as [|a b l1 l2 Hab H IH]; [constructor|]. cbn [removelast].
  destruct H; [constructor|]. constructor; assumption.
Qed.

Lemma Forall2_nth_opt {A B} (R : A -> B -> Prop) l1 l2 i :
  Forall2 R l1 l2 ->
  match nth_opt l1 i, nth_opt l2 i with
  | Some a, Some b => R a b
  | None, None => True
  | _, _ => False
  end.
Proof.
  intros H. revert i. induction H as [|a b l1 l2 Hab _ IH]; intros i; [destruct i; exact I|].
  destruct i; cbn [nth_opt]; [exact Hab|apply IH].
Qed.

Lemma F2_impl {A B} (P Q : A -> B -> Prop) la lb :
  (forall a b, P a b -> Q a b) -> Forall2 P la lb -> Forall2 Q la lb.
Proof. intros H. induction 1; constructor; auto. Qed.

Lemma Forall2_len {A B} (R : A -> B -> Prop) l1 l2 : Forall2 R l1 l2 -> length l1 = length l2.
Proof. induction 1; cbn [length]; congruence. Qed.

Ltac sj :=
  cbn [mks swidth_ sopts slines pending_frags at_block_end wrapping ann_stack filter_depth pre_depth
       ws_stack set_lines set_abe set_wrapping set_ann set_filter set_pre_depth set_ws_stack
       with_pad wrap_width o_allow_overflow o_pad o_raw o_borders o_wrap_links o_footnotes o_strike] in *.

Section Tables.
  Variable tb : bool.
  Hypothesis Htrue : tb = true.
  Variable o1 : ropts.
  Notation SRt := (SR tb o1).
  Notation RLRt := (RLR tb).

  Inductive TRL : rline -> rline -> Prop :=
  | TRL_text l1 l2 : TR l1 l2 -> TRL (RText l1) (RText l2)
  | TRL_line b t : TRL (RLine b t) (RLine b t).

  Lemma TRL_RLR W r1 r2 : TRL r1 r2 -> RLRt W r1 r2.
  Proof. intros [l1 l2 H|b t]; constructor. apply TR_LR, H. Qed.

  (* padding both lines of a pair to the cell width gives the same items *)
  Lemma pad_pair Wc t l1 l2 :
    LR tb Wc l1 l2 ->
    exists l1' l2', tl_pad_to l1 Wc t = Ok l1' /\ tl_pad_to l2 Wc t = Ok l2' /\ TR l1' l2'.
  Proof.
    intros (A & B & C & D & E). specialize (E Htrue).
    pose proof (prel_iw _ _ A) as Hiw. pose proof (prel_length _ _ A) as Hlen.
    rewrite <- !raw_items in Hiw.
    unfold tl_pad_to. rewrite (tl_width_ok l1 (proj1 B)), (tl_width_ok l2 (proj1 C)). cbn [bind].
    set (r1 := tl_width_raw l1) in *. set (r2 := tl_width_raw l2) in *.
    assert (Hpads : forall n, Forall ispad (map (fun c => IC c t) (spacesl L_pad n))).
    { intros n. unfold spacesl. induction (N.to_nat n) as [|k IH]; cbn [repeat_chr map]; constructor; auto.
      exists t. reflexivity. }
    assert (Hplen : forall n, length (map (fun c => IC c t) (spacesl L_pad n)) = N.to_nat n).
    { intros n. rewrite map_length. unfold spacesl. induction (N.to_nat n) as [|k IH]; cbn [repeat_chr length]; congruence. }
    destruct (N.ltb_spec r1 Wc) as [H1|H1].
    - (* l1 is padded *)
      pose proof (items_push_str l1 (spacesl L_pad (Wc - r1)) t) as I1.
      destruct (N.ltb_spec r2 Wc) as [H2|H2].
      + pose proof (items_push_str l2 (spacesl L_pad (Wc - r2)) t) as I2.
        eexists _, _. split; [reflexivity|]. split; [reflexivity|]. unfold tl_push_wsl.
        split; [|split; apply LI_push_str; assumption].
        eapply ieqs_trans; [exact I1|]. eapply ieqs_trans; [|apply ieqs_sym, I2].
        apply prel_tight; auto. rewrite !app_length, !Hplen. lia.
      + eexists _, _. split; [reflexivity|]. split; [reflexivity|]. unfold tl_push_wsl.
        split; [|split; [apply LI_push_str; assumption|assumption]].
        eapply ieqs_trans; [exact I1|]. rewrite <- (app_nil_r (items l2)).
        apply prel_tight; auto. rewrite !app_length, !Hplen. cbn [length]. lia.
    - (* l1 is wide enough: nothing was added to l2 either *)
      assert (H2 : (r2 <? Wc) = false) by (apply N.ltb_ge; lia). rewrite H2.
      eexists _, _. split; [reflexivity|]. split; [reflexivity|].
      split; [|auto]. rewrite <- (app_nil_r (items l1)), <- (app_nil_r (items l2)).
      apply prel_tight; auto. rewrite !app_length. cbn [length]. lia.
  Qed.

  Lemma pad_cell_lines_R Wc t : forall ls1 ls2,
    Forall2 (RLRt Wc) ls1 ls2 ->
    res_rel (Forall2 TRL) (pad_cell_lines Wc t ls1) (pad_cell_lines Wc t ls2).
  Proof.
    induction 1 as [|r1 r2 ls1 ls2 Hr _ IH]; cbn [pad_cell_lines]; [constructor|].
    destruct Hr as [l1 l2 Hl|b bt].
    - destruct (pad_pair Wc t l1 l2 Hl) as (l1' & l2' & E1 & E2 & HT). rewrite E1, E2. cbn [bind].
      eapply res_rel_bind; [exact IH|]. intros a b Hab. cbn [res_rel]. constructor; [constructor; exact HT|exact Hab].
    - eapply res_rel_bind; [exact IH|]. intros a b0 Hab. cbn [res_rel]. constructor; [constructor|exact Hab].
  Qed.

  (* a cell sub-renderer of each run: related, with some mode stack and width *)
  Definition CellR (u v : subr) : Prop := exists L' Wu, SRt L' Wu u v.

  Definition SetR (p q : N * list rline) : Prop := fst p = fst q /\ Forall2 TRL (snd p) (snd q).

  Lemma col_line_sets_R t : forall us vs,
    Forall2 CellR us vs -> res_rel (Forall2 SetR) (col_line_sets t us) (col_line_sets t vs).
  Proof.
    induction 1 as [|u v us vs (L' & Wu & Huv) _ IH]; cbn [col_line_sets]; [constructor|].
    eapply res_rel_bind; [apply (sub_into_lines_SR tb o1 _ _ _ _ Huv)|]. intros ls1 ls2 Hls.
    destruct (SR_fields _ _ _ _ _ _ Huv) as (Ew & _ & _ & _ & _ & _ & _ & _ & _ & Ew1 & _).
    rewrite Ew, Ew1.
    eapply res_rel_bind; [apply pad_cell_lines_R, Hls|]. intros p1 p2 Hp.
    eapply res_rel_bind; [exact IH|]. intros r1 r2 Hr. cbn [res_rel].
    constructor; [split; [reflexivity|exact Hp]|exact Hr].
  Qed.

  Lemma SetR_fst s1 s2 : Forall2 SetR s1 s2 -> map fst s1 = map fst s2.
  Proof. induction 1 as [|p q s1 s2 [E _] _ IH]; cbn [map]; congruence. Qed.

  Lemma collapse_top_R : forall s1 s2, Forall2 SetR s1 s2 -> forall prev pos,
    res_rel (fun r1 r2 => fst r1 = fst r2 /\ Forall2 SetR (snd r1) (snd r2))
            (collapse_top s1 prev pos) (collapse_top s2 prev pos).
  Proof.
    induction 1 as [|[w1 sub1] [w2 sub2] s1 s2 [Ew Hsub] _ IH]; intros prev pos; cbn [collapse_top].
    - cbn [res_rel fst snd]. auto.
    - cbn [fst snd] in *. subst w2.
      destruct Hsub as [|r1 r2 sub1 sub2 Hr Hsub].
      + eapply res_rel_bind; [apply IH|]. intros a b [Ea Hab]. cbn [res_rel fst snd].
        split; [exact Ea|]. constructor; [split; [reflexivity|constructor]|exact Hab].
      + destruct Hr as [l1 l2 Hl|b bt].
        * eapply res_rel_bind; [apply IH|]. intros a b [Ea Hab]. cbn [res_rel fst snd].
          split; [exact Ea|]. constructor; [|exact Hab]. split; [reflexivity|].
          constructor; [constructor; exact Hl|exact Hsub].
        * destruct prev as [pb|]; [|reflexivity].
          eapply res_rel_bind; [apply IH|]. intros a b0 [Ea Hab]. cbn [res_rel fst snd].
          split; [exact Ea|]. constructor; [split; [reflexivity|exact Hsub]|exact Hab].
  Qed.

  Lemma collapse_bottom_R : forall s1 s2, Forall2 SetR s1 s2 -> forall next pos,
    fst (fst (collapse_bottom s1 next pos)) = fst (fst (collapse_bottom s2 next pos)) /\
    Forall2 SetR (snd (fst (collapse_bottom s1 next pos))) (snd (fst (collapse_bottom s2 next pos))) /\
    snd (collapse_bottom s1 next pos) = snd (collapse_bottom s2 next pos).
  Proof.
    induction 1 as [|[w1 sub1] [w2 sub2] s1 s2 [Ew Hsub] _ IH]; intros next pos; cbn [collapse_bottom].
    - cbn [fst snd]. auto.
    - cbn [fst snd] in *. subst w2.
      pose proof (Forall2_olast _ _ _ Hsub) as Hl.
      destruct (olast sub1) as [r1|], (olast sub2) as [r2|]; try contradiction.
      + destruct Hl as [l1 l2 Hl|b bt].
        * specialize (IH next (pos + w1 + 1)).
          destruct (collapse_bottom s1 next (pos + w1 + 1)) as [[n1 s1'] p1],
                   (collapse_bottom s2 next (pos + w1 + 1)) as [[n2 s2'] p2]. cbn [fst snd] in *.
          destruct IH as (A & B & C). subst n2 p2. repeat split; auto. constructor; [split; [reflexivity|exact Hsub]|exact B].
        * specialize (IH (merge_from_above next b pos) (pos + w1 + 1)).
          destruct (collapse_bottom s1 (merge_from_above next b pos) (pos + w1 + 1)) as [[n1 s1'] p1],
                   (collapse_bottom s2 (merge_from_above next b pos) (pos + w1 + 1)) as [[n2 s2'] p2].
          cbn [fst snd] in *. destruct IH as (A & B & C). subst n2 p2. repeat split; auto.
          constructor; [split; [reflexivity|apply Forall2_removelast, Hsub]|exact B].
      + specialize (IH next (pos + w1 + 1)).
        destruct (collapse_bottom s1 next (pos + w1 + 1)) as [[n1 s1'] p1],
                 (collapse_bottom s2 next (pos + w1 + 1)) as [[n2 s2'] p2]. cbn [fst snd] in *.
        destruct IH as (A & B & C). subst n2 p2. repeat split; auto. constructor; [split; [reflexivity|exact Hsub]|exact B].
  Qed.

  Lemma TR_push l1 l2 e : TR l1 l2 -> TR (tl_push l1 e) (tl_push l2 e).
  Proof.
    intros (A & B & C). split; [|split; apply LI_push; assumption].
    eapply ieqs_trans; [apply items_push|]. eapply ieqs_trans; [|apply ieqs_sym, items_push].
    apply ieqs_app; [exact A|apply ieqs_refl].
  Qed.
  Lemma TR_push_char l1 l2 c t : TR l1 l2 -> TR (tl_push_char l1 c t) (tl_push_char l2 c t).
  Proof.
    intros (A & B & C). split; [|split; apply LI_push_char; assumption].
    eapply ieqs_trans; [apply items_push_char|]. eapply ieqs_trans; [|apply ieqs_sym, items_push_char].
    apply ieqs_app; [exact A|apply ieqs_refl].
  Qed.
  Lemma TR_consume a1 a2 l1 l2 : TR a1 a2 -> TR l1 l2 -> TR (tl_consume a1 l1) (tl_consume a2 l2).
  Proof.
    intros (A & B & C) (A' & _). unfold tl_consume. split; [|split; apply LI_fold_push; assumption].
    eapply ieqs_trans; [apply items_fold_push|]. eapply ieqs_trans; [|apply ieqs_sym, items_fold_push].
    apply ieqs_app; assumption.
  Qed.

  Lemma row_line_R t draw i : forall s1 s2, Forall2 SetR s1 s2 -> forall pads a1 a2,
    TR a1 a2 -> TR (row_line t draw i s1 pads a1) (row_line t draw i s2 pads a2).
  Proof.
    induction 1 as [|[w1 ls1] [w2 ls2] s1 s2 [Ew Hls] Hs IH]; intros pds a1 a2 Ha; cbn [row_line];
      [exact Ha|].
    cbn [fst snd] in *. subst w2.
    assert (E : match s1 with [] => true | _ => false end = match s2 with [] => true | _ => false end).
    { destruct Hs; reflexivity. }
    apply IH.
    pose proof (Forall2_nth_opt _ _ _ i Hls) as Hn.
    match goal with
    | |- TR (match ?x with [] => ?p | _ :: _ => ?q end) (match ?y with [] => ?p' | _ :: _ => ?q' end) =>
      assert (G : TR p p'); [|destruct Hs; [exact G|apply TR_push_char, G]]
    end.
    destruct (nth_opt ls1 i) as [r1|], (nth_opt ls2 i) as [r2|]; try contradiction.
    - destruct Hn as [l1 l2 Hl|b bt]; [apply TR_consume; assumption|apply TR_push, Ha].
    - apply TR_push, Ha.
  Qed.

  Lemma row_lines_SR L W t draw sets1 sets2 pads :
    Forall2 SetR sets1 sets2 -> forall n i x y,
    SRt L W x y -> SRt L W (row_lines t draw n i sets1 pads x) (row_lines t draw n i sets2 pads y).
  Proof.
    intros Hs. induction n as [|n IH]; intros i x y H; cbn [row_lines]; [exact H|].
    apply IH. apply add_line_SR; [exact H|]. constructor. apply TR_LR.
    apply row_line_R; [exact Hs|]. apply TR_refl, LI_new.
  Qed.

  Lemma cols_SR L W x y us vs :
    SRt L W x y -> Forall2 CellR us vs ->
    res_rel (SRt L W) (append_columns_with_borders x us true) (append_columns_with_borders y vs true).
  Proof.
    intros H Huv. unfold append_columns_with_borders.
    eapply res_rel_bind; [apply flush_SR, H|]. intros x1 y1 H1.
    destruct (SR_fields _ _ _ _ _ _ H1) as (_ & _ & Ea & _). rewrite Ea.
    eapply res_rel_bind; [apply col_line_sets_R, Huv|]. intros sets1 sets2 Hsets.
    rewrite <- (SetR_fst _ _ Hsets), <- (Forall2_len _ _ _ Hsets).
    eapply res_rel_bind with (P := eq).
    { destruct Hsets; reflexivity. }
    intros _ _ _.
    pose proof H1 as (ls2 & w2 & -> & Ho & HW & HL & Hpf & Hls & Hwr). sj.
    pose proof (Forall2_olast _ _ _ Hls) as Hlast.
    set (next0 := border_new (sumN (map fst sets1) + (N.of_nat (length sets1) - 1))).
    set (pn1 := match olast (slines x1) with
                | Some (RLine pb pt) =>
                  let '(p, n) := join_cols (map fst sets1) pb next0 0 in (Some p, n)
                | _ => (None, next0) end).
    assert (Epn : match olast ls2 with
                  | Some (RLine pb pt) =>
                    let '(p, n) := join_cols (map fst sets1) pb next0 0 in (Some p, n)
                  | _ => (None, next0) end = pn1).
    { unfold pn1. destruct (olast (slines x1)) as [r1|], (olast ls2) as [r2|]; try contradiction; [|reflexivity].
      destruct Hlast; reflexivity. }
    rewrite Epn. destruct pn1 as [prev1 next1].
    eapply res_rel_bind with
      (P := fun r1 r2 => fst (fst (fst r1)) = fst (fst (fst r2)) /\ snd (fst (fst r1)) = snd (fst (fst r2)) /\
                         Forall2 SetR (snd (fst r1)) (snd (fst r2)) /\ snd r1 = snd r2).
    { eapply res_rel_bind; [apply collapse_top_R, Hsets|].
      intros [p1 s1] [p2 s2] [Ep Hs]. cbn [fst snd] in *. subst p2.
      destruct (collapse_bottom_R _ _ Hs next1 0) as (A & B & C).
      destruct (collapse_bottom s1 next1 0) as [[n1 s1'] pd1], (collapse_bottom s2 next1 0) as [[n2 s2'] pd2].
      cbn [fst snd res_rel] in *. auto. }
    intros [[[prev3 next3] sets4] pads] [[[prev3' next3'] sets4'] pads'] (E1 & E2 & Hs4 & E3).
    cbn [fst snd] in *. subst prev3' next3' pads'. cbn [res_rel].
    set (lines1 := match olast (slines x1), prev3 with
                   | Some (RLine _ pt), Some pb => replace_last (slines x1) (RLine pb pt)
                   | _, _ => slines x1 end).
    set (lines2 := match olast ls2, prev3 with
                   | Some (RLine _ pt), Some pb => replace_last ls2 (RLine pb pt)
                   | _, _ => ls2 end).
    assert (Hl12 : Forall2 (RLRt W) lines1 lines2).
    { unfold lines1, lines2. destruct (olast (slines x1)) as [r1|], (olast ls2) as [r2|]; try contradiction; [|exact Hls].
      destruct Hlast as [l1 l2 Hl|b bt]; [exact Hls|]. destruct prev3 as [pb|]; [|exact Hls].
      unfold replace_last. apply Forall2_app; [apply Forall2_removelast, Hls|].
      constructor; [constructor|constructor]. }
    assert (H2 : SRt L W (set_lines x1 lines1 (pending_frags x1))
                         (set_lines (mks x1 ls2 w2) lines2 (pending_frags x1))).
    { exists lines2, w2. sj. repeat split; auto. }
    assert (Eh : fold_left Nat.max (map (fun p => length (snd p)) sets4) O =
                 fold_left Nat.max (map (fun p => length (snd p)) sets4') O).
    { f_equal. clear -Hs4. induction Hs4 as [|p q s1 s2 [_ Hpq] _ IH]; cbn [map]; [reflexivity|].
      rewrite IH, (Forall2_len _ _ _ Hpq). reflexivity. }
    rewrite <- Eh.
    pose proof (row_lines_SR L W (ann_stack x1) (o_borders (sopts x1)) sets4 sets4' pads Hs4
                  (fold_left Nat.max (map (fun p => length (snd p)) sets4) O) O _ _ H2) as H3.
    destruct (o_borders (sopts x1)); [|exact H3].
    apply add_line_SR; [exact H3|constructor].
  Qed.

  Lemma vert_cols_SR L W : forall us vs x y first,
    SRt L W x y -> Forall2 (fun u v => exists L', SRt L' W u v) us vs ->
    res_rel (SRt L W) (vert_cols x us first) (vert_cols y vs first).
  Proof.
    intros us vs x y first H Huv. revert x y first H.
    induction Huv as [|u v us vs (L' & Hu) _ IH]; intros x y first H; cbn [vert_cols]; [exact H|].
    destruct (SR_fields _ _ _ _ _ _ H) as (Ew & _ & Ea & _ & _ & _ & _ & Eo & _). rewrite Ew, Ea, Eo.
    change (o_borders (with_pad (sopts x))) with (o_borders (sopts x)).
    eapply res_rel_bind with (P := SRt L W).
    { destruct (negb first && o_borders (sopts x)); [apply add_hline_SR, H|exact H]. }
    intros x1 y1 H1.
    eapply res_rel_bind.
    { eapply append_subrender_SR; [exact H1|exact Hu|]. intros _. rewrite swidth_nil. lia. }
    intros x2 y2 H2. apply IH; assumption.
  Qed.

  Lemma vert_SR L W x y us vs :
    SRt L W x y -> Forall2 (fun u v => exists L', SRt L' W u v) us vs ->
    res_rel (SRt L W) (append_vert_row x us) (append_vert_row y vs).
  Proof.
    intros H Huv. unfold append_vert_row.
    eapply res_rel_bind; [apply flush_SR, H|]. intros x1 y1 H1.
    eapply res_rel_bind; [apply vert_cols_SR; eassumption|]. intros x2 y2 H2.
    destruct (SR_fields _ _ _ _ _ _ H2) as (Ew & _ & _ & _ & _ & _ & _ & Eo & _). rewrite Eo.
    change (o_borders (with_pad (sopts x2))) with (o_borders (sopts x2)).
    destruct (o_borders (sopts x2)); [|exact H2].
    unfold add_horizontal_border. rewrite Ew. apply hborder_SR, H2.
  Qed.
End Tables.
(* ================================================================== *)
(* 5. Footnote list; the tree condition; lock-step simulation of render_node *)
(* ================================================================== *)

Section Foot.
  Variables (tb : bool) (o1 : ropts).
  Notation SRp := (SR tb o1).

  Lemma fl_chars_SR L W t : forall cs x y buf wl pos,
    SRp L W x y -> LI wl ->
    let r1 := fl_chars x t cs buf wl pos in
    let r2 := fl_chars y t cs buf wl pos in
    SRp L W (fst (fst (fst r1))) (fst (fst (fst r2))) /\ snd (fst (fst r1)) = snd (fst (fst r2)) /\
    snd (fst r1) = snd (fst r2) /\ snd r1 = snd r2 /\ LI (snd (fst r1)).
  Proof.
    induction cs as [|c cs IH]; intros x y buf wl pos H Hwl; cbn [fl_chars].
    - cbn [fst snd]. auto.
    - destruct (SR_fields _ _ _ _ _ _ H) as (Ew & _). rewrite Ew.
      destruct (swidth_ x <? pos + cw0 c).
      + apply IH; [|apply LI_new]. apply add_line_SR; [exact H|]. constructor. apply LR_refl.
        destruct buf; [exact Hwl|apply LI_push_str, Hwl].
      + apply IH; assumption.
  Qed.

  Lemma fl_strings_SR L W : forall strs x y wl pos,
    SRp L W x y -> LI wl ->
    let r1 := fl_strings x strs wl pos in
    let r2 := fl_strings y strs wl pos in
    SRp L W (fst r1) (fst r2) /\ snd r1 = snd r2 /\ LI (snd r1).
  Proof.
    induction strs as [|[str tg] strs IH]; intros x y wl pos H Hwl; cbn [fl_strings].
    - cbn [fst snd]. auto.
    - destruct (SR_fields _ _ _ _ _ _ H) as (Ew & _ & _ & _ & _ & _ & _ & Eo & _). rewrite Ew, Eo.
      change (o_wrap_links (with_pad (sopts x))) with (o_wrap_links (sopts x)).
      destruct (o_wrap_links (sopts x) && (swidth_ x <? pos + swidth (nl_to_space str))).
      + pose proof (fl_chars_SR L W [ADefault] (nl_to_space str) x y [] wl pos H Hwl) as G.
        cbv zeta in G.
        destruct (fl_chars x [ADefault] (nl_to_space str) [] wl pos) as [[[x1 buf1] wl1] pos1],
                 (fl_chars y [ADefault] (nl_to_space str) [] wl pos) as [[[y1 buf2] wl2] pos2].
        cbn [fst snd] in G. destruct G as (G1 & G2 & G3 & G4 & G5). subst buf2 wl2 pos2.
        apply IH; [exact G1|apply LI_push_str, G5].
      + apply IH; [exact H|apply LI_push_str, Hwl].
  Qed.

  Lemma fmt_links_SR L W : forall links x y, SRp L W x y -> SRp L W (fmt_links x links) (fmt_links y links).
  Proof.
    induction links as [|l links IH]; intros x y H; cbn [fmt_links]; [exact H|].
    pose proof (fl_strings_SR L W (tl_tagged_strings l) x y tl_new 0 H LI_new) as G. cbv zeta in G.
    destruct (fl_strings x (tl_tagged_strings l) tl_new 0) as [x1 wl1],
             (fl_strings y (tl_tagged_strings l) tl_new 0) as [y1 wl2].
    cbn [fst snd] in G. destruct G as (G1 & G2 & G3). subst wl2.
    apply IH. apply add_line_SR; [exact G1|]. constructor. apply LR_refl, G3.
  Qed.
End Foot.

(* ---- the decidable condition on the tree ---- *)
Definition wsm_of (cs : cstyle) : option wsmode :=
  match ws_val (c_white_space (cs_core cs)) with
  | Some WsPre => Some WsPre
  | Some WsPreWrap => Some WsPreWrap
  | _ => None
  end.

Definition push_mode (L : list wsmode) (cs : cstyle) : list wsmode :=
  match wsm_of cs with Some m => m :: L | None => L end.

Section TreeCond.
  Variable tb : bool.     (* the tree may contain tables *)
  Variable d : deco.

  (* every marker of an ordered list is at most pw wide *)
  Fixpoint ol_fit (pw : N) (i : Z) (n : nat) : bool :=
    match n with
    | O => true
    | S n' => (swidth (d_ol_prefix d i) <=? pw) && ol_fit pw (isat64 (i + 1)) n'
    end.

  Definition ol_pw (start : Z) (n : nat) : N :=
    N.max (swidth (d_ol_prefix d start))
          (swidth (d_ol_prefix d (isat64 (isat64 (start + Z.of_nat n) - 1)))).

  (* L: the white-space modes pushed by the ancestors (innermost first) *)
  Fixpoint pok (L : list wsmode) (n : rnode) {struct n} : bool :=
    let L' := push_mode L (rn_style n) in
    match rn_info n with
    | IText t => tok L' t
    | IImg src title => tok L' (fst (d_image d src title))
    | IContainer cs | IBlock cs | IListItem cs | IDiv cs | IDl cs | IHeader _ cs | IBlockQuote cs
    | IUl cs | IDd cs => forallb (pok L') cs
    | ILink href cs =>
      tok L' (fst (d_link_start d href)) && tok L' (d_link_end d) && forallb (pok L') cs
    | IEm cs | IDt cs => tok L' (fst (d_em_start d)) && tok L' (d_em_end d) && forallb (pok L') cs
    | IStrong cs => tok L' (fst (d_strong_start d)) && tok L' (d_strong_end d) && forallb (pok L') cs
    | IStrikeout cs => tok L' (fst (d_strike_start d)) && tok L' (d_strike_end d) && forallb (pok L') cs
    | ICode cs => tok L' (fst (d_code_start d)) && tok L' (d_code_end d) && forallb (pok L') cs
    | ISup cs => tok L' (fst (d_sup_start d)) && tok L' (d_sup_end d) && forallb (pok L') cs
    | IOl start cs =>
      (negb tb || ol_fit (ol_pw start (length cs)) start (length cs)) && forallb (pok L') cs
    | IBreak | IFragStart _ => true
    | ITable rows _ =>
      tb &&
      forallb (fun r => match r with
                        | RRow cells rs =>
                          forallb (fun c => match c with
                                            | RCell _ k cst =>
                                              forallb (pok (push_mode (push_mode L' rs) cst)) k
                                            end) cells
                        end) rows
    | ITableBody _ | ITableRow _ | ITableCell _ => true
    end.
End TreeCond.
Section NodeSim.
  Variables (tb : bool) (o1 : ropts) (d : deco) (mw : N).
  Hypothesis Htb : tb = true -> o_allow_overflow o1 = false.
  Notation SRp := (SR tb o1).
  Notation St L W := (StR (SRp L W)).

  Lemma sim_with_top2 (SR1 SR2 : subr -> subr -> Prop) r1 r2 f g a b :
    (forall x y, SR1 x y -> res_rel SR2 (f x) (g y)) -> StR SR1 r1 r2 a b ->
    res_rel (StR SR2 r1 r2) (with_top a f) (with_top b g).
  Proof.
    intros Hf (Hl & s1 & s2 & E1 & E2 & Hs). unfold with_top. rewrite E1, E2.
    eapply res_rel_bind; [apply Hf, Hs|]. intros x y Hxy. cbn [res_rel].
    split; [exact Hl|]. exists x, y. auto.
  Qed.

  Lemma sim_pop2 (SR1 SR2 : subr -> subr -> Prop) r1 r2 x y a b :
    SR1 x y -> StR SR2 (x :: r1) (y :: r2) a b ->
    res_rel (fun p q => SR2 (fst p) (fst q) /\ StR SR1 r1 r2 (snd p) (snd q)) (pop_sub a) (pop_sub b).
  Proof.
    intros Hxy (Hl & s1 & s2 & E1 & E2 & Hs). unfold pop_sub. rewrite E1, E2.
    cbn [res_rel fst snd]. split; [exact Hs|]. split; [exact Hl|]. exists x, y. auto.
  Qed.

  Lemma p_with_top L W r1 r2 f a b :
    opS tb o1 L W f -> St L W r1 r2 a b -> res_rel (St L W r1 r2) (with_top a f) (with_top b f).
  Proof. intros Hf. apply sim_with_top. exact Hf. Qed.

  Lemma p_with_top' L W r1 r2 g a b :
    pureS tb o1 L W g -> St L W r1 r2 a b -> res_rel (St L W r1 r2) (with_top' a g) (with_top' b g).
  Proof. intros Hg. apply sim_with_top'. exact Hg. Qed.

  Lemma p_apply_style L W r1 r2 cs a b :
    St L W r1 r2 a b ->
    res_rel (fun x y => St (push_mode L cs) W r1 r2 (fst x) (fst y) /\ snd x = snd y /\
                        (if p_ws (snd x) then tl (push_mode L cs) else push_mode L cs) = L)
            (apply_style d a cs) (apply_style d b cs).
  Proof.
    intros H. unfold apply_style.
    eapply res_rel_bind with (P := St L W r1 r2).
    { destruct (ws_val (c_colour (cs_core cs))) as [[[r g] bl]|];
        [apply p_with_top'; [apply push_colour_SR|exact H]|exact H]. }
    intros a1 b1 H1.
    eapply res_rel_bind with (P := St L W r1 r2).
    { destruct (ws_val (c_bg (cs_core cs))) as [[[r g] bl]|];
        [apply p_with_top'; [apply push_bg_SR|exact H1]|exact H1]. }
    intros a2 b2 H2.
    unfold push_mode, wsm_of.
    set (wsm := match ws_val (c_white_space (cs_core cs)) with
                | Some WsPre => Some WsPre
                | Some WsPreWrap => Some WsPreWrap
                | _ => None
                end).
    eapply res_rel_bind with (P := St (match wsm with Some m => m :: L | None => L end) W r1 r2).
    { destruct wsm as [m|]; [|exact H2].
      unfold with_top'. apply (sim_with_top2 (SRp L W)); [|exact H2].
      intros x y Hxy. cbn [res_rel]. apply push_ws_SR, Hxy. }
    intros a3 b3 H3.
    eapply res_rel_bind with (P := St (match wsm with Some m => m :: L | None => L end) W r1 r2).
    { destruct (cs_internal_pre cs); [apply p_with_top'; [apply push_pre_SR|exact H3]|exact H3]. }
    intros a4 b4 H4. cbn [res_rel fst snd p_ws]. split; [exact H4|]. split; [reflexivity|].
    destruct wsm; reflexivity.
  Qed.

  Lemma p_unwind L' L W r1 r2 p a b :
    (if p_ws p then tl L' else L') = L -> St L' W r1 r2 a b ->
    res_rel (St L W r1 r2) (unwind d p a) (unwind d p b).
  Proof.
    intros HL H. unfold unwind.
    eapply res_rel_bind with (P := St L' W r1 r2).
    { destruct (p_bg p); [apply p_with_top'; [apply pop_colour_SR|exact H]|exact H]. }
    intros a1 b1 H1.
    eapply res_rel_bind with (P := St L' W r1 r2).
    { destruct (p_colour p); [apply p_with_top'; [apply pop_colour_SR|exact H1]|exact H1]. }
    intros a2 b2 H2.
    eapply res_rel_bind with (P := St L W r1 r2).
    { destruct (p_ws p); subst L; [|exact H2].
      unfold with_top'. apply (sim_with_top2 (SRp L' W)); [|exact H2].
      intros x y Hxy. cbn [res_rel]. apply pop_ws_SR, Hxy. }
    intros a3 b3 H3.
    destruct (p_pre p); [apply p_with_top; [apply pop_pre_SR|exact H3]|exact H3].
  Qed.

  Lemma p_inline L W r1 r2 t a b :
    tok L t = true -> St L W r1 r2 a b -> res_rel (St L W r1 r2) (inline_text d a t) (inline_text d b t).
  Proof. intros Ht. unfold inline_text. apply p_with_top. apply inline_SR, Ht. Qed.

  (* the per-node statement *)
  Definition node_pad (n : rnode) : Prop :=
    forall L W r1 r2 a b, pok tb d L n = true -> St L W r1 r2 a b ->
      res_rel (St L W r1 r2) (render_node d mw n a) (render_node d mw n b).

  Lemma p_kids cs L W r1 r2 a b :
    Forall node_pad cs -> forallb (pok tb d L) cs = true -> St L W r1 r2 a b ->
    res_rel (St L W r1 r2) (rkids d mw cs a) (rkids d mw cs b).
  Proof.
    intros HF Hok H. unfold rkids. apply res_rel_fold; [|exact H].
    intros c Hc x y Hxy. rewrite Forall_forall in HF. rewrite forallb_forall in Hok.
    apply (HF c Hc); [apply Hok, Hc|exact Hxy].
  Qed.

  Lemma p_wrap (f1 f2 : subr -> res subr) cs ps L0 L W r1 r2 a b :
    opS tb o1 L W f1 -> opS tb o1 L W f2 -> Forall node_pad cs -> forallb (pok tb d L) cs = true ->
    (if p_ws ps then tl L else L) = L0 -> St L W r1 r2 a b ->
    res_rel (St L0 W r1 r2)
      (do x <- with_top a f1; do y <- rkids d mw cs x; do z <- with_top y f2; unwind d ps z)
      (do x <- with_top b f1; do y <- rkids d mw cs x; do z <- with_top y f2; unwind d ps z).
  Proof.
    intros K1 K2 HF Hok HL H.
    eapply res_rel_bind; [apply p_with_top; [apply K1|exact H]|]. intros x1 x2 Hx.
    eapply res_rel_bind; [apply p_kids; [exact HF|exact Hok|exact Hx]|]. intros y1 y2 Hy.
    eapply res_rel_bind; [apply p_with_top; [apply K2|exact Hy]|]. intros z1 z2 Hz.
    eapply p_unwind; eassumption.
  Qed.

  (* a prefixed block: top, width_minus, push, body, pop *)
  Lemma p_scope L W r1 r2 a b p mn (body : rstate -> res rstate) :
    St L W r1 r2 a b ->
    (forall w q1 q2 a' b', St L w q1 q2 a' b' -> res_rel (St L w q1 q2) (body a') (body b')) ->
    forall {C1 C2} (k1 : subr * rstate -> res C1) (k2 : subr * rstate -> res C2) (Q : C1 -> C2 -> Prop),
    (forall w u v a' b', SRp L w u v -> (tb = true -> w + p <= W) -> St L W r1 r2 a' b' ->
                         res_rel Q (k1 (u, a')) (k2 (v, b'))) ->
    res_rel Q
      (do tp <- top a; do w <- width_minus tp p mn;
       do st2 <- body (push_sub a (new_sub_renderer tp w)); do pp <- pop_sub st2; k1 pp)
      (do tp <- top b; do w <- width_minus tp p mn;
       do st2 <- body (push_sub b (new_sub_renderer tp w)); do pp <- pop_sub st2; k2 pp).
  Proof.
    intros H Hbody C1 C2 k1 k2 Q Hk.
    eapply res_rel_bind; [apply sim_top, H|]. intros x y (Hxy & E1 & E2).
    rewrite <- (width_minus_SR _ _ _ _ x y p mn Hxy).
    destruct (width_minus x p mn) as [w| | |] eqn:Ew; cbn [bind res_rel]; auto.
    assert (Hwp : tb = true -> w + p <= W).
    { intros T. destruct (width_minus_spec _ _ _ _ Ew) as [_ G].
      destruct (SR_fields _ _ _ _ _ _ Hxy) as (_ & _ & _ & _ & _ & _ & _ & _ & Eo & EW & _).
      rewrite Eo in G. cbn [no_pad o_allow_overflow] in G. specialize (G (Htb T)). lia. }
    eapply res_rel_bind.
    { apply Hbody. apply sim_push; [exact (proj1 H)|exact E1|exact E2|]. eapply new_sub_SR; exact Hxy. }
    intros a2 b2 H2.
    eapply res_rel_bind; [apply (sim_pop2 (SRp L W) (SRp L w) r1 r2 x y); assumption|].
    intros [u a3] [v b3] [Huv H3]. cbn [fst snd] in *. apply (Hk w); assumption.
  Qed.

  (* ---- table rows ---- *)
  Definition cell_ok (L : list wsmode) (c : rcell) : bool :=
    match c with RCell _ k cst => forallb (pok tb d (push_mode L cst)) k end.
  Definition row_ok (L : list wsmode) (r : rrow) : bool :=
    match r with RRow cells rs => forallb (cell_ok (push_mode L rs)) cells end.

  Lemma p_cells (PW : N -> Prop) Lr W : forall cells wsl r1 r2 a b us vs,
    Forall (fun c => Forall node_pad (cell_content c)) cells ->
    forallb (cell_ok Lr) cells = true ->
    Forall PW (somes wsl) ->
    St Lr W r1 r2 a b -> Forall2 (fun u v => exists w, PW w /\ SRp Lr w u v) us vs ->
    res_rel (fun p q => St Lr W r1 r2 (fst p) (fst q) /\
                        Forall2 (fun u v => exists w, PW w /\ SRp Lr w u v) (snd p) (snd q))
            (cells_loop d mw cells wsl a us) (cells_loop d mw cells wsl b vs).
  Proof.
    induction cells as [|[n content csty] cells IH]; intros wsl r1 r2 a b us vs HF Hok Hw H Huv;
      cbn [cells_loop].
    - cbn [res_rel fst snd]. auto.
    - inversion HF as [|? ? HF1 HF2]; subst. cbn [cell_content] in HF1.
      cbn [forallb cell_ok] in Hok. apply andb_true_iff in Hok. destruct Hok as [Hok1 Hok2].
      destruct wsl as [|[w|] wsl]; [cbn [res_rel fst snd]; auto| |].
      + cbn [somes] in Hw. inversion Hw as [|? ? Hw1 Hw2]; subst.
        eapply res_rel_bind; [apply sim_top, H|]. intros x y (Hxy & E1 & E2).
        assert (Hp : St Lr w (x :: r1) (y :: r2) (push_sub a (new_sub_renderer x w))
                        (push_sub b (new_sub_renderer y w))).
        { apply sim_push; [exact (proj1 H)|exact E1|exact E2|]. eapply new_sub_SR; exact Hxy. }
        eapply res_rel_bind; [apply p_apply_style, Hp|].
        intros [a4 p4] [b4 q4] (H4 & Epq & HL4). cbn [fst snd] in H4, Epq, HL4. subst q4.
        eapply res_rel_bind; [apply (p_kids content); [exact HF1|exact Hok1|exact H4]|]. intros a5 b5 H5.
        eapply res_rel_bind; [eapply p_unwind; [exact HL4|exact H5]|]. intros a6 b6 H6.
        eapply res_rel_bind; [apply (sim_pop2 (SRp Lr W) (SRp Lr w) r1 r2 x y); assumption|].
        intros [u a7] [v b7] [Huv' H7]. cbn [fst snd] in *.
        apply IH; auto. apply Forall2_app; auto. constructor; [|constructor]. exists w. auto.
      + cbn [somes] in Hw. apply IH; auto.
  Qed.

  Lemma p_row vr col_widths L W r r1 r2 a b :
    tb = true ->
    (vr = true -> forall w, In w col_widths -> w = W) ->
    Forall (fun c => Forall node_pad (cell_content c)) (row_cells r) ->
    row_ok L r = true ->
    St L W r1 r2 a b ->
    res_rel (St L W r1 r2) (row_body d mw vr col_widths r a) (row_body d mw vr col_widths r b).
  Proof.
    intros Htrue Hv HF Hok H. destruct r as [rcells rstyle]. cbn [row_cells] in HF. cbn [row_ok] in Hok.
    unfold row_body.
    eapply res_rel_bind; [apply p_apply_style, H|].
    intros [a1 p1] [b1 q1] (H1 & Epq & HL1). cbn [fst snd] in H1, Epq, HL1. subst q1.
    set (Lr := push_mode L rstyle) in *.
    destruct (cell_widths vr col_widths rcells 0) as [cws| | |] eqn:Ecws; cbn [bind res_rel]; auto.
    destruct vr.
    - assert (Hw : Forall (fun w => w = W) (somes cws)).
      { pose proof (cell_widths_v _ _ _ _ Ecws) as Hcv. eapply Forall_impl; [|exact Hcv].
        intros w [_ Hin]. apply (Hv eq_refl w Hin). }
      eapply res_rel_bind;
        [apply (p_cells (fun w => w = W) Lr W rcells cws r1 r2 a1 b1 [] []); auto|].
      intros [a8 us] [b8 vs] [H8 Huv]. cbn [fst snd] in H8, Huv.
      eapply res_rel_bind with (P := St Lr W r1 r2).
      { apply sim_with_top; [|exact H8]. intros x y Hxy. apply (vert_SR tb Htrue); [exact Hxy|].
        eapply F2_impl; [|exact Huv]. intros u v (w & -> & Huv'). exists Lr. exact Huv'. }
      intros a9 b9 H9. eapply p_unwind; eassumption.
    - eapply res_rel_bind;
        [apply (p_cells (fun _ => True) Lr W rcells cws r1 r2 a1 b1 [] []); auto|].
      { apply Forall_forall. auto. }
      intros [a8 us] [b8 vs] [H8 Huv]. cbn [fst snd] in H8, Huv.
      eapply res_rel_bind with (P := St Lr W r1 r2).
      { assert (Ee : existsb (fun c => negb (sub_empty c)) us = existsb (fun c => negb (sub_empty c)) vs).
        { clear -Huv. induction Huv as [|u v us vs (w & _ & Huv1) _ IH]; [reflexivity|].
          cbn [existsb]. rewrite IH, (sub_empty_SR _ _ _ _ _ _ Huv1). reflexivity. }
        rewrite <- Ee. destruct (existsb (fun c => negb (sub_empty c)) us); [|exact H8].
        apply sim_with_top; [|exact H8]. intros x y Hxy. apply (cols_SR tb Htrue); [exact Hxy|].
        eapply F2_impl; [|exact Huv]. intros u v (w & _ & Huv'). exists Lr, w. exact Huv'. }
      intros a9 b9 H9. eapply p_unwind; eassumption.
  Qed.

  Lemma nlfree_of_asciil lb l : nlfree (of_asciil lb l) = true.
  Proof. unfold nlfree, of_asciil. induction l; cbn [map forallb mkl ws andb negb]; auto. Qed.
  Lemma tok_of_asciil L lb l : tok L (of_asciil lb l) = true.
  Proof. unfold tok. rewrite nlfree_of_asciil. apply orb_true_r. Qed.
  Lemma tok_sup L s : tok L (map sup_char s) = true.
  Proof.
    unfold tok. replace (nlfree (map sup_char s)) with true; [apply orb_true_r|].
    symmetry. unfold nlfree. induction s; cbn [map forallb sup_char ws andb negb]; auto.
  Qed.

  Lemma ol_its_pad sz pw L W r1 r2 : forall its acc1 acc2,
    Forall node_pad its -> forallb (pok tb d L) its = true ->
    res_rel (fun p q => St L W r1 r2 (fst p) (fst q) /\ snd p = snd q /\
                        (tb = true -> ol_fit d pw (snd p) (length its) = true)) acc1 acc2 ->
    res_rel (fun p q => St L W r1 r2 (fst p) (fst q) /\ snd p = snd q)
      (fold_left (fun acc itm => do si <- acc; ol_step d mw sz pw itm si) its acc1)
      (fold_left (fun acc itm => do si <- acc; ol_step d mw sz pw itm si) its acc2).
  Proof.
    induction its as [|itm its IH]; intros acc1 acc2 HF Hok Hacc; cbn [fold_left].
    - eapply res_rel_impl; [|exact Hacc]. intros p q (A & B & _). auto.
    - inversion HF as [|? ? HF1 HF2]; subst. cbn [forallb] in Hok. apply andb_true_iff in Hok.
      destruct Hok as [Hok1 Hok2]. apply IH; [exact HF2|exact Hok2|].
      eapply res_rel_bind; [exact Hacc|]. intros [x ix] [y iy] (Hxy & Ei & Hfit). cbn [fst snd] in *. subst iy.
      unfold ol_step.
      destruct (usub 23 (e_min sz) (e_prefix sz)) as [iw_| | |]; cbn [bind res_rel]; auto.
      apply (p_scope L W r1 r2 x y _ _ (render_node d mw itm)); [exact Hxy| |].
      { intros w q1 q2 a' b' H'. apply HF1; assumption. }
      intros w u v a3 b3 Huv Hwp H3.
      eapply res_rel_bind; [apply sim_with_top; [|exact H3]|].
      { intros x' y' Hxy'. eapply append_subrender_SR; [exact Hxy'|exact Huv|].
        intros T. specialize (Hwp T). specialize (Hfit T). cbn [ol_fit length] in Hfit.
        apply andb_true_iff in Hfit. destruct Hfit as [Hf1 _].
        rewrite swidth_pad_width. change (pad_chars [] pw) with (ol_indent pw). rewrite ol_indent_width. lia. }
      intros a4 b4 H4. cbn [res_rel fst snd]. split; [exact H4|]. split; [reflexivity|].
      intros T. specialize (Hfit T). cbn [ol_fit length] in Hfit. apply andb_true_iff in Hfit. apply Hfit.
  Qed.

  Lemma node_pad_all : forall n, node_pad n.
  Proof.
    apply rnode_ind'. intros i sty IH L W r1 r2 a b Hok Hab.
    cbn [pok rn_info rn_style] in Hok.
    destruct i; cbn [direct_kids] in IH; cbn [render_node rn_info rn_style];
      (match goal with
       | |- res_rel _ (bind ?e _) (bind ?e _) => destruct e as [sz| | |]; cbn [bind res_rel]; auto
       end);
      (eapply res_rel_bind; [apply p_apply_style, Hab|]);
      intros [a1 p1] [b1 q1] (H1 & Epq & HL1); cbn [fst snd] in H1, Epq, HL1; subst q1;
      set (L' := push_mode L sty) in *;
      repeat match type of Hok with
             | (_ && _) = true => let A := fresh "Hok" in apply andb_true_iff in Hok; destruct Hok as [Hok A]
             end.
    - (* IText *)
      eapply res_rel_bind; [apply p_inline; [exact Hok|exact H1]|]. intros; eapply p_unwind; eassumption.
    - (* IContainer *)
      eapply res_rel_bind; [apply (p_kids cs); [exact IH|exact Hok|exact H1]|].
      intros; eapply p_unwind; eassumption.
    - (* ILink *)
      assert (H1' : St L' W r1 r2 (mkrst (stack a1) (links a1 ++ [href]))
                                  (mkrst (stack b1) (links b1 ++ [href]))).
      { destruct H1 as (Hl & s1 & s2 & E1 & E2 & Hs). split; [cbn [links]; congruence|].
        exists s1, s2. cbn [stack]. auto. }
      eapply res_rel_bind; [apply p_with_top; [apply start_deco_SR; exact Hok|exact H1']|].
      intros a2 b2 H2.
      eapply res_rel_bind; [apply (p_kids cs); [exact IH|exact Hok0|exact H2]|]. intros a3 b3 H3.
      eapply res_rel_bind; [apply p_with_top; [apply end_deco_SR; exact Hok1|exact H3]|].
      intros a4 b4 H4.
      eapply res_rel_bind; [apply sim_top, H4|]. intros x y (Hxy & E1 & E2).
      destruct (SR_fields _ _ _ _ _ _ Hxy) as (_ & _ & _ & _ & _ & _ & _ & Eo & _). rewrite Eo.
      change (o_footnotes (with_pad (sopts x))) with (o_footnotes (sopts x)). rewrite <- (proj1 H4).
      eapply res_rel_bind with (P := St L' W r1 r2).
      { destruct (o_footnotes (sopts x)); [apply p_inline; [apply tok_of_asciil|exact H4]|exact H4]. }
      intros; eapply p_unwind; eassumption.
    - (* IEm *) eapply p_wrap; eauto; [apply start_deco_SR; exact Hok|apply end_deco_SR; exact Hok1].
    - (* IStrong *) eapply p_wrap; eauto; [apply start_deco_SR; exact Hok|apply end_deco_SR; exact Hok1].
    - (* IStrikeout *)
      eapply p_wrap; eauto; [apply start_strikeout_SR; exact Hok|apply end_strikeout_SR; exact Hok1].
    - (* ICode *) eapply p_wrap; eauto; [apply start_deco_SR; exact Hok|apply end_deco_SR; exact Hok1].
    - (* IImg *)
      eapply res_rel_bind; [apply p_with_top; [apply add_image_SR; exact Hok|exact H1]|].
      intros; eapply p_unwind; eassumption.
    - (* IBlock *)
      eapply (p_wrap start_block (fun s => Ok (end_block s))); eauto; [apply start_block_SR|].
      apply pureS_op, end_block_SR.
    - (* IHeader *)
      destruct (negb (swidth (d_header_prefix d level) =? e_prefix sz)) eqn:Epre; [reflexivity|].
      apply negb_false_iff, N.eqb_eq in Epre.
      apply (p_scope L' W r1 r2 a1 b1 _ _ (rkids d mw cs)); [exact H1| |].
      { intros; apply p_kids; assumption. }
      intros w u v a3 b3 Huv Hwp H3.
      eapply res_rel_bind; [apply p_with_top; [apply start_block_SR|exact H3]|].
      intros a4 b4 H4.
      eapply res_rel_bind; [apply sim_with_top; [|exact H4]|].
      { intros x y Hxy. eapply append_subrender_SR; [exact Hxy|exact Huv|].
        intros T. specialize (Hwp T). lia. }
      intros a5 b5 H5.
      eapply res_rel_bind; [apply p_with_top'; [apply end_block_SR|exact H5]|].
      intros; eapply p_unwind; eassumption.
    - (* IDiv *)
      eapply p_wrap; eauto; apply new_line_SR.
    - (* IBlockQuote *)
      destruct (negb (e_prefix sz =? swidth (d_quote_prefix d))); [reflexivity|].
      destruct (usub 21 (e_min sz) (swidth (d_quote_prefix d))) as [iw_| | |]; cbn [bind res_rel]; auto.
      apply (p_scope L' W r1 r2 a1 b1 _ _ (rkids d mw cs)); [exact H1| |].
      { intros; apply p_kids; assumption. }
      intros w u v a3 b3 Huv Hwp H3.
      eapply res_rel_bind; [apply p_with_top; [apply start_block_SR|exact H3]|].
      intros a4 b4 H4.
      eapply res_rel_bind; [apply sim_with_top; [|exact H4]|].
      { intros x y Hxy. eapply append_subrender_SR; [exact Hxy|exact Huv|].
        intros T. specialize (Hwp T). lia. }
      intros a5 b5 H5.
      eapply res_rel_bind; [apply p_with_top'; [apply end_block_SR|exact H5]|].
      intros; eapply p_unwind; eassumption.
    - (* IUl *)
      eapply res_rel_bind with (P := St L' W r1 r2); [|intros; eapply p_unwind; eassumption].
      apply (res_rel_fold (St L' W r1 r2)
               (fun itm s =>
                  do inner_width <- usub 22 (e_min sz) (swidth (d_ul_prefix d));
                  do tp <- top s;
                  do w <- width_minus tp (swidth (d_ul_prefix d)) inner_width;
                  do s2 <- render_node d mw itm (push_sub s (new_sub_renderer tp w));
                  do pp <- pop_sub s2;
                  let '(sub, s3) := pp in
                  with_top s3 (fun t => append_subrender t sub (d_ul_prefix d)
                     (repeat_chr (spacel L_prefix) (N.to_nat (swidth (d_ul_prefix d))))))
               _ cs); [|exact H1].
      intros itm Hitm x y Hxy.
      destruct (usub 22 (e_min sz) (swidth (d_ul_prefix d))) as [iw_| | |]; cbn [bind res_rel]; auto.
      apply (p_scope L' W r1 r2 x y _ _ (render_node d mw itm)); [exact Hxy| |].
      { intros w q1 q2 a' b' H'. rewrite Forall_forall in IH. rewrite forallb_forall in Hok.
        apply (IH itm Hitm); [apply Hok, Hitm|exact H']. }
      intros w u v a3 b3 Huv Hwp H3. apply sim_with_top; [|exact H3].
      intros x' y' Hxy'. eapply append_subrender_SR; [exact Hxy'|exact Huv|].
      intros T. specialize (Hwp T). rewrite swidth_repeat_w1 by reflexivity. lia.
    - (* IOl *)
      eapply res_rel_bind with (P := fun p q => St L' W r1 r2 (fst p) (fst q) /\ snd p = snd q);
        [|intros p q [Hpq _]; eapply p_unwind; eassumption].
      apply (ol_its_pad sz (ol_pw d start (length cs)) L' W r1 r2 cs); [exact IH|exact Hok0|].
      cbn [res_rel fst snd]. split; [exact H1|]. split; [reflexivity|].
      intros T. rewrite T in Hok. exact Hok.
    - (* IDl *)
      eapply res_rel_bind; [apply p_with_top; [apply start_block_SR|exact H1]|].
      intros a2 b2 H2.
      eapply res_rel_bind; [apply (p_kids cs); [exact IH|exact Hok|exact H2]|].
      intros; eapply p_unwind; eassumption.
    - (* IDt *)
      eapply res_rel_bind; [apply p_with_top; [apply new_line_SR|exact H1]|].
      intros a2 b2 H2.
      eapply p_wrap; eauto; [apply start_deco_SR; exact Hok|apply end_deco_SR; exact Hok1].
    - (* IDd *)
      destruct (usub 24 (e_min sz) 2) as [iw_| | |]; cbn [bind res_rel]; auto.
      apply (p_scope L' W r1 r2 a1 b1 _ _ (rkids d mw cs)); [exact H1| |].
      { intros; apply p_kids; assumption. }
      intros w u v a3 b3 Huv Hwp H3.
      eapply res_rel_bind; [apply sim_with_top; [|exact H3]|].
      { intros x y Hxy. eapply append_subrender_SR; [exact Hxy|exact Huv|].
        intros T. specialize (Hwp T). change (swidth (ptext [32; 32])) with 2. lia. }
      intros; eapply p_unwind; eassumption.
    - (* IBreak *)
      eapply res_rel_bind; [apply p_with_top; [apply new_line_hard_SR|exact H1]|].
      intros; eapply p_unwind; eassumption.
    - (* ITable *)
      match goal with
      | |- res_rel _ (bind ?e _) (bind ?e _) =>
        destruct e as [col_sizes| | |]; cbn [bind res_rel]; auto
      end.
      eapply res_rel_bind; [apply sim_top, H1|]. intros x y (Hxy & E1 & E2).
      destruct (SR_fields _ _ _ _ _ _ Hxy) as (Ew & _ & _ & _ & _ & _ & _ & Eo & _ & EW & _).
      rewrite Ew, Eo.
      change (o_raw (with_pad (sopts x))) with (o_raw (sopts x)).
      change (o_borders (with_pad (sopts x))) with (o_borders (sopts x)).
      set (vr := o_raw (sopts x)
                 || ((swidth_ x <? sumN (map e_min col_sizes) + (N.of_nat (length col_sizes) - 1))
                     || (swidth_ x =? 0))).
      match goal with
      | |- res_rel _ (bind ?e _) (bind ?e _) =>
        destruct e as [col_widths| | |] eqn:Hcw; cbn [bind res_rel]; auto
      end.
      assert (Hv : vr = true -> forall w, In w col_widths -> w = W).
      { intros E w Hw. rewrite E in Hcw. cbn [negb] in Hcw. injection Hcw as Hcw. rewrite <- Hcw in Hw.
        apply in_map_iff in Hw. destruct Hw as (? & <- & _). exact EW. }
      eapply res_rel_bind; [apply p_with_top; [apply start_block_SR|exact H1]|].
      intros a2 b2 H2.
      eapply res_rel_bind with (P := St L' W r1 r2).
      { match goal with |- res_rel _ (if ?c then _ else _) _ => destruct c end; [|exact H2].
        apply p_with_top; [apply hborder_SR|exact H2]. }
      intros a3 b3 H3.
      eapply res_rel_bind with (P := St L' W r1 r2); [|intros; eapply p_unwind; eassumption].
      apply (res_rel_fold (St L' W r1 r2) (row_body d mw vr col_widths) (row_body d mw vr col_widths) rows);
        [|exact H3].
      intros r Hr a' b' H'.
      apply Forall_flat_map in IH. rewrite Forall_forall in IH. specialize (IH r Hr).
      unfold row_kids in IH. apply Forall_flat_map in IH.
      rewrite forallb_forall in Hok0. specialize (Hok0 r Hr).
      apply (p_row vr col_widths L' W r r1 r2 a' b' Hok Hv IH); [|exact H'].
      destruct r as [cells rs]. exact Hok0.
    - (* ITableBody *) reflexivity.
    - (* ITableRow *) reflexivity.
    - (* ITableCell *) reflexivity.
    - (* IFragStart *)
      eapply res_rel_bind; [apply p_with_top'; [apply frag_SR|exact H1]|].
      intros; eapply p_unwind; eassumption.
    - (* IListItem *)
      eapply (p_wrap start_block (fun s => Ok (end_block s))); eauto; [apply start_block_SR|].
      apply pureS_op, end_block_SR.
    - (* ISup *)
      destruct (sup_digits cs) as [digitstr|] eqn:Esup.
      + assert (Ed : exists s0, digitstr = map sup_char s0).
        { unfold sup_digits in Esup. destruct cs as [|n0 [|? ?]]; try discriminate.
          destruct (rn_info n0); try discriminate. destruct (forallb is_ascii_digit t); [|discriminate].
          injection Esup as <-. eauto. }
        destruct Ed as [s0 ->].
        eapply res_rel_bind; [apply p_inline; [apply tok_sup|exact H1]|]. intros; eapply p_unwind; eassumption.
      + eapply p_wrap; eauto; [apply start_deco_SR; exact Hok|apply end_deco_SR; exact Hok1].
  Qed.
End NodeSim.
(* ================================================================== *)
(* 6. The whole renderer                                                *)
(* ================================================================== *)

Lemma no_pad_id o : o_pad o = false -> no_pad o = o.
Proof. destruct o. unfold no_pad. cbn. intros ->. reflexivity. Qed.

Lemma sub_new_SR tb o1 width : SR tb o1 [] width (sub_new width (no_pad o1)) (sub_new width (with_pad o1)).
Proof.
  exists [], None. unfold sub_new. split; [reflexivity|]. cbn [sopts swidth_ ws_stack pending_frags slines wrapping].
  repeat split; auto.
Qed.

Theorem pad_render_tree_SR tb d mw o1 width tree :
  (tb = true -> o_allow_overflow o1 = false) -> pok tb d [] tree = true ->
  res_rel (SR tb o1 [] width) (render_tree d mw (no_pad o1) width tree)
                              (render_tree d mw (with_pad o1) width tree).
Proof.
  intros Htb Hok. unfold render_tree.
  destruct (est_of d mw tree) as [e| | |]; cbn [bind res_rel]; auto.
  eapply res_rel_bind.
  { apply (node_pad_all tb o1 d mw Htb tree [] width [] []); [exact Hok|].
    split; [reflexivity|]. eexists _, _. cbn [stack]. split; [reflexivity|]. split; [reflexivity|].
    apply sub_new_SR. }
  intros a b (Hl & s1 & s2 & E1 & E2 & Hs). rewrite E1, E2, <- Hl.
  unfold sub_finalise.
  destruct (SR_fields _ _ _ _ _ _ Hs) as (_ & _ & _ & _ & _ & _ & _ & Eo & _). rewrite Eo.
  change (o_footnotes (with_pad (sopts s1))) with (o_footnotes (sopts s1)).
  destruct (if o_footnotes (sopts s1) then finalise_from 1 (links a) else []) as [|l ls]; [exact Hs|].
  eapply res_rel_bind; [apply start_block_SR, Hs|]. intros x y Hxy. cbn [res_rel].
  apply fmt_links_SR, Hxy.
Qed.

(* ---- the relation between the lines of the two runs, as seen from outside ---- *)

(* the padded line: the same items (characters with their tags, fragment markers) followed by
   padding characters; the tag of a padding character inside the line (table cells) may differ *)
Definition line_pad (l1 l2 : tline) : Prop := prel (items l1) (items l2).

Definition rline_pad (r1 r2 : rline) : Prop :=
  match r1, r2 with
  | RText l1, RText l2 => line_pad l1 l2
  | RLine b1 t1, RLine b2 t2 => b1 = b2 /\ t1 = t2
  | _, _ => False
  end.

Lemma RLR_rline_pad tb W r1 r2 : RLR tb W r1 r2 -> rline_pad r1 r2.
Proof. intros [l1 l2 (A & _)|b t]; cbn [rline_pad]; auto. Qed.

Lemma rline_pad_tagged r1 r2 : rline_pad r1 r2 -> line_pad (rline_into_tagged r1) (rline_into_tagged r2).
Proof.
  destruct r1 as [l1|b1 t1], r2 as [l2|b2 t2]; cbn [rline_pad rline_into_tagged]; try tauto.
  intros [-> ->]. apply prel_refl.
Qed.

(* strings: the padded string is the unpadded one followed by padding spaces *)
Lemma line_pad_string l1 l2 :
  line_pad l1 l2 -> exists k, tl_string l2 = tl_string l1 ++ repeat_chr padc k.
Proof.
  intros (a & p & E & Ha & Hp). exists (length p).
  rewrite !tl_string_items, E, ichars_app, (ichars_ieqs _ _ Ha), (ichars_pads _ Hp). reflexivity.
Qed.

Lemma rline_pad_string r1 r2 :
  rline_pad r1 r2 -> exists k, rline_string r2 = rline_string r1 ++ repeat_chr padc k.
Proof.
  destruct r1 as [l1|b1 t1], r2 as [l2|b2 t2]; cbn [rline_pad rline_string]; try tauto.
  - apply line_pad_string.
  - intros [-> _]. exists O. cbn [repeat_chr]. rewrite app_nil_r. reflexivity.
Qed.

(* removing trailing spaces (U+0020), as the checker does with trim_end_matches(' ') *)
Fixpoint drop_sp (t : text) : text :=
  match t with
  | [] => []
  | c :: t' => if cp c =? 32 then drop_sp t' else t
  end.
Definition rstrip (t : text) : text := rev (drop_sp (rev t)).

Lemma rev_repeat_chr c k : rev (repeat_chr c k) = repeat_chr c k.
Proof.
  induction k as [|k IH]; [reflexivity|]. cbn [repeat_chr rev]. rewrite IH.
  clear IH. induction k as [|k IH]; [reflexivity|]. cbn [repeat_chr app]. rewrite IH. reflexivity.
Qed.

Lemma rstrip_pad t k : rstrip (t ++ repeat_chr padc k) = rstrip t.
Proof.
  unfold rstrip. rewrite rev_app_distr, rev_repeat_chr. f_equal.
  induction k as [|k IH]; [reflexivity|]. cbn [repeat_chr app drop_sp]. exact IH.
Qed.

Definition strings (rs : list rline) : list text := map rline_string rs.

Lemma rlines_pad_strings rs1 rs2 :
  Forall2 rline_pad rs1 rs2 ->
  Forall2 (fun a b => exists k, b = a ++ repeat_chr padc k) (strings rs1) (strings rs2) /\
  map rstrip (strings rs1) = map rstrip (strings rs2).
Proof.
  induction 1 as [|r1 r2 rs1 rs2 Hr _ [IH1 IH2]]; cbn [strings map]; [split; [constructor|reflexivity]|].
  destruct (rline_pad_string _ _ Hr) as [k Ek]. split.
  - constructor; [exists k; exact Ek|exact IH1].
  - fold (strings rs1) (strings rs2). rewrite IH2, Ek, rstrip_pad. reflexivity.
Qed.

(* ---- the side condition ---- *)
(* Either overflow is not allowed and the tree satisfies pok with tables allowed, or the tree
   satisfies pok without any table. *)
Definition pad_side (d : deco) (ovf : bool) (tree : rnode) : bool :=
  (negb ovf && pok true d [] tree) || pok false d [] tree.

(* MAIN THEOREM.  o1: padding off; with_pad o1: the same options with padding on. *)
Theorem c15_pad_render_tree d mw o1 width tree :
  o_pad o1 = false -> pad_side d (o_allow_overflow o1) tree = true ->
  res_rel (fun s1 s2 => res_rel (Forall2 rline_pad) (sub_into_lines s1) (sub_into_lines s2))
          (render_tree d mw o1 width tree) (render_tree d mw (with_pad o1) width tree).
Proof.
  intros Hp Hside. rewrite <- (no_pad_id o1 Hp) at 1.
  unfold pad_side in Hside. apply orb_true_iff in Hside.
  assert (G : exists tb, (tb = true -> o_allow_overflow o1 = false) /\ pok tb d [] tree = true).
  { destruct Hside as [H|H].
    - apply andb_true_iff in H. destruct H as [H1 H2]. exists true. split; [|exact H2].
      intros _. destruct (o_allow_overflow o1); [discriminate|reflexivity].
    - exists false. split; [discriminate|exact H]. }
  destruct G as (tb & Htb & Hok).
  eapply res_rel_impl; [|apply (pad_render_tree_SR tb d mw o1 width tree Htb Hok)].
  intros s1 s2 Hs. eapply res_rel_impl; [|apply (sub_into_lines_SR _ _ _ _ _ _ Hs)].
  intros rs1 rs2 HF. eapply F2_impl; [|exact HF]. intros r1 r2. apply RLR_rline_pad.
Qed.
Print Assumptions c15_pad_render_tree.

(* the same outcome; when Ok: the same number of lines, and line by line the padded string is the
   unpadded string followed by padding spaces, hence equal after removing trailing spaces *)
Corollary c15_pad_render_tree_rstrip d mw o1 width tree :
  o_pad o1 = false -> pad_side d (o_allow_overflow o1) tree = true ->
  res_rel (fun rs1 rs2 =>
             length rs1 = length rs2 /\
             Forall2 (fun a b => exists k, b = a ++ repeat_chr padc k) (strings rs1) (strings rs2) /\
             map rstrip (strings rs1) = map rstrip (strings rs2))
          (do s <- render_tree d mw o1 width tree; sub_into_lines s)
          (do s <- render_tree d mw (with_pad o1) width tree; sub_into_lines s).
Proof.
  intros Hp Hside. eapply res_rel_bind; [apply c15_pad_render_tree; assumption|].
  intros s1 s2 H. eapply res_rel_impl; [|exact H]. intros rs1 rs2 HF.
  split; [apply (Forall2_len _ _ _ HF)|]. apply rlines_pad_strings, HF.
Qed.
Print Assumptions c15_pad_render_tree_rstrip.

(* ---- the routes of Api.v ---- *)
Section RoutesPad.
  Variable inl : list (text * text) -> res (list styledecl).
  Variable dr : list node -> res (list ruleset).

  Lemma render_options_pad c : render_options (set_pad c) = with_pad (render_options c).
  Proof. reflexivity. Qed.

  Lemma to_render_tree_pad c doc : to_render_tree inl dr (set_pad c) doc = to_render_tree inl dr c doc.
  Proof. reflexivity. Qed.

  Definition doc_side (c : config) (doc : list node) : Prop :=
    forall tree, to_render_tree inl dr c doc = Ok tree -> pad_side (c_deco c) (c_overflow c) tree = true.

  Lemma pad_render_with_context c tree w :
    c_pad c = false -> pad_side (c_deco c) (c_overflow c) tree = true ->
    res_rel (fun s1 s2 => res_rel (Forall2 rline_pad) (sub_into_lines s1) (sub_into_lines s2))
            (render_with_context c tree w) (render_with_context (set_pad c) tree w).
  Proof.
    intros Hp Hs. unfold render_with_context. destruct (w =? 0); [exact I|].
    rewrite render_options_pad. apply c15_pad_render_tree; [exact Hp|exact Hs].
  Qed.

  Theorem c15_pad_lines_from_read c doc w :
    c_pad c = false -> doc_side c doc ->
    res_rel (Forall2 line_pad) (lines_from_read inl dr c doc w) (lines_from_read inl dr (set_pad c) doc w).
  Proof.
    intros Hp Hs. unfold lines_from_read. rewrite to_render_tree_pad.
    destruct (to_render_tree inl dr c doc) as [tree| | |] eqn:Et; cbn [bind res_rel]; auto.
    eapply res_rel_bind; [apply pad_render_with_context; [exact Hp|apply Hs, Et]|].
    intros s1 s2 H. eapply res_rel_bind; [exact H|]. intros rs1 rs2 HF. cbn [res_rel].
    clear -HF. induction HF; cbn [map]; constructor; auto. apply rline_pad_tagged. assumption.
  Qed.

  Definition join_nl (ls : list text) : text := flat_map (fun l => l ++ [newline_chr]) ls.

  Lemma join_nl_strings rs :
    flat_map (fun l => rline_string l ++ [newline_chr]) rs = join_nl (strings rs).
  Proof.
    unfold join_nl, strings. induction rs as [|r rs IH]; [reflexivity|]. cbn [flat_map map].
    rewrite IH. reflexivity.
  Qed.

  (* the string route does not strip anything itself: the padded output is the unpadded output
     with padding spaces added at the end of lines *)
  Theorem c15_pad_string_from_read c doc w :
    c_pad c = false -> doc_side c doc ->
    res_rel (fun t1 t2 => exists ls1 ls2,
               t1 = join_nl ls1 /\ t2 = join_nl ls2 /\ length ls1 = length ls2 /\
               Forall2 (fun a b => exists k, b = a ++ repeat_chr padc k) ls1 ls2 /\
               map rstrip ls1 = map rstrip ls2)
            (string_from_read inl dr c doc w) (string_from_read inl dr (set_pad c) doc w).
  Proof.
    intros Hp Hs. unfold string_from_read. rewrite to_render_tree_pad.
    destruct (to_render_tree inl dr c doc) as [tree| | |] eqn:Et; cbn [bind res_rel]; auto.
    eapply res_rel_bind; [apply pad_render_with_context; [exact Hp|apply Hs, Et]|].
    intros s1 s2 H. unfold sub_into_string. eapply res_rel_bind; [exact H|]. intros rs1 rs2 HF.
    cbn [res_rel]. exists (strings rs1), (strings rs2).
    destruct (rlines_pad_strings _ _ HF) as [A B].
    split; [apply join_nl_strings|]. split; [apply join_nl_strings|].
    split; [unfold strings; rewrite !map_length; apply (Forall2_len _ _ _ HF)|]. auto.
  Qed.
End RoutesPad.
Print Assumptions c15_pad_lines_from_read.
Print Assumptions c15_pad_string_from_read.
(* ================================================================== *)
(* 7. A simpler sufficient condition: no preformatted text at all       *)
(* ================================================================== *)

(* for the decorators whose ordered-list prefix does not get narrower between two numbers
   (RenderWidth.ol_prefix_monotone / _sat: the three built-in ones) every marker fits *)
Lemma ol_fit_std d start n :
  ol_prefix_monotone d -> ol_prefix_sat d -> (i64_min <= start)%Z ->
  ol_fit d (ol_pw d start n) start n = true.
Proof.
  intros Hd Hsat Hmin.
  assert (Hpw : ol_prefix_size d start n = Ok (ol_pw d start n)) by reflexivity.
  assert (G : forall m k, (k + m <= n)%nat -> ol_fit d (ol_pw d start n) (ol_num start k) m = true).
  { induction m as [|m IH]; intros k Hk; cbn [ol_fit]; [reflexivity|].
    apply andb_true_iff. split.
    - pose proof (ol_marker_width d start n _ k Hd Hsat Hmin Hpw) as Hw.
      unfold ol_marker in Hw. rewrite swidth_pad_width in Hw. apply N.leb_le.
      assert (Hk' : (k < n)%nat) by lia. specialize (Hw Hk'). lia.
    - apply (IH (S k)). lia. }
  apply (G n O). lia.
Qed.

(* no style of the tree (nodes, table rows, cells) has white-space: pre / pre-wrap (a <pre>
   element carries such a style), and ordered lists start at an i64 *)
Fixpoint nopre (n : rnode) {struct n} : bool :=
  match wsm_of (rn_style n) with Some _ => false | None => true end &&
  match rn_info n with
  | IText _ | IImg _ _ | IBreak | IFragStart _ => true
  | IContainer cs | IEm cs | IStrong cs | IStrikeout cs | ICode cs | IBlock cs | IListItem cs
  | IDiv cs | IDl cs | IDt cs | ISup cs | IHeader _ cs | IBlockQuote cs | IUl cs | IDd cs
  | ILink _ cs => forallb nopre cs
  | IOl start cs => (i64_min <=? start)%Z && forallb nopre cs
  | ITable rows _ =>
    forallb (fun r => match r with
                      | RRow cells rs =>
                        match wsm_of rs with Some _ => false | None => true end &&
                        forallb (fun c => match c with
                                          | RCell _ k cst =>
                                            match wsm_of cst with Some _ => false | None => true end &&
                                            forallb nopre k
                                          end) cells
                      end) rows
  | ITableBody _ | ITableRow _ | ITableCell _ => true
  end.

Lemma tok_nil t : tok [] t = true.
Proof. reflexivity. Qed.

Lemma forallb_impl {A} (f g : A -> bool) l :
  Forall (fun x => f x = true -> g x = true) l -> forallb f l = true -> forallb g l = true.
Proof.
  induction 1 as [|x l Hx _ IH]; cbn [forallb]; [auto|]. intros H. apply andb_true_iff in H.
  destruct H as [H1 H2]. rewrite (Hx H1), (IH H2). reflexivity.
Qed.

Lemma nopre_pok d :
  ol_prefix_monotone d -> ol_prefix_sat d -> forall n, nopre n = true -> pok true d [] n = true.
Proof.
  intros Hd Hsat. apply (rnode_ind' (fun n => nopre n = true -> pok true d [] n = true)).
  intros i sty IH H. cbn [nopre pok rn_info rn_style] in *. apply andb_true_iff in H. destruct H as [Hs H].
  unfold push_mode. destruct (wsm_of sty); [discriminate|]. clear Hs.
  destruct i; cbn [direct_kids] in IH; rewrite ?tok_nil; cbn [andb]; try reflexivity;
    try (apply (forallb_impl _ _ _ IH H)).
  - (* IOl *)
    apply andb_true_iff in H. destruct H as [H1 H2]. apply andb_true_iff. split.
    + cbn [negb orb]. apply ol_fit_std; auto. apply Z.leb_le, H1.
    + apply (forallb_impl _ _ _ IH H2).
  - (* ITable *)
    apply Forall_flat_map in IH. revert H. apply forallb_impl.
    eapply Forall_impl; [|exact IH]. intros [cells rs] HF Hr.
    apply andb_true_iff in Hr. destruct Hr as [Hrs Hc].
    unfold push_mode. destruct (wsm_of rs); [discriminate|].
    unfold row_kids in HF. cbn [row_cells] in HF. apply Forall_flat_map in HF.
    revert Hc. apply forallb_impl. eapply Forall_impl; [|exact HF]. intros [k0 k cst] HK Hcell.
    cbn [cell_content] in HK. apply andb_true_iff in Hcell. destruct Hcell as [Hcs Hk].
    destruct (wsm_of cst); [discriminate|]. apply (forallb_impl _ _ _ HK Hk).
Qed.

Corollary c15_pad_render_tree_nopre d mw o1 width tree :
  o_pad o1 = false -> o_allow_overflow o1 = false ->
  ol_prefix_monotone d -> ol_prefix_sat d -> nopre tree = true ->
  res_rel (fun s1 s2 => res_rel (Forall2 rline_pad) (sub_into_lines s1) (sub_into_lines s2))
          (render_tree d mw o1 width tree) (render_tree d mw (with_pad o1) width tree).
Proof.
  intros Hp Ho Hd Hsat Hn. apply c15_pad_render_tree; [exact Hp|].
  unfold pad_side. rewrite Ho, (nopre_pok d Hd Hsat tree Hn). reflexivity.
Qed.
Print Assumptions c15_pad_render_tree_nopre.

(* ================================================================== *)
(* 8. Examples and the recorded counterexamples                         *)
(* ================================================================== *)

Definition exp_o1 : ropts := render_options (with_decorator plain_deco).
Definition exp_out (r : res subr) : res (list (list N)) :=
  do s <- r; do ls <- sub_into_lines s; Ok (map (fun l => cps (rline_string l)) ls).
Definition exp_txt (l : list N) : rnode := ex_n (IText (ex_str l)).
Definition exp_nl : chr := mkchr 10 None true 16.
(* the style of a <pre> element *)
Definition exp_pre : cstyle :=
  mkcs (mkcore ws_default ws_default ws_default (mkws (Some WsPre) OAgent spec0 false) ws_default)
       None None true.

(* <p>hi there</p><pre>pre  x</pre>
   <table><tr><td>ab cd<td><blockquote>q r</blockquote><tr><td>h<td>ij</table>
   <ol start=9><li>one two three four five<li>y</ol><blockquote>quoted<br>x</blockquote> *)
Definition exp_tree : rnode :=
  ex_n (IContainer
    [ex_n (IBlock [exp_txt [104;105;32;116;104;101;114;101]]);
     RN (IBlock [exp_txt [112;114;101;32;32;120]]) exp_pre;
     ex_n (ITable [RRow [ex_cell [97;98;32;99;100];
                         RCell 1 [ex_n (IBlockQuote [exp_txt [113;32;114]])] cstyle0] cstyle0;
                   RRow [ex_cell [104]; ex_cell [105;106]] cstyle0] 2);
     ex_n (IOl 9 [ex_n (IListItem [exp_txt [111;110;101;32;116;119;111;32;116;104;114;101;101;32;
                                            102;111;117;114;32;102;105;118;101]]);
                  ex_n (IListItem [exp_txt [121]])]);
     ex_n (IBlockQuote [exp_txt [113;117;111;116;101;100]; ex_n IBreak; exp_txt [120]])]).

(* the side condition holds (a preformatted block without a line break, a table, overflow off) *)
Example exp_side : pad_side plain_deco (o_allow_overflow exp_o1) exp_tree = true.
Proof. vm_compute. reflexivity. Qed.

(* the theorem applies *)
Example exp_applies := c15_pad_render_tree_rstrip plain_deco 3 exp_o1 16 exp_tree eq_refl exp_side.

(* and the two outputs are really different: 16 lines each, 9 of them padded *)
Example exp_unpadded :
  exp_out (render_tree plain_deco 3 exp_o1 16 exp_tree) =
  Ok [[104;105;32;116;104;101;114;101]; [];
      [112;114;101;32;32;120]; [];
      [9472;9472;9472;9472;9472;9516;9472;9472;9472;9472;9472];
      [97;98;32;99;100;9474;62;32;113;32;114];
      [9472;9472;9472;9472;9472;9532;9472;9472;9472;9472;9472];
      [104;32;32;32;32;9474;105;106;32;32;32];
      [9472;9472;9472;9472;9472;9524;9472;9472;9472;9472;9472];
      [57;46;32;32;111;110;101;32;116;119;111];
      [32;32;32;32;116;104;114;101;101;32;102;111;117;114];
      [32;32;32;32;102;105;118;101]; [49;48;46;32;121]; [];
      [62;32;113;117;111;116;101;100]; [62;32;120]].
Proof. vm_compute. reflexivity. Qed.

Example exp_padded :
  exp_out (render_tree plain_deco 3 (with_pad exp_o1) 16 exp_tree) =
  Ok [[104;105;32;116;104;101;114;101;32;32;32;32;32;32;32;32]; [];
      [112;114;101;32;32;120;32;32;32;32;32;32;32;32;32;32]; [];
      [9472;9472;9472;9472;9472;9516;9472;9472;9472;9472;9472];
      [97;98;32;99;100;9474;62;32;113;32;114];
      [9472;9472;9472;9472;9472;9532;9472;9472;9472;9472;9472];
      [104;32;32;32;32;9474;105;106;32;32;32];
      [9472;9472;9472;9472;9472;9524;9472;9472;9472;9472;9472];
      [57;46;32;32;111;110;101;32;116;119;111;32;32;32;32;32];
      [32;32;32;32;116;104;114;101;101;32;102;111;117;114;32;32];
      [32;32;32;32;102;105;118;101;32;32;32;32;32;32;32;32];
      [49;48;46;32;121;32;32;32;32;32;32;32;32;32;32;32]; [];
      [62;32;113;117;111;116;101;100;32;32;32;32;32;32;32;32];
      [62;32;120;32;32;32;32;32;32;32;32;32;32;32;32;32]].
Proof. vm_compute. reflexivity. Qed.

(* with overflow allowed the theorem applies to table-free trees: <blockquote>ab c d</blockquote>,
   width 2 *)
Definition exp_o1_ovf : ropts := render_options (set_overflow (with_decorator plain_deco)).
Definition exp_quote : rnode := ex_n (IBlockQuote [exp_txt [97;98;32;99;32;100]]).
Example exp_side_ovf : pad_side plain_deco (o_allow_overflow exp_o1_ovf) exp_quote = true.
Proof. vm_compute. reflexivity. Qed.
Example exp_applies_ovf :=
  c15_pad_render_tree_rstrip plain_deco 3 exp_o1_ovf 2 exp_quote eq_refl exp_side_ovf.
Example exp_ovf_outputs :
  exp_out (render_tree plain_deco 3 exp_o1_ovf 2 exp_quote) = Ok [[62;32;97;98]; [62;32;99;32;100]] /\
  exp_out (render_tree plain_deco 3 (with_pad exp_o1_ovf) 2 exp_quote) =
  Ok [[62;32;97;98;32]; [62;32;99;32;100]].
Proof. split; vm_compute; reflexivity. Qed.

(* the no-pre corollary applies to RenderWidth.ex_tree *)
Example exp_nopre : nopre ex_tree = true.
Proof. vm_compute. reflexivity. Qed.
Example exp_applies_nopre :=
  c15_pad_render_tree_nopre plain_deco 3 exp_o1 12 ex_tree eq_refl eq_refl
    ol_prefix_monotone_plain ol_prefix_sat_plain exp_nopre.

(* COUNTEREXAMPLE 1 (the recorded finding pad_blank_pre_line): <pre>\n\n</pre><p>x</p>, width 6.
   The parser drops the first line break; the second one ends an empty line.  Without padding the
   line is empty, has no content, and the paragraph does not get a blank line in front of it;
   with padding the line is six spaces, counts as content, and a blank line is added:
   2 lines against 3.  The side condition fails. *)
Definition cex_blank_pre : rnode :=
  ex_n (IContainer [RN (IBlock [ex_n (IText [exp_nl])]) exp_pre; ex_n (IBlock [exp_txt [120]])]).
Example cex_blank_pre_differs :
  pad_side plain_deco false cex_blank_pre = false /\
  exp_out (render_tree plain_deco 3 exp_o1 6 cex_blank_pre) = Ok [[]; [120]] /\
  exp_out (render_tree plain_deco 3 (with_pad exp_o1) 6 cex_blank_pre) =
  Ok [[32;32;32;32;32;32]; []; [120;32;32;32;32;32]].
Proof. split; [|split]; vm_compute; reflexivity. Qed.

(* the condition is not necessary: <pre>a\n\nb</pre><p>x</p> has an empty preformatted line (the
   side condition fails), but some line with content precedes it, and the two outputs agree *)
Definition exp_pre_inner_blank : rnode :=
  ex_n (IContainer [RN (IBlock [ex_n (IText (ex_str [97] ++ [exp_nl; exp_nl] ++ ex_str [98]))]) exp_pre;
                    ex_n (IBlock [exp_txt [120]])]).
Example exp_pre_inner_blank_agrees :
  pad_side plain_deco false exp_pre_inner_blank = false /\
  exp_out (render_tree plain_deco 3 exp_o1 6 exp_pre_inner_blank) = Ok [[97]; []; [98]; []; [120]] /\
  exp_out (render_tree plain_deco 3 (with_pad exp_o1) 6 exp_pre_inner_blank) =
  Ok [[97;32;32;32;32;32]; [32;32;32;32;32;32]; [98;32;32;32;32;32]; []; [120;32;32;32;32;32]].
Proof. split; [|split]; vm_compute; reflexivity. Qed.

(* COUNTEREXAMPLE 2 (new): overflow allowed + a table cell whose content overflows the cell.
   <table><tr><td><blockquote><p>b</p><table><tr><td>a<td>a<td>a</table></blockquote><td>xy</table>
   width 20.  The inner table makes the estimated minimum of the block quote (7) larger than its
   estimated size (6), the first column gets 6 columns, and the block quote renders 5 + 2 = 7 wide.
   Without padding the cell line "> b" is padded by the table to the cell width 6; with padding it
   is "> b    " already (7 wide, padded to the width of the quote's sub-renderer) and is left alone:
   the column separator moves one column to the right on that line only. *)
Definition cex_inner : rnode := ex_n (ITable [RRow [ex_cell [97]; ex_cell [97]; ex_cell [97]] cstyle0] 3).
Definition cex_ovf_table : rnode :=
  ex_n (ITable [RRow [RCell 1 [ex_n (IBlockQuote [ex_n (IBlock [exp_txt [98]]); cex_inner])] cstyle0;
                      ex_cell [120;121]] cstyle0] 2).
Example cex_ovf_table_differs :
  pad_side plain_deco true cex_ovf_table = false /\
  (exists l1, nth_error match exp_out (render_tree plain_deco 3 exp_o1_ovf 20 cex_ovf_table) with
                        | Ok ls => ls | _ => [] end 1 = Some l1 /\
              l1 = [62;32;98;32;32;32;9474;120;121]) /\
  (exists l2, nth_error match exp_out (render_tree plain_deco 3 (with_pad exp_o1_ovf) 20 cex_ovf_table) with
                        | Ok ls => ls | _ => [] end 1 = Some l2 /\
              l2 = [62;32;98;32;32;32;32;9474;120;121]).
Proof. split; [|split]; [vm_compute; reflexivity| |]; eexists; split; vm_compute; reflexivity. Qed.

(* without overflow the same tree is TooNarrow in both runs (the theorem applies) *)
Example cex_ovf_table_no_ovf :
  pad_side plain_deco false cex_ovf_table = true /\
  exp_out (render_tree plain_deco 3 exp_o1 20 cex_ovf_table) = TooNarrow /\
  exp_out (render_tree plain_deco 3 (with_pad exp_o1) 20 cex_ovf_table) = TooNarrow.
Proof. split; [|split]; vm_compute; reflexivity. Qed.

(* OBSERVATION (rich decorator): inside a table cell the padding characters of the two runs carry
   different annotations.  <a href=u><table><tr><td>ab cd<td>e<tr><td>h<td>ij</table></a>, width 12:
   without pad_block_width the cell padding is made by the table and carries the link annotation of
   the enclosing <a>; with it the padding is made by the wrapped block and carries no annotation.
   (code point, number of annotations) of line 4: *)
Definition exp_rich : ropts := render_options (with_decorator rich_deco).
Definition exp_link_table : rnode :=
  ex_n (ILink (ex_str [117])
         [ex_n (ITable [RRow [ex_cell [97;98;32;99;100]; ex_cell [101]] cstyle0;
                        RRow [ex_cell [104]; ex_cell [105;106]] cstyle0] 2)]).
Definition exp_tags (r : res subr) (i : nat) : list (N * nat) :=
  match (do s <- r; sub_into_lines s) with
  | Ok ls => match nth_error ls i with
             | Some l => flat_map (fun e => match e with
                                            | Str s t => map (fun c => (cp c, length t)) s
                                            | Frag _ => []
                                            end) (tv (rline_into_tagged l))
             | None => []
             end
  | _ => []
  end.
Example exp_cell_padding_tags :
  exp_tags (render_tree rich_deco 3 exp_rich 12 exp_link_table) 3 =
    [(104,1%nat); (32,1%nat); (32,1%nat); (32,1%nat); (32,1%nat); (9474,1%nat); (105,1%nat); (106,1%nat)] /\
  exp_tags (render_tree rich_deco 3 (with_pad exp_rich) 12 exp_link_table) 3 =
    [(104,1%nat); (32,0%nat); (32,0%nat); (32,0%nat); (32,0%nat); (9474,1%nat); (105,1%nat); (106,1%nat)].
Proof. split; vm_compute; reflexivity. Qed.

Print Assumptions exp_applies.
Print Assumptions exp_applies_ovf.
Print Assumptions exp_applies_nopre.
Print Assumptions cex_blank_pre_differs.
Print Assumptions cex_ovf_table_differs.

(* ---- the route theorems on a document (RenderTotal.ex_doc: paragraph, table with colspan, tfoot,
   ordered list), plain configuration with footnotes, width 20 ---- *)
From H2T Require CssParse Proofs.RenderTotal.
Example exr_doc_side : doc_side CssParse.inline_styles CssParse.doc_rules cfg_plain RenderTotal.ex_doc.
Proof. intros tree E. vm_compute in E. injection E as <-. vm_compute. reflexivity. Qed.
Example exr_lines_applies :=
  c15_pad_lines_from_read CssParse.inline_styles CssParse.doc_rules cfg_plain RenderTotal.ex_doc 20
    eq_refl exr_doc_side.
Example exr_string_applies :=
  c15_pad_string_from_read CssParse.inline_styles CssParse.doc_rules cfg_plain RenderTotal.ex_doc 20
    eq_refl exr_doc_side.
(* both runs succeed, and the padded string is longer *)
Example exr_string_lengths :
  match string_from_read CssParse.inline_styles CssParse.doc_rules cfg_plain RenderTotal.ex_doc 20,
        string_from_read CssParse.inline_styles CssParse.doc_rules (set_pad cfg_plain) RenderTotal.ex_doc 20 with
  | Ok t1, Ok t2 => (length t1 <? length t2)%nat = true
  | _, _ => False
  end.
Proof. vm_compute. reflexivity. Qed.
Print Assumptions exr_lines_applies.
Print Assumptions exr_string_applies.
